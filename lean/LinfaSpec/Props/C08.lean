import LinfaSpec.Proofs.Dbscan
import LinfaSpec.Proofs.Optics

/-!
# C08 — DBSCAN and OPTICS output is the density clustering of the input

Theorems about `LinfaSpec.Dbscan` / `LinfaSpec.Optics`, the models of
`DbscanValidParams::transform` and `OpticsValidParams::transform`, over an **arbitrary**
neighbour function `nbrs` (what `within_range` returns) with the three properties every range
query of a metric has:

* `hrange` — the positions returned are positions of the dataset,
* `hnd`    — no position is returned twice,
* `hsym`   — `j` is in range of `i` iff `i` is in range of `j`.

`core nbrs mp x` is `min_points ≤ |within_range(x)|` (the query result contains `x` itself),
`isLab L x v` is `L[x] = Some(v)`.
-/
namespace LinfaSpec.Props.C08
open LinfaSpec LinfaSpec.Dbscan

section dbscan
variable (nbrs : Nat → List Nat) (mp n : Nat)
  (hrange : ∀ i, ∀ j ∈ nbrs i, j < n) (hnd : ∀ i, (nbrs i).Nodup)
  (hsym : ∀ i j, j ∈ nbrs i → i ∈ nbrs j)
include hrange hnd hsym

/-- one label per sample -/
theorem dbscan_length : (dbscan (some nbrs) mp n).length = n :=
  (OInv_run nbrs mp n hrange hnd hsym n).g.len

/-- **termination**: the fuel of the breadth-first loop is never the reason it stops — after every
iteration of the outer scan the search queue is empty and `search_found` is all `false`. -/
theorem dbscan_fuel_enough (k : Nat) :
    let s := ((List.range k).foldl (outerStep nbrs mp n) (init n, 0)).1
    s.queue = [] ∧ ∀ j : Nat, s.found[j]?.getD false = false := by
  intro s
  have h := OInv_run nbrs mp n hrange hnd hsym k
  refine ⟨h.qe, fun j => ?_⟩
  have := h.q.fq j
  cases hb : s.found[j]?.getD false
  · rfl
  · exact absurd (this.mp hb) List.not_mem_nil

/-- **a sample is labelled exactly when it is a core sample or lies in range of a core sample** -/
theorem dbscan_labelled_iff (x : Nat) (hx : x < n) :
    (∃ v, isLab (dbscan (some nbrs) mp n) x v) ↔
      (core nbrs mp x ∨ ∃ y, core nbrs mp y ∧ x ∈ nbrs y) := by
  have h := OInv_run nbrs mp n hrange hnd hsym n
  have hL : ∀ z, z < n → core nbrs mp z → ∃ v, isLab (dbscan (some nbrs) mp n) z v := by
    intro z hz hc
    rcases lab_cases (dbscan (some nbrs) mp n) z (by rw [dbscan_length nbrs mp n hrange hnd hsym]; exact hz) with a | a
    · exact absurd hc (h.scanned z hz a)
    · exact a
  constructor
  · rintro ⟨v, hv⟩
    rcases h.g.sound x v hv with a | ⟨y, y1, _, y3⟩
    · exact Or.inl a
    · exact Or.inr ⟨y, y1, y3⟩
  · rintro (a | ⟨y, y1, y2⟩)
    · exact hL x hx a
    · have hy : y < n := hrange x y (hsym y x y2)
      obtain ⟨v, hv⟩ := hL y hy y1
      exact h.g.closed y v hv y1 x y2

/-- **two core samples in range of each other carry the same label** -/
theorem dbscan_core_adjacent_same (x y v w : Nat)
    (hcx : core nbrs mp x) (hcy : core nbrs mp y) (hxy : y ∈ nbrs x)
    (hx : isLab (dbscan (some nbrs) mp n) x v) (hy : isLab (dbscan (some nbrs) mp n) y w) : v = w :=
  (OInv_run nbrs mp n hrange hnd hsym n).g.adj x y v w hcx hcy hxy hx hy

/-- **core samples with the same label are density-connected**: both are reached from one core
sample `s` by chains of core samples, consecutive ones in range of each other.  (Contrapositive:
core samples of different density-connected components carry different labels.) -/
theorem dbscan_components_differ (x y v : Nat)
    (hcx : core nbrs mp x) (hcy : core nbrs mp y)
    (hx : isLab (dbscan (some nbrs) mp n) x v) (hy : isLab (dbscan (some nbrs) mp n) y v) :
    ∃ s, core nbrs mp s ∧ Conn nbrs mp s x ∧ Conn nbrs mp s y := by
  have h := OInv_run nbrs mp n hrange hnd hsym n
  obtain ⟨s, _, s2, s3⟩ := h.g.seeds v (h.g.lt x v hx)
  exact ⟨s, s2, s3 x hcx hx, s3 y hcy hy⟩

/-- **a labelled sample that is not core (border sample) carries the label of a core sample that
reaches it** -/
theorem dbscan_border_label (x v : Nat) (hx : isLab (dbscan (some nbrs) mp n) x v)
    (hb : ¬ core nbrs mp x) :
    ∃ y, core nbrs mp y ∧ isLab (dbscan (some nbrs) mp n) y v ∧ x ∈ nbrs y := by
  rcases (OInv_run nbrs mp n hrange hnd hsym n).g.sound x v hx with a | a
  · exact absurd a hb
  · exact a

/-- **labels are `0..c-1` without gaps**, `c` = final `current_cluster_id`; every id labels a core
sample -/
theorem dbscan_ids_contiguous :
    (∀ x v, isLab (dbscan (some nbrs) mp n) x v → v < (run nbrs mp n).2) ∧
    ∀ v, v < (run nbrs mp n).2 → ∃ x, isLab (dbscan (some nbrs) mp n) x v ∧ core nbrs mp x := by
  have h := OInv_run nbrs mp n hrange hnd hsym n
  refine ⟨h.g.lt, fun v hv => ?_⟩
  obtain ⟨s, s1, s2, _⟩ := h.g.seeds v hv
  exact ⟨s, s1, s2⟩

end dbscan

/-! ### DBSCAN in the terms of the definition: neighbourhood `{j < n | dist i j < tol}` of a symmetric distance

`rangeQuery dist tol n` satisfies the three hypotheses of the section above for **every** symmetric
`dist`, so the clauses hold for the labelling computed from it, with nothing assumed about an index. -/
section metric
variable {α : Type} [LT α] [DecidableLT α] (dist : Nat → Nat → α) (tol : α) (mp n : Nat)

theorem mem_rangeQuery (i j : Nat) : j ∈ rangeQuery dist tol n i ↔ i < n ∧ j < n ∧ dist i j < tol := by
  unfold rangeQuery
  by_cases h : i < n <;> simp [h]

theorem rangeQuery_range (i : Nat) : ∀ j ∈ rangeQuery dist tol n i, j < n :=
  fun j h => ((mem_rangeQuery dist tol n i j).mp h).2.1

theorem rangeQuery_nodup (i : Nat) : (rangeQuery dist tol n i).Nodup := by
  unfold rangeQuery
  split
  · exact (List.nodup_range).sublist List.filter_sublist
  · exact List.nodup_nil

theorem rangeQuery_symm (hsymm : ∀ i j, dist i j = dist j i) (i j : Nat) :
    j ∈ rangeQuery dist tol n i → i ∈ rangeQuery dist tol n j := by
  intro h
  obtain ⟨h1, h2, h3⟩ := (mem_rangeQuery dist tol n i j).mp h
  exact (mem_rangeQuery dist tol n j i).mpr ⟨h2, h1, by rw [hsymm j i]; exact h3⟩

/-- **the labelling of the definition**: with the neighbourhood `{j | dist x j < tol}` of any symmetric
distance, a sample is labelled exactly when at least `min_points` samples (itself included, when
`dist x x < tol`) lie within the tolerance of it, or it lies within the tolerance of such a sample. -/
theorem dbscan_labelled_iff_metric (hsymm : ∀ i j, dist i j = dist j i) (x : Nat) (hx : x < n) :
    (∃ v, isLab (dbscan (some (rangeQuery dist tol n)) mp n) x v) ↔
      (mp ≤ (rangeQuery dist tol n x).length ∨
        ∃ y, y < n ∧ mp ≤ (rangeQuery dist tol n y).length ∧ dist y x < tol) := by
  rw [dbscan_labelled_iff (rangeQuery dist tol n) mp n (rangeQuery_range dist tol n)
    (rangeQuery_nodup dist tol n) (rangeQuery_symm dist tol n hsymm) x hx]
  unfold core
  constructor
  · rintro (a | ⟨y, y1, y2⟩)
    · exact Or.inl a
    · obtain ⟨h1, _, h3⟩ := (mem_rangeQuery dist tol n y x).mp y2
      exact Or.inr ⟨y, h1, y1, h3⟩
  · rintro (a | ⟨y, y1, y2, y3⟩)
    · exact Or.inl a
    · exact Or.inr ⟨y, y2, (mem_rangeQuery dist tol n y x).mpr ⟨y1, hx, y3⟩⟩

/-- the number of samples within the tolerance of `x` is what `core` counts -/
theorem rangeQuery_length (x : Nat) (hx : x < n) :
    (rangeQuery dist tol n x).length = ((List.range n).filter fun j => decide (dist x j < tol)).length := by
  unfold rangeQuery; rw [if_pos hx]

end metric

/-- non-vacuity: samples at 0, 1, 2, 9 on a line (distance `|a - b|` on naturals, symmetric), tolerance 2,
`min_points = 3`: sample 1 is core, 0 and 2 border, 3 noise -/
def exLine (i j : Nat) : Nat :=
  let xs := [0, 1, 2, 9]
  let a := xs[i]?.getD 0; let b := xs[j]?.getD 0
  if a < b then b - a else a - b
example : ∀ i j, exLine i j = exLine j i := by
  intro i j; unfold exLine; simp only; split <;> split <;> omega
example : dbscan (some (rangeQuery exLine 2 4)) 3 4 = [some 0, some 0, some 0, none] := by decide

/-- non-vacuity: a chain `0 - 1 - 2 - 3`, sample 4 isolated, `min_points = 3`: the relation is
symmetric, duplicate free, in range; samples 1, 2 are core, 0 and 3 border, 4 noise. -/
def exNbrs : Nat → List Nat
  | 0 => [0, 1]
  | 1 => [0, 1, 2]
  | 2 => [1, 2, 3]
  | 3 => [2, 3]
  | 4 => [4]
  | _ => []

example : dbscan (some exNbrs) 3 5 = [some 0, some 0, some 0, some 0, none] := by decide
example : (∀ i, ∀ j ∈ exNbrs i, j < 5) ∧ (∀ i, (exNbrs i).Nodup) ∧ (∀ i j, j ∈ exNbrs i → i ∈ exNbrs j) := by
  refine ⟨?_, ?_, ?_⟩
  · intro i j h
    match i with
    | 0 | 1 | 2 | 3 | 4 => simp [exNbrs] at h; omega
    | _ + 5 => simp [exNbrs] at h
  · intro i
    match i with
    | 0 | 1 | 2 | 3 | 4 => simp [exNbrs]
    | _ + 5 => simp [exNbrs]
  · intro i j h
    match i with
    | 0 | 1 | 2 | 3 | 4 => simp [exNbrs] at h; rcases h with rfl | rfl | rfl <;> simp [exNbrs]
    | _ + 5 => simp [exNbrs] at h
example : core exNbrs 3 1 ∧ ¬ core exNbrs 3 0 ∧ isLab (dbscan (some exNbrs) 3 5) 0 0 := by
  refine ⟨by unfold core; decide, by unfold core; decide, by unfold isLab; decide⟩

/-! ## OPTICS -/
section optics
open LinfaSpec.Optics
variable {D : Type} [LinearOrder D]

/-- **core distance**: every listed sample carries, as core distance, element `min_points - 1` of
the ascending list `ds` of the distances to the samples in range (itself included, distance to
itself first) — i.e. the distance to its `min_points`-th nearest neighbour if that one is in
range, and undefined (`none`) if fewer than `min_points` samples are in range.  `ds` is *the*
sorted arrangement of the in-range distances (`ds ~ map (dist i) (nbrs i)`, ascending). -/
theorem optics_core_distance (nbrs : Nat → List Nat) (dist : Nat → Nat → D) (mp n : Nat) :
    ∀ e ∈ optics (some nbrs) dist mp n, ∃ ds : List D,
      ds.Perm ((nbrs e.index).map (dist e.index)) ∧ ds.Pairwise (· ≤ ·) ∧ e.core = ds[mp - 1]? := by
  intro e he
  have h := foldl_CoreOK nbrs dist mp n (List.range n) (Optics.init n)
    (by intro e he; simp [Optics.init] at he) e he
  refine ⟨(findNeighbors nbrs dist e.index).map (dist e.index), ?_, ?_, ?_⟩
  · exact (findNeighbors_perm nbrs dist e.index).map _
  · exact findNeighbors_sorted nbrs dist e.index
  · rw [h, coreDist_eq]

/-- **the core distance does not depend on the neighbour index**: two query results for sample `i`
that contain the same positions in any order give the same core distance (this is what failed for
the linear search before the `fix:` that sorts the neighbours). -/
theorem optics_core_distance_index_independent (nbrs nbrs' : Nat → List Nat) (dist : Nat → Nat → D)
    (mp i : Nat) (h : (nbrs i).Perm (nbrs' i)) :
    coreDist dist mp i (findNeighbors nbrs dist i) = coreDist dist mp i (findNeighbors nbrs' dist i) := by
  rw [coreDist_eq, coreDist_eq, sorted_dists_unique nbrs nbrs' dist i h]

/-- `F::max` of the model is `max` of the order -/
theorem fmax_eq_max (a b : D) : fmax a b = max a b := by
  unfold fmax
  by_cases h : a < b
  · rw [if_pos h, max_eq_right (le_of_lt h)]
  · rw [if_neg h, max_eq_left (not_lt.mp h)]

/-- **reachability**: the reachability distance of a listed sample `e` is undefined, or it equals
`max(core distance of o, dist(e, o))` for a sample `o` that is listed **strictly earlier** (position
`q < p`), is a core sample (`o.core = some c`) and has `e` in range (`e.index ∈ nbrs o.index`).
This is the statement's clause "either undefined or equals max(core distance of o, distance to o) for
some core point o within the tolerance that is listed no later than the sample". -/
theorem optics_reachability_witness (nbrs : Nat → List Nat) (dist : Nat → Nat → D) (mp n : Nat)
    (hrange : ∀ i, ∀ j ∈ nbrs i, j < n) :
    ∀ (p : Nat) (e : Entry D), (optics (some nbrs) dist mp n)[p]? = some e → ∀ r : D, e.reach = some r →
      ∃ (q : Nat) (o : Entry D) (c : D), q < p ∧ (optics (some nbrs) dist mp n)[q]? = some o ∧ o.core = some c ∧
        e.index ∈ nbrs o.index ∧ r = max c (dist e.index o.index) := by
  intro p e he r hr
  have h := Optics.foldl_RInv n nbrs dist mp hrange n (Nat.le_refl n)
  obtain ⟨o, ho, c, h1, h2, h3⟩ := h.listed p e he r hr
  obtain ⟨q, hq⟩ := List.mem_iff_getElem?.mp ho
  rw [List.getElem?_take] at hq
  by_cases hqp : q < p
  · rw [if_pos hqp] at hq
    exact ⟨q, o, c, hqp, hq, h1, h2, by rw [h3, fmax_eq_max]⟩
  · rw [if_neg hqp] at hq
    exact absurd hq (by simp)

end optics

/-- **OPTICS lists every sample exactly once**: no position occurs twice in the ordering and the
positions listed are exactly `0..n-1` (hence the ordering has `n` entries).  Only `hrange` is needed;
in particular the statement does not depend on the fuel of the seed loop. -/
theorem optics_lists_each_once {D : Type} [LT D] [DecidableLT D]
    (nbrs : Nat → List Nat) (dist : Nat → Nat → D) (mp n : Nat)
    (hrange : ∀ i, ∀ j ∈ nbrs i, j < n) :
    ((Optics.optics (some nbrs) dist mp n).map (·.index)).Nodup ∧
    ∀ j, j ∈ (Optics.optics (some nbrs) dist mp n).map (·.index) ↔ j < n := by
  obtain ⟨h, hall⟩ := Optics.foldl_LInv n nbrs dist mp hrange n (Nat.le_refl n)
  refine ⟨h.nd, fun j => ?_⟩
  show j ∈ List.map (·.index) ((List.range n).foldl (Optics.outerStep nbrs dist mp n) (Optics.init n)).out ↔ j < n
  rw [h.mem j]
  constructor
  · intro hp
    unfold Optics.isProcessed at hp
    rw [← h.plen]
    cases hg : ((List.range n).foldl (Optics.outerStep nbrs dist mp n) (Optics.init n)).processed[j]? with
    | none => rw [hg] at hp; simp at hp
    | some b => exact (List.getElem?_eq_some_iff.mp hg).1
  · exact hall j

example : (∀ i, ∀ j ∈ exNbrs i, j < 5) := by
  intro i j h
  match i with
  | 0 | 1 | 2 | 3 | 4 => simp [exNbrs] at h; omega
  | _ + 5 => simp [exNbrs] at h

/-- non-vacuity (the witness of the fixed defect): samples `[0, 3, 0.5, 2.5, 1, 9, 9.5]` ×2 (so that the
distances are naturals), tolerance 5.5, `min_points = 3`.  The linear search returns `[0, 2, 3, 4]` for
sample 0, the trees `[0, 2, 4, 3]`; both give core distance 2 (= 1.0), unsorted reading gave 5. -/
def exDist (i j : Nat) : Nat :=
  let xs := [0, 6, 1, 5, 2, 18, 19]
  let a := xs[i]?.getD 0; let b := xs[j]?.getD 0
  if a < b then b - a else a - b



example : Optics.coreDist exDist 3 0 (Optics.findNeighbors (fun _ => [0, 2, 3, 4]) exDist 0) = some 2 := by
  simp [Optics.coreDist, Optics.findNeighbors, exDist, List.mergeSort, List.MergeSort.Internal.splitInTwo]
example : Optics.coreDist exDist 3 0 (Optics.findNeighbors (fun _ => [0, 2, 4, 3]) exDist 0) = some 2 := by
  simp [Optics.coreDist, Optics.findNeighbors, exDist, List.mergeSort, List.MergeSort.Internal.splitInTwo]
example : Optics.coreDist exDist 3 0 [0, 2, 3, 4] = some 5 := by decide
example : ([0, 2, 3, 4] : List Nat).Perm [0, 2, 4, 3] := by decide


/-- non-vacuity of `optics_reachability_witness`: two samples at distance 6 within the tolerance,
`min_points = 2`: sample 0 starts (core distance 6, reachability undefined), sample 1 follows with
reachability `6 = max(core(0), dist(1,0))`, witness sample 0 listed before it. -/
example : ((Optics.optics (some fun _ => [0, 1]) exDist 2 2).map fun e => (e.index, e.core, e.reach)) =
    [(0, some 6, none), (1, some 6, some 6)] := by
  simp [Optics.optics, Optics.outerStep, Optics.seedLoop, Optics.seedStep, Optics.getSeeds, Optics.init,
    Optics.coreDist, Optics.findNeighbors, Optics.isProcessed, Optics.setCore, Optics.setReach,
    Optics.getReach, Optics.fmax, Optics.argminPos, exDist, List.range, List.range.loop,
    List.mergeSort, List.MergeSort.Internal.splitInTwo]
example : ∀ i, ∀ j ∈ (fun _ : Nat => [0, 1]) i, j < 2 := by
  intro i j h; simp at h; omega

/-- records without features (the index constructor reports `ZeroDimension`): DBSCAN returns one
`None` per sample (this is the behaviour recorded as finding `C08-zero-features-dbscan`) -/
theorem dbscan_zero_dimension (mp n : Nat) :
    dbscan none mp n = List.replicate n none := rfl

example : dbscan none 2 3 = [none, none, none] := by decide

/-! ## hyper-parameter guard (`ParamGuard::check` of `DbscanParams` / `OpticsParams`) -/
section params
variable {α : Type} [LinearOrder α] [OfNat α 0]

/-- DBSCAN: `check` accepts exactly `min_points ≥ 2 ∧ tolerance > 0` and returns the parameters unchanged -/
theorem dbscan_params_check_iff (p q : Dbscan.Params α) :
    p.check = .ok q ↔ (2 ≤ p.minPoints ∧ 0 < p.tolerance ∧ q = p) := by
  unfold Dbscan.Params.check
  by_cases h1 : p.minPoints ≤ 1
  · simp [h1]; omega
  · by_cases h2 : p.tolerance ≤ 0
    · simp [h1, h2]; intro _ h; exact absurd h (not_lt.mpr h2)
    · simp only [h1, h2, if_false, Except.ok.injEq]
      exact ⟨fun e => ⟨by omega, not_le.mp h2, e.symm⟩, fun e => e.2.2.symm⟩

/-- DBSCAN tests `min_points` first: the error is `MinPoints` iff `min_points ≤ 1`, and `Tolerance` iff
`min_points ≥ 2` and `tolerance ≤ 0` -/
theorem dbscan_params_check_error (p : Dbscan.Params α) :
    (p.check = .error .minPoints ↔ p.minPoints ≤ 1) ∧
    (p.check = .error .tolerance ↔ 2 ≤ p.minPoints ∧ p.tolerance ≤ 0) := by
  unfold Dbscan.Params.check
  by_cases h1 : p.minPoints ≤ 1
  · simp [h1]; omega
  · by_cases h2 : p.tolerance ≤ 0
    · simp [h1, h2]; omega
    · simp [h1, h2]

/-- OPTICS: same accepted set -/
theorem optics_params_check_iff (p q : Optics.Params α) :
    p.check = .ok q ↔ (2 ≤ p.minPoints ∧ 0 < p.tolerance ∧ q = p) := by
  unfold Optics.Params.check
  by_cases h2 : p.tolerance ≤ 0
  · simp [h2]; intro _ h; exact absurd h (not_lt.mpr h2)
  · by_cases h1 : p.minPoints ≤ 1
    · simp [h1, h2]; omega
    · simp only [h1, h2, if_false, Except.ok.injEq]
      exact ⟨fun e => ⟨by omega, not_le.mp h2, e.symm⟩, fun e => e.2.2.symm⟩

/-- OPTICS tests the tolerance first (the other order than DBSCAN) -/
theorem optics_params_check_error (p : Optics.Params α) :
    (p.check = .error .tolerance ↔ p.tolerance ≤ 0) ∧
    (p.check = .error .minPoints ↔ 0 < p.tolerance ∧ p.minPoints ≤ 1) := by
  unfold Optics.Params.check
  by_cases h2 : p.tolerance ≤ 0
  · simp [h2]; intro h; exact absurd h (not_lt.mpr h2)
  · by_cases h1 : p.minPoints ≤ 1
    · simp [h1, h2]; exact not_le.mp h2
    · simp [h1, h2]

example : (Dbscan.Params.new (1 : Int) 3).check = .ok ⟨3, 1⟩ := by
  simp [Dbscan.Params.check, Dbscan.Params.new]
example : ((Dbscan.Params.new (1 : Int) 1).withTolerance 0).check = .error .minPoints := by
  simp [Dbscan.Params.check, Dbscan.Params.new, Dbscan.Params.withTolerance]
example : ((Optics.Params.new (1 : Int) 1).withTolerance 0).check = .error .tolerance := by
  simp [Optics.Params.check, Optics.Params.new, Optics.Params.withTolerance]

/-- the dataset form passes the records on untouched and its targets are the labels of the array form -/
theorem dbscan_dataset_form {R T : Type} (nbrs : R → Option (Nat → List Nat)) (nrows : R → Nat) (mp : Nat)
    (ds : R × T) :
    (transformDataset nbrs nrows mp ds).1 = ds.1 ∧
    (transformDataset nbrs nrows mp ds).2 = dbscan (nbrs ds.1) mp (nrows ds.1) := ⟨rfl, rfl⟩

end params

end LinfaSpec.Props.C08
