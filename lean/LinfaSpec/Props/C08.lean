import LinfaSpec.Proofs.Dbscan

/-!
# C08 — DBSCAN and OPTICS output is the density clustering of the input
-/
namespace LinfaSpec.Props.C08
open LinfaSpec

/-- records without features (the index constructor reports `ZeroDimension`): DBSCAN returns one
`None` per sample -/
theorem dbscan_zero_dimension (mp n : Nat) :
    Dbscan.dbscan none mp n = List.replicate n none := rfl

example : Dbscan.dbscan none 2 3 = [none, none, none] := by decide

end LinfaSpec.Props.C08
