import LinfaSpec.Proofs.Dbscan
import LinfaSpec.Proofs.Optics

/-!
# C08 — DBSCAN and OPTICS output is the density clustering of the input

Theorems about `LinfaSpec.Dbscan` / `LinfaSpec.Optics`, the models of
`DbscanValidParams::transform` and `OpticsValidParams::transform`, over an **arbitrary**
neighbour function `nbrs` (what `within_range` returns) with the three properties every range
query of a metric has:

* `hrange` — the positions returned are positions of the dataset,
* `hnd`    — no position is returned twice,
* `hsym`   — `j` is in range of `i` iff `i` is in range of `j`.

`core nbrs mp x` is `min_points ≤ |within_range(x)|` (the query result contains `x` itself),
`isLab L x v` is `L[x] = Some(v)`.
-/
namespace LinfaSpec.Props.C08
open LinfaSpec LinfaSpec.Dbscan

section dbscan
variable (nbrs : Nat → List Nat) (mp n : Nat)
  (hrange : ∀ i, ∀ j ∈ nbrs i, j < n) (hnd : ∀ i, (nbrs i).Nodup)
  (hsym : ∀ i j, j ∈ nbrs i → i ∈ nbrs j)
include hrange hnd hsym

/-- one label per sample -/
theorem dbscan_length : (dbscan (some nbrs) mp n).length = n :=
  (OInv_run nbrs mp n hrange hnd hsym n).g.len

/-- **termination**: the fuel of the breadth-first loop is never the reason it stops — after every
iteration of the outer scan the search queue is empty and `search_found` is all `false`. -/
theorem dbscan_fuel_enough (k : Nat) :
    let s := ((List.range k).foldl (outerStep nbrs mp n) (init n, 0)).1
    s.queue = [] ∧ ∀ j : Nat, s.found[j]?.getD false = false := by
  intro s
  have h := OInv_run nbrs mp n hrange hnd hsym k
  refine ⟨h.qe, fun j => ?_⟩
  have := h.q.fq j
  cases hb : s.found[j]?.getD false
  · rfl
  · exact absurd (this.mp hb) List.not_mem_nil

/-- **a sample is labelled exactly when it is a core sample or lies in range of a core sample** -/
theorem dbscan_labelled_iff (x : Nat) (hx : x < n) :
    (∃ v, isLab (dbscan (some nbrs) mp n) x v) ↔
      (core nbrs mp x ∨ ∃ y, core nbrs mp y ∧ x ∈ nbrs y) := by
  have h := OInv_run nbrs mp n hrange hnd hsym n
  have hL : ∀ z, z < n → core nbrs mp z → ∃ v, isLab (dbscan (some nbrs) mp n) z v := by
    intro z hz hc
    rcases lab_cases (dbscan (some nbrs) mp n) z (by rw [dbscan_length nbrs mp n hrange hnd hsym]; exact hz) with a | a
    · exact absurd hc (h.scanned z hz a)
    · exact a
  constructor
  · rintro ⟨v, hv⟩
    rcases h.g.sound x v hv with a | ⟨y, y1, _, y3⟩
    · exact Or.inl a
    · exact Or.inr ⟨y, y1, y3⟩
  · rintro (a | ⟨y, y1, y2⟩)
    · exact hL x hx a
    · have hy : y < n := hrange x y (hsym y x y2)
      obtain ⟨v, hv⟩ := hL y hy y1
      exact h.g.closed y v hv y1 x y2

/-- **two core samples in range of each other carry the same label** -/
theorem dbscan_core_adjacent_same (x y v w : Nat)
    (hcx : core nbrs mp x) (hcy : core nbrs mp y) (hxy : y ∈ nbrs x)
    (hx : isLab (dbscan (some nbrs) mp n) x v) (hy : isLab (dbscan (some nbrs) mp n) y w) : v = w :=
  (OInv_run nbrs mp n hrange hnd hsym n).g.adj x y v w hcx hcy hxy hx hy

/-- **core samples with the same label are density-connected**: both are reached from one core
sample `s` by chains of core samples, consecutive ones in range of each other.  (Contrapositive:
core samples of different density-connected components carry different labels.) -/
theorem dbscan_components_differ (x y v : Nat)
    (hcx : core nbrs mp x) (hcy : core nbrs mp y)
    (hx : isLab (dbscan (some nbrs) mp n) x v) (hy : isLab (dbscan (some nbrs) mp n) y v) :
    ∃ s, core nbrs mp s ∧ Conn nbrs mp s x ∧ Conn nbrs mp s y := by
  have h := OInv_run nbrs mp n hrange hnd hsym n
  obtain ⟨s, _, s2, s3⟩ := h.g.seeds v (h.g.lt x v hx)
  exact ⟨s, s2, s3 x hcx hx, s3 y hcy hy⟩

/-- **a labelled sample that is not core (border sample) carries the label of a core sample that
reaches it** -/
theorem dbscan_border_label (x v : Nat) (hx : isLab (dbscan (some nbrs) mp n) x v)
    (hb : ¬ core nbrs mp x) :
    ∃ y, core nbrs mp y ∧ isLab (dbscan (some nbrs) mp n) y v ∧ x ∈ nbrs y := by
  rcases (OInv_run nbrs mp n hrange hnd hsym n).g.sound x v hx with a | a
  · exact absurd a hb
  · exact a

/-- **labels are `0..c-1` without gaps**, `c` = final `current_cluster_id`; every id labels a core
sample -/
theorem dbscan_ids_contiguous :
    (∀ x v, isLab (dbscan (some nbrs) mp n) x v → v < (run nbrs mp n).2) ∧
    ∀ v, v < (run nbrs mp n).2 → ∃ x, isLab (dbscan (some nbrs) mp n) x v ∧ core nbrs mp x := by
  have h := OInv_run nbrs mp n hrange hnd hsym n
  refine ⟨h.g.lt, fun v hv => ?_⟩
  obtain ⟨s, s1, s2, _⟩ := h.g.seeds v hv
  exact ⟨s, s1, s2⟩

end dbscan

/-- cluster ids are handed out **in the order of the smallest core sample**: for ids `v < w` in use
there is a core sample labelled `v` that precedes every core sample labelled `w` -/
theorem dbscan_ids_by_first_core (nbrs : Nat → List Nat) (mp n : Nat)
    (hrange : ∀ i, ∀ j ∈ nbrs i, j < n) (hnd : ∀ i, (nbrs i).Nodup)
    (hsym : ∀ i j, j ∈ nbrs i → i ∈ nbrs j)
    (v w y : Nat) (hvw : v < w) (hy : core nbrs mp y) (hyw : isLab (dbscan (some nbrs) mp n) y w) :
    ∃ s, core nbrs mp s ∧ isLab (dbscan (some nbrs) mp n) s v ∧
      ∀ y', core nbrs mp y' → isLab (dbscan (some nbrs) mp n) y' w → s < y' := by
  have hw := (OInv_run nbrs mp n hrange hnd hsym n).g.lt y w hyw
  obtain ⟨s, _, s2, s3, s4⟩ := Ord_run nbrs mp n hrange hnd hsym n v (by omega)
  exact ⟨s, s2, s3, fun y' hy' hl => s4 y' w hy' hl hvw⟩

/-- a chain of core samples carries one label -/
theorem dbscan_conn_same_label (nbrs : Nat → List Nat) (mp n : Nat)
    (hrange : ∀ i, ∀ j ∈ nbrs i, j < n) (hnd : ∀ i, (nbrs i).Nodup)
    (hsym : ∀ i j, j ∈ nbrs i → i ∈ nbrs j)
    (s x v : Nat) (hs : isLab (dbscan (some nbrs) mp n) s v) (hc : Conn nbrs mp s x) :
    isLab (dbscan (some nbrs) mp n) x v := by
  induction hc with
  | refl => exact hs
  | @step y z _ hcy hcz hz ih =>
    have hzn : z < n := hrange y z hz
    obtain ⟨w, hw⟩ := (dbscan_labelled_iff nbrs mp n hrange hnd hsym z hzn).mpr (Or.inl hcz)
    have := dbscan_core_adjacent_same nbrs mp n hrange hnd hsym y z v w hcy hcz hz ih hw
    subst this; exact hw

/-! ### The density clustering is a function of the neighbour RELATION

Two neighbour functions that return the same samples for every query — in any order, as different
indices do — give: the same labelled samples, the same noise, the same partition of the core samples
**with the same cluster ids**, and border samples labelled by a core sample in range in either run;
the two label vectors can differ only on a border sample in range of core samples of two clusters. -/
section determined
variable (nbrs₁ nbrs₂ : Nat → List Nat) (mp n : Nat)
  (hr₁ : ∀ i, ∀ j ∈ nbrs₁ i, j < n) (hnd₁ : ∀ i, (nbrs₁ i).Nodup)
  (hsym₁ : ∀ i j, j ∈ nbrs₁ i → i ∈ nbrs₁ j)
  (hr₂ : ∀ i, ∀ j ∈ nbrs₂ i, j < n) (hnd₂ : ∀ i, (nbrs₂ i).Nodup)
  (hsym₂ : ∀ i j, j ∈ nbrs₂ i → i ∈ nbrs₂ j)
  (hset : ∀ i j, j ∈ nbrs₁ i ↔ j ∈ nbrs₂ i)

section
include hnd₁ hnd₂ hset
theorem core_congr (x : Nat) : core nbrs₁ mp x ↔ core nbrs₂ mp x := by
  unfold core
  rw [((List.perm_ext_iff_of_nodup (hnd₁ x) (hnd₂ x)).mpr (hset x)).length_eq]

theorem Conn_congr (s x : Nat) (h : Conn nbrs₁ mp s x) : Conn nbrs₂ mp s x := by
  induction h with
  | refl => exact Conn.refl _
  | step _ hcy hcz hz ih =>
    exact Conn.step ih ((core_congr nbrs₁ nbrs₂ mp hnd₁ hnd₂ hset _).mp hcy)
      ((core_congr nbrs₁ nbrs₂ mp hnd₁ hnd₂ hset _).mp hcz) ((hset _ _).mp hz)
end

/-- the start of a chain of core samples that ends in the dataset lies in the dataset -/
theorem Conn_lt (a : Nat → List Nat) (mp n : Nat) (hra : ∀ i, ∀ j ∈ a i, j < n)
    (hsa : ∀ i j, j ∈ a i → i ∈ a j) (s x : Nat) (h : Conn a mp s x) (hx : x < n) : s < n := by
  induction h with
  | refl => exact hx
  | @step y z _ _ _ hz ih => exact ih (hra z y (hsa y z hz))

/-- one direction of "same partition of the core samples" -/
theorem dbscan_partition_dir (a b : Nat → List Nat) (mp n : Nat)
    (hra : ∀ i, ∀ j ∈ a i, j < n) (hna : ∀ i, (a i).Nodup) (hsa : ∀ i j, j ∈ a i → i ∈ a j)
    (hrb : ∀ i, ∀ j ∈ b i, j < n) (hnb : ∀ i, (b i).Nodup) (hsb : ∀ i j, j ∈ b i → i ∈ b j)
    (hab : ∀ i j, j ∈ a i ↔ j ∈ b i) (x y : Nat) (hx : core a mp x) (hy : core a mp y)
    (h : ∃ v, isLab (dbscan (some a) mp n) x v ∧ isLab (dbscan (some a) mp n) y v) :
    ∃ v, isLab (dbscan (some b) mp n) x v ∧ isLab (dbscan (some b) mp n) y v := by
  obtain ⟨v, hxv, hyv⟩ := h
  obtain ⟨s, hs, c1, c2⟩ := dbscan_components_differ a mp n hra hna hsa x y v hx hy hxv hyv
  have hxn : x < n := by
    have := isLab_lt hxv; rw [dbscan_length a mp n hra hna hsa] at this; exact this
  have hsn : s < n := Conn_lt a mp n hra hsa s x c1 hxn
  have hsb' : core b mp s := (core_congr a b mp hna hnb hab s).mp hs
  obtain ⟨w, hw⟩ := (dbscan_labelled_iff b mp n hrb hnb hsb s hsn).mpr (Or.inl hsb')
  exact ⟨w, dbscan_conn_same_label b mp n hrb hnb hsb s x w hw (Conn_congr a b mp hna hnb hab s x c1),
    dbscan_conn_same_label b mp n hrb hnb hsb s y w hw (Conn_congr a b mp hna hnb hab s y c2)⟩

include hr₁ hnd₁ hsym₁ hr₂ hnd₂ hsym₂ hset

/-- same labelled samples -/
theorem dbscan_labelled_determined (x : Nat) (hx : x < n) :
    (∃ v, isLab (dbscan (some nbrs₁) mp n) x v) ↔ (∃ v, isLab (dbscan (some nbrs₂) mp n) x v) := by
  rw [dbscan_labelled_iff nbrs₁ mp n hr₁ hnd₁ hsym₁ x hx, dbscan_labelled_iff nbrs₂ mp n hr₂ hnd₂ hsym₂ x hx]
  have cc := core_congr nbrs₁ nbrs₂ mp hnd₁ hnd₂ hset
  constructor
  · rintro (a | ⟨y, y1, y2⟩)
    · exact Or.inl ((cc x).mp a)
    · exact Or.inr ⟨y, (cc y).mp y1, (hset y x).mp y2⟩
  · rintro (a | ⟨y, y1, y2⟩)
    · exact Or.inl ((cc x).mpr a)
    · exact Or.inr ⟨y, (cc y).mpr y1, (hset y x).mpr y2⟩

/-- same noise samples -/
theorem dbscan_noise_determined (x : Nat) :
    (dbscan (some nbrs₁) mp n)[x]? = some none ↔ (dbscan (some nbrs₂) mp n)[x]? = some none := by
  have key : ∀ (a b : Nat → List Nat) (hra : ∀ i, ∀ j ∈ a i, j < n) (hna : ∀ i, (a i).Nodup)
      (hsa : ∀ i j, j ∈ a i → i ∈ a j) (hrb : ∀ i, ∀ j ∈ b i, j < n) (hnb : ∀ i, (b i).Nodup)
      (hsb : ∀ i j, j ∈ b i → i ∈ b j)
      (hlab : ∀ x, x < n → ((∃ v, isLab (dbscan (some a) mp n) x v) ↔ (∃ v, isLab (dbscan (some b) mp n) x v))),
      (dbscan (some a) mp n)[x]? = some none → (dbscan (some b) mp n)[x]? = some none := by
    intro a b hra hna hsa hrb hnb hsb hlab h
    have hxa : x < (dbscan (some a) mp n).length := (List.getElem?_eq_some_iff.mp h).1
    have hx : x < n := by rw [dbscan_length a mp n hra hna hsa] at hxa; exact hxa
    rcases lab_cases (dbscan (some b) mp n) x (by rw [dbscan_length b mp n hrb hnb hsb]; exact hx) with u | ⟨v, hv⟩
    · exact (unl_iff _ _).mp u
    · obtain ⟨w, hw⟩ := (hlab x hx).mpr ⟨v, hv⟩
      unfold isLab at hw; rw [h] at hw; simp at hw
  constructor
  · exact key nbrs₁ nbrs₂ hr₁ hnd₁ hsym₁ hr₂ hnd₂ hsym₂
      (dbscan_labelled_determined nbrs₁ nbrs₂ mp n hr₁ hnd₁ hsym₁ hr₂ hnd₂ hsym₂ hset)
  · exact key nbrs₂ nbrs₁ hr₂ hnd₂ hsym₂ hr₁ hnd₁ hsym₁
      (fun x hx => (dbscan_labelled_determined nbrs₁ nbrs₂ mp n hr₁ hnd₁ hsym₁ hr₂ hnd₂ hsym₂ hset x hx).symm)



/-- **same partition of the core samples into clusters** -/
theorem dbscan_core_partition_determined (x y : Nat) (hx : core nbrs₁ mp x) (hy : core nbrs₁ mp y) :
    (∃ v, isLab (dbscan (some nbrs₁) mp n) x v ∧ isLab (dbscan (some nbrs₁) mp n) y v) ↔
    (∃ v, isLab (dbscan (some nbrs₂) mp n) x v ∧ isLab (dbscan (some nbrs₂) mp n) y v) := by
  have cc := core_congr nbrs₁ nbrs₂ mp hnd₁ hnd₂ hset
  constructor
  · exact dbscan_partition_dir nbrs₁ nbrs₂ mp n hr₁ hnd₁ hsym₁ hr₂ hnd₂ hsym₂ hset x y hx hy
  · exact dbscan_partition_dir nbrs₂ nbrs₁ mp n hr₂ hnd₂ hsym₂ hr₁ hnd₁ hsym₁ (fun i j => (hset i j).symm) x y
      ((cc x).mp hx) ((cc y).mp hy)

/-- **a border sample is labelled, in either run, with the label of a core sample that has it in range**
(in the terms of the first relation) -/
theorem dbscan_border_determined (x : Nat) (hb : ¬ core nbrs₁ mp x) :
    (∀ v, isLab (dbscan (some nbrs₁) mp n) x v →
      ∃ y, core nbrs₁ mp y ∧ isLab (dbscan (some nbrs₁) mp n) y v ∧ x ∈ nbrs₁ y) ∧
    (∀ v, isLab (dbscan (some nbrs₂) mp n) x v →
      ∃ y, core nbrs₁ mp y ∧ isLab (dbscan (some nbrs₂) mp n) y v ∧ x ∈ nbrs₁ y) := by
  have cc := core_congr nbrs₁ nbrs₂ mp hnd₁ hnd₂ hset
  refine ⟨fun v hv => dbscan_border_label nbrs₁ mp n hr₁ hnd₁ hsym₁ x v hv hb, fun v hv => ?_⟩
  obtain ⟨y, y1, y2, y3⟩ := dbscan_border_label nbrs₂ mp n hr₂ hnd₂ hsym₂ x v hv (fun h => hb ((cc x).mpr h))
  exact ⟨y, (cc y).mpr y1, y2, (hset y x).mpr y3⟩

/-- **the cluster ids of the core samples are determined** (same partition, both runs number the
clusters by their smallest core sample): a core sample carries the same label in both runs -/
theorem dbscan_core_labels_determined (x : Nat) (hx : core nbrs₁ mp x) :
    (dbscan (some nbrs₁) mp n)[x]? = (dbscan (some nbrs₂) mp n)[x]? := by
  have cc := core_congr nbrs₁ nbrs₂ mp hnd₁ hnd₂ hset
  by_cases hxn : x < n
  · have lab₁ : ∀ z, (core nbrs₁ mp z ∧ z < n) → ∃ v, isLab (dbscan (some nbrs₁) mp n) z v :=
      fun z hz => (dbscan_labelled_iff nbrs₁ mp n hr₁ hnd₁ hsym₁ z hz.2).mpr (Or.inl hz.1)
    have lab₂ : ∀ z, (core nbrs₁ mp z ∧ z < n) → ∃ v, isLab (dbscan (some nbrs₂) mp n) z v :=
      fun z hz => (dbscan_labelled_iff nbrs₂ mp n hr₂ hnd₂ hsym₂ z hz.2).mpr (Or.inl ((cc z).mp hz.1))
    have ltn₁ : ∀ z v, isLab (dbscan (some nbrs₁) mp n) z v → z < n := by
      intro z v h; have := isLab_lt h; rw [dbscan_length nbrs₁ mp n hr₁ hnd₁ hsym₁] at this; exact this
    have ltn₂ : ∀ z v, isLab (dbscan (some nbrs₂) mp n) z v → z < n := by
      intro z v h; have := isLab_lt h; rw [dbscan_length nbrs₂ mp n hr₂ hnd₂ hsym₂] at this; exact this
    have key := labels_eq_of_spec (fun z => core nbrs₁ mp z ∧ z < n)
      (dbscan (some nbrs₁) mp n) (dbscan (some nbrs₂) mp n) lab₁ lab₂
      (fun a b ha hb => dbscan_core_partition_determined nbrs₁ nbrs₂ mp n hr₁ hnd₁ hsym₁ hr₂ hnd₂ hsym₂ hset
        a b ha.1 hb.1)
      (fun v w y hvw hy hyw => by
        obtain ⟨s, s1, s2, s3⟩ := dbscan_ids_by_first_core nbrs₁ mp n hr₁ hnd₁ hsym₁ v w y hvw hy.1 hyw
        exact ⟨s, ⟨s1, ltn₁ s v s2⟩, s2, fun y' hy' hl => s3 y' hy'.1 hl⟩)
      (fun v w y hvw hy hyw => by
        obtain ⟨s, s1, s2, s3⟩ := dbscan_ids_by_first_core nbrs₂ mp n hr₂ hnd₂ hsym₂ v w y hvw
          ((cc y).mp hy.1) hyw
        exact ⟨s, ⟨(cc s).mpr s1, ltn₂ s v s2⟩, s2, fun y' hy' hl => s3 y' ((cc y').mp hy'.1) hl⟩)
    obtain ⟨v, hv⟩ := lab₁ x ⟨hx, hxn⟩
    have hv2 := (key v x ⟨hx, hxn⟩).mp hv
    unfold isLab at hv hv2
    rw [hv, hv2]
  · rw [List.getElem?_eq_none (by rw [dbscan_length nbrs₁ mp n hr₁ hnd₁ hsym₁]; omega),
      List.getElem?_eq_none (by rw [dbscan_length nbrs₂ mp n hr₂ hnd₂ hsym₂]; omega)]

/-- **a border sample all of whose core neighbours lie in one cluster carries the same label in both
runs** — so the two label vectors can differ only on a border sample shared by two clusters -/
theorem dbscan_unshared_border_determined (x : Nat) (hb : ¬ core nbrs₁ mp x)
    (hone : ∀ y z v w, core nbrs₁ mp y → core nbrs₁ mp z → x ∈ nbrs₁ y → x ∈ nbrs₁ z →
      isLab (dbscan (some nbrs₁) mp n) y v → isLab (dbscan (some nbrs₁) mp n) z w → v = w) :
    (dbscan (some nbrs₁) mp n)[x]? = (dbscan (some nbrs₂) mp n)[x]? := by
  have det := dbscan_core_labels_determined nbrs₁ nbrs₂ mp n hr₁ hnd₁ hsym₁ hr₂ hnd₂ hsym₂ hset
  have bd := dbscan_border_determined nbrs₁ nbrs₂ mp n hr₁ hnd₁ hsym₁ hr₂ hnd₂ hsym₂ hset x hb
  by_cases hxn : x < n
  · have l1 : x < (dbscan (some nbrs₁) mp n).length := by rw [dbscan_length nbrs₁ mp n hr₁ hnd₁ hsym₁]; exact hxn
    have l2 : x < (dbscan (some nbrs₂) mp n).length := by rw [dbscan_length nbrs₂ mp n hr₂ hnd₂ hsym₂]; exact hxn
    rcases lab_cases _ x l1 with u1 | ⟨v1, h1⟩
    · have n1 := (unl_iff _ _).mp u1
      rw [n1, ((dbscan_noise_determined nbrs₁ nbrs₂ mp n hr₁ hnd₁ hsym₁ hr₂ hnd₂ hsym₂ hset x).mp n1)]
    · obtain ⟨v2, h2⟩ := (dbscan_labelled_determined nbrs₁ nbrs₂ mp n hr₁ hnd₁ hsym₁ hr₂ hnd₂ hsym₂ hset x hxn).mp ⟨v1, h1⟩
      obtain ⟨y1, c1, e1, m1⟩ := bd.1 v1 h1
      obtain ⟨y2, c2, e2, m2⟩ := bd.2 v2 h2
      -- `y2` carries `v2` in run 2, hence (core labels determined) in run 1
      have e2' : isLab (dbscan (some nbrs₁) mp n) y2 v2 := by
        unfold isLab at e2 ⊢; rw [det y2 c2]; exact e2
      have := hone y1 y2 v1 v2 c1 c2 m1 m2 e1 e2'
      subst this
      unfold isLab at h1 h2; rw [h1, h2]
  · rw [List.getElem?_eq_none (by rw [dbscan_length nbrs₁ mp n hr₁ hnd₁ hsym₁]; omega),
      List.getElem?_eq_none (by rw [dbscan_length nbrs₂ mp n hr₂ hnd₂ hsym₂]; omega)]

/-- **the density clustering is a function of the neighbour relation** (the uniqueness half of the
specification), everything in one statement -/
theorem dbscan_determined_by_relation :
    (∀ x, x < n → ((∃ v, isLab (dbscan (some nbrs₁) mp n) x v) ↔ (∃ v, isLab (dbscan (some nbrs₂) mp n) x v))) ∧
    (∀ x : Nat, (dbscan (some nbrs₁) mp n)[x]? = some none ↔ (dbscan (some nbrs₂) mp n)[x]? = some none) ∧
    (∀ x y, core nbrs₁ mp x → core nbrs₁ mp y →
      ((∃ v, isLab (dbscan (some nbrs₁) mp n) x v ∧ isLab (dbscan (some nbrs₁) mp n) y v) ↔
       (∃ v, isLab (dbscan (some nbrs₂) mp n) x v ∧ isLab (dbscan (some nbrs₂) mp n) y v))) ∧
    (∀ x : Nat, core nbrs₁ mp x → (dbscan (some nbrs₁) mp n)[x]? = (dbscan (some nbrs₂) mp n)[x]?) ∧
    (∀ x, ¬ core nbrs₁ mp x →
      (∀ v, isLab (dbscan (some nbrs₁) mp n) x v →
        ∃ y, core nbrs₁ mp y ∧ isLab (dbscan (some nbrs₁) mp n) y v ∧ x ∈ nbrs₁ y) ∧
      (∀ v, isLab (dbscan (some nbrs₂) mp n) x v →
        ∃ y, core nbrs₁ mp y ∧ isLab (dbscan (some nbrs₂) mp n) y v ∧ x ∈ nbrs₁ y)) :=
  ⟨dbscan_labelled_determined nbrs₁ nbrs₂ mp n hr₁ hnd₁ hsym₁ hr₂ hnd₂ hsym₂ hset,
   dbscan_noise_determined nbrs₁ nbrs₂ mp n hr₁ hnd₁ hsym₁ hr₂ hnd₂ hsym₂ hset,
   dbscan_core_partition_determined nbrs₁ nbrs₂ mp n hr₁ hnd₁ hsym₁ hr₂ hnd₂ hsym₂ hset,
   dbscan_core_labels_determined nbrs₁ nbrs₂ mp n hr₁ hnd₁ hsym₁ hr₂ hnd₂ hsym₂ hset,
   dbscan_border_determined nbrs₁ nbrs₂ mp n hr₁ hnd₁ hsym₁ hr₂ hnd₂ hsym₂ hset⟩

end determined

/-- non-vacuity of the section above: the same relation returned in two different orders (as a linear
scan and a tree would): two clusters `{0,1,2,(3)}` and `{(3),4,5,6}` around the core samples 2 and 4
(`min_points = 4`), sample 3 a border sample in range of both, sample 7 noise. -/
def exA : Nat → List Nat
  | 0 => [0, 1, 2]
  | 1 => [0, 1, 2]
  | 2 => [0, 1, 2, 3]
  | 3 => [2, 3, 4]
  | 4 => [3, 4, 5, 6]
  | 5 => [4, 5, 6]
  | 6 => [4, 5, 6]
  | 7 => [7]
  | _ => []
def exB : Nat → List Nat
  | 0 => [2, 0, 1]
  | 1 => [1, 2, 0]
  | 2 => [3, 2, 1, 0]
  | 3 => [4, 3, 2]
  | 4 => [6, 3, 5, 4]
  | 5 => [5, 6, 4]
  | 6 => [4, 6, 5]
  | 7 => [7]
  | _ => []

example : dbscan (some exA) 4 8 = [some 0, some 0, some 0, some 0, some 1, some 1, some 1, none] := by decide
example : dbscan (some exB) 4 8 = [some 0, some 0, some 0, some 0, some 1, some 1, some 1, none] := by decide
example : ∀ i j, j ∈ exA i ↔ j ∈ exB i := by
  intro i j
  match i with
  | 0 | 1 | 2 | 3 | 4 | 5 | 6 | 7 => simp [exA, exB] <;> omega
  | _ + 8 => simp [exA, exB]
example : (∀ i, ∀ j ∈ exB i, j < 8) ∧ (∀ i, (exB i).Nodup) ∧ (∀ i j, j ∈ exB i → i ∈ exB j) := by
  refine ⟨?_, ?_, ?_⟩
  · intro i j h
    match i with
    | 0 | 1 | 2 | 3 | 4 | 5 | 6 | 7 => simp [exB] at h; omega
    | _ + 8 => simp [exB] at h
  · intro i
    match i with
    | 0 | 1 | 2 | 3 | 4 | 5 | 6 | 7 => simp [exB]
    | _ + 8 => simp [exB]
  · intro i j h
    match i with
    | 0 | 1 | 2 | 3 | 4 | 5 | 6 | 7 => simp [exB] at h; rcases h with rfl | rfl | rfl | rfl <;> simp [exB]
    | _ + 8 => simp [exB] at h
example : (∀ i, ∀ j ∈ exA i, j < 8) ∧ (∀ i, (exA i).Nodup) ∧ (∀ i j, j ∈ exA i → i ∈ exA j) := by
  refine ⟨?_, ?_, ?_⟩
  · intro i j h
    match i with
    | 0 | 1 | 2 | 3 | 4 | 5 | 6 | 7 => simp [exA] at h; omega
    | _ + 8 => simp [exA] at h
  · intro i
    match i with
    | 0 | 1 | 2 | 3 | 4 | 5 | 6 | 7 => simp [exA]
    | _ + 8 => simp [exA]
  · intro i j h
    match i with
    | 0 | 1 | 2 | 3 | 4 | 5 | 6 | 7 => simp [exA] at h; rcases h with rfl | rfl | rfl | rfl <;> simp [exA]
    | _ + 8 => simp [exA] at h
/-- sample 3 is the shared border sample: core samples 2 (cluster 0) and 4 (cluster 1) both reach it -/
example : core exA 4 2 ∧ core exA 4 4 ∧ ¬ core exA 4 3 ∧ 3 ∈ exA 2 ∧ 3 ∈ exA 4 := by
  refine ⟨by unfold core; decide, by unfold core; decide, by unfold core; decide, by decide, by decide⟩

/-! ### DBSCAN in the terms of the definition: neighbourhood `{j < n | dist i j < tol}` of a symmetric distance

`rangeQuery dist tol n` satisfies the three hypotheses of the section above for **every** symmetric
`dist`, so the clauses hold for the labelling computed from it, with nothing assumed about an index. -/
section metric
variable {α : Type} [LT α] [DecidableLT α] (dist : Nat → Nat → α) (tol : α) (mp n : Nat)

theorem mem_rangeQuery (i j : Nat) : j ∈ rangeQuery dist tol n i ↔ i < n ∧ j < n ∧ dist i j < tol := by
  unfold rangeQuery
  by_cases h : i < n <;> simp [h]

theorem rangeQuery_range (i : Nat) : ∀ j ∈ rangeQuery dist tol n i, j < n :=
  fun j h => ((mem_rangeQuery dist tol n i j).mp h).2.1

theorem rangeQuery_nodup (i : Nat) : (rangeQuery dist tol n i).Nodup := by
  unfold rangeQuery
  split
  · exact (List.nodup_range).sublist List.filter_sublist
  · exact List.nodup_nil

theorem rangeQuery_symm (hsymm : ∀ i j, dist i j = dist j i) (i j : Nat) :
    j ∈ rangeQuery dist tol n i → i ∈ rangeQuery dist tol n j := by
  intro h
  obtain ⟨h1, h2, h3⟩ := (mem_rangeQuery dist tol n i j).mp h
  exact (mem_rangeQuery dist tol n j i).mpr ⟨h2, h1, by rw [hsymm j i]; exact h3⟩

/-- **the labelling of the definition**: with the neighbourhood `{j | dist x j < tol}` of any symmetric
distance, a sample is labelled exactly when at least `min_points` samples (itself included, when
`dist x x < tol`) lie within the tolerance of it, or it lies within the tolerance of such a sample. -/
theorem dbscan_labelled_iff_metric (hsymm : ∀ i j, dist i j = dist j i) (x : Nat) (hx : x < n) :
    (∃ v, isLab (dbscan (some (rangeQuery dist tol n)) mp n) x v) ↔
      (mp ≤ (rangeQuery dist tol n x).length ∨
        ∃ y, y < n ∧ mp ≤ (rangeQuery dist tol n y).length ∧ dist y x < tol) := by
  rw [dbscan_labelled_iff (rangeQuery dist tol n) mp n (rangeQuery_range dist tol n)
    (rangeQuery_nodup dist tol n) (rangeQuery_symm dist tol n hsymm) x hx]
  unfold core
  constructor
  · rintro (a | ⟨y, y1, y2⟩)
    · exact Or.inl a
    · obtain ⟨h1, _, h3⟩ := (mem_rangeQuery dist tol n y x).mp y2
      exact Or.inr ⟨y, h1, y1, h3⟩
  · rintro (a | ⟨y, y1, y2, y3⟩)
    · exact Or.inl a
    · exact Or.inr ⟨y, y2, (mem_rangeQuery dist tol n y x).mpr ⟨y1, hx, y3⟩⟩

/-- the number of samples within the tolerance of `x` is what `core` counts -/
theorem rangeQuery_length (x : Nat) (hx : x < n) :
    (rangeQuery dist tol n x).length = ((List.range n).filter fun j => decide (dist x j < tol)).length := by
  unfold rangeQuery; rw [if_pos hx]


/-- the other three labelling clauses in the terms of the definition (same function
`dbscan (some (rangeQuery dist tol n)) mp n`, the one the driver runs on the `dbscanrq` requests):
core samples within the tolerance of each other carry one label; a labelled non-core sample carries
the label of a core sample within the tolerance; equally labelled core samples are density-connected. -/
theorem dbscan_clauses_metric (hsymm : ∀ i j, dist i j = dist j i) :
    (∀ x y v w, x < n → y < n → mp ≤ (rangeQuery dist tol n x).length → mp ≤ (rangeQuery dist tol n y).length →
      dist x y < tol → isLab (dbscan (some (rangeQuery dist tol n)) mp n) x v →
      isLab (dbscan (some (rangeQuery dist tol n)) mp n) y w → v = w) ∧
    (∀ x v, isLab (dbscan (some (rangeQuery dist tol n)) mp n) x v → ¬ mp ≤ (rangeQuery dist tol n x).length →
      ∃ y, y < n ∧ mp ≤ (rangeQuery dist tol n y).length ∧
        isLab (dbscan (some (rangeQuery dist tol n)) mp n) y v ∧ dist y x < tol) ∧
    (∀ x y v, mp ≤ (rangeQuery dist tol n x).length → mp ≤ (rangeQuery dist tol n y).length →
      isLab (dbscan (some (rangeQuery dist tol n)) mp n) x v →
      isLab (dbscan (some (rangeQuery dist tol n)) mp n) y v →
      ∃ s, Conn (rangeQuery dist tol n) mp s x ∧ Conn (rangeQuery dist tol n) mp s y) := by
  have hr := rangeQuery_range dist tol n
  have hn := rangeQuery_nodup dist tol n
  have hs := rangeQuery_symm dist tol n hsymm
  refine ⟨?_, ?_, ?_⟩
  · intro x y v w hx hy cx cy hxy lx ly
    exact dbscan_core_adjacent_same _ mp n hr hn hs x y v w cx cy
      ((mem_rangeQuery dist tol n x y).mpr ⟨hx, hy, hxy⟩) lx ly
  · intro x v lx hb
    obtain ⟨y, y1, y2, y3⟩ := dbscan_border_label _ mp n hr hn hs x v lx hb
    obtain ⟨a, _, c⟩ := (mem_rangeQuery dist tol n y x).mp y3
    exact ⟨y, a, y1, y2, c⟩
  · intro x y v cx cy lx ly
    obtain ⟨s, _, s2, s3⟩ := dbscan_components_differ _ mp n hr hn hs x y v cx cy lx ly
    exact ⟨s, s2, s3⟩

end metric

/-- non-vacuity: samples at 0, 1, 2, 9 on a line (distance `|a - b|` on naturals, symmetric), tolerance 2,
`min_points = 3`: sample 1 is core, 0 and 2 border, 3 noise -/
def exLine (i j : Nat) : Nat :=
  let xs := [0, 1, 2, 9]
  let a := xs[i]?.getD 0; let b := xs[j]?.getD 0
  if a < b then b - a else a - b
example : ∀ i j, exLine i j = exLine j i := by
  intro i j; unfold exLine; simp only; split <;> split <;> omega
example : dbscan (some (rangeQuery exLine 2 4)) 3 4 = [some 0, some 0, some 0, none] := by decide

/-- non-vacuity: a chain `0 - 1 - 2 - 3`, sample 4 isolated, `min_points = 3`: the relation is
symmetric, duplicate free, in range; samples 1, 2 are core, 0 and 3 border, 4 noise. -/
def exNbrs : Nat → List Nat
  | 0 => [0, 1]
  | 1 => [0, 1, 2]
  | 2 => [1, 2, 3]
  | 3 => [2, 3]
  | 4 => [4]
  | _ => []

example : dbscan (some exNbrs) 3 5 = [some 0, some 0, some 0, some 0, none] := by decide
example : (∀ i, ∀ j ∈ exNbrs i, j < 5) ∧ (∀ i, (exNbrs i).Nodup) ∧ (∀ i j, j ∈ exNbrs i → i ∈ exNbrs j) := by
  refine ⟨?_, ?_, ?_⟩
  · intro i j h
    match i with
    | 0 | 1 | 2 | 3 | 4 => simp [exNbrs] at h; omega
    | _ + 5 => simp [exNbrs] at h
  · intro i
    match i with
    | 0 | 1 | 2 | 3 | 4 => simp [exNbrs]
    | _ + 5 => simp [exNbrs]
  · intro i j h
    match i with
    | 0 | 1 | 2 | 3 | 4 => simp [exNbrs] at h; rcases h with rfl | rfl | rfl <;> simp [exNbrs]
    | _ + 5 => simp [exNbrs] at h
example : core exNbrs 3 1 ∧ ¬ core exNbrs 3 0 ∧ isLab (dbscan (some exNbrs) 3 5) 0 0 := by
  refine ⟨by unfold core; decide, by unfold core; decide, by unfold isLab; decide⟩

/-! ## OPTICS -/
section optics
open LinfaSpec.Optics
variable {D : Type} [LinearOrder D]

/-- **core distance**: every listed sample carries, as core distance, element `min_points - 1` of
the ascending list `ds` of the distances to the samples in range (itself included, distance to
itself first) — i.e. the distance to its `min_points`-th nearest neighbour if that one is in
range, and undefined (`none`) if fewer than `min_points` samples are in range.  `ds` is *the*
sorted arrangement of the in-range distances (`ds ~ map (dist i) (nbrs i)`, ascending). -/
theorem optics_core_distance (nbrs : Nat → List Nat) (dist : Nat → Nat → D) (mp n : Nat) :
    ∀ e ∈ optics (some nbrs) dist mp n, ∃ ds : List D,
      ds.Perm ((nbrs e.index).map (dist e.index)) ∧ ds.Pairwise (· ≤ ·) ∧ e.core = ds[mp - 1]? := by
  intro e he
  have h := foldl_CoreOK nbrs dist mp n (List.range n) (Optics.init n)
    (by intro e he; simp [Optics.init] at he) e he
  refine ⟨(findNeighbors nbrs dist e.index).map (dist e.index), ?_, ?_, ?_⟩
  · exact (findNeighbors_perm nbrs dist e.index).map _
  · exact findNeighbors_sorted nbrs dist e.index
  · rw [h, coreDist_eq]

/-- **the core distance does not depend on the neighbour index**: two query results for sample `i`
that contain the same positions in any order give the same core distance (this is what failed for
the linear search before the `fix:` that sorts the neighbours). -/
theorem optics_core_distance_index_independent (nbrs nbrs' : Nat → List Nat) (dist : Nat → Nat → D)
    (mp i : Nat) (h : (nbrs i).Perm (nbrs' i)) :
    coreDist dist mp i (findNeighbors nbrs dist i) = coreDist dist mp i (findNeighbors nbrs' dist i) := by
  rw [coreDist_eq, coreDist_eq, sorted_dists_unique nbrs nbrs' dist i h]

/-- `F::max` of the model is `max` of the order -/
theorem fmax_eq_max (a b : D) : fmax a b = max a b := by
  unfold fmax
  by_cases h : a < b
  · rw [if_pos h, max_eq_right (le_of_lt h)]
  · rw [if_neg h, max_eq_left (not_lt.mp h)]

/-- **reachability**: the reachability distance of a listed sample `e` is undefined, or it equals
`max(core distance of o, dist(e, o))` for a sample `o` that is listed **strictly earlier** (position
`q < p`), is a core sample (`o.core = some c`) and has `e` in range (`e.index ∈ nbrs o.index`).
This is the statement's clause "either undefined or equals max(core distance of o, distance to o) for
some core point o within the tolerance that is listed no later than the sample". -/
theorem optics_reachability_witness (nbrs : Nat → List Nat) (dist : Nat → Nat → D) (mp n : Nat)
    (hrange : ∀ i, ∀ j ∈ nbrs i, j < n) :
    ∀ (p : Nat) (e : Entry D), (optics (some nbrs) dist mp n)[p]? = some e → ∀ r : D, e.reach = some r →
      ∃ (q : Nat) (o : Entry D) (c : D), q < p ∧ (optics (some nbrs) dist mp n)[q]? = some o ∧ o.core = some c ∧
        e.index ∈ nbrs o.index ∧ r = max c (dist e.index o.index) := by
  intro p e he r hr
  have h := Optics.foldl_RInv n nbrs dist mp hrange n (Nat.le_refl n)
  obtain ⟨o, ho, c, h1, h2, h3⟩ := h.listed p e he r hr
  obtain ⟨q, hq⟩ := List.mem_iff_getElem?.mp ho
  rw [List.getElem?_take] at hq
  by_cases hqp : q < p
  · rw [if_pos hqp] at hq
    exact ⟨q, o, c, hqp, hq, h1, h2, by rw [h3, fmax_eq_max]⟩
  · rw [if_neg hqp] at hq
    exact absurd hq (by simp)

end optics

/-- **OPTICS lists every sample exactly once**: no position occurs twice in the ordering and the
positions listed are exactly `0..n-1` (hence the ordering has `n` entries).  Only `hrange` is needed;
in particular the statement does not depend on the fuel of the seed loop. -/
theorem optics_lists_each_once {D : Type} [LT D] [DecidableLT D]
    (nbrs : Nat → List Nat) (dist : Nat → Nat → D) (mp n : Nat)
    (hrange : ∀ i, ∀ j ∈ nbrs i, j < n) :
    ((Optics.optics (some nbrs) dist mp n).map (·.index)).Nodup ∧
    ∀ j, j ∈ (Optics.optics (some nbrs) dist mp n).map (·.index) ↔ j < n := by
  obtain ⟨h, hall⟩ := Optics.foldl_LInv n nbrs dist mp hrange n (Nat.le_refl n)
  refine ⟨h.nd, fun j => ?_⟩
  show j ∈ List.map (·.index) ((List.range n).foldl (Optics.outerStep nbrs dist mp n) (Optics.init n)).out ↔ j < n
  rw [h.mem j]
  constructor
  · intro hp
    unfold Optics.isProcessed at hp
    rw [← h.plen]
    cases hg : ((List.range n).foldl (Optics.outerStep nbrs dist mp n) (Optics.init n)).processed[j]? with
    | none => rw [hg] at hp; simp at hp
    | some b => exact (List.getElem?_eq_some_iff.mp hg).1
  · exact hall j

example : (∀ i, ∀ j ∈ exNbrs i, j < 5) := by
  intro i j h
  match i with
  | 0 | 1 | 2 | 3 | 4 => simp [exNbrs] at h; omega
  | _ + 5 => simp [exNbrs] at h

/-- **termination of the OPTICS seed loop**: after every iteration of the outer scan the seed list is
empty — the `while !seeds.is_empty()` loop of the model always ends because the list is empty, never
because its fuel (`n + 1`) ran out (measure: the number of samples listed; a waiting seed is an unlisted
position below `n`).  With `seedLoop_fuel_irrelevant` (Proofs/Optics.lean): more fuel gives the same
result.  Needs only `hrange`. -/
theorem optics_fuel_enough {D : Type} [LT D] [DecidableLT D]
    (nbrs : Nat → List Nat) (dist : Nat → Nat → D) (mp n : Nat)
    (hrange : ∀ i, ∀ j ∈ nbrs i, j < n) (k : Nat) (hk : k ≤ n) :
    ((List.range k).foldl (Optics.outerStep nbrs dist mp n) (Optics.init n)).seeds = [] :=
  Optics.foldl_seeds_empty n nbrs dist mp hrange k hk

/-- the result of OPTICS does not depend on the fuel constant of the model: any fuel `≥ n` for the seed
loop started by the outer step gives the state the model computes with `n + 1` -/
theorem optics_seed_loop_fuel_irrelevant {D : Type} [LT D] [DecidableLT D]
    (nbrs : Nat → List Nat) (dist : Nat → Nat → D) (mp n : Nat)
    (hrange : ∀ i, ∀ j ∈ nbrs i, j < n) (s : Optics.State D) (hs : Optics.SInv n s)
    (fuel : Nat) (hf : n ≤ s.out.length + fuel) :
    Optics.seedLoop nbrs dist mp (fuel + 1) s = Optics.seedLoop nbrs dist mp fuel s :=
  Optics.seedLoop_fuel_irrelevant n nbrs dist mp hrange fuel s hs hf

example : ((List.range 5).foldl (Optics.outerStep exNbrs exLine 3 5) (Optics.init 5)).seeds = [] :=
  optics_fuel_enough exNbrs exLine 3 5 (by
    intro i j h
    match i with
    | 0 | 1 | 2 | 3 | 4 => simp [exNbrs] at h; omega
    | _ + 5 => simp [exNbrs] at h) 5 (Nat.le_refl 5)

/-! ### OPTICS in the terms of the definition: neighbourhood `{j < n | dist i j < tol}`

The three OPTICS clauses for the very function the driver runs on the `opticsrq` requests:
`optics (some (rangeQuery dist tol n)) dist mp n`, nothing assumed about an index.  Symmetry of `dist` is
not needed. -/
section optics_metric
open LinfaSpec.Optics
variable {D : Type} [LinearOrder D] (dist : Nat → Nat → D) (tol : D) (mp n : Nat)

/-- every sample is listed exactly once -/
theorem optics_lists_each_once_metric :
    ((optics (some (rangeQuery dist tol n)) dist mp n).map (·.index)).Nodup ∧
    ∀ j, j ∈ (optics (some (rangeQuery dist tol n)) dist mp n).map (·.index) ↔ j < n :=
  optics_lists_each_once (rangeQuery dist tol n) dist mp n (rangeQuery_range dist tol n)

/-- **core distance = distance to the `min_points`-th nearest sample within the tolerance** (the sample
itself counted, `1 ≤ min_points`): `ds` is the ascending arrangement of the distances `dist x j` of all
`j < n` with `dist x j < tol`, and the core distance is its element `min_points - 1` — undefined exactly
when fewer than `min_points` samples lie within the tolerance. -/
theorem optics_core_distance_metric (_hmp : 1 ≤ mp) :
    ∀ e ∈ optics (some (rangeQuery dist tol n)) dist mp n, ∃ ds : List D,
      ds.Perm (((List.range n).filter fun j => decide (dist e.index j < tol)).map (dist e.index)) ∧
      ds.Pairwise (· ≤ ·) ∧ e.core = ds[mp - 1]? ∧
      (e.core = none ↔ ((List.range n).filter fun j => decide (dist e.index j < tol)).length < mp) := by
  intro e he
  obtain ⟨ds, h1, h2, h3⟩ := optics_core_distance (rangeQuery dist tol n) dist mp n e he
  have hlt : e.index < n :=
    ((optics_lists_each_once_metric dist tol mp n).2 e.index).mp (List.mem_map.mpr ⟨e, he, rfl⟩)
  have hq : rangeQuery dist tol n e.index = (List.range n).filter fun j => decide (dist e.index j < tol) := by
    unfold rangeQuery; rw [if_pos hlt]
  rw [hq] at h1
  refine ⟨ds, h1, h2, h3, ?_⟩
  rw [h3, List.getElem?_eq_none_iff, h1.length_eq, List.length_map]
  omega

/-- **reachability**: undefined, or `max(core distance of o, dist(x, o))` for a core sample `o` listed
strictly earlier with `dist o x < tol` -/
theorem optics_reachability_witness_metric :
    ∀ (p : Nat) (e : Entry D), (optics (some (rangeQuery dist tol n)) dist mp n)[p]? = some e →
      ∀ r : D, e.reach = some r →
      ∃ (q : Nat) (o : Entry D) (c : D), q < p ∧
        (optics (some (rangeQuery dist tol n)) dist mp n)[q]? = some o ∧ o.core = some c ∧
        dist o.index e.index < tol ∧ r = max c (dist e.index o.index) := by
  intro p e he r hr
  obtain ⟨q, o, c, h1, h2, h3, h4, h5⟩ :=
    optics_reachability_witness (rangeQuery dist tol n) dist mp n (rangeQuery_range dist tol n) p e he r hr
  exact ⟨q, o, c, h1, h2, h3, ((mem_rangeQuery dist tol n o.index e.index).mp h4).2.2, h5⟩

end optics_metric

example : ((Optics.optics (some (rangeQuery exLine 2 4)) exLine 3 4).map fun e => (e.index, e.core, e.reach)) =
    [(0, none, none), (1, some 1, none), (2, none, some 1), (3, none, none)] := by
  simp [Optics.optics, Optics.outerStep, Optics.seedLoop, Optics.seedStep, Optics.getSeeds, Optics.init,
    Optics.coreDist, Optics.findNeighbors, Optics.isProcessed, Optics.setCore, Optics.setReach,
    Optics.getReach, Optics.fmax, Optics.argminPos, rangeQuery, exLine, List.range, List.range.loop,
    List.mergeSort, List.MergeSort.Internal.splitInTwo]

section optics_determined
open LinfaSpec.Optics
variable {D : Type} [LinearOrder D]

/-- **what of the OPTICS result is a function of the relation and the distances** (two query results
`nbrs₁ i ~ nbrs₂ i` that are permutations of each other for every sample, as two indices return them):
(a) both orderings list the same samples (each once); (b) a sample carries the same core distance in
both; (c) every defined reachability of the second run is `max(core(o), dist(x, o))` for a sample `o`
listed strictly earlier *in that run*, where `core(o)` is the core distance computed from the **first**
relation and `x` is in range of `o` in the first relation.  Needs no duplicate-freeness; the identity
of the two orderings is `optics_ordering_determined` below. -/
theorem optics_determined_by_relation (nbrs₁ nbrs₂ : Nat → List Nat) (dist : Nat → Nat → D) (mp n : Nat)
    (hrange : ∀ i, ∀ j ∈ nbrs₁ i, j < n) (hperm : ∀ i, (nbrs₁ i).Perm (nbrs₂ i)) :
    ((optics (some nbrs₁) dist mp n).map (·.index)).Perm ((optics (some nbrs₂) dist mp n).map (·.index)) ∧
    (∀ e₁ ∈ optics (some nbrs₁) dist mp n, ∀ e₂ ∈ optics (some nbrs₂) dist mp n,
      e₁.index = e₂.index → e₁.core = e₂.core) ∧
    (∀ (p : Nat) (e : Entry D), (optics (some nbrs₂) dist mp n)[p]? = some e → ∀ r : D, e.reach = some r →
      ∃ (q : Nat) (o : Entry D) (c : D), q < p ∧ (optics (some nbrs₂) dist mp n)[q]? = some o ∧
        coreDist dist mp o.index (findNeighbors nbrs₁ dist o.index) = some c ∧
        e.index ∈ nbrs₁ o.index ∧ r = max c (dist e.index o.index)) := by
  have hrange₂ : ∀ i, ∀ j ∈ nbrs₂ i, j < n := fun i j hj => hrange i j ((hperm i).symm.subset hj)
  have ok₁ := foldl_CoreOK nbrs₁ dist mp n (List.range n) (Optics.init n)
    (by intro e he; simp [Optics.init] at he)
  have ok₂ := foldl_CoreOK nbrs₂ dist mp n (List.range n) (Optics.init n)
    (by intro e he; simp [Optics.init] at he)
  refine ⟨?_, ?_, ?_⟩
  · obtain ⟨nd₁, m₁⟩ := optics_lists_each_once nbrs₁ dist mp n hrange
    obtain ⟨nd₂, m₂⟩ := optics_lists_each_once nbrs₂ dist mp n hrange₂
    exact (List.perm_ext_iff_of_nodup nd₁ nd₂).mpr fun j => (m₁ j).trans (m₂ j).symm
  · intro e₁ h₁ e₂ h₂ hidx
    have a := ok₁ e₁ h₁
    have b := ok₂ e₂ h₂
    rw [a, b, hidx]
    exact optics_core_distance_index_independent nbrs₁ nbrs₂ dist mp e₂.index (hperm e₂.index)
  · intro p e he r hr
    obtain ⟨q, o, c, hq, ho, hc, hm, hrr⟩ := optics_reachability_witness nbrs₂ dist mp n hrange₂ p e he r hr
    refine ⟨q, o, c, hq, ho, ?_, (hperm o.index).symm.subset hm, hrr⟩
    rw [optics_core_distance_index_independent nbrs₁ nbrs₂ dist mp o.index (hperm o.index),
      ← ok₂ o (List.mem_of_getElem? ho)]
    exact hc

/-- **the whole OPTICS result — ordering, core distances, reachabilities — is a function of the
relation and the distances**: two neighbour functions whose (duplicate-free) query results are
permutations of each other give the *identical* list of entries.  (In the code the seeds are re-sorted by
position before every selection, so neither the order in which an index returns the neighbours nor the
order in which seeds were pushed reaches the result.) -/
theorem optics_ordering_determined (nbrs₁ nbrs₂ : Nat → List Nat) (dist : Nat → Nat → D) (mp n : Nat)
    (hperm : ∀ i, (nbrs₁ i).Perm (nbrs₂ i)) (hnd : ∀ i, (nbrs₁ i).Nodup) :
    optics (some nbrs₁) dist mp n = optics (some nbrs₂) dist mp n :=
  (Optics.foldl_Sim nbrs₁ nbrs₂ dist mp hperm hnd n (List.range n) (Optics.init n) (Optics.init n)
    ⟨rfl, rfl, rfl, List.Perm.refl _⟩).out

/-- non-vacuity: samples `[0, 6, 1, 5, 2]` (`exDist`), all within the tolerance of each other,
`min_points = 3`; the query for sample 0 returned in two different orders -/
example : ∀ i, ((fun _ : Nat => [0, 2, 3, 4, 1]) i).Perm ((fun _ : Nat => [0, 1, 2, 4, 3]) i) := by
  intro i; show ([0, 2, 3, 4, 1] : List Nat).Perm [0, 1, 2, 4, 3]; decide
example : ∀ i, ((fun _ : Nat => [0, 2, 3, 4, 1]) i).Nodup := by
  intro i; show ([0, 2, 3, 4, 1] : List Nat).Nodup; decide

end optics_determined

/-- non-vacuity (the witness of the fixed defect): samples `[0, 3, 0.5, 2.5, 1, 9, 9.5]` ×2 (so that the
distances are naturals), tolerance 5.5, `min_points = 3`.  The linear search returns `[0, 2, 3, 4]` for
sample 0, the trees `[0, 2, 4, 3]`; both give core distance 2 (= 1.0), unsorted reading gave 5. -/
def exDist (i j : Nat) : Nat :=
  let xs := [0, 6, 1, 5, 2, 18, 19]
  let a := xs[i]?.getD 0; let b := xs[j]?.getD 0
  if a < b then b - a else a - b



example : Optics.coreDist exDist 3 0 (Optics.findNeighbors (fun _ => [0, 2, 3, 4]) exDist 0) = some 2 := by
  simp [Optics.coreDist, Optics.findNeighbors, exDist, List.mergeSort, List.MergeSort.Internal.splitInTwo]
example : Optics.coreDist exDist 3 0 (Optics.findNeighbors (fun _ => [0, 2, 4, 3]) exDist 0) = some 2 := by
  simp [Optics.coreDist, Optics.findNeighbors, exDist, List.mergeSort, List.MergeSort.Internal.splitInTwo]
example : Optics.coreDist exDist 3 0 [0, 2, 3, 4] = some 5 := by decide
example : ([0, 2, 3, 4] : List Nat).Perm [0, 2, 4, 3] := by decide


/-- non-vacuity of `optics_reachability_witness`: two samples at distance 6 within the tolerance,
`min_points = 2`: sample 0 starts (core distance 6, reachability undefined), sample 1 follows with
reachability `6 = max(core(0), dist(1,0))`, witness sample 0 listed before it. -/
example : ((Optics.optics (some fun _ => [0, 1]) exDist 2 2).map fun e => (e.index, e.core, e.reach)) =
    [(0, some 6, none), (1, some 6, some 6)] := by
  simp [Optics.optics, Optics.outerStep, Optics.seedLoop, Optics.seedStep, Optics.getSeeds, Optics.init,
    Optics.coreDist, Optics.findNeighbors, Optics.isProcessed, Optics.setCore, Optics.setReach,
    Optics.getReach, Optics.fmax, Optics.argminPos, exDist, List.range, List.range.loop,
    List.mergeSort, List.MergeSort.Internal.splitInTwo]
example : ∀ i, ∀ j ∈ (fun _ : Nat => [0, 1]) i, j < 2 := by
  intro i j h; simp at h; omega

/-- records without features (the index constructor reports `ZeroDimension`): DBSCAN returns one
`None` per sample (this is the behaviour recorded as finding `C08-zero-features-dbscan`) -/
theorem dbscan_zero_dimension (mp n : Nat) :
    dbscan none mp n = List.replicate n none := rfl

example : dbscan none 2 3 = [none, none, none] := by decide

/-! ## hyper-parameter guard (`ParamGuard::check` of `DbscanParams` / `OpticsParams`) -/
section params
variable {α : Type} [LinearOrder α] [OfNat α 0]

/-- DBSCAN: `check` accepts exactly `min_points ≥ 2 ∧ tolerance > 0` and returns the parameters unchanged -/
theorem dbscan_params_check_iff (p q : Dbscan.Params α) :
    p.check = .ok q ↔ (2 ≤ p.minPoints ∧ 0 < p.tolerance ∧ q = p) := by
  unfold Dbscan.Params.check
  by_cases h1 : p.minPoints ≤ 1
  · simp [h1]; omega
  · by_cases h2 : p.tolerance ≤ 0
    · simp [h1, h2]; intro _ h; exact absurd h (not_lt.mpr h2)
    · simp only [h1, h2, if_false, Except.ok.injEq]
      exact ⟨fun e => ⟨by omega, not_le.mp h2, e.symm⟩, fun e => e.2.2.symm⟩

/-- DBSCAN tests `min_points` first: the error is `MinPoints` iff `min_points ≤ 1`, and `Tolerance` iff
`min_points ≥ 2` and `tolerance ≤ 0` -/
theorem dbscan_params_check_error (p : Dbscan.Params α) :
    (p.check = .error .minPoints ↔ p.minPoints ≤ 1) ∧
    (p.check = .error .tolerance ↔ 2 ≤ p.minPoints ∧ p.tolerance ≤ 0) := by
  unfold Dbscan.Params.check
  by_cases h1 : p.minPoints ≤ 1
  · simp [h1]; omega
  · by_cases h2 : p.tolerance ≤ 0
    · simp [h1, h2]; omega
    · simp [h1, h2]

/-- OPTICS: same accepted set -/
theorem optics_params_check_iff (p q : Optics.Params α) :
    p.check = .ok q ↔ (2 ≤ p.minPoints ∧ 0 < p.tolerance ∧ q = p) := by
  unfold Optics.Params.check
  by_cases h2 : p.tolerance ≤ 0
  · simp [h2]; intro _ h; exact absurd h (not_lt.mpr h2)
  · by_cases h1 : p.minPoints ≤ 1
    · simp [h1, h2]; omega
    · simp only [h1, h2, if_false, Except.ok.injEq]
      exact ⟨fun e => ⟨by omega, not_le.mp h2, e.symm⟩, fun e => e.2.2.symm⟩

/-- OPTICS tests the tolerance first (the other order than DBSCAN) -/
theorem optics_params_check_error (p : Optics.Params α) :
    (p.check = .error .tolerance ↔ p.tolerance ≤ 0) ∧
    (p.check = .error .minPoints ↔ 0 < p.tolerance ∧ p.minPoints ≤ 1) := by
  unfold Optics.Params.check
  by_cases h2 : p.tolerance ≤ 0
  · simp [h2]; intro h; exact absurd h (not_lt.mpr h2)
  · by_cases h1 : p.minPoints ≤ 1
    · simp [h1, h2]; exact not_le.mp h2
    · simp [h1, h2]

/-- the guard as the code states it, for **every** scalar with a decidable `≤` — no order axioms, so it
applies to the `Float` instance the driver runs (where `NaN ≤ 0` is false: a NaN tolerance is accepted,
by the code as by the model; the statement's quantifier does not contain it) -/
theorem dbscan_params_check_generic {β : Type} [LE β] [DecidableLE β] [OfNat β 0] (p q : Dbscan.Params β) :
    p.check = .ok q ↔ (2 ≤ p.minPoints ∧ ¬ p.tolerance ≤ 0 ∧ q = p) := by
  unfold Dbscan.Params.check
  by_cases h1 : p.minPoints ≤ 1
  · simp [h1]; omega
  · by_cases h2 : p.tolerance ≤ 0
    · simp [h1, h2]
    · simp only [h1, h2, if_false, Except.ok.injEq]
      exact ⟨fun e => ⟨by omega, fun h => h, e.symm⟩, fun e => e.2.2.symm⟩

theorem optics_params_check_generic {β : Type} [LE β] [DecidableLE β] [OfNat β 0] (p q : Optics.Params β) :
    p.check = .ok q ↔ (2 ≤ p.minPoints ∧ ¬ p.tolerance ≤ 0 ∧ q = p) := by
  unfold Optics.Params.check
  by_cases h2 : p.tolerance ≤ 0
  · simp [h2]
  · by_cases h1 : p.minPoints ≤ 1
    · simp [h1, h2]; omega
    · simp only [h1, h2, if_false, Except.ok.injEq]
      exact ⟨fun e => ⟨by omega, fun h => h, e.symm⟩, fun e => e.2.2.symm⟩

example : (Dbscan.Params.new (1 : Int) 3).check = .ok ⟨3, 1⟩ := by
  simp [Dbscan.Params.check, Dbscan.Params.new]
example : ((Dbscan.Params.new (1 : Int) 1).withTolerance 0).check = .error .minPoints := by
  simp [Dbscan.Params.check, Dbscan.Params.new, Dbscan.Params.withTolerance]
example : ((Optics.Params.new (1 : Int) 1).withTolerance 0).check = .error .tolerance := by
  simp [Optics.Params.check, Optics.Params.new, Optics.Params.withTolerance]

/-- the dataset form passes the records on untouched and its targets are the labels of the array form -/
theorem dbscan_dataset_form {R T : Type} (nbrs : R → Option (Nat → List Nat)) (nrows : R → Nat) (mp : Nat)
    (ds : R × T) :
    (transformDataset nbrs nrows mp ds).1 = ds.1 ∧
    (transformDataset nbrs nrows mp ds).2 = dbscan (nbrs ds.1) mp (nrows ds.1) := ⟨rfl, rfl⟩

end params

end LinfaSpec.Props.C08
