import LinfaSpec.Model.Gmm

/-!
# C10 — A fitted Gaussian mixture is a valid mixture and yields valid probabilities
-/
namespace LinfaSpec.Props.C10
open LinfaSpec LinfaSpec.Gmm

/-- the guard of `estimate_gaussian_parameters`: a result is only returned when no
component mass is below the threshold -/
theorem guard_all_ge {α} [Add α] [Sub α] [Mul α] [Div α] [LT α] [DecidableLT α]
    [OfNat α 0] [NatCast α] (thr reg : α) (n d k : Nat) (x r : List (List α)) (p : Params α)
    (h : estimateParams thr reg n d k x r = .ok p) :
    p.nk = nkOf n k r ∧ ∀ v ∈ p.nk, ¬ v < thr := by
  unfold estimateParams at h
  by_cases hg : (nkOf n k r).any (fun v => v < thr) = true
  · simp [hg] at h
  · simp only [hg] at h
    injection h with h
    subst h
    refine ⟨rfl, ?_⟩
    intro v hv hlt
    apply hg
    simp only [List.any_eq_true, decide_eq_true_eq]
    exact ⟨v, hv, hlt⟩

end LinfaSpec.Props.C10
