import LinfaSpec.Proofs.Gmm
import LinfaSpec.Proofs.GmmReal
import LinfaSpec.Proofs.GmmFit
import Mathlib.Tactic.NormNum

/-!
# C10 — A fitted Gaussian mixture is a valid mixture and yields valid probabilities

Theorems about `LinfaSpec.Gmm` (`Model/Gmm.lean`), the model of
`linfa-clustering/src/gaussian_mixture/algorithm.rs`.  Every parameter set a fit
returns is the output of one M-step (`estimate_gaussian_parameters`, then
`weights = nk / n`) on responsibilities `r` that are either one-hot (k-means
initialiser), normalised uniforms (random initialiser) or `exp(log_resp)` of an
E-step — in every case non-negative with rows summing to one.  The theorems of
the first part therefore quantify over **all** observations `x`, all such `r`,
all `n d k`, all `reg` and hold in every ordered field; the second part (E-step,
probabilities) is over `ℝ` with `exp`/`ln`.

IEEE effects (underflow far from the data) are outside these theorems; see
`lse_stable_bounds` for the reason the repaired form cannot underflow and the
oracle of the correspondence run for the far queries.
-/
namespace LinfaSpec.Props.C10
open LinfaSpec LinfaSpec.Gmm

section mstep
variable {α : Type} [Field α] [LinearOrder α] [IsStrictOrderedRing α]

/-- **weights sum to one**: if every row of the responsibilities sums to one, the
weights returned by an M-step sum to one. -/
theorem weights_sum_one (thr reg : α) (n d k : Nat) (x r : List (List α)) (p : Params α)
    (hn : 0 < n) (hrow : ∀ i, i < n → sumRange k (fun j => at2 r i j) = 1)
    (h : estimateParams thr reg n d k x r = .ok p) :
    sumS p.weights = 1 := by
  obtain ⟨_, _, hw, _, _⟩ := estimateParams_ok thr reg n d k x r p h
  rw [hw]
  apply sum_weights n k r hn
  intro i hi
  rw [← sumRange_eq]
  exact hrow i hi

/-- **… and approximately so when the rows sum to one only approximately** (what floating point gives:
the random initialiser normalises in f64 and casts, an E-step row is `exp` of rounded logs): if every row sum
is within `ε` of one, so is the sum of the weights -/
theorem weights_sum_approx (thr reg : α) (n d k : Nat) (x r : List (List α)) (p : Params α) (ε : α)
    (hn : 0 < n) (hrow : ∀ i, i < n → |sumRange k (fun j => at2 r i j) - 1| ≤ ε)
    (h : estimateParams thr reg n d k x r = .ok p) :
    |sumS p.weights - 1| ≤ ε := by
  obtain ⟨_, _, hw, _, _⟩ := estimateParams_ok thr reg n d k x r p h
  have hnpos : (0 : α) < (n : α) := Nat.cast_pos.mpr hn
  have hdiv : ∀ l : List α, (l.map (fun v => v / (n : α))).sum = l.sum / (n : α) := by
    intro l
    induction l with
    | nil => simp
    | cons a t ih => simp [ih, add_div]
  have hsum : sumS p.weights = (∑ i ∈ Finset.range n, ∑ j ∈ Finset.range k, at2 r i j) / (n : α) := by
    rw [hw, sumS_eq_sum, hdiv, ← sumS_eq_sum]
    unfold nkOf
    rw [sumS_map_range]
    simp only [sumRange_eq]
    rw [Finset.sum_comm]
  have hsub : sumS p.weights - 1 =
      (∑ i ∈ Finset.range n, ((∑ j ∈ Finset.range k, at2 r i j) - 1)) / (n : α) := by
    rw [hsum, Finset.sum_sub_distrib]
    simp
    field_simp
  rw [hsub, abs_div, abs_of_pos hnpos, div_le_iff₀ hnpos]
  calc |∑ i ∈ Finset.range n, ((∑ j ∈ Finset.range k, at2 r i j) - 1)|
      ≤ ∑ i ∈ Finset.range n, |(∑ j ∈ Finset.range k, at2 r i j) - 1| := Finset.abs_sum_le_sum_abs _ _
    _ ≤ ∑ _i ∈ Finset.range n, ε := Finset.sum_le_sum (fun i hi => by
        rw [← sumRange_eq]; exact hrow i (Finset.mem_range.mp hi))
    _ = ε * (n : α) := by simp [mul_comm]

/-- non-vacuity: rows summing to `1, 99/100, 1` satisfy the hypothesis with `ε = 1/100` -/
example : ∀ i, i < 3 → |sumRange 2 (fun j => at2 [[(1 : ℚ), 0], [99/100, 0], [0, 1]] i j) - 1| ≤ 1/100 := by
  intro i hi
  have : i = 0 ∨ i = 1 ∨ i = 2 := by omega
  rcases this with rfl | rfl | rfl <;> norm_num [sumRange, sumS, at2, List.range_succ]

/-- **weights are positive**: the `EmptyCluster` guard (`nk.min() < 10ε` is an
error) leaves only components with mass `≥ thr > 0`. -/
theorem weights_pos (thr reg : α) (n d k : Nat) (x r : List (List α)) (p : Params α)
    (hthr : 0 < thr) (hn : 0 < n)
    (h : estimateParams thr reg n d k x r = .ok p) :
    ∀ w ∈ p.weights, 0 < w := by
  obtain ⟨hg, _, hw, _, _⟩ := estimateParams_ok thr reg n d k x r p h
  intro w hwm
  rw [hw, List.mem_map] at hwm
  obtain ⟨v, hv, rfl⟩ := hwm
  have hv' : thr ≤ v := not_lt.mp (hg v hv)
  have hnpos : (0 : α) < (n : α) := Nat.cast_pos.mpr hn
  exact div_pos (lt_of_lt_of_le hthr hv') hnpos

/-- one mean per component, each coordinate inside the data's bounding box -/
theorem means_in_bbox (thr reg : α) (n d k : Nat) (x r : List (List α)) (p : Params α)
    (hthr : 0 < thr) (hr : ∀ i j, i < n → j < k → 0 ≤ at2 r i j)
    (h : estimateParams thr reg n d k x r = .ok p) :
    p.means.length = k ∧
    ∀ j c, j < k → c < d → ∀ lo hi : α, (∀ i, i < n → lo ≤ at2 x i c ∧ at2 x i c ≤ hi) →
      lo ≤ at2 p.means j c ∧ at2 p.means j c ≤ hi := by
  obtain ⟨hg, _, _, hm, _⟩ := estimateParams_ok thr reg n d k x r p h
  refine ⟨by rw [hm]; simp [meansOf], ?_⟩
  intro j c hj hc lo hi hb
  rw [hm, meansOf_at n d k x r _ j c hj hc, nkOf_getD n k r j hj]
  have hpos : 0 < ∑ i ∈ Finset.range n, at2 r i j :=
    lt_of_lt_of_le hthr (not_lt.mp (hg _ (nkOf_mem n k r j hj)))
  exact weighted_mean_bounds n (fun i => at2 r i j) (fun i => at2 x i c) lo hi
    (fun i hi' => hr i j hi' hj) hpos hb

/-- the covariance of component `j` as the model computes it -/
theorem covs_getD (thr reg : α) (n d k : Nat) (x r : List (List α)) (p : Params α)
    (h : estimateParams thr reg n d k x r = .ok p) (j : Nat) (hj : j < k) :
    p.covs.getD j [] = covOf n d x r j ((meansOf n d k x r (nkOf n k r)).getD j [])
      ((nkOf n k r).getD j 0) reg := by
  obtain ⟨_, _, _, _, hc⟩ := estimateParams_ok thr reg n d k x r p h
  rw [hc, getD_map_range k _ j hj]

/-- covariances are symmetric -/
theorem cov_symm (thr reg : α) (n d k : Nat) (x r : List (List α)) (p : Params α)
    (h : estimateParams thr reg n d k x r = .ok p) :
    ∀ j a b, j < k → a < d → b < d →
      at2 (p.covs.getD j []) a b = at2 (p.covs.getD j []) b a := by
  intro j a b hj ha hb
  rw [covs_getD thr reg n d k x r p h j hj]
  exact covOf_symm n d x r j _ _ reg a b ha hb

/-- **covariances dominate the regularisation**: `vᵀ Σ_j v ≥ reg · |v|²` for every
vector `v` -/
theorem cov_pd (thr reg : α) (n d k : Nat) (x r : List (List α)) (p : Params α)
    (hthr : 0 < thr) (hr : ∀ i j, i < n → j < k → 0 ≤ at2 r i j)
    (h : estimateParams thr reg n d k x r = .ok p) :
    ∀ j, j < k → ∀ v : Nat → α,
      reg * sumRange d (fun a => v a ^ 2) ≤
        sumRange d (fun a => sumRange d fun b => v a * at2 (p.covs.getD j []) a b * v b) := by
  obtain ⟨hg, _, _, _, _⟩ := estimateParams_ok thr reg n d k x r p h
  intro j hj v
  rw [covs_getD thr reg n d k x r p h j hj]
  simp only [sumRange_eq]
  apply covOf_quad_ge n d x r j _ _ reg v (fun i hi => hr i j hi hj)
  rw [nkOf_getD n k r j hj]
  exact lt_of_lt_of_le hthr (not_lt.mp (hg _ (nkOf_mem n k r j hj)))

/-- with `reg > 0` the covariances are positive definite -/
theorem cov_pos_def (thr reg : α) (n d k : Nat) (x r : List (List α)) (p : Params α)
    (hthr : 0 < thr) (hreg : 0 < reg) (hr : ∀ i j, i < n → j < k → 0 ≤ at2 r i j)
    (h : estimateParams thr reg n d k x r = .ok p) :
    ∀ j, j < k → ∀ v : Nat → α, (∃ a, a < d ∧ v a ≠ 0) →
      0 < sumRange d (fun a => sumRange d fun b => v a * at2 (p.covs.getD j []) a b * v b) := by
  intro j hj v ⟨a, ha, hva⟩
  refine lt_of_lt_of_le ?_ (cov_pd thr reg n d k x r p hthr hr h j hj v)
  apply mul_pos hreg
  rw [sumRange_eq]
  have h1 : v a ^ 2 ≤ ∑ a ∈ Finset.range d, v a ^ 2 :=
    Finset.single_le_sum (f := fun a => v a ^ 2) (fun i _ => sq_nonneg (v i)) (Finset.mem_range.mpr ha)
  have h2 : 0 < v a ^ 2 := by positivity
  linarith

/-- the diagonal of every covariance includes the configured regularisation -/
theorem cov_diag_ge_reg (thr reg : α) (n d k : Nat) (x r : List (List α)) (p : Params α)
    (hthr : 0 < thr) (hr : ∀ i j, i < n → j < k → 0 ≤ at2 r i j)
    (h : estimateParams thr reg n d k x r = .ok p) :
    ∀ j a, j < k → a < d → reg ≤ at2 (p.covs.getD j []) a a := by
  obtain ⟨hg, _, _, _, _⟩ := estimateParams_ok thr reg n d k x r p h
  intro j a hj ha
  rw [covs_getD thr reg n d k x r p h j hj]
  apply covOf_diag_ge n d x r j _ _ reg a ha (fun i hi => hr i j hi hj)
  rw [nkOf_getD n k r j hj]
  exact lt_of_lt_of_le hthr (not_lt.mp (hg _ (nkOf_mem n k r j hj)))

/-- an emptied component is an error, never a parameter set -/
theorem empty_cluster_is_error (thr reg : α) (n d k : Nat) (x r : List (List α))
    (j : Nat) (hj : j < k) (hempty : sumRange n (fun i => at2 r i j) < thr) :
    estimateParams thr reg n d k x r = .error "EmptyCluster" := by
  unfold estimateParams
  have : (nkOf n k r).any (fun v => v < thr) = true := by
    simp only [List.any_eq_true, decide_eq_true_eq]
    refine ⟨_, nkOf_mem n k r j hj, ?_⟩
    rw [← sumRange_eq]
    exact hempty
  simp [this]

end mstep

/-- non-vacuity: three points on a line, two components, one-hot responsibilities -/
example : ∃ p : Params ℚ,
    estimateParams (1/100 : ℚ) (1/4) 3 1 2 [[0], [2], [10]] [[1, 0], [1, 0], [0, 1]] = .ok p ∧
    p.weights = [2/3, 1/3] ∧ p.means = [[1], [10]] ∧ p.covs = [[[5/4]], [[1/4]]] := by
  refine ⟨⟨[2, 1], [2/3, 1/3], [[1], [10]], [[[5/4]], [[1/4]]]⟩, ?_, rfl, rfl, rfl⟩
  norm_num [estimateParams, nkOf, meansOf, covOf, sumRange, sumS, at2, List.range_succ]

example : estimateParams (1/100 : ℚ) (1/4) 3 1 2 [[0], [2], [10]] [[1, 0], [1, 0], [1, 0]]
    = .error "EmptyCluster" := by
  norm_num [estimateParams, nkOf, meansOf, covOf, sumRange, sumS, at2, List.range_succ]

/-! ## Precisions -/

/-- **precisions are the inverses of the covariances**, under the contract of the
two `linfa-linalg` calls of `compute_precisions_cholesky_full`: `L = cholesky(Σ)`
with `L Lᵀ = Σ`, `sol = solve_triangular(L, I)` with `L·sol = I`, and
`precisions_chol = solᵀ`.  Then `precisions = C Cᵀ` (`precisionsFull`) satisfies
`P Σ = Σ P = I`. -/
theorem precision_is_inverse {α : Type} [Field α] (d : Nat) (pc : List (List α))
    (L sol Sig : Matrix (Fin d) (Fin d) α)
    (hchol : L * L.transpose = Sig) (hsolve : L * sol = 1) (hpc : toMat d pc = sol.transpose) :
    toMat d (precisionsFull d pc) * Sig = 1 ∧ Sig * toMat d (precisionsFull d pc) = 1 := by
  have hsl : sol * L = 1 := mul_eq_one_comm.mp hsolve
  have h1 : toMat d (precisionsFull d pc) * Sig = 1 := by
    rw [precisionsFull_toMat, hpc, ← hchol, Matrix.transpose_transpose]
    calc sol.transpose * sol * (L * L.transpose)
        = sol.transpose * ((sol * L) * L.transpose) := by simp only [Matrix.mul_assoc]
      _ = sol.transpose * L.transpose := by rw [hsl, Matrix.one_mul]
      _ = (L * sol).transpose := by rw [Matrix.transpose_mul]
      _ = 1 := by rw [hsolve, Matrix.transpose_one]
  exact ⟨h1, mul_eq_one_comm.mp h1⟩

/-- non-vacuity: `Σ = [[4]]`, `L = [[2]]`, `sol = [[1/2]]`, `precisions_chol = [[1/2]]` -/
example : toMat 1 (precisionsFull 1 [[(1/2 : ℚ)]]) * (Matrix.of fun _ _ => (4 : ℚ)) = 1 := by
  refine (precision_is_inverse 1 [[(1/2 : ℚ)]] (Matrix.of fun _ _ => 2) (Matrix.of fun _ _ => 1/2)
    (Matrix.of fun _ _ => 4) ?_ ?_ ?_).1
  · funext a b; simp [Matrix.mul_apply]; norm_num
  · funext a b; simp [Matrix.mul_apply, Matrix.one_apply, Subsingleton.elim a b]
  · funext a b
    have ha : a = 0 := Subsingleton.elim _ _
    have hb : b = 0 := Subsingleton.elim _ _
    subst ha; subst hb
    simp [toMat, at2]


/-! ## The loop of `fit`: failure to converge or a failing step is an error

`fitOutcome tol maxIter nRuns tr` is the loop of `GmmValidParams::fit` (runs, iterations, convergence test,
choice of the best run, final `match`) on the chain of EM states; `tr[t]` is the outcome of step `t`
(`e_step` then `m_step` on state `t`): its lower bound, or the error it raised.  `.ok i` = `fit` returns
chain state `i`.  All `tol`, iteration and run counts, all chains. -/
section fitloop
variable {α : Type} [Field α] [LinearOrder α] [IsStrictOrderedRing α]

/-- **a returned model comes from a converged run, reached without any failed step**: if `fit` returns
state `i`, then `i ≥ 2`, the two steps that produced it are consecutive steps (of one run) whose lower
bounds differ by less than the tolerance, every step up to `i` succeeded, and `i` is within the budget
`n_runs · max_n_iterations`.  (State `i ≥ 1` is the output of an M-step, so the M-step theorems above
apply to it.) -/
theorem fit_ok_converged (tol : α) (maxIter nRuns : Nat) (tr : List (Except String α)) (i : Nat)
    (h : fitOutcome tol maxIter nRuns tr = .ok i) :
    2 ≤ i ∧ i ≤ nRuns * maxIter ∧
    (∃ p v, tr[i - 2]? = some (.ok p) ∧ tr[i - 1]? = some (.ok v) ∧ |v - p| < tol) ∧
    ∀ t, t < i → ∃ v, tr[t]? = some (.ok v) := by
  unfold fitOutcome at h
  cases hr : fitRuns tol maxIter tr nRuns 0 ⟨none, none, none⟩ with
  | error e => rw [hr] at h; simp at h
  | ok res =>
    obtain ⟨b, posEnd⟩ := res
    rw [hr] at h
    simp only at h
    have hinv0 : BestInv tol tr 0 (⟨none, none, none⟩ : Best α) := by
      refine ⟨?_, ?_, ?_⟩
      · intro it hit; cases hit
      · intro i hi; cases hi
      · intro i it hi; cases hi
    obtain ⟨_, h2, h3, g1, g2, g3⟩ :=
      fitRuns_ok tol maxIter tr nRuns 0 _ b posEnd (fun t _ ht => by omega) hinv0 hr
    cases hbi : b.bestIter with
    | none => rw [hbi] at h; simp at h
    | some it =>
      cases hbb : b.best with
      | none => rw [hbi, hbb] at h; simp at h
      | some j =>
        rw [hbi, hbb] at h
        simp only [Except.ok.injEq] at h
        subst h
        obtain ⟨c1, p, v, c2, c3, c4⟩ := g3 j it hbb hbi
        have hj := g2 j hbb
        exact ⟨c1, by omega, ⟨p, v, c2, c3, c4⟩, fun t ht => h3 t (Nat.zero_le _) (by omega)⟩

/-- **failure to converge is an error**: on a chain whose consecutive lower bounds never come within the
tolerance, `fit` returns no model, whatever the numbers of runs and iterations -/
theorem never_converged_is_error (tol : α) (maxIter nRuns : Nat) (tr : List (Except String α))
    (hfar : ∀ t p v, tr[t]? = some (.ok p) → tr[t + 1]? = some (.ok v) → tol ≤ |v - p|) :
    ∀ i, fitOutcome tol maxIter nRuns tr ≠ .ok i := by
  intro i h
  obtain ⟨h2, _, ⟨p, v, c2, c3, c4⟩, _⟩ := fit_ok_converged tol maxIter nRuns tr i h
  have : i - 2 + 1 = i - 1 := by omega
  have := hfar (i - 2) p v c2 (by rw [this]; exact c3)
  exact absurd c4 (not_lt.mpr this)

/-- **a failing step is an error** (emptied component, failed Cholesky): a run that meets a failed step
ends with that error … -/
theorem step_error_ends_run (tol : α) (tr : List (Except String α)) (fuel iter pos : Nat)
    (prev : Option α) (e : String) (h : tr[pos]? = some (.error e)) :
    runLoop tol tr (fuel + 1) iter pos prev = .error e :=
  runLoop_step_error tol tr fuel iter pos prev e h

/-- … and the error of a run is the result of `fit` (no later run, no earlier accepted run hides it) -/
theorem run_error_is_fit_error (tol : α) (maxIter : Nat) (tr : List (Except String α)) (runs pos : Nat)
    (b : Best α) (e : String) (h : runLoop tol tr maxIter 0 pos none = .error e) :
    fitRuns tol maxIter tr (runs + 1) pos b = .error e :=
  fitRuns_run_error tol maxIter tr runs pos b e h

/-- in particular: the very first step failing makes `fit` fail with that error -/
theorem first_step_error_is_fit_error (tol : α) (maxIter nRuns : Nat) (tr : List (Except String α))
    (e : String) (h : tr[0]? = some (.error e)) :
    fitOutcome tol (maxIter + 1) (nRuns + 1) tr = .error e := by
  unfold fitOutcome
  rw [fitRuns_run_error tol (maxIter + 1) tr nRuns 0 _ e (runLoop_step_error tol tr maxIter 0 0 none e h)]

end fitloop

/-- non-vacuity: a chain that converges at its third step (|21/20 − 1| < 1/10): state 3 is returned -/
example : fitOutcome (1/10 : ℚ) 5 1 [.ok 0, .ok 1, .ok (21/20)] = .ok 3 := by
  norm_num [fitOutcome, fitRuns, runLoop, convTest, lbGreater, absS]
/-- two runs of two iterations: the first does not converge, the second (continuing the chain) does -/
example : fitOutcome (1/10 : ℚ) 2 2 [.ok 0, .ok 1, .ok (21/20), .ok (21/20)] = .ok 4 := by
  norm_num [fitOutcome, fitRuns, runLoop, convTest, lbGreater, absS]
/-- the budget runs out before the bounds settle: `NotConverged` -/
example : fitOutcome (1/10 : ℚ) 3 1 [.ok 0, .ok 1, .ok 2] = .error "NotConverged" := by
  norm_num [fitOutcome, fitRuns, runLoop, convTest, lbGreater, absS]
/-- the hypothesis of `never_converged_is_error` is satisfiable -/
example : ∀ t p v, ([.ok 0, .ok 1, .ok 2] : List (Except String ℚ))[t]? = some (.ok p) →
    ([.ok 0, .ok 1, .ok 2] : List (Except String ℚ))[t + 1]? = some (.ok v) → (1/10 : ℚ) ≤ |v - p| := by
  intro t p v h1 h2
  match t with
  | 0 => simp at h1 h2; subst h1; subst h2; norm_num
  | 1 => simp at h1 h2; subst h1; subst h2; norm_num
  | n + 2 => simp at h2
/-- an emptied component in the second step: the error is the result -/
example : fitOutcome (1/10 : ℚ) 5 2 [.ok 0, .error "EmptyCluster"] = .error "EmptyCluster" := by
  norm_num [fitOutcome, fitRuns, runLoop, convTest, lbGreater, absS]


/-! ## The whole of `fit`: the returned model is a valid mixture from a converged run

`fitFull step tol maxIter nRuns fuel s₀` is `GmmValidParams::fit` after `GaussianMixtureModel::new`: the loop
`fitOutcome` run on the chain of states `chainFrom` generates with `step` from the initial state `s₀` — the
function the driver evaluates for the op `fitfull` with `step = emStepFull` (the methods `e_step`, `m_step`
incl. the Cholesky factorisation).  These theorems join the loop theorems (about an abstract trace) to the
EM iteration: trace entry `t` IS the lower bound `e_step` reports for state `t`, state `t+1` IS the output of
`m_step` on it. -/
section fitfull
variable {α : Type} [Field α] [LinearOrder α] [IsStrictOrderedRing α]

/-- **what `fit` returns**, for every step function, initial state, tolerance, run / iteration count and
fuel: chain state `i ≥ 2`, reached by two consecutive successful steps `a → b → s` whose lower bounds (the
values the steps themselves report) differ by less than the tolerance -/
theorem fitFull_returns_converged_step_output {σ : Type} (step : σ → Except String (α × σ)) (tol : α)
    (maxIter nRuns fuel : Nat) (s0 s : σ) (i : Nat)
    (h : fitFull step tol maxIter nRuns fuel s0 = .ok (i, s)) :
    2 ≤ i ∧ i ≤ nRuns * maxIter ∧
    ∃ a b lbA lbB, (chainFrom step fuel s0).2[i - 2]? = some a ∧ (chainFrom step fuel s0).2[i - 1]? = some b ∧
      step a = .ok (lbA, b) ∧ step b = .ok (lbB, s) ∧ |lbB - lbA| < tol := by
  unfold fitFull at h
  dsimp only at h
  cases ho : fitOutcome tol maxIter nRuns (chainFrom step fuel s0).1 with
  | error e => rw [ho] at h; simp at h
  | ok j =>
    rw [ho] at h
    simp only at h
    cases hs : (chainFrom step fuel s0).2[j]? with
    | none => rw [hs] at h; simp at h
    | some s' =>
      rw [hs] at h
      simp only [Except.ok.injEq, Prod.mk.injEq] at h
      obtain ⟨rfl, rfl⟩ := h
      obtain ⟨h2, hb, ⟨p, v, c1, c2, c3⟩, _⟩ := fit_ok_converged tol maxIter nRuns _ j ho
      have e1 : j = (j - 1) + 1 := by omega
      rw [e1] at hs
      obtain ⟨b, lbB, hb1, hb2, hb3⟩ := chainFrom_succ step fuel s0 (j - 1) s' hs
      have e2 : j - 1 = (j - 2) + 1 := by omega
      have hb1' := hb1
      rw [e2] at hb1'
      obtain ⟨a, lbA, ha1, ha2, ha3⟩ := chainFrom_succ step fuel s0 (j - 2) b hb1'
      rw [c2] at hb3
      rw [c1] at ha3
      simp only [Option.some.injEq, Except.ok.injEq] at hb3 ha3
      subst hb3; subst ha3
      exact ⟨h2, hb, a, b, p, v, ha1, hb1, ha2, hb2, c3⟩

/-- a step that fails is the result of `fit`: if the first step from the initial state raises an error
(emptied component, failed factorisation), `fit` returns that error, for every later behaviour -/
theorem fitFull_first_step_error {σ : Type} (step : σ → Except String (α × σ)) (tol : α)
    (maxIter nRuns fuel : Nat) (s0 : σ) (e : String) (h : step s0 = .error e) :
    fitFull step tol (maxIter + 1) (nRuns + 1) (fuel + 1) s0 = .error e := by
  unfold fitFull
  dsimp only
  have : (chainFrom step (fuel + 1) s0).1 = [.error e] := by
    unfold chainFrom; rw [h]
  rw [this, first_step_error_is_fit_error tol maxIter nRuns [.error e] e (by simp)]

end fitfull

/-- non-vacuity: a step function on ℚ-states that halves the distance to 1 and reports the state as its
lower bound: `fit` with tolerance 1/10 returns the state after the fifth step -/
example : fitFull (fun s : ℚ => .ok (s, (s + 1) / 2)) (1/10 : ℚ) 10 1 10 0 = .ok (5, 31/32) := by
  norm_num [fitFull, chainFrom, fitOutcome, fitRuns, runLoop, convTest, lbGreater, absS]
/-- an error in the first step is the result -/
example : fitFull (fun _ : ℚ => (.error "EmptyCluster" : Except String (ℚ × ℚ))) (1/10 : ℚ) 10 1 10 0
    = .error "EmptyCluster" :=
  fitFull_first_step_error _ _ 9 0 9 0 "EmptyCluster" rfl

/-! ## Probabilities (over ℝ) -/

theorem weightedLogProb_ne_nil (ln2pi : ℝ) (d : Nat) (w : List ℝ) (mu : List (List ℝ))
    (pcs : List (List (List ℝ))) (x : List ℝ) (hk : w ≠ []) :
    weightedLogProb ln2pi d w mu pcs x ≠ [] := by
  unfold weightedLogProb
  intro h
  have := congrArg List.length h
  simp at this
  exact hk this

/-- responsibilities of an E-step row (`exp(log_resp)`) sum to one — with
`resp_row_pos` the hypotheses of the M-step theorems above -/
theorem resp_row_sum_one (wlp : List ℝ) (hl : wlp ≠ []) :
    sumS ((logRespStable wlp).2.map Transc.exp) = 1 := by
  rw [sumS_eq_sum, logRespStable_snd]
  have hsh : wlp.map (fun v => v - rowMax wlp) ≠ [] := by simpa using hl
  have := softmax_sum (wlp.map (fun v => v - rowMax wlp)) hsh
  have hmap : ∀ l : List ℝ, l.map Transc.exp = l.map Real.exp := fun l => rfl
  rw [hmap]
  exact this

theorem resp_row_pos (wlp : List ℝ) : ∀ p ∈ (logRespStable wlp).2.map Transc.exp, 0 < p := by
  intro p hp
  obtain ⟨y, _, rfl⟩ := List.mem_map.mp hp
  exact Real.exp_pos y

/-- **membership probabilities sum to one**, for every mixture with at least one
component, every observation (near or far — over ℝ there is no underflow) -/
theorem proba_sum_one (ln2pi : ℝ) (d : Nat) (w : List ℝ) (mu : List (List ℝ))
    (pcs : List (List (List ℝ))) (x : List ℝ) (hk : w ≠ []) :
    sumS (predictProba ln2pi d w mu pcs x) = 1 :=
  resp_row_sum_one _ (weightedLogProb_ne_nil ln2pi d w mu pcs x hk)

/-- probabilities are positive, one per component -/
theorem proba_nonneg (ln2pi : ℝ) (d : Nat) (w : List ℝ) (mu : List (List ℝ))
    (pcs : List (List (List ℝ))) (x : List ℝ) :
    (predictProba ln2pi d w mu pcs x).length = w.length ∧
    ∀ p ∈ predictProba ln2pi d w mu pcs x, 0 < p := by
  refine ⟨?_, resp_row_pos _⟩
  unfold predictProba logRespStable weightedLogProb
  simp

/-- **the predicted component is one of maximal probability** -/
theorem predict_is_argmax (ln2pi : ℝ) (d : Nat) (w : List ℝ) (mu : List (List ℝ))
    (pcs : List (List (List ℝ))) (x : List ℝ) (hk : w ≠ []) :
    ∃ m, (predictProba ln2pi d w mu pcs x)[predict ln2pi d w mu pcs x]? = some m ∧
      ∀ p ∈ predictProba ln2pi d w mu pcs x, p ≤ m := by
  unfold predict
  apply argmaxFirst_spec
  intro h
  have h1 := (proba_nonneg ln2pi d w mu pcs x).1
  rw [h] at h1
  exact hk (List.length_eq_zero_iff.mp h1.symm)


/-! ## One EM iteration keeps the mixture valid

`emStep` = `e_step` on the current mixture followed by `m_step` on `exp(log_resp)`: whatever the current
parameters are (any weights list with at least one component, any means, any `precisions_chol`), the
parameters after the iteration are a valid mixture or the iteration is an error.  With `fit_ok_converged`
(a returned model is chain state `i ≥ 2`, i.e. the result of such an iteration) this is the statement for
every model `fit` returns, for all data, configurations and iteration counts. -/

theorem range_map_getD {α : Type} [OfNat α 0] (l : List α) :
    (List.range l.length).map (fun j => l.getD j 0) = l := by
  apply List.ext_getElem
  · simp
  · intro i h1 h2
    simp at h1
    simp [List.getD_eq_getElem?_getD, h1]

theorem eResp_row (ln2pi : ℝ) (d : Nat) (w : List ℝ) (mu : List (List ℝ))
    (pcs : List (List (List ℝ))) (x : List (List ℝ)) (i : Nat) (hi : i < x.length) :
    (eResp ln2pi d w mu pcs x).getD i [] = predictProba ln2pi d w mu pcs (x[i]) := by
  simp [eResp, List.getD_eq_getElem?_getD, hi]

/-- the responsibilities of an E-step: every row sums to one … -/
theorem eResp_row_sum (ln2pi : ℝ) (d : Nat) (w : List ℝ) (mu : List (List ℝ))
    (pcs : List (List (List ℝ))) (x : List (List ℝ)) (hk : w ≠ []) :
    ∀ i, i < x.length → sumRange w.length (fun j => at2 (eResp ln2pi d w mu pcs x) i j) = 1 := by
  intro i hi
  have hlen := (proba_nonneg ln2pi d w mu pcs (x[i])).1
  unfold sumRange at2
  rw [eResp_row ln2pi d w mu pcs x i hi, ← hlen, range_map_getD]
  exact proba_sum_one ln2pi d w mu pcs (x[i]) hk

/-- … and every entry is non-negative -/
theorem eResp_nonneg (ln2pi : ℝ) (d : Nat) (w : List ℝ) (mu : List (List ℝ))
    (pcs : List (List (List ℝ))) (x : List (List ℝ)) :
    ∀ i j, i < x.length → j < w.length → 0 ≤ at2 (eResp ln2pi d w mu pcs x) i j := by
  intro i j hi hj
  obtain ⟨hlen, hpos⟩ := proba_nonneg ln2pi d w mu pcs (x[i])
  unfold at2
  rw [eResp_row ln2pi d w mu pcs x i hi]
  have hj' : j < (predictProba ln2pi d w mu pcs (x[i])).length := by rw [hlen]; exact hj
  rw [List.getD_eq_getElem?_getD, List.getElem?_eq_getElem hj']
  exact le_of_lt (hpos _ (List.getElem_mem hj'))

/-- **the valid-mixture invariant is inductive over EM iterations**: after `e_step; m_step` from ANY
mixture, the weights are positive and sum to one, there is one mean per component inside the bounding
box, and every covariance is symmetric with `vᵀΣv ≥ reg·|v|²` and diagonal `≥ reg` -/
theorem em_step_valid (thr reg ln2pi : ℝ) (d : Nat) (w : List ℝ) (mu : List (List ℝ))
    (pcs : List (List (List ℝ))) (x : List (List ℝ)) (p : Params ℝ)
    (hk : w ≠ []) (hn : 0 < x.length) (hthr : 0 < thr)
    (h : emStep thr reg ln2pi d w mu pcs x = .ok p) :
    sumS p.weights = 1 ∧ (∀ v ∈ p.weights, 0 < v) ∧ p.means.length = w.length ∧
    (∀ j c, j < w.length → c < d → ∀ lo hi : ℝ,
      (∀ i, i < x.length → lo ≤ at2 x i c ∧ at2 x i c ≤ hi) →
        lo ≤ at2 p.means j c ∧ at2 p.means j c ≤ hi) ∧
    (∀ j a b, j < w.length → a < d → b < d →
      at2 (p.covs.getD j []) a b = at2 (p.covs.getD j []) b a) ∧
    (∀ j, j < w.length → ∀ v : Nat → ℝ, reg * sumRange d (fun a => v a ^ 2) ≤
      sumRange d (fun a => sumRange d fun b => v a * at2 (p.covs.getD j []) a b * v b)) ∧
    (∀ j a, j < w.length → a < d → reg ≤ at2 (p.covs.getD j []) a a) := by
  unfold emStep at h
  have hrow := eResp_row_sum ln2pi d w mu pcs x hk
  have hnn := eResp_nonneg ln2pi d w mu pcs x
  obtain ⟨hm1, hm2⟩ := means_in_bbox thr reg x.length d w.length x _ p hthr hnn h
  exact ⟨weights_sum_one thr reg x.length d w.length x _ p hn hrow h,
    weights_pos thr reg x.length d w.length x _ p hthr hn h, hm1, hm2,
    cov_symm thr reg x.length d w.length x _ p h,
    cov_pd thr reg x.length d w.length x _ p hthr hnn h,
    cov_diag_ge_reg thr reg x.length d w.length x _ p hthr hnn h⟩

/-! ## End to end: every model `fit` returns is a valid mixture

`emStepFull` is the body of `fit`'s loop as the driver runs it (`e_step`, `m_step` incl. the Cholesky
factorisation of the new covariances); `fitFull (emStepFull …)` is `fit` after `new`. -/

/-- the responsibilities the method `e_step` hands over are the E-step matrix `eResp` -/
theorem eStepFull_snd (ln2pi : ℝ) (d : Nat) (s : State ℝ) (x : List (List ℝ)) :
    (eStepFull ln2pi d s x).2 = eResp ln2pi d s.weights s.means s.pcs x := by
  simp [eStepFull, eResp, predictProba, List.map_map, Function.comp_def]

/-- a successful `emStepFull` is a successful model M-step `emStep` (the function `em_step_valid` is about)
whose covariances all passed the Cholesky step; the lower bound is the one `e_step` reports -/
theorem emStepFull_ok (thr reg ln2pi : ℝ) (d : Nat) (x : List (List ℝ)) (a b : State ℝ) (lb : ℝ)
    (h : emStepFull thr reg ln2pi d x a = .ok (lb, b)) :
    ∃ p, emStep thr reg ln2pi d a.weights a.means a.pcs x = .ok p ∧
      b.weights = p.weights ∧ b.means = p.means ∧ b.covs = p.covs ∧
      precCholAll d b.covs = .ok b.pcs ∧ lb = (eStepFull ln2pi d a x).1 := by
  unfold emStepFull mStepFull at h
  dsimp only at h
  rw [eStepFull_snd] at h
  unfold emStep
  cases hp : estimateParams thr reg x.length d a.weights.length x (eResp ln2pi d a.weights a.means a.pcs x) with
  | error e => rw [hp] at h; simp at h
  | ok p =>
    rw [hp] at h
    dsimp only at h
    cases hc : precCholAll d p.covs with
    | error e => rw [hc] at h; simp at h
    | ok pcs =>
      rw [hc] at h
      simp only [Except.ok.injEq, Prod.mk.injEq] at h
      obtain ⟨rfl, rfl⟩ := h
      exact ⟨p, rfl, rfl, rfl, rfl, hc, rfl⟩

/-- an EM iteration keeps the number of components -/
theorem emStepFull_weights_length (thr reg ln2pi : ℝ) (d : Nat) (x : List (List ℝ)) (a b : State ℝ) (lb : ℝ)
    (h : emStepFull thr reg ln2pi d x a = .ok (lb, b)) : b.weights.length = a.weights.length := by
  obtain ⟨p, hp, hw, _⟩ := emStepFull_ok thr reg ln2pi d x a b lb h
  unfold emStep at hp
  obtain ⟨_, _, hw', _, _⟩ := estimateParams_ok thr reg x.length d a.weights.length x _ p hp
  rw [hw, hw']
  simp [nkOf]

/-- **every model `fit` returns is a valid mixture from a converged run** — for all records, initial states
(whatever `new` produced, with at least one component), regularisation values, tolerances, run and iteration
counts: the returned state has as many components as the initial one, weights positive and summing to one,
means inside the bounding box of the records, covariances symmetric with `vᵀΣv ≥ reg·|v|²` and diagonal
`≥ reg`, a `precisions_chol` that is the accepted Cholesky-and-solve result of exactly those covariances,
and it was reached by two consecutive successful EM iterations `a → b → s` whose lower bounds (the means
of `log_prob_norm` that `e_step` reports for `a` and for `b`) differ by less than the tolerance. -/
theorem fit_returns_valid_mixture (thr reg ln2pi tol : ℝ) (d maxIter nRuns fuel : Nat)
    (x : List (List ℝ)) (s0 s : State ℝ) (i : Nat)
    (hk : s0.weights ≠ []) (hn : 0 < x.length) (hthr : 0 < thr)
    (h : fitFull (emStepFull thr reg ln2pi d x) tol maxIter nRuns fuel s0 = .ok (i, s)) :
    s.weights.length = s0.weights.length ∧
    sumS s.weights = 1 ∧ (∀ v ∈ s.weights, 0 < v) ∧ s.means.length = s0.weights.length ∧
    (∀ j c, j < s0.weights.length → c < d → ∀ lo hi : ℝ,
      (∀ r, r < x.length → lo ≤ at2 x r c ∧ at2 x r c ≤ hi) →
        lo ≤ at2 s.means j c ∧ at2 s.means j c ≤ hi) ∧
    (∀ j a b, j < s0.weights.length → a < d → b < d →
      at2 (s.covs.getD j []) a b = at2 (s.covs.getD j []) b a) ∧
    (∀ j, j < s0.weights.length → ∀ v : Nat → ℝ, reg * sumRange d (fun a => v a ^ 2) ≤
      sumRange d (fun a => sumRange d fun b => v a * at2 (s.covs.getD j []) a b * v b)) ∧
    (∀ j a, j < s0.weights.length → a < d → reg ≤ at2 (s.covs.getD j []) a a) ∧
    precCholAll d s.covs = .ok s.pcs ∧
    (2 ≤ i ∧ i ≤ nRuns * maxIter ∧ ∃ a b : State ℝ,
      emStepFull thr reg ln2pi d x a = .ok ((eStepFull ln2pi d a x).1, b) ∧
      emStepFull thr reg ln2pi d x b = .ok ((eStepFull ln2pi d b x).1, s) ∧
      |(eStepFull ln2pi d b x).1 - (eStepFull ln2pi d a x).1| < tol) := by
  obtain ⟨h2, hb, a, b, lbA, lbB, ha1, hb1, ha2, hb2, hconv⟩ :=
    fitFull_returns_converged_step_output _ tol maxIter nRuns fuel s0 s i h
  -- the number of components is an invariant of the chain
  have hinv := chainFrom_inv (emStepFull thr reg ln2pi d x) (fun st => st.weights.length = s0.weights.length)
    fuel s0 rfl (fun a' lb' b' ha' hs' => by
      rw [emStepFull_weights_length thr reg ln2pi d x a' b' lb' hs']; exact ha')
  have hbK : b.weights.length = s0.weights.length := hinv _ b hb1
  have hbne : b.weights ≠ [] := by
    intro hnil
    rw [hnil] at hbK
    exact hk (List.length_eq_zero_iff.mp hbK.symm)
  obtain ⟨p, hp, hw, hm, hc, hpc, hlbB⟩ := emStepFull_ok thr reg ln2pi d x b s lbB hb2
  obtain ⟨_, _, _, _, _, _, hlbA⟩ := emStepFull_ok thr reg ln2pi d x a b lbA ha2
  obtain ⟨v1, v2, v3, v4, v5, v6, v7⟩ := em_step_valid thr reg ln2pi d b.weights b.means b.pcs x p hbne hn hthr hp
  rw [hbK] at v3 v4 v5 v6 v7
  subst hlbA; subst hlbB
  refine ⟨?_, ?_, ?_, ?_, ?_, ?_, ?_, ?_, hpc, h2, hb, a, b, ha2, hb2, hconv⟩
  · rw [emStepFull_weights_length thr reg ln2pi d x b s _ hb2, hbK]
  · rw [hw]; exact v1
  · rw [hw]; exact v2
  · rw [hm]; exact v3
  · rw [hm]; exact v4
  · rw [hc]; exact v5
  · rw [hc]; exact v6
  · rw [hc]; exact v7

/-- the accepted factor of every component: `precCholAll` succeeds exactly when `precCholOf` (Cholesky, then
forward substitution against the identity, transposed) succeeds on every covariance, component by component -/
theorem precCholAll_getD {α : Type} [Field α] [LinearOrder α] [Transc α] (d : Nat) :
    ∀ (covs pcs : List (List (List α))), precCholAll d covs = .ok pcs →
      pcs.length = covs.length ∧ ∀ j, j < covs.length → precCholOf d (covs.getD j []) = .ok (pcs.getD j []) := by
  intro covs
  induction covs with
  | nil => intro pcs h; simp [precCholAll] at h; subst h; simp
  | cons c cs ih =>
    intro pcs h
    unfold precCholAll at h
    cases hc : precCholOf d c with
    | error e => rw [hc] at h; simp at h
    | ok pc =>
      rw [hc] at h
      dsimp only at h
      cases hr : precCholAll d cs with
      | error e => rw [hr] at h; simp at h
      | ok rest =>
        rw [hr] at h
        simp only [Except.ok.injEq] at h
        subst h
        obtain ⟨hl, hg⟩ := ih rest hr
        refine ⟨by simp [hl], ?_⟩
        intro j hj
        cases j with
        | zero => simpa using hc
        | succ j => simpa using hg j (by simpa using hj)

/-- **precisions of a returned model are the inverses of its covariances**, component by component, under
the contract of the modelled factorisation for the covariance at hand (`C = precCholOf Σ` satisfies
`C Cᵀ Σ = 1`; proved below for one feature, validated by the oracle on every fitted model otherwise) -/
theorem fitted_precision_is_inverse (d : Nat) (covs pcs : List (List (List ℝ))) (j : Nat)
    (hall : precCholAll d covs = .ok pcs) (hj : j < covs.length)
    (hcontract : ∀ C, precCholOf d (covs.getD j []) = .ok C →
      toMat d C * (toMat d C).transpose * toMat d (covs.getD j []) = 1) :
    toMat d (precisionsFull d (pcs.getD j [])) * toMat d (covs.getD j []) = 1 ∧
    toMat d (covs.getD j []) * toMat d (precisionsFull d (pcs.getD j [])) = 1 := by
  obtain ⟨_, hg⟩ := precCholAll_getD d covs pcs hall
  have h1 : toMat d (precisionsFull d (pcs.getD j [])) * toMat d (covs.getD j []) = 1 := by
    rw [precisionsFull_toMat]
    exact hcontract _ (hg j hj)
  exact ⟨h1, mul_eq_one_comm.mp h1⟩

/-- **the contract of the modelled factorisation holds for one feature**: whenever `precCholOf` accepts a
1×1 covariance `[[a]]` (i.e. `a > 0`), its result `C = [[1/√a]]` satisfies `C Cᵀ Σ = 1` — no hypothesis.
(For `d > 1` the contract `L Lᵀ = Σ` of the Cholesky recursion is not proved; see the notes.) -/
theorem chol_contract_one_feature (cov C : List (List ℝ)) (h : precCholOf 1 cov = .ok C) :
    toMat 1 C * (toMat 1 C).transpose * toMat 1 cov = 1 := by
  simp [precCholOf, cholesky, cholRow, cholRowD, solveLowerCol, List.range_succ, sumRange, sumS, Transc.sqrt] at h
  by_cases ha : at2 cov 0 0 ≤ 0
  · simp [ha] at h
  · simp [ha] at h
    subst h
    have hpos : 0 < at2 cov 0 0 := not_le.mp ha
    funext a b
    have ha' : a = 0 := Subsingleton.elim _ _
    have hb' : b = 0 := Subsingleton.elim _ _
    subst ha'; subst hb'
    simp [Matrix.mul_apply, toMat, at2]
    have hx : at2 cov 0 0 = (cov[0]?.getD [])[0]?.getD 0 := by simp [at2]
    rw [hx] at hpos
    generalize (cov[0]?.getD [])[0]?.getD 0 = v at hpos
    have hs : Real.sqrt v * Real.sqrt v = v := Real.mul_self_sqrt hpos.le
    have hne : Real.sqrt v ≠ 0 := (Real.sqrt_pos.mpr hpos).ne'
    field_simp
    nlinarith [hs]

/-- hence, with one feature, the precisions of every model `fit` returns are the inverses of its
covariances (no contract hypothesis left) -/
theorem fitted_precision_is_inverse_one_feature (covs pcs : List (List (List ℝ))) (j : Nat)
    (hall : precCholAll 1 covs = .ok pcs) (hj : j < covs.length) :
    toMat 1 (precisionsFull 1 (pcs.getD j [])) * toMat 1 (covs.getD j []) = 1 ∧
    toMat 1 (covs.getD j []) * toMat 1 (precisionsFull 1 (pcs.getD j [])) = 1 :=
  fitted_precision_is_inverse 1 covs pcs j hall hj (fun C hC => chol_contract_one_feature _ C hC)

/-- non-vacuity: the factorisation accepts `[[4]]` and returns `[[1/2]]` -/
example : precCholAll 1 [[[(4 : ℝ)]]] = .ok [[[1/2]]] := by
  have sqrt4 : Real.sqrt 4 = 2 := by
    rw [show (4:ℝ) = 2^2 by norm_num]; exact Real.sqrt_sq (by norm_num)
  have h4 : ¬ ((4:ℝ) ≤ 0) := by norm_num
  simp [precCholAll, precCholOf, cholesky, cholRow, cholRowD, solveLowerCol, sumRange, sumS, at2, List.range_succ, Transc.sqrt, h4, sqrt4]

/-- non-vacuity of `fit_returns_valid_mixture` (and of `emStepFull_ok`): two records `0, 2` on a line, one
component; the state `μ = 1, Σ = 4, precisions_chol = 1/2` is a fixed point of the EM iteration with
`reg = 3` (`Σ = ((0−1)² + (2−1)²)/2 + 3`, Cholesky `√4 = 2`, forward substitution `1/2`), lower bound
`−1/8 + ln(1/2)` … -/
noncomputable def sfix : State ℝ := ⟨[1], [[1]], [[[4]]], [[[1/2]]]⟩

theorem sfix_step : emStepFull (1/100 : ℝ) 3 0 1 [[0],[2]] sfix = .ok (-(1/8) + Real.log (1/2), sfix) := by
  have sqrt4 : Real.sqrt 4 = 2 := by
    rw [show (4:ℝ) = 2^2 by norm_num]; exact Real.sqrt_sq (by norm_num)
  simp [emStepFull, mStepFull, eStepFull, estimateParams, nkOf, meansOf, covOf,
    logRespStable, weightedLogProb, maha, logDet, rowMax, negHalf, sumRange, sumS, at2, sfix, List.range_succ, Transc.exp, Transc.ln]
  have h1 : ¬ ((1:ℝ) + 1 < 100⁻¹) := by norm_num
  rw [if_neg h1]
  have h3 : (2:ℝ) / (1 + 1) = 1 := by norm_num
  simp only [h3]
  have h4 : ¬ ((4:ℝ) ≤ 0) := by norm_num
  simp [precCholAll, precCholOf, cholesky, cholRow, cholRowD, solveLowerCol, sumRange, sumS, at2, List.range_succ, Transc.sqrt]
  have h5 : ((1:ℝ) + (2 - 1) * (2 - 1)) / (1 + 1) + 3 = 4 := by norm_num
  rw [h5, if_neg h4, sqrt4]
  simp
  ring

/-- … so `fit` (tolerance 1, one run of three iterations) returns chain state 2, that very state: the
hypothesis `fitFull … = .ok (i, s)` of `fit_returns_valid_mixture` is satisfiable -/
example : fitFull (emStepFull (1/100 : ℝ) 3 0 1 [[0],[2]]) 1 3 1 3 sfix = .ok (2, sfix) := by
  have hc : chainFrom (emStepFull (1/100 : ℝ) 3 0 1 [[0],[2]]) 3 sfix
      = ([.ok (-(1/8) + Real.log (1/2)), .ok (-(1/8) + Real.log (1/2)), .ok (-(1/8) + Real.log (1/2))],
         [sfix, sfix, sfix, sfix]) := by
    simp only [chainFrom, sfix_step]
  unfold fitFull
  rw [hc]
  simp [fitOutcome, fitRuns, runLoop, convTest, lbGreater, absS]

/-- the contract hypothesis of `fitted_precision_is_inverse` holds for this model: `C Cᵀ Σ = (1/2)² · 4 = 1` -/
example : toMat 1 (precisionsFull 1 (sfix.pcs.getD 0 [])) * toMat 1 (sfix.covs.getD 0 []) = 1 := by
  funext a b
  have ha : a = 0 := Subsingleton.elim _ _
  have hb : b = 0 := Subsingleton.elim _ _
  subst ha; subst hb
  simp [Matrix.mul_apply, toMat, precisionsFull, sfix, at2, sumRange, sumS, List.range_succ]
  norm_num

/-- non-vacuity of `em_step_valid`'s hypotheses other than the guard: rows of an E-step on two
observations under a two-component mixture sum to one (so an `emStep` has well-formed input) -/
example : ∀ i, i < 2 → sumRange 2 (fun j => at2 (eResp (1 : ℝ) 1 [2/3, 1/3] [[7], [-14]] [[[4]], [[4]]] [[0], [3]]) i j) = 1 :=
  eResp_row_sum 1 1 [2/3, 1/3] [[7], [-14]] [[[4]], [[4]]] [[0], [3]] (by simp)

/-- `argmax` in general: valid index, entry maximal (any linear order, any non-empty row) -/
theorem argmaxFirst_is_max {α : Type} [LinearOrder α] [OfNat α 0] (l : List α) (hl : l ≠ []) :
    ∃ m, l[argmaxFirst l]? = some m ∧ ∀ v ∈ l, v ≤ m := argmaxFirst_spec l hl

example : argmaxFirst [(1 : Nat), 5, 3, 5] = 1 := by decide

/-- **the repaired log-sum-exp is the naive one over ℝ**: same normaliser, same
log-responsibilities — the repair changes nothing but the floating-point range -/
theorem stable_eq_naive (wlp : List ℝ) (hl : wlp ≠ []) :
    logRespStable wlp = logRespNaive wlp := by
  have hshift := lse_shift wlp hl (rowMax wlp)
  unfold logRespStable logRespNaive
  simp only [sumS_eq_sum, transc_ln]
  have hmap : ∀ l : List ℝ, l.map Transc.exp = l.map Real.exp := fun l => rfl
  rw [hmap, hmap]
  refine Prod.ext hshift ?_
  rw [← hshift]
  show List.map _ (List.map _ wlp) = List.map _ wlp
  rw [List.map_map]
  apply List.map_congr_left
  intro v _
  simp only [Function.comp]
  ring

/-- **why the repaired form cannot underflow**: in any ordered field with an
`exp` that is non-negative, `exp 0 = 1` and `exp x ≤ 1` for `x ≤ 0` (true of IEEE
`exp` as well), the normaliser `Σ exp(wlp − max)` lies in `[1, k]`; its logarithm
is therefore finite, however far the observation is from every component. -/
theorem lse_stable_finite {α : Type} [Field α] [LinearOrder α] [IsStrictOrderedRing α] [Transc α]
    (hexp0 : Transc.exp (0 : α) = 1) (hnn : ∀ x : α, 0 ≤ Transc.exp x)
    (hle : ∀ x : α, x ≤ 0 → Transc.exp x ≤ 1) (wlp : List α) (hl : wlp ≠ []) :
    1 ≤ sumS ((wlp.map fun v => v - rowMax wlp).map Transc.exp) ∧
    sumS ((wlp.map fun v => v - rowMax wlp).map Transc.exp) ≤ (wlp.length : α) := by
  obtain ⟨hmem, hmax⟩ := rowMax_spec wlp hl
  rw [sumS_eq_sum, List.map_map]
  constructor
  · have h1 : (Transc.exp ∘ fun v => v - rowMax wlp) (rowMax wlp) ∈
        wlp.map (Transc.exp ∘ fun v => v - rowMax wlp) := List.mem_map.mpr ⟨_, hmem, rfl⟩
    have h2 := List.single_le_sum (l := wlp.map (Transc.exp ∘ fun v => v - rowMax wlp)) (by
      intro y hy
      obtain ⟨z, _, rfl⟩ := List.mem_map.mp hy
      exact hnn _) _ h1
    simpa [hexp0] using h2
  · have h2 := List.sum_le_card_nsmul (wlp.map (Transc.exp ∘ fun v => v - rowMax wlp)) (1 : α) (by
      intro y hy
      obtain ⟨z, hz, rfl⟩ := List.mem_map.mp hy
      exact hle _ (sub_nonpos.mpr (hmax z hz)))
    simpa using h2

/-- non-vacuity of the hypotheses of `lse_stable_finite`: the real exponential -/
example : (Transc.exp (0 : ℝ) = 1) ∧ (∀ x : ℝ, 0 ≤ Transc.exp x) ∧ (∀ x : ℝ, x ≤ 0 → Transc.exp x ≤ 1) :=
  ⟨Real.exp_zero, fun x => (Real.exp_pos x).le, fun _ hx => Real.exp_le_one_iff.mpr hx⟩

/-- non-vacuity: a two-component mixture in one dimension, a query 100 σ away -/
example : sumS (predictProba (1 : ℝ) 1 [2/3, 1/3] [[7], [-14]] [[[4]], [[4]]] [-1000]) = 1 :=
  proba_sum_one 1 1 [2/3, 1/3] [[7], [-14]] [[[4]], [[4]]] [-1000] (by simp)

end LinfaSpec.Props.C10
