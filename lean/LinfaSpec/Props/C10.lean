import LinfaSpec.Proofs.Gmm
import Mathlib.Tactic.NormNum

/-!
# C10 — A fitted Gaussian mixture is a valid mixture and yields valid probabilities

Theorems about `LinfaSpec.Gmm` (`Model/Gmm.lean`), the model of
`linfa-clustering/src/gaussian_mixture/algorithm.rs`.  Every parameter set a fit
returns is the output of one M-step (`estimate_gaussian_parameters`, then
`weights = nk / n`) on responsibilities `r` that are either one-hot (k-means
initialiser), normalised uniforms (random initialiser) or `exp(log_resp)` of an
E-step — in every case non-negative with rows summing to one.  The theorems of
the first part therefore quantify over **all** observations `x`, all such `r`,
all `n d k`, all `reg` and hold in every ordered field; the second part (E-step,
probabilities) is over `ℝ` with `exp`/`ln`.

IEEE effects (underflow far from the data) are outside these theorems; see
`lse_stable_bounds` for the reason the repaired form cannot underflow and the
oracle of the correspondence run for the far queries.
-/
namespace LinfaSpec.Props.C10
open LinfaSpec LinfaSpec.Gmm

section mstep
variable {α : Type} [Field α] [LinearOrder α] [IsStrictOrderedRing α]

/-- **weights sum to one**: if every row of the responsibilities sums to one, the
weights returned by an M-step sum to one. -/
theorem weights_sum_one (thr reg : α) (n d k : Nat) (x r : List (List α)) (p : Params α)
    (hn : 0 < n) (hrow : ∀ i, i < n → sumRange k (fun j => at2 r i j) = 1)
    (h : estimateParams thr reg n d k x r = .ok p) :
    sumS p.weights = 1 := by
  obtain ⟨_, _, hw, _, _⟩ := estimateParams_ok thr reg n d k x r p h
  rw [hw]
  apply sum_weights n k r hn
  intro i hi
  rw [← sumRange_eq]
  exact hrow i hi

/-- **weights are positive**: the `EmptyCluster` guard (`nk.min() < 10ε` is an
error) leaves only components with mass `≥ thr > 0`. -/
theorem weights_pos (thr reg : α) (n d k : Nat) (x r : List (List α)) (p : Params α)
    (hthr : 0 < thr) (hn : 0 < n)
    (h : estimateParams thr reg n d k x r = .ok p) :
    ∀ w ∈ p.weights, 0 < w := by
  obtain ⟨hg, _, hw, _, _⟩ := estimateParams_ok thr reg n d k x r p h
  intro w hwm
  rw [hw, List.mem_map] at hwm
  obtain ⟨v, hv, rfl⟩ := hwm
  have hv' : thr ≤ v := not_lt.mp (hg v hv)
  have hnpos : (0 : α) < (n : α) := Nat.cast_pos.mpr hn
  exact div_pos (lt_of_lt_of_le hthr hv') hnpos

/-- one mean per component, each coordinate inside the data's bounding box -/
theorem means_in_bbox (thr reg : α) (n d k : Nat) (x r : List (List α)) (p : Params α)
    (hthr : 0 < thr) (hr : ∀ i j, i < n → j < k → 0 ≤ at2 r i j)
    (h : estimateParams thr reg n d k x r = .ok p) :
    p.means.length = k ∧
    ∀ j c, j < k → c < d → ∀ lo hi : α, (∀ i, i < n → lo ≤ at2 x i c ∧ at2 x i c ≤ hi) →
      lo ≤ at2 p.means j c ∧ at2 p.means j c ≤ hi := by
  obtain ⟨hg, _, _, hm, _⟩ := estimateParams_ok thr reg n d k x r p h
  refine ⟨by rw [hm]; simp [meansOf], ?_⟩
  intro j c hj hc lo hi hb
  rw [hm, meansOf_at n d k x r _ j c hj hc, nkOf_getD n k r j hj]
  have hpos : 0 < ∑ i ∈ Finset.range n, at2 r i j :=
    lt_of_lt_of_le hthr (not_lt.mp (hg _ (nkOf_mem n k r j hj)))
  exact weighted_mean_bounds n (fun i => at2 r i j) (fun i => at2 x i c) lo hi
    (fun i hi' => hr i j hi' hj) hpos hb

/-- the covariance of component `j` as the model computes it -/
theorem covs_getD (thr reg : α) (n d k : Nat) (x r : List (List α)) (p : Params α)
    (h : estimateParams thr reg n d k x r = .ok p) (j : Nat) (hj : j < k) :
    p.covs.getD j [] = covOf n d x r j ((meansOf n d k x r (nkOf n k r)).getD j [])
      ((nkOf n k r).getD j 0) reg := by
  obtain ⟨_, _, _, _, hc⟩ := estimateParams_ok thr reg n d k x r p h
  rw [hc, getD_map_range k _ j hj]

/-- covariances are symmetric -/
theorem cov_symm (thr reg : α) (n d k : Nat) (x r : List (List α)) (p : Params α)
    (h : estimateParams thr reg n d k x r = .ok p) :
    ∀ j a b, j < k → a < d → b < d →
      at2 (p.covs.getD j []) a b = at2 (p.covs.getD j []) b a := by
  intro j a b hj ha hb
  rw [covs_getD thr reg n d k x r p h j hj]
  exact covOf_symm n d x r j _ _ reg a b ha hb

/-- **covariances dominate the regularisation**: `vᵀ Σ_j v ≥ reg · |v|²` for every
vector `v` -/
theorem cov_pd (thr reg : α) (n d k : Nat) (x r : List (List α)) (p : Params α)
    (hthr : 0 < thr) (hr : ∀ i j, i < n → j < k → 0 ≤ at2 r i j)
    (h : estimateParams thr reg n d k x r = .ok p) :
    ∀ j, j < k → ∀ v : Nat → α,
      reg * sumRange d (fun a => v a ^ 2) ≤
        sumRange d (fun a => sumRange d fun b => v a * at2 (p.covs.getD j []) a b * v b) := by
  obtain ⟨hg, _, _, _, _⟩ := estimateParams_ok thr reg n d k x r p h
  intro j hj v
  rw [covs_getD thr reg n d k x r p h j hj]
  simp only [sumRange_eq]
  apply covOf_quad_ge n d x r j _ _ reg v (fun i hi => hr i j hi hj)
  rw [nkOf_getD n k r j hj]
  exact lt_of_lt_of_le hthr (not_lt.mp (hg _ (nkOf_mem n k r j hj)))

/-- with `reg > 0` the covariances are positive definite -/
theorem cov_pos_def (thr reg : α) (n d k : Nat) (x r : List (List α)) (p : Params α)
    (hthr : 0 < thr) (hreg : 0 < reg) (hr : ∀ i j, i < n → j < k → 0 ≤ at2 r i j)
    (h : estimateParams thr reg n d k x r = .ok p) :
    ∀ j, j < k → ∀ v : Nat → α, (∃ a, a < d ∧ v a ≠ 0) →
      0 < sumRange d (fun a => sumRange d fun b => v a * at2 (p.covs.getD j []) a b * v b) := by
  intro j hj v ⟨a, ha, hva⟩
  refine lt_of_lt_of_le ?_ (cov_pd thr reg n d k x r p hthr hr h j hj v)
  apply mul_pos hreg
  rw [sumRange_eq]
  have h1 : v a ^ 2 ≤ ∑ a ∈ Finset.range d, v a ^ 2 :=
    Finset.single_le_sum (f := fun a => v a ^ 2) (fun i _ => sq_nonneg (v i)) (Finset.mem_range.mpr ha)
  have h2 : 0 < v a ^ 2 := by positivity
  linarith

/-- the diagonal of every covariance includes the configured regularisation -/
theorem cov_diag_ge_reg (thr reg : α) (n d k : Nat) (x r : List (List α)) (p : Params α)
    (hthr : 0 < thr) (hr : ∀ i j, i < n → j < k → 0 ≤ at2 r i j)
    (h : estimateParams thr reg n d k x r = .ok p) :
    ∀ j a, j < k → a < d → reg ≤ at2 (p.covs.getD j []) a a := by
  obtain ⟨hg, _, _, _, _⟩ := estimateParams_ok thr reg n d k x r p h
  intro j a hj ha
  rw [covs_getD thr reg n d k x r p h j hj]
  apply covOf_diag_ge n d x r j _ _ reg a ha (fun i hi => hr i j hi hj)
  rw [nkOf_getD n k r j hj]
  exact lt_of_lt_of_le hthr (not_lt.mp (hg _ (nkOf_mem n k r j hj)))

/-- an emptied component is an error, never a parameter set -/
theorem empty_cluster_is_error (thr reg : α) (n d k : Nat) (x r : List (List α))
    (j : Nat) (hj : j < k) (hempty : sumRange n (fun i => at2 r i j) < thr) :
    estimateParams thr reg n d k x r = .error "EmptyCluster" := by
  unfold estimateParams
  have : (nkOf n k r).any (fun v => v < thr) = true := by
    simp only [List.any_eq_true, decide_eq_true_eq]
    refine ⟨_, nkOf_mem n k r j hj, ?_⟩
    rw [← sumRange_eq]
    exact hempty
  simp [this]

end mstep

/-- non-vacuity: three points on a line, two components, one-hot responsibilities -/
example : ∃ p : Params ℚ,
    estimateParams (1/100 : ℚ) (1/4) 3 1 2 [[0], [2], [10]] [[1, 0], [1, 0], [0, 1]] = .ok p ∧
    p.weights = [2/3, 1/3] ∧ p.means = [[1], [10]] ∧ p.covs = [[[5/4]], [[1/4]]] := by
  refine ⟨⟨[2, 1], [2/3, 1/3], [[1], [10]], [[[5/4]], [[1/4]]]⟩, ?_, rfl, rfl, rfl⟩
  norm_num [estimateParams, nkOf, meansOf, covOf, sumRange, sumS, at2, List.range_succ]

example : estimateParams (1/100 : ℚ) (1/4) 3 1 2 [[0], [2], [10]] [[1, 0], [1, 0], [1, 0]]
    = .error "EmptyCluster" := by
  norm_num [estimateParams, nkOf, meansOf, covOf, sumRange, sumS, at2, List.range_succ]

end LinfaSpec.Props.C10
