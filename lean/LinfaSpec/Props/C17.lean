import LinfaSpec.Proofs.Vectorizer

/-!
# C17 — Count and tf-idf vectorisers equal a naive count of the tokenised corpus
-/
namespace LinfaSpec.Props.C17
open LinfaSpec.Vectorizer

/-- the vocabulary vector lists the words of the vocabulary map, in the same order -/
theorem vec_eq_map_words {γ} [DecidableEq γ] (order : List (Entry γ) → List (Entry γ)) (voc : List (Entry γ)) :
    (hashmapToVocabulary order voc).vocabulary.map (·.1) = (hashmapToVocabulary order voc).vec := by
  simp [hashmapToVocabulary, reindex_map_fst]

end LinfaSpec.Props.C17
