import LinfaSpec.Proofs.Vectorizer
import Mathlib.Data.Nat.Basic
import Mathlib.Algebra.Order.Floor.Semiring
import Mathlib.Algebra.Order.Field.Basic
import Mathlib.Data.List.Perm.Subperm
import Mathlib.Data.Rat.Floor
import Mathlib.Tactic.NormNum.Basic
import Mathlib.Analysis.SpecialFunctions.Log.Basic

/-!
# C17 — Count and tf-idf vectorisers equal a naive count of the tokenised corpus

Theorems about `LinfaSpec.Vectorizer` (model of `NGramList`, `CountVectorizer` fitting /
transforming, `FittedTfIdfVectorizer`).  Tokenisation is the external parameter: a document is
its token list (`List ω`), an entry is what `Joiner` builds from a window of tokens.

* every statement about a fitted vectoriser holds for **every iteration order of the hash map**
  (`order`, any function returning a permutation of its argument);
* the document-frequency window is the pair of *absolute* bounds the code computes
  (`absBounds`, executed on `Float32` by the driver) — the theorems hold for all bounds;
* the word type is any linear order (Rust `String: Ord`), used only by the feature cap;
* `window_is_relative` / `vocab_eq_admitted_relative` connect the absolute bounds with the documented
  *relative* window in exact arithmetic (the very formula `absBoundsWith` the driver runs on `Float32`);
* `check_params_guard` states the guard of `check_ref` (the hypotheses `1 ≤ nmin ≤ nmax`, `0 ≤ lo ≤ hi ≤ 1`);
* `transform_string_*` : the two tokenisation switches act independently, NFKD before lower-casing;
* `sparse_*`, `nnz_counts_nonzero` : the CSR row stores exactly the non-zero counts in column order;
* round 3 — theorems about the functions the driver answers through: `window_is_relative_exact`,
  `vocab_from_tokens`, `count_from_tokens` (end to end from the tokens, `fitDocs` / `transformDocs` with the
  exact-rational window), `fit_files_eq_fit` / `fit_files_refused` / `transform_files_eq_transform` (the
  separate loops of the `*_files` entry points), `check_ref_uses_last_tokenizer` (the compiled-regex cache
  of the parameter object), `check_params_guard_any` (the guard for any scalar, NaN included),
  `tstring_table` (the `tstring` instance), `cap_sure` (what a cap surely keeps / drops), `idf_*` (the
  documented idf over the reals).
-/
namespace LinfaSpec.Props.C17
open LinfaSpec.Vectorizer

/-! ## n-grams -/

/-- **`NGramList` yields exactly the windows of `nmin..nmax` consecutive tokens**: an entry is
produced iff it is the join of `L` consecutive tokens starting at some `i`, `nmin ≤ L ≤ nmax`.
Hypotheses = the parameter guard (`1 ≤ nmin ≤ nmax`). -/
theorem ngrams_spec {ω γ} (J : Joiner ω γ) (ws : List ω) (nmin nmax : Nat)
    (h1 : 1 ≤ nmin) (h2 : nmin ≤ nmax) (g : γ) :
    g ∈ docGrams J nmin nmax ws ↔
      ∃ i L, nmin ≤ L ∧ L ≤ nmax ∧ i + L ≤ ws.length ∧ joinW J ((ws.drop i).take L) = some g :=
  mem_docGrams J ws nmin nmax h1 h2 g

/-- list form (reading order, multiplicities): start index `i` contributes the windows of
length `nmin, nmin+1, …, min nmax (len - i)`, each exactly once; indices with no window of the
minimum length contribute nothing (the iterator stops there). -/
theorem ngrams_list_spec {ω γ} (J : Joiner ω γ) (ws : List ω) (nmin nmax : Nat)
    (h1 : 1 ≤ nmin) (h2 : nmin ≤ nmax) :
    docGrams J nmin nmax ws =
      ((List.range (ws.length + 1 - nmin)).map (itemsAtIdx J ws nmin nmax)).flatten ∧
    ∀ i (h : i < ws.length), itemsAtIdx J ws nmin nmax i =
      (List.range (min (i + nmax) ws.length - (i + nmin) + 1)).map fun k =>
        gram J ws[i] ((ws.drop (i + 1)).take (nmin - 1 + k)) := by
  refine ⟨docGrams_eq J ws nmin nmax h1 h2, ?_⟩
  intro i h
  unfold itemsAtIdx
  rw [List.getElem?_eq_getElem h]
  rfl

example : docGrams strJoiner 1 2 ["a", "b", "c"] = ["a", "a b", "b", "b c", "c"] := by decide
example : docGrams strJoiner 2 3 ["a", "b", "c"] = ["a b", "a b c", "b c"] := by decide
example : docGrams strJoiner 1 1 ([] : List String) = [] := by decide

/-! ## the fitted vocabulary -/

section
variable {γ : Type} [LinearOrder γ]

/-- **without a feature cap the vocabulary is exactly the set of admitted corpus entries**:
`g` is listed iff it occurs in some training document, its document frequency (number of
documents containing it) lies in the inclusive window, and it is not a stop entry (stop words are
compared with whole entries).  No entry is listed twice.  For every iteration order. -/
theorem vocab_eq_admitted (order : List (Entry γ) → List (Entry γ)) (horder : ∀ l, (order l).Perm l)
    (docs : List (List γ)) (minAbs maxAbs : Nat) (stop : Option (List γ)) :
    (fit order docs minAbs maxAbs stop none).vec.Nodup ∧
    ∀ g, g ∈ (fit order docs minAbs maxAbs stop none).vec ↔
      (∃ d ∈ docs, g ∈ d) ∧ minAbs ≤ docFreq docs g ∧ docFreq docs g ≤ maxAbs ∧
        ∀ s, stop = some s → g ∉ s := by
  obtain ⟨hnd, _, hmem⟩ := filtered_spec docs minAbs maxAbs stop
  have hp := horder (filterVocab (readCorpus docs) docs.length minAbs maxAbs stop none)
  constructor
  · exact ((hp.map _).nodup_iff).mpr hnd
  · intro g
    have : g ∈ (fit order docs minAbs maxAbs stop none).vec ↔
        g ∈ keys (filterVocab (readCorpus docs) docs.length minAbs maxAbs stop none) :=
      (hp.map _).mem_iff
    rw [this, hmem g]
    rfl

example : (fit (γ := Nat) id [[1, 2, 2], [2, 3], [2]] 2 3 (some [7]) none).vec = [2] := by decide

/-- **under a feature cap the vocabulary is the top `min cap |admitted|` of the admitted entries
by (document frequency, word)**: its size is `min m |A|`, every listed entry is admitted, and every
listed entry beats every admitted-but-dropped entry: higher document frequency, or equal frequency
and greater word.  For every iteration order. -/
theorem cap_is_top (order : List (Entry γ) → List (Entry γ)) (horder : ∀ l, (order l).Perm l)
    (docs : List (List γ)) (minAbs maxAbs : Nat) (stop : Option (List γ)) (m : Nat) :
    let A := (fit order docs minAbs maxAbs stop none).vec
    let V := (fit order docs minAbs maxAbs stop (some m)).vec
    V.Nodup ∧ V.length = min m A.length ∧ (∀ g ∈ V, g ∈ A) ∧
    ∀ a ∈ V, ∀ b ∈ A, b ∉ V →
      docFreq docs b < docFreq docs a ∨ (docFreq docs b = docFreq docs a ∧ b < a) := by
  intro A V
  obtain ⟨hnd, hfreq, _⟩ := filtered_spec docs minAbs maxAbs stop
  generalize hF : filterVocab (readCorpus docs) docs.length minAbs maxAbs stop none = Fl at hnd hfreq
  have hA : A = (order Fl).map (·.1) := by
    simp only [A, fit, hashmapToVocabulary, hF]
  have hV : V = (order (capTop m Fl)).map (·.1) := by
    simp only [V, fit, hashmapToVocabulary, filterVocab_some, hF]
  have hpA := horder Fl
  have hpV := horder (capTop m Fl)
  have memA : ∀ g, g ∈ A ↔ g ∈ keys Fl := fun g => by rw [hA]; exact (hpA.map _).mem_iff
  have memV : ∀ g, g ∈ V ↔ g ∈ keys (capTop m Fl) := fun g => by rw [hV]; exact (hpV.map _).mem_iff
  refine ⟨?_, ?_, ?_, ?_⟩
  · rw [hV]; exact ((hpV.map _).nodup_iff).mpr (capTop_keys_nodup m Fl hnd)
  · rw [hV, hA, List.length_map, List.length_map, hpV.length_eq, hpA.length_eq, capTop_length]
  · intro g hg
    obtain ⟨e, he, rfl⟩ := (mem_keys _ _).mp ((memV g).mp hg)
    exact (memA _).mpr ((mem_keys _ _).mpr ⟨e, capTop_subset m Fl e he, rfl⟩)
  · intro a ha b hb hnb
    obtain ⟨ea, hea, rfl⟩ := (mem_keys _ _).mp ((memV a).mp ha)
    obtain ⟨eb, heb, rfl⟩ := (mem_keys _ _).mp ((memA b).mp hb)
    have hnb' : eb ∉ capTop m Fl := fun h => hnb ((memV _).mpr ((mem_keys _ _).mpr ⟨eb, h, rfl⟩))
    have hle := capTop_top m Fl ea eb hea heb hnb'
    have hne : ea.1 ≠ eb.1 := by
      intro h
      exact hnb (h ▸ ha)
    have := capLe_toKey ea eb hle hne
    rw [hfreq ea (capTop_subset m Fl ea hea), hfreq eb heb] at this
    exact this

/- non-vacuity: the hypotheses are met by the identity enumeration and by the reversed one; the
theorem instantiated on a corpus with a frequency tie at the cut (entries 2 and 3 both have
document frequency 2, cap 1). -/
example : ∃ order : List (Entry Nat) → List (Entry Nat), ∀ l, (order l).Perm l := ⟨id, fun _ => List.Perm.refl _⟩
example := cap_is_top (γ := Nat) id (fun _ => List.Perm.refl _) [[1, 2, 2], [2, 3], [3]] 0 3 none 1
example : ∃ order : List (Entry Nat) → List (Entry Nat), ∀ l, (order l).Perm l :=
  ⟨List.reverse, fun l => List.reverse_perm l⟩

/-- the state a fit leaves behind is consistent, with or without cap, for every iteration order -/
theorem fit_consistent (order : List (Entry γ) → List (Entry γ)) (horder : ∀ l, (order l).Perm l)
    (docs : List (List γ)) (minAbs maxAbs : Nat) (stop : Option (List γ)) (cap : Option Nat) :
    Consistent (fit order docs minAbs maxAbs stop cap) := by
  obtain ⟨hnd, _, _⟩ := filtered_spec docs minAbs maxAbs stop
  unfold fit
  apply hashmapToVocabulary_consistent order _ (horder _)
  cases cap with
  | none => exact hnd
  | some m => rw [filterVocab_some]; exact capTop_keys_nodup m _ hnd

/-- **column `j` always refers to `vocabulary()[j]`**: the map and the vector have the same size,
the vector has no duplicates, the index stored in the map for `vocabulary()[j]` is `j`, and
every index stored in the map is in range and points back at its word (so the `unwrap()` in
`analyze_document` cannot fail). -/
theorem column_is_vocab_index (order : List (Entry γ) → List (Entry γ)) (horder : ∀ l, (order l).Perm l)
    (docs : List (List γ)) (minAbs maxAbs : Nat) (stop : Option (List γ)) (cap : Option Nat) :
    let F := fit order docs minAbs maxAbs stop cap
    F.vocabulary.length = F.vec.length ∧ F.vec.Nodup ∧
    (∀ j (h : j < F.vec.length), lookupIdx F.vocabulary F.vec[j] = some j) ∧
    (∀ g j, lookupIdx F.vocabulary g = some j → ∃ h : j < F.vec.length, F.vec[j] = g) := by
  intro F
  have hF := fit_consistent order horder docs minAbs maxAbs stop cap
  exact ⟨hF.len, hF.nodup, (consistent_index F hF).1, (consistent_index F hF).2⟩

/-- **entry `(d, j)` of the count matrix is the number of occurrences of `vocabulary()[j]` among
the entries of document `d`**, for any documents (training or unseen). -/
theorem count_entry (order : List (Entry γ) → List (Entry γ)) (horder : ∀ l, (order l).Perm l)
    (docs : List (List γ)) (minAbs maxAbs : Nat) (stop : Option (List γ)) (cap : Option Nat)
    (tr : List (List γ)) :
    let F := fit order docs minAbs maxAbs stop cap
    transform F tr = tr.map fun d => F.vec.map fun w => d.count w := by
  intro F
  have hF := fit_consistent order horder docs minAbs maxAbs stop cap
  unfold transform
  rw [termAndDocFreqs_eq F hF]

example : transform (fit (γ := Nat) id [[1, 2, 2], [2, 3]] 0 2 none none) [[2, 9, 2, 1], []] =
    [[1, 2, 0], [0, 0, 0]] := by decide

/-- **each tf-idf entry is the count times the idf of its column over the transformed corpus**:
`n` = number of transformed documents, `df_j` = number of transformed documents containing
`vocabulary()[j]`; cells with count 0 are not stored and read as 0.  Any scalar type. -/
theorem tfidf_entry {α : Type} [Add α] [Mul α] [Div α] [OfNat α 0] [OfNat α 1] [NatCast α] [Transc α]
    (order : List (Entry γ) → List (Entry γ)) (horder : ∀ l, (order l).Perm l)
    (docs : List (List γ)) (minAbs maxAbs : Nat) (stop : Option (List γ)) (cap : Option Nat)
    (m : Method) (tr : List (List γ)) :
    let F := fit order docs minAbs maxAbs stop cap
    transformTfIdf (α := α) m F tr = tr.map fun d => F.vec.map fun w =>
      if d.count w = 0 then (0 : α)
      else (d.count w : α) * computeIdf m tr.length (docFreq tr w) := by
  intro F
  exact transformTfIdf_eq m F (fit_consistent order horder docs minAbs maxAbs stop cap) tr


/-- the feature cap does nothing when it is at least the number of admitted entries -/
theorem cap_ge_is_all (order : List (Entry γ) → List (Entry γ)) (horder : ∀ l, (order l).Perm l)
    (docs : List (List γ)) (minAbs maxAbs : Nat) (stop : Option (List γ)) (m : Nat)
    (hm : (fit order docs minAbs maxAbs stop none).vec.length ≤ m) :
    (fit order docs minAbs maxAbs stop (some m)).vec.Perm (fit order docs minAbs maxAbs stop none).vec := by
  obtain ⟨hnd, hlen, hsub, _⟩ := cap_is_top order horder docs minAbs maxAbs stop m
  apply (List.subperm_of_subset hnd hsub).perm_of_length_le
  rw [hlen]; omega

example : (fit (γ := Nat) id [[1, 2, 2], [2, 3], [3]] 0 3 none none).vec.length ≤ 3 := by decide

/-- **the column of a word does not depend on the iteration order of the hash map**: whatever column
`w` was given, that column of the count matrix lists the occurrences of `w` per document (this is
what the comparison "sort the words, permute the columns" relies on). -/
theorem column_of_word (order : List (Entry γ) → List (Entry γ)) (horder : ∀ l, (order l).Perm l)
    (docs : List (List γ)) (minAbs maxAbs : Nat) (stop : Option (List γ)) (cap : Option Nat)
    (tr : List (List γ)) (w : γ) :
    let F := fit order docs minAbs maxAbs stop cap
    w ∈ F.vec →
      (transform F tr).map (fun row => row[F.vec.idxOf w]?) = tr.map fun d => some (d.count w) := by
  intro F hw
  rw [count_entry order horder docs minAbs maxAbs stop cap tr]
  simp only [List.map_map]
  apply List.map_congr_left
  intro d _
  simp only [Function.comp_def, List.getElem?_map]
  rw [List.getElem?_eq_getElem (List.idxOf_lt_length_iff.mpr hw)]
  simp

example : 2 ∈ (fit (γ := Nat) id [[1, 2, 2], [2, 3]] 0 2 none none).vec := by decide

/-! ## the relative document-frequency window and the parameter guard -/

/-- **the guard of `check_ref`**: the settings pass iff `1 ≤ nmin ≤ nmax` and `0 ≤ lo ≤ hi ≤ 1`
(over an ordered field, i.e. NaN aside). -/
theorem check_params_guard {α : Type} [Field α] [LinearOrder α] [IsStrictOrderedRing α]
    (nmin nmax : Nat) (lo hi : α) :
    checkParamsG nmin nmax lo hi = none ↔
      1 ≤ nmin ∧ nmin ≤ nmax ∧ 0 ≤ lo ∧ lo ≤ hi ∧ hi ≤ 1 := by
  unfold checkParamsG
  constructor
  · intro h
    split at h
    · cases h
    · split at h
      · cases h
      · split at h
        · cases h
        · split at h
          · cases h
          · rename_i h1 h2 h3 h4
            simp only [not_or, not_lt] at h1 h3 h4
            refine ⟨by omega, by omega, h3.1, h4, h3.2.2.2⟩
  · rintro ⟨h1, h2, h3, h4, h5⟩
    have a1 : ¬ (nmin = 0 ∨ nmax = 0) := by omega
    have a2 : ¬ nmin > nmax := by omega
    have a3 : ¬ (lo < 0 ∨ hi < 0 ∨ lo > 1 ∨ hi > 1) := by
      simp only [not_or, not_lt]
      exact ⟨h3, le_trans h3 h4, le_trans h4 h5, h5⟩
    have a4 : ¬ hi < lo := not_lt.mpr h4
    simp only [a1, a2, a3, a4, if_false]

example : (1 : Nat) ≤ 1 ∧ 1 ≤ 2 ∧ (0 : ℚ) ≤ 1 / 4 ∧ (1 / 4 : ℚ) ≤ 3 / 4 ∧ (3 / 4 : ℚ) ≤ 1 := by norm_num

/-- **the absolute bounds are the documented relative window**: in exact arithmetic
`ceil(lo·n) ≤ df ≤ floor(hi·n)` holds iff `lo ≤ df/n ≤ hi` (`absBoundsWith` is the formula the
driver runs on `Float32`; here it is instantiated with exact ceiling / floor). -/
theorem window_is_relative {α : Type} [Field α] [LinearOrder α] [IsStrictOrderedRing α] [FloorSemiring α]
    (lo hi : α) (n df : Nat) (hn : 0 < n) (hhi : 0 ≤ hi) :
    let b := absBoundsWith (Nat.cast : Nat → α) Nat.ceil Nat.floor lo hi n
    (b.1 ≤ df ∧ df ≤ b.2) ↔ (lo ≤ (df : α) / n ∧ (df : α) / n ≤ hi) := by
  intro b
  have hn' : (0 : α) < n := by exact_mod_cast hn
  simp only [b, absBoundsWith]
  rw [Nat.ceil_le, Nat.le_floor_iff (mul_nonneg hhi hn'.le), le_div_iff₀ hn', div_le_iff₀ hn']

example : (0 : Nat) < 3 ∧ (0 : ℚ) ≤ 3 / 4 := by norm_num
example := window_is_relative (α := ℚ) (1 / 2) (3 / 4) 3 2 (by norm_num) (by norm_num)

/-- **the vocabulary in terms of the relative settings** (no cap, exact arithmetic): an entry is
listed iff it occurs in the corpus, its relative document frequency `df/n` lies in `[lo, hi]`, and it
is no stop entry. -/
theorem vocab_eq_admitted_relative {α : Type} [Field α] [LinearOrder α] [IsStrictOrderedRing α]
    [FloorSemiring α]
    (order : List (Entry γ) → List (Entry γ)) (horder : ∀ l, (order l).Perm l)
    (docs : List (List γ)) (lo hi : α) (hhi : 0 ≤ hi) (stop : Option (List γ)) :
    let b := absBoundsWith (Nat.cast : Nat → α) Nat.ceil Nat.floor lo hi docs.length
    ∀ g, g ∈ (fit order docs b.1 b.2 stop none).vec ↔
      (∃ d ∈ docs, g ∈ d) ∧ lo ≤ (docFreq docs g : α) / docs.length ∧
        (docFreq docs g : α) / docs.length ≤ hi ∧ ∀ s, stop = some s → g ∉ s := by
  intro b g
  rw [(vocab_eq_admitted order horder docs b.1 b.2 stop).2 g]
  constructor
  · rintro ⟨⟨d, hd, hg⟩, h1, h2, h3⟩
    have hn : 0 < docs.length := List.length_pos_of_mem hd
    have := (window_is_relative lo hi docs.length (docFreq docs g) hn hhi).mp ⟨h1, h2⟩
    exact ⟨⟨d, hd, hg⟩, this.1, this.2, h3⟩
  · rintro ⟨⟨d, hd, hg⟩, h1, h2, h3⟩
    have hn : 0 < docs.length := List.length_pos_of_mem hd
    have := (window_is_relative lo hi docs.length (docFreq docs g) hn hhi).mpr ⟨h1, h2⟩
    exact ⟨⟨d, hd, hg⟩, this.1, this.2, h3⟩

example := vocab_eq_admitted_relative (γ := Nat) (α := ℚ) id (fun _ => List.Perm.refl _)
  [[1, 2, 2], [2, 3], [2]] (1 / 2) 1 (by norm_num) (some [7])

end

/-! ## any consistent vectoriser (fitted or built from a user vocabulary) -/

section
variable {γ : Type} [DecidableEq γ]

/-- **fixed vocabulary**: `fit_vocabulary(words)` lists exactly the given words, each once,
and its state is consistent — so `count_entry_of_consistent` / `tfidf_entry_of_consistent` apply. -/
theorem fixed_vocabulary (order : List (Entry γ) → List (Entry γ)) (horder : ∀ l, (order l).Perm l)
    (words : List γ) :
    Consistent (fitVocabulary order words) ∧ ∀ g, g ∈ (fitVocabulary order words).vec ↔ g ∈ words := by
  obtain ⟨hnd, hmem⟩ := foldl_insertWord words ([] : List (Entry γ)) (by simp [keys])
  refine ⟨hashmapToVocabulary_consistent order _ (horder _) hnd, ?_⟩
  intro g
  have : g ∈ (fitVocabulary order words).vec ↔ g ∈ keys (words.foldl insertWord []) :=
    ((horder _).map _).mem_iff
  rw [this, hmem]; simp [keys]

example : (fitVocabulary (γ := Nat) id [5, 3, 5, 7]).vec = [5, 3, 7] := by decide

/-- count matrix of any consistent vectoriser -/
theorem count_entry_of_consistent (F : Fitted γ) (hF : Consistent F) (tr : List (List γ)) :
    transform F tr = tr.map fun d => F.vec.map fun w => d.count w := by
  unfold transform; rw [termAndDocFreqs_eq F hF]

/-- tf-idf matrix of any consistent vectoriser -/
theorem tfidf_entry_of_consistent {α : Type} [Add α] [Mul α] [Div α] [OfNat α 0] [OfNat α 1] [NatCast α]
    [Transc α] (m : Method) (F : Fitted γ) (hF : Consistent F) (tr : List (List γ)) :
    transformTfIdf (α := α) m F tr = tr.map fun d => F.vec.map fun w =>
      if d.count w = 0 then (0 : α)
      else (d.count w : α) * computeIdf m tr.length (docFreq tr w) :=
  transformTfIdf_eq m F hF tr

/-- **out-of-vocabulary entries contribute nothing**: inserting an entry that is not in the
vocabulary anywhere in a document leaves its row unchanged. -/
theorem oov_contributes_zero (F : Fitted γ) (hF : Consistent F) (pre post : List γ) (g : γ)
    (hg : g ∉ F.vec) : analyzeDocument F (pre ++ g :: post) = analyzeDocument F (pre ++ post) := by
  rw [analyzeDocument_eq F hF, analyzeDocument_eq F hF]
  apply List.map_congr_left
  intro w hw
  have : ¬ g = w := fun h => hg (h ▸ hw)
  simp [List.count_append, List.count_cons, this]

example : analyzeDocument (fitVocabulary (γ := Nat) id [5, 3]) [5, 9, 3, 5] = [2, 1] := by decide

/-- the count matrix has one row per document and one column per vocabulary entry -/
theorem matrix_shape (F : Fitted γ) (hF : Consistent F) (tr : List (List γ)) :
    (transform F tr).length = tr.length ∧ ∀ row ∈ transform F tr, row.length = F.vec.length := by
  rw [count_entry_of_consistent F hF tr]
  constructor
  · simp
  · intro row hrow
    obtain ⟨d, _, rfl⟩ := List.mem_map.mp hrow
    simp

/-- **the sparse row stores exactly the non-zero counts**: `(j, c)` is a stored cell of the `CsVec`
that `analyze_document` returns iff `c > 0` is the number of occurrences of `vocabulary()[j]`. -/
theorem sparse_cells_are_nonzero_counts (F : Fitted γ) (hF : Consistent F) (grams : List γ) (j c : Nat) :
    (j, c) ∈ sparseRow (analyzeDocument F grams) ↔
      0 < c ∧ ∃ h : j < F.vec.length, grams.count F.vec[j] = c := by
  rw [mem_sparseRow, analyzeDocument_eq F hF, getElem?_map_count]

example : sparseRow (analyzeDocument (fitVocabulary (γ := Nat) id [5, 3, 8]) [5, 9, 8, 5]) = [(0, 2), (2, 1)] := by
  decide

end

/-! ## the sparse row, the string transformation -/

/-- **the `CsVec` built from a dense row**: its cells are the non-zero entries of the row, the
columns are strictly increasing (the condition `CsVec::append` needs), and reading a cell back
(`get`) gives the stored count or `None` for a zero / out-of-range cell. -/
theorem sparse_row_spec (row : List Nat) :
    (∀ j c, (j, c) ∈ sparseRow row ↔ 0 < c ∧ row[j]? = some c) ∧
    ((sparseRow row).map (·.1)).Pairwise (· < ·) ∧
    (∀ j, sparseGet (sparseRow row) j = if 0 < row[j]?.getD 0 then some (row[j]?.getD 0) else none) := by
  have hmem := mem_sparseRow row
  have hsorted := sparseRow_sorted row
  refine ⟨hmem, hsorted, ?_⟩
  intro j
  unfold sparseGet
  cases hr : row[j]? with
  | none =>
    have : (sparseRow row).find? (fun p => p.1 == j) = none := by
      rw [List.find?_eq_none]
      intro p hp hc
      obtain ⟨i, c⟩ := p
      have := (hmem i c).mp hp
      simp at hc; subst hc
      rw [hr] at this; exact absurd this.2 (by simp)
    simp [this]
  | some c =>
    by_cases hc : 0 < c
    · have hin : (j, c) ∈ sparseRow row := (hmem j c).mpr ⟨hc, hr⟩
      have := find_of_mem_sorted _ hsorted j c hin
      simp [this, hc]
    · have : (sparseRow row).find? (fun p => p.1 == j) = none := by
        rw [List.find?_eq_none]
        intro p hp hq
        obtain ⟨i, c'⟩ := p
        have := (hmem i c').mp hp
        simp at hq; subst hq
        rw [hr] at this
        have h3 := Option.some.inj this.2
        omega
      simp [this, hc]

example : sparseRow [0, 2, 0, 1] = [(1, 2), (3, 1)] := by decide

/-- `CsMat::nnz` of the count matrix is the number of non-zero cells -/
theorem nnz_counts_nonzero (rows : List (List Nat)) :
    nnz rows = (rows.map fun r => r.countP fun c => decide (0 < c)).sum := by
  unfold nnz
  rw [List.sum_eq_foldl]
  congr 1
  exact List.map_congr_left fun r _ => sparseRow_length r

example : nnz [[0, 2, 0, 1], [], [0, 0, 0, 0]] = 2 := by decide

/-- **`transform_string`**: NFKD is applied iff `normalize`, lower-casing iff `convert_to_lowercase`,
normalisation first. -/
theorem transform_string_spec {σ : Type} (nfkd lower : σ → σ) (s : σ) :
    transformString nfkd lower true true s = lower (nfkd s) ∧
    transformString nfkd lower true false s = nfkd s ∧
    transformString nfkd lower false true s = lower s ∧
    transformString nfkd lower false false s = s := ⟨rfl, rfl, rfl, rfl⟩

/-- **the two switches are independent**: with `normalize` off the result does not depend on the
normalisation map at all, with lower-casing off not on the case map. -/
theorem transform_string_independent {σ : Type} (nfkd nfkd' lower lower' : σ → σ) (b : Bool) (s : σ) :
    transformString nfkd lower false b s = transformString nfkd' lower false b s ∧
    transformString nfkd lower b false s = transformString nfkd lower' b false s := by
  cases b <;> exact ⟨rfl, rfl⟩

example : transformString (fun s : Nat => s + 100) (fun s => s % 10) false true 57 = 7 := by decide


/-! ## the parameter object -/

/-- **the tokeniser configured last is the one a fit uses, whatever the history of the object**:
for ANY state `p` (any stale cache left by earlier fits, any function set earlier) `tokenizer(s)`
followed by `check_ref` makes `fit` tokenise with `s`. -/
theorem check_ref_uses_last_tokenizer {ρ φ : Type} (p : TokParams ρ φ) (s : TokSetting ρ φ) :
    ((p.tokenizer s).checkRef).used = some s ∧ ((p.tokenizer s).checkRef.checkRef).used = some s := by
  cases s <;> exact ⟨rfl, rfl⟩

/-- in general `check_ref` makes the object tokenise with what is configured -/
theorem check_ref_uses_configured {ρ φ : Type} (p : TokParams ρ φ) :
    p.checkRef.used = some p.configured := by
  obtain ⟨e, c, f⟩ := p
  cases f <;> rfl

example : ((((⟨0, none, none⟩ : TokParams Nat Nat).tokenizer (.regex 1)).checkRef).tokenizer (.regex 2)).checkRef.used
    = some (.regex 2) := by decide

/-! ## the guard for any scalar -/

/-- **the guard of `check_ref` for ANY scalar with a decidable `<`** (in particular the `Float32`
instance the driver runs, where a NaN bound passes because every comparison with it is false). -/
theorem check_params_guard_any {α : Type} [LT α] [DecidableLT α] [OfNat α 0] [OfNat α 1]
    (nmin nmax : Nat) (lo hi : α) :
    checkParamsG nmin nmax lo hi = none ↔
      1 ≤ nmin ∧ nmin ≤ nmax ∧ ¬ lo < 0 ∧ ¬ hi < 0 ∧ ¬ lo > 1 ∧ ¬ hi > 1 ∧ ¬ hi < lo := by
  unfold checkParamsG
  constructor
  · intro h
    split at h
    · cases h
    · split at h
      · cases h
      · split at h
        · cases h
        · split at h
          · cases h
          · rename_i h1 h2 h3 h4
            simp only [not_or] at h1 h3
            exact ⟨by omega, by omega, h3.1, h3.2.1, h3.2.2.1, h3.2.2.2, h4⟩
  · rintro ⟨h1, h2, h3, h4, h5, h6, h7⟩
    have a1 : ¬ (nmin = 0 ∨ nmax = 0) := by omega
    have a2 : ¬ nmin > nmax := by omega
    have a3 : ¬ (lo < 0 ∨ hi < 0 ∨ lo > 1 ∨ hi > 1) := by
      simp only [not_or]; exact ⟨h3, h4, h5, h6⟩
    simp only [a1, a2, a3, h7, if_false]

example : checkParamsG (α := Int) 1 2 0 1 = none := by decide

/-! ## the relative window, for the instance the driver runs -/

/-- **the absolute window the driver computes is the documented relative window**: `absBoundsExact`
(= `absBoundsWith`, the formula of `filter_vocabulary`, with exact rational product / ceiling / floor —
the function the driver answers through) admits `df` iff `lo ≤ df/n ≤ hi`.
Hypotheses: at least one document, `0 ≤ hi` (guard). -/
theorem window_is_relative_exact (lo hi : Rat) (n df : Nat) (hn : 0 < n) (hhi : 0 ≤ hi) :
    let b := absBoundsExact lo hi n
    (b.1 ≤ df ∧ df ≤ b.2) ↔ (lo ≤ (df : Rat) / n ∧ (df : Rat) / n ≤ hi) := by
  intro b
  have hn' : (0 : Rat) < n := by exact_mod_cast hn
  simp only [b, absBoundsExact, absBoundsWith]
  have h1 : (lo * (n : Rat)).ceil.toNat ≤ df ↔ lo * n ≤ df := by
    rw [Int.toNat_le, Rat.ceil_le_iff]; norm_cast
  have h2 : df ≤ (hi * (n : Rat)).floor.toNat ↔ (df : Rat) ≤ hi * n := by
    have hnn : 0 ≤ (hi * (n : Rat)).floor := Rat.le_floor_iff.mpr (by simpa using mul_nonneg hhi hn'.le)
    rw [Int.le_toNat hnn, Rat.le_floor_iff]; norm_cast
  rw [h1, h2, le_div_iff₀ hn', div_le_iff₀ hn']

example := window_is_relative_exact (1 / 2) (3 / 4) 3 2 (by decide) (by norm_num)

section
variable {ω γ : Type} [LinearOrder γ]

/-- **end to end, from the tokens, in terms of the relative settings** (no cap): an entry is in the
vocabulary iff it is the join of `L ∈ nmin..nmax` consecutive tokens of some training document, its
relative document frequency lies in `[lo, hi]`, and it is no stop entry.  `fitDocs` with
`absBoundsExact` is what the driver runs for every `count` / `tfidf` request. -/
theorem vocab_from_tokens (J : Joiner ω γ) (order : List (Entry γ) → List (Entry γ))
    (horder : ∀ l, (order l).Perm l) (nmin nmax : Nat) (h1 : 1 ≤ nmin) (h2 : nmin ≤ nmax)
    (lo hi : Rat) (hhi : 0 ≤ hi) (stop : Option (List γ)) (docs : List (List ω)) (g : γ) :
    g ∈ (fitDocs J order nmin nmax (absBoundsExact lo hi) stop none docs).vec ↔
      (∃ ws ∈ docs, ∃ i L, nmin ≤ L ∧ L ≤ nmax ∧ i + L ≤ ws.length ∧
          joinW J ((ws.drop i).take L) = some g) ∧
      lo ≤ (docFreq (docs.map (docGrams J nmin nmax)) g : Rat) / docs.length ∧
      (docFreq (docs.map (docGrams J nmin nmax)) g : Rat) / docs.length ≤ hi ∧
      ∀ s, stop = some s → g ∉ s := by
  unfold fitDocs
  simp only []
  rw [(vocab_eq_admitted order horder _ _ _ stop).2 g]
  have hmem : (∃ d ∈ docs.map (docGrams J nmin nmax), g ∈ d) ↔
      ∃ ws ∈ docs, ∃ i L, nmin ≤ L ∧ L ≤ nmax ∧ i + L ≤ ws.length ∧
        joinW J ((ws.drop i).take L) = some g := by
    constructor
    · rintro ⟨d, hd, hg⟩
      obtain ⟨ws, hws, rfl⟩ := List.mem_map.mp hd
      exact ⟨ws, hws, (ngrams_spec J ws nmin nmax h1 h2 g).mp hg⟩
    · rintro ⟨ws, hws, h⟩
      exact ⟨_, List.mem_map.mpr ⟨ws, hws, rfl⟩, (ngrams_spec J ws nmin nmax h1 h2 g).mpr h⟩
  rw [hmem]
  constructor
  · rintro ⟨⟨ws, hws, hw⟩, ha, hb, hs⟩
    have hn : 0 < docs.length := List.length_pos_of_mem hws
    have := (window_is_relative_exact lo hi docs.length _ hn hhi).mp ⟨ha, hb⟩
    exact ⟨⟨ws, hws, hw⟩, this.1, this.2, hs⟩
  · rintro ⟨⟨ws, hws, hw⟩, ha, hb, hs⟩
    have hn : 0 < docs.length := List.length_pos_of_mem hws
    have := (window_is_relative_exact lo hi docs.length _ hn hhi).mpr ⟨ha, hb⟩
    exact ⟨⟨ws, hws, hw⟩, this.1, this.2, hs⟩

/-- **end to end, from the tokens**: cell `(d, j)` of `transform` is the number of windows of
`nmin..nmax` consecutive tokens of document `d` (listed per start index by `ngrams_list_spec`) whose
join is `vocabulary()[j]` — for any bounds, stop list, cap, iteration order, training and unseen
documents alike. -/
theorem count_from_tokens (J : Joiner ω γ) (order : List (Entry γ) → List (Entry γ))
    (horder : ∀ l, (order l).Perm l) (nmin nmax : Nat) (h1 : 1 ≤ nmin) (h2 : nmin ≤ nmax)
    (bounds : Nat → Nat × Nat) (stop : Option (List γ)) (cap : Option Nat)
    (docs tr : List (List ω)) :
    let F := fitDocs J order nmin nmax bounds stop cap docs
    transformDocs J nmin nmax F tr = tr.map fun ws => F.vec.map fun w =>
      (((List.range (ws.length + 1 - nmin)).map (itemsAtIdx J ws nmin nmax)).flatten).count w := by
  intro F
  unfold transformDocs
  have := count_entry order horder (docs.map (docGrams J nmin nmax)) (bounds docs.length).1
    (bounds docs.length).2 stop cap (tr.map (docGrams J nmin nmax))
  simp only [] at this
  show transform (fit order _ _ _ stop cap) _ = _
  rw [this, List.map_map]
  apply List.map_congr_left
  intro ws _
  simp only [Function.comp_def, docGrams_eq J ws nmin nmax h1 h2]
  rfl

/-- **`fit_files` computes what `fit` computes** (its loop is a separate piece of code): when every
file decodes, the result is the vectoriser `fit` builds from the decoded documents — the window is
taken from the number of files. -/
theorem fit_files_eq_fit (J : Joiner ω γ) (order : List (Entry γ) → List (Entry γ))
    (nmin nmax : Nat) (bounds : Nat → Nat × Nat) (stop : Option (List γ)) (cap : Option Nat)
    (docs : List (List ω)) :
    fitFiles J order nmin nmax bounds stop cap (docs.map some) =
      some (fitDocs J order nmin nmax bounds stop cap docs) := by
  have key : ∀ (ds : List (List ω)) (voc : List (Entry γ)),
      (ds.map some).foldl (filesStep J nmin nmax) (some voc) =
      some ((ds.map (docGrams J nmin nmax)).foldl readDocument voc) := by
    intro ds
    induction ds with
    | nil => intro voc; rfl
    | cons d t ih => intro voc; simp only [List.map_cons, List.foldl_cons, filesStep]; exact ih _
  unfold fitFiles fitDocs fit readCorpus
  rw [key docs []]
  simp only [List.length_map]

/-- a file the decoder refuses makes `fit_files` return the error -/
theorem fit_files_refused (J : Joiner ω γ) (order : List (Entry γ) → List (Entry γ))
    (nmin nmax : Nat) (bounds : Nat → Nat × Nat) (stop : Option (List γ)) (cap : Option Nat)
    (files : List (Option (List ω))) (h : none ∈ files) :
    fitFiles J order nmin nmax bounds stop cap files = none := by
  have stuck : ∀ (fs : List (Option (List ω))),
      fs.foldl (filesStep (γ := γ) J nmin nmax) none = none := by
    intro fs; induction fs with
    | nil => rfl
    | cons f t ih => simp only [List.foldl_cons, filesStep]; exact ih
  have key : ∀ (fs : List (Option (List ω))) (st : Option (List (Entry γ))), none ∈ fs →
      fs.foldl (filesStep J nmin nmax) st = none := by
    intro fs
    induction fs with
    | nil => intro _ h; cases h
    | cons f t ih =>
      intro st h
      simp only [List.foldl_cons]
      cases f with
      | none =>
        have : filesStep J nmin nmax st (none : Option (List ω)) = none := by cases st <;> rfl
        rw [this]; exact stuck t
      | some ws =>
        have ht : none ∈ t := by
          cases h with
          | tail _ h' => exact h'
        exact ih _ ht
  unfold fitFiles
  rw [key files (some []) h]

example : fitFiles (γ := String) strJoiner id 1 1 (fun n => (0, n)) none none [some ["a"], none] = none := by
  decide

omit [LinearOrder γ] in
/-- **`transform_files` computes what `transform` computes** (again a separate loop) -/
theorem transform_files_eq_transform [DecidableEq γ] (J : Joiner ω γ) (nmin nmax : Nat) (F : Fitted γ)
    (tr : List (List ω)) :
    transformFiles J nmin nmax F (tr.map some) =
      some (termAndDocFreqs F (tr.map (docGrams J nmin nmax))) := by
  have key : ∀ (ds : List (List ω)) (st : List (List Nat) × List Nat),
      (ds.map some).foldl (trFilesStep J nmin nmax F) (some st) =
      some ((ds.map (docGrams J nmin nmax)).foldl (tdStep F) st) := by
    intro ds
    induction ds with
    | nil => intro st; rfl
    | cons d t ih => intro st; simp only [List.map_cons, List.foldl_cons, trFilesStep]; exact ih _
  unfold transformFiles termAndDocFreqs
  exact key tr _

end

/-- **the `tstring` answers**: with the finite tables the harness sends (`raw ↦ nfkd`, `raw ↦ low`,
`nfkd ↦ lownfkd`) the model's `transform_string` returns the `lownfkd` field under both switches —
NFKD first, THEN lower-casing of the normalised string (the two do not commute: `™ ↦ TM ↦ tm`) —,
`nfkd` / `low` under one switch, the raw string under none. -/
theorem tstring_table {σ : Type} [DecidableEq σ] (raw nf low lownf : σ) :
    transformString (tableNfkd raw nf) (tableLower raw nf low lownf) true true raw
      = (if nf = raw then low else lownf) ∧
    transformString (tableNfkd raw nf) (tableLower raw nf low lownf) true false raw = nf ∧
    transformString (tableNfkd raw nf) (tableLower raw nf low lownf) false true raw = low ∧
    transformString (tableNfkd raw nf) (tableLower raw nf low lownf) false false raw = raw := by
  simp [transformString, tableNfkd, tableLower]

/-- the order is observable: a table on which lower-casing first gives another string -/
example : transformString (tableNfkd "™" "TM") (tableLower "™" "TM" "™" "tm") true true "™" = "tm" ∧
    tableNfkd "™" "TM" (tableLower "™" "TM" "™" "tm" "™") = "TM" := by decide


/-! ## the documented idf over the reals -/

section Idf
open LinfaSpec

noncomputable local instance : Transc ℝ := ⟨Real.sqrt, Real.exp, Real.log⟩

/-- **the documented idf over the reals** (`Transc.ln := Real.log`, the instance of the very
`computeIdf` the driver runs on `Float`): an entry present in every one of the `n ≥ 1` documents
weighs exactly 1 under `Smooth` and `NonSmooth` ("still considered with a weight of one"), and is
given a NEGATIVE weight `ln(n/(n+1))` by `Textbook` (the rustdoc says "discards"; it does not). -/
theorem idf_entry_in_every_document (n : Nat) (hn : 0 < n) :
    computeIdf (α := ℝ) .smooth n n = 1 ∧ computeIdf (α := ℝ) .nonSmooth n n = 1 ∧
    computeIdf (α := ℝ) .textbook n n < 0 := by
  have hn' : (0 : ℝ) < n := by exact_mod_cast hn
  refine ⟨?_, ?_, ?_⟩
  · show Real.log ((1 + (n : ℝ)) / (1 + (n : ℝ))) + 1 = 1
    rw [div_self (by positivity), Real.log_one, zero_add]
  · show Real.log ((n : ℝ) / (n : ℝ)) + 1 = 1
    rw [div_self hn'.ne', Real.log_one, zero_add]
  · show Real.log ((n : ℝ) / (1 + (n : ℝ))) < 0
    apply Real.log_neg (by positivity)
    rw [div_lt_one (by positivity)]
    linarith

/-- **rarer entries weigh more**: for `df ≤ df' ≤ n` every method gives `idf(n, df') ≤ idf(n, df)`
(`NonSmooth` needs `0 < df`: the documented division by zero), and `Smooth` / `NonSmooth` never go
below 1. -/
theorem idf_antitone (m : Method) (n df df' : Nat) (h : df ≤ df') (hn : df' ≤ n) (hdf : 0 < df) :
    computeIdf (α := ℝ) m n df' ≤ computeIdf (α := ℝ) m n df := by
  have h' : (df : ℝ) ≤ df' := by exact_mod_cast h
  have hdf' : (0 : ℝ) < df := by exact_mod_cast hdf
  have hn' : (0 : ℝ) < n := by exact_mod_cast (by omega : 0 < n)
  cases m with
  | smooth =>
    show Real.log ((1 + (n : ℝ)) / (1 + (df' : ℝ))) + 1 ≤ Real.log ((1 + (n : ℝ)) / (1 + (df : ℝ))) + 1
    have : (1 + (n : ℝ)) / (1 + (df' : ℝ)) ≤ (1 + (n : ℝ)) / (1 + (df : ℝ)) := by gcongr
    have := Real.log_le_log (by positivity) this
    linarith
  | nonSmooth =>
    show Real.log ((n : ℝ) / (df' : ℝ)) + 1 ≤ Real.log ((n : ℝ) / (df : ℝ)) + 1
    have : (n : ℝ) / (df' : ℝ) ≤ (n : ℝ) / (df : ℝ) := by gcongr
    have := Real.log_le_log (div_pos hn' (lt_of_lt_of_le hdf' h')) this
    linarith
  | textbook =>
    show Real.log ((n : ℝ) / (1 + (df' : ℝ))) ≤ Real.log ((n : ℝ) / (1 + (df : ℝ)))
    have : (n : ℝ) / (1 + (df' : ℝ)) ≤ (n : ℝ) / (1 + (df : ℝ)) := by gcongr
    exact Real.log_le_log (by positivity) this

example : (2 : Nat) ≤ 3 ∧ 3 ≤ 5 ∧ 0 < 2 := by decide

/-- `Smooth` and `NonSmooth` weights are at least 1 for an entry seen in `1 ≤ df ≤ n` documents, so a
non-zero count never yields a tf-idf cell below the count. -/
theorem idf_at_least_one (n df : Nat) (hdf : 0 < df) (hn : df ≤ n) :
    1 ≤ computeIdf (α := ℝ) .smooth n df ∧ 1 ≤ computeIdf (α := ℝ) .nonSmooth n df := by
  obtain ⟨h1, h2, _⟩ := idf_entry_in_every_document n (by omega)
  exact ⟨h1 ▸ idf_antitone .smooth n df n hn le_rfl hdf, h2 ▸ idf_antitone .nonSmooth n df n hn le_rfl hdf⟩

end Idf

section
variable {γ : Type} [LinearOrder γ]

/-- **what the feature cap surely keeps and surely drops** (the part of a capped vocabulary the
comparison treats as promised, whatever the choice among equals): an admitted entry with fewer than
`m` other admitted entries of at least its document frequency is kept; an admitted entry with at
least `m` admitted entries of strictly higher document frequency is dropped. -/
theorem cap_sure (order : List (Entry γ) → List (Entry γ)) (horder : ∀ l, (order l).Perm l)
    (docs : List (List γ)) (minAbs maxAbs : Nat) (stop : Option (List γ)) (m : Nat) (a : γ) :
    let A := (fit order docs minAbs maxAbs stop none).vec
    let V := (fit order docs minAbs maxAbs stop (some m)).vec
    a ∈ A →
    (((A.filter fun b => decide (b ≠ a) && decide (docFreq docs a ≤ docFreq docs b)).length < m → a ∈ V) ∧
     (m ≤ (A.filter fun b => decide (docFreq docs a < docFreq docs b)).length → a ∉ V)) := by
  intro A V ha
  obtain ⟨hnd, hlen, hsub, htop⟩ := cap_is_top order horder docs minAbs maxAbs stop m
  have hlen' : V.length = min m A.length := hlen
  have hndA : A.Nodup := (vocab_eq_admitted order horder docs minAbs maxAbs stop).1
  constructor
  · intro hlt
    by_contra hna
    -- every kept entry is another admitted entry at least as frequent as `a`
    have hVsub : ∀ v ∈ V, v ∈ A.filter fun b => decide (b ≠ a) && decide (docFreq docs a ≤ docFreq docs b) := by
      intro v hv
      have hne : v ≠ a := fun h => hna (h ▸ hv)
      have := htop v hv a ha hna
      have hle : docFreq docs a ≤ docFreq docs v := by
        rcases this with h | h
        · exact Nat.le_of_lt h
        · exact Nat.le_of_eq h.1
      simp only [List.mem_filter, Bool.and_eq_true, decide_eq_true_eq]
      exact ⟨hsub v hv, hne, hle⟩
    have h1 : V.length ≤ (A.filter fun b => decide (b ≠ a) && decide (docFreq docs a ≤ docFreq docs b)).length :=
      (List.subperm_of_subset hnd hVsub).length_le
    -- `a` is admitted but not kept, so the cap is full
    have h2 : V.length < A.length := by
      have hVa : ∀ v ∈ a :: V, v ∈ A := by
        intro v hv
        rcases List.mem_cons.mp hv with rfl | hv
        · exact ha
        · exact hsub v hv
      have := (List.subperm_of_subset (List.nodup_cons.mpr ⟨hna, hnd⟩) hVa).length_le
      simpa using this
    omega
  · intro hge hav
    have hsub2 : ∀ b ∈ a :: (A.filter fun b => decide (docFreq docs a < docFreq docs b)), b ∈ V := by
      intro b hb
      rcases List.mem_cons.mp hb with rfl | hb
      · exact hav
      · simp only [List.mem_filter, decide_eq_true_eq] at hb
        by_contra hnb
        rcases htop a hav b hb.1 hnb with h | h
        · omega
        · omega
    have hnd2 : (a :: (A.filter fun b => decide (docFreq docs a < docFreq docs b))).Nodup := by
      refine List.nodup_cons.mpr ⟨?_, hndA.filter _⟩
      simp only [List.mem_filter, decide_eq_true_eq]
      intro h; omega
    have := (List.subperm_of_subset hnd2 hsub2).length_le
    simp only [List.length_cons] at this
    omega

example := cap_sure (γ := Nat) id (fun _ => List.Perm.refl _) [[1, 2, 2], [2, 3], [3]] 0 3 none 1 2

end

end LinfaSpec.Props.C17
