import LinfaSpec.Proofs.Vectorizer
import Mathlib.Data.Nat.Basic
import Mathlib.Algebra.Order.Floor.Semiring
import Mathlib.Algebra.Order.Field.Basic
import Mathlib.Data.List.Perm.Subperm
import Mathlib.Data.Rat.Floor
import Mathlib.Tactic.NormNum.Basic

/-!
# C17 — Count and tf-idf vectorisers equal a naive count of the tokenised corpus

Theorems about `LinfaSpec.Vectorizer` (model of `NGramList`, `CountVectorizer` fitting /
transforming, `FittedTfIdfVectorizer`).  Tokenisation is the external parameter: a document is
its token list (`List ω`), an entry is what `Joiner` builds from a window of tokens.

* every statement about a fitted vectoriser holds for **every iteration order of the hash map**
  (`order`, any function returning a permutation of its argument);
* the document-frequency window is the pair of *absolute* bounds the code computes
  (`absBounds`, executed on `Float32` by the driver) — the theorems hold for all bounds;
* the word type is any linear order (Rust `String: Ord`), used only by the feature cap;
* `window_is_relative` / `vocab_eq_admitted_relative` connect the absolute bounds with the documented
  *relative* window in exact arithmetic (the very formula `absBoundsWith` the driver runs on `Float32`);
* `check_params_guard` states the guard of `check_ref` (the hypotheses `1 ≤ nmin ≤ nmax`, `0 ≤ lo ≤ hi ≤ 1`);
* `transform_string_*` : the two tokenisation switches act independently, NFKD before lower-casing;
* `sparse_*`, `nnz_counts_nonzero` : the CSR row stores exactly the non-zero counts in column order.
-/
namespace LinfaSpec.Props.C17
open LinfaSpec.Vectorizer

/-! ## n-grams -/

/-- **`NGramList` yields exactly the windows of `nmin..nmax` consecutive tokens**: an entry is
produced iff it is the join of `L` consecutive tokens starting at some `i`, `nmin ≤ L ≤ nmax`.
Hypotheses = the parameter guard (`1 ≤ nmin ≤ nmax`). -/
theorem ngrams_spec {ω γ} (J : Joiner ω γ) (ws : List ω) (nmin nmax : Nat)
    (h1 : 1 ≤ nmin) (h2 : nmin ≤ nmax) (g : γ) :
    g ∈ docGrams J nmin nmax ws ↔
      ∃ i L, nmin ≤ L ∧ L ≤ nmax ∧ i + L ≤ ws.length ∧ joinW J ((ws.drop i).take L) = some g :=
  mem_docGrams J ws nmin nmax h1 h2 g

/-- list form (reading order, multiplicities): start index `i` contributes the windows of
length `nmin, nmin+1, …, min nmax (len - i)`, each exactly once; indices with no window of the
minimum length contribute nothing (the iterator stops there). -/
theorem ngrams_list_spec {ω γ} (J : Joiner ω γ) (ws : List ω) (nmin nmax : Nat)
    (h1 : 1 ≤ nmin) (h2 : nmin ≤ nmax) :
    docGrams J nmin nmax ws =
      ((List.range (ws.length + 1 - nmin)).map (itemsAtIdx J ws nmin nmax)).flatten ∧
    ∀ i (h : i < ws.length), itemsAtIdx J ws nmin nmax i =
      (List.range (min (i + nmax) ws.length - (i + nmin) + 1)).map fun k =>
        gram J ws[i] ((ws.drop (i + 1)).take (nmin - 1 + k)) := by
  refine ⟨docGrams_eq J ws nmin nmax h1 h2, ?_⟩
  intro i h
  unfold itemsAtIdx
  rw [List.getElem?_eq_getElem h]
  rfl

example : docGrams strJoiner 1 2 ["a", "b", "c"] = ["a", "a b", "b", "b c", "c"] := by decide
example : docGrams strJoiner 2 3 ["a", "b", "c"] = ["a b", "a b c", "b c"] := by decide
example : docGrams strJoiner 1 1 ([] : List String) = [] := by decide

/-! ## the fitted vocabulary -/

section
variable {γ : Type} [LinearOrder γ]

/-- **without a feature cap the vocabulary is exactly the set of admitted corpus entries**:
`g` is listed iff it occurs in some training document, its document frequency (number of
documents containing it) lies in the inclusive window, and it is not a stop entry (stop words are
compared with whole entries).  No entry is listed twice.  For every iteration order. -/
theorem vocab_eq_admitted (order : List (Entry γ) → List (Entry γ)) (horder : ∀ l, (order l).Perm l)
    (docs : List (List γ)) (minAbs maxAbs : Nat) (stop : Option (List γ)) :
    (fit order docs minAbs maxAbs stop none).vec.Nodup ∧
    ∀ g, g ∈ (fit order docs minAbs maxAbs stop none).vec ↔
      (∃ d ∈ docs, g ∈ d) ∧ minAbs ≤ docFreq docs g ∧ docFreq docs g ≤ maxAbs ∧
        ∀ s, stop = some s → g ∉ s := by
  obtain ⟨hnd, _, hmem⟩ := filtered_spec docs minAbs maxAbs stop
  have hp := horder (filterVocab (readCorpus docs) docs.length minAbs maxAbs stop none)
  constructor
  · exact ((hp.map _).nodup_iff).mpr hnd
  · intro g
    have : g ∈ (fit order docs minAbs maxAbs stop none).vec ↔
        g ∈ keys (filterVocab (readCorpus docs) docs.length minAbs maxAbs stop none) :=
      (hp.map _).mem_iff
    rw [this, hmem g]
    rfl

example : (fit (γ := Nat) id [[1, 2, 2], [2, 3], [2]] 2 3 (some [7]) none).vec = [2] := by decide

/-- **under a feature cap the vocabulary is the top `min cap |admitted|` of the admitted entries
by (document frequency, word)**: its size is `min m |A|`, every listed entry is admitted, and every
listed entry beats every admitted-but-dropped entry: higher document frequency, or equal frequency
and greater word.  For every iteration order. -/
theorem cap_is_top (order : List (Entry γ) → List (Entry γ)) (horder : ∀ l, (order l).Perm l)
    (docs : List (List γ)) (minAbs maxAbs : Nat) (stop : Option (List γ)) (m : Nat) :
    let A := (fit order docs minAbs maxAbs stop none).vec
    let V := (fit order docs minAbs maxAbs stop (some m)).vec
    V.Nodup ∧ V.length = min m A.length ∧ (∀ g ∈ V, g ∈ A) ∧
    ∀ a ∈ V, ∀ b ∈ A, b ∉ V →
      docFreq docs b < docFreq docs a ∨ (docFreq docs b = docFreq docs a ∧ b < a) := by
  intro A V
  obtain ⟨hnd, hfreq, _⟩ := filtered_spec docs minAbs maxAbs stop
  generalize hF : filterVocab (readCorpus docs) docs.length minAbs maxAbs stop none = Fl at hnd hfreq
  have hA : A = (order Fl).map (·.1) := by
    simp only [A, fit, hashmapToVocabulary, hF]
  have hV : V = (order (capTop m Fl)).map (·.1) := by
    simp only [V, fit, hashmapToVocabulary, filterVocab_some, hF]
  have hpA := horder Fl
  have hpV := horder (capTop m Fl)
  have memA : ∀ g, g ∈ A ↔ g ∈ keys Fl := fun g => by rw [hA]; exact (hpA.map _).mem_iff
  have memV : ∀ g, g ∈ V ↔ g ∈ keys (capTop m Fl) := fun g => by rw [hV]; exact (hpV.map _).mem_iff
  refine ⟨?_, ?_, ?_, ?_⟩
  · rw [hV]; exact ((hpV.map _).nodup_iff).mpr (capTop_keys_nodup m Fl hnd)
  · rw [hV, hA, List.length_map, List.length_map, hpV.length_eq, hpA.length_eq, capTop_length]
  · intro g hg
    obtain ⟨e, he, rfl⟩ := (mem_keys _ _).mp ((memV g).mp hg)
    exact (memA _).mpr ((mem_keys _ _).mpr ⟨e, capTop_subset m Fl e he, rfl⟩)
  · intro a ha b hb hnb
    obtain ⟨ea, hea, rfl⟩ := (mem_keys _ _).mp ((memV a).mp ha)
    obtain ⟨eb, heb, rfl⟩ := (mem_keys _ _).mp ((memA b).mp hb)
    have hnb' : eb ∉ capTop m Fl := fun h => hnb ((memV _).mpr ((mem_keys _ _).mpr ⟨eb, h, rfl⟩))
    have hle := capTop_top m Fl ea eb hea heb hnb'
    have hne : ea.1 ≠ eb.1 := by
      intro h
      exact hnb (h ▸ ha)
    have := capLe_toKey ea eb hle hne
    rw [hfreq ea (capTop_subset m Fl ea hea), hfreq eb heb] at this
    exact this

/- non-vacuity: the hypotheses are met by the identity enumeration and by the reversed one; the
theorem instantiated on a corpus with a frequency tie at the cut (entries 2 and 3 both have
document frequency 2, cap 1). -/
example : ∃ order : List (Entry Nat) → List (Entry Nat), ∀ l, (order l).Perm l := ⟨id, fun _ => List.Perm.refl _⟩
example := cap_is_top (γ := Nat) id (fun _ => List.Perm.refl _) [[1, 2, 2], [2, 3], [3]] 0 3 none 1
example : ∃ order : List (Entry Nat) → List (Entry Nat), ∀ l, (order l).Perm l :=
  ⟨List.reverse, fun l => List.reverse_perm l⟩

/-- the state a fit leaves behind is consistent, with or without cap, for every iteration order -/
theorem fit_consistent (order : List (Entry γ) → List (Entry γ)) (horder : ∀ l, (order l).Perm l)
    (docs : List (List γ)) (minAbs maxAbs : Nat) (stop : Option (List γ)) (cap : Option Nat) :
    Consistent (fit order docs minAbs maxAbs stop cap) := by
  obtain ⟨hnd, _, _⟩ := filtered_spec docs minAbs maxAbs stop
  unfold fit
  apply hashmapToVocabulary_consistent order _ (horder _)
  cases cap with
  | none => exact hnd
  | some m => rw [filterVocab_some]; exact capTop_keys_nodup m _ hnd

/-- **column `j` always refers to `vocabulary()[j]`**: the map and the vector have the same size,
the vector has no duplicates, the index stored in the map for `vocabulary()[j]` is `j`, and
every index stored in the map is in range and points back at its word (so the `unwrap()` in
`analyze_document` cannot fail). -/
theorem column_is_vocab_index (order : List (Entry γ) → List (Entry γ)) (horder : ∀ l, (order l).Perm l)
    (docs : List (List γ)) (minAbs maxAbs : Nat) (stop : Option (List γ)) (cap : Option Nat) :
    let F := fit order docs minAbs maxAbs stop cap
    F.vocabulary.length = F.vec.length ∧ F.vec.Nodup ∧
    (∀ j (h : j < F.vec.length), lookupIdx F.vocabulary F.vec[j] = some j) ∧
    (∀ g j, lookupIdx F.vocabulary g = some j → ∃ h : j < F.vec.length, F.vec[j] = g) := by
  intro F
  have hF := fit_consistent order horder docs minAbs maxAbs stop cap
  exact ⟨hF.len, hF.nodup, (consistent_index F hF).1, (consistent_index F hF).2⟩

/-- **entry `(d, j)` of the count matrix is the number of occurrences of `vocabulary()[j]` among
the entries of document `d`**, for any documents (training or unseen). -/
theorem count_entry (order : List (Entry γ) → List (Entry γ)) (horder : ∀ l, (order l).Perm l)
    (docs : List (List γ)) (minAbs maxAbs : Nat) (stop : Option (List γ)) (cap : Option Nat)
    (tr : List (List γ)) :
    let F := fit order docs minAbs maxAbs stop cap
    transform F tr = tr.map fun d => F.vec.map fun w => d.count w := by
  intro F
  have hF := fit_consistent order horder docs minAbs maxAbs stop cap
  unfold transform
  rw [termAndDocFreqs_eq F hF]

example : transform (fit (γ := Nat) id [[1, 2, 2], [2, 3]] 0 2 none none) [[2, 9, 2, 1], []] =
    [[1, 2, 0], [0, 0, 0]] := by decide

/-- **each tf-idf entry is the count times the idf of its column over the transformed corpus**:
`n` = number of transformed documents, `df_j` = number of transformed documents containing
`vocabulary()[j]`; cells with count 0 are not stored and read as 0.  Any scalar type. -/
theorem tfidf_entry {α : Type} [Add α] [Mul α] [Div α] [OfNat α 0] [OfNat α 1] [NatCast α] [Transc α]
    (order : List (Entry γ) → List (Entry γ)) (horder : ∀ l, (order l).Perm l)
    (docs : List (List γ)) (minAbs maxAbs : Nat) (stop : Option (List γ)) (cap : Option Nat)
    (m : Method) (tr : List (List γ)) :
    let F := fit order docs minAbs maxAbs stop cap
    transformTfIdf (α := α) m F tr = tr.map fun d => F.vec.map fun w =>
      if d.count w = 0 then (0 : α)
      else (d.count w : α) * computeIdf m tr.length (docFreq tr w) := by
  intro F
  exact transformTfIdf_eq m F (fit_consistent order horder docs minAbs maxAbs stop cap) tr


/-- the feature cap does nothing when it is at least the number of admitted entries -/
theorem cap_ge_is_all (order : List (Entry γ) → List (Entry γ)) (horder : ∀ l, (order l).Perm l)
    (docs : List (List γ)) (minAbs maxAbs : Nat) (stop : Option (List γ)) (m : Nat)
    (hm : (fit order docs minAbs maxAbs stop none).vec.length ≤ m) :
    (fit order docs minAbs maxAbs stop (some m)).vec.Perm (fit order docs minAbs maxAbs stop none).vec := by
  obtain ⟨hnd, hlen, hsub, _⟩ := cap_is_top order horder docs minAbs maxAbs stop m
  apply (List.subperm_of_subset hnd hsub).perm_of_length_le
  rw [hlen]; omega

example : (fit (γ := Nat) id [[1, 2, 2], [2, 3], [3]] 0 3 none none).vec.length ≤ 3 := by decide

/-- **the column of a word does not depend on the iteration order of the hash map**: whatever column
`w` was given, that column of the count matrix lists the occurrences of `w` per document (this is
what the comparison "sort the words, permute the columns" relies on). -/
theorem column_of_word (order : List (Entry γ) → List (Entry γ)) (horder : ∀ l, (order l).Perm l)
    (docs : List (List γ)) (minAbs maxAbs : Nat) (stop : Option (List γ)) (cap : Option Nat)
    (tr : List (List γ)) (w : γ) :
    let F := fit order docs minAbs maxAbs stop cap
    w ∈ F.vec →
      (transform F tr).map (fun row => row[F.vec.idxOf w]?) = tr.map fun d => some (d.count w) := by
  intro F hw
  rw [count_entry order horder docs minAbs maxAbs stop cap tr]
  simp only [List.map_map]
  apply List.map_congr_left
  intro d _
  simp only [Function.comp_def, List.getElem?_map]
  rw [List.getElem?_eq_getElem (List.idxOf_lt_length_iff.mpr hw)]
  simp

example : 2 ∈ (fit (γ := Nat) id [[1, 2, 2], [2, 3]] 0 2 none none).vec := by decide

/-! ## the relative document-frequency window and the parameter guard -/

/-- **the guard of `check_ref`**: the settings pass iff `1 ≤ nmin ≤ nmax` and `0 ≤ lo ≤ hi ≤ 1`
(over an ordered field, i.e. NaN aside). -/
theorem check_params_guard {α : Type} [Field α] [LinearOrder α] [IsStrictOrderedRing α]
    (nmin nmax : Nat) (lo hi : α) :
    checkParamsG nmin nmax lo hi = none ↔
      1 ≤ nmin ∧ nmin ≤ nmax ∧ 0 ≤ lo ∧ lo ≤ hi ∧ hi ≤ 1 := by
  unfold checkParamsG
  constructor
  · intro h
    split at h
    · cases h
    · split at h
      · cases h
      · split at h
        · cases h
        · split at h
          · cases h
          · rename_i h1 h2 h3 h4
            simp only [not_or, not_lt] at h1 h3 h4
            refine ⟨by omega, by omega, h3.1, h4, h3.2.2.2⟩
  · rintro ⟨h1, h2, h3, h4, h5⟩
    have a1 : ¬ (nmin = 0 ∨ nmax = 0) := by omega
    have a2 : ¬ nmin > nmax := by omega
    have a3 : ¬ (lo < 0 ∨ hi < 0 ∨ lo > 1 ∨ hi > 1) := by
      simp only [not_or, not_lt]
      exact ⟨h3, le_trans h3 h4, le_trans h4 h5, h5⟩
    have a4 : ¬ hi < lo := not_lt.mpr h4
    simp only [a1, a2, a3, a4, if_false]

example : (1 : Nat) ≤ 1 ∧ 1 ≤ 2 ∧ (0 : ℚ) ≤ 1 / 4 ∧ (1 / 4 : ℚ) ≤ 3 / 4 ∧ (3 / 4 : ℚ) ≤ 1 := by norm_num

/-- **the absolute bounds are the documented relative window**: in exact arithmetic
`ceil(lo·n) ≤ df ≤ floor(hi·n)` holds iff `lo ≤ df/n ≤ hi` (`absBoundsWith` is the formula the
driver runs on `Float32`; here it is instantiated with exact ceiling / floor). -/
theorem window_is_relative {α : Type} [Field α] [LinearOrder α] [IsStrictOrderedRing α] [FloorSemiring α]
    (lo hi : α) (n df : Nat) (hn : 0 < n) (hhi : 0 ≤ hi) :
    let b := absBoundsWith (Nat.cast : Nat → α) Nat.ceil Nat.floor lo hi n
    (b.1 ≤ df ∧ df ≤ b.2) ↔ (lo ≤ (df : α) / n ∧ (df : α) / n ≤ hi) := by
  intro b
  have hn' : (0 : α) < n := by exact_mod_cast hn
  simp only [b, absBoundsWith]
  rw [Nat.ceil_le, Nat.le_floor_iff (mul_nonneg hhi hn'.le), le_div_iff₀ hn', div_le_iff₀ hn']

example : (0 : Nat) < 3 ∧ (0 : ℚ) ≤ 3 / 4 := by norm_num
example := window_is_relative (α := ℚ) (1 / 2) (3 / 4) 3 2 (by norm_num) (by norm_num)

/-- **the vocabulary in terms of the relative settings** (no cap, exact arithmetic): an entry is
listed iff it occurs in the corpus, its relative document frequency `df/n` lies in `[lo, hi]`, and it
is no stop entry. -/
theorem vocab_eq_admitted_relative {α : Type} [Field α] [LinearOrder α] [IsStrictOrderedRing α]
    [FloorSemiring α]
    (order : List (Entry γ) → List (Entry γ)) (horder : ∀ l, (order l).Perm l)
    (docs : List (List γ)) (lo hi : α) (hhi : 0 ≤ hi) (stop : Option (List γ)) :
    let b := absBoundsWith (Nat.cast : Nat → α) Nat.ceil Nat.floor lo hi docs.length
    ∀ g, g ∈ (fit order docs b.1 b.2 stop none).vec ↔
      (∃ d ∈ docs, g ∈ d) ∧ lo ≤ (docFreq docs g : α) / docs.length ∧
        (docFreq docs g : α) / docs.length ≤ hi ∧ ∀ s, stop = some s → g ∉ s := by
  intro b g
  rw [(vocab_eq_admitted order horder docs b.1 b.2 stop).2 g]
  constructor
  · rintro ⟨⟨d, hd, hg⟩, h1, h2, h3⟩
    have hn : 0 < docs.length := List.length_pos_of_mem hd
    have := (window_is_relative lo hi docs.length (docFreq docs g) hn hhi).mp ⟨h1, h2⟩
    exact ⟨⟨d, hd, hg⟩, this.1, this.2, h3⟩
  · rintro ⟨⟨d, hd, hg⟩, h1, h2, h3⟩
    have hn : 0 < docs.length := List.length_pos_of_mem hd
    have := (window_is_relative lo hi docs.length (docFreq docs g) hn hhi).mpr ⟨h1, h2⟩
    exact ⟨⟨d, hd, hg⟩, this.1, this.2, h3⟩

example := vocab_eq_admitted_relative (γ := Nat) (α := ℚ) id (fun _ => List.Perm.refl _)
  [[1, 2, 2], [2, 3], [2]] (1 / 2) 1 (by norm_num) (some [7])

end

/-! ## any consistent vectoriser (fitted or built from a user vocabulary) -/

section
variable {γ : Type} [DecidableEq γ]

/-- **fixed vocabulary**: `fit_vocabulary(words)` lists exactly the given words, each once,
and its state is consistent — so `count_entry_of_consistent` / `tfidf_entry_of_consistent` apply. -/
theorem fixed_vocabulary (order : List (Entry γ) → List (Entry γ)) (horder : ∀ l, (order l).Perm l)
    (words : List γ) :
    Consistent (fitVocabulary order words) ∧ ∀ g, g ∈ (fitVocabulary order words).vec ↔ g ∈ words := by
  obtain ⟨hnd, hmem⟩ := foldl_insertWord words ([] : List (Entry γ)) (by simp [keys])
  refine ⟨hashmapToVocabulary_consistent order _ (horder _) hnd, ?_⟩
  intro g
  have : g ∈ (fitVocabulary order words).vec ↔ g ∈ keys (words.foldl insertWord []) :=
    ((horder _).map _).mem_iff
  rw [this, hmem]; simp [keys]

example : (fitVocabulary (γ := Nat) id [5, 3, 5, 7]).vec = [5, 3, 7] := by decide

/-- count matrix of any consistent vectoriser -/
theorem count_entry_of_consistent (F : Fitted γ) (hF : Consistent F) (tr : List (List γ)) :
    transform F tr = tr.map fun d => F.vec.map fun w => d.count w := by
  unfold transform; rw [termAndDocFreqs_eq F hF]

/-- tf-idf matrix of any consistent vectoriser -/
theorem tfidf_entry_of_consistent {α : Type} [Add α] [Mul α] [Div α] [OfNat α 0] [OfNat α 1] [NatCast α]
    [Transc α] (m : Method) (F : Fitted γ) (hF : Consistent F) (tr : List (List γ)) :
    transformTfIdf (α := α) m F tr = tr.map fun d => F.vec.map fun w =>
      if d.count w = 0 then (0 : α)
      else (d.count w : α) * computeIdf m tr.length (docFreq tr w) :=
  transformTfIdf_eq m F hF tr

/-- **out-of-vocabulary entries contribute nothing**: inserting an entry that is not in the
vocabulary anywhere in a document leaves its row unchanged. -/
theorem oov_contributes_zero (F : Fitted γ) (hF : Consistent F) (pre post : List γ) (g : γ)
    (hg : g ∉ F.vec) : analyzeDocument F (pre ++ g :: post) = analyzeDocument F (pre ++ post) := by
  rw [analyzeDocument_eq F hF, analyzeDocument_eq F hF]
  apply List.map_congr_left
  intro w hw
  have : ¬ g = w := fun h => hg (h ▸ hw)
  simp [List.count_append, List.count_cons, this]

example : analyzeDocument (fitVocabulary (γ := Nat) id [5, 3]) [5, 9, 3, 5] = [2, 1] := by decide

/-- the count matrix has one row per document and one column per vocabulary entry -/
theorem matrix_shape (F : Fitted γ) (hF : Consistent F) (tr : List (List γ)) :
    (transform F tr).length = tr.length ∧ ∀ row ∈ transform F tr, row.length = F.vec.length := by
  rw [count_entry_of_consistent F hF tr]
  constructor
  · simp
  · intro row hrow
    obtain ⟨d, _, rfl⟩ := List.mem_map.mp hrow
    simp

/-- **the sparse row stores exactly the non-zero counts**: `(j, c)` is a stored cell of the `CsVec`
that `analyze_document` returns iff `c > 0` is the number of occurrences of `vocabulary()[j]`. -/
theorem sparse_cells_are_nonzero_counts (F : Fitted γ) (hF : Consistent F) (grams : List γ) (j c : Nat) :
    (j, c) ∈ sparseRow (analyzeDocument F grams) ↔
      0 < c ∧ ∃ h : j < F.vec.length, grams.count F.vec[j] = c := by
  rw [mem_sparseRow, analyzeDocument_eq F hF, getElem?_map_count]

example : sparseRow (analyzeDocument (fitVocabulary (γ := Nat) id [5, 3, 8]) [5, 9, 8, 5]) = [(0, 2), (2, 1)] := by
  decide

end

/-! ## the sparse row, the string transformation -/

/-- **the `CsVec` built from a dense row**: its cells are the non-zero entries of the row, the
columns are strictly increasing (the condition `CsVec::append` needs), and reading a cell back
(`get`) gives the stored count or `None` for a zero / out-of-range cell. -/
theorem sparse_row_spec (row : List Nat) :
    (∀ j c, (j, c) ∈ sparseRow row ↔ 0 < c ∧ row[j]? = some c) ∧
    ((sparseRow row).map (·.1)).Pairwise (· < ·) ∧
    (∀ j, sparseGet (sparseRow row) j = if 0 < row[j]?.getD 0 then some (row[j]?.getD 0) else none) := by
  have hmem := mem_sparseRow row
  have hsorted := sparseRow_sorted row
  refine ⟨hmem, hsorted, ?_⟩
  intro j
  unfold sparseGet
  cases hr : row[j]? with
  | none =>
    have : (sparseRow row).find? (fun p => p.1 == j) = none := by
      rw [List.find?_eq_none]
      intro p hp hc
      obtain ⟨i, c⟩ := p
      have := (hmem i c).mp hp
      simp at hc; subst hc
      rw [hr] at this; exact absurd this.2 (by simp)
    simp [this]
  | some c =>
    by_cases hc : 0 < c
    · have hin : (j, c) ∈ sparseRow row := (hmem j c).mpr ⟨hc, hr⟩
      have := find_of_mem_sorted _ hsorted j c hin
      simp [this, hc]
    · have : (sparseRow row).find? (fun p => p.1 == j) = none := by
        rw [List.find?_eq_none]
        intro p hp hq
        obtain ⟨i, c'⟩ := p
        have := (hmem i c').mp hp
        simp at hq; subst hq
        rw [hr] at this
        have h3 := Option.some.inj this.2
        omega
      simp [this, hc]

example : sparseRow [0, 2, 0, 1] = [(1, 2), (3, 1)] := by decide

/-- `CsMat::nnz` of the count matrix is the number of non-zero cells -/
theorem nnz_counts_nonzero (rows : List (List Nat)) :
    nnz rows = (rows.map fun r => r.countP fun c => decide (0 < c)).sum := by
  unfold nnz
  rw [List.sum_eq_foldl]
  congr 1
  exact List.map_congr_left fun r _ => sparseRow_length r

example : nnz [[0, 2, 0, 1], [], [0, 0, 0, 0]] = 2 := by decide

/-- **`transform_string`**: NFKD is applied iff `normalize`, lower-casing iff `convert_to_lowercase`,
normalisation first. -/
theorem transform_string_spec {σ : Type} (nfkd lower : σ → σ) (s : σ) :
    transformString nfkd lower true true s = lower (nfkd s) ∧
    transformString nfkd lower true false s = nfkd s ∧
    transformString nfkd lower false true s = lower s ∧
    transformString nfkd lower false false s = s := ⟨rfl, rfl, rfl, rfl⟩

/-- **the two switches are independent**: with `normalize` off the result does not depend on the
normalisation map at all, with lower-casing off not on the case map. -/
theorem transform_string_independent {σ : Type} (nfkd nfkd' lower lower' : σ → σ) (b : Bool) (s : σ) :
    transformString nfkd lower false b s = transformString nfkd' lower false b s ∧
    transformString nfkd lower b false s = transformString nfkd lower' b false s := by
  cases b <;> exact ⟨rfl, rfl⟩

example : transformString (fun s : Nat => s + 100) (fun s => s % 10) false true 57 = 7 := by decide

end LinfaSpec.Props.C17
