/-
C04 — invalid hyperparameters are rejected with an error before any training.

Every `theorem` below is a proof obligation of the check.  The per-builder `check` functions are NOT written
here: they are regenerated from the Rust sources (`tools/params2lean.py` -> `LinfaSpec/Gen/C04Params.lean`)
before every build, so a changed guard in linfa changes the definition these theorems are about and the
corresponding `check_ok_iff` stops compiling.

Statement (properties.jsonl): a parameter set with finite values passes checking iff every value lies in its
documented range (`Ranges.<B>.InRange`, hand-transcribed in `Model/ParamRanges.lean` with the source cited);
checking by value and by reference agree and leave the parameters unchanged; `fit`/`fit_with`/`transform`
on the unchecked builder return exactly the checking error, and a valid builder behaves like its checked form.
-/
import LinfaSpec.Proofs.ParamGuard
import LinfaSpec.Model.ParamRanges
import LinfaSpec.Gen.C04Params
import Mathlib.Tactic.NormNum

set_option linter.unusedSimpArgs false
set_option linter.unusedVariables false

namespace LinfaSpec.Props.C04
open LinfaSpec LinfaSpec.ParamGuard

/-- evaluates a concrete parameter point (non-vacuity examples): unfold, then rational arithmetic -/
macro "c04_eval" b:ident : tactic => `(tactic|
  (simp [$(Lean.mkIdent (`LinfaSpec.Ranges ++ b.getId ++ `Finite)):ident, $(Lean.mkIdent (`LinfaSpec.Ranges ++ b.getId ++ `InRange)):ident,
         $(Lean.mkIdent (`LinfaSpec.Gen.C04 ++ b.getId ++ `check)):ident, $(Lean.mkIdent (`LinfaSpec.Gen.C04 ++ b.getId ++ `guards)):ident,
         Ranges.Platt.Finite, Ranges.Platt.InRange, Gen.C04.Platt.check, Gen.C04.Platt.guards,
         Ranges.pos, Ranges.nonneg, Ranges.unit01, XF.inClosed, XF.gt, XF.ge, XF.eps64, XF.Finite] <;> norm_num [XF.zero, XF.one]))

/-! ## Trait level (`src/param_guard.rs`), for every builder, error type and inner `fit` -/

/-- `check(self)` and `check_ref(&self)` give the same verdict, the same error, the same parameters. -/
theorem check_eq_check_ref {P E : Type} (chk : P → Except E Unit) (p : P) :
    checkVal chk p = checkRef chk p := by
  unfold checkVal checkRef; cases chk p <;> rfl

/-- checking leaves the parameters unchanged: what comes out of `check` / `check_ref` is the builder's content. -/
theorem check_preserves_params {P E : Type} (chk : P → Except E Unit) (p q : P) :
    (checkVal chk p = .ok q → q = p) ∧ (checkRef chk p = .ok q → q = p) := by
  unfold checkVal checkRef
  cases chk p <;> simp <;> exact fun h => h.symm

/-- the verdict of `check_ref` is the verdict of the guard chain -/
theorem checkRef_ok_iff {P E : Type} (chk : P → Except E Unit) (p : P) :
    (∃ q, checkRef chk p = .ok q) ↔ chk p = .ok () := by
  unfold checkRef; cases chk p <;> simp

/-- blanket `Fit`: on an invalid builder exactly the checking error (converted by `From`) comes back and the
inner `fit` is never reached (the result does not depend on `fit`); on a valid builder the result is the
checked form's. -/
theorem fit_on_unchecked {P E E' M D : Type} (chk : P → Except E Unit) (conv : E → E') (fit : P → D → Except E' M)
    (p : P) (d : D) :
    (∀ e, chk p = .error e → fitUnchecked chk conv fit p d = .error (conv e)) ∧
    (chk p = .ok () → fitUnchecked chk conv fit p d = fit p d) := by
  unfold fitUnchecked checkRef
  cases chk p <;> simp

/-- blanket `FitWith` -/
theorem fit_with_on_unchecked {P E E' M M0 D : Type} (chk : P → Except E Unit) (conv : E → E')
    (fitWith : P → M0 → D → Except E' M) (p : P) (m : M0) (d : D) :
    (∀ e, chk p = .error e → fitWithUnchecked chk conv fitWith p m d = .error (conv e)) ∧
    (chk p = .ok () → fitWithUnchecked chk conv fitWith p m d = fitWith p m d) := by
  unfold fitWithUnchecked checkRef
  cases chk p <;> simp

/-- blanket `Transformer` (`TransformGuard`) -/
theorem transform_on_unchecked {P E T D : Type} (chk : P → Except E Unit) (tr : P → D → T) (p : P) (x : D) :
    (∀ e, chk p = .error e → transformUnchecked chk tr p x = .error e) ∧
    (chk p = .ok () → transformUnchecked chk tr p x = .ok (tr p x)) := by
  unfold transformUnchecked checkRef
  cases chk p <;> simp

/-- hand-written `TSneParams::transform` (`Array2` and `DatasetBase` forms): `self.check_ref()?.transform(x)` -/
theorem try_transform_on_unchecked {P E E' T D : Type} (chk : P → Except E Unit) (conv : E → E')
    (tr : P → D → Except E' T) (p : P) (x : D) :
    (∀ e, chk p = .error e → tryTransformUnchecked chk conv tr p x = .error (conv e)) ∧
    (chk p = .ok () → tryTransformUnchecked chk conv tr p x = tr p x) := by
  unfold tryTransformUnchecked checkRef
  cases chk p <;> simp

/-- hand-written `CountVectorizerParams::{fit, fit_files, fit_vocabulary}`: `self.check_ref().and_then(|p| p.fit(x))` -/
theorem and_then_on_unchecked {P E M D : Type} (chk : P → Except E Unit) (fit : P → D → Except E M) (p : P) (d : D) :
    (∀ e, chk p = .error e → andThenUnchecked chk fit p d = .error e) ∧
    (chk p = .ok () → andThenUnchecked chk fit p d = fit p d) := by
  unfold andThenUnchecked checkRef
  cases chk p <;> simp [Except.bind]

/-- `TfIdfVectorizer::{fit, fit_files, fit_vocabulary}` (an unchecked count-vectoriser builder inside a wrapper):
the checking error comes back unchanged, a valid builder gives the wrapped result of the checked form -/
theorem wrap_on_unchecked {P E M M' D : Type} (chk : P → Except E Unit) (fit : P → D → Except E M) (wrap : M → M')
    (p : P) (d : D) :
    (∀ e, chk p = .error e → wrapUnchecked chk fit wrap p d = .error e) ∧
    (chk p = .ok () → wrapUnchecked chk fit wrap p d = (fit p d).map wrap) := by
  unfold wrapUnchecked andThenUnchecked checkRef
  cases chk p <;> simp [Except.bind]
  cases fit p d <;> rfl

example : fitUnchecked (fun n : Nat => if n = 0 then .error "zero" else .ok ()) id
    (fun n (_ : Unit) => (.ok (n + 1) : Except String Nat)) 0 () = .error "zero" := rfl
example : andThenUnchecked (fun n : Nat => if n = 0 then .error "zero" else .ok ())
    (fun n (_ : Unit) => (.ok (n + 1) : Except String Nat)) 0 () = .error "zero" := rfl
example : wrapUnchecked (fun n : Nat => if n = 0 then .error "zero" else .ok ())
    (fun n (_ : Unit) => (.ok (n + 1) : Except String Nat)) (fun m => (m, m)) 4 () = .ok (5, 5) := rfl
example : tryTransformUnchecked (fun n : Nat => if n = 0 then .error "zero" else .ok ()) String.length
    (fun n (_ : Unit) => (.ok (n + 1) : Except Nat Nat)) 0 () = .error 4 := rfl
example : fitUnchecked (fun n : Nat => if n = 0 then .error "zero" else .ok ()) id
    (fun n (_ : Unit) => (.ok (n + 1) : Except String Nat)) 4 () = .ok 5 := rfl

/-! ## The guard chain -/

/-- a chain accepts iff none of its guards fires -/
theorem chain_ok_iff (gs : List (Option String)) : firstErr gs = .ok () ↔ ∀ g ∈ gs, g = none :=
  firstErr_ok_iff gs

/-- `check_error_is_first`, for every builder at once (every generated `check` is `firstErr (guards p)`):
the error returned is the tag of the first guard, in source order, that fires. -/
theorem check_error_is_first (gs : List (Option String)) (t : String) :
    firstErr gs = .error t ↔ ∃ pre post, gs = pre ++ some t :: post ∧ ∀ g ∈ pre, g = none :=
  firstErr_error_iff gs t

example : firstErr [none, some "B", some "C"] = .error "B" := rfl

/-- order-free reading (the statement does not say WHICH error a doubly-invalid builder gets): the error returned
is the tag of some guard that fires, and a chain in which a guard fires does return an error -/
theorem check_error_is_firing_guard (gs : List (Option String)) :
    (∀ t, firstErr gs = .error t → some t ∈ gs) ∧ ((∃ t, some t ∈ gs) → ∃ u, firstErr gs = .error u) :=
  ⟨firstErr_error_mem gs, fun ⟨t, h⟩ => firstErr_error_of_mem gs t h⟩

example : some "C" ∈ [none, some "B", some "C"] ∧ firstErr [none, some "B", some "C"] ≠ .error "C" := by decide

/-! ## The setters of `SvmParams` (call chains `Svm::params().s1(..).s2(..)…`) -/

/-- after ANY chain of setter calls (as modelled by `svmRun`, which the driver runs on every `via=setters` request and
whose resulting fields the harness reads back from the real builder) exactly one of `c` / `nu` is set.  (Consequence
for the code, NOT modelled here: the arm `_ => panic!("Set either C value or Nu value")` of the `fit`s needs both or
neither to be set.) -/
theorem svm_setters_exactly_one {α : Type} (k : SvmConsts α) (ops : List (SvmSet α)) :
    (svmRun k ops).c.isSome = !(svmRun k ops).nu.isSome :=
  svmFold_exactly_one k ops (svmNew k) rfl

/-- a weight setter overrides whatever the chain before it left in `c` and `nu` (a stale, possibly invalid value
never survives `pos_neg_weights / nu_weight / c_eps / nu_eps / c_svr / nu_svr`) -/
theorem svm_weight_setter_overrides {α : Type} (k : SvmConsts α) (s s' : SvmState α) (w : SvmSet α)
    (hw : w.isWeight = true) :
    (w.apply k s).c = (w.apply k s').c ∧ (w.apply k s).nu = (w.apply k s').nu := by
  cases w <;> simp_all [SvmSet.apply, SvmSet.isWeight]

/-- `.eps(x)` leaves the weights alone -/
theorem svm_eps_keeps_weights {α : Type} (k : SvmConsts α) (s : SvmState α) (x : α) :
    ((SvmSet.eps x).apply k s).c = s.c ∧ ((SvmSet.eps x).apply k s).nu = s.nu ∧ ((SvmSet.eps x).apply k s).eps = x := by
  simp [SvmSet.apply]

example : (svmRun (⟨1, 10, 7⟩ : SvmConsts Nat) [.nuWeight 0, .cSvr 3 none, .eps 2]).c = some (3, 10) ∧
    (svmRun (⟨1, 10, 7⟩ : SvmConsts Nat) [.nuWeight 0, .cSvr 3 none, .eps 2]).nu = none ∧
    (svmRun (⟨1, 10, 7⟩ : SvmConsts Nat) [.nuWeight 0, .cSvr 3 none, .eps 2]).eps = 2 := by decide

/-! ## Per builder: a finite parameter set passes the (translated) check iff it is in the documented range -/

/-- Platt scaling (`src/composing/platt_scaling.rs`) -/
theorem Platt.check_ok_iff (p : Gen.C04.Platt.Params) (h : Ranges.Platt.Finite p) :
    Gen.C04.Platt.check p = .ok () ↔ Ranges.Platt.InRange p := by
  obtain ⟨maxiter, minstep, sigma⟩ := p
  simp only [Ranges.Platt.Finite, XF.finite_iff] at h
  obtain ⟨⟨q0, rfl⟩, ⟨q1, rfl⟩⟩ := h
  simp [Gen.C04.Platt.check, Gen.C04.Platt.guards, Ranges.Platt.InRange, Ranges.pos, Ranges.nonneg, Ranges.unit01, XF.inClosed, XF.gt, XF.ge, XF.eps64]
  try grind
example : Ranges.Platt.Finite { maxiter := 100, minstep := .fin (1/10), sigma := .fin 0 } ∧ Ranges.Platt.InRange { maxiter := 100, minstep := .fin (1/10), sigma := .fin 0 } ∧ Gen.C04.Platt.check { maxiter := 100, minstep := .fin (1/10), sigma := .fin 0 } = .ok () := by c04_eval Platt
example : Ranges.Platt.Finite { maxiter := 0, minstep := .fin 1, sigma := .fin 1 } ∧ ¬ Ranges.Platt.InRange { maxiter := 0, minstep := .fin 1, sigma := .fin 1 } := by c04_eval Platt

/-- K-means -/
theorem KMeans.check_ok_iff (p : Gen.C04.KMeans.Params) (h : Ranges.KMeans.Finite p) :
    Gen.C04.KMeans.check p = .ok () ↔ Ranges.KMeans.InRange p := by
  obtain ⟨n_clusters, n_runs, tolerance, max_n_iterations⟩ := p
  simp only [Ranges.KMeans.Finite, XF.finite_iff] at h
  obtain ⟨q0, rfl⟩ := h
  simp [Gen.C04.KMeans.check, Gen.C04.KMeans.guards, Ranges.KMeans.InRange, Ranges.pos, Ranges.nonneg, Ranges.unit01, XF.inClosed, XF.gt, XF.ge, XF.eps64]
  try grind
example : Ranges.KMeans.Finite { n_clusters := 3, n_runs := 10, tolerance := .fin (1/10000), max_n_iterations := 300 } ∧ Ranges.KMeans.InRange { n_clusters := 3, n_runs := 10, tolerance := .fin (1/10000), max_n_iterations := 300 } ∧ Gen.C04.KMeans.check { n_clusters := 3, n_runs := 10, tolerance := .fin (1/10000), max_n_iterations := 300 } = .ok () := by c04_eval KMeans
example : Ranges.KMeans.Finite { n_clusters := 3, n_runs := 10, tolerance := .fin 0, max_n_iterations := 300 } ∧ ¬ Ranges.KMeans.InRange { n_clusters := 3, n_runs := 10, tolerance := .fin 0, max_n_iterations := 300 } := by c04_eval KMeans

/-- DBSCAN -/
theorem Dbscan.check_ok_iff (p : Gen.C04.Dbscan.Params) (h : Ranges.Dbscan.Finite p) :
    Gen.C04.Dbscan.check p = .ok () ↔ Ranges.Dbscan.InRange p := by
  obtain ⟨min_points, tolerance⟩ := p
  simp only [Ranges.Dbscan.Finite, XF.finite_iff] at h
  obtain ⟨q0, rfl⟩ := h
  simp [Gen.C04.Dbscan.check, Gen.C04.Dbscan.guards, Ranges.Dbscan.InRange, Ranges.pos, Ranges.nonneg, Ranges.unit01, XF.inClosed, XF.gt, XF.ge, XF.eps64]
  try grind
example : Ranges.Dbscan.Finite { min_points := 2, tolerance := .fin (1/2) } ∧ Ranges.Dbscan.InRange { min_points := 2, tolerance := .fin (1/2) } ∧ Gen.C04.Dbscan.check { min_points := 2, tolerance := .fin (1/2) } = .ok () := by c04_eval Dbscan
example : Ranges.Dbscan.Finite { min_points := 1, tolerance := .fin (1/2) } ∧ ¬ Ranges.Dbscan.InRange { min_points := 1, tolerance := .fin (1/2) } := by c04_eval Dbscan

/-- approximate DBSCAN (source present, module not compiled in this tree) -/
theorem AppxDbscan.check_ok_iff (p : Gen.C04.AppxDbscan.Params) (h : Ranges.AppxDbscan.Finite p) :
    Gen.C04.AppxDbscan.check p = .ok () ↔ Ranges.AppxDbscan.InRange p := by
  obtain ⟨min_points, tolerance, slack⟩ := p
  simp only [Ranges.AppxDbscan.Finite, XF.finite_iff] at h
  obtain ⟨⟨q0, rfl⟩, ⟨q1, rfl⟩⟩ := h
  simp [Gen.C04.AppxDbscan.check, Gen.C04.AppxDbscan.guards, Ranges.AppxDbscan.InRange, Ranges.pos, Ranges.nonneg, Ranges.unit01, XF.inClosed, XF.gt, XF.ge, XF.eps64]
  try grind
example : Ranges.AppxDbscan.Finite { min_points := 2, tolerance := .fin (1/2), slack := .fin (1/100) } ∧ Ranges.AppxDbscan.InRange { min_points := 2, tolerance := .fin (1/2), slack := .fin (1/100) } ∧ Gen.C04.AppxDbscan.check { min_points := 2, tolerance := .fin (1/2), slack := .fin (1/100) } = .ok () := by c04_eval AppxDbscan
example : Ranges.AppxDbscan.Finite { min_points := 2, tolerance := .fin (1/2), slack := .fin 0 } ∧ ¬ Ranges.AppxDbscan.InRange { min_points := 2, tolerance := .fin (1/2), slack := .fin 0 } := by c04_eval AppxDbscan

/-- OPTICS -/
theorem Optics.check_ok_iff (p : Gen.C04.Optics.Params) (h : Ranges.Optics.Finite p) :
    Gen.C04.Optics.check p = .ok () ↔ Ranges.Optics.InRange p := by
  obtain ⟨tolerance, min_points⟩ := p
  simp only [Ranges.Optics.Finite, XF.finite_iff] at h
  obtain ⟨q0, rfl⟩ := h
  simp [Gen.C04.Optics.check, Gen.C04.Optics.guards, Ranges.Optics.InRange, Ranges.pos, Ranges.nonneg, Ranges.unit01, XF.inClosed, XF.gt, XF.ge, XF.eps64]
  try grind
example : Ranges.Optics.Finite { tolerance := .fin 3, min_points := 2 } ∧ Ranges.Optics.InRange { tolerance := .fin 3, min_points := 2 } ∧ Gen.C04.Optics.check { tolerance := .fin 3, min_points := 2 } = .ok () := by c04_eval Optics
example : Ranges.Optics.Finite { tolerance := .fin (-1), min_points := 2 } ∧ ¬ Ranges.Optics.InRange { tolerance := .fin (-1), min_points := 2 } := by c04_eval Optics

/-- Gaussian mixture -/
theorem Gmm.check_ok_iff (p : Gen.C04.Gmm.Params) (h : Ranges.Gmm.Finite p) :
    Gen.C04.Gmm.check p = .ok () ↔ Ranges.Gmm.InRange p := by
  obtain ⟨n_clusters, tolerance, reg_covar, n_runs, max_n_iter⟩ := p
  simp only [Ranges.Gmm.Finite, XF.finite_iff] at h
  obtain ⟨⟨q0, rfl⟩, ⟨q1, rfl⟩⟩ := h
  simp [Gen.C04.Gmm.check, Gen.C04.Gmm.guards, Ranges.Gmm.InRange, Ranges.pos, Ranges.nonneg, Ranges.unit01, XF.inClosed, XF.gt, XF.ge, XF.eps64]
  try grind
example : Ranges.Gmm.Finite { n_clusters := 2, tolerance := .fin (1/1000), reg_covar := .fin 0, n_runs := 1, max_n_iter := 100 } ∧ Ranges.Gmm.InRange { n_clusters := 2, tolerance := .fin (1/1000), reg_covar := .fin 0, n_runs := 1, max_n_iter := 100 } ∧ Gen.C04.Gmm.check { n_clusters := 2, tolerance := .fin (1/1000), reg_covar := .fin 0, n_runs := 1, max_n_iter := 100 } = .ok () := by c04_eval Gmm
example : Ranges.Gmm.Finite { n_clusters := 2, tolerance := .fin (1/1000), reg_covar := .fin (-1/1000), n_runs := 1, max_n_iter := 100 } ∧ ¬ Ranges.Gmm.InRange { n_clusters := 2, tolerance := .fin (1/1000), reg_covar := .fin (-1/1000), n_runs := 1, max_n_iter := 100 } := by c04_eval Gmm

/-- elastic net, single- and multi-task (one guard, const generic) -/
theorem ElasticNet.check_ok_iff (p : Gen.C04.ElasticNet.Params) (h : Ranges.ElasticNet.Finite p) :
    Gen.C04.ElasticNet.check p = .ok () ↔ Ranges.ElasticNet.InRange p := by
  obtain ⟨penalty, l1_ratio, tolerance⟩ := p
  simp only [Ranges.ElasticNet.Finite, XF.finite_iff] at h
  obtain ⟨⟨q0, rfl⟩, ⟨q1, rfl⟩, ⟨q2, rfl⟩⟩ := h
  simp [Gen.C04.ElasticNet.check, Gen.C04.ElasticNet.guards, Ranges.ElasticNet.InRange, Ranges.pos, Ranges.nonneg, Ranges.unit01, XF.inClosed, XF.gt, XF.ge, XF.eps64]
  try grind
example : Ranges.ElasticNet.Finite { penalty := .fin (1/10), l1_ratio := .fin 1, tolerance := .fin 0 } ∧ Ranges.ElasticNet.InRange { penalty := .fin (1/10), l1_ratio := .fin 1, tolerance := .fin 0 } ∧ Gen.C04.ElasticNet.check { penalty := .fin (1/10), l1_ratio := .fin 1, tolerance := .fin 0 } = .ok () := by c04_eval ElasticNet
example : Ranges.ElasticNet.Finite { penalty := .fin (1/10), l1_ratio := .fin (3/2), tolerance := .fin 0 } ∧ ¬ Ranges.ElasticNet.InRange { penalty := .fin (1/10), l1_ratio := .fin (3/2), tolerance := .fin 0 } := by c04_eval ElasticNet

/- FULL statement for the elastic net (false of model and code, finding C04-elasticnet-max-iterations-zero, open):
     Finite p → (check p = .ok () ↔ Ranges.ElasticNet.DocRange p max_iterations)
   `ElasticNet.check_ok_iff` above is the part that holds (the three guarded fields); what is missing is a guard
   on `max_iterations` (documented `[1, inf)`): the guard chain cannot depend on a field it does not read. -/
/-- witness of the failure: finite parameters outside the documented range that pass the translated check -/
theorem ElasticNet.max_iterations_unguarded :
    ∃ (p : Gen.C04.ElasticNet.Params) (mi : Nat), Ranges.ElasticNet.Finite p ∧
      Gen.C04.ElasticNet.check p = .ok () ∧ ¬ Ranges.ElasticNet.DocRange p mi :=
  ⟨{ penalty := .fin 1, l1_ratio := .fin (1/2), tolerance := .fin (1/10000) }, 0, by
    simp [Ranges.ElasticNet.Finite, Ranges.ElasticNet.DocRange, Gen.C04.ElasticNet.check, Gen.C04.ElasticNet.guards,
      XF.inClosed, XF.Finite] <;> norm_num [XF.zero, XF.one]⟩
/-- with the extra hypothesis that excludes the defect the full documented range is characterised -/
theorem ElasticNet.check_ok_iff_doc_partial (p : Gen.C04.ElasticNet.Params) (h : Ranges.ElasticNet.Finite p)
    (mi : Nat) (hmi : 1 ≤ mi) :
    Gen.C04.ElasticNet.check p = .ok () ↔ Ranges.ElasticNet.DocRange p mi := by
  rw [ElasticNet.check_ok_iff p h]; simp [Ranges.ElasticNet.DocRange, hmi]
example : Ranges.ElasticNet.DocRange { penalty := .fin 1, l1_ratio := .fin (1/2), tolerance := .fin (1/10000) } 1000 := by
  simp [Ranges.ElasticNet.DocRange, Ranges.ElasticNet.InRange]; norm_num

/-- Tweedie GLM -/
theorem Tweedie.check_ok_iff (p : Gen.C04.Tweedie.Params) (h : Ranges.Tweedie.Finite p) :
    Gen.C04.Tweedie.check p = .ok () ↔ Ranges.Tweedie.InRange p := by
  obtain ⟨alpha, power⟩ := p
  simp only [Ranges.Tweedie.Finite, XF.finite_iff] at h
  obtain ⟨⟨q0, rfl⟩, ⟨q1, rfl⟩⟩ := h
  simp [Gen.C04.Tweedie.check, Gen.C04.Tweedie.guards, Ranges.Tweedie.InRange, Ranges.pos, Ranges.nonneg, Ranges.unit01, XF.inClosed, XF.gt, XF.ge, XF.eps64]
  try grind
example : Ranges.Tweedie.Finite { alpha := .fin 0, power := .fin 1 } ∧ Ranges.Tweedie.InRange { alpha := .fin 0, power := .fin 1 } ∧ Gen.C04.Tweedie.check { alpha := .fin 0, power := .fin 1 } = .ok () := by c04_eval Tweedie
example : Ranges.Tweedie.Finite { alpha := .fin 0, power := .fin (1/2) } ∧ ¬ Ranges.Tweedie.InRange { alpha := .fin 0, power := .fin (1/2) } := by c04_eval Tweedie

/-- decision tree, for both float carriers (`F::epsilon()` is 2^-52 at f64 and 2^-23 at f32) -/
theorem DecisionTree.check_ok_iff (p : Gen.C04.DecisionTree.Params) (h : Ranges.DecisionTree.Finite p) :
    Gen.C04.DecisionTree.check p = .ok () ↔ Ranges.DecisionTree.InRange p := by
  obtain ⟨min_impurity_decrease, carrier⟩ := p
  simp only [Ranges.DecisionTree.Finite, XF.finite_iff] at h
  obtain ⟨q0, rfl⟩ := h
  cases carrier <;>
    simp [Gen.C04.DecisionTree.check, Gen.C04.DecisionTree.guards, Ranges.DecisionTree.InRange, Ranges.DecisionTree.epsQ,
      XF.epsOf, XF.eps64, XF.eps32]
example : Ranges.DecisionTree.Finite { min_impurity_decrease := .fin (1/100000), carrier := .f64 } ∧ Ranges.DecisionTree.InRange { min_impurity_decrease := .fin (1/100000), carrier := .f64 } ∧ Gen.C04.DecisionTree.check { min_impurity_decrease := .fin (1/100000), carrier := .f64 } = .ok () := by
  simp [Ranges.DecisionTree.Finite, Ranges.DecisionTree.InRange, Ranges.DecisionTree.epsQ, Gen.C04.DecisionTree.check, Gen.C04.DecisionTree.guards, XF.epsOf, XF.eps64, XF.Finite] <;> norm_num
/-- the carrier matters: 1e-9-ish values pass at f64 and are rejected at f32 -/
example : Ranges.DecisionTree.InRange { min_impurity_decrease := .fin (1/1000000000), carrier := .f64 } ∧
    ¬ Ranges.DecisionTree.InRange { min_impurity_decrease := .fin (1/1000000000), carrier := .f32 } ∧
    Gen.C04.DecisionTree.check { min_impurity_decrease := .fin (1/1000000000), carrier := .f32 } ≠ .ok () := by
  simp [Ranges.DecisionTree.InRange, Ranges.DecisionTree.epsQ, Gen.C04.DecisionTree.check, Gen.C04.DecisionTree.guards, XF.epsOf, XF.eps32] <;> norm_num
example : Ranges.DecisionTree.Finite { min_impurity_decrease := .fin 0, carrier := .f64 } ∧ ¬ Ranges.DecisionTree.InRange { min_impurity_decrease := .fin 0, carrier := .f64 } := by
  simp [Ranges.DecisionTree.Finite, Ranges.DecisionTree.InRange, Ranges.DecisionTree.epsQ, XF.Finite]

/-- Gaussian naive Bayes -/
theorem GaussianNb.check_ok_iff (p : Gen.C04.GaussianNb.Params) (h : Ranges.GaussianNb.Finite p) :
    Gen.C04.GaussianNb.check p = .ok () ↔ Ranges.GaussianNb.InRange p := by
  obtain ⟨var_smoothing⟩ := p
  simp only [Ranges.GaussianNb.Finite, XF.finite_iff] at h
  obtain ⟨q0, rfl⟩ := h
  simp [Gen.C04.GaussianNb.check, Gen.C04.GaussianNb.guards, Ranges.GaussianNb.InRange, Ranges.pos, Ranges.nonneg, Ranges.unit01, XF.inClosed, XF.gt, XF.ge, XF.eps64]
  try grind
example : Ranges.GaussianNb.Finite { var_smoothing := .fin 0 } ∧ Ranges.GaussianNb.InRange { var_smoothing := .fin 0 } ∧ Gen.C04.GaussianNb.check { var_smoothing := .fin 0 } = .ok () := by c04_eval GaussianNb
example : Ranges.GaussianNb.Finite { var_smoothing := .fin (-1) } ∧ ¬ Ranges.GaussianNb.InRange { var_smoothing := .fin (-1) } := by c04_eval GaussianNb

/-- multinomial naive Bayes -/
theorem MultinomialNb.check_ok_iff (p : Gen.C04.MultinomialNb.Params) (h : Ranges.MultinomialNb.Finite p) :
    Gen.C04.MultinomialNb.check p = .ok () ↔ Ranges.MultinomialNb.InRange p := by
  obtain ⟨alpha⟩ := p
  simp only [Ranges.MultinomialNb.Finite, XF.finite_iff] at h
  obtain ⟨q0, rfl⟩ := h
  simp [Gen.C04.MultinomialNb.check, Gen.C04.MultinomialNb.guards, Ranges.MultinomialNb.InRange, Ranges.pos, Ranges.nonneg, Ranges.unit01, XF.inClosed, XF.gt, XF.ge, XF.eps64]
  try grind
example : Ranges.MultinomialNb.Finite { alpha := .fin 1 } ∧ Ranges.MultinomialNb.InRange { alpha := .fin 1 } ∧ Gen.C04.MultinomialNb.check { alpha := .fin 1 } = .ok () := by c04_eval MultinomialNb
example : Ranges.MultinomialNb.Finite { alpha := .fin (-1) } ∧ ¬ Ranges.MultinomialNb.InRange { alpha := .fin (-1) } := by c04_eval MultinomialNb

/-- FTRL -/
theorem Ftrl.check_ok_iff (p : Gen.C04.Ftrl.Params) (h : Ranges.Ftrl.Finite p) :
    Gen.C04.Ftrl.check p = .ok () ↔ Ranges.Ftrl.InRange p := by
  obtain ⟨l1_ratio, l2_ratio, alpha, beta⟩ := p
  simp only [Ranges.Ftrl.Finite, XF.finite_iff] at h
  obtain ⟨⟨q0, rfl⟩, ⟨q1, rfl⟩, ⟨q2, rfl⟩, ⟨q3, rfl⟩⟩ := h
  simp [Gen.C04.Ftrl.check, Gen.C04.Ftrl.guards, Ranges.Ftrl.InRange, Ranges.pos, Ranges.nonneg, Ranges.unit01, XF.inClosed, XF.gt, XF.ge, XF.eps64]
  try grind
example : Ranges.Ftrl.Finite { l1_ratio := .fin (1/2), l2_ratio := .fin 1, alpha := .fin (1/200), beta := .fin 0 } ∧ Ranges.Ftrl.InRange { l1_ratio := .fin (1/2), l2_ratio := .fin 1, alpha := .fin (1/200), beta := .fin 0 } ∧ Gen.C04.Ftrl.check { l1_ratio := .fin (1/2), l2_ratio := .fin 1, alpha := .fin (1/200), beta := .fin 0 } = .ok () := by c04_eval Ftrl
example : Ranges.Ftrl.Finite { l1_ratio := .fin (1/2), l2_ratio := .fin 2, alpha := .fin (1/200), beta := .fin 0 } ∧ ¬ Ranges.Ftrl.InRange { l1_ratio := .fin (1/2), l2_ratio := .fin 2, alpha := .fin (1/200), beta := .fin 0 } := by c04_eval Ftrl

/-- generic PLS builder (crate-private) -/
theorem Pls.check_ok_iff (p : Gen.C04.Pls.Params) (h : Ranges.Pls.Finite p) :
    Gen.C04.Pls.check p = .ok () ↔ Ranges.Pls.InRange p := by
  obtain ⟨tolerance, max_iter⟩ := p
  simp only [Ranges.Pls.Finite, XF.finite_iff] at h
  obtain ⟨q0, rfl⟩ := h
  simp [Gen.C04.Pls.check, Gen.C04.Pls.guards, Ranges.Pls.InRange, Ranges.pos, Ranges.nonneg, Ranges.unit01, XF.inClosed, XF.gt, XF.ge, XF.eps64]
  try grind
example : Ranges.Pls.Finite { tolerance := .fin (1/1000000), max_iter := 500 } ∧ Ranges.Pls.InRange { tolerance := .fin (1/1000000), max_iter := 500 } ∧ Gen.C04.Pls.check { tolerance := .fin (1/1000000), max_iter := 500 } = .ok () := by c04_eval Pls
example : Ranges.Pls.Finite { tolerance := .fin (1/1000000), max_iter := 0 } ∧ ¬ Ranges.Pls.InRange { tolerance := .fin (1/1000000), max_iter := 0 } := by c04_eval Pls

/-- PlsRegression / PlsCanonical / PlsCca (macro-generated) -/
theorem PlsMacro.check_ok_iff (p : Gen.C04.PlsMacro.Params) (h : Ranges.PlsMacro.Finite p) :
    Gen.C04.PlsMacro.check p = .ok () ↔ Ranges.PlsMacro.InRange p := by
  obtain ⟨tolerance, max_iter⟩ := p
  simp only [Ranges.PlsMacro.Finite, XF.finite_iff] at h
  obtain ⟨q0, rfl⟩ := h
  simp [Gen.C04.PlsMacro.check, Gen.C04.PlsMacro.guards, Ranges.PlsMacro.InRange, Ranges.pos, Ranges.nonneg, Ranges.unit01, XF.inClosed, XF.gt, XF.ge, XF.eps64]
  try grind
example : Ranges.PlsMacro.Finite { tolerance := .fin 0, max_iter := 1 } ∧ Ranges.PlsMacro.InRange { tolerance := .fin 0, max_iter := 1 } ∧ Gen.C04.PlsMacro.check { tolerance := .fin 0, max_iter := 1 } = .ok () := by c04_eval PlsMacro
example : Ranges.PlsMacro.Finite { tolerance := .fin (-1), max_iter := 1 } ∧ ¬ Ranges.PlsMacro.InRange { tolerance := .fin (-1), max_iter := 1 } := by c04_eval PlsMacro

/-- t-SNE -/
theorem TSne.check_ok_iff (p : Gen.C04.TSne.Params) (h : Ranges.TSne.Finite p) :
    Gen.C04.TSne.check p = .ok () ↔ Ranges.TSne.InRange p := by
  obtain ⟨perplexity, approx_threshold⟩ := p
  simp only [Ranges.TSne.Finite, XF.finite_iff] at h
  obtain ⟨⟨q0, rfl⟩, ⟨q1, rfl⟩⟩ := h
  simp [Gen.C04.TSne.check, Gen.C04.TSne.guards, Ranges.TSne.InRange, Ranges.pos, Ranges.nonneg, Ranges.unit01, XF.inClosed, XF.gt, XF.ge, XF.eps64]
  try grind
example : Ranges.TSne.Finite { perplexity := .fin 5, approx_threshold := .fin 0 } ∧ Ranges.TSne.InRange { perplexity := .fin 5, approx_threshold := .fin 0 } ∧ Gen.C04.TSne.check { perplexity := .fin 5, approx_threshold := .fin 0 } = .ok () := by c04_eval TSne
example : Ranges.TSne.Finite { perplexity := .fin (-5), approx_threshold := .fin 0 } ∧ ¬ Ranges.TSne.InRange { perplexity := .fin (-5), approx_threshold := .fin 0 } := by c04_eval TSne

/-- FastICA -/
theorem FastIca.check_ok_iff (p : Gen.C04.FastIca.Params) (h : Ranges.FastIca.Finite p) :
    Gen.C04.FastIca.check p = .ok () ↔ Ranges.FastIca.InRange p := by
  obtain ⟨tol⟩ := p
  simp only [Ranges.FastIca.Finite, XF.finite_iff] at h
  obtain ⟨q0, rfl⟩ := h
  simp [Gen.C04.FastIca.check, Gen.C04.FastIca.guards, Ranges.FastIca.InRange, Ranges.pos, Ranges.nonneg, Ranges.unit01, XF.inClosed, XF.gt, XF.ge, XF.eps64]
  try grind
example : Ranges.FastIca.Finite { tol := .fin (1/10000) } ∧ Ranges.FastIca.InRange { tol := .fin (1/10000) } ∧ Gen.C04.FastIca.check { tol := .fin (1/10000) } = .ok () := by c04_eval FastIca
example : Ranges.FastIca.Finite { tol := .fin (-1/10000) } ∧ ¬ Ranges.FastIca.InRange { tol := .fin (-1/10000) } := by c04_eval FastIca

/-- diffusion map -/
theorem DiffusionMap.check_ok_iff (p : Gen.C04.DiffusionMap.Params) (h : Ranges.DiffusionMap.Finite p) :
    Gen.C04.DiffusionMap.check p = .ok () ↔ Ranges.DiffusionMap.InRange p := by
  obtain ⟨steps, embedding_size⟩ := p
  simp [Gen.C04.DiffusionMap.check, Gen.C04.DiffusionMap.guards, Ranges.DiffusionMap.InRange, Ranges.pos, Ranges.nonneg, Ranges.unit01, XF.inClosed, XF.gt, XF.ge, XF.eps64]
  try grind
example : Ranges.DiffusionMap.Finite { steps := 1, embedding_size := 2 } ∧ Ranges.DiffusionMap.InRange { steps := 1, embedding_size := 2 } ∧ Gen.C04.DiffusionMap.check { steps := 1, embedding_size := 2 } = .ok () := by c04_eval DiffusionMap
example : Ranges.DiffusionMap.Finite { steps := 0, embedding_size := 2 } ∧ ¬ Ranges.DiffusionMap.InRange { steps := 0, embedding_size := 2 } := by c04_eval DiffusionMap
/-- logistic regression, binary and multinomial (one guard) -/
theorem Logistic.check_ok_iff (p : Gen.C04.Logistic.Params) (h : Ranges.Logistic.Finite p) :
    Gen.C04.Logistic.check p = .ok () ↔ Ranges.Logistic.InRange p := by
  obtain ⟨alpha, gradient_tolerance, initial_params⟩ := p
  simp only [Ranges.Logistic.Finite, XF.finite_iff] at h
  obtain ⟨⟨a, rfl⟩, ⟨g, rfl⟩, h3⟩ := h
  cases initial_params with
  | none =>
    simp [Gen.C04.Logistic.check, Gen.C04.Logistic.guards, Ranges.Logistic.InRange, Ranges.pos, Ranges.nonneg]
  | some xs =>
    have : ∀ x ∈ xs, XF.isFinite x = true := by
      intro x hx; obtain ⟨q, rfl⟩ := h3 x hx; rfl
    simp [Gen.C04.Logistic.check, Gen.C04.Logistic.guards, Ranges.Logistic.InRange, Ranges.pos, Ranges.nonneg, XF.Finite]
    try grind
example : Ranges.Logistic.Finite { alpha := .fin 1, gradient_tolerance := .fin (1/10000), initial_params := some [.fin 0, .fin (1/2)] } ∧
    Ranges.Logistic.InRange { alpha := .fin 1, gradient_tolerance := .fin (1/10000), initial_params := some [.fin 0, .fin (1/2)] } := by c04_eval Logistic
example : ¬ Ranges.Logistic.InRange { alpha := .fin 1, gradient_tolerance := .fin 0, initial_params := none } := by c04_eval Logistic

/-- SVM (nested Platt guard first, then eps, C, nu) -/
theorem Svm.check_ok_iff (p : Gen.C04.Svm.Params) (h : Ranges.Svm.Finite p) :
    Gen.C04.Svm.check p = .ok () ↔ Ranges.Svm.InRange p := by
  obtain ⟨eps, c, nu, platt⟩ := p
  obtain ⟨hp, he, hc, hnu⟩ := h
  have hpl := Platt.check_ok_iff platt hp
  simp only [XF.finite_iff] at he
  obtain ⟨e, rfl⟩ := he
  simp only [Gen.C04.Svm.check, Gen.C04.Svm.guards, Ranges.Svm.InRange]
  cases hck : Gen.C04.Platt.check platt with
  | error t =>
    have hn : ¬ Ranges.Platt.InRange platt := by rw [← hpl, hck]; simp
    simp [hn]
  | ok u =>
    have hy : Ranges.Platt.InRange platt := hpl.mp (by rw [hck])
    rcases c with _ | ⟨c1, c2⟩ <;> rcases nu with _ | ⟨n1, n2⟩
    all_goals simp only [XF.finite_iff] at hc hnu
    · simp [hy, Ranges.nonneg]
    · obtain ⟨⟨a, rfl⟩, ⟨b, rfl⟩⟩ := hnu
      simp [hy, Ranges.nonneg, XF.gt]
      try grind
    · obtain ⟨⟨a, rfl⟩, ⟨b, rfl⟩⟩ := hc
      simp [hy, Ranges.nonneg, Ranges.pos]
      try grind
    · obtain ⟨⟨a, rfl⟩, ⟨b, rfl⟩⟩ := hc
      obtain ⟨⟨a', rfl⟩, ⟨b', rfl⟩⟩ := hnu
      simp [hy, Ranges.nonneg, Ranges.pos, XF.gt]
      try grind
example : Ranges.Svm.Finite { solver_params_eps := .fin (1/1000), c := some (.fin 1, .fin (1/2)), nu := none, platt := { maxiter := 100, minstep := .fin 0, sigma := .fin 0 } } ∧
    Ranges.Svm.InRange { solver_params_eps := .fin (1/1000), c := some (.fin 1, .fin (1/2)), nu := none, platt := { maxiter := 100, minstep := .fin 0, sigma := .fin 0 } } := by c04_eval Svm
example : ¬ Ranges.Svm.InRange { solver_params_eps := .fin (1/1000), c := none, nu := some (.fin (3/2), .fin (3/2)), platt := { maxiter := 100, minstep := .fin 0, sigma := .fin 0 } } := by c04_eval Svm

/-- random projection (Gaussian and sparse; `Dimension` / `Epsilon` variants) -/
theorem RandomProjection.check_ok_iff (p : Gen.C04.RandomProjection.Params) (h : Ranges.RandomProjection.Finite p) :
    Gen.C04.RandomProjection.check p = .ok () ↔ Ranges.RandomProjection.InRange p := by
  obtain ⟨params⟩ := p
  cases params with
  | Dimension d =>
    simp [Gen.C04.RandomProjection.check, Gen.C04.RandomProjection.guards, Ranges.RandomProjection.InRange]
    try omega
  | Epsilon e =>
    simp only [Ranges.RandomProjection.Finite, XF.finite_iff] at h
    obtain ⟨q, rfl⟩ := h
    simp [Gen.C04.RandomProjection.check, Gen.C04.RandomProjection.guards, Ranges.RandomProjection.InRange, XF.ge, XF.le, XF.lt]
    try grind
example : Ranges.RandomProjection.Finite { params := .Epsilon (.fin (1/10)) } ∧ Ranges.RandomProjection.InRange { params := .Epsilon (.fin (1/10)) } := by c04_eval RandomProjection
example : ¬ Ranges.RandomProjection.InRange { params := .Epsilon (.fin 1) } ∧ ¬ Ranges.RandomProjection.InRange { params := .Dimension 0 } := by c04_eval RandomProjection

/-- hierarchical clustering (stopping criterion `NumClusters` / `Distance`) -/
theorem Hierarchical.check_ok_iff (p : Gen.C04.Hierarchical.Params) (h : Ranges.Hierarchical.Finite p) :
    Gen.C04.Hierarchical.check p = .ok () ↔ Ranges.Hierarchical.InRange p := by
  obtain ⟨stopping⟩ := p
  cases stopping with
  | NumClusters n =>
    cases n <;> simp [Gen.C04.Hierarchical.check, Gen.C04.Hierarchical.guards, Ranges.Hierarchical.InRange]
  | Distance x =>
    simp only [Ranges.Hierarchical.Finite, XF.finite_iff] at h
    obtain ⟨q, rfl⟩ := h
    simp [Gen.C04.Hierarchical.check, Gen.C04.Hierarchical.guards, Ranges.Hierarchical.InRange, Ranges.nonneg]
example : Ranges.Hierarchical.Finite { stopping := .Distance (.fin (1/2)) } ∧ Ranges.Hierarchical.InRange { stopping := .Distance (.fin (1/2)) } := by c04_eval Hierarchical
example : ¬ Ranges.Hierarchical.InRange { stopping := .NumClusters 0 } := by c04_eval Hierarchical

/-- count vectoriser.  This is the theorem that was false before the repair recorded in known_findings.json
(`C04-countvectorizer-docfreq-upper`): the guard tested `< 0` only, `document_frequency = (0, 3/2)` passed. -/
theorem CountVectorizer.check_ok_iff (p : Gen.C04.CountVectorizer.Params) (h : Ranges.CountVectorizer.Finite p) :
    Gen.C04.CountVectorizer.check p = .ok () ↔ Ranges.CountVectorizer.InRange p := by
  obtain ⟨⟨a, b⟩, ⟨lo, hi⟩, rok⟩ := p
  simp only [Ranges.CountVectorizer.Finite, XF.finite_iff] at h
  obtain ⟨⟨l, rfl⟩, ⟨u, rfl⟩⟩ := h
  simp [Gen.C04.CountVectorizer.check, Gen.C04.CountVectorizer.guards, Ranges.CountVectorizer.InRange, Ranges.unit01, XF.gt, XF.lt, XF.le]
  try grind
example : Ranges.CountVectorizer.Finite { n_gram_range := (1, 2), document_frequency := (.fin (1/4), .fin 1), split_regex_ok := true } ∧
    Ranges.CountVectorizer.InRange { n_gram_range := (1, 2), document_frequency := (.fin (1/4), .fin 1), split_regex_ok := true } := by c04_eval CountVectorizer
/-- the former witness is now rejected, with the error the documentation names -/
example : Gen.C04.CountVectorizer.check { n_gram_range := (1, 1), document_frequency := (.fin (1/2), .fin (3/2)), split_regex_ok := true }
    = .error "InvalidDocumentFrequencies" := by c04_eval CountVectorizer

/-! ## Rebuild setters (`with_rng`, wrapper setters): the guarded fields, hence the outcome, are preserved -/

/-- a setter `r` under which the guard is invariant leaves every outcome of the trait-level code as it was: same verdict
and error of `check_ref` / `check`, same error from `fit` on the unchecked builder -/
theorem rebuild_preserves_outcome {P E E' M D : Type} (chk : P → Except E Unit) (conv : E → E')
    (fit : P → D → Except E' M) (r : P → P) (h : ∀ p, chk (r p) = chk p) (p : P) (d : D) :
    ((∃ q, checkRef chk (r p) = .ok q) ↔ (∃ q, checkRef chk p = .ok q)) ∧
    (∀ e, checkRef chk (r p) = .error e ↔ checkRef chk p = .error e) ∧
    (∀ e, checkVal chk (r p) = .error e ↔ checkVal chk p = .error e) ∧
    (∀ e, chk p = .error e → fitUnchecked chk conv fit (r p) d = .error (conv e)) ∧
    (chk p = .ok () → fitUnchecked chk conv fit (r p) d = fit (r p) d) := by
  have hr := h p
  unfold fitUnchecked checkVal checkRef
  rw [hr]
  cases chk p <;> simp

/-- `GmmParams::with_rng` copies every guarded field (in particular `max_n_iter`) -/
theorem Gmm.withRng_preserves (p : Gen.C04.Gmm.Params) :
    (Ranges.Gmm.withRng p).n_clusters = p.n_clusters ∧ (Ranges.Gmm.withRng p).tolerance = p.tolerance ∧
    (Ranges.Gmm.withRng p).reg_covar = p.reg_covar ∧ (Ranges.Gmm.withRng p).n_runs = p.n_runs ∧
    (Ranges.Gmm.withRng p).max_n_iter = p.max_n_iter ∧
    Gen.C04.Gmm.check (Ranges.Gmm.withRng p) = Gen.C04.Gmm.check p := by
  cases p; simp [Ranges.Gmm.withRng]

/-- so an invalid value set before `with_rng` is still rejected after it, with the same error -/
theorem Gmm.withRng_rejects (p : Gen.C04.Gmm.Params) (h : Ranges.Gmm.Finite p) (hbad : ¬ Ranges.Gmm.InRange p) :
    ∃ t, Gen.C04.Gmm.check (Ranges.Gmm.withRng p) = .error t := by
  rw [(Gmm.withRng_preserves p).2.2.2.2.2]
  cases hc : Gen.C04.Gmm.check p with
  | error t => exact ⟨t, rfl⟩
  | ok u => exact absurd ((Gmm.check_ok_iff p h).mp (by rw [hc])) hbad
example : Gen.C04.Gmm.check (Ranges.Gmm.withRng { n_clusters := 2, tolerance := .fin (1/1000), reg_covar := .fin 0, n_runs := 1, max_n_iter := 0 })
    ≠ .ok () := by
  simp [Ranges.Gmm.withRng, Gen.C04.Gmm.check, Gen.C04.Gmm.guards]

/-- `RandomProjectionParams::with_rng` copies the `Dimension` / `Epsilon` variant -/
theorem RandomProjection.withRng_preserves (p : Gen.C04.RandomProjection.Params) :
    (Ranges.RandomProjection.withRng p).params = p.params ∧
    Gen.C04.RandomProjection.check (Ranges.RandomProjection.withRng p) = Gen.C04.RandomProjection.check p := by
  cases p; simp [Ranges.RandomProjection.withRng]
example : Gen.C04.RandomProjection.check (Ranges.RandomProjection.withRng { params := .Dimension 0 }) ≠ .ok () := by
  simp [Ranges.RandomProjection.withRng, Gen.C04.RandomProjection.check, Gen.C04.RandomProjection.guards]

/-- `TfIdfVectorizer` setters: when the inner setter `f` keeps the guard's verdict, `fit*` on the re-wrapped vectoriser
returns the same checking error -/
theorem tfidf_setter_preserves {P E M M' Mt D : Type} (chk : P → Except E Unit) (fit : P → D → Except E M) (wrap : M → M')
    (f : P → P) (h : ∀ p, chk (f p) = chk p) (w : P × Mt) (d : D) (e : E) (he : chk w.1 = .error e) :
    wrapUnchecked chk fit wrap (Ranges.tfidfSet f w).1 d = .error e ∧ (Ranges.tfidfSet f w).2 = w.2 := by
  refine ⟨?_, rfl⟩
  exact (wrap_on_unchecked chk fit wrap _ d).1 e (by simpa [Ranges.tfidfSet, h] using he)
example : wrapUnchecked (fun n : Nat => if n = 0 then .error "zero" else .ok ())
    (fun n (_ : Unit) => (.ok (n + 1) : Except String Nat)) (fun m => (m, m)) (Ranges.tfidfSet id ((0 : Nat), "smooth")).1 () = .error "zero" := rfl

/-! ## Non-finite values: builders whose documentation (or guard text) demands FINITE values

For these the equivalence holds for ALL parameter values, without the hypothesis `Finite p` (`InRange` demands finite
values through `XF.Sat`): a NaN / infinite value is rejected.  Removing a `!x.is_finite()` / `is_nan() || is_infinite()`
conjunct from one of these guards breaks the theorem (under `Finite` such a conjunct is dead, so `check_ok_iff` alone
would not notice). -/

/-- FTRL ("alpha / beta must be positive and finite", ratios "in range [0, 1]"): no finiteness hypothesis -/
theorem Ftrl.check_ok_iff_total (p : Gen.C04.Ftrl.Params) :
    Gen.C04.Ftrl.check p = .ok () ↔ Ranges.Ftrl.InRange p := by
  obtain ⟨l1_ratio, l2_ratio, alpha, beta⟩ := p
  cases alpha <;> cases beta <;>
    simp [Gen.C04.Ftrl.check, Gen.C04.Ftrl.guards, Ranges.Ftrl.InRange, Ranges.unit01, Ranges.nonneg, XF.inClosed01_iff, XF.isFinite, XF.isNegative, XF.Sat]
example : Gen.C04.Ftrl.check { l1_ratio := .fin (1/2), l2_ratio := .fin 1, alpha := .nan, beta := .fin 0 } ≠ .ok () ∧
    Gen.C04.Ftrl.check { l1_ratio := .fin (1/2), l2_ratio := .fin 1, alpha := .fin 1, beta := .pinf } ≠ .ok () := by
  simp [Ftrl.check_ok_iff_total, Ranges.Ftrl.InRange, XF.Sat]

/-- logistic regression ("alpha / gradient_tolerance must be a positive, finite number", "initial parameters must be finite") -/
theorem Logistic.check_ok_iff_total (p : Gen.C04.Logistic.Params) :
    Gen.C04.Logistic.check p = .ok () ↔ Ranges.Logistic.InRange p := by
  obtain ⟨alpha, gradient_tolerance, initial_params⟩ := p
  cases initial_params <;> cases alpha <;> cases gradient_tolerance <;>
    simp [Gen.C04.Logistic.check, Gen.C04.Logistic.guards, Ranges.Logistic.InRange, XF.Finite, XF.isFinite, XF.lt, XF.le, XF.zero, XF.Sat]
example : Gen.C04.Logistic.check { alpha := .pinf, gradient_tolerance := .fin 1, initial_params := none } ≠ .ok () ∧
    Gen.C04.Logistic.check { alpha := .fin 1, gradient_tolerance := .nan, initial_params := none } ≠ .ok () := by
  simp [Logistic.check_ok_iff_total, Ranges.Logistic.InRange, XF.Sat]

/-- PLS, generic and macro-generated builders (guard: negative, NaN and infinite tolerances are `InvalidTolerance`) -/
theorem Pls.check_ok_iff_total (p : Gen.C04.Pls.Params) :
    Gen.C04.Pls.check p = .ok () ↔ Ranges.Pls.InRange p := by
  obtain ⟨tolerance, max_iter⟩ := p
  cases tolerance <;>
    simp [Gen.C04.Pls.check, Gen.C04.Pls.guards, Ranges.Pls.InRange, XF.isNegative, XF.isNan, XF.isInfinite, XF.Sat] <;> omega
theorem PlsMacro.check_ok_iff_total (p : Gen.C04.PlsMacro.Params) :
    Gen.C04.PlsMacro.check p = .ok () ↔ Ranges.PlsMacro.InRange p := by
  obtain ⟨tolerance, max_iter⟩ := p
  cases tolerance <;>
    simp [Gen.C04.PlsMacro.check, Gen.C04.PlsMacro.guards, Ranges.PlsMacro.InRange, XF.isNegative, XF.isNan, XF.isInfinite, XF.Sat] <;> omega
example : Gen.C04.PlsMacro.check { tolerance := .nan, max_iter := 5 } ≠ .ok () ∧ Gen.C04.Pls.check { tolerance := .pinf, max_iter := 5 } ≠ .ok () := by
  simp [PlsMacro.check_ok_iff_total, Pls.check_ok_iff_total, Ranges.PlsMacro.InRange, Ranges.Pls.InRange, XF.Sat]

/-- hierarchical clustering (`Distance(x)`: negative, NaN and infinite thresholds are invalid) -/
theorem Hierarchical.check_ok_iff_total (p : Gen.C04.Hierarchical.Params) :
    Gen.C04.Hierarchical.check p = .ok () ↔ Ranges.Hierarchical.InRange p := by
  obtain ⟨stopping⟩ := p
  cases stopping with
  | NumClusters n =>
    cases n <;> simp [Gen.C04.Hierarchical.check, Gen.C04.Hierarchical.guards, Ranges.Hierarchical.InRange]
  | Distance x =>
    cases x <;>
      simp [Gen.C04.Hierarchical.check, Gen.C04.Hierarchical.guards, Ranges.Hierarchical.InRange, XF.isNegative, XF.isNan, XF.isInfinite, XF.Sat]
example : Gen.C04.Hierarchical.check { stopping := .Distance .nan } ≠ .ok () := by
  simp [Hierarchical.check_ok_iff_total, Ranges.Hierarchical.InRange, XF.Sat]

/-- SVM: a NaN / infinite solver tolerance is rejected whatever the other fields are (the weights are compared with `<=`
only: a NaN weight passes, which is outside the statement's "finite values") -/
theorem Svm.nonfinite_eps_rejected (p : Gen.C04.Svm.Params) (h : ¬ p.solver_params_eps.Finite) :
    Gen.C04.Svm.check p ≠ .ok () := by
  obtain ⟨eps, c, nu, platt⟩ := p
  intro hc
  have hm := (firstErr_ok_iff _).mp hc
  have h1 := hm (if (((XF.isNegative eps) || (XF.isNan eps)) || (XF.isInfinite eps)) then some "InvalidEps" else none)
    (by simp [Gen.C04.Svm.guards])
  cases eps <;> simp_all [XF.Finite, XF.isFinite, XF.isNegative, XF.isNan, XF.isInfinite]
example : ¬ (XF.nan).Finite := by simp [XF.Finite, XF.isFinite]

/-! ## Setter chains of `CountVectorizerParams` and of the `TfIdfVectorizer` wrapper (`cvRun` / `tfidfRun`, which the
driver runs on every `sets=` request) -/

/-- a setter that assigns no guarded field (`max_features`, `convert_to_lowercase`, `normalize`, `stopwords`) leaves the
guarded fields alone -/
theorem cv_unguarded_setter_id (p : Gen.C04.CountVectorizer.Params) (s : Ranges.CvSet) (h : s.isGuarded = false) :
    Ranges.CvSet.apply p s = p := by
  cases s <;> simp_all [Ranges.CvSet.apply, Ranges.CvSet.isGuarded]

/-- … wherever such calls stand in a chain, and however many there are: the parameters a chain leaves are those of the
chain with these calls removed (induction over the chain, for every start state) -/
theorem cv_chain_drop_unguarded (ops : List Ranges.CvSet) :
    Ranges.cvRun ops = Ranges.cvRun (ops.filter Ranges.CvSet.isGuarded) := by
  unfold Ranges.cvRun
  generalize Ranges.cvDefault = p0
  induction ops generalizing p0 with
  | nil => rfl
  | cons s rest ih =>
    cases hs : s.isGuarded with
    | true => simp [List.filter, hs, ih]
    | false => simp [List.filter, hs, cv_unguarded_setter_id p0 s hs, ih]
example : Ranges.cvRun [.maxFeatures, .nGramRange 2 1, .stopwords, .normalize] = Ranges.cvRun [.nGramRange 2 1] ∧
    Gen.C04.CountVectorizer.check (Ranges.cvRun [.maxFeatures, .nGramRange 2 1, .stopwords, .normalize]) ≠ .ok () := by
  refine ⟨cv_chain_drop_unguarded _, ?_⟩
  simp [Ranges.cvRun, Ranges.CvSet.apply, Ranges.cvDefault, Gen.C04.CountVectorizer.check, Gen.C04.CountVectorizer.guards]

/-- a later call of a guarded setter overrides an earlier one of the same kind: what an (invalid) earlier call left in the
field does not survive -/
theorem cv_setter_overrides (p p' : Gen.C04.CountVectorizer.Params) (s : Ranges.CvSet) :
    (∀ a b, s = .nGramRange a b → (Ranges.CvSet.apply p s).n_gram_range = (Ranges.CvSet.apply p' s).n_gram_range) ∧
    (∀ lo hi, s = .documentFrequency lo hi → (Ranges.CvSet.apply p s).document_frequency = (Ranges.CvSet.apply p' s).document_frequency) ∧
    (∀ ok, s = .tokenizerRegex ok → (Ranges.CvSet.apply p s).split_regex_ok = (Ranges.CvSet.apply p' s).split_regex_ok) := by
  refine ⟨?_, ?_, ?_⟩ <;> intros <;> subst_vars <;> rfl

/-- the wrapper's chain (every call through `tfidfSet`) leaves exactly the inner builder's chain result next to an untouched
method; hence `TfIdfVectorizer::fit*` after the chain returns the checking error of the inner chain -/
theorem tfidf_chain {M E Mo Mo' D : Type} (m : M) (ops : List Ranges.CvSet)
    (fit : Gen.C04.CountVectorizer.Params → D → Except String Mo) (wrap : Mo → Mo') (d : D) :
    (Ranges.tfidfRun m ops).1 = Ranges.cvRun ops ∧ (Ranges.tfidfRun m ops).2 = m ∧
    (∀ e, Gen.C04.CountVectorizer.check (Ranges.cvRun ops) = .error e →
      wrapUnchecked Gen.C04.CountVectorizer.check fit wrap (Ranges.tfidfRun m ops).1 d = .error e) := by
  have key : ∀ (w : Gen.C04.CountVectorizer.Params × M),
      (ops.foldl (fun w s => Ranges.tfidfSet (fun p => Ranges.CvSet.apply p s) w) w) = (ops.foldl Ranges.CvSet.apply w.1, w.2) := by
    induction ops with
    | nil => intro w; rfl
    | cons s rest ih => intro w; simp only [List.foldl_cons]; rw [ih]; rfl
  have h1 : (Ranges.tfidfRun m ops).1 = Ranges.cvRun ops := by simp [Ranges.tfidfRun, Ranges.cvRun, key]
  refine ⟨h1, by simp [Ranges.tfidfRun, key], fun e he => ?_⟩
  rw [h1]
  exact (wrap_on_unchecked _ fit wrap _ d).1 e he
example : (Ranges.tfidfRun "smooth" [.documentFrequency (.fin 0) (.fin 2), .maxFeatures]).2 = "smooth" ∧
    (Ranges.tfidfRun "smooth" [.documentFrequency (.fin 0) (.fin 2), .maxFeatures]).1.document_frequency = (.fin 0, .fin 2) := by
  simp [Ranges.tfidfRun, Ranges.tfidfSet, Ranges.CvSet.apply]

/-! ## Which error, concretely — order-free: the error names a documented bound the parameters violate

(The statement promises "exactly the checking error", not which one a doubly-invalid builder gets; these theorems
survive a reordering of the guards.) -/

/-- K-means: each of the four errors names a bound that is violated -/
theorem KMeans.check_error_sound (p : Gen.C04.KMeans.Params) (h : Ranges.KMeans.Finite p) (t : String)
    (he : Gen.C04.KMeans.check p = .error t) :
    (t = "NClusters" ∧ p.n_clusters = 0) ∨ (t = "NRuns" ∧ p.n_runs = 0) ∨
    (t = "Tolerance" ∧ ¬ Ranges.pos p.tolerance) ∨ (t = "MaxIterations" ∧ p.max_n_iterations = 0) := by
  obtain ⟨n_clusters, n_runs, tolerance, max_n_iterations⟩ := p
  simp only [Ranges.KMeans.Finite, XF.finite_iff] at h
  obtain ⟨q, rfl⟩ := h
  have hm := firstErr_error_mem _ _ he
  simp [Gen.C04.KMeans.guards, Ranges.pos] at hm ⊢
  grind
example : Gen.C04.KMeans.check { n_clusters := 2, n_runs := 0, tolerance := .fin 0, max_n_iterations := 0 } = .error "NRuns" := by c04_eval KMeans

/-- count vectoriser: the three hyper-parameter errors name the violated bound -/
theorem CountVectorizer.check_error_sound (p : Gen.C04.CountVectorizer.Params) (h : Ranges.CountVectorizer.Finite p) (t : String)
    (he : Gen.C04.CountVectorizer.check p = .error t) :
    (t = "InvalidNGramBoundaries" ∧ (p.n_gram_range.1 = 0 ∨ p.n_gram_range.2 = 0)) ∨
    (t = "FlippedNGramBoundaries" ∧ p.n_gram_range.2 < p.n_gram_range.1) ∨
    (t = "InvalidDocumentFrequencies" ∧ ¬ (Ranges.unit01 p.document_frequency.1 ∧ Ranges.unit01 p.document_frequency.2)) ∨
    (t = "FlippedDocumentFrequencies" ∧
      ¬ p.document_frequency.1.Sat (fun a => p.document_frequency.2.Sat (fun b => a ≤ b))) ∨
    (t = "RegexError" ∧ p.split_regex_ok = false) := by
  obtain ⟨⟨a, b⟩, ⟨lo, hi⟩, rok⟩ := p
  simp only [Ranges.CountVectorizer.Finite, XF.finite_iff] at h
  obtain ⟨⟨l, rfl⟩, ⟨u, rfl⟩⟩ := h
  have hm := firstErr_error_mem _ _ he
  simp [Gen.C04.CountVectorizer.guards, Ranges.unit01, XF.gt, XF.lt, XF.le] at hm ⊢
  grind
example : Ranges.CountVectorizer.Finite { n_gram_range := (1, 1), document_frequency := (.fin 0, .fin 2), split_regex_ok := true } := by c04_eval CountVectorizer

end LinfaSpec.Props.C04
