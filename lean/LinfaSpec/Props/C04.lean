import LinfaSpec.Model.ParamGuard
import LinfaSpec.Model.ParamRanges
import LinfaSpec.Gen.C04Params

namespace LinfaSpec.Props.C04
open LinfaSpec.ParamGuard

/-- `check(self)` and `check_ref(&self)` give the same verdict and the same error. -/
theorem check_eq_check_ref {P E : Type} (chk : P → Except E Unit) (p : P) :
    checkVal chk p = checkRef chk p := by
  unfold checkVal checkRef; cases chk p <;> rfl

end LinfaSpec.Props.C04
