import LinfaSpec.Proofs.Metrics

/-!
# C05 — every evaluation metric equals its definition recomputed from first principles

Theorems about `LinfaSpec.Metrics` (the model of `metrics_classification.rs`,
`metrics_regression.rs`, `metrics_clustering.rs`, `correlation.rs`).  Label types are arbitrary
linear orders, numeric statements are over an arbitrary linearly ordered field (the same
definitions run on `Float32`/`Float` in the driver).
-/
namespace LinfaSpec.Props.C05
open LinfaSpec LinfaSpec.Metrics

section Confusion
variable {L : Type} [LinearOrder L]

/-- `confusion_matrix` succeeds exactly on equally long inputs and is the counting loop run over the
class list -/
theorem confusion_eq (pred truth : List L) (h : pred.length = truth.length) :
    confusion pred truth = some (classes pred truth, countLoop (classes pred truth) (pred.zip truth)) := by
  simp [confusion, h]

theorem confusion_mismatch (pred truth : List L) (h : pred.length ≠ truth.length) :
    confusion pred truth = none := by
  simp [confusion, h]

example : confusion [0, 1, 0, 1, 0, 1] [1, 1, 0, 1, 0, 1] = some ([1, 0], [[3, 0], [1, 2]]) := by decide

/-- the members are the union of both label sets, each once, in increasing order (decreasing when
there are exactly two) -/
theorem cm_members (pred truth : List L) :
    (classes pred truth).Nodup ∧ (∀ a, a ∈ classes pred truth ↔ a ∈ pred ∨ a ∈ truth) ∧
    (if (classes pred truth).length = 2 then (classes pred truth).Pairwise (· > ·)
     else (classes pred truth).Pairwise (· < ·)) := by
  refine ⟨nodup_classes pred truth, fun a => mem_classes a pred truth, ?_⟩
  by_cases h : (sortUniq (pred ++ truth)).length = 2
  · have hc : classes pred truth = (sortUniq (pred ++ truth)).reverse := by simp [classes, h]
    rw [hc]; simp only [List.length_reverse, h, if_true]
    exact List.pairwise_reverse.mpr (sorted_sortUniq _)
  · have hc : classes pred truth = sortUniq (pred ++ truth) := by simp [classes, h]
    rw [hc]; simp only [h, if_false]; exact sorted_sortUniq _

example : classes [2, 0, 2] [1, 1, 0] = [0, 1, 2] ∧ classes [true, false] [true, true] = [true, false] := by
  decide

/-- **cells count pairs**: cell `(i, j)` is the number of samples predicted `cs[i]` whose truth is
`cs[j]` -/
theorem cm_cells_count (cs : List L) (hnd : cs.Nodup) (pairs : List (L × L)) (i j : Nat) (a b : L)
    (hi : cs[i]? = some a) (hj : cs[j]? = some b) :
    cell (countLoop cs pairs) i j = (pairs.filter fun p => p.1 = a ∧ p.2 = b).length := by
  have := (cell_foldl_count cs pairs (zeros cs.length) (square_zeros _) i j).2
  unfold countLoop
  rw [this, cell_zeros, Nat.zero_add]
  congr 1
  apply List.filter_congr
  intro p _
  have : (indexOf p.1 cs = some i ∧ indexOf p.2 cs = some j) ↔ (p.1 = a ∧ p.2 = b) := by
    rw [indexOf_eq_some_iff hnd, indexOf_eq_some_iff hnd, hi, hj]
    simp [eq_comm]
  exact decide_eq_decide.mpr this

example : cell (countLoop [2, 1, 0] [(2, 1), (0, 0), (2, 1), (1, 2)]) 0 1 = 2 := by decide

/-- every pair of a `confusion_matrix` call has both labels among the members -/
theorem pairs_in_classes (pred truth : List L) :
    ∀ p ∈ pred.zip truth, p.1 ∈ classes pred truth ∧ p.2 ∈ classes pred truth := by
  intro p hp
  have := List.of_mem_zip hp
  simp [mem_classes, this.1, this.2]

/-- **the cells sum to the number of samples** -/
theorem cm_sum (cs : List L) (hnd : cs.Nodup) (pairs : List (L × L))
    (hall : ∀ p ∈ pairs, p.1 ∈ cs ∧ p.2 ∈ cs) :
    total (countLoop cs pairs) = pairs.length := by
  have := loop_count cs hnd total (fun _ _ => 1) (fun m a b hm ha hb => total_incr hm a b ha hb)
    (total_zeros _) (fun _ => True) (fun _ _ _ _ _ => by simp) pairs hall
  simpa using this

theorem cm_sum_confusion (pred truth : List L) (h : pred.length = truth.length) :
    ∃ m, confusion pred truth = some (classes pred truth, m) ∧ total m = pred.length := by
  refine ⟨_, confusion_eq pred truth h, ?_⟩
  rw [cm_sum _ (nodup_classes _ _) _ (pairs_in_classes pred truth)]
  simp [h]

/-- the diagonal counts the equal pairs, so **accuracy is the fraction of equal labels** -/
theorem cm_diag_count (cs : List L) (hnd : cs.Nodup) (pairs : List (L × L))
    (hall : ∀ p ∈ pairs, p.1 ∈ cs ∧ p.2 ∈ cs) :
    diagSum (countLoop cs pairs) = (pairs.filter fun p => p.1 = p.2).length := by
  refine loop_count cs hnd diagSum (fun a b => if a = b then 1 else 0)
    (fun m a b hm ha hb => diagSum_incr hm a b ha hb) (diagSum_zeros _) (fun p => p.1 = p.2) ?_ pairs hall
  intro p a b ha hb
  by_cases hp : p.1 = p.2
  · have : a = b := idx_inj hnd ha (hp ▸ hb)
    simp [hp, this]
  · have : a ≠ b := by
      rintro rfl
      rw [ha] at hb; exact hp (Option.some.inj hb)
    simp [hp, this]

theorem accuracy_def {α : Type} [Field α] (cs : List L) (hnd : cs.Nodup) (pairs : List (L × L))
    (hall : ∀ p ∈ pairs, p.1 ∈ cs ∧ p.2 ∈ cs) :
    (accuracy (countLoop cs pairs) : α) =
      ((pairs.filter fun p => p.1 = p.2).length : α) / (pairs.length : α) := by
  unfold accuracy
  rw [cm_diag_count cs hnd pairs hall, cm_sum cs hnd pairs hall]

example : (accuracy (countLoop [1, 0] [(0, 1), (1, 1), (0, 0), (1, 1), (0, 0), (1, 1)]) : Rat) = 5 / 6 := by
  decide +kernel

theorem cm_row_count (cs : List L) (hnd : cs.Nodup) (pairs : List (L × L))
    (hall : ∀ p ∈ pairs, p.1 ∈ cs ∧ p.2 ∈ cs) (i : Nat) (c : L) (hi : cs[i]? = some c) :
    rowSum (countLoop cs pairs) i = (pairs.filter fun p => p.1 = c).length := by
  refine loop_count cs hnd (rowSum · i) (fun a _ => if a = i then 1 else 0)
    (fun m a b hm ha hb => rowSum_incr hm a b i ha hb) (rowSum_zeros _ _) (fun p => p.1 = c) ?_ pairs hall
  intro p a b ha _
  by_cases hp : p.1 = c
  · have : a = i := idx_inj hnd ha (hp ▸ hi)
    simp [hp, this]
  · have : a ≠ i := by
      rintro rfl
      rw [ha] at hi; exact hp (Option.some.inj hi)
    simp [hp, this]

theorem cm_col_count (cs : List L) (hnd : cs.Nodup) (pairs : List (L × L))
    (hall : ∀ p ∈ pairs, p.1 ∈ cs ∧ p.2 ∈ cs) (j : Nat) (c : L) (hj : cs[j]? = some c) :
    colSum (countLoop cs pairs) j = (pairs.filter fun p => p.2 = c).length := by
  refine loop_count cs hnd (colSum · j) (fun _ b => if b = j then 1 else 0)
    (fun m a b hm ha hb => colSum_incr hm a b j ha hb) (colSum_zeros _ _) (fun p => p.2 = c) ?_ pairs hall
  intro p a b _ hb
  by_cases hp : p.2 = c
  · have : b = j := idx_inj hnd hb (hp ▸ hj)
    simp [hp, this]
  · have : b ≠ j := by
      rintro rfl
      rw [hb] at hj; exact hp (Option.some.inj hj)
    simp [hp, this]

/-- **one-vs-all split**: the matrix of class `c` is `[[tp, fp], [fn, tn]]`, each entry the count of
the corresponding kind of sample (hence the four sum to `n`, by `count_four`) -/
theorem ova_split_cells (cs : List L) (hnd : cs.Nodup) (pairs : List (L × L))
    (hall : ∀ p ∈ pairs, p.1 ∈ cs ∧ p.2 ∈ cs) (i : Nat) (c : L) (hi : cs[i]? = some c) :
    (splitOneVsAll (countLoop cs pairs))[i]? = some
      [[(pairs.filter fun p => p.1 = c ∧ p.2 = c).length, (pairs.filter fun p => p.1 = c ∧ ¬ p.2 = c).length],
       [(pairs.filter fun p => ¬ p.1 = c ∧ p.2 = c).length, (pairs.filter fun p => ¬ p.1 = c ∧ ¬ p.2 = c).length]] := by
  have hlt : i < cs.length := (List.getElem?_eq_some_iff.mp hi).1
  have hlen : (countLoop cs pairs).length = cs.length := (countLoop_square cs pairs).1
  unfold splitOneVsAll
  rw [List.getElem?_map, List.getElem?_range (by rw [hlen]; exact hlt)]
  simp only [Option.map_some]
  rw [cm_cells_count cs hnd pairs i i c c hi hi, cm_row_count cs hnd pairs hall i c hi,
    cm_col_count cs hnd pairs hall i c hi, cm_sum cs hnd pairs hall]
  obtain ⟨h1, h2, h3⟩ := count_four (fun p : L × L => p.1 = c) (fun p => p.2 = c) pairs
  generalize (pairs.filter fun p => decide (p.1 = c ∧ p.2 = c)).length = tp at *
  generalize (pairs.filter fun p => decide (p.1 = c ∧ ¬ p.2 = c)).length = fp at *
  generalize (pairs.filter fun p => decide (¬ p.1 = c ∧ p.2 = c)).length = fn at *
  generalize (pairs.filter fun p => decide (¬ p.1 = c ∧ ¬ p.2 = c)).length = tn at *
  generalize (pairs.filter fun p => decide (p.1 = c)).length = r at *
  generalize (pairs.filter fun p => decide (p.2 = c)).length = q at *
  have e1 : r - tp = fp := by omega
  have e2 : q - tp = fn := by omega
  have e3 : pairs.length - tp - fp - fn = tn := by omega
  rw [e1, e2, e3]

example : splitOneVsAll (countLoop [0, 1, 2] [(0, 0), (1, 2), (1, 1), (2, 1), (1, 0)]) =
    [[[1, 0], [1, 3]], [[1, 2], [1, 1]], [[0, 1], [1, 3]]] := by decide

/-- **one-vs-one split**: one matrix per pair `i < j` of distinct classes, `N(N-1)/2` in all, built
from the four cells of the two classes -/
theorem ovo_split_cells (m : List (List Nat)) :
    splitOneVsOne m = (List.range m.length).flatMap (fun i =>
      ((List.range m.length).filter fun j => i < j).map fun j =>
        [[cell m i i, cell m i j], [cell m j i, cell m j j]]) ∧
    2 * (splitOneVsOne m).length = m.length * (m.length - 1) := by
  refine ⟨rfl, ?_⟩
  unfold splitOneVsOne
  generalize m.length = k
  simp only [List.length_flatMap, List.length_map]
  have hc : ∀ i, i < k → ((List.range k).filter fun j => i < j).length = k - 1 - i := by
    intro i hi
    induction k with
    | zero => omega
    | succ k ih =>
      rw [List.range_succ, List.filter_append, List.length_append]
      by_cases hik : i < k
      · rw [ih hik]; simp [hik]; omega
      · have : i = k := by omega
        subst this
        have : ((List.range i).filter fun j => decide (i < j)) = [] := by
          apply List.filter_eq_nil_iff.mpr
          intro a ha; simp at ha; simp; omega
        simp [this]
  have : ((List.range k).map fun i => ((List.range k).filter fun j => i < j).length) =
      (List.range k).map fun i => k - 1 - i := by
    apply List.map_congr_left
    intro i hi; exact hc i (List.mem_range.mp hi)
  rw [this]
  clear this hc
  induction k with
  | zero => simp
  | succ k ih =>
    rw [List.range_succ_eq_map, List.map_cons, List.sum_cons, List.map_map]
    have : ((fun i => k + 1 - 1 - i) ∘ Nat.succ) = fun i => k - 1 - i := by
      funext i; simp; omega
    rw [this]
    cases k with
    | zero => simp
    | succ k => simp at ih ⊢; rw [Nat.mul_add, ih]; ring_nf

example : splitOneVsOne [[1, 2, 3], [4, 5, 6], [7, 8, 9]] =
    [[[1, 2], [4, 5]], [[1, 3], [7, 9]], [[5, 6], [8, 9]]] := by decide

end Confusion

end LinfaSpec.Props.C05
