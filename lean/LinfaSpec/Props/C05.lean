import LinfaSpec.Proofs.Metrics
import LinfaSpec.Proofs.MetricsRoc
import LinfaSpec.Proofs.MetricsRoc2
import LinfaSpec.Proofs.MetricsReal
import LinfaSpec.Proofs.MetricsMore
import LinfaSpec.Proofs.MetricsGlue
import LinfaSpec.Proofs.MetricsCall
import LinfaSpec.Proofs.MetricsSil

/-!
# C05 — every evaluation metric equals its definition recomputed from first principles

Theorems about `LinfaSpec.Metrics` (the model of `metrics_classification.rs`,
`metrics_regression.rs`, `metrics_clustering.rs`, `correlation.rs`).  Label types are arbitrary
linear orders, numeric statements are over an arbitrary linearly ordered field (the same
definitions run on `Float32`/`Float` in the driver).
-/
namespace LinfaSpec.Props.C05
open LinfaSpec LinfaSpec.Metrics

section Confusion
variable {L : Type} [LinearOrder L]

/-- `confusion_matrix` succeeds exactly on equally long inputs and is the counting loop run over the
class list -/
theorem confusion_eq (pred truth : List L) (h : pred.length = truth.length) :
    confusion pred truth = some (classes pred truth, countLoop (classes pred truth) (pred.zip truth)) := by
  simp [confusion, h]

theorem confusion_mismatch (pred truth : List L) (h : pred.length ≠ truth.length) :
    confusion pred truth = none := by
  simp [confusion, h]

example : confusion [0, 1, 0, 1, 0, 1] [1, 1, 0, 1, 0, 1] = some ([1, 0], [[3, 0], [1, 2]]) := by decide

/-- the members are the union of both label sets, each once, in increasing order (decreasing when
there are exactly two) -/
theorem cm_members (pred truth : List L) :
    (classes pred truth).Nodup ∧ (∀ a, a ∈ classes pred truth ↔ a ∈ pred ∨ a ∈ truth) ∧
    (if (classes pred truth).length = 2 then (classes pred truth).Pairwise (· > ·)
     else (classes pred truth).Pairwise (· < ·)) := by
  refine ⟨nodup_classes pred truth, fun a => mem_classes a pred truth, ?_⟩
  by_cases h : (sortUniq (pred ++ truth)).length = 2
  · have hc : classes pred truth = (sortUniq (pred ++ truth)).reverse := by simp [classes, h]
    rw [hc]; simp only [List.length_reverse, h, if_true]
    exact List.pairwise_reverse.mpr (sorted_sortUniq _)
  · have hc : classes pred truth = sortUniq (pred ++ truth) := by simp [classes, h]
    rw [hc]; simp only [h, if_false]; exact sorted_sortUniq _

example : classes [2, 0, 2] [1, 1, 0] = [0, 1, 2] ∧ classes [true, false] [true, true] = [true, false] := by
  decide

/-- **cells count pairs**: cell `(i, j)` is the number of samples predicted `cs[i]` whose truth is
`cs[j]` -/
theorem cm_cells_count (cs : List L) (hnd : cs.Nodup) (pairs : List (L × L)) (i j : Nat) (a b : L)
    (hi : cs[i]? = some a) (hj : cs[j]? = some b) :
    cell (countLoop cs pairs) i j = (pairs.filter fun p => p.1 = a ∧ p.2 = b).length := by
  have := (cell_foldl_count cs pairs (zeros cs.length) (square_zeros _) i j).2
  unfold countLoop
  rw [this, cell_zeros, Nat.zero_add]
  congr 1
  apply List.filter_congr
  intro p _
  have : (indexOf p.1 cs = some i ∧ indexOf p.2 cs = some j) ↔ (p.1 = a ∧ p.2 = b) := by
    rw [indexOf_eq_some_iff hnd, indexOf_eq_some_iff hnd, hi, hj]
    simp [eq_comm]
  exact decide_eq_decide.mpr this

example : cell (countLoop [2, 1, 0] [(2, 1), (0, 0), (2, 1), (1, 2)]) 0 1 = 2 := by decide

/-- every pair of a `confusion_matrix` call has both labels among the members -/
theorem pairs_in_classes (pred truth : List L) :
    ∀ p ∈ pred.zip truth, p.1 ∈ classes pred truth ∧ p.2 ∈ classes pred truth := by
  intro p hp
  have := List.of_mem_zip hp
  simp [mem_classes, this.1, this.2]

/-- **the cells sum to the number of samples** -/
theorem cm_sum (cs : List L) (hnd : cs.Nodup) (pairs : List (L × L))
    (hall : ∀ p ∈ pairs, p.1 ∈ cs ∧ p.2 ∈ cs) :
    total (countLoop cs pairs) = pairs.length := by
  have := loop_count cs hnd total (fun _ _ => 1) (fun m a b hm ha hb => total_incr hm a b ha hb)
    (total_zeros _) (fun _ => True) (fun _ _ _ _ _ => by simp) pairs hall
  simpa using this

theorem cm_sum_confusion (pred truth : List L) (h : pred.length = truth.length) :
    ∃ m, confusion pred truth = some (classes pred truth, m) ∧ total m = pred.length := by
  refine ⟨_, confusion_eq pred truth h, ?_⟩
  rw [cm_sum _ (nodup_classes _ _) _ (pairs_in_classes pred truth)]
  simp [h]

/-- the first clause at the level of the call: for equally long inputs every cell of the returned
matrix is the number of samples predicted as the row's member whose truth is the column's member -/
theorem confusion_cells_count (pred truth : List L) (h : pred.length = truth.length) :
    ∃ m, confusion pred truth = some (classes pred truth, m) ∧
      ∀ i j a b, (classes pred truth)[i]? = some a → (classes pred truth)[j]? = some b →
        cell m i j = ((pred.zip truth).filter fun p => p.1 = a ∧ p.2 = b).length :=
  ⟨_, confusion_eq pred truth h, fun i j a b hi hj =>
    cm_cells_count _ (nodup_classes pred truth) _ i j a b hi hj⟩

example : ([0, 1, 1] : List Nat).length = ([1, 1, 0] : List Nat).length := rfl

/-- **cells sum, without the guard**: whatever the class list, the cells sum to the number of pairs
whose two labels both occur in it — the counting loop silently skips the others (`flatten`) -/
theorem cm_sum_dropped (cs : List L) (hnd : cs.Nodup) (pairs : List (L × L)) :
    total (countLoop cs pairs) = (pairs.filter fun p => p.1 ∈ cs ∧ p.2 ∈ cs).length := by
  rw [countLoop_filter, cm_sum cs hnd]
  intro p hp
  simpa using (List.mem_filter.mp hp).2

example : total (countLoop [0, 1] [(0, 1), (2, 1), (1, 1), (0, 3)]) = 2 := by decide

/-- **calling-form glue**: a receiver whose label set has exactly the members of its targets (every
array, view and dataset form; a `CountedTargets` that was not mutated after counting) gives the
matrix of the plain call -/
theorem confusion_with_own_labels (lp pred truth : List L) (h : ∀ a, a ∈ lp ↔ a ∈ pred) :
    confusionWith lp pred truth = confusion pred truth := by
  unfold confusionWith confusion
  rw [classes_congr lp truth pred truth (fun a => by simp only [List.mem_append, h a])]

/-- a receiver whose cached label set covers its targets (possibly with further labels) still counts
every sample; one whose cache lacks a label loses exactly the samples that carry it -/
theorem confusion_with_labels_sum (lp pred truth : List L) (h : pred.length = truth.length) :
    ∃ m, confusionWith lp pred truth = some (classes lp truth, m) ∧
      total m = ((pred.zip truth).filter fun p => p.1 ∈ lp ∨ p.1 ∈ truth).length ∧
      ((∀ a ∈ pred, a ∈ lp) → total m = pred.length) := by
  refine ⟨countLoop (classes lp truth) (pred.zip truth), by simp [confusionWith, h], ?_, ?_⟩
  · rw [cm_sum_dropped _ (nodup_classes lp truth)]
    congr 1
    apply List.filter_congr
    intro p hp
    have h2 : p.2 ∈ truth := (List.of_mem_zip hp).2
    simp [mem_classes, h2]
  · intro hcov
    rw [cm_sum _ (nodup_classes lp truth)]
    · simp [h]
    · intro p hp
      have := List.of_mem_zip hp
      simp [mem_classes, this.2, hcov p.1 this.1]

example : confusionWith [0] [0, 2, 0] [0, 0, 1] = some ([1, 0], [[0, 0], [1, 1]]) ∧
    confusionWith [0, 2] [0, 2, 0] [0, 0, 1] = confusion [0, 2, 0] [0, 0, 1] := by decide

/-- the diagonal counts the equal pairs, so **accuracy is the fraction of equal labels** -/
theorem cm_diag_count (cs : List L) (hnd : cs.Nodup) (pairs : List (L × L))
    (hall : ∀ p ∈ pairs, p.1 ∈ cs ∧ p.2 ∈ cs) :
    diagSum (countLoop cs pairs) = (pairs.filter fun p => p.1 = p.2).length := by
  refine loop_count cs hnd diagSum (fun a b => if a = b then 1 else 0)
    (fun m a b hm ha hb => diagSum_incr hm a b ha hb) (diagSum_zeros _) (fun p => p.1 = p.2) ?_ pairs hall
  intro p a b ha hb
  by_cases hp : p.1 = p.2
  · have : a = b := idx_inj hnd ha (hp ▸ hb)
    simp [hp, this]
  · have : a ≠ b := by
      rintro rfl
      rw [ha] at hb; exact hp (Option.some.inj hb)
    simp [hp, this]

theorem accuracy_def {α : Type} [Field α] (cs : List L) (hnd : cs.Nodup) (pairs : List (L × L))
    (hall : ∀ p ∈ pairs, p.1 ∈ cs ∧ p.2 ∈ cs) :
    (accuracy (countLoop cs pairs) : α) =
      ((pairs.filter fun p => p.1 = p.2).length : α) / (pairs.length : α) := by
  unfold accuracy
  rw [cm_diag_count cs hnd pairs hall, cm_sum cs hnd pairs hall]

example : (accuracy (countLoop [1, 0] [(0, 1), (1, 1), (0, 0), (1, 1), (0, 0), (1, 1)]) : Rat) = 5 / 6 := by
  decide +kernel

theorem cm_row_count (cs : List L) (hnd : cs.Nodup) (pairs : List (L × L))
    (hall : ∀ p ∈ pairs, p.1 ∈ cs ∧ p.2 ∈ cs) (i : Nat) (c : L) (hi : cs[i]? = some c) :
    rowSum (countLoop cs pairs) i = (pairs.filter fun p => p.1 = c).length := by
  refine loop_count cs hnd (rowSum · i) (fun a _ => if a = i then 1 else 0)
    (fun m a b hm ha hb => rowSum_incr hm a b i ha hb) (rowSum_zeros _ _) (fun p => p.1 = c) ?_ pairs hall
  intro p a b ha _
  by_cases hp : p.1 = c
  · have : a = i := idx_inj hnd ha (hp ▸ hi)
    simp [hp, this]
  · have : a ≠ i := by
      rintro rfl
      rw [ha] at hi; exact hp (Option.some.inj hi)
    simp [hp, this]

theorem cm_col_count (cs : List L) (hnd : cs.Nodup) (pairs : List (L × L))
    (hall : ∀ p ∈ pairs, p.1 ∈ cs ∧ p.2 ∈ cs) (j : Nat) (c : L) (hj : cs[j]? = some c) :
    colSum (countLoop cs pairs) j = (pairs.filter fun p => p.2 = c).length := by
  refine loop_count cs hnd (colSum · j) (fun _ b => if b = j then 1 else 0)
    (fun m a b hm ha hb => colSum_incr hm a b j ha hb) (colSum_zeros _ _) (fun p => p.2 = c) ?_ pairs hall
  intro p a b _ hb
  by_cases hp : p.2 = c
  · have : b = j := idx_inj hnd hb (hp ▸ hj)
    simp [hp, this]
  · have : b ≠ j := by
      rintro rfl
      rw [hb] at hj; exact hp (Option.some.inj hj)
    simp [hp, this]

/-- **one-vs-all split**: the matrix of class `c` is `[[tp, fp], [fn, tn]]`, each entry the count of
the corresponding kind of sample (hence the four sum to `n`, by `count_four`) -/
theorem ova_split_cells (cs : List L) (hnd : cs.Nodup) (pairs : List (L × L))
    (hall : ∀ p ∈ pairs, p.1 ∈ cs ∧ p.2 ∈ cs) (i : Nat) (c : L) (hi : cs[i]? = some c) :
    (splitOneVsAll (countLoop cs pairs))[i]? = some
      [[(pairs.filter fun p => p.1 = c ∧ p.2 = c).length, (pairs.filter fun p => p.1 = c ∧ ¬ p.2 = c).length],
       [(pairs.filter fun p => ¬ p.1 = c ∧ p.2 = c).length, (pairs.filter fun p => ¬ p.1 = c ∧ ¬ p.2 = c).length]] := by
  have hlt : i < cs.length := (List.getElem?_eq_some_iff.mp hi).1
  have hlen : (countLoop cs pairs).length = cs.length := (countLoop_square cs pairs).1
  unfold splitOneVsAll
  rw [List.getElem?_map, List.getElem?_range (by rw [hlen]; exact hlt)]
  simp only [Option.map_some]
  rw [cm_cells_count cs hnd pairs i i c c hi hi, cm_row_count cs hnd pairs hall i c hi,
    cm_col_count cs hnd pairs hall i c hi, cm_sum cs hnd pairs hall]
  obtain ⟨h1, h2, h3⟩ := count_four (fun p : L × L => p.1 = c) (fun p => p.2 = c) pairs
  generalize (pairs.filter fun p => decide (p.1 = c ∧ p.2 = c)).length = tp at *
  generalize (pairs.filter fun p => decide (p.1 = c ∧ ¬ p.2 = c)).length = fp at *
  generalize (pairs.filter fun p => decide (¬ p.1 = c ∧ p.2 = c)).length = fn at *
  generalize (pairs.filter fun p => decide (¬ p.1 = c ∧ ¬ p.2 = c)).length = tn at *
  generalize (pairs.filter fun p => decide (p.1 = c)).length = r at *
  generalize (pairs.filter fun p => decide (p.2 = c)).length = q at *
  have e1 : r - tp = fp := by omega
  have e2 : q - tp = fn := by omega
  have e3 : pairs.length - tp - fp - fn = tn := by omega
  rw [e1, e2, e3]

example : splitOneVsAll (countLoop [0, 1, 2] [(0, 0), (1, 2), (1, 1), (2, 1), (1, 0)]) =
    [[[1, 0], [1, 3]], [[1, 2], [1, 1]], [[0, 1], [1, 3]]] := by decide

/-- **one-vs-one split**: one matrix per pair `i < j` of distinct classes, `N(N-1)/2` in all, built
from the four cells of the two classes -/
theorem ovo_split_cells (m : List (List Nat)) :
    splitOneVsOne m = (List.range m.length).flatMap (fun i =>
      ((List.range m.length).filter fun j => i < j).map fun j =>
        [[cell m i i, cell m i j], [cell m j i, cell m j j]]) ∧
    2 * (splitOneVsOne m).length = m.length * (m.length - 1) := by
  refine ⟨rfl, ?_⟩
  unfold splitOneVsOne
  generalize m.length = k
  simp only [List.length_flatMap, List.length_map]
  have hc : ∀ i, i < k → ((List.range k).filter fun j => i < j).length = k - 1 - i := by
    intro i hi
    induction k with
    | zero => omega
    | succ k ih =>
      rw [List.range_succ, List.filter_append, List.length_append]
      by_cases hik : i < k
      · rw [ih hik]; simp [hik]; omega
      · have : i = k := by omega
        subst this
        have : ((List.range i).filter fun j => decide (i < j)) = [] := by
          apply List.filter_eq_nil_iff.mpr
          intro a ha; simp at ha; simp; omega
        simp [this]
  have : ((List.range k).map fun i => ((List.range k).filter fun j => i < j).length) =
      (List.range k).map fun i => k - 1 - i := by
    apply List.map_congr_left
    intro i hi; exact hc i (List.mem_range.mp hi)
  rw [this]
  clear this hc
  induction k with
  | zero => simp
  | succ k ih =>
    rw [List.range_succ_eq_map, List.map_cons, List.sum_cons, List.map_map]
    have : ((fun i => k + 1 - 1 - i) ∘ Nat.succ) = fun i => k - 1 - i := by
      funext i; simp; omega
    rw [this]
    cases k with
    | zero => simp
    | succ k => simp at ih ⊢; rw [Nat.mul_add, ih]; ring_nf

example : splitOneVsOne [[1, 2, 3], [4, 5, 6], [7, 8, 9]] =
    [[[1, 2], [4, 5]], [[1, 3], [7, 9]], [[5, 6], [8, 9]]] := by decide

/-- **permutation invariance of the confusion matrix**: permuting the (prediction, truth) pairs
changes neither the members nor any cell (all derived scores are functions of these) -/
theorem perm_invariant_cm (pred truth pred' truth' : List L)
    (h : (pred.zip truth).Perm (pred'.zip truth')) (hp : pred.Perm pred') (ht : truth.Perm truth') :
    classes pred truth = classes pred' truth' ∧
    ∀ i j, cell (countLoop (classes pred truth) (pred.zip truth)) i j =
           cell (countLoop (classes pred' truth') (pred'.zip truth')) i j := by
  have hc : classes pred truth = classes pred' truth' := by
    apply classes_congr
    intro a
    simp only [List.mem_append, hp.mem_iff, ht.mem_iff]
  refine ⟨hc, fun i j => ?_⟩
  rw [← hc]
  unfold countLoop
  rw [(cell_foldl_count _ _ _ (square_zeros _) i j).2, (cell_foldl_count _ _ _ (square_zeros _) i j).2]
  congr 1
  exact (h.filter _).length_eq

example : (([0, 1, 1].zip [1, 1, 0]).Perm ([1, 0, 1].zip [0, 1, 1])) := by decide

/-- `precision()` / `recall()` / `f_score` are the documented functions of the cells: on a 2×2
matrix `m00/(m00+m10)` resp. `m00/(m00+m01)`, otherwise the macro average of these over the
one-vs-all splits; `F_β = (1+β²)·p·r / (β²·p + r)` -/
theorem precision_recall_documented {α : Type} [Field α] (m : List (List Nat)) :
    (m.length = 2 → (precision m : α) = (cell m 0 0 : α) / ((cell m 0 0 : α) + (cell m 1 0 : α)) ∧
                    (recall m : α) = (cell m 0 0 : α) / ((cell m 0 0 : α) + (cell m 0 1 : α))) ∧
    (m.length ≠ 2 →
      (precision m : α) = ((splitOneVsAll m).map fun s =>
          (cell s 0 0 : α) / ((cell s 0 0 : α) + (cell s 1 0 : α))).sum / (m.length : α) ∧
      (recall m : α) = ((splitOneVsAll m).map fun s =>
          (cell s 0 0 : α) / ((cell s 0 0 : α) + (cell s 0 1 : α))).sum / (m.length : α)) ∧
    ∀ β : α, fScore β m = (1 + β * β) * ((precision m : α) * recall m) / (β * β * precision m + recall m) := by
  refine ⟨fun h => ?_, fun h => ?_, fun β => rfl⟩
  · simp [precision, recall, h, precisionBin, recallBin, cellS]
  · simp only [precision, recall, h, if_false, sumS_eq_sum]
    exact ⟨rfl, rfl⟩

example : (precision [[3, 0], [1, 2]] : Rat) = 3 / 4 ∧ (recall [[3, 0], [1, 2]] : Rat) = 1 ∧
    (fScore 1 [[3, 0], [1, 2]] : Rat) = 6 / 7 := by
  refine ⟨by decide +kernel, by decide +kernel, by decide +kernel⟩

end Confusion

section Regression
variable {α : Type} [Field α] [LinearOrder α] [IsStrictOrderedRing α]

/-- mean absolute / squared / percentage error and R² are their textbook formulas (the percentage
error is relative to the receiver `a`; R² carries the code's `tiny = 1e-10` in the denominator) -/
theorem regression_means_def (tiny : α) (a b : List α) (h : List.zipWith (· - ·) a b ≠ []) (hb : b ≠ []) :
    meanAbsError a b = some ((List.zipWith (fun x y => |x - y|) a b).sum / ((List.zipWith (· - ·) a b).length : α)) ∧
    meanSqError a b = some ((List.zipWith (fun x y => (x - y) * (x - y)) a b).sum / ((List.zipWith (· - ·) a b).length : α)) ∧
    r2 tiny a b = some (1 - (List.zipWith (fun x y => (x - y) * (x - y)) a b).sum /
      ((b.map fun y => (y - b.sum / (b.length : α)) * (y - b.sum / (b.length : α))).sum + tiny)) := by
  have e1 : (subL a b).map absS = List.zipWith (fun x y => |x - y|) a b := by
    simp [subL, List.map_zipWith, absS_eq_abs]
  have e2 : (subL a b).map (fun x => x * x) = List.zipWith (fun x y => (x - y) * (x - y)) a b := by
    simp [subL, List.map_zipWith]
  refine ⟨?_, ?_, ?_⟩
  · unfold meanAbsError
    rw [meanS_eq _ (by rw [e1]; intro hc; apply h; simpa [List.zipWith_eq_nil_iff] using hc), e1]
    simp
  · unfold meanSqError
    rw [meanS_eq _ (by rw [e2]; intro hc; apply h; simpa [List.zipWith_eq_nil_iff] using hc), e2]
    simp
  · unfold r2
    rw [meanS_eq _ hb, Option.map_some, e2, sumS_eq_sum, sqDevSum, sumS_eq_sum]

example : meanAbsError [1, 3, (2 : Rat)] [2, 1, 2] = some 1 ∧ meanSqError [1, 3, (2 : Rat)] [2, 1, 2] = some (5 / 3) := by
  refine ⟨by decide +kernel, by decide +kernel⟩

/-- `max_error` is the largest absolute difference: an upper bound that is attained -/
theorem max_error_def (a b : List α) (v : α) (h : maxError a b = some v) :
    (∀ e ∈ List.zipWith (fun x y => |x - y|) a b, e ≤ v) ∧ v ∈ List.zipWith (fun x y => |x - y|) a b := by
  have e1 : (subL a b).map absS = List.zipWith (fun x y => |x - y|) a b := by
    simp [subL, List.map_zipWith, absS_eq_abs]
  unfold maxError at h
  rw [e1] at h
  generalize List.zipWith (fun x y => |x - y|) a b = l at h
  cases l with
  | nil => simp at h
  | cons x xs =>
    simp only [Option.some.injEq] at h
    subst h
    have key : ∀ (xs : List α) (x : α), (∀ e ∈ x :: xs, e ≤ xs.foldl maxS x) ∧ xs.foldl maxS x ∈ x :: xs := by
      intro xs
      induction xs with
      | nil => intro x; simp
      | cons y ys ih =>
        intro x
        simp only [List.foldl_cons]
        obtain ⟨h1, h2⟩ := ih (maxS x y)
        rw [maxS_eq_max] at h1 h2 ⊢
        refine ⟨?_, ?_⟩
        · intro e he
          have hm := h1 (max x y) (List.mem_cons.mpr (Or.inl rfl))
          rcases List.mem_cons.mp he with he | he
          · rw [he]; exact le_trans (le_max_left x y) hm
          · rcases List.mem_cons.mp he with he | he
            · rw [he]; exact le_trans (le_max_right x y) hm
            · exact h1 e (List.mem_cons.mpr (Or.inr he))
        · rcases List.mem_cons.mp h2 with h2 | h2
          · rw [h2]
            rcases max_choice x y with hm | hm <;> rw [hm] <;> simp
          · simp [h2]
    exact key xs x

example : maxError [1, 5, (2 : Rat)] [2, 1, 2] = some 4 := by decide +kernel

/-- **explained variance is not the textbook quantity**: on the vector of linfa's own unit test the
code's formula gives `4/5` where `1 - Var(err)/Var(truth)` is `12/25`; shifting the prediction by 10
changes the value although the explained variance is shift invariant.  (Open finding
`C05-explained-variance-mean-error`; `test_explained_variance_for_single_targets` pins `0.8`.) -/
theorem explained_variance_not_textbook :
    explainedVariance (0 : Rat) [1/10, 3/10, 2/10, 5/10, 7/10] [0, 1/10, 2/10, 3/10, 4/10] = some (4 / 5) ∧
    explainedVarianceSpec [1/10, 3/10, 2/10, 5/10, 7/10] [0, 1/10, 2/10, 3/10, (4/10 : Rat)] = some (12 / 25) ∧
    explainedVariance (0 : Rat) [101/10, 103/10, 102/10, 105/10, 107/10] [0, 1/10, 2/10, 3/10, 4/10] ≠
      explainedVariance (0 : Rat) [1/10, 3/10, 2/10, 5/10, 7/10] [0, 1/10, 2/10, 3/10, 4/10] ∧
    explainedVarianceSpec [101/10, 103/10, 102/10, 105/10, 107/10] [0, 1/10, 2/10, 3/10, (4/10 : Rat)] = some (12 / 25) := by
  refine ⟨by decide +kernel, by decide +kernel, by decide +kernel, by decide +kernel⟩

/-
Full statement (false of the code, see `explained_variance_not_textbook`):
  explainedVariance 0 a b = explainedVarianceSpec a b   for all a, b.
Proved under the extra hypothesis that the mean error `m` satisfies `m = n·m²` (i.e. `m = 0` or
`m = 1/n`), which is exactly when the code's `Σe² - m` equals `Σ(e - m)² = Σe² - n·m²`.
-/
theorem explained_variance_partial (a b : List α)
    (hm : ∀ m, meanS (subL a b) = some m → m = ((subL a b).length : α) * (m * m)) :
    explainedVariance 0 a b = explainedVarianceSpec a b := by
  unfold explainedVariance explainedVarianceSpec
  cases hb : meanS b with
  | none => simp
  | some mb =>
    cases he : meanS (subL a b) with
    | none => simp
    | some me =>
      simp only [Option.bind_some, Option.map_some, add_zero]
      obtain ⟨_, hs⟩ := meanS_some he
      have := hm me he
      rw [sqDevSum_expand me (subL a b), hs, sumS_eq_sum]
      have hnum : ((subL a b).map fun x => x * x).sum - me =
          ((subL a b).map fun x => x * x).sum - 2 * me * (((subL a b).length : α) * me) +
            ((subL a b).length : α) * (me * me) := by
        linear_combination (-1 : α) * this
      rw [hnum]

example : meanS (subL [1, 3, (2 : Rat)] [2, 1, 3]) = some 0 := by decide +kernel

end Regression

section Roc
variable {α : Type} [Field α] [LinearOrder α] [IsStrictOrderedRing α]

/-- the curve computed by `roc` (repaired code: group marker initially `None`), spelled out -/
theorem roc_curve_eq (eps : α) (samples : List (α × Bool)) (hnn : ∀ x ∈ samples, 0 ≤ x.1) :
    (roc eps none samples).1 =
      let st := (sortByScore samples).foldl (rocStep eps) { tp := 0, fp := 0, s0 := none, pts := [], thr := [] }
      (st.pts ++ [(st.tp, st.fp)]).map fun p => (p.1 / st.tp, p.2 / st.fp) := by
  have hf : samples.filter (fun x => decide ((0 : α) ≤ x.1)) = samples :=
    List.filter_eq_self.mpr (fun x hx => by simpa using hnn x hx)
  simp only [roc, rocRaw, hf]

/-- **the ROC curve starts at (0,0) and ends at (1,1)** whenever both classes are present -/
theorem roc_ends (eps : α) (samples : List (α × Bool)) (hnn : ∀ x ∈ samples, 0 ≤ x.1)
    (hpos : countPos samples ≠ 0) (hneg : countNeg samples ≠ 0) :
    (roc eps none samples).1.head? = some (0, 0) ∧ (roc eps none samples).1.getLast? = some (1, 1) := by
  rw [roc_curve_eq eps samples hnn]
  have hperm := perm_sortByScore samples
  obtain ⟨htp, hfp⟩ := rocFold_counts eps (sortByScore samples) { tp := 0, fp := 0, s0 := none, pts := [], thr := [] }
  simp only [zero_add] at htp hfp
  rw [posSum_perm hperm, ← countPos_eq] at htp
  rw [negSum_perm hperm, ← countNeg_eq] at hfp
  simp only
  rw [htp, hfp]
  constructor
  · cases hl : sortByScore samples with
    | nil =>
      exfalso
      have : samples = [] := by simpa [hl] using hperm.symm
      subst this; simp [countPos, sumS] at hpos
    | cons x xs =>
      simp only [List.foldl_cons]
      have hfr : isFresh eps (none : Option α) x.1 = true := rfl
      rw [rocStep_fresh eps _ x hfr]
      obtain ⟨e, he⟩ := rocStep_pts_prefix eps xs
        (if x.2 then { tp := 0 + 1, fp := 0, s0 := some x.1, pts := [] ++ [((0 : α), (0 : α))], thr := [] ++ [x.1] }
         else { tp := 0, fp := 0 + 1, s0 := some x.1, pts := [] ++ [((0 : α), (0 : α))], thr := [] ++ [x.1] })
      rw [he]
      split <;> simp
  · simp [div_self hpos, div_self hneg]

/-- **the ROC curve is monotone**: both coordinates are non-decreasing along the curve -/
theorem roc_monotone (eps : α) (samples : List (α × Bool)) (hnn : ∀ x ∈ samples, 0 ≤ x.1) :
    (roc eps none samples).1.Pairwise fun p q => p.1 ≤ q.1 ∧ p.2 ≤ q.2 := by
  rw [roc_curve_eq eps samples hnn]
  obtain ⟨htp, hfp⟩ := rocFold_counts eps (sortByScore samples) { tp := 0, fp := 0, s0 := none, pts := [], thr := [] }
  simp only [zero_add] at htp hfp
  have hmono := rocFold_mono eps (sortByScore samples) { tp := 0, fp := 0, s0 := none, pts := [], thr := [] }
    (by simp)
  simp only
  refine List.Pairwise.map _ ?_ hmono
  intro a b hab
  have h1 := posSum_one_nonneg (sortByScore samples)
  have h2 := negSum_one_nonneg (sortByScore samples)
  rw [← htp] at h1; rw [← hfp] at h2
  exact ⟨div_le_div_of_nonneg_right hab.1 h1, div_le_div_of_nonneg_right hab.2 h2⟩

example : (roc (0 : Rat) none [(0, true), (0, false), (1/2, false), (1, true)]).1 =
    [(0, 0), (1/2, 1/2), (1/2, 1), (1, 1)] := by decide +kernel

/-- **ROC AUC equals the Mann-Whitney rank statistic with ties counted one half.**
Hypotheses: scores are non-negative (the code drops negative ones), both classes occur (the code
divides by the class totals), and two *distinct* scores differ by more than the grouping threshold
`eps = 1e-10` (closer scores are merged by the code; documented limit). -/
theorem auc_eq_mannWhitney (eps : α) (heps : 0 ≤ eps) (samples : List (α × Bool))
    (hnn : ∀ x ∈ samples, 0 ≤ x.1)
    (hsep : ∀ x ∈ samples, ∀ y ∈ samples, x.1 ≠ y.1 → eps < |x.1 - y.1|) :
    auc eps none samples = mannWhitney samples := by
  unfold auc
  rw [roc_curve_eq eps samples hnn, trapezoid_eq_trapR]
  have hperm := perm_sortByScore samples
  have inv := rocInv_foldl eps heps (sortByScore samples) (sorted_sortByScore samples)
    (fun x hx y hy => hsep x (hperm.mem_iff.mp hx) y (hperm.mem_iff.mp hy))
  simp only
  rw [trapR_scale, mannWhitney_perm hperm.symm]
  unfold mannWhitney
  rw [countPos_eq, countNeg_eq, ← inv.tp_eq, ← inv.fp_eq, ← inv.area]
  rw [mul_div_mul_left _ _ (two_ne_zero)]

example : auc (0 : Rat) none [(0, true), (0, false), (1/2, false), (1, true)] = 5 / 8 ∧
    mannWhitney [((0 : Rat), true), (0, false), (1/2, false), (1, true)] = 5 / 8 := by
  refine ⟨by decide +kernel, by decide +kernel⟩

/-- **the ROC curve and its thresholds from first principles** (non-negative scores whose distinct
values differ by more than `eps`): the thresholds are the distinct scores in increasing order; the
curve has, for every threshold `s`, the point (fraction of positives scored below `s`, fraction of
negatives scored below `s`) and ends with `(P/P, N/N)`.  `nBelow l c (some s)` is the number of
samples of class `c` with score `< s`, `nBelow l c none` the number of samples of class `c`. -/
theorem roc_curve_def (eps : α) (heps : 0 ≤ eps) (samples : List (α × Bool))
    (hnn : ∀ x ∈ samples, 0 ≤ x.1)
    (hsep : ∀ x ∈ samples, ∀ y ∈ samples, x.1 ≠ y.1 → eps < |x.1 - y.1|) :
    ∃ thr : List α, thr.Pairwise (· < ·) ∧ (∀ s, s ∈ thr ↔ ∃ y ∈ samples, y.1 = s) ∧
      (roc eps none samples).2 = thr ∧
      (roc eps none samples).1 =
        (thr.map fun s => ((nBelow samples true (some s) : α) / (nBelow samples true none : α),
                           (nBelow samples false (some s) : α) / (nBelow samples false none : α))) ++
        [((nBelow samples true none : α) / (nBelow samples true none : α),
          (nBelow samples false none : α) / (nBelow samples false none : α))] :=
  roc_shape eps heps samples hnn hsep

example : nBelow [((0 : Rat), true), (0, false), (1/2, false), (1, true)] false (some (1 : Rat)) = 2 ∧
    nBelow [((0 : Rat), true), (0, false), (1/2, false), (1, true)] true none = 2 := by
  refine ⟨by decide +kernel, by decide +kernel⟩

/-- **the ROC curve, its thresholds and the AUC are unchanged by one permutation applied to scores
and labels together** -/
theorem perm_invariant_roc (eps : α) (heps : 0 ≤ eps) (samples samples' : List (α × Bool))
    (hnn : ∀ x ∈ samples, 0 ≤ x.1)
    (hsep : ∀ x ∈ samples, ∀ y ∈ samples, x.1 ≠ y.1 → eps < |x.1 - y.1|)
    (h : samples.Perm samples') :
    roc eps none samples = roc eps none samples' ∧ auc eps none samples = auc eps none samples' := by
  have hnn' : ∀ x ∈ samples', 0 ≤ x.1 := fun x hx => hnn x (h.mem_iff.mpr hx)
  have hsep' : ∀ x ∈ samples', ∀ y ∈ samples', x.1 ≠ y.1 → eps < |x.1 - y.1| :=
    fun x hx y hy => hsep x (h.mem_iff.mpr hx) y (h.mem_iff.mpr hy)
  obtain ⟨thr, hs, hm, ht, hc⟩ := roc_shape eps heps samples hnn hsep
  obtain ⟨thr', hs', hm', ht', hc'⟩ := roc_shape eps heps samples' hnn' hsep'
  have hthr : thr = thr' := by
    apply sorted_ext hs hs'
    intro a
    rw [hm a, hm' a]
    constructor
    · rintro ⟨y, hy, hya⟩; exact ⟨y, h.mem_iff.mp hy, hya⟩
    · rintro ⟨y, hy, hya⟩; exact ⟨y, h.mem_iff.mpr hy, hya⟩
  have hroc : roc eps none samples = roc eps none samples' := by
    apply Prod.ext
    · rw [hc, hc', hthr]
      simp only [nBelow_perm h]
    · rw [ht, ht', hthr]
  exact ⟨hroc, by unfold auc; rw [hroc]⟩

example : ([((0 : Rat), true), (1/2, false), (1, true)]).Perm [(1, true), (0, true), (1/2, false)] := by decide +kernel

/-- the defect that was repaired: with the original sentinel `s0 = 0.0` the curve of the same four
samples does not start at the origin and the area is 1/2, not the Mann-Whitney value 5/8 -/
theorem roc_sentinel_defect :
    (roc (0 : Rat) (some 0) [(0, true), (0, false), (1/2, false), (1, true)]).1 = [(1/2, 1/2), (1/2, 1), (1, 1)] ∧
    auc (0 : Rat) (some 0) [(0, true), (0, false), (1/2, false), (1, true)] = 1 / 2 := by
  refine ⟨by decide +kernel, by decide +kernel⟩

end Roc

section Mcc

/-- **Matthews correlation, binary case**: the general triple loop of `mcc()` evaluated on a 2×2
matrix `[[tp, fp], [fn, tn]]` is `(tp·tn − fp·fn) / √((tp+fp)(fn+tn)(tp+fn)(fp+tn))` -/
theorem mcc_binary (a b c d : Nat) :
    (mcc [[a, b], [c, d]] : ℝ) =
      ((a : ℝ) * d - (b : ℝ) * c) /
        Real.sqrt ((((a : ℝ) + b) * ((c : ℝ) + d)) * (((a : ℝ) + c) * ((b : ℝ) + d))) := by
  rw [mcc_two_by_two, div_div, ← Real.sqrt_mul (by positivity)]
  have : 2 * (((a : ℝ) + b) * ((c : ℝ) + d)) * (2 * (((a : ℝ) + c) * ((b : ℝ) + d))) =
      (2 : ℝ) ^ 2 * ((((a : ℝ) + b) * ((c : ℝ) + d)) * (((a : ℝ) + c) * ((b : ℝ) + d))) := by ring
  rw [this, Real.sqrt_mul (by positivity), Real.sqrt_sq (by norm_num)]
  rw [mul_div_mul_left _ _ two_ne_zero]

example : (mcc [[3, 0], [1, 2]] : ℝ) = 6 / Real.sqrt 72 := by
  rw [mcc_binary]; norm_num

/-- **Matthews correlation, any number of classes**: on a `k × k` matrix the triple loop of `mcc()`
is the multi-class coefficient `(c·s − Σ_k p_k·t_k) / √(Σ_k p_k (s − p_k)) / √(Σ_k t_k (s − t_k))`
with `c` the number of correct samples (trace), `s` the number of samples, `p_k` / `t_k` the number
of samples predicted as / truly of class `k` (row and column sums) -/
theorem mcc_multiclass (k : Nat) (m : List (List Nat)) (h : Square k m) :
    (mcc m : ℝ) =
      (((diagSum m : Nat) : ℝ) * ((total m : Nat) : ℝ) -
          ((List.range k).map fun a => ((rowSum m a : Nat) : ℝ) * ((colSum m a : Nat) : ℝ)).sum) /
        Real.sqrt (((List.range k).map fun a =>
          ((rowSum m a : Nat) : ℝ) * (((total m : Nat) : ℝ) - ((rowSum m a : Nat) : ℝ))).sum) /
        Real.sqrt (((List.range k).map fun a =>
          ((colSum m a : Nat) : ℝ) * (((total m : Nat) : ℝ) - ((colSum m a : Nat) : ℝ))).sum) := by
  unfold mcc
  simp only [h.1, Transc.sqrt]
  rw [mcc_covXY h, foldl_add, foldl_add]
  simp

example : Square 3 [[2, 0, 1], [1, 3, 0], [0, 1, 2]] := by
  refine ⟨rfl, ?_⟩
  intro r hr
  simp only [List.mem_cons, List.not_mem_nil, or_false] at hr
  rcases hr with rfl | rfl | rfl <;> rfl

/-- **Matthews correlation of a confusion matrix, in terms of the samples**: with `n` samples, `c`
of them predicted correctly, `p_l` predicted as class `l` and `t_l` truly of class `l`, `mcc()` of
the matrix built by `confusion_matrix` is `(c·n − Σ_l p_l·t_l) / √(Σ_l p_l(n−p_l)) / √(Σ_l t_l(n−t_l))` -/
theorem mcc_confusion {L : Type} [LinearOrder L] (cs : List L) (hnd : cs.Nodup) (pairs : List (L × L))
    (hall : ∀ p ∈ pairs, p.1 ∈ cs ∧ p.2 ∈ cs) :
    (mcc (countLoop cs pairs) : ℝ) =
      (((pairs.filter fun p => p.1 = p.2).length : ℝ) * (pairs.length : ℝ) -
          (cs.map fun c => ((pairs.filter fun p => p.1 = c).length : ℝ) *
            ((pairs.filter fun p => p.2 = c).length : ℝ)).sum) /
        Real.sqrt ((cs.map fun c => ((pairs.filter fun p => p.1 = c).length : ℝ) *
          ((pairs.length : ℝ) - ((pairs.filter fun p => p.1 = c).length : ℝ))).sum) /
        Real.sqrt ((cs.map fun c => ((pairs.filter fun p => p.2 = c).length : ℝ) *
          ((pairs.length : ℝ) - ((pairs.filter fun p => p.2 = c).length : ℝ))).sum) := by
  rw [mcc_multiclass cs.length _ (countLoop_square cs pairs), cm_diag_count cs hnd pairs hall,
    cm_sum cs hnd pairs hall]
  have e1 := range_map_eq_map cs
    (fun a => ((rowSum (countLoop cs pairs) a : Nat) : ℝ) * ((colSum (countLoop cs pairs) a : Nat) : ℝ))
    (fun c => ((pairs.filter fun p => p.1 = c).length : ℝ) * ((pairs.filter fun p => p.2 = c).length : ℝ))
    (fun a c hc => by rw [cm_row_count cs hnd pairs hall a c hc, cm_col_count cs hnd pairs hall a c hc])
  have e2 := range_map_eq_map cs
    (fun a => ((rowSum (countLoop cs pairs) a : Nat) : ℝ) *
      ((pairs.length : ℝ) - ((rowSum (countLoop cs pairs) a : Nat) : ℝ)))
    (fun c => ((pairs.filter fun p => p.1 = c).length : ℝ) *
      ((pairs.length : ℝ) - ((pairs.filter fun p => p.1 = c).length : ℝ)))
    (fun a c hc => by rw [cm_row_count cs hnd pairs hall a c hc])
  have e3 := range_map_eq_map cs
    (fun a => ((colSum (countLoop cs pairs) a : Nat) : ℝ) *
      ((pairs.length : ℝ) - ((colSum (countLoop cs pairs) a : Nat) : ℝ)))
    (fun c => ((pairs.filter fun p => p.2 = c).length : ℝ) *
      ((pairs.length : ℝ) - ((pairs.filter fun p => p.2 = c).length : ℝ)))
    (fun a c hc => by rw [cm_col_count cs hnd pairs hall a c hc])
  rw [e1, e2, e3]

example : ([0, 1, 2] : List Nat).Nodup ∧ ∀ p ∈ [(0, 1), (2, 2), (1, 1)], p.1 ∈ [0, 1, 2] ∧ p.2 ∈ [0, 1, 2] := by
  decide

end Mcc

section PermReg
variable {α : Type} [Field α] [LinearOrder α] [IsStrictOrderedRing α]

/-- **permutation invariance of the regression scores built from sums**: applying one permutation
to predictions and truths together (a permutation of the list of pairs) leaves MAE, MSE, R² and the
coded explained variance unchanged -/
theorem perm_invariant_regression (tiny : α) (ps ps' : List (α × α)) (h : ps.Perm ps') :
    meanAbsError (ps.map Prod.fst) (ps.map Prod.snd) = meanAbsError (ps'.map Prod.fst) (ps'.map Prod.snd) ∧
    meanSqError (ps.map Prod.fst) (ps.map Prod.snd) = meanSqError (ps'.map Prod.fst) (ps'.map Prod.snd) ∧
    r2 tiny (ps.map Prod.fst) (ps.map Prod.snd) = r2 tiny (ps'.map Prod.fst) (ps'.map Prod.snd) ∧
    explainedVariance tiny (ps.map Prod.fst) (ps.map Prod.snd) =
      explainedVariance tiny (ps'.map Prod.fst) (ps'.map Prod.snd) := by
  have hsub : ∀ qs : List (α × α), subL (qs.map Prod.fst) (qs.map Prod.snd) = qs.map fun p => p.1 - p.2 := by
    intro qs; induction qs with
    | nil => rfl
    | cons q qs ih => simp only [subL, List.map_cons, List.zipWith_cons_cons] at ih ⊢; rw [ih]
  have hmean : ∀ {l l' : List α}, l.Perm l' → meanS l = meanS l' := by
    intro l l' hp
    unfold meanS
    rw [sumS_eq_sum, sumS_eq_sum, hp.sum_eq, hp.length_eq]
    cases l <;> cases l' <;> simp_all
  have hsum : ∀ {l l' : List α}, l.Perm l' → sumS l = sumS l' := by
    intro l l' hp; rw [sumS_eq_sum, sumS_eq_sum, hp.sum_eq]
  have hd : (ps.map fun p => p.1 - p.2).Perm (ps'.map fun p => p.1 - p.2) := h.map _
  have hb : (ps.map Prod.snd).Perm (ps'.map Prod.snd) := h.map _
  refine ⟨?_, ?_, ?_, ?_⟩
  · unfold meanAbsError; rw [hsub, hsub]; exact hmean (hd.map _)
  · unfold meanSqError; rw [hsub, hsub]; exact hmean (hd.map _)
  · unfold r2 sqDevSum; rw [hsub, hsub, hmean hb, hsum (hd.map _)]
    congr 1; funext m; rw [hsum (hb.map _)]
  · unfold explainedVariance sqDevSum; rw [hsub, hsub, hmean hb, hmean hd, hsum (hd.map _)]
    congr 1; funext m; congr 1; funext e; rw [hsum (hb.map _)]

example : ([((1 : Rat), (2 : Rat)), (3, 1), (2, 2)]).Perm [(2, 2), (1, 2), (3, 1)] := by decide

/-- **mean absolute percentage error**: the mean of `|(x - y) / x|`, the error taken relative to
the receiver `a` (the prediction), as the statement says -/
theorem mape_def (a b : List α) (h : List.zipWith (· - ·) a b ≠ []) :
    mape a b = some ((List.zipWith (fun x y => |(x - y) / x|) a b).sum /
      ((List.zipWith (· - ·) a b).length : α)) := by
  have e1 : (List.zipWith (· / ·) (subL a b) a).map absS = List.zipWith (fun x y => |(x - y) / x|) a b := by
    rw [subL_div_eq]; simp [List.map_zipWith, absS_eq_abs]
  unfold mape
  rw [meanS_eq _ (by rw [e1]; intro hc; apply h; simpa [List.zipWith_eq_nil_iff] using hc), e1]
  simp

example : mape [2, 4, (1 : Rat)] [1, 5, 1] = some (1 / 4) := by decide +kernel

/-- **median absolute error**: the middle element of the sorted absolute errors, the mean of the two
middle ones for an even number of samples.  `s` is the sorted list the code builds. -/
theorem median_def (a b : List α) (h : List.zipWith (· - ·) a b ≠ []) :
    ∃ s : List α, s.Perm (List.zipWith (fun x y => |x - y|) a b) ∧ s.Pairwise (· ≤ ·) ∧
      ∃ (h0 : s.length / 2 < s.length),
        medianAbsError a b = some (if s.length % 2 = 0
          then (s[s.length / 2 - 1]'(by omega) + s[s.length / 2]) / 2 else s[s.length / 2]) := by
  have e1 : (subL a b).map absS = List.zipWith (fun x y => |x - y|) a b := by
    simp [subL, List.map_zipWith, absS_eq_abs]
  have hne : List.zipWith (fun x y => |x - y|) a b ≠ [] := by
    intro hc; apply h; simpa [List.zipWith_eq_nil_iff] using hc
  refine ⟨sortAsc (List.zipWith (fun x y => |x - y|) a b), perm_sortAsc _, sorted_sortAsc _, ?_⟩
  have hlen : 0 < (sortAsc (List.zipWith (fun x y => |x - y|) a b)).length := by
    rw [(perm_sortAsc _).length_eq]; exact List.length_pos_of_ne_nil hne
  refine ⟨by omega, ?_⟩
  unfold medianAbsError
  rw [e1]
  exact median_pick _ hlen

example : medianAbsError [1, 5, 2, (9 : Rat)] [2, 1, 2, 3] = some (5 / 2) := by decide +kernel

/-- **permutation invariance of the order statistics and of MAPE**: median absolute error, max
error and MAPE are unchanged by one permutation applied to predictions and truths together -/
theorem perm_invariant_order_stats (ps ps' : List (α × α)) (h : ps.Perm ps') :
    medianAbsError (ps.map Prod.fst) (ps.map Prod.snd) = medianAbsError (ps'.map Prod.fst) (ps'.map Prod.snd) ∧
    maxError (ps.map Prod.fst) (ps.map Prod.snd) = maxError (ps'.map Prod.fst) (ps'.map Prod.snd) ∧
    mape (ps.map Prod.fst) (ps.map Prod.snd) = mape (ps'.map Prod.fst) (ps'.map Prod.snd) := by
  have hd : ((ps.map fun p => p.1 - p.2).map absS).Perm ((ps'.map fun p => p.1 - p.2).map absS) :=
    (h.map _).map _
  refine ⟨?_, ?_, ?_⟩
  · unfold medianAbsError
    rw [subL_eq_map, subL_eq_map, sortAsc_perm hd]
  · rw [maxError_eq, maxError_eq, subL_eq_map, subL_eq_map]
    exact maxOpt_perm hd
  · unfold mape
    rw [subL_div_eq, subL_div_eq, zipWith_map_fst_snd, zipWith_map_fst_snd]
    exact meanS_perm ((h.map _).map _)

end PermReg

section LogLoss

/-- **log-loss is the mean clipped negative log-likelihood**: every probability is clipped to
`[eps, 1 - eps]` (`eps = f32::EPSILON`), the summand is `-ln p` for a positive and `-ln (1 - p)`
for a negative sample, the sum is divided by the number of samples; no samples = `NotEnoughSamples` -/
theorem log_loss_def (eps : ℝ) (heps : eps ≤ 1 - eps) (ps : List (ℝ × Bool)) :
    logLoss eps (ps.map Prod.fst) (ps.map Prod.snd) =
      if ps = [] then none else some ((ps.map fun p =>
        if p.2 then -Real.log (max eps (min (1 - eps) p.1))
        else -Real.log (1 - max eps (min (1 - eps) p.1))).sum / (ps.length : ℝ)) :=
  logLoss_pairs eps heps ps

/-- log-loss is unchanged by one permutation applied to probabilities and labels together -/
theorem perm_invariant_log_loss (eps : ℝ) (heps : eps ≤ 1 - eps) (ps ps' : List (ℝ × Bool)) (h : ps.Perm ps') :
    logLoss eps (ps.map Prod.fst) (ps.map Prod.snd) = logLoss eps (ps'.map Prod.fst) (ps'.map Prod.snd) := by
  rw [logLoss_pairs eps heps, logLoss_pairs eps heps, (h.map _).sum_eq, h.length_eq]
  by_cases hp : ps = []
  · subst hp; rw [h.symm.eq_nil]
  · have hp' : ps' ≠ [] := fun hc => hp (by subst hc; exact h.eq_nil)
    simp [hp, hp']

example : ((1 : ℝ) / 8388608) ≤ 1 - 1 / 8388608 := by norm_num

/-- **mean squared log error**: the mean of `(ln(1+x) - ln(1+y))²` -/
theorem msle_def (a b : List ℝ) (h : List.zipWith (· - ·) a b ≠ []) :
    meanSqLogError a b = some ((List.zipWith (fun x y =>
        (Real.log (1 + x) - Real.log (1 + y)) * (Real.log (1 + x) - Real.log (1 + y))) a b).sum /
      ((List.zipWith (· - ·) a b).length : ℝ)) := by
  have e2 : (subL (a.map fun x => Transc.ln (1 + x)) (b.map fun x => Transc.ln (1 + x))).map (fun x => x * x) =
      List.zipWith (fun x y =>
        (Real.log (1 + x) - Real.log (1 + y)) * (Real.log (1 + x) - Real.log (1 + y))) a b := by
    simp [subL, List.map_zipWith, List.zipWith_map, Transc.ln]
  unfold meanSqLogError meanSqError
  rw [meanS_eq _ (by rw [e2]; intro hc; apply h; simpa [List.zipWith_eq_nil_iff] using hc), e2]
  simp

example : List.zipWith (· - ·) [(1 : ℝ), 2] [0, 3] ≠ [] := by simp

/-- the mean squared log error is unchanged by one permutation applied to predictions and truths together -/
theorem perm_invariant_msle (ps ps' : List (ℝ × ℝ)) (h : ps.Perm ps') :
    meanSqLogError (ps.map Prod.fst) (ps.map Prod.snd) = meanSqLogError (ps'.map Prod.fst) (ps'.map Prod.snd) := by
  unfold meanSqLogError
  have key := (perm_invariant_regression (0 : ℝ)
    (ps.map fun p => (Transc.ln (1 + p.1), Transc.ln (1 + p.2)))
    (ps'.map fun p => (Transc.ln (1 + p.1), Transc.ln (1 + p.2))) (h.map _)).2.1
  rw [List.map_map, List.map_map, List.map_map, List.map_map] at key ⊢
  exact key

example : ([((1 : ℝ), (2 : ℝ)), (3, 1)]).Perm [(3, 1), (1, 2)] := List.Perm.swap _ _ _

end LogLoss

section Pearson

/-- **Pearson coefficients equal the textbook formula, in upper-triangle order**: the output lists,
for the feature pairs `(i, j)` with `i < j` in row-major order, the covariance divided by the product
of the standard deviations (`pearsonCoeff`, all with the `n - 1` denominator).  The proof shows that
the centred columns have mean zero, so the `var_axis` of the centred column the code takes is the
variance of the feature. -/
theorem pearson_def (rows : List (List ℝ)) (p : Nat) (h : rows ≠ []) :
    pearson rows p = (List.range (p - 1)).flatMap fun i =>
      ((List.range p).filter fun j => i < j).map fun j =>
        coMoment rows i j / ((rows.length - 1 : Nat) : ℝ) /
          Real.sqrt (coMoment rows i i / ((rows.length - 1 : Nat) : ℝ)) /
          Real.sqrt (coMoment rows j j / ((rows.length - 1 : Nat) : ℝ)) :=
  pearson_eq_coeff rows p h

example : coMoment [[1, 2], [3, 6], [(5 : ℝ), 10]] 0 1 = 16 := by
  simp only [coMoment, colMean, List.map_cons, List.map_nil, List.sum_cons, List.sum_nil, List.getD_cons_zero,
    List.getD_cons_succ, List.length_cons, List.length_nil]
  norm_num

/-- there are `p(p-1)/2` coefficients -/
theorem pearson_count (rows : List (List ℝ)) (p : Nat) : 2 * (pearson rows p).length = p * (p - 1) := by
  have h := (ovo_split_cells (List.replicate p ([] : List Nat))).2
  rw [List.length_replicate] at h
  rw [← h, pearson_unfold]
  congr 1
  unfold splitOneVsOne
  rw [List.length_replicate]
  simp only [List.length_flatMap, List.length_map]
  cases p with
  | zero => rfl
  | succ k =>
    have hk : ((List.range (k + 1)).filter fun j => decide (k < j)).length = 0 := by
      rw [List.length_eq_zero_iff, List.filter_eq_nil_iff]
      intro a ha
      have := List.mem_range.mp ha
      simp; omega
    have key : ∀ c : Nat → Nat, c k = 0 → ((List.range k).map c).sum = ((List.range (k + 1)).map c).sum := by
      intro c hc
      rw [List.range_succ, List.map_append, List.sum_append]
      simp [hc]
    exact key _ hk

example : (pearson [[1, 2, 4], [3, 6, 1], [(5 : ℝ), 10, 2]] 3).length = 3 := by
  have := pearson_count [[1, 2, 4], [3, 6, 1], [(5 : ℝ), 10, 2]] 3
  omega

/-- the coefficients are unchanged by a permutation of the observations -/
theorem perm_invariant_pearson (rows rows' : List (List ℝ)) (p : Nat) (h : rows.Perm rows') :
    pearson rows p = pearson rows' p := by
  by_cases hr : rows = []
  · subst hr; rw [h.symm.eq_nil]
  · have hr' : rows' ≠ [] := fun hc => hr (by subst hc; exact h.eq_nil)
    rw [pearson_eq_coeff _ _ hr, pearson_eq_coeff _ _ hr']
    simp only [pearsonCoeff_perm h]

end Pearson

section Silhouette
variable {α : Type} [Field α] [LinearOrder α] [IsStrictOrderedRing α]

/-- **silhouette of one sample**: with `a` the mean distance to the other members of the own
cluster (`total / (count - 1)`, 0 for a singleton) and `means` the mean distances to every other
cluster, the value is `(b - a) / max a b` where `b` is the least of `means` -/
theorem silhouette_sample_def (d : List (List α)) (labels : List Nat) (i li : Nat)
    (hk : (labelSet labels).filter (· != li) ≠ []) :
    ∃ b : α,
      b ∈ ((labelSet labels).filter (· != li)).map (fun l => totalDist d labels i l / ((labelCount labels l : Nat) : α)) ∧
      (∀ m ∈ ((labelSet labels).filter (· != li)).map (fun l => totalDist d labels i l / ((labelCount labels l : Nat) : α)), b ≤ m) ∧
      silSample d labels i li =
        (b - (if labelCount labels li = 1 then 0 else totalDist d labels i li / ((labelCount labels li - 1 : Nat) : α))) /
          max (if labelCount labels li = 1 then 0 else totalDist d labels i li / ((labelCount labels li - 1 : Nat) : α)) b := by
  unfold silSample
  simp only []
  generalize (if labelCount labels li = 1 then (0 : α) else totalDist d labels i li / ((labelCount labels li - 1 : Nat) : α)) = a
  generalize hm : ((labelSet labels).filter (· != li)).map (fun l => totalDist d labels i l / ((labelCount labels l : Nat) : α)) = means
  cases means with
  | nil => exact absurd (List.map_eq_nil_iff.mp hm) hk
  | cons m0 ms =>
    obtain ⟨h1, h2⟩ := foldl_min_spec ms m0
    refine ⟨_, h2, fun m hm' => h1 m hm', ?_⟩
    simp only []
    split
    · rename_i hba; rw [max_eq_left hba]
    · rename_i hba; rw [max_eq_right (le_of_lt (not_le.mp hba))]

/-- **`a(x)` excludes the sample itself**: when the distance of sample `i` to itself is 0, the
own-cluster accumulator is the sum of the distances to the *other* members of its cluster, and the
divisor `count - 1` is their number -/
theorem silhouette_a_excludes_self (d : List (List α)) (labels : List Nat) (i li : Nat)
    (hrow : (d.getD i [])[i]? = some 0) (hl : labels[i]? = some li) :
    totalDist d labels i li =
      ((((d.getD i []).zip labels).eraseIdx i).filterMap fun (x, lj) => if lj == li then some x else none).sum ∧
    labelCount labels li - 1 = ((labels.eraseIdx i).filter (· == li)).length :=
  ⟨totalDist_excludes_self d labels i li hrow hl, labelCount_excludes_self labels i li hl⟩

example : ([[0, 1, 4], [1, 0, 3], [4, 3, (0 : Rat)]].getD 1 [])[1]? = some 0 ∧ ([0, 0, 1] : List Nat)[1]? = some 0 := by
  decide +kernel

/-- **silhouette score**: 1 for a single cluster, otherwise the mean of the per-sample values -/
theorem silhouette_def (d : List (List α)) (labels : List Nat) :
    ((labelSet labels).length = 1 → silhouette d labels = 1) ∧
    ((labelSet labels).length ≠ 1 → silhouette d labels =
      (((List.range labels.length).zip labels).map fun p => silSample d labels p.1 p.2).sum / (labels.length : α)) := by
  refine ⟨fun h => by simp [silhouette, h], fun h => ?_⟩
  simp only [silhouette, h, if_false, sumS_eq_sum]

example : silhouette [[0, 1, 4, 5], [1, 0, 3, 4], [4, 3, 0, 1], [5, 4, 1, (0 : Rat)]] [0, 0, 1, 1] = 47 / 63 := by
  decide +kernel

end Silhouette

/-! ## Round 3, second audit: call-level statements, the exact group test of the repaired `roc`,
the Euclidean distances of the silhouette, the coded explained variance with its regulariser -/

section CallLevel
variable {L : Type} [LinearOrder L]

/-- **accuracy at the level of the call**: for equally long inputs the accuracy of the returned
matrix is the fraction of samples whose two labels are equal (no side hypotheses left) -/
theorem accuracy_confusion {α : Type} [Field α] (pred truth : List L) (h : pred.length = truth.length) :
    ∃ m, confusion pred truth = some (classes pred truth, m) ∧
      (accuracy m : α) = (((pred.zip truth).filter fun p => p.1 = p.2).length : α) / (pred.length : α) := by
  refine ⟨_, confusion_eq pred truth h, ?_⟩
  rw [accuracy_def _ (nodup_classes pred truth) _ (pairs_in_classes pred truth)]
  simp [List.length_zip, h]

example : (([0, 1, 1].zip [1, 1, 0]).filter fun p : Nat × Nat => p.1 = p.2).length = 1 := by decide

/-- **Matthews correlation at the level of the call** (`mcc_confusion` with its hypotheses discharged) -/
theorem mcc_confusion_call (pred truth : List L) (h : pred.length = truth.length) :
    ∃ m, confusion pred truth = some (classes pred truth, m) ∧
      (mcc m : ℝ) =
        ((((pred.zip truth).filter fun p => p.1 = p.2).length : ℝ) * ((pred.zip truth).length : ℝ) -
          ((classes pred truth).map fun c => (((pred.zip truth).filter fun p => p.1 = c).length : ℝ) *
            (((pred.zip truth).filter fun p => p.2 = c).length : ℝ)).sum) /
        Real.sqrt (((classes pred truth).map fun c => (((pred.zip truth).filter fun p => p.1 = c).length : ℝ) *
          (((pred.zip truth).length : ℝ) - (((pred.zip truth).filter fun p => p.1 = c).length : ℝ))).sum) /
        Real.sqrt (((classes pred truth).map fun c => (((pred.zip truth).filter fun p => p.2 = c).length : ℝ) *
          (((pred.zip truth).length : ℝ) - (((pred.zip truth).filter fun p => p.2 = c).length : ℝ))).sum) :=
  ⟨_, confusion_eq pred truth h, mcc_confusion _ (nodup_classes pred truth) _ (pairs_in_classes pred truth)⟩

example : ([0, 1, 2] : List Nat).length = ([2, 1, 0] : List Nat).length := rfl

/-- **one-vs-one split in terms of the samples**: the matrices of `split_one_vs_one` are exactly the
`[[N(a,a), N(a,b)], [N(b,a), N(b,b)]]` for the pairs of members `a = cs[i]`, `b = cs[j]`, `i < j`, with
`N(a,b)` the number of samples predicted `a` whose truth is `b` (`ovo_split_cells` counts them: N(N-1)/2) -/
theorem ovo_split_counts (cs : List L) (hnd : cs.Nodup) (pairs : List (L × L)) :
    (∀ M ∈ splitOneVsOne (countLoop cs pairs), ∃ (i j : Nat) (a b : L), i < j ∧ cs[i]? = some a ∧ cs[j]? = some b ∧
        M = [[pairCount pairs a a, pairCount pairs a b], [pairCount pairs b a, pairCount pairs b b]]) ∧
    (∀ (i j : Nat) (a b : L), i < j → cs[i]? = some a → cs[j]? = some b →
        [[pairCount pairs a a, pairCount pairs a b], [pairCount pairs b a, pairCount pairs b b]] ∈
          splitOneVsOne (countLoop cs pairs)) := by
  have hlen : (countLoop cs pairs).length = cs.length := (countLoop_square cs pairs).1
  constructor
  · intro M hM
    unfold splitOneVsOne at hM
    simp only [List.mem_flatMap, List.mem_map, List.mem_filter, List.mem_range, decide_eq_true_eq, hlen] at hM
    obtain ⟨i, hi, j, ⟨hj, hij⟩, rfl⟩ := hM
    have ha : cs[i]? = some cs[i] := List.getElem?_eq_getElem hi
    have hb : cs[j]? = some cs[j] := List.getElem?_eq_getElem hj
    refine ⟨i, j, cs[i], cs[j], hij, ha, hb, ?_⟩
    rw [cm_cells_count cs hnd pairs i i _ _ ha ha, cm_cells_count cs hnd pairs i j _ _ ha hb,
      cm_cells_count cs hnd pairs j i _ _ hb ha, cm_cells_count cs hnd pairs j j _ _ hb hb]
    rfl
  · intro i j a b hij ha hb
    have hi : i < cs.length := (List.getElem?_eq_some_iff.mp ha).1
    have hj : j < cs.length := (List.getElem?_eq_some_iff.mp hb).1
    unfold splitOneVsOne
    simp only [List.mem_flatMap, List.mem_map, List.mem_filter, List.mem_range, decide_eq_true_eq, hlen]
    refine ⟨i, hi, j, ⟨hj, hij⟩, ?_⟩
    rw [cm_cells_count cs hnd pairs i i _ _ ha ha, cm_cells_count cs hnd pairs i j _ _ ha hb,
      cm_cells_count cs hnd pairs j i _ _ hb ha, cm_cells_count cs hnd pairs j j _ _ hb hb]
    rfl

example : splitOneVsOne (countLoop [0, 1, 2] [(0, 0), (1, 2), (1, 1), (2, 1), (1, 0)]) =
    [[[1, 0], [1, 1]], [[1, 0], [0, 0]], [[1, 1], [1, 0]]] := by decide

/-- **precision and recall of a binary matrix in terms of the samples**: with members `[c0, c1]`
precision is `N(c0,c0) / (N(c0,c0) + N(c1,c0))` and recall `N(c0,c0) / (N(c0,c0) + N(c0,c1))` -/
theorem precision_recall_counts_binary {α : Type} [Field α] (c0 c1 : L) (hne : c0 ≠ c1) (pairs : List (L × L)) :
    (precision (countLoop [c0, c1] pairs) : α) =
      (pairCount pairs c0 c0 : α) / ((pairCount pairs c0 c0 : α) + (pairCount pairs c1 c0 : α)) ∧
    (recall (countLoop [c0, c1] pairs) : α) =
      (pairCount pairs c0 c0 : α) / ((pairCount pairs c0 c0 : α) + (pairCount pairs c0 c1 : α)) := by
  have hnd : ([c0, c1] : List L).Nodup := by simp [hne]
  have hlen : (countLoop [c0, c1] pairs).length = 2 := (countLoop_square [c0, c1] pairs).1
  obtain ⟨hp, hr⟩ := (precision_recall_documented (α := α) (countLoop [c0, c1] pairs)).1 hlen
  rw [hp, hr, cm_cells_count _ hnd pairs 0 0 c0 c0 rfl rfl, cm_cells_count _ hnd pairs 1 0 c1 c0 rfl rfl,
    cm_cells_count _ hnd pairs 0 1 c0 c1 rfl rfl]
  exact ⟨rfl, rfl⟩

example : (precision (countLoop [1, 0] [(0, 1), (1, 1), (0, 0), (1, 1), (0, 0), (1, 1)]) : Rat) = 3 / 4 := by
  decide +kernel

/-- **macro-averaged precision and recall in terms of the samples** (any number of classes other than
two): the mean over the members `c` of `TP_c / (TP_c + #{pred ≠ c, truth = c})` resp.
`TP_c / (TP_c + #{pred = c, truth ≠ c})` -/
theorem precision_recall_counts_macro {α : Type} [Field α] (cs : List L) (hnd : cs.Nodup) (pairs : List (L × L))
    (hall : ∀ p ∈ pairs, p.1 ∈ cs ∧ p.2 ∈ cs) (h2 : cs.length ≠ 2) :
    (precision (countLoop cs pairs) : α) =
      (cs.map fun c => ((pairs.filter fun p => p.1 = c ∧ p.2 = c).length : α) /
        (((pairs.filter fun p => p.1 = c ∧ p.2 = c).length : α) +
          ((pairs.filter fun p => ¬ p.1 = c ∧ p.2 = c).length : α))).sum / (cs.length : α) ∧
    (recall (countLoop cs pairs) : α) =
      (cs.map fun c => ((pairs.filter fun p => p.1 = c ∧ p.2 = c).length : α) /
        (((pairs.filter fun p => p.1 = c ∧ p.2 = c).length : α) +
          ((pairs.filter fun p => p.1 = c ∧ ¬ p.2 = c).length : α))).sum / (cs.length : α) := by
  have hlen : (countLoop cs pairs).length = cs.length := (countLoop_square cs pairs).1
  have hl2 : (countLoop cs pairs).length ≠ 2 := by rw [hlen]; exact h2
  have hsl : (splitOneVsAll (countLoop cs pairs)).length = cs.length := by simp [splitOneVsAll, hlen]
  obtain ⟨hp, hr⟩ := (precision_recall_documented (α := α) (countLoop cs pairs)).2.1 hl2
  rw [hp, hr, hlen]
  constructor
  · congr 2
    apply map_eq_of_getElem? _ _ _ _ hsl
    intro i c hc
    exact ⟨_, ova_split_cells cs hnd pairs hall i c hc, by simp [cell]⟩
  · congr 2
    apply map_eq_of_getElem? _ _ _ _ hsl
    intro i c hc
    exact ⟨_, ova_split_cells cs hnd pairs hall i c hc, by simp [cell]⟩

example : ([0, 1, 2] : List Nat).length ≠ 2 := by decide

end CallLevel

section RocExact
variable {α : Type} [Field α] [LinearOrder α] [IsStrictOrderedRing α]

/-- the group test of the repaired code, `s0.map_or(true, |s0| *s != s0)`, is the model's
`isFresh 0` (the driver runs `roc 0 none`) -/
theorem roc_group_test_is_inequality (s0 s : α) :
    isFresh (0 : α) (some s0) s = decide (s ≠ s0) ∧ isFresh (0 : α) none s = true := by
  refine ⟨?_, rfl⟩
  show decide ((0 : α) < absS (s - s0)) = decide (s ≠ s0)
  rw [absS_eq_abs]
  exact decide_eq_decide.mpr (by rw [abs_pos, sub_ne_zero])

example : isFresh (0 : Rat) (some (1/2)) (1/2) = false ∧ isFresh (0 : Rat) (some (1/2)) (3/4) = true := by
  decide +kernel

/-- **ROC AUC equals the Mann-Whitney rank statistic with ties counted one half — for ALL non-negative
score vectors** (no separation hypothesis: the repaired code groups exactly the equal scores).
If a class is absent both sides are `x / 0`. -/
theorem auc_eq_mannWhitney_exact (samples : List (α × Bool)) (hnn : ∀ x ∈ samples, 0 ≤ x.1) :
    auc (0 : α) none samples = mannWhitney samples :=
  auc_eq_mannWhitney 0 le_rfl samples hnn (fun _ _ _ _ h => abs_pos.mpr (sub_ne_zero.mpr h))

example : auc (0 : Rat) none [(1/20000000000, false), (3/25000000000, true)] = 1 ∧
    mannWhitney [((1/20000000000 : Rat), false), (3/25000000000, true)] = 1 := by
  refine ⟨by decide +kernel, by decide +kernel⟩

/-- the curve and its thresholds from first principles, for all non-negative score vectors -/
theorem roc_curve_def_exact (samples : List (α × Bool)) (hnn : ∀ x ∈ samples, 0 ≤ x.1) :
    ∃ thr : List α, thr.Pairwise (· < ·) ∧ (∀ s, s ∈ thr ↔ ∃ y ∈ samples, y.1 = s) ∧
      (roc (0 : α) none samples).2 = thr ∧
      (roc (0 : α) none samples).1 =
        (thr.map fun s => ((nBelow samples true (some s) : α) / (nBelow samples true none : α),
                           (nBelow samples false (some s) : α) / (nBelow samples false none : α))) ++
        [((nBelow samples true none : α) / (nBelow samples true none : α),
          (nBelow samples false none : α) / (nBelow samples false none : α))] :=
  roc_shape 0 le_rfl samples hnn (fun _ _ _ _ h => abs_pos.mpr (sub_ne_zero.mpr h))

example : ∀ x ∈ [((1/20000000000 : Rat), false), (3/25000000000, true)], 0 ≤ x.1 := by decide +kernel

/-- curve, thresholds and AUC are unchanged by a joint permutation, for all non-negative score vectors -/
theorem perm_invariant_roc_exact (samples samples' : List (α × Bool)) (hnn : ∀ x ∈ samples, 0 ≤ x.1)
    (h : samples.Perm samples') :
    roc (0 : α) none samples = roc (0 : α) none samples' ∧ auc (0 : α) none samples = auc (0 : α) none samples' :=
  perm_invariant_roc 0 le_rfl samples samples' hnn (fun _ _ _ _ h => abs_pos.mpr (sub_ne_zero.mpr h)) h

example : ([((0 : Rat), true), (1/2, false)]).Perm [(1/2, false), (0, true)] := by decide +kernel

/-- the defect that was repaired in round 3: with the original group test `|s - s0| > 1e-10` two
saturated probabilities `5e-11` (negative) and `1.2e-10` (positive) were merged into one group — the
curve was the diagonal, the area 1/2, where the Mann-Whitney statistic is 1 -/
theorem roc_epsilon_grouping_defect :
    (roc (1/10000000000 : Rat) none [(1/20000000000, false), (3/25000000000, true)]).1 = [(0, 0), (1, 1)] ∧
    auc (1/10000000000 : Rat) none [(1/20000000000, false), (3/25000000000, true)] = 1 / 2 ∧
    mannWhitney [((1/20000000000 : Rat), false), (3/25000000000, true)] = 1 := by
  refine ⟨by decide +kernel, by decide +kernel, by decide +kernel⟩

end RocExact

section SilhouetteDist

/-- **the distances the silhouette runs on are Euclidean** (`silhouettePts x l = silhouette (distMatrix x) l`
is what the driver evaluates): entry `(i, j)` of `distMatrix x` is `√Σ_k (x_ik − x_jk)²`, and the
diagonal is zero — the hypothesis of `silhouette_a_excludes_self` -/
theorem silhouette_distances_euclidean (x : List (List ℝ)) (labels : List Nat) :
    silhouettePts x labels = silhouette (distMatrix x) labels ∧
    (∀ (i j : Nat) (xi xj : List ℝ), x[i]? = some xi → x[j]? = some xj →
      ((distMatrix x).getD i [])[j]? =
        some (Real.sqrt ((List.zipWith (fun a b => (a - b) * (a - b)) xi xj).sum))) ∧
    (∀ i : Nat, i < x.length → ((distMatrix x).getD i [])[i]? = some 0) :=
  ⟨rfl, fun i j xi xj hi hj => distMatrix_entry x i j xi xj hi hj, fun i hi => distMatrix_diag x i hi⟩

/-- **`a(x)` on records**: for every sample of a data set the own-cluster accumulator is the sum of
the Euclidean distances to the *other* members of its cluster, divided by their number -/
theorem silhouette_points_a_excludes_self (x : List (List ℝ)) (labels : List Nat) (i li : Nat)
    (hi : i < x.length) (hl : labels[i]? = some li) :
    totalDist (distMatrix x) labels i li =
      (((((distMatrix x).getD i []).zip labels).eraseIdx i).filterMap
        fun (v, lj) => if lj == li then some v else none).sum ∧
    labelCount labels li - 1 = ((labels.eraseIdx i).filter (· == li)).length :=
  silhouette_a_excludes_self (distMatrix x) labels i li (distMatrix_diag x i hi) hl

example : (1 : Nat) < ([[0, 0], [3, 4], [(6 : ℝ), 8]] : List (List ℝ)).length ∧ ([0, 0, 1] : List Nat)[1]? = some 0 := by
  exact ⟨by decide, rfl⟩

/-- **the silhouette score is unchanged by one permutation applied to records and labels together**
(the last score of the statement's invariance clause that had no theorem): `ps` is the list of
(record, label) pairs; the score is that of `silhouettePts`, the function the driver evaluates -/
theorem perm_invariant_silhouette (ps ps' : List (List ℝ × Nat)) (h : ps.Perm ps') :
    silhouettePts (ps.map Prod.fst) (ps.map Prod.snd) = silhouettePts (ps'.map Prod.fst) (ps'.map Prod.snd) :=
  silhouettePts_perm h

example : ([([0, 0], 0), ([3, 4], 1), ([(6 : ℝ), 8], 0)] : List (List ℝ × Nat)).Perm
    [([3, 4], 1), ([0, 0], 0), ([6, 8], 0)] := List.Perm.swap _ _ _

/-- the score in position-free form: 1 for a single label, else the mean over the samples of
`(b − a)/max(a, b)`-by-cases (`silS`), with `a`, `b` built from the total Euclidean distances of the
record to the samples of each label and the cluster sizes -/
theorem silhouette_points_def (ps : List (List ℝ × Nat)) :
    silhouettePts (ps.map Prod.fst) (ps.map Prod.snd) =
      if (labelSet (ps.map Prod.snd)).length = 1 then 1
      else (ps.map fun p => silS ps p.1 p.2).sum / (ps.length : ℝ) :=
  silhouettePts_eq ps

example : (labelSet [0, 1, 0]).length ≠ 1 := by decide

/-- **the label-count glue of the silhouette** (`sils`): a receiver whose `label_count()` is that of
its own labels (every array-backed dataset, a `CountedTargets` that was not mutated) gives the plain
score; `silSample` is the cached form `silSampleC` with the data's own label set and cluster sizes -/
theorem silhouette_fresh_cache {α : Type} [Field α] [LinearOrder α] (d : List (List α)) (labels : List Nat) (i li : Nat) :
    silhouetteC (labelCache labels) d labels = some (silhouette d labels) ∧
    silSample d labels i li = silSampleC (labelSet labels) (labelCount labels) d labels i li :=
  ⟨silhouetteC_fresh d labels, rfl⟩

example : silhouetteC (labelCache [0, 0, 1, 1]) [[0, 1, 4, 5], [1, 0, 3, 4], [4, 3, 0, 1], [5, 4, 1, (0 : Rat)]] [0, 0, 1, 1] =
    some (47 / 63) ∧
    silhouetteC (labelCache [0, 0, 0, 1]) [[0, 1, 4, 5], [1, 0, 3, 4], [4, 3, 0, 1], [5, 4, 1, (0 : Rat)]] [0, 0, 1, 2] = none := by
  refine ⟨by decide +kernel, by decide +kernel⟩

end SilhouetteDist

section ExplainedVarianceCoded
variable {α : Type} [Field α] [LinearOrder α] [IsStrictOrderedRing α]

/-- **what `explained_variance` computes, with the regulariser the driver runs (`tiny = 1e-10`)**:
`1 − (Σe² − mean e) / (Σ(y − ȳ)² + tiny)` — the value the open finding's class
`value=sum_sq_minus_mean_error` recognises -/
theorem explained_variance_coded_def (tiny : α) (a b : List α) (h : List.zipWith (· - ·) a b ≠ []) (hb : b ≠ []) :
    explainedVariance tiny a b = some (1 - ((List.zipWith (fun x y => (x - y) * (x - y)) a b).sum -
        (List.zipWith (· - ·) a b).sum / ((List.zipWith (· - ·) a b).length : α)) /
      ((b.map fun y => (y - b.sum / (b.length : α)) * (y - b.sum / (b.length : α))).sum + tiny)) := by
  have e2 : (subL a b).map (fun x => x * x) = List.zipWith (fun x y => (x - y) * (x - y)) a b := by
    simp [subL, List.map_zipWith]
  have hs : subL a b ≠ [] := h
  unfold explainedVariance
  rw [meanS_eq _ hb, Option.bind_some, meanS_eq _ hs, Option.map_some, e2, sumS_eq_sum, sqDevSum, sumS_eq_sum]
  rfl

example : explainedVariance (1/10000000000 : Rat) [1, 3, 2] [2, 1, 3] = some (1 - 6 / (2 + 1/10000000000)) := by
  decide +kernel

/-- `explained_variance_partial` for the regulariser the code carries: under the same hypothesis on
the mean error the coded value is `1 − Σ(e − ē)² / (Σ(y − ȳ)² + tiny)` for every `tiny` -/
theorem explained_variance_partial_tiny (tiny : α) (a b : List α)
    (hm : ∀ m, meanS (subL a b) = some m → m = ((subL a b).length : α) * (m * m)) :
    explainedVariance tiny a b = (meanS b).bind fun mean => (meanS (subL a b)).map fun me =>
      1 - sqDevSum me (subL a b) / (sqDevSum mean b + tiny) := by
  unfold explainedVariance
  cases hb : meanS b with
  | none => simp
  | some mb =>
    cases he : meanS (subL a b) with
    | none => simp
    | some me =>
      simp only [Option.bind_some, Option.map_some]
      obtain ⟨_, hs⟩ := meanS_some he
      have := hm me he
      rw [sqDevSum_expand me (subL a b), hs, sumS_eq_sum]
      have hnum : ((subL a b).map fun x => x * x).sum - me =
          ((subL a b).map fun x => x * x).sum - 2 * me * (((subL a b).length : α) * me) +
            ((subL a b).length : α) * (me * me) := by
        linear_combination (-1 : α) * this
      rw [hnum]

example : meanS (subL [1, 3, (2 : Rat)] [2, 1, 3]) = some 0 := by decide +kernel

/-- the refutation with the regulariser the code carries: still `≠` the textbook value on linfa's own
test vector -/
theorem explained_variance_not_textbook_tiny :
    explainedVariance (1/10000000000 : Rat) [1/10, 3/10, 2/10, 5/10, 7/10] [0, 1/10, 2/10, 3/10, 4/10] ≠
      explainedVarianceSpec [1/10, 3/10, 2/10, 5/10, 7/10] [0, 1/10, 2/10, 3/10, (4/10 : Rat)] := by
  decide +kernel

end ExplainedVarianceCoded

end LinfaSpec.Props.C05
