import LinfaSpec.Model.Metrics

namespace LinfaSpec.Props.C05
open LinfaSpec.Metrics

end LinfaSpec.Props.C05
