import LinfaSpec.Props.C01
import LinfaSpec.Props.C02
import LinfaSpec.Props.C05
import LinfaSpec.Props.C07
import LinfaSpec.Props.C08
import LinfaSpec.Props.C09
import LinfaSpec.Props.C14
import LinfaSpec.Props.C17
