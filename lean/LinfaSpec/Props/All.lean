import LinfaSpec.Props.C01
import LinfaSpec.Props.C04
