import LinfaSpec.Props.C01
