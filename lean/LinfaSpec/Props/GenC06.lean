import LinfaSpec.Gen.Vectors
import LinfaSpec.Model.Kernel
import LinfaSpec.Proofs.Kernel
import Mathlib.Algebra.Order.Field.Basic

/-!
# C06 — obligations about the kernel functions GENERATED from the Rust source

`LinfaSpec.Gen.Vectors.Kernel` is regenerated from `algorithms/linfa-kernel/src/lib.rs`
(`KernelMethod::distance`, one definition per match arm) on every check by `tools/vec2lean.py`.
The theorems state that the generated arms are the model's `Kernel.kernelFn` — the function every
C06 theorem about kernel matrices is about.
-/
set_option linter.unusedSectionVars false
namespace LinfaSpec.Props.GenC06
open LinfaSpec LinfaSpec.Kernel LinfaSpec.Gen.Vectors

/-- the source matches exactly the three variants the model has -/
theorem variants_are_model : Gen.Vectors.Kernel.distance_variants = ["Gaussian", "Linear", "Polynomial"] := rfl

section generic
variable {α : Type} [Add α] [Sub α] [Mul α] [Div α] [Neg α] [LT α] [DecidableLT α] [LE α] [DecidableLE α]
  [DecidableEq α] [OfNat α 0] [OfNat α 1] [NatCast α] [OfScientific α] [Transc α] [KPow α]

/-- the Gaussian arm: `exp(-Σ(x-y)² / eps)`, the squared distance summed left to right — the model's
`kernelFn (.gaussian eps)` in every scalar carrier (also `Float`) -/
theorem gaussian_is_model (eps : α) (a b : List α) :
    Gen.Vectors.Kernel.distance_Gaussian eps a b = kernelFn (.gaussian eps) a b := by
  unfold Gen.Vectors.Kernel.distance_Gaussian kernelFn sqDist
  rw [List.map_zip_eq_zipWith]
  rfl
end generic

section field
variable {α : Type} [Field α] [LinearOrder α] [IsStrictOrderedRing α] [Transc α] [KPow α]

/-- the translator reads `a.mul(&b).sum()` as the left-to-right sum; the model follows ndarray's
unrolled eight-lane sum.  Over a commutative ring they are the same number. -/
theorem linear_is_model (a b : List α) :
    Gen.Vectors.Kernel.distance_Linear a b = kernelFn .linear a b := by
  show sumS _ = ndSum _
  rw [ndSum_eq_sum, sumS, List.sum_eq_foldl]

theorem polynomial_is_model (c d : α) (a b : List α) :
    Gen.Vectors.Kernel.distance_Polynomial KPow.powf c d a b = kernelFn (.poly c d) a b := by
  show KPow.powf (sumS _ + c) d = KPow.powf (ndSum _ + c) d
  rw [ndSum_eq_sum, sumS, List.sum_eq_foldl]
end field

example : Gen.Vectors.Kernel.distance_Linear ([1, 2, 3] : List Rat) [4, 5, 6] = 32 := by decide +kernel

end LinfaSpec.Props.GenC06
