import LinfaSpec.Model.Serde
import LinfaSpec.Props.C19
import LinfaSpec.Gen.C19Types

/-!
# C19 — obligations about the schema table generated from the Rust sources

`LinfaSpec.Gen.C19Types.types` is rewritten by `tools/serde2lean.py` on every check from the current
linfa sources (every `struct` / `enum` deriving serde, its fields / variants and their serde
attributes).  The statements below are the hypotheses of the glue theorems of `Props/C19.lean`
(`struct_named_roundtrip`, `no_skip_roundtrip_identity`, `variant_index_roundtrip`,
`compact_restore_fails_when_field_omitted`) instantiated on that table.  They are closed facts about
the generated text, checked by kernel evaluation: a new `serde(skip)`, a skipped variant moved in front
of a live one, a `skip_serializing_if` / `default` / `with` attribute or a duplicated field name in the
sources makes the corresponding obligation fail to build.
-/
namespace LinfaSpec.Props.GenC19
open LinfaSpec.Wire LinfaSpec.Serde LinfaSpec.Gen.C19Types

/-- **the members excluded from serialisation are exactly the two reviewed ones** (`skip_reviewed`):
`linfa::Error::NdShape` (a foreign error type, never produced by a round trip) and the tokenizer
function pointer of the count vectoriser (guarded by `tokenizer_deserialization_guard`).  For every
other type `no_skip_roundtrip_identity` applies: the restored fields are the original fields. -/
theorem skips_are_the_reviewed_ones :
    skipTable types = [("linfa::Error", ["NdShape"]),
      ("linfa-preprocessing::CountVectorizerValidParams", ["tokenizer_function"])] := by
  decide +kernel

/-- **no enum declares a skipped variant before a live one**: hypothesis of `variant_index_roundtrip`
for every enum of the workspace (the `linfa::Error` defect cannot come back unnoticed) -/
theorem enums_skipped_last : types.all (fun t => skippedLast t.variants) = true := by
  decide +kernel

/-- **no member's presence on the wire depends on its value or on the direction** (`skip_serializing_if`,
one-sided skips, `default`, `with`, `rename`, `flatten`, tagging options): every non-skipped field is
always written, so `compact_restore_fails_when_field_omitted` never applies -/
theorem no_conditional_members : flagTable types = [] := by
  decide +kernel

/-- the live field names of every struct (and struct variant) are distinct as wire keys: hypothesis of
`struct_named_roundtrip` -/
theorem struct_keys_distinct :
    types.all (fun t => nodupStrings (liveKeys t.fields) &&
      t.variants.all fun w => nodupStrings (liveKeys w.fields)) = true := by
  decide +kernel

/-- the live variant names of every enum are distinct: hypothesis of `variant_index_shifted_by_leading_skip` -/
theorem variant_names_distinct : types.all (fun t => nodupStrings (liveNames t.variants)) = true := by
  decide +kernel

/-- **witness of the open finding `C19-error-ndshape-unserialisable`**: today's `linfa::Error` has a variant the
serialiser refuses (`serIndex` = `none`; general form: `Props.C19.skipped_variant_not_serialisable`) — a value of a
serde type that does not survive a round trip because it cannot even be written.  Replayed on the real code by the
harness (`#serialise type=linfa::Error variant=NdShape`, `varidx … ser=-`). -/
theorem error_ndshape_not_serialisable :
    (types.find? fun t => t.id == "linfa::Error").map (fun t => serIndex "NdShape" t.variants) = some none := by
  decide +kernel

/-- bridging lemma: a type without excluded members has no skipped field -/
theorem fields_live_of_skipsOf_nil (t : TypeInfo) (h : skipsOf t = []) :
    t.fields.all (fun f => !f.skip) = true := by
  have h1 : (t.fields.filter fun f => f.skip).map (fun f => f.name) = [] := (List.append_eq_nil_iff.mp h).1
  have h2 : (t.fields.filter fun f => f.skip) = [] := List.map_eq_nil_iff.mp h1
  rw [List.all_eq_true]
  intro f hf
  cases hs : f.skip
  · rfl
  · have : f ∈ t.fields.filter fun f => f.skip := List.mem_filter.mpr ⟨hf, hs⟩
    rw [h2] at this; cases this

/-- **every struct of today's sources other than the count-vectoriser parameters restores all its fields
unchanged**, whatever the values and whatever a skipped field's default would be: the glue theorem
`no_skip_roundtrip_identity` applied to the generated table through `skips_are_the_reviewed_ones` -/
theorem all_other_structs_restore_identically (t : TypeInfo) (ht : t ∈ types)
    (hid : t.id ≠ "linfa::Error" ∧ t.id ≠ "linfa-preprocessing::CountVectorizerValidParams")
    (dflt : FieldInfo → Val) (vs : List Val) (hl : t.fields.length = vs.length) :
    restore dflt t.fields vs = vs := by
  apply LinfaSpec.Props.C19.no_skip_roundtrip_identity dflt t.fields vs hl
  apply fields_live_of_skipsOf_nil
  by_cases hnil : skipsOf t = []
  · exact hnil
  · exfalso
    have hmem : (t.id, skipsOf t) ∈ skipTable types := by
      simp only [skipTable, List.mem_filter, List.mem_map]
      refine ⟨⟨t, ht, rfl⟩, ?_⟩
      cases hsk : skipsOf t with
      | nil => exact absurd hsk hnil
      | cons a r => rfl
    rw [skips_are_the_reviewed_ones] at hmem
    simp only [List.mem_cons, Prod.mk.injEq, List.not_mem_nil, or_false] at hmem
    rcases hmem with h | h
    · exact hid.1 h.1
    · exact hid.2 h.1

example : ∃ t, t ∈ types ∧ t.id = "linfa-clustering::Sample" := by
  have h : (types.find? fun t => t.id == "linfa-clustering::Sample").isSome = true := by decide +kernel
  obtain ⟨t, ht⟩ := Option.isSome_iff_exists.mp h
  exact ⟨t, List.mem_of_find?_eq_some ht, by simpa using List.find?_some ht⟩

end LinfaSpec.Props.GenC19
