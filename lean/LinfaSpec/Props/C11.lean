import LinfaSpec.Proofs.LeastSquares
import Mathlib.Algebra.Order.Field.Rat

/-!
# C11 — least-squares estimators return a minimiser of their documented objective

Certificate-style theorems about `LinfaSpec.LeastSquares` (the model of linfa-elasticnet's
`coordinate_descent`, `duality_gap`, `fit`, and of the documented objective), over any ordered
field.  A design matrix is a list of columns `C`, each as long as the target `y`.
`objective C y w b l1r pen n` is `n` times the documented objective
`1/(2n)‖y − Xw − b‖² + pen·(l1r‖w‖₁ + (1−l1r)/2‖w‖²)`; the solver's duality gap is on that scale.
Hypotheses are the code's guards: `0 ≤ l1_ratio ≤ 1`, `penalty ≥ 0` (`ParamGuard`), `n = nrows ≥ 0`.
-/
namespace LinfaSpec.Props.C11
open LinfaSpec LinfaSpec.LeastSquares

variable {α : Type} [Field α] [LinearOrder α] [IsStrictOrderedRing α]

/-- **The duality gap computed by `duality_gap` bounds the suboptimality**: for the running
residual `r = y − Xw`, *no* coefficient vector `w'` lowers the objective by more than the gap —
both branches of the code (`‖Xᵀr − l2·w‖_∞ > l1` with the rescaled dual point, and the plain one). -/
theorem gap_bounds_suboptimality (contig : Bool) (C : List (List α)) (y w w' : List α) (l1r pen n : α)
    (hC : ∀ c ∈ C, c.length = y.length) (hw : w.length = C.length) (hw' : w'.length = C.length)
    (h0 : 0 ≤ l1r) (h1 : l1r ≤ 1) (hpen : 0 ≤ pen) (hn : 0 ≤ n) :
    objective C y w 0 l1r pen n - objective C y w' 0 l1r pen n
      ≤ dualityGap contig C y w (residual C y w 0) l1r pen n := by
  have hl1 : 0 ≤ l1r * pen * n := mul_nonneg (mul_nonneg h0 hpen) hn
  have hl2 : 0 ≤ (1 - l1r) * pen * n := mul_nonneg (mul_nonneg (sub_nonneg.mpr h1) hpen) hn
  have hres : ∀ v, residual C y v 0 = List.zipWith (fun yi xi => yi - xi) y (matVec y.length C v) := by
    intro v; simp [residual]
  have hrl : (residual C y w 0).length = y.length := by
    rw [hres]; simp [matVec_length _ _ _ hC]
  generalize hl1e : l1r * pen * n = l1 at hl1
  generalize hl2e : (1 - l1r) * pen * n = l2 at hl2
  simp only [dualityGap, objective, penaltyTerm, dotS_eq, dotU_eq, dotC_eq, half_eq, normL1, sumS_eq,
    absS_fun, hl1e, hl2e]
  generalize hr : residual C y w 0 = r at hrl ⊢
  have hdn0 := normMax_nonneg (List.zipWith (fun c wj => dot c r - wj * l2) C w)
  have hdn := le_normMax (List.zipWith (fun c wj => dot c r - wj * l2) C w)
  generalize normMax (List.zipWith (fun c wj => dot c r - wj * l2) C w) = dn at hdn0 hdn ⊢
  rw [hres w']
  by_cases h : l1 < dn
  · rw [if_pos h]
    have hdpos : 0 < dn := lt_of_le_of_lt hl1 h
    have hc : 0 ≤ l1 / dn := div_nonneg hl1 hdn0
    have hcd : l1 / dn * dn ≤ l1 := by rw [div_mul_cancel₀ _ (ne_of_gt hdpos)]
    have key := weak_duality C y w w' r l1 l2 (l1 / dn) dn hC hw hw' hrl hl2 hc hcd hdn0 hdn
    generalize l1 / dn = c at key ⊢
    simp only []
    nlinarith [key]
  · rw [if_neg h]
    have key := weak_duality C y w w' r l1 l2 1 dn hC hw hw' hrl hl2 zero_le_one
      (by rw [one_mul]; exact le_of_not_gt h) hdn0 hdn
    simp only []
    nlinarith [key]

example : objective (α := ℚ) [[1, 2, 3]] [-1, 0, 1] [1 / 7] 0 (1 / 2) 1 3
      - objective [[1, 2, 3]] [-1, 0, 1] [1 / 9] 0 (1 / 2) 1 3
    ≤ dualityGap false [[1, 2, 3]] [-1, 0, 1] [1 / 7] (residual [[1, 2, 3]] [-1, 0, 1] [1 / 7] 0) (1 / 2) 1 3 :=
  gap_bounds_suboptimality false _ _ _ _ _ _ _ (by simp) (by simp) (by simp) (by norm_num) (by norm_num)
    (by norm_num) (by norm_num)

/-- the reported gap is **non-negative** (take `w' = w`) -/
theorem gap_nonneg (contig : Bool) (C : List (List α)) (y w : List α) (l1r pen n : α)
    (hC : ∀ c ∈ C, c.length = y.length) (hw : w.length = C.length)
    (h0 : 0 ≤ l1r) (h1 : l1r ≤ 1) (hpen : 0 ≤ pen) (hn : 0 ≤ n) :
    0 ≤ dualityGap contig C y w (residual C y w 0) l1r pen n := by
  have := gap_bounds_suboptimality contig C y w w l1r pen n hC hw hw h0 h1 hpen hn
  simpa using this

example : 0 ≤ dualityGap (α := ℚ) true [[1, -1]] [2, 0] [1] (residual [[1, -1]] [2, 0] [1] 0) 1 (1 / 4) 2 :=
  gap_nonneg true _ _ _ _ _ _ (by simp) (by simp) (by norm_num) (by norm_num) (by norm_num) (by norm_num)

/-- **Intercept**: for fixed coefficients the squared error is minimal in the intercept *iff* the
intercept is the mean residual `mean(y − Xw)` (so a returned pair whose residual does not have
zero mean is not a joint minimiser — what the oracle clause `intercept_jointly_optimal` tests). -/
theorem intercept_optimal_iff_mean (C : List (List α)) (y w : List α) (b : α)
    (hC : ∀ c ∈ C, c.length = y.length) (hn : 0 < y.length) :
    (∀ b', sse C y w b ≤ sse C y w b') ↔ b = sumS (residual C y w 0) / (y.length : α) := by
  have hlen := residual_length C y w 0 hC
  simp only [sse, dotS_eq, sumS_eq]
  generalize hv : residual C y w 0 = v at hlen
  have hnpos : (0 : α) < (y.length : α) := by exact_mod_cast hn
  have hsh : ∀ b', dot (residual C y w b') (residual C y w b') =
      dot (v.map (· - v.sum / (y.length : α))) (v.map (· - v.sum / (y.length : α)))
        + (y.length : α) * (v.sum / (y.length : α) - b') ^ 2 := by
    intro b'
    rw [residual_shift, hv, sum_sq_shift v b' (v.sum / (y.length : α)), hlen]
    have : v.sum - (y.length : α) * (v.sum / (y.length : α)) = 0 := by field_simp; ring
    rw [this]; ring
  constructor
  · intro h
    have := h (v.sum / (y.length : α))
    rw [hsh b, hsh (v.sum / (y.length : α))] at this
    have h2 : (y.length : α) * (v.sum / (y.length : α) - b) ^ 2 ≤ 0 := by nlinarith
    have h3 : (v.sum / (y.length : α) - b) ^ 2 ≤ 0 := by
      by_contra hc
      have : 0 < (y.length : α) * (v.sum / (y.length : α) - b) ^ 2 := mul_pos hnpos (lt_of_not_ge hc)
      linarith
    have h4 : v.sum / (y.length : α) - b = 0 := by
      have := sq_nonneg (v.sum / (y.length : α) - b)
      exact pow_eq_zero_iff (n := 2) (by norm_num) |>.mp (le_antisymm h3 this)
    linarith
  · intro h b'
    rw [hsh b, hsh b', h]
    have : 0 ≤ (y.length : α) * (v.sum / (y.length : α) - b') ^ 2 := mul_nonneg hnpos.le (sq_nonneg _)
    nlinarith

example : (∀ b', sse (α := ℚ) [[1, 2, 3]] [1, 2, 4] [1] (1 / 3) ≤ sse [[1, 2, 3]] [1, 2, 4] [1] b') :=
  (intercept_optimal_iff_mean _ _ _ _ (by simp) (by simp)).mpr (by simp [residual, matVec, sumS]; norm_num)

/-- **OLS certificate**: if the residual of `(w, b)` is orthogonal to every feature column and to the
constant column, no `(w', b')` has a smaller sum of squared errors. -/
theorem normal_eq_optimal (C : List (List α)) (y w w' : List α) (b b' : α)
    (hC : ∀ c ∈ C, c.length = y.length) (hw : w.length = C.length) (hw' : w'.length = C.length)
    (horth : ∀ c ∈ C, dotS c (residual C y w b) = 0) (hone : sumS (residual C y w b) = 0) :
    sse C y w b ≤ sse C y w' b' := by
  have hlen := residual_length C y w b hC
  simp only [sse, dotS_eq, sumS_eq] at *
  generalize hr : residual C y w b = r at *
  have hal : ∀ v, (matVec y.length C v).length = y.length := fun v => matVec_length _ _ _ hC
  have e1 : dot r (residual C y w' b') = dot r y := by
    unfold residual
    rw [dot_residual b' r y _ (hal w').symm hlen, dot_matVec _ C w' r hC hw', sum_zipWith_zero C r w' horth, hone]
    ring
  have e2 : dot r r = dot r y := by
    have e : dot r (residual C y w b) = dot r y := by
      unfold residual
      rw [dot_residual b r y _ (hal w).symm hlen, dot_matVec _ C w r hC hw, sum_zipWith_zero C r w horth, hone]
      ring
    rwa [hr] at e
  have hl' : (residual C y w' b').length = r.length := by rw [residual_length C y w' b' hC, hlen]
  have := half_sq_ge 1 (residual C y w' b') r hl'
  nlinarith

example : sse (α := ℚ) [[0, 1, 2]] [0, 0, 2] [1] (-1 / 3) ≤ sse [[0, 1, 2]] [0, 0, 2] [2] 5 :=
  normal_eq_optimal _ _ _ _ _ _ (by simp) (by simp) (by simp)
    (by simp [residual, matVec, dotS, sumS]; norm_num) (by simp [residual, matVec, sumS]; norm_num)

/-- OLS without intercept: orthogonality to the feature columns suffices against every `w'` -/
theorem normal_eq_optimal_no_intercept (C : List (List α)) (y w w' : List α)
    (hC : ∀ c ∈ C, c.length = y.length) (hw : w.length = C.length) (hw' : w'.length = C.length)
    (horth : ∀ c ∈ C, dotS c (residual C y w 0) = 0) :
    sse C y w 0 ≤ sse C y w' 0 := by
  have hlen := residual_length C y w 0 hC
  simp only [sse, dotS_eq] at *
  generalize hr : residual C y w 0 = r at *
  have hal : ∀ v, (matVec y.length C v).length = y.length := fun v => matVec_length _ _ _ hC
  have e1 : dot r (residual C y w' 0) = dot r y := by
    unfold residual
    rw [dot_residual 0 r y _ (hal w').symm hlen, dot_matVec _ C w' r hC hw', sum_zipWith_zero C r w' horth]
    ring
  have e2 : dot r r = dot r y := by
    have e : dot r (residual C y w 0) = dot r y := by
      unfold residual
      rw [dot_residual 0 r y _ (hal w).symm hlen, dot_matVec _ C w r hC hw, sum_zipWith_zero C r w horth]
      ring
    rwa [hr] at e
  have hl' : (residual C y w' 0).length = r.length := by rw [residual_length C y w' 0 hC, hlen]
  have := half_sq_ge 1 (residual C y w' 0) r hl'
  nlinarith

example : sse (α := ℚ) [[-1, 1]] [1, 1] [0] 0 ≤ sse [[-1, 1]] [1, 1] [3] 0 :=
  normal_eq_optimal_no_intercept _ _ _ _ (by simp) (by simp) (by simp)
    (by simp [residual, matVec, dotS, sumS])

/-- **The coordinate update is the exact one-dimensional minimiser** of
`z ↦ ½·den·z² − tmp·z + thr·|z|` (`den = ‖x_j‖² + n(1−ρ)pen > 0`, `thr = nρ·pen ≥ 0`, `tmp = x_jᵀr_j`),
which is the objective restricted to coordinate `j` up to a constant. -/
theorem soft_is_argmin (tmp thr den z : α) (hthr : 0 ≤ thr) (hden : 0 < den) :
    1 / 2 * den * (softThreshold tmp thr den) ^ 2 - tmp * softThreshold tmp thr den
        + thr * |softThreshold tmp thr den|
      ≤ 1 / 2 * den * z ^ 2 - tmp * z + thr * |z| :=
  soft_threshold_argmin tmp thr den z hthr hden

example : (1 : ℚ) / 2 * 2 * (softThreshold 3 1 2) ^ 2 - 3 * softThreshold 3 1 2 + 1 * |softThreshold (3 : ℚ) 1 2|
    ≤ 1 / 2 * 2 * 5 ^ 2 - 3 * 5 + 1 * |5| := soft_is_argmin 3 1 2 5 (by norm_num) (by norm_num)

/-- **Coefficients under the l1 threshold are exactly zero**: `|x_jᵀ r_j| ≤ n·ρ·pen` makes the
update `0` (no division residue, whatever the denominator). -/
theorem zero_below_threshold (tmp thr den : α) (h : |tmp| ≤ thr) : softThreshold tmp thr den = 0 :=
  soft_threshold_zero tmp thr den h

example : softThreshold (-(1 : ℚ) / 2) 1 3 = 0 := zero_below_threshold _ _ _ (by norm_num [abs_le])

/-- the same inside the loop body: after `cdCoord` on a column that is not skipped, coordinate `j`
is exactly `0` whenever the correlation with the partial residual is under the threshold -/
theorem cdCoord_zero_below_threshold (contig : Bool) (eps thr denAdd : α) (st : CdState α) (j : Nat)
    (cj : List α) (nrm : α) (hj : j < st.w.length) (hn : ¬ absS nrm ≤ eps)
    (h : |dotC contig cj (if absS (st.w.getD j 0) ≤ eps then st.r else axpy (st.w.getD j 0) cj st.r)| ≤ thr) :
    (cdCoord contig eps thr denAdd st j cj nrm).w.getD j 0 = 0 := by
  unfold cdCoord
  rw [if_neg hn]
  simp only []
  rw [soft_threshold_zero _ _ _ h]
  simp [hj]

/-! ### jointly in the intercept

Full statement of the property (kept for reference, **false** of model and code, see the witness):
  `∀ C y w' b', let (b, w, gap, _) := fitEnet … C y … true;`
  `objective C y w b … − objective C y w' b' … ≤ gap`   (whenever the loop stopped on `gap < tol‖y‖²`).
`fit` takes `b = mean y` and never centres the columns.  Proved: the statement under the extra
hypothesis that every column has zero sum (`_partial`); the negation on a concrete un-centred input. -/

/-- on **centred** columns the pair `(w, mean y)` computed by `fit` is within the duality gap of *every*
`(w', b')` — jointly in coefficients and intercept -/
theorem fit_joint_optimal_centred_partial (contig : Bool) (C : List (List α)) (y w w' : List α)
    (b' l1r pen n : α) (hC : ∀ c ∈ C, c.length = y.length) (hw : w.length = C.length)
    (hw' : w'.length = C.length) (h0 : 0 ≤ l1r) (h1 : l1r ≤ 1) (hpen : 0 ≤ pen) (hn : 0 ≤ n)
    (hy : 0 < y.length) (hcen : ∀ c ∈ C, sumS c = 0) :
    objective C y w (computeIntercept true y (y.length : α)).1 l1r pen n - objective C y w' b' l1r pen n
      ≤ dualityGap contig C (computeIntercept true y (y.length : α)).2 w
          (residual C (computeIntercept true y (y.length : α)).2 w 0) l1r pen n := by
  simp only [computeIntercept, if_true, sumS_eq, sumU_eq] at *
  set m := y.sum / (y.length : α) with hm
  set yc := y.map (· - m) with hyc
  have hycl : yc.length = y.length := by simp [hyc]
  have hC' : ∀ c ∈ C, c.length = yc.length := fun c hc => by rw [hycl]; exact hC c hc
  have key := gap_bounds_suboptimality contig C yc w w' l1r pen n hC' hw hw' h0 h1 hpen hn
  have hnpos : (0 : α) < (y.length : α) := by exact_mod_cast hy
  -- (i) at `b = m` the objective is the centred one
  have e1 : objective C y w m l1r pen n = objective C yc w 0 l1r pen n := by
    simp only [objective]
    rw [residual_centre C y w m m, ← hyc]; simp
  -- (ii) any other intercept only adds `n·(b' − m)²/2`
  have e2 : objective C yc w' 0 l1r pen n ≤ objective C y w' b' l1r pen n := by
    simp only [objective, dotS_eq]
    rw [residual_centre C y w' m b', ← hyc]
    generalize hv : residual C yc w' 0 = v
    have hvs : v.sum = 0 := by
      rw [← hv]; unfold residual
      rw [sum_residual 0 yc _ (by rw [matVec_length _ _ _ hC']), sum_matVec_centred _ C w' hC' hcen, hyc,
        sum_map_sub, hm]
      field_simp; ring
    have hsh := sum_sq_shift v (b' - m) 0
    rw [hvs] at hsh
    have hv0 : v.map (· - (0 : α)) = v := by simp
    rw [hv0] at hsh
    have : 0 ≤ (v.length : α) * (0 - (b' - m)) ^ 2 := mul_nonneg (Nat.cast_nonneg _) (sq_nonneg _)
    rw [hsh, half_eq]; nlinarith
  rw [e1]; linarith

example : objective (α := ℚ) [[-1, 0, 1]] [1, 2, 6] [5 / 2] (computeIntercept true [1, 2, 6] ((3 : ℕ) : ℚ)).1 (1 / 2) 0 3
      - objective [[-1, 0, 1]] [1, 2, 6] [1] 7 (1 / 2) 0 3
    ≤ dualityGap false [[-1, 0, 1]] (computeIntercept true [1, 2, 6] ((3 : ℕ) : ℚ)).2 [5 / 2]
        (residual [[-1, 0, 1]] (computeIntercept true [1, 2, 6] ((3 : ℕ) : ℚ)).2 [5 / 2] 0) (1 / 2) 0 3 :=
  fit_joint_optimal_centred_partial false [[-1, 0, 1]] [1, 2, 6] [5 / 2] [1] 7 (1 / 2) 0 3 (by simp) (by simp)
    (by simp) (by norm_num) (by norm_num) (by norm_num) (by norm_num) (by simp) (by simp [sumS])

/-- **the full statement fails on un-centred features** (open finding `C11-enet-intercept-not-joint`):
on `x = (1,2,3)`, `y = (1,2,3)`, penalty 0, the model of `fit` (run in exact rational arithmetic)
stops after 2 sweeps with `b = 2`, `w = 1/7` and reports gap `0`, while `(w', b') = (1, 0)` has an
objective lower by `6/7`.  The same input is replayed on the real code by the harness. -/
theorem fit_intercept_not_joint_witness :
    fitEnet (α := ℚ) true 0 [[1, 2, 3]] [1, 2, 3] 3 (1 / 10000) 10 (1 / 2) 0 true = (2, [1 / 7], 0, 2) ∧
      (0 : ℚ) < objective [[1, 2, 3]] [1, 2, 3] [1 / 7] 2 (1 / 2) 0 3
        - objective [[1, 2, 3]] [1, 2, 3] [1] 0 (1 / 2) 0 3 := by
  decide +kernel

end LinfaSpec.Props.C11
