import LinfaSpec.Proofs.LeastSquares
import Mathlib.Algebra.Order.Field.Rat

/-!
# C11 — least-squares estimators return a minimiser of their documented objective

Certificate-style theorems about `LinfaSpec.LeastSquares` (the model of linfa-elasticnet's
`coordinate_descent`, `duality_gap`, `fit`, and of the documented objective), over any ordered
field.  A design matrix is a list of columns `C`, each as long as the target `y`.
`objective C y w b l1r pen n` is `n` times the documented objective
`1/(2n)‖y − Xw − b‖² + pen·(l1r‖w‖₁ + (1−l1r)/2‖w‖²)`; the solver's duality gap is on that scale.
Hypotheses are the code's guards: `0 ≤ l1_ratio ≤ 1`, `penalty ≥ 0` (`ParamGuard`), `n = nrows ≥ 0`.
-/
namespace LinfaSpec.Props.C11
open LinfaSpec LinfaSpec.LeastSquares

variable {α : Type} [Field α] [LinearOrder α] [IsStrictOrderedRing α]

/-- **The duality gap computed by `duality_gap` bounds the suboptimality**: for the running
residual `r = y − Xw`, *no* coefficient vector `w'` lowers the objective by more than the gap —
both branches of the code (`‖Xᵀr − l2·w‖_∞ > l1` with the rescaled dual point, and the plain one). -/
theorem gap_bounds_suboptimality (contig : Bool) (C : List (List α)) (y w w' : List α) (l1r pen n : α)
    (hC : ∀ c ∈ C, c.length = y.length) (hw : w.length = C.length) (hw' : w'.length = C.length)
    (h0 : 0 ≤ l1r) (h1 : l1r ≤ 1) (hpen : 0 ≤ pen) (hn : 0 ≤ n) :
    objective C y w 0 l1r pen n - objective C y w' 0 l1r pen n
      ≤ dualityGap contig C y w (residual C y w 0) l1r pen n := by
  have hl1 : 0 ≤ l1r * pen * n := mul_nonneg (mul_nonneg h0 hpen) hn
  have hl2 : 0 ≤ (1 - l1r) * pen * n := mul_nonneg (mul_nonneg (sub_nonneg.mpr h1) hpen) hn
  have hres : ∀ v, residual C y v 0 = List.zipWith (fun yi xi => yi - xi) y (matVec y.length C v) := by
    intro v; simp [residual]
  have hrl : (residual C y w 0).length = y.length := by
    rw [hres]; simp [matVec_length _ _ _ hC]
  generalize hl1e : l1r * pen * n = l1 at hl1
  generalize hl2e : (1 - l1r) * pen * n = l2 at hl2
  simp only [dualityGap, objective, penaltyTerm, dotS_eq, dotU_eq, dotC_eq, half_eq, normL1, sumS_eq,
    absS_fun, hl1e, hl2e]
  generalize hr : residual C y w 0 = r at hrl ⊢
  have hdn0 := normMax_nonneg (List.zipWith (fun c wj => dot c r - wj * l2) C w)
  have hdn := le_normMax (List.zipWith (fun c wj => dot c r - wj * l2) C w)
  generalize normMax (List.zipWith (fun c wj => dot c r - wj * l2) C w) = dn at hdn0 hdn ⊢
  rw [hres w']
  by_cases h : l1 < dn
  · rw [if_pos h]
    have hdpos : 0 < dn := lt_of_le_of_lt hl1 h
    have hc : 0 ≤ l1 / dn := div_nonneg hl1 hdn0
    have hcd : l1 / dn * dn ≤ l1 := by rw [div_mul_cancel₀ _ (ne_of_gt hdpos)]
    have key := weak_duality C y w w' r l1 l2 (l1 / dn) dn hC hw hw' hrl hl2 hc hcd hdn0 hdn
    generalize l1 / dn = c at key ⊢
    simp only []
    nlinarith [key]
  · rw [if_neg h]
    have key := weak_duality C y w w' r l1 l2 1 dn hC hw hw' hrl hl2 zero_le_one
      (by rw [one_mul]; exact le_of_not_gt h) hdn0 hdn
    simp only []
    nlinarith [key]

example : objective (α := ℚ) [[1, 2, 3]] [-1, 0, 1] [1 / 7] 0 (1 / 2) 1 3
      - objective [[1, 2, 3]] [-1, 0, 1] [1 / 9] 0 (1 / 2) 1 3
    ≤ dualityGap false [[1, 2, 3]] [-1, 0, 1] [1 / 7] (residual [[1, 2, 3]] [-1, 0, 1] [1 / 7] 0) (1 / 2) 1 3 :=
  gap_bounds_suboptimality false _ _ _ _ _ _ _ (by simp) (by simp) (by simp) (by norm_num) (by norm_num)
    (by norm_num) (by norm_num)

/-- the reported gap is **non-negative** (take `w' = w`) -/
theorem gap_nonneg (contig : Bool) (C : List (List α)) (y w : List α) (l1r pen n : α)
    (hC : ∀ c ∈ C, c.length = y.length) (hw : w.length = C.length)
    (h0 : 0 ≤ l1r) (h1 : l1r ≤ 1) (hpen : 0 ≤ pen) (hn : 0 ≤ n) :
    0 ≤ dualityGap contig C y w (residual C y w 0) l1r pen n := by
  have := gap_bounds_suboptimality contig C y w w l1r pen n hC hw hw h0 h1 hpen hn
  simpa using this

example : 0 ≤ dualityGap (α := ℚ) true [[1, -1]] [2, 0] [1] (residual [[1, -1]] [2, 0] [1] 0) 1 (1 / 4) 2 :=
  gap_nonneg true _ _ _ _ _ _ (by simp) (by simp) (by norm_num) (by norm_num) (by norm_num) (by norm_num)

end LinfaSpec.Props.C11
