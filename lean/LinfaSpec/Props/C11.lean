import LinfaSpec.Proofs.LeastSquares
import LinfaSpec.Proofs.LeastSquaresMtl
import Mathlib.Algebra.Order.Field.Rat

/-!
# C11 — least-squares estimators return a minimiser of their documented objective

Certificate-style theorems about `LinfaSpec.LeastSquares` (the model of linfa-elasticnet's
`coordinate_descent`, `duality_gap`, `fit`, and of the documented objective), over any ordered
field.  A design matrix is a list of columns `C`, each as long as the target `y`.
`objective C y w b l1r pen n` is `n` times the documented objective
`1/(2n)‖y − Xw − b‖² + pen·(l1r‖w‖₁ + (1−l1r)/2‖w‖²)`; the solver's duality gap is on that scale.
Hypotheses are the code's guards: `0 ≤ l1_ratio ≤ 1`, `penalty ≥ 0` (`ParamGuard`), `n = nrows ≥ 0`.
-/
namespace LinfaSpec.Props.C11
open LinfaSpec LinfaSpec.LeastSquares

variable {α : Type} [Field α] [LinearOrder α] [IsStrictOrderedRing α]

/-- **The duality gap computed by `duality_gap` bounds the suboptimality**: for the running
residual `r = y − Xw`, *no* coefficient vector `w'` lowers the objective by more than the gap —
both branches of the code (`‖Xᵀr − l2·w‖_∞ > l1` with the rescaled dual point, and the plain one). -/
theorem gap_bounds_suboptimality (contig : Bool) (C : List (List α)) (y w w' : List α) (l1r pen n : α)
    (hC : ∀ c ∈ C, c.length = y.length) (hw : w.length = C.length) (hw' : w'.length = C.length)
    (h0 : 0 ≤ l1r) (h1 : l1r ≤ 1) (hpen : 0 ≤ pen) (hn : 0 ≤ n) :
    objective C y w 0 l1r pen n - objective C y w' 0 l1r pen n
      ≤ dualityGap contig C y w (residual C y w 0) l1r pen n := by
  have hl1 : 0 ≤ l1r * pen * n := mul_nonneg (mul_nonneg h0 hpen) hn
  have hl2 : 0 ≤ (1 - l1r) * pen * n := mul_nonneg (mul_nonneg (sub_nonneg.mpr h1) hpen) hn
  have hres : ∀ v, residual C y v 0 = List.zipWith (fun yi xi => yi - xi) y (matVec y.length C v) := by
    intro v; simp [LeastSquares.residual]
  have hrl : (residual C y w 0).length = y.length := by
    rw [hres]; simp [matVec_length _ _ _ hC]
  generalize hl1e : l1r * pen * n = l1 at hl1
  generalize hl2e : (1 - l1r) * pen * n = l2 at hl2
  simp only [dualityGap, objective, penaltyTerm, dotS_eq, dotU_eq, dotC_eq, half_eq, normL1, sumS_eq,
    absS_fun, hl1e, hl2e]
  generalize hr : residual C y w 0 = r at hrl ⊢
  have hdn0 := normMax_nonneg (List.zipWith (fun c wj => dot c r - wj * l2) C w)
  have hdn := le_normMax (List.zipWith (fun c wj => dot c r - wj * l2) C w)
  generalize normMax (List.zipWith (fun c wj => dot c r - wj * l2) C w) = dn at hdn0 hdn ⊢
  rw [hres w']
  by_cases h : l1 < dn
  · rw [if_pos h]
    have hdpos : 0 < dn := lt_of_le_of_lt hl1 h
    have hc : 0 ≤ l1 / dn := div_nonneg hl1 hdn0
    have hcd : l1 / dn * dn ≤ l1 := by rw [div_mul_cancel₀ _ (ne_of_gt hdpos)]
    have key := weak_duality C y w w' r l1 l2 (l1 / dn) dn hC hw hw' hrl hl2 hc hcd hdn0 hdn
    generalize l1 / dn = c at key ⊢
    simp only []
    nlinarith [key]
  · rw [if_neg h]
    have key := weak_duality C y w w' r l1 l2 1 dn hC hw hw' hrl hl2 zero_le_one
      (by rw [one_mul]; exact le_of_not_gt h) hdn0 hdn
    simp only []
    nlinarith [key]

example : objective (α := ℚ) [[1, 2, 3]] [-1, 0, 1] [1 / 7] 0 (1 / 2) 1 3
      - objective [[1, 2, 3]] [-1, 0, 1] [1 / 9] 0 (1 / 2) 1 3
    ≤ dualityGap false [[1, 2, 3]] [-1, 0, 1] [1 / 7] (residual [[1, 2, 3]] [-1, 0, 1] [1 / 7] 0) (1 / 2) 1 3 :=
  gap_bounds_suboptimality false _ _ _ _ _ _ _ (by simp) (by simp) (by simp) (by norm_num) (by norm_num)
    (by norm_num) (by norm_num)

/-- the reported gap is **non-negative** (take `w' = w`) -/
theorem gap_nonneg (contig : Bool) (C : List (List α)) (y w : List α) (l1r pen n : α)
    (hC : ∀ c ∈ C, c.length = y.length) (hw : w.length = C.length)
    (h0 : 0 ≤ l1r) (h1 : l1r ≤ 1) (hpen : 0 ≤ pen) (hn : 0 ≤ n) :
    0 ≤ dualityGap contig C y w (residual C y w 0) l1r pen n := by
  have := gap_bounds_suboptimality contig C y w w l1r pen n hC hw hw h0 h1 hpen hn
  simpa using this

example : 0 ≤ dualityGap (α := ℚ) true [[1, -1]] [2, 0] [1] (residual [[1, -1]] [2, 0] [1] 0) 1 (1 / 4) 2 :=
  gap_nonneg true _ _ _ _ _ _ (by simp) (by simp) (by norm_num) (by norm_num) (by norm_num) (by norm_num)

/-- **Intercept**: for fixed coefficients the squared error is minimal in the intercept *iff* the
intercept is the mean residual `mean(y − Xw)` (so a returned pair whose residual does not have
zero mean is not a joint minimiser — what the oracle clause `intercept_jointly_optimal` tests). -/
theorem intercept_optimal_iff_mean (C : List (List α)) (y w : List α) (b : α)
    (hC : ∀ c ∈ C, c.length = y.length) (hn : 0 < y.length) :
    (∀ b', sse C y w b ≤ sse C y w b') ↔ b = sumS (residual C y w 0) / (y.length : α) := by
  have hlen := residual_length C y w 0 hC
  simp only [sse, dotS_eq, sumS_eq]
  generalize hv : residual C y w 0 = v at hlen
  have hnpos : (0 : α) < (y.length : α) := by exact_mod_cast hn
  have hsh : ∀ b', dot (residual C y w b') (residual C y w b') =
      dot (v.map (· - v.sum / (y.length : α))) (v.map (· - v.sum / (y.length : α)))
        + (y.length : α) * (v.sum / (y.length : α) - b') ^ 2 := by
    intro b'
    rw [residual_shift, hv, sum_sq_shift v b' (v.sum / (y.length : α)), hlen]
    have : v.sum - (y.length : α) * (v.sum / (y.length : α)) = 0 := by field_simp; ring
    rw [this]; ring
  constructor
  · intro h
    have := h (v.sum / (y.length : α))
    rw [hsh b, hsh (v.sum / (y.length : α))] at this
    have h2 : (y.length : α) * (v.sum / (y.length : α) - b) ^ 2 ≤ 0 := by nlinarith
    have h3 : (v.sum / (y.length : α) - b) ^ 2 ≤ 0 := by
      by_contra hc
      have : 0 < (y.length : α) * (v.sum / (y.length : α) - b) ^ 2 := mul_pos hnpos (lt_of_not_ge hc)
      linarith
    have h4 : v.sum / (y.length : α) - b = 0 := by
      have := sq_nonneg (v.sum / (y.length : α) - b)
      exact pow_eq_zero_iff (n := 2) (by norm_num) |>.mp (le_antisymm h3 this)
    linarith
  · intro h b'
    rw [hsh b, hsh b', h]
    have : 0 ≤ (y.length : α) * (v.sum / (y.length : α) - b') ^ 2 := mul_nonneg hnpos.le (sq_nonneg _)
    nlinarith

example : (∀ b', sse (α := ℚ) [[1, 2, 3]] [1, 2, 4] [1] (1 / 3) ≤ sse [[1, 2, 3]] [1, 2, 4] [1] b') :=
  (intercept_optimal_iff_mean _ _ _ _ (by simp) (by simp)).mpr (by simp [LeastSquares.residual, matVec, sumS]; norm_num)

/-- **OLS certificate**: if the residual of `(w, b)` is orthogonal to every feature column and to the
constant column, no `(w', b')` has a smaller sum of squared errors. -/
theorem normal_eq_optimal (C : List (List α)) (y w w' : List α) (b b' : α)
    (hC : ∀ c ∈ C, c.length = y.length) (hw : w.length = C.length) (hw' : w'.length = C.length)
    (horth : ∀ c ∈ C, dotS c (residual C y w b) = 0) (hone : sumS (residual C y w b) = 0) :
    sse C y w b ≤ sse C y w' b' := by
  have hlen := residual_length C y w b hC
  simp only [sse, dotS_eq, sumS_eq] at *
  generalize hr : residual C y w b = r at *
  have hal : ∀ v, (matVec y.length C v).length = y.length := fun v => matVec_length _ _ _ hC
  have e1 : dot r (residual C y w' b') = dot r y := by
    unfold LeastSquares.residual
    rw [dot_residual b' r y _ (hal w').symm hlen, dot_matVec _ C w' r hC hw', sum_zipWith_zero C r w' horth, hone]
    ring
  have e2 : dot r r = dot r y := by
    have e : dot r (residual C y w b) = dot r y := by
      unfold LeastSquares.residual
      rw [dot_residual b r y _ (hal w).symm hlen, dot_matVec _ C w r hC hw, sum_zipWith_zero C r w horth, hone]
      ring
    rwa [hr] at e
  have hl' : (residual C y w' b').length = r.length := by rw [residual_length C y w' b' hC, hlen]
  have := half_sq_ge 1 (residual C y w' b') r hl'
  nlinarith

example : sse (α := ℚ) [[0, 1, 2]] [0, 0, 2] [1] (-1 / 3) ≤ sse [[0, 1, 2]] [0, 0, 2] [2] 5 :=
  normal_eq_optimal _ _ _ _ _ _ (by simp) (by simp) (by simp)
    (by simp [LeastSquares.residual, matVec, dotS, sumS]; norm_num) (by simp [LeastSquares.residual, matVec, sumS]; norm_num)

/-- OLS without intercept: orthogonality to the feature columns suffices against every `w'` -/
theorem normal_eq_optimal_no_intercept (C : List (List α)) (y w w' : List α)
    (hC : ∀ c ∈ C, c.length = y.length) (hw : w.length = C.length) (hw' : w'.length = C.length)
    (horth : ∀ c ∈ C, dotS c (residual C y w 0) = 0) :
    sse C y w 0 ≤ sse C y w' 0 := by
  have hlen := residual_length C y w 0 hC
  simp only [sse, dotS_eq] at *
  generalize hr : residual C y w 0 = r at *
  have hal : ∀ v, (matVec y.length C v).length = y.length := fun v => matVec_length _ _ _ hC
  have e1 : dot r (residual C y w' 0) = dot r y := by
    unfold LeastSquares.residual
    rw [dot_residual 0 r y _ (hal w').symm hlen, dot_matVec _ C w' r hC hw', sum_zipWith_zero C r w' horth]
    ring
  have e2 : dot r r = dot r y := by
    have e : dot r (residual C y w 0) = dot r y := by
      unfold LeastSquares.residual
      rw [dot_residual 0 r y _ (hal w).symm hlen, dot_matVec _ C w r hC hw, sum_zipWith_zero C r w horth]
      ring
    rwa [hr] at e
  have hl' : (residual C y w' 0).length = r.length := by rw [residual_length C y w' 0 hC, hlen]
  have := half_sq_ge 1 (residual C y w' 0) r hl'
  nlinarith

example : sse (α := ℚ) [[-1, 1]] [1, 1] [0] 0 ≤ sse [[-1, 1]] [1, 1] [3] 0 :=
  normal_eq_optimal_no_intercept _ _ _ _ (by simp) (by simp) (by simp)
    (by simp [LeastSquares.residual, matVec, dotS, sumS])

/-- **The coordinate update is the exact one-dimensional minimiser** of
`z ↦ ½·den·z² − tmp·z + thr·|z|` (`den = ‖x_j‖² + n(1−ρ)pen > 0`, `thr = nρ·pen ≥ 0`, `tmp = x_jᵀr_j`),
which is the objective restricted to coordinate `j` up to a constant. -/
theorem soft_is_argmin (tmp thr den z : α) (hthr : 0 ≤ thr) (hden : 0 < den) :
    1 / 2 * den * (softThreshold tmp thr den) ^ 2 - tmp * softThreshold tmp thr den
        + thr * |softThreshold tmp thr den|
      ≤ 1 / 2 * den * z ^ 2 - tmp * z + thr * |z| :=
  soft_threshold_argmin tmp thr den z hthr hden

example : (1 : ℚ) / 2 * 2 * (softThreshold 3 1 2) ^ 2 - 3 * softThreshold 3 1 2 + 1 * |softThreshold (3 : ℚ) 1 2|
    ≤ 1 / 2 * 2 * 5 ^ 2 - 3 * 5 + 1 * |5| := soft_is_argmin 3 1 2 5 (by norm_num) (by norm_num)

/-- **Coefficients under the l1 threshold are exactly zero**: `|x_jᵀ r_j| ≤ n·ρ·pen` makes the
update `0` (no division residue, whatever the denominator). -/
theorem zero_below_threshold (tmp thr den : α) (h : |tmp| ≤ thr) : softThreshold tmp thr den = 0 :=
  soft_threshold_zero tmp thr den h

example : softThreshold (-(1 : ℚ) / 2) 1 3 = 0 := zero_below_threshold _ _ _ (by norm_num [abs_le])

/-- the same inside the loop body: after `cdCoord` on a column that is not skipped, coordinate `j`
is exactly `0` whenever the correlation with the partial residual is under the threshold -/
theorem cdCoord_zero_below_threshold (contig : Bool) (thr denAdd : α) (st : CdState α) (j : Nat)
    (cj : List α) (nrm : α) (hj : j < st.w.length) (hn : ¬ absS nrm ≤ 0)
    (h : |dotC contig cj (if absS (st.w.getD j 0) ≤ 0 then st.r else axpy (st.w.getD j 0) cj st.r)| ≤ thr) :
    (cdCoord contig thr denAdd st j cj nrm).w.getD j 0 = 0 := by
  unfold cdCoord
  rw [if_neg hn]
  simp only []
  rw [soft_threshold_zero _ _ _ h]
  simp [hj]

example : (cdCoord (α := ℚ) false 5 0 { w := [1], r := [0, 0], wMax := 0, dwMax := 0 } 0 [1, 1] 2).w.getD 0 0 = 0 :=
  cdCoord_zero_below_threshold false 5 0 _ 0 [1, 1] 2 (by simp) (by norm_num [absS])
    (by norm_num [absS, axpy, dotC, dotS, sumS])

/-- inside the loop body of `coordinate_descent`: the coefficient written by `cdCoord` for a column that is not skipped
is the exact minimiser of the objective restricted to coordinate `j` (`½·den·z² − tmp·z + thr·|z|`, `tmp` the
correlation of the column with the partial residual, `den = ‖x_j‖² + n(1−ρ)pen > 0`) -/
theorem cdCoord_is_coordinate_argmin (contig : Bool) (thr denAdd : α) (st : CdState α) (j : Nat) (cj : List α)
    (nrm z : α) (hj : j < st.w.length) (hn : ¬ absS nrm ≤ 0) (hthr : 0 ≤ thr) (hden : 0 < nrm + denAdd) :
    let tmp := dotC contig cj (if absS (st.w.getD j 0) ≤ 0 then st.r else axpy (st.w.getD j 0) cj st.r)
    let new := (cdCoord contig thr denAdd st j cj nrm).w.getD j 0
    1 / 2 * (nrm + denAdd) * new ^ 2 - tmp * new + thr * |new|
      ≤ 1 / 2 * (nrm + denAdd) * z ^ 2 - tmp * z + thr * |z| := by
  intro tmp new
  have hnew : new = softThreshold tmp thr (nrm + denAdd) := by
    simp only [new, tmp]
    unfold cdCoord
    rw [if_neg hn]
    simp [hj]
  rw [hnew]
  exact soft_is_argmin tmp thr (nrm + denAdd) z hthr hden

example : True := by
  have := cdCoord_is_coordinate_argmin (α := ℚ) false 1 0 { w := [1], r := [0, 0], wMax := 0, dwMax := 0 } 0 [1, 1] 2 5
    (by simp) (by norm_num [absS]) (by norm_num) (by norm_num)
  trivial

/-! ### the optimality (KKT) conditions of the documented objective

For `P(w) = ½‖y − Xw‖² + l1‖w‖₁ + ½·l2‖w‖²` (`l1 = n·ρ·pen`, `l2 = n(1−ρ)pen`) the conditions are, per feature `j`
with `g_j = x_jᵀr − l2·w_j` and `r = y − Xw`:  `|g_j| ≤ l1`  and  `w_j·g_j = l1·|w_j|` (i.e. `g_j = l1·sign w_j`
wherever `w_j ≠ 0`).  For ridge / the unpenalised problem (`l1 = 0`) they read `Xᵀr = l2·w`: the normal equations.
This is the one case in which the gap formula of `duality_gap` is informative for `l1 = 0` (otherwise its scaling
constant is `0` and the reported gap is `P(w)`), and it ties the statement's "satisfies the optimality (KKT)
conditions" to the gap certificate for every `l1`. -/

/-- **at a KKT point the gap computed by `duality_gap` is exactly zero** -/
theorem kkt_gap_zero (contig : Bool) (C : List (List α)) (y w : List α) (l1r pen n : α)
    (hC : ∀ c ∈ C, c.length = y.length) (hw : w.length = C.length)
    (h0 : 0 ≤ l1r) (hpen : 0 ≤ pen) (hn : 0 ≤ n)
    (hkkt : ∀ p ∈ List.zip C w,
      |dotS p.1 (residual C y w 0) - p.2 * ((1 - l1r) * pen * n)| ≤ l1r * pen * n ∧
      p.2 * (dotS p.1 (residual C y w 0) - p.2 * ((1 - l1r) * pen * n)) = l1r * pen * n * |p.2|) :
    dualityGap contig C y w (residual C y w 0) l1r pen n = 0 := by
  have hl1 : 0 ≤ l1r * pen * n := mul_nonneg (mul_nonneg h0 hpen) hn
  have hres : residual C y w 0 = List.zipWith (fun yi xi => yi - xi) y (matVec y.length C w) := by
    simp [LeastSquares.residual]
  have hal : (matVec y.length C w).length = y.length := matVec_length _ _ _ hC
  simp only [dotS_eq] at hkkt
  generalize hl1e : l1r * pen * n = l1 at hl1 hkkt
  generalize hl2e : (1 - l1r) * pen * n = l2 at hkkt
  simp only [dualityGap, dotU_eq, dotC_eq, half_eq, normL1, sumS_eq, absS_fun, hl1e, hl2e]
  have hry : dot (residual C y w 0) (residual C y w 0) = dot (residual C y w 0) y
      - (l1 * (w.map fun x => |x|).sum + l2 * dot w w) := by
    conv_lhs => rw [hres]
    rw [dot_residual0 _ y _ hal.symm, ← hres, dot_matVec _ C w _ hC hw]
    rw [kkt_sum C _ w l1 l2 hw (fun p hp => (hkkt p hp).2)]
  generalize residual C y w 0 = r at hkkt hry ⊢
  have hdn : normMax (List.zipWith (fun c wj => dot c r - wj * l2) C w) ≤ l1 :=
    normMax_le _ l1 hl1 (forall_mem_zipWith _ (fun x => |x| ≤ l1) C w (fun p hp => (hkkt p hp).1))
  rw [if_neg (not_lt.mpr hdn)]
  simp only []
  linarith

/-- **a KKT point is a minimiser of the documented objective** (over all coefficient vectors) -/
theorem kkt_implies_optimal (C : List (List α)) (y w w' : List α) (l1r pen n : α)
    (hC : ∀ c ∈ C, c.length = y.length) (hw : w.length = C.length) (hw' : w'.length = C.length)
    (h0 : 0 ≤ l1r) (h1 : l1r ≤ 1) (hpen : 0 ≤ pen) (hn : 0 ≤ n)
    (hkkt : ∀ p ∈ List.zip C w,
      |dotS p.1 (residual C y w 0) - p.2 * ((1 - l1r) * pen * n)| ≤ l1r * pen * n ∧
      p.2 * (dotS p.1 (residual C y w 0) - p.2 * ((1 - l1r) * pen * n)) = l1r * pen * n * |p.2|) :
    objective C y w 0 l1r pen n ≤ objective C y w' 0 l1r pen n := by
  have hb := gap_bounds_suboptimality false C y w w' l1r pen n hC hw hw' h0 h1 hpen hn
  rw [kkt_gap_zero false C y w l1r pen n hC hw h0 hpen hn hkkt] at hb
  linarith

/-- lasso on an orthonormal design: `w = soft(y, 1) = (2, 0)` satisfies the conditions (active and inactive feature) -/
example : objective (α := ℚ) [[1, 0], [0, 1]] [3, 1 / 2] [2, 0] 0 1 (1 / 2) 2
    ≤ objective [[1, 0], [0, 1]] [3, 1 / 2] [5, -1] 0 1 (1 / 2) 2 :=
  kkt_implies_optimal _ _ _ _ _ _ _ (by simp) (by simp) (by simp) (by norm_num) (by norm_num) (by norm_num) (by norm_num)
    (by
      intro p hp
      simp only [List.zip_cons_cons, List.zip_nil_right, List.mem_cons, List.not_mem_nil, or_false] at hp
      rcases hp with rfl | rfl
      all_goals (try simp [LeastSquares.residual, matVec, dotS, sumS, List.replicate])
      all_goals (try norm_num [abs_le]))

/-- **ridge / unpenalised (`l1_ratio = 0`): the normal equations `Xᵀ(y − Xw) = l2·w` certify the minimiser** — the
special case the audit found no statement for (there the reported gap is `P(w)` unless this holds exactly) -/
theorem ridge_normal_equations_optimal (C : List (List α)) (y w w' : List α) (pen n : α)
    (hC : ∀ c ∈ C, c.length = y.length) (hw : w.length = C.length) (hw' : w'.length = C.length)
    (hpen : 0 ≤ pen) (hn : 0 ≤ n)
    (hne : ∀ p ∈ List.zip C w, dotS p.1 (residual C y w 0) = p.2 * (pen * n)) :
    objective C y w 0 0 pen n ≤ objective C y w' 0 0 pen n := by
  apply kkt_implies_optimal C y w w' 0 pen n hC hw hw' (le_refl _) zero_le_one hpen hn
  intro p hp
  have := hne p hp
  simp only [sub_zero, one_mul, zero_mul, this, sub_self, abs_zero, le_refl, mul_zero, and_self]

example : objective (α := ℚ) [[1, 0], [0, 1]] [3, 1] [1, 1 / 3] 0 0 1 2
    ≤ objective [[1, 0], [0, 1]] [3, 1] [2, 2] 0 0 1 2 :=
  ridge_normal_equations_optimal _ _ _ _ _ _ (by simp) (by simp) (by simp) (by norm_num) (by norm_num)
    (by
      intro p hp
      simp only [List.zip_cons_cons, List.zip_nil_right, List.mem_cons, List.not_mem_nil, or_false] at hp
      rcases hp with rfl | rfl
      all_goals (try simp [LeastSquares.residual, matVec, dotS, sumS, List.replicate])
      all_goals (try norm_num))

/-! ### jointly in the intercept

Full statement of the property (kept for reference, **false** of model and code, see the witness):
  `∀ C y w' b', let (b, w, gap, _) := fitEnet … C y … true;`
  `objective C y w b … − objective C y w' b' … ≤ gap`   (whenever the loop stopped on `gap < tol‖y‖²`).
`fit` takes `b = mean y` and never centres the columns.  Proved: the statement under the extra
hypothesis that every column has zero sum (`_partial`); the negation on a concrete un-centred input. -/

/-- on **centred** columns the pair `(w, mean y)` computed by `fit` is within the duality gap of *every*
`(w', b')` — jointly in coefficients and intercept -/
theorem fit_joint_optimal_centred_partial (contig : Bool) (C : List (List α)) (y w w' : List α)
    (b' l1r pen n : α) (hC : ∀ c ∈ C, c.length = y.length) (hw : w.length = C.length)
    (hw' : w'.length = C.length) (h0 : 0 ≤ l1r) (h1 : l1r ≤ 1) (hpen : 0 ≤ pen) (hn : 0 ≤ n)
    (hy : 0 < y.length) (hcen : ∀ c ∈ C, sumS c = 0) :
    objective C y w (computeIntercept true y (y.length : α)).1 l1r pen n - objective C y w' b' l1r pen n
      ≤ dualityGap contig C (computeIntercept true y (y.length : α)).2 w
          (residual C (computeIntercept true y (y.length : α)).2 w 0) l1r pen n := by
  simp only [computeIntercept, if_true, sumS_eq, sumU_eq] at *
  set m := y.sum / (y.length : α) with hm
  set yc := y.map (· - m) with hyc
  have hycl : yc.length = y.length := by simp [hyc]
  have hC' : ∀ c ∈ C, c.length = yc.length := fun c hc => by rw [hycl]; exact hC c hc
  have key := gap_bounds_suboptimality contig C yc w w' l1r pen n hC' hw hw' h0 h1 hpen hn
  have hnpos : (0 : α) < (y.length : α) := by exact_mod_cast hy
  -- (i) at `b = m` the objective is the centred one
  have e1 : objective C y w m l1r pen n = objective C yc w 0 l1r pen n := by
    simp only [objective]
    rw [residual_centre C y w m m, ← hyc]; simp
  -- (ii) any other intercept only adds `n·(b' − m)²/2`
  have e2 : objective C yc w' 0 l1r pen n ≤ objective C y w' b' l1r pen n := by
    simp only [objective, dotS_eq]
    rw [residual_centre C y w' m b', ← hyc]
    generalize hv : residual C yc w' 0 = v
    have hvs : v.sum = 0 := by
      rw [← hv]; unfold LeastSquares.residual
      rw [sum_residual 0 yc _ (by rw [matVec_length _ _ _ hC']), sum_matVec_centred _ C w' hC' hcen, hyc,
        sum_map_sub, hm]
      field_simp; ring
    have hsh := sum_sq_shift v (b' - m) 0
    rw [hvs] at hsh
    have hv0 : v.map (· - (0 : α)) = v := by simp
    rw [hv0] at hsh
    have : 0 ≤ (v.length : α) * (0 - (b' - m)) ^ 2 := mul_nonneg (Nat.cast_nonneg _) (sq_nonneg _)
    rw [hsh, half_eq]; nlinarith
  rw [e1]; linarith

example : objective (α := ℚ) [[-1, 0, 1]] [1, 2, 6] [5 / 2] (computeIntercept true [1, 2, 6] ((3 : ℕ) : ℚ)).1 (1 / 2) 0 3
      - objective [[-1, 0, 1]] [1, 2, 6] [1] 7 (1 / 2) 0 3
    ≤ dualityGap false [[-1, 0, 1]] (computeIntercept true [1, 2, 6] ((3 : ℕ) : ℚ)).2 [5 / 2]
        (residual [[-1, 0, 1]] (computeIntercept true [1, 2, 6] ((3 : ℕ) : ℚ)).2 [5 / 2] 0) (1 / 2) 0 3 :=
  fit_joint_optimal_centred_partial false [[-1, 0, 1]] [1, 2, 6] [5 / 2] [1] 7 (1 / 2) 0 3 (by simp) (by simp)
    (by simp) (by norm_num) (by norm_num) (by norm_num) (by norm_num) (by simp) (by simp [sumS])

/-- **the full statement fails on un-centred features** (open finding `C11-enet-intercept-not-joint`):
on `x = (1,2,3)`, `y = (1,2,3)`, penalty 0, the model of `fit` (run in exact rational arithmetic)
stops after 2 sweeps with `b = 2`, `w = 1/7` and reports gap `0`, while `(w', b') = (1, 0)` has an
objective lower by `6/7`.  The same input is replayed on the real code by the harness. -/
theorem fit_intercept_not_joint_witness :
    fitEnet (α := ℚ) true 0 [[1, 2, 3]] [1, 2, 3] 3 (1 / 10000) 10 (1 / 2) 0 true = (2, [1 / 7], 0, 2) ∧
      (0 : ℚ) < objective [[1, 2, 3]] [1, 2, 3] [1 / 7] 2 (1 / 2) 0 3
        - objective [[1, 2, 3]] [1, 2, 3] [1] 0 (1 / 2) 0 3 := by
  decide +kernel

/-! ### the solver loop as modelled: a `break` certifies the returned point

Stated for `coordinateDescent contig eps …` with **any** `eps` — in particular the `F::EPSILON` the driver runs
(since repo fix 070f1c2 the coordinate guards compare with zero exactly, so `eps` only enters the
`abs_diff_eq!(w_max, 0)` disjunct of the stopping test, which does not touch the invariant `r = y − Xw`; before
the fix the theorem could only be proved for `eps = 0`: the `abs_diff_ne!` guards skipped residual updates for
`|w_j| ≤ eps` and whole columns of `‖x_j‖² ≤ eps`, and the real code returned wrong fits on badly scaled
features — finding `C11-enet-epsilon-guards`). -/

/-- **`coordinate_descent` left by its `break` returns a certified point**: the loop as modelled (all
sweeps, both stopping tests, any budget) keeps `r = y − Xw`; so if it stops before the budget is used up
(`n_steps < max_steps`), the reported gap is `< tol·‖y‖²`, is non-negative and bounds `P(w) − P(w')` for every `w'`. -/
theorem cd_break_certificate (contig : Bool) (eps : α) (C : List (List α)) (y : List α) (n tol : α) (maxSteps : Nat)
    (l1r pen : α) (w : List α) (g : α) (s : Nat) (hC : ∀ c ∈ C, c.length = y.length)
    (h0 : 0 ≤ l1r) (h1 : l1r ≤ 1) (hpen : 0 ≤ pen) (hn : 0 ≤ n)
    (h : coordinateDescent contig eps C y n tol maxSteps l1r pen = (w, g, s)) (hs : s < maxSteps) :
    w.length = C.length ∧ g < tol * dotU y y ∧ 0 ≤ g ∧
      ∀ w', w'.length = C.length → objective C y w 0 l1r pen n - objective C y w' 0 l1r pen n ≤ g := by
  unfold coordinateDescent at h
  have key := cdLoop_certificate contig eps (n * l1r * pen) (n * (1 - l1r) * pen) C (C.map fun c => dotC contig c c) y
    n tol (tol * dotU y y) l1r pen maxSteps hC maxSteps 0 (List.replicate C.length 0) y (1 + tol) w g s
    (residual_zero_start C y hC).symm (by simp) h
  obtain ⟨hw, _, hcert⟩ := key
  obtain ⟨hg, hlt⟩ := hcert (by omega)
  refine ⟨hw, hlt, ?_, ?_⟩
  · rw [hg]; exact gap_nonneg contig C y w l1r pen n hC hw h0 h1 hpen hn
  · intro w' hw'
    rw [hg]; exact gap_bounds_suboptimality contig C y w w' l1r pen n hC hw hw' h0 h1 hpen hn

example : objective (α := ℚ) [[1, 2, 3]] [-1, 0, 1] [1 / 7] 0 (1 / 2) 0 3
      - objective [[1, 2, 3]] [-1, 0, 1] [5] 0 (1 / 2) 0 3 ≤ 0 :=
  (cd_break_certificate true (1 / 1000000) [[1, 2, 3]] [-1, 0, 1] 3 (1 / 10000) 10 (1 / 2) 0 [1 / 7] 0 2 (by simp)
    (by norm_num) (by norm_num) (by norm_num) (by norm_num) (by decide +kernel) (by norm_num)).2.2.2 [5] (by simp)

/-- **`fit` without intercept** is `coordinate_descent` on the raw target: same certificate -/
theorem fit_no_intercept_break_certificate (contig : Bool) (eps : α) (C : List (List α)) (y : List α) (n tol : α)
    (maxSteps : Nat) (l1r pen b : α) (w : List α) (g : α) (s : Nat) (hC : ∀ c ∈ C, c.length = y.length)
    (h0 : 0 ≤ l1r) (h1 : l1r ≤ 1) (hpen : 0 ≤ pen) (hn : 0 ≤ n)
    (h : fitEnet contig eps C y n tol maxSteps l1r pen false = (b, w, g, s)) (hs : s < maxSteps) :
    b = 0 ∧ 0 ≤ g ∧ ∀ w', w'.length = C.length →
      objective C y w b l1r pen n - objective C y w' 0 l1r pen n ≤ g := by
  simp only [fitEnet, computeIntercept, Bool.false_eq_true, if_false] at h
  generalize hcd : coordinateDescent contig eps C y n tol maxSteps l1r pen = res at h
  obtain ⟨w0, g0, s0⟩ := res
  simp only [Prod.mk.injEq] at h
  obtain ⟨rfl, rfl, rfl, rfl⟩ := h
  have := cd_break_certificate contig eps C y n tol maxSteps l1r pen w0 g0 s0 hC h0 h1 hpen hn hcd hs
  exact ⟨rfl, this.2.2.1, this.2.2.2⟩

example : (0 : ℚ) ≤ 0 :=
  (fit_no_intercept_break_certificate (α := ℚ) true (1 / 1000000) [[1, 2, 3]] [-1, 0, 1] 3 (1 / 10000) 10 (1 / 2) 0 0
    [1 / 7] 0 2 (by simp) (by norm_num) (by norm_num) (by norm_num) (by norm_num) (by decide +kernel) (by norm_num)).2.1

/-- **`fit` with intercept on centred columns**: left by the `break`, the returned `(w, b)` is within the
reported gap of every `(w', b')` — the property's "jointly in coefficients and intercept" for the modelled
`fit`, under the centring hypothesis that the open finding shows to be necessary. -/
theorem fit_break_joint_centred_partial (contig : Bool) (eps : α) (C : List (List α)) (y : List α) (tol : α)
    (maxSteps : Nat) (l1r pen b : α) (w : List α) (g : α) (s : Nat) (hC : ∀ c ∈ C, c.length = y.length)
    (h0 : 0 ≤ l1r) (h1 : l1r ≤ 1) (hpen : 0 ≤ pen) (hy : 0 < y.length) (hcen : ∀ c ∈ C, sumS c = 0)
    (h : fitEnet contig eps C y (y.length : α) tol maxSteps l1r pen true = (b, w, g, s)) (hs : s < maxSteps) :
    0 ≤ g ∧ ∀ w' b', w'.length = C.length →
      objective C y w b l1r pen (y.length : α) - objective C y w' b' l1r pen (y.length : α) ≤ g := by
  have hnn : (0 : α) ≤ (y.length : α) := Nat.cast_nonneg _
  simp only [fitEnet] at h
  generalize hci : computeIntercept true y (y.length : α) = ci at h
  obtain ⟨m, yc⟩ := ci
  simp only [] at h
  generalize hcd : coordinateDescent contig eps C yc (y.length : α) tol maxSteps l1r pen = res at h
  obtain ⟨w0, g0, s0⟩ := res
  simp only [Prod.mk.injEq] at h
  obtain ⟨rfl, rfl, rfl, rfl⟩ := h
  have hycl : yc.length = y.length := by
    have : yc = (computeIntercept true y (y.length : α)).2 := by rw [hci]
    rw [this]; simp [computeIntercept]
  have hC' : ∀ c ∈ C, c.length = yc.length := fun c hc => by rw [hycl]; exact hC c hc
  have hcert := cd_break_certificate contig eps C yc (y.length : α) tol maxSteps l1r pen w0 g0 s0 hC' h0 h1 hpen
    hnn hcd hs
  obtain ⟨hw, hlt, hg0, _⟩ := hcert
  have hgap := (cdLoop_certificate contig eps ((y.length : α) * l1r * pen) ((y.length : α) * (1 - l1r) * pen) C
    (C.map fun c => dotC contig c c) yc (y.length : α) tol (tol * dotU yc yc) l1r pen maxSteps hC' maxSteps 0
    (List.replicate C.length 0) yc (1 + tol) w0 g0 s0 (residual_zero_start C yc hC').symm (by simp)
    (by unfold coordinateDescent at hcd; exact hcd)).2.2 (by omega)
  refine ⟨hg0, fun w' b' hw' => ?_⟩
  have hm : m = (computeIntercept true y (y.length : α)).1 := by rw [hci]
  have hyc : yc = (computeIntercept true y (y.length : α)).2 := by rw [hci]
  rw [hgap.1, hm, hyc]
  exact fit_joint_optimal_centred_partial contig C y w0 w' b' l1r pen (y.length : α) hC hw hw' h0 h1 hpen hnn hy hcen

example : (0 : ℚ) ≤ 0 :=
  (fit_break_joint_centred_partial (α := ℚ) true (1 / 1000000) [[-1, 0, 1]] [1, 2, 6] (1 / 10000) 10 (1 / 2) 0 3 [5 / 2] 0 2
    (by simp) (by norm_num) (by norm_num) (by norm_num) (by simp) (by simp [sumS]) (by decide +kernel) (by norm_num)).1

/-! ### the glue: constructors and `ParamGuard` -/

theorem check_ok_iff_guards (p q : EnetParams α) :
    p.check = .ok q ↔ (q = p ∧ 0 ≤ p.penalty ∧ 0 ≤ p.l1Ratio ∧ p.l1Ratio ≤ 1 ∧ 0 ≤ p.tolerance) := by
  unfold EnetParams.check
  constructor
  · intro h
    split_ifs at h with h1 h2 h3
    · have := Except.ok.inj h
      exact ⟨this.symm, le_of_not_gt h1, h2.1, h2.2, le_of_not_gt h3⟩
  · rintro ⟨rfl, h1, h2, h3, h4⟩
    rw [if_neg (not_lt.mpr h1), if_neg (not_not.mpr ⟨h2, h3⟩), if_neg (not_lt.mpr h4)]

theorem ridge_is_new_with_ratio_zero (tol0 : α) :
    (EnetParams.ridge tol0).l1Ratio = 0 ∧ (EnetParams.lasso tol0).l1Ratio = 1 ∧
    (EnetParams.new tol0).l1Ratio = 1 / 2 ∧
    (EnetParams.ridge tol0).penalty = 1 ∧ (EnetParams.lasso tol0).penalty = 1 ∧
    (EnetParams.ridge tol0).withIntercept = true ∧ (EnetParams.lasso tol0).withIntercept = true := by
  simp [EnetParams.ridge, EnetParams.lasso, EnetParams.new, half_eq]

theorem objective_ridge (C : List (List α)) (y w : List α) (b pen n : α) :
    objective C y w b 0 pen n
      = 1 / 2 * dotS (residual C y w b) (residual C y w b) + 1 / 2 * (pen * n) * dotS w w := by
  simp [objective, penaltyTerm, half_eq]

theorem objective_lasso (C : List (List α)) (y w : List α) (b pen n : α) :
    objective C y w b 1 pen n
      = 1 / 2 * dotS (residual C y w b) (residual C y w b) + pen * n * normL1 w := by
  simp [objective, penaltyTerm, half_eq]

example : (EnetParams.ridge (1 / 10000 : ℚ)).check = .ok (EnetParams.ridge (1 / 10000 : ℚ)) :=
  (check_ok_iff_guards _ _).mpr ⟨rfl, by norm_num [EnetParams.ridge, EnetParams.new],
    by norm_num [EnetParams.ridge, EnetParams.new], by norm_num [EnetParams.ridge, EnetParams.new],
    by norm_num [EnetParams.ridge, EnetParams.new]⟩

/-- a fit through the unchecked parameter set runs the solver only inside the guards the certificate
theorems assume (`0 ≤ l1_ratio ≤ 1`, `penalty ≥ 0`) -/
theorem fitParams_ok_guards (contig : Bool) (eps : α) (C : List (List α)) (y : List α) (n : α) (p : EnetParams α)
    (res : α × List α × α × Nat) (h : fitParams contig eps C y n p = .ok res) :
    0 ≤ p.penalty ∧ 0 ≤ p.l1Ratio ∧ p.l1Ratio ≤ 1 ∧
      res = fitEnet contig eps C y n p.tolerance p.maxIterations p.l1Ratio p.penalty p.withIntercept := by
  unfold fitParams at h
  split at h
  · simp at h
  · rename_i q hq
    obtain ⟨rfl, hp, hl0, hl1, _⟩ := (check_ok_iff_guards p q).mp hq
    exact ⟨hp, hl0, hl1, (Except.ok.inj h).symm⟩

example : fitParams (α := ℚ) true 0 [[1, 2, 3]] [1, 2, 3] 3 (EnetParams.lasso (1 / 10000))
    = .ok (fitEnet true 0 [[1, 2, 3]] [1, 2, 3] 3 (1 / 10000) 1000 1 1 true) := by
  unfold fitParams
  rw [(check_ok_iff_guards (EnetParams.lasso (1 / 10000 : ℚ)) (EnetParams.lasso (1 / 10000))).mpr
    ⟨rfl, by norm_num [EnetParams.lasso, EnetParams.new],
    by norm_num [EnetParams.lasso, EnetParams.new], by norm_num [EnetParams.lasso, EnetParams.new],
    by norm_num [EnetParams.lasso, EnetParams.new]⟩]
  rfl

/-! ### multi-task: the group threshold -/

section mtl
variable [Transc α]

/-- **a feature row under the group threshold is exactly zero**: `‖x‖₂ ≤ thr` makes
`block_soft_thresholding` return the zero vector (whatever `sqrt` is) -/
theorem blockSoft_zero_below_threshold (x : List α) (thr : α) (h : norm2U x ≤ thr) :
    blockSoft x thr = List.replicate x.length 0 := by
  unfold blockSoft
  simp [h]

/-- the same inside the loop body of `block_coordinate_descent`: after `bcdCoord` on a feature that is not
skipped, row `j` of `W` is exactly zero whenever the correlation of the feature with the partial residual
has norm at most `n·ρ·pen` -/
theorem bcdCoord_zero_below_threshold (contig : Bool) (t : Nat) (thr denAdd : α) (st : BcdState α) (j : Nat)
    (cj : List α) (nrm : α) (hj : j < st.w.length) (hn : ¬ absS nrm ≤ 0)
    (h : norm2U ((colsOf t (if absS (norm2U (st.w.getD j [])) ≤ 0 then st.r
        else rankOne false cj (st.w.getD j []) st.r)).map fun rc => dotC (contig && t == 1) rc cj) ≤ thr) :
    (bcdCoord contig t thr denAdd st j cj nrm).w.getD j [] = List.replicate t 0 := by
  unfold bcdCoord
  rw [if_neg hn]
  simp only []
  rw [blockSoft_zero_below_threshold _ _ h]
  simp [hj, colsOf]

end mtl

local instance ratTransc : Transc ℚ := ⟨id, id, id⟩

example : blockSoft (α := ℚ) [0, 0] 1 = [0, 0] :=
  blockSoft_zero_below_threshold _ _ (by simp [norm2U, dotU, sumU, sumU8, Transc.sqrt])

example : (bcdCoord (α := ℚ) false 2 10 0 { w := [[1, 1]], r := [[0, 0], [0, 0]], wMax := 0, dwMax := 0 } 0 [1, 1] 2).w.getD 0 []
    = [0, 0] :=
  bcdCoord_zero_below_threshold false 2 10 0 _ 0 [1, 1] 2 (by simp) (by norm_num [absS])
    (by norm_num [norm2U, dotU, sumU, sumU8, colsOf, rankOne, absS, Transc.sqrt, dotC, dotS, sumS, List.range, List.range.loop])

/-! ### multi-task weak duality (over ℝ: the group norm needs `sqrt`) -/

/-- **The multi-task duality gap computed by `duality_gap_mtl` bounds the suboptimality**: for the residual
matrix `R = Y − XW` (hypothesis `hres`: column `k` of `R` is the single-task residual of task `k`), *no*
coefficient matrix `W'` of the same shape lowers the documented multi-task objective
`½‖Y − XW‖²_F + l1·Σ_j‖W_j‖₂ + ½·l2·‖W‖²_F` (`objectiveMtl`, `n` × the documented one) by more than the
reported gap — both branches of the code (`max_j‖(XᵀR − l2·W)_j‖₂ > l1` with the rescaled dual point, and the
plain one), through the model's own kernels (`sumS`, `sumU`, `dotS`, `norm2U`).  Matrices are lists of rows:
`Y`, `R` : `n` rows of `t`; `W`, `W'` : `p` rows of `t`; `C` : the `p` columns of `X`.  Over ℝ because of `sqrt`. -/
theorem gap_bounds_suboptimality_mtl (t : Nat) (C : List (List ℝ)) (Y W W' R : List (List ℝ)) (l1r pen n : ℝ)
    (hC : ∀ c ∈ C, c.length = Y.length) (hY : ∀ y ∈ Y, y.length = t)
    (hRn : R.length = Y.length) (hRt : ∀ r ∈ R, r.length = t)
    (hWp : W.length = C.length) (hW : ∀ wj ∈ W, wj.length = t)
    (hWp' : W'.length = C.length) (hW' : ∀ wj ∈ W', wj.length = t)
    (hres : colsOf t R = List.zipWith (fun yk wk => residual C yk wk 0) (colsOf t Y) (colsOf t W))
    (h0 : 0 ≤ l1r) (h1 : l1r ≤ 1) (hpen : 0 ≤ pen) (hn : 0 ≤ n) :
    objectiveMtl C (colsOf t Y) (colsOf t W) W (List.replicate t 0) l1r pen n
        - objectiveMtl C (colsOf t Y) (colsOf t W') W' (List.replicate t 0) l1r pen n
      ≤ dualityGapMtl t C Y W R l1r pen n := by
  have hl1 : 0 ≤ l1r * pen * n := mul_nonneg (mul_nonneg h0 hpen) hn
  have hl2 : 0 ≤ (1 - l1r) * pen * n := mul_nonneg (mul_nonneg (sub_nonneg.mpr h1) hpen) hn
  -- R = Y − XW, task by task
  have hresk : ∀ k ∈ List.range t, colK k R = residual C (colK k Y) (colK k W) 0 := by
    rw [colsOf_eq, colsOf_eq, colsOf_eq, zipWith_map_map_self] at hres
    exact List.map_inj_left.mp hres
  have hsq : ((List.range t).map fun k =>
      dot (residual C (colK k Y) (colK k W) 0) (residual C (colK k Y) (colK k W) 0)).sum = frob R R := by
    rw [← frob_colsOf t R R hRt hRt]
    congr 1
    apply List.map_congr_left
    intro k hk
    rw [hresk k hk]
  rw [objectiveMtl_eq t C Y W l1r pen n hW, objectiveMtl_eq t C Y W' l1r pen n hW', hsq]
  simp only [residual_zero_eq, colK_length]
  have hn2 : (norm2U : List ℝ → ℝ) = fun wj => Real.sqrt (dot wj wj) := funext norm2U_eq
  generalize hl1e : l1r * pen * n = l1 at hl1
  generalize hl2e : (1 - l1r) * pen * n = l2 at hl2
  have htr : (List.zipWith (fun a b => dot a b) (colsOf t R) (colsOf t Y)).sum = frob R Y := by
    rw [colsOf_eq, colsOf_eq, zipWith_map_map_self]
    exact frob_colsOf t R Y hRt hY
  simp only [dualityGapMtl, dualNormMtl, sumS_eq, sumU_eq, dotS_eq, half_eq, hl1e, hl2e, sum_flatten_sq, htr, hn2]
  set XTA := List.zipWith (fun c wj => List.zipWith (fun rk wjk => dot c rk - wjk * l2) (colsOf t R) wj) C W with hXTA
  have hdn0 := normMax_nonneg (XTA.map fun wj => Real.sqrt (dot wj wj))
  have hdn' := le_normMax (XTA.map fun wj => Real.sqrt (dot wj wj))
  generalize normMax (XTA.map fun wj => Real.sqrt (dot wj wj)) = dn at hdn0 hdn' ⊢
  have hdn : ∀ row ∈ XTA, Real.sqrt (dot row row) ≤ dn := fun row hrow =>
    le_trans (le_abs_self _) (hdn' _ (List.mem_map.mpr ⟨row, hrow, rfl⟩))
  by_cases h : l1 < dn
  · rw [if_pos h]
    have hdpos : 0 < dn := lt_of_le_of_lt hl1 h
    have hc : 0 ≤ l1 / dn := div_nonneg hl1 hdn0
    have hcd : l1 / dn * dn ≤ l1 := by rw [div_mul_cancel₀ _ (ne_of_gt hdpos)]
    have key := weak_duality_mtl t C Y W W' R l1 l2 (l1 / dn) dn hC hRn hRt hY hWp hW hWp' hW' hl2 hc hcd hdn0 hdn
    generalize l1 / dn = c at key ⊢
    simp only []
    nlinarith [key]
  · rw [if_neg h]
    have key := weak_duality_mtl t C Y W W' R l1 l2 1 dn hC hRn hRt hY hWp hW hWp' hW' hl2 zero_le_one
      (by rw [one_mul]; exact le_of_not_gt h) hdn0 hdn
    simp only []
    nlinarith [key]


example : objectiveMtl (α := ℝ) [[1, 0], [0, 1]] (colsOf 2 [[3, 4], [0, 0]]) (colsOf 2 [[1, 1], [0, 0]]) [[1, 1], [0, 0]]
      (List.replicate 2 0) (1 / 2) 1 2
    - objectiveMtl [[1, 0], [0, 1]] (colsOf 2 [[3, 4], [0, 0]]) (colsOf 2 [[0, 0], [1, 2]]) [[0, 0], [1, 2]]
      (List.replicate 2 0) (1 / 2) 1 2
    ≤ dualityGapMtl 2 [[1, 0], [0, 1]] [[3, 4], [0, 0]] [[1, 1], [0, 0]] [[2, 3], [0, 0]] (1 / 2) 1 2 :=
  gap_bounds_suboptimality_mtl 2 _ _ _ _ _ _ _ _ (by simp) (by simp) (by simp) (by simp) (by simp) (by simp)
    (by simp) (by simp) (by simp [colsOf, LeastSquares.residual, matVec, List.range, List.range.loop, List.replicate]; norm_num)
    (by norm_num) (by norm_num) (by norm_num) (by norm_num)

/-- the reported multi-task gap is **non-negative** (take `W' = W`) -/
theorem gap_nonneg_mtl (t : Nat) (C : List (List ℝ)) (Y W R : List (List ℝ)) (l1r pen n : ℝ)
    (hC : ∀ c ∈ C, c.length = Y.length) (hY : ∀ y ∈ Y, y.length = t)
    (hRn : R.length = Y.length) (hRt : ∀ r ∈ R, r.length = t)
    (hWp : W.length = C.length) (hW : ∀ wj ∈ W, wj.length = t)
    (hres : colsOf t R = List.zipWith (fun yk wk => residual C yk wk 0) (colsOf t Y) (colsOf t W))
    (h0 : 0 ≤ l1r) (h1 : l1r ≤ 1) (hpen : 0 ≤ pen) (hn : 0 ≤ n) :
    0 ≤ dualityGapMtl t C Y W R l1r pen n := by
  have := gap_bounds_suboptimality_mtl t C Y W W R l1r pen n hC hY hRn hRt hWp hW hWp hW hres h0 h1 hpen hn
  simpa using this

example : 0 ≤ dualityGapMtl (α := ℝ) 2 [[1, 0], [0, 1]] [[3, 4], [0, 0]] [[1, 1], [0, 0]] [[2, 3], [0, 0]] (1 / 2) 1 2 :=
  gap_nonneg_mtl 2 _ _ _ _ _ _ _ (by simp) (by simp) (by simp) (by simp) (by simp) (by simp)
    (by simp [colsOf, LeastSquares.residual, matVec, List.range, List.range.loop, List.replicate]; norm_num)
    (by norm_num) (by norm_num) (by norm_num) (by norm_num)

/-- the same with `R` *computed* as `Y − XW` by the model's `residualMtl` -/
theorem gap_bounds_suboptimality_mtl_residual (t : Nat) (C : List (List ℝ)) (Y W W' : List (List ℝ)) (l1r pen n : ℝ)
    (hC : ∀ c ∈ C, c.length = Y.length) (hY : ∀ y ∈ Y, y.length = t)
    (hWp : W.length = C.length) (hW : ∀ wj ∈ W, wj.length = t)
    (hWp' : W'.length = C.length) (hW' : ∀ wj ∈ W', wj.length = t)
    (h0 : 0 ≤ l1r) (h1 : l1r ≤ 1) (hpen : 0 ≤ pen) (hn : 0 ≤ n) :
    objectiveMtl C (colsOf t Y) (colsOf t W) W (List.replicate t 0) l1r pen n
        - objectiveMtl C (colsOf t Y) (colsOf t W') W' (List.replicate t 0) l1r pen n
      ≤ dualityGapMtl t C Y W (residualMtl t C Y W) l1r pen n := by
  obtain ⟨h1', h2', h3'⟩ := residualMtl_spec t C Y W hC
  exact gap_bounds_suboptimality_mtl t C Y W W' _ l1r pen n hC hY h1' h2' hWp hW hWp' hW' h3' h0 h1 hpen hn

example : objectiveMtl (α := ℝ) [[1, 0], [0, 1]] (colsOf 2 [[3, 4], [0, 0]]) (colsOf 2 [[1, 1], [0, 0]]) [[1, 1], [0, 0]]
      (List.replicate 2 0) (1 / 2) 1 2
    - objectiveMtl [[1, 0], [0, 1]] (colsOf 2 [[3, 4], [0, 0]]) (colsOf 2 [[0, 0], [1, 2]]) [[0, 0], [1, 2]]
      (List.replicate 2 0) (1 / 2) 1 2
    ≤ dualityGapMtl 2 [[1, 0], [0, 1]] [[3, 4], [0, 0]] [[1, 1], [0, 0]]
        (residualMtl 2 [[1, 0], [0, 1]] [[3, 4], [0, 0]] [[1, 1], [0, 0]]) (1 / 2) 1 2 :=
  gap_bounds_suboptimality_mtl_residual 2 _ _ _ _ _ _ _ (by simp) (by simp) (by simp) (by simp) (by simp) (by simp)
    (by norm_num) (by norm_num) (by norm_num) (by norm_num)

/-! ### the multi-task solver loop as modelled: a `break` certifies the returned point

As for the single-task loop: stated for any `eps` (the driver's `F::EPSILON` included); the row guards compare
`‖w_j‖₂` with zero exactly since repo fix 070f1c2. -/

/-- **`block_coordinate_descent` left by its `break` returns a certified point**: the loop as modelled keeps
`R = Y − XW` (`BcdInv`: through `bcdCoord`, `bcdSweepGo`, `bcdLoop`); so if it stops before the budget is used
up, the reported gap is `< tol·‖Y‖²_F`, non-negative, and bounds `P(W) − P(W')` for every `W'` of the same shape. -/
theorem bcd_break_certificate (contig : Bool) (t : Nat) (eps : ℝ) (C : List (List ℝ)) (Y : List (List ℝ)) (n tol : ℝ)
    (maxSteps : Nat) (l1r pen : ℝ) (W : List (List ℝ)) (g : ℝ) (s : Nat)
    (hC : ∀ c ∈ C, c.length = Y.length) (hY : ∀ y ∈ Y, y.length = t)
    (h0 : 0 ≤ l1r) (h1 : l1r ≤ 1) (hpen : 0 ≤ pen) (hn : 0 ≤ n)
    (h : blockCoordinateDescent contig t eps C Y n tol maxSteps l1r pen = (W, g, s)) (hs : s < maxSteps) :
    W.length = C.length ∧ (∀ wj ∈ W, wj.length = t) ∧ g < tol * sumS (Y.flatten.map fun x => x * x) ∧ 0 ≤ g ∧
      ∀ W', W'.length = C.length → (∀ wj ∈ W', wj.length = t) →
        objectiveMtl C (colsOf t Y) (colsOf t W) W (List.replicate t 0) l1r pen n
          - objectiveMtl C (colsOf t Y) (colsOf t W') W' (List.replicate t 0) l1r pen n ≤ g := by
  unfold blockCoordinateDescent at h
  have key := bcdLoop_certificate contig t eps (n * l1r * pen) (n * (1 - l1r) * pen) C (C.map fun c => dotC contig c c) Y
    n tol (tol * sumS (Y.flatten.map fun x => x * x)) l1r pen maxSteps hC maxSteps 0 _ Y (1 + tol) W g s
    (bcdInv_start t C Y hC hY) h
  obtain ⟨R, hinv, hg, hlt⟩ := key.2 (by omega)
  have hres := bcdInv_hres t C Y _ hinv
  obtain ⟨hrn, hrt, hwp, hwt, _⟩ := hinv
  refine ⟨hwp, hwt, hlt, ?_, ?_⟩
  · rw [hg]; exact gap_nonneg_mtl t C Y W R l1r pen n hC hY hrn hrt hwp hwt hres h0 h1 hpen hn
  · intro W' hwp' hwt'
    rw [hg]
    exact gap_bounds_suboptimality_mtl t C Y W W' R l1r pen n hC hY hrn hrt hwp hwt hwp' hwt' hres h0 h1 hpen hn

/-- a concrete run over ℝ (one feature, one task, penalty so large that `W = 0` is optimal): the loop breaks
after one sweep of a budget of two -/
theorem bcd_example_run (eps : ℝ) (heps : 0 ≤ eps) :
    blockCoordinateDescent (α := ℝ) false 1 eps [[1, 0]] [[1], [0]] 2 (1 / 2) 2 1 10 = ([[0]], 0, 1) := by
  have hs0 : Real.sqrt 0 = 0 := Real.sqrt_zero
  have hs1 : Real.sqrt 1 = 1 := Real.sqrt_one
  have hn0 : norm2U ([0] : List ℝ) = 0 := by rw [norm2U_eq]; simp [dot]
  simp [fitMtl, computeInterceptMtl, blockCoordinateDescent, bcdLoop, bcdSweepGo, bcdCoord, blockSoft, norm2U_eq,
    dualityGapMtl, dualNormMtl, colsOf, rankOne, dotC_eq, dotS_eq, sumS_eq, sumU_eq, dot, absS_eq, maxS_eq, normMax,
    half_eq, hs0, hs1, List.range, List.range.loop]
  norm_num
  rw [hn0]; norm_num

example : (0 : ℝ) ≤ 0 :=
  (bcd_break_certificate false 1 (1 / 1000000) [[1, 0]] [[1], [0]] 2 (1 / 2) 2 1 10 [[0]] 0 1 (by simp) (by simp)
    (by norm_num) (by norm_num) (by norm_num) (by norm_num) (bcd_example_run _ (by norm_num)) (by norm_num)).2.2.2.1

/-- **multi-task `fit` without intercept** is `block_coordinate_descent` on the raw targets: same certificate -/
theorem fit_mtl_no_intercept_break_certificate (contig : Bool) (t : Nat) (eps : ℝ) (C : List (List ℝ))
    (Y : List (List ℝ)) (n tol : ℝ) (maxSteps : Nat) (l1r pen : ℝ) (b : List ℝ) (W : List (List ℝ)) (g : ℝ) (s : Nat)
    (hC : ∀ c ∈ C, c.length = Y.length) (hY : ∀ y ∈ Y, y.length = t)
    (h0 : 0 ≤ l1r) (h1 : l1r ≤ 1) (hpen : 0 ≤ pen) (hn : 0 ≤ n)
    (h : fitMtl contig t eps C Y n tol maxSteps l1r pen false = (b, W, g, s)) (hs : s < maxSteps) :
    b = List.replicate t 0 ∧ 0 ≤ g ∧
      ∀ W', W'.length = C.length → (∀ wj ∈ W', wj.length = t) →
        objectiveMtl C (colsOf t Y) (colsOf t W) W b l1r pen n
          - objectiveMtl C (colsOf t Y) (colsOf t W') W' (List.replicate t 0) l1r pen n ≤ g := by
  simp only [fitMtl, computeInterceptMtl, Bool.false_eq_true, if_false] at h
  generalize hcd : blockCoordinateDescent contig t eps C Y n tol maxSteps l1r pen = res at h
  obtain ⟨w0, g0, s0⟩ := res
  simp only [Prod.mk.injEq] at h
  obtain ⟨rfl, rfl, rfl, rfl⟩ := h
  have := bcd_break_certificate contig t eps C Y n tol maxSteps l1r pen w0 g0 s0 hC hY h0 h1 hpen hn hcd hs
  exact ⟨rfl, this.2.2.2.1, this.2.2.2.2⟩

example : (0 : ℝ) ≤ 0 :=
  (fit_mtl_no_intercept_break_certificate false 1 (1 / 1000000) [[1, 0]] [[1], [0]] 2 (1 / 2) 2 1 10 [0] [[0]] 0 1
    (by simp) (by simp) (by norm_num) (by norm_num) (by norm_num) (by norm_num)
    (by simp only [fitMtl, computeInterceptMtl, Bool.false_eq_true, if_false, bcd_example_run _ (by norm_num : (0 : ℝ) ≤ 1 / 1000000)]; rfl)
    (by norm_num)).2.1

/-- **multi-task `fit` with intercept on centred columns**: left by the `break`, the returned `(W, b)` is within
the reported gap of every `(W', b')` — jointly in coefficients and per-task intercepts -/
theorem fit_mtl_break_joint_centred_partial (contig : Bool) (t : Nat) (eps : ℝ) (C : List (List ℝ)) (Y : List (List ℝ))
    (tol : ℝ) (maxSteps : Nat) (l1r pen : ℝ) (b : List ℝ) (W : List (List ℝ)) (g : ℝ) (s : Nat)
    (hC : ∀ c ∈ C, c.length = Y.length) (hY : ∀ y ∈ Y, y.length = t)
    (h0 : 0 ≤ l1r) (h1 : l1r ≤ 1) (hpen : 0 ≤ pen) (hy : 0 < Y.length) (hcen : ∀ c ∈ C, sumS c = 0)
    (h : fitMtl contig t eps C Y (Y.length : ℝ) tol maxSteps l1r pen true = (b, W, g, s)) (hs : s < maxSteps) :
    b.length = t ∧ 0 ≤ g ∧
      ∀ W' b', W'.length = C.length → (∀ wj ∈ W', wj.length = t) → b'.length = t →
        objectiveMtl C (colsOf t Y) (colsOf t W) W b l1r pen (Y.length : ℝ)
          - objectiveMtl C (colsOf t Y) (colsOf t W') W' b' l1r pen (Y.length : ℝ) ≤ g := by
  have hnn : (0 : ℝ) ≤ (Y.length : ℝ) := Nat.cast_nonneg _
  obtain ⟨hml, hycn, hyct, hk⟩ := computeInterceptMtl_spec t Y (Y.length : ℝ) hY
  simp only [fitMtl] at h
  generalize hci : computeInterceptMtl true t Y (Y.length : ℝ) = ci at h hml hycn hyct hk
  obtain ⟨m, Yc⟩ := ci
  simp only [] at h hml hycn hyct hk
  generalize hcd : blockCoordinateDescent contig t eps C Yc (Y.length : ℝ) tol maxSteps l1r pen = res at h
  obtain ⟨w0, g0, s0⟩ := res
  simp only [Prod.mk.injEq] at h
  obtain ⟨rfl, rfl, rfl, rfl⟩ := h
  have hC' : ∀ c ∈ C, c.length = Yc.length := fun c hc => by rw [hycn]; exact hC c hc
  obtain ⟨hwp, hwt, _, hg0, hopt⟩ := bcd_break_certificate contig t eps C Yc (Y.length : ℝ) tol maxSteps l1r pen
    w0 g0 s0 hC' hyct h0 h1 hpen hnn hcd hs
  have hcen' : ∀ c ∈ C, c.sum = 0 := fun c hc => by rw [← sumS_eq]; exact hcen c hc
  refine ⟨hml, hg0, fun W' b' hwp' hwt' hb' => ?_⟩
  have key := hopt W' hwp' hwt'
  -- (i) at the returned intercepts the objective is the centred one
  have e1 : objectiveMtl C (colsOf t Y) (colsOf t w0) w0 m l1r pen (Y.length : ℝ)
      = objectiveMtl C (colsOf t Yc) (colsOf t w0) w0 (List.replicate t 0) l1r pen (Y.length : ℝ) := by
    rw [objectiveMtl_eq_b t C Y w0 m _ _ _ hwt hml, objectiveMtl_eq t C Yc w0 _ _ _ hwt]
    congr 4
    apply List.map_congr_left
    intro k hkr
    obtain ⟨hmk, hck⟩ := hk k (List.mem_range.mp hkr)
    rw [hmk, hck]
    exact sq_centre_eq C (colK k Y) (colK k w0) _
  -- (ii) any other intercepts only add `n·(b'_k − m_k)²/2` per task
  have e2 : objectiveMtl C (colsOf t Yc) (colsOf t W') W' (List.replicate t 0) l1r pen (Y.length : ℝ)
      ≤ objectiveMtl C (colsOf t Y) (colsOf t W') W' b' l1r pen (Y.length : ℝ) := by
    rw [objectiveMtl_eq_b t C Y W' b' _ _ _ hwt' hb', objectiveMtl_eq t C Yc W' _ _ _ hwt']
    have hle : ((List.range t).map fun k => dot (LeastSquares.residual C (colK k Yc) (colK k W') 0)
          (LeastSquares.residual C (colK k Yc) (colK k W') 0)).sum
        ≤ ((List.range t).map fun k => dot (LeastSquares.residual C (colK k Y) (colK k W') (b'.getD k 0))
          (LeastSquares.residual C (colK k Y) (colK k W') (b'.getD k 0))).sum := by
      apply List.sum_le_sum
      intro k hkr
      obtain ⟨_, hck⟩ := hk k (List.mem_range.mp hkr)
      rw [hck]
      have := sq_centre_le C (colK k Y) (colK k W') (b'.getD k 0)
        (by intro c hc; rw [colK_length]; exact hC c hc) (by rw [colK_length]; exact hy) hcen'
      rw [colK_length] at this
      exact this
    linarith
  rw [e1]; linarith

/-- a concrete run with intercept on a centred column -/
theorem fit_mtl_example_run (eps : ℝ) (heps : 0 ≤ eps) :
    fitMtl (α := ℝ) false 1 eps [[1, -1]] [[1], [0]] ((2 : ℕ) : ℝ) (1 / 2) 2 1 10 true = ([1 / 2], [[0]], 0, 1) := by
  have hs0 : Real.sqrt 0 = 0 := Real.sqrt_zero
  have hs1 : Real.sqrt 1 = 1 := Real.sqrt_one
  have hn0 : norm2U ([0] : List ℝ) = 0 := by rw [norm2U_eq]; simp [dot]
  simp [fitMtl, computeInterceptMtl, blockCoordinateDescent, bcdLoop, bcdSweepGo, bcdCoord, blockSoft, norm2U_eq,
    dualityGapMtl, dualNormMtl, colsOf, rankOne, dotC_eq, dotS_eq, sumS_eq, sumU_eq, dot, absS_eq, maxS_eq, normMax,
    half_eq, hs0, hs1, List.range, List.range.loop]
  norm_num

example : (0 : ℝ) ≤ 0 :=
  (fit_mtl_break_joint_centred_partial false 1 (1 / 1000000) [[1, -1]] [[1], [0]] (1 / 2) 2 1 10 [1 / 2] [[0]] 0 1 (by simp) (by simp)
    (by norm_num) (by norm_num) (by norm_num) (by simp) (by simp [sumS]) (fit_mtl_example_run _ (by norm_num)) (by norm_num)).2.1

/-! ### the group prox is the exact minimiser of the per-feature subproblem -/

/-- **`block_soft_thresholding(x, thr) / den` minimises `z ↦ ½·den·‖z‖² − ⟨x, z⟩ + thr·‖z‖₂`** over *all* vectors `z`
(`den = ‖x_j‖² + n(1−ρ)pen > 0`, `thr = nρ·pen ≥ 0`, `x = X_jᵀR_j` the correlation of feature `j` with the
partial residual): Cauchy–Schwarz reduces it to the scalar soft-threshold problem in `‖z‖`. -/
theorem blockSoft_is_argmin (x z : List ℝ) (thr den : ℝ) (hthr : 0 ≤ thr) (hden : 0 < den) :
    1 / 2 * den * dotS ((blockSoft x thr).map (· / den)) ((blockSoft x thr).map (· / den))
        - dotS x ((blockSoft x thr).map (· / den)) + thr * norm2U ((blockSoft x thr).map (· / den))
      ≤ 1 / 2 * den * dotS z z - dotS x z + thr * norm2U z := by
  simp only [dotS_eq, norm2U_eq]
  exact blockSoft_argmin x z thr den hthr hden

example : 1 / 2 * (2 : ℝ) * dotS ((blockSoft [3, 4] 1).map (· / 2)) ((blockSoft [3, 4] 1).map (· / 2))
      - dotS [3, 4] ((blockSoft [3, 4] 1).map (· / 2)) + 1 * norm2U ((blockSoft [3, 4] 1).map (· / 2))
    ≤ 1 / 2 * 2 * dotS [1, 1] [1, 1] - dotS [3, 4] [1, 1] + 1 * norm2U [1, 1] :=
  blockSoft_is_argmin [3, 4] [1, 1] 1 2 (by norm_num) (by norm_num)

/-- the same inside the loop body of `block_coordinate_descent`: the row written by `bcdCoord` for a feature
that is not skipped is that minimiser, for the correlation with the current partial residual -/
theorem bcdCoord_is_block_argmin (contig : Bool) (t : Nat) (thr denAdd : ℝ) (st : BcdState ℝ) (j : Nat)
    (cj : List ℝ) (nrm : ℝ) (z : List ℝ) (hj : j < st.w.length) (hn : ¬ absS nrm ≤ 0) (hthr : 0 ≤ thr)
    (hden : 0 < nrm + denAdd) :
    let tmp := (colsOf t (if absS (norm2U (st.w.getD j [])) ≤ 0 then st.r
      else rankOne false cj (st.w.getD j []) st.r)).map fun rc => dotC (contig && t == 1) rc cj
    let new := (bcdCoord contig t thr denAdd st j cj nrm).w.getD j []
    1 / 2 * (nrm + denAdd) * dotS new new - dotS tmp new + thr * norm2U new
      ≤ 1 / 2 * (nrm + denAdd) * dotS z z - dotS tmp z + thr * norm2U z := by
  intro tmp new
  have hnew : new = (blockSoft tmp thr).map (· / (nrm + denAdd)) := by
    simp only [new, tmp]
    unfold bcdCoord
    rw [if_neg hn]
    simp [hj]
  rw [hnew]
  exact blockSoft_is_argmin tmp z thr (nrm + denAdd) hthr hden

example : True := by
  have := bcdCoord_is_block_argmin false 2 1 0 { w := [[1, 1]], r := [[0, 0], [0, 0]], wMax := 0, dwMax := 0 } 0
    [1, 1] 2 [1, 0] (by simp) (by norm_num [absS]) (by norm_num) (by norm_num)
  trivial

end LinfaSpec.Props.C11
