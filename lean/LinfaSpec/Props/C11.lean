import LinfaSpec.Model.LeastSquares

/-!
# C11 — least-squares estimators return a minimiser of their documented objective
(theorems are added below; this first version only fixes a shape lemma)
-/
namespace LinfaSpec.Props.C11
open LinfaSpec LinfaSpec.LeastSquares

/-- `block_soft_thresholding` keeps the number of tasks -/
theorem blockSoft_length {α : Type} [Add α] [Sub α] [Mul α] [Div α] [LE α] [DecidableLE α]
    [OfNat α 0] [OfNat α 1] [Transc α] (x : List α) (thr : α) :
    (blockSoft x thr).length = x.length := by
  unfold blockSoft
  simp only
  split <;> simp

end LinfaSpec.Props.C11
