import LinfaSpec.Proofs.KMeans

/-!
# C09 — K-means assigns to the nearest centroid; each Lloyd step lowers the cost

Theorems about `LinfaSpec.KMeans` (the model of `k_means/algorithm.rs` that the driver runs on
`Float` against the Rust code), over an arbitrary linearly ordered field, for every data matrix,
every `k ≥ 1`, every iteration budget, every convergence test `conv` (any tolerance, any metric for
the centroid shift), every list of initial matrices (one per restart).  The reduced distance `rd`
is arbitrary wherever the statement does not need the squared-L2 one.

Not covered here (see notes/C09.md): IEEE rounding; the random initialisers themselves (their
output enters as the list `inits`; the correspondence run observes them through a hook and checks
that they return data rows and that run `i` of `n_runs = r` starts where run `i` of `n_runs = r+1` does).
-/
namespace LinfaSpec.Props.C09
open LinfaSpec LinfaSpec.KMeans

section AnyMetric
variable {α : Type} [LinearOrder α]

/-- **`closest_centroid` is an arg-min**: the returned index is in range, the returned value is the
reduced distance to that centroid (what `transform` reports), no centroid is closer, and the index
is the first one at that minimal distance (ties go to the lower index). -/
theorem closest_is_argmin (rd : List α → List α → α) (cs : List (List α)) (x : List α)
    (hk : cs ≠ []) :
    (closest rd cs x).1 < cs.length ∧
    (closest rd cs x).2 = rd (cs.getD (closest rd cs x).1 []) x ∧
    (∀ j, j < cs.length → (closest rd cs x).2 ≤ rd (cs.getD j []) x) ∧
    (∀ j, j < (closest rd cs x).1 → (closest rd cs x).2 < rd (cs.getD j []) x) :=
  closest_spec rd cs x hk

example : closest (α := Int) (fun c x => (c.headD 0 - x.headD 0) * (c.headD 0 - x.headD 0))
    [[4], [0], [2], [0]] [1] = (1, 1) := by decide

/-- **predict / transform treat every row on its own, training or new**: each output pair of
`assign` is `closest_centroid` of its own row (so `closest_is_argmin` applies to it), whatever the
other rows are. -/
theorem assign_is_per_row (rd : List α → List α → α) (cs xs : List (List α)) :
    (assign rd cs xs).length = xs.length ∧
    ∀ x q, (x, q) ∈ xs.zip (assign rd cs xs) → q = closest rd cs x := by
  refine ⟨by simp [assign], ?_⟩
  intro x q h
  unfold assign at h
  rw [List.zip_map_right] at h
  obtain ⟨⟨a, b⟩, hab, e⟩ := List.mem_map.mp h
  simp only [Prod.map, id, Prod.mk.injEq] at e
  obtain ⟨rfl, rfl⟩ := e
  have : a = b := by
    clear h
    induction xs with
    | nil => simp at hab
    | cons y ys ih =>
      simp only [List.zip_cons_cons, List.mem_cons, Prod.mk.injEq] at hab
      rcases hab with ⟨rfl, rfl⟩ | hab
      · rfl
      · exact ih hab
  rw [this]

example : assign (α := Int) (fun c x => (c.headD 0 - x.headD 0) * (c.headD 0 - x.headD 0))
    [[0], [10]] [[1], [9], [5]] = [(0, 1), (1, 1), (0, 25)] := by decide

/-- **every calling form of `predict` / `transform` is the same per-row arg-min**: predicting a
matrix gives, row by row, what predicting that row alone gives (`Ix1` form), `transform` gives the
reduced distance to the predicted centroid, and no centroid is closer.  (The `DatasetBase`,
`&DatasetBase` and `&ArrayBase` forms of `Predict` are all `default_target` + `predict_inplace`.) -/
theorem predict_forms_agree (rd : List α → List α → α) (cs xs : List (List α)) (hk : cs ≠ []) :
    predict rd cs xs = xs.map (predict1 rd cs) ∧
    (transform rd cs xs).length = xs.length ∧
    ∀ i (hi : i < xs.length),
      predict1 rd cs xs[i] < cs.length ∧
      (transform rd cs xs)[i]? = some (rd (cs.getD (predict1 rd cs xs[i]) []) xs[i]) ∧
      ∀ j, j < cs.length → rd (cs.getD (predict1 rd cs xs[i]) []) xs[i] ≤ rd (cs.getD j []) xs[i] := by
  refine ⟨by simp [predict, assign, predict1], by simp [transform, assign], ?_⟩
  intro i hi
  obtain ⟨h1, h2, h3, _⟩ := closest_spec rd cs xs[i] hk
  refine ⟨h1, ?_, ?_⟩
  · simp only [transform, assign, List.map_map, List.getElem?_map, List.getElem?_eq_getElem hi,
      Option.map_some, Function.comp]
    rw [h2]; rfl
  · intro j hj
    have := h3 j hj
    rw [h2] at this
    exact this

example : predict (α := Int) (fun c x => (c.headD 0 - x.headD 0) * (c.headD 0 - x.headD 0))
      [[0], [10]] [[1], [9], [5]] = [0, 1, 0] ∧
    transform (α := Int) (fun c x => (c.headD 0 - x.headD 0) * (c.headD 0 - x.headD 0))
      [[0], [10]] [[1], [9], [5]] = [1, 1, 25] := by decide

/-- **`predict_inplace` on a caller-supplied buffer**: it answers exactly when the buffer has one
cell per observation (the `assert_eq!`), and then every cell is overwritten by the prediction of
its row — the result does not depend on what the buffer held. -/
theorem predict_inplace_overwrites (rd : List α → List α → α) (cs xs : List (List α))
    (buf : List Nat) :
    (xs.length = buf.length → predictInplace rd cs xs buf = some (predict rd cs xs)) ∧
    (xs.length ≠ buf.length → predictInplace rd cs xs buf = none) := by
  constructor
  · intro h
    simp only [predictInplace, h, if_true, Option.some.injEq, predict, assign, List.map_map]
    have : ∀ (l : List (List α)) (b : List Nat), l.length = b.length →
        (l.zip b).map (fun q => predict1 rd cs q.1) = l.map (predict1 rd cs) := by
      intro l
      induction l with
      | nil => intro b _; simp
      | cons y ys ih =>
        intro b hb
        cases b with
        | nil => simp at hb
        | cons c b' =>
          simp only [List.zip_cons_cons, List.map_cons, List.cons.injEq, true_and]
          exact ih b' (by simpa using hb)
    rw [this xs buf h]
    simp [predict1, Function.comp_def]
  · intro h
    simp [predictInplace, h]

example : predictInplace (α := Int) (fun c x => (c.headD 0 - x.headD 0) * (c.headD 0 - x.headD 0))
      [[0], [10]] [[1], [9]] [7, 7] = some [0, 1] ∧
    predictInplace (α := Int) (fun c x => (c.headD 0 - x.headD 0) * (c.headD 0 - x.headD 0))
      [[0], [10]] [[1], [9]] [7] = none := by decide

/-- **the two `predict_inplace` calls the correspondence run makes** (Drv/C09 `handleFit`): on a buffer
of `n` cells holding any value the answer is `predict`; on a buffer one cell short (`n ≥ 1`) it is the
`assert_eq!` panic (`none`) — the code may not leave an observation without a cluster silently. -/
theorem predict_inplace_driver_calls (rd : List α → List α → α) (cs xs : List (List α)) (v w : Nat)
    (hx : xs ≠ []) :
    predictInplace rd cs xs (List.replicate xs.length v) = some (predict rd cs xs) ∧
    predictInplace rd cs xs (List.replicate (xs.length - 1) w) = none := by
  have hpos : 0 < xs.length := List.length_pos_iff.mpr hx
  constructor
  · exact (predict_inplace_overwrites rd cs xs _).1 (by simp)
  · exact (predict_inplace_overwrites rd cs xs _).2 (by simp; omega)

example : predictInplace (α := Int) (fun c x => (c.headD 0 - x.headD 0) * (c.headD 0 - x.headD 0))
      [[0], [10]] [[1], [9]] (List.replicate 2 7) = some [0, 1] ∧
    predictInplace (α := Int) (fun c x => (c.headD 0 - x.headD 0) * (c.headD 0 - x.headD 0))
      [[0], [10]] [[1], [9]] (List.replicate (2 - 1) 0) = none := by decide

end AnyMetric

section Field
variable {α : Type} [Field α] [LinearOrder α] [IsStrictOrderedRing α]

/-- **the update step**: every new centroid has the dimension of the old one and is, coordinate by
coordinate, the mean of the rows assigned to it together with its previous position;
an empty cluster keeps its centroid. -/
theorem update_is_mean_with_old (cs xs : List (List α)) (mem : List Nat) (p : Nat)
    (hc : ∀ c ∈ cs, c.length = p) (hx : ∀ x ∈ xs, x.length = p) (j : Nat) (hj : j < cs.length) :
    (updateCentroids cs xs mem).length = cs.length ∧
    ((updateCentroids cs xs mem).getD j []).length = p ∧
    ∀ d, d < p → ((updateCentroids cs xs mem).getD j []).getD d 0 =
      (((members j xs mem).map (·.getD d 0)).sum + (cs.getD j []).getD d 0) /
        (((members j xs mem).length : α) + 1) := by
  have hd := getD_dim p cs hc j hj
  have hr : ∀ x ∈ members j xs mem, x.length = (cs.getD j []).length :=
    fun x hx' => by rw [hd]; exact hx x (members_sub _ _ _ x hx')
  obtain ⟨h1, h2⟩ := updateOne_spec (cs.getD j []) (members j xs mem) hr
  rw [updateCentroids_getD cs xs mem j hj]
  refine ⟨updateCentroids_length cs xs mem, by rw [h1, hd], ?_⟩
  intro d hdp
  exact h2 d (by rw [hd]; exact hdp)

example : updateCentroids (α := Rat) [[0], [7]] [[1], [2], [3]] [0, 0, 0] = [[3 / 2], [7]] := by
  decide +kernel

/-- **Appendix A.4 — the update lowers the squared-L2 cost of every cluster**: the new centroid
`(Σ members + c)/(n+1)` has no larger sum of squared distances to the members than `c`. -/
theorem update_lowers_cost_L2 (c : List α) (rows : List (List α))
    (hr : ∀ x ∈ rows, x.length = c.length) :
    (rows.map (sqL2 (updateOne c rows))).sum ≤ (rows.map (sqL2 c)).sum :=
  cluster_descent c rows hr

example : ((([[0], [0], [10]] : List (List Rat)).map (sqL2 (updateOne [0] [[0], [0], [10]]))).sum,
    (([[0], [0], [10]] : List (List Rat)).map (sqL2 [0])).sum) = (275 / 4, 100) := by decide +kernel

/-- **the assignment step lowers the cost** (any metric): the cost of a centroid matrix — every row
at its closest centroid — is at most the cost of the same matrix under any other assignment. -/
theorem assign_lowers_cost (rd : List α → List α → α) (cs xs : List (List α)) (hk : cs ≠ [])
    (h : List α → Nat) (hh : ∀ x ∈ xs, h x < cs.length) :
    cost rd cs xs ≤ (xs.map fun x => rd (cs.getD (h x) []) x).sum :=
  cost_le_any_assignment rd cs xs hk h hh

/-- **one Lloyd iteration never increases the squared-L2 within-cluster cost**, for every data
matrix of dimension `p` and every `k ≥ 1` centroids of dimension `p` (duplicates, empty clusters,
ties included). -/
theorem lloyd_step_lowers_cost (p : Nat) (cs xs : List (List α)) (hk : cs ≠ [])
    (hc : ∀ c ∈ cs, c.length = p) (hx : ∀ x ∈ xs, x.length = p) :
    cost sqL2 (lloydStep sqL2 xs cs) xs ≤ cost sqL2 cs xs :=
  lloydStep_cost_le p cs xs ⟨hk, hc, hx⟩

/-- **the cost of the returned centroids never increases when the iteration budget grows**
(squared-L2): from the same initial matrix, with the same (arbitrary) convergence test, the
centroids returned for budget `m'` cost at most those returned for any smaller budget `m ≥ 1`.
Hypotheses are the code's guards: `k ≥ 1`, `max_n_iterations ≥ 1`, rectangular input. -/
theorem lloyd_cost_antitone (conv : List (List α) → List (List α) → Bool) (p : Nat)
    (xs init : List (List α)) (hk : init ≠ []) (hc : ∀ c ∈ init, c.length = p)
    (hx : ∀ x ∈ xs, x.length = p) (m m' : Nat) (h1 : 1 ≤ m) (h : m ≤ m') :
    cost sqL2 (runOnce sqL2 conv xs m' init).centroids xs ≤
      cost sqL2 (runOnce sqL2 conv xs m init).centroids xs :=
  fitLoop_cost_antitone conv p xs init ⟨hk, hc, hx⟩ m m' h1 h

example : (cost sqL2 (runOnce (α := Rat) sqL2 (fun _ _ => false) [[0], [0], [10]] 1 [[0]]).centroids
      [[0], [0], [10]],
    cost sqL2 (runOnce (α := Rat) sqL2 (fun _ _ => false) [[0], [0], [10]] 2 [[0]]).centroids
      [[0], [0], [10]]) = (275 / 4, 4275 / 64) := by decide +kernel

/-- **the same claim is false for the L1 metric** (the update is a mean, which minimises squared
deviations, not absolute ones): data `{0, 0, 10}`, one centroid starting at `0`; the L1 cost of the
returned centroid is `25/2` with budget 1 and `105/8` with budget 2.  The witness is replayed on
linfa with `L1Dist` by every run of the check (first `traj` cases); recorded as an open finding. -/
theorem lloyd_cost_antitone_L1_false :
    cost l1 (runOnce (α := Rat) l1 (fun _ _ => false) [[0], [0], [10]] 1 [[0]]).centroids
        [[0], [0], [10]] <
      cost l1 (runOnce (α := Rat) l1 (fun _ _ => false) [[0], [0], [10]] 2 [[0]]).centroids
        [[0], [0], [10]] := by decide +kernel

/-- … and for the L∞ metric (same one-dimensional witness). -/
theorem lloyd_cost_antitone_Linf_false :
    cost linf (runOnce (α := Rat) linf (fun _ _ => false) [[0], [0], [10]] 1 [[0]]).centroids
        [[0], [0], [10]] <
      cost linf (runOnce (α := Rat) linf (fun _ _ => false) [[0], [0], [10]] 2 [[0]]).centroids
        [[0], [0], [10]] := by decide +kernel

/-- the kept run of `fit`, unpacked -/
theorem fit_some (rd : List α → List α → α) (conv : List (List α) → List (List α) → Bool)
    (ltInf : α → Bool) (k : Nat) (xs : List (List α)) (budget : Nat)
    (inits : List (List (List α))) (f : Fitted α)
    (h : fit rd conv ltInf k xs budget inits = some f) :
    ∃ init ∈ inits,
      f.centroids = (runOnce rd conv xs budget init).centroids ∧
      f.counts = (List.range k).map (fun j => countOf j (runOnce rd conv xs budget init).memberships) ∧
      f.inertia = (runOnce rd conv xs budget init).inertia / (xs.length : α) := by
  unfold fit finish at h
  cases hb : fitRuns rd conv ltInf xs budget inits with
  | none => rw [hb] at h; simp at h
  | some b =>
    rw [hb] at h
    simp only [Option.map_some, Option.some.injEq] at h
    obtain ⟨init, hi, rfl⟩ := fitRuns_mem rd conv ltInf xs budget inits b hb
    exact ⟨init, hi, by rw [← h], by rw [← h], by rw [← h]⟩

/-- **exactly `k` centroids of the data's dimension** -/
theorem k_centroids_dim (rd : List α → List α → α) (conv : List (List α) → List (List α) → Bool)
    (ltInf : α → Bool) (k p : Nat) (xs : List (List α)) (budget : Nat)
    (inits : List (List (List α))) (f : Fitted α) (hk : 0 < k)
    (hi : ∀ i ∈ inits, i.length = k ∧ ∀ c ∈ i, c.length = p) (hx : ∀ x ∈ xs, x.length = p)
    (h : fit rd conv ltInf k xs budget inits = some f) :
    f.centroids.length = k ∧ ∀ c ∈ f.centroids, c.length = p := by
  obtain ⟨init, hin, e, _, _⟩ := fit_some rd conv ltInf k xs budget inits f h
  obtain ⟨hl, hd⟩ := hi init hin
  have w : WF p init xs := ⟨by intro h0; rw [h0] at hl; simp at hl; omega, hd, hx⟩
  rw [e]
  exact ⟨by simp [runOnce, fitLoop_length, hl], (fitLoop_wf rd conv p xs budget init w).cdim⟩

/-- **centroids stay in the bounding box of the data when initialised from it**: if every row and
every initial centroid lies between `lo` and `hi` coordinate-wise, so does every returned centroid
(any metric, any budget, any number of restarts). -/
theorem centroids_in_bbox (rd : List α → List α → α) (conv : List (List α) → List (List α) → Bool)
    (ltInf : α → Bool) (k p : Nat) (xs : List (List α)) (budget : Nat)
    (inits : List (List (List α))) (f : Fitted α) (lo hi : Nat → α) (hk : 0 < k)
    (hi' : ∀ i ∈ inits, i.length = k ∧ ∀ c ∈ i, c.length = p ∧ InBox lo hi c)
    (hx : ∀ x ∈ xs, x.length = p ∧ InBox lo hi x)
    (h : fit rd conv ltInf k xs budget inits = some f) :
    ∀ c ∈ f.centroids, InBox lo hi c := by
  obtain ⟨init, hin, e, _, _⟩ := fit_some rd conv ltInf k xs budget inits f h
  obtain ⟨hl, hd⟩ := hi' init hin
  have w : WF p init xs :=
    ⟨by intro h0; rw [h0] at hl; simp at hl; omega, fun c hc => (hd c hc).1, fun x hx' => (hx x hx').1⟩
  rw [e]
  exact fitLoop_inBox rd conv lo hi p xs (fun x hx' => (hx x hx').2) budget init w
    (fun c hc => (hd c hc).2)

example : InBox (fun _ => (0 : Rat)) (fun _ => 10) [5 / 2] := by
  intro d hd; simp at hd; subst hd; constructor <;> decide +kernel

/-- **the reported counts describe the returned centroids and sum to `n`**: `cluster_count[j]` is
the number of training rows whose nearest returned centroid (first minimum) is `j`. -/
theorem counts_describe_returned (rd : List α → List α → α)
    (conv : List (List α) → List (List α) → Bool) (ltInf : α → Bool) (k : Nat)
    (xs : List (List α)) (budget : Nat) (inits : List (List (List α))) (f : Fitted α)
    (hk : 0 < k) (hi : ∀ i ∈ inits, i.length = k)
    (h : fit rd conv ltInf k xs budget inits = some f) :
    f.counts = (List.range k).map (fun j => countOf j ((assign rd f.centroids xs).map (·.1))) ∧
    f.counts.sum = xs.length := by
  obtain ⟨init, hin, e, ec, _⟩ := fit_some rd conv ltInf k xs budget inits f h
  have hmem : (runOnce rd conv xs budget init).memberships =
      (assign rd f.centroids xs).map (·.1) := by rw [e]; rfl
  rw [ec, hmem]
  refine ⟨rfl, ?_⟩
  have hlen : f.centroids.length = k := by rw [e]; simp [runOnce, fitLoop_length, hi init hin]
  have hne : f.centroids ≠ [] := by intro h0; rw [h0] at hlen; simp at hlen; omega
  rw [countOf_sum k _ (by
    intro j hj
    simp only [assign, List.map_map, List.mem_map, Function.comp] at hj
    obtain ⟨x, _, rfl⟩ := hj
    rw [← hlen]; exact (closest_spec rd f.centroids x hne).1)]
  simp [assign]

/-- **the reported inertia describes the returned centroids**: it is their within-cluster cost
(every training row at its nearest returned centroid) divided by `n`. -/
theorem inertia_describes_returned (rd : List α → List α → α)
    (conv : List (List α) → List (List α) → Bool) (ltInf : α → Bool) (k : Nat)
    (xs : List (List α)) (budget : Nat) (inits : List (List (List α))) (f : Fitted α)
    (h : fit rd conv ltInf k xs budget inits = some f) :
    f.inertia = cost rd f.centroids xs / (xs.length : α) := by
  obtain ⟨init, _, e, _, ei⟩ := fit_some rd conv ltInf k xs budget inits f h
  rw [ei, runOnce_inertia, e]

/-- **more restarts from the same seed never give a higher reported inertia**: the runs of
`n_runs = r` are a prefix of the runs of any larger `n_runs` (the initialisers draw from one RNG
stream, `inits ++ more`); the reported inertia can only go down, and a result is still returned. -/
theorem more_restarts_not_worse (rd : List α → List α → α)
    (conv : List (List α) → List (List α) → Bool) (ltInf : α → Bool) (k : Nat)
    (xs : List (List α)) (budget : Nat) (inits more : List (List (List α))) (f : Fitted α)
    (h : fit rd conv ltInf k xs budget inits = some f) :
    ∃ f', fit rd conv ltInf k xs budget (inits ++ more) = some f' ∧ f'.inertia ≤ f.inertia := by
  unfold fit finish at h ⊢
  cases hb : fitRuns rd conv ltInf xs budget inits with
  | none => rw [hb] at h; simp at h
  | some b =>
    rw [hb] at h
    simp only [Option.map_some, Option.some.injEq] at h
    obtain ⟨b', e, l⟩ := fitRuns_append_le rd conv ltInf xs budget inits more b hb
    rw [e]
    refine ⟨_, rfl, ?_⟩
    rw [← h]
    exact div_le_div_of_nonneg_right l (Nat.cast_nonneg _)

example : (fit (α := Rat) sqL2 (fun _ _ => false) (fun _ => true) 1 [[0], [0], [10]] 1
      [[[0]]]).map (·.inertia) = some (275 / 12) ∧
    (fit (α := Rat) sqL2 (fun _ _ => false) (fun _ => true) 1 [[0], [0], [10]] 1
      [[[0]], [[10]]]).map (·.inertia) = some (275 / 12) ∧
    (fit (α := Rat) sqL2 (fun _ _ => false) (fun _ => true) 1 [[0], [0], [10]] 1
      [[[0]], [[10]]]).map (·.counts) = some [3] := by decide +kernel

/-- **the update inside one Lloyd iteration**: centroid `j` after the iteration is, per coordinate,
the mean of the rows whose nearest current centroid (first minimum) is `j`, together with the
current centroid `j` ("replaces each centroid by the mean of its assigned points together with its
previous position"), for any metric. -/
theorem lloyd_step_is_mean_of_assigned (rd : List α → List α → α) (cs xs : List (List α)) (p : Nat)
    (hc : ∀ c ∈ cs, c.length = p) (hx : ∀ x ∈ xs, x.length = p) (j : Nat) (hj : j < cs.length) :
    (lloydStep rd xs cs).length = cs.length ∧
    ∀ d, d < p → ((lloydStep rd xs cs).getD j []).getD d 0 =
      (((members j xs (predict rd cs xs)).map (·.getD d 0)).sum + (cs.getD j []).getD d 0) /
        (((members j xs (predict rd cs xs)).length : α) + 1) := by
  obtain ⟨h1, _, h3⟩ := update_is_mean_with_old cs xs (predict rd cs xs) p hc hx j hj
  exact ⟨h1, h3⟩

example : lloydStep (α := Rat) sqL2 [[0], [1], [9]] [[0], [10]] = [[1 / 3], [19 / 2]] := by
  decide +kernel

/-- **what a budget of `m` iterations returns**: the `j`-th iterate of the Lloyd step from the initial
matrix for some `1 ≤ j ≤ m`; the loop stops before the budget is used up only because the convergence
test held at that iteration, and it held at no earlier one.  (The counter `n_iter` starts at zero for
every restart: `runOnce` calls `fitLoop` with the full budget.) -/
theorem fit_loop_is_iterate (rd : List α → List α → α) (conv : List (List α) → List (List α) → Bool)
    (xs : List (List α)) (m : Nat) (cs : List (List α)) (hm : 1 ≤ m) :
    ∃ j, 1 ≤ j ∧ j ≤ m ∧ fitLoop rd conv xs m cs = Nat.iterate (lloydStep rd xs) j cs ∧
      (j < m → conv (Nat.iterate (lloydStep rd xs) (j - 1) cs)
        (Nat.iterate (lloydStep rd xs) j cs) = true) ∧
      ∀ i, i + 1 < j → conv (Nat.iterate (lloydStep rd xs) i cs)
        (Nat.iterate (lloydStep rd xs) (i + 1) cs) = false := by
  induction m generalizing cs with
  | zero => omega
  | succ f ih =>
    by_cases hc : conv cs (lloydStep rd xs cs) = true
    · refine ⟨1, le_refl _, by omega, ?_, fun _ => hc, fun i hi => by omega⟩
      rw [fitLoop_conv _ _ _ _ _ hc]; rfl
    · have hc' : conv cs (lloydStep rd xs cs) = false := by simpa using hc
      cases f with
      | zero =>
        refine ⟨1, le_refl _, le_refl _, ?_, fun h => by omega, fun i hi => by omega⟩
        rw [fitLoop_one]; rfl
      | succ g =>
        obtain ⟨j, h1, h2, e, hs, hn⟩ := ih (lloydStep rd xs cs) (by omega)
        refine ⟨j + 1, by omega, by omega, ?_, ?_, ?_⟩
        · rw [fitLoop_nconv rd conv xs g cs hc', e]; rfl
        · intro hlt
          have := hs (by omega)
          obtain ⟨j', rfl⟩ : ∃ j', j = j' + 1 := ⟨j - 1, by omega⟩
          simpa [Nat.iterate] using this
        · intro i hi
          cases i with
          | zero => exact hc'
          | succ i' => exact hn i' (by omega)

example : fitLoop (α := Rat) sqL2 (fun a b => a == b) [[0], [2]] 5 [[1]] =
    Nat.iterate (lloydStep sqL2 [[0], [2]]) 1 [[1]] := by decide +kernel

/-- **`fit` returns a model** whenever there is at least one restart (`n_runs ≥ 1`) and every
inertia is below `+∞` (always so over an ordered field; in IEEE arithmetic it fails exactly when the
summed distances overflow — `Err(InertiaError)`). -/
theorem fit_succeeds (rd : List α → List α → α) (conv : List (List α) → List (List α) → Bool)
    (ltInf : α → Bool) (hl : ∀ x, ltInf x = true) (k : Nat) (xs : List (List α)) (budget : Nat)
    (inits : List (List (List α))) (hne : inits ≠ []) :
    ∃ f, fit rd conv ltInf k xs budget inits = some f := by
  obtain ⟨b, hb⟩ := fitRuns_isSome rd conv ltInf hl xs budget inits hne
  rw [fit, hb]
  exact ⟨_, rfl⟩

/-- **the returned run is the best of all restarts**: its reported inertia is at most the inertia
(cost / n) of what any of the restarts returns. -/
theorem fit_inertia_is_min (rd : List α → List α → α) (conv : List (List α) → List (List α) → Bool)
    (ltInf : α → Bool) (hl : ∀ x, ltInf x = true) (k : Nat) (xs : List (List α)) (budget : Nat)
    (inits : List (List (List α))) (f : Fitted α)
    (h : fit rd conv ltInf k xs budget inits = some f) :
    ∀ init ∈ inits, f.inertia ≤
      cost rd (runOnce rd conv xs budget init).centroids xs / (xs.length : α) := by
  unfold fit finish at h
  cases hb : fitRuns rd conv ltInf xs budget inits with
  | none => rw [hb] at h; simp at h
  | some b =>
    rw [hb] at h
    simp only [Option.map_some, Option.some.injEq] at h
    intro init hi
    rw [← h, ← runOnce_inertia]
    exact div_le_div_of_nonneg_right (fitRuns_min rd conv ltInf hl xs budget inits b hb init hi)
      (Nat.cast_nonneg _)

/-- **with restarts, too, a larger iteration budget never gives a higher cost** (squared-L2): the
restarts of `fit` start from the same initial matrices whatever the budget (the initialisers draw
from one RNG stream that the Lloyd loop does not touch), each restart's cost is antitone in the
budget (`lloyd_cost_antitone`) and the minimum-inertia restart is returned, so the reported inertia
and the within-cluster cost of the returned centroids for budget `m'` are at most those for any
smaller budget `m ≥ 1` — for every number of restarts and every convergence test. -/
theorem restarts_cost_antitone (conv : List (List α) → List (List α) → Bool)
    (ltInf : α → Bool) (hl : ∀ x, ltInf x = true) (k p : Nat) (xs : List (List α))
    (inits : List (List (List α))) (hk : 0 < k)
    (hi : ∀ i ∈ inits, i.length = k ∧ ∀ c ∈ i, c.length = p) (hx : ∀ x ∈ xs, x.length = p)
    (m m' : Nat) (h1 : 1 ≤ m) (h : m ≤ m') (f f' : Fitted α)
    (hf : fit sqL2 conv ltInf k xs m inits = some f)
    (hf' : fit sqL2 conv ltInf k xs m' inits = some f') :
    f'.inertia ≤ f.inertia ∧ cost sqL2 f'.centroids xs ≤ cost sqL2 f.centroids xs := by
  obtain ⟨init, hin, e, _, ei⟩ := fit_some sqL2 conv ltInf k xs m inits f hf
  obtain ⟨hl', hd⟩ := hi init hin
  have w : init ≠ [] := by intro h0; rw [h0] at hl'; simp at hl'; omega
  have key : f'.inertia ≤ f.inertia := by
    refine le_trans (fit_inertia_is_min sqL2 conv ltInf hl k xs m' inits f' hf' init hin) ?_
    rw [ei, runOnce_inertia]
    exact div_le_div_of_nonneg_right
      (lloyd_cost_antitone conv p xs init w hd hx m m' h1 h) (Nat.cast_nonneg _)
  refine ⟨key, ?_⟩
  have e1 := inertia_describes_returned sqL2 conv ltInf k xs m inits f hf
  have e2 := inertia_describes_returned sqL2 conv ltInf k xs m' inits f' hf'
  rw [e1, e2] at key
  by_cases hn : xs.length = 0
  · have : xs = [] := List.length_eq_zero_iff.mp hn
    subst this; simp [cost, assign, sumS]
  · have hpos : (0 : α) < (xs.length : α) := by exact_mod_cast Nat.pos_of_ne_zero hn
    exact (div_le_div_iff_of_pos_right hpos).mp key

example : (fit (α := Rat) sqL2 (fun _ _ => false) (fun _ => true) 1 [[0], [0], [10]] 1
      [[[10]], [[0]]]).map (·.inertia) = some (275 / 12) ∧
    (fit (α := Rat) sqL2 (fun _ _ => false) (fun _ => true) 1 [[0], [0], [10]] 2
      [[[10]], [[0]]]).map (·.inertia) = some (4275 / 192) := by decide +kernel

/-- **when `fit` answers `Err(InertiaError)`**: `min_inertia` starts at the sentinel `T` (the code's
`F::infinity()`; the driver runs exactly `fit … (ltThr +∞)`), so no model is returned iff no restart has
an inertia strictly below the sentinel — in IEEE arithmetic: every restart's summed distances are `+∞`
or NaN.  No hypothesis on `T`. -/
theorem fit_err_iff (rd : List α → List α → α) (conv : List (List α) → List (List α) → Bool)
    (T : α) (k : Nat) (xs : List (List α)) (budget : Nat) (inits : List (List (List α))) :
    fit rd conv (ltThr T) k xs budget inits = none ↔
      ∀ init ∈ inits, ¬ cost rd (runOnce rd conv xs budget init).centroids xs < T := by
  have h := (fitRuns_thr rd conv T xs budget inits).2
  simp only [runOnce_inertia] at h
  rw [← h, fit, finish]
  cases fitRuns rd conv (ltThr T) xs budget inits <;> simp

/-- … hence a model is returned as soon as one restart stays below the sentinel (the guard of the code,
instead of the blanket hypothesis `∀ x, ltInf x = true` of `fit_succeeds`). -/
theorem fit_succeeds_of_sentinel (rd : List α → List α → α)
    (conv : List (List α) → List (List α) → Bool) (T : α) (k : Nat) (xs : List (List α))
    (budget : Nat) (inits : List (List (List α)))
    (h : ∃ init ∈ inits, cost rd (runOnce rd conv xs budget init).centroids xs < T) :
    ∃ f, fit rd conv (ltThr T) k xs budget inits = some f := by
  cases hf : fit rd conv (ltThr T) k xs budget inits with
  | some f => exact ⟨f, rfl⟩
  | none =>
    obtain ⟨init, hi, hlt⟩ := h
    exact absurd hlt ((fit_err_iff rd conv T k xs budget inits).mp hf init hi)

example : fit (α := Rat) sqL2 (fun _ _ => false) (ltThr 10) 1 [[0], [0], [10]] 1 [[[0]]] = none ∧
    (fit (α := Rat) sqL2 (fun _ _ => false) (ltThr 100) 1 [[0], [0], [10]] 1 [[[0]]]).map (·.inertia)
      = some (275 / 12) := by decide +kernel

/-- **the returned run is the best of all restarts, for the selection the code performs** (sentinel
`T`, any value): the cost of the returned centroids is below the sentinel and the reported inertia is at
most cost / n of what ANY restart returns — also of the restarts that were discarded against the
sentinel.  (`fit_inertia_is_min` without its hypothesis `hl`.) -/
theorem fit_inertia_is_min_of_sentinel (rd : List α → List α → α)
    (conv : List (List α) → List (List α) → Bool) (T : α) (k : Nat) (xs : List (List α))
    (budget : Nat) (inits : List (List (List α))) (f : Fitted α)
    (h : fit rd conv (ltThr T) k xs budget inits = some f) :
    cost rd f.centroids xs < T ∧
    ∀ init ∈ inits, f.inertia ≤
      cost rd (runOnce rd conv xs budget init).centroids xs / (xs.length : α) := by
  unfold fit finish at h
  cases hb : fitRuns rd conv (ltThr T) xs budget inits with
  | none => rw [hb] at h; simp at h
  | some b =>
    rw [hb] at h
    simp only [Option.map_some, Option.some.injEq] at h
    obtain ⟨lt, mn⟩ := (fitRuns_thr rd conv T xs budget inits).1 b hb
    obtain ⟨init0, _, rfl⟩ := fitRuns_mem rd conv (ltThr T) xs budget inits b hb
    refine ⟨?_, ?_⟩
    · rw [← h]; simpa [runOnce_inertia] using lt
    · intro init hi
      rw [← h, ← runOnce_inertia]
      exact div_le_div_of_nonneg_right (mn init hi) (Nat.cast_nonneg _)

/-- **budget monotonicity with restarts, for the selection the code performs** (squared-L2, sentinel
`T` of any value, no hypothesis on it): whenever `fit` returns a model for both budgets `1 ≤ m ≤ m'`, the
reported inertia and the within-cluster cost of the returned centroids for `m'` are at most those for
`m`.  (`restarts_cost_antitone` without `hl`.) -/
theorem restarts_cost_antitone_of_sentinel (conv : List (List α) → List (List α) → Bool)
    (T : α) (k p : Nat) (xs : List (List α))
    (inits : List (List (List α))) (hk : 0 < k)
    (hi : ∀ i ∈ inits, i.length = k ∧ ∀ c ∈ i, c.length = p) (hx : ∀ x ∈ xs, x.length = p)
    (m m' : Nat) (h1 : 1 ≤ m) (h : m ≤ m') (f f' : Fitted α)
    (hf : fit sqL2 conv (ltThr T) k xs m inits = some f)
    (hf' : fit sqL2 conv (ltThr T) k xs m' inits = some f') :
    f'.inertia ≤ f.inertia ∧ cost sqL2 f'.centroids xs ≤ cost sqL2 f.centroids xs := by
  obtain ⟨init, hin, e, _, ei⟩ := fit_some sqL2 conv (ltThr T) k xs m inits f hf
  obtain ⟨hl', hd⟩ := hi init hin
  have w : init ≠ [] := by intro h0; rw [h0] at hl'; simp at hl'; omega
  have key : f'.inertia ≤ f.inertia := by
    refine le_trans ((fit_inertia_is_min_of_sentinel sqL2 conv T k xs m' inits f' hf').2 init hin) ?_
    rw [ei, runOnce_inertia]
    exact div_le_div_of_nonneg_right
      (lloyd_cost_antitone conv p xs init w hd hx m m' h1 h) (Nat.cast_nonneg _)
  refine ⟨key, ?_⟩
  have e1 := inertia_describes_returned sqL2 conv (ltThr T) k xs m inits f hf
  have e2 := inertia_describes_returned sqL2 conv (ltThr T) k xs m' inits f' hf'
  rw [e1, e2] at key
  by_cases hn : xs.length = 0
  · have : xs = [] := List.length_eq_zero_iff.mp hn
    subst this; simp [cost, assign, sumS]
  · have hpos : (0 : α) < (xs.length : α) := by exact_mod_cast Nat.pos_of_ne_zero hn
    exact (div_le_div_iff_of_pos_right hpos).mp key

example : (fit (α := Rat) sqL2 (fun _ _ => false) (ltThr 1000) 1 [[0], [0], [10]] 1
      [[[10]], [[0]]]).map (·.inertia) = some (275 / 12) ∧
    (fit (α := Rat) sqL2 (fun _ _ => false) (ltThr 1000) 1 [[0], [0], [10]] 2
      [[[10]], [[0]]]).map (·.inertia) = some (4275 / 192) := by decide +kernel

/-- **initialised from the data ⇒ inside its bounding box**: if every initial centroid of every
restart is a row of the data (what `Random`, k-means++ and k-means‖ return) and the rows lie in the
box, so do the returned centroids. -/
theorem centroids_in_bbox_of_data_rows (rd : List α → List α → α)
    (conv : List (List α) → List (List α) → Bool) (ltInf : α → Bool) (k p : Nat)
    (xs : List (List α)) (budget : Nat) (inits : List (List (List α))) (f : Fitted α)
    (lo hi : Nat → α) (hk : 0 < k) (hi' : ∀ i ∈ inits, i.length = k ∧ ∀ c ∈ i, c ∈ xs)
    (hx : ∀ x ∈ xs, x.length = p ∧ InBox lo hi x)
    (h : fit rd conv ltInf k xs budget inits = some f) :
    ∀ c ∈ f.centroids, InBox lo hi c :=
  centroids_in_bbox rd conv ltInf k p xs budget inits f lo hi hk
    (fun i hi0 => ⟨(hi' i hi0).1, fun c hc => hx c ((hi' i hi0).2 c hc)⟩) hx h

end Field

end LinfaSpec.Props.C09
