import LinfaSpec.Model.KMeans

/-! # C09 — k-means (theorems land in the following commits) -/
namespace LinfaSpec.Props.C09
open LinfaSpec.KMeans

/-- `fit` hands back exactly the centroids of the kept run -/
theorem finish_centroids {α} [Div α] [NatCast α] (k n : Nat) (b : Run α) :
    (finish k n (some b)).map (·.centroids) = some b.centroids := rfl

end LinfaSpec.Props.C09
