import LinfaSpec.Model.Wire

/-!
C19 — the glue between a Rust value and the wire: what `#[derive(Serialize, Deserialize)]` does with
the per-field / per-variant attributes of the schema table (`Wire.TypeInfo`, regenerated from the
sources by `tools/serde2lean.py`).

* a struct is a list of field values, one per declared field (`List Val`);
* `serFields` / `serNamed`: derive(Serialize) writes the fields that are not `skip`ped, in declaration
  order — positionally (`rmp_serde::to_vec`, bincode) or keyed by field name (`to_vec_named`, JSON);
* `deFieldsSeq` / `deFieldsMap`: derive(Deserialize) (`visit_seq` / `visit_map`) reads one element per
  non-skipped field (too few elements: "invalid length"), respectively looks every non-skipped field
  up by name (absent: "missing field"); a skipped field is filled with its `Default`;
* `restore`: the value the round trip yields — the original with every skipped field reset to default;
* enums in index-based formats (bincode): derive(Serialize) writes the variant's **declaration index**
  (`serIndex`), derive(Deserialize) numbers the **non-skipped** variants consecutively (`deVariant`).

Core Lean only (linked into the driver: the `varidx` op runs `serIndex`/`deVariant` on the generated
table against the index bincode really wrote and the variant it really read back).
-/
namespace LinfaSpec.Serde
open LinfaSpec.Wire

/-! ## small helpers (structural recursion: evaluable by the kernel) -/

/-- blank-separated words -/
def splitWords : List Char → List Char → List (List Char)
  | [], cur => [cur.reverse]
  | c :: cs, cur => if c == ' ' then cur.reverse :: splitWords cs [] else splitWords cs (c :: cur)

def hasFlag (flag flags : String) : Bool := (splitWords flags.toList []).contains flag.toList

def nodupStrings : List String → Bool
  | [] => true
  | s :: r => !r.contains s && nodupStrings r

/-- the field's Rust type is `Option<…>` (pseudo-flag `option` written by the translator): serde's
`missing_field` rule reads an absent key of a self-describing format as `None` -/
def isOptional (f : FieldInfo) : Bool := hasFlag "option" f.flags

/-! ## structs -/

/-- derive(Serialize), positional layout: the non-skipped fields in declaration order -/
def serFields : List FieldInfo → List Val → List Val
  | f :: fs, v :: vs => if f.skip then serFields fs vs else v :: serFields fs vs
  | _, _ => []

/-- key under which a field travels in the named layout, as canonical text -/
def keyOf (f : FieldInfo) : String := render (strVal f.name)

/-- derive(Serialize), named layout: `(field name, value)` for the non-skipped fields -/
def serNamed : List FieldInfo → List Val → List (Val × Val)
  | f :: fs, v :: vs => if f.skip then serNamed fs vs else (strVal f.name, v) :: serNamed fs vs
  | _, _ => []

/-- the wire value of a struct -/
def structVal (named : Bool) (fs : List FieldInfo) (vs : List Val) : Val :=
  if named then .map (serNamed fs vs) else .arr (serFields fs vs)

/-- what comes back: skipped fields hold their default, the others their value -/
def restore (dflt : FieldInfo → Val) : List FieldInfo → List Val → List Val
  | f :: fs, v :: vs => (if f.skip then dflt f else v) :: restore dflt fs vs
  | _, _ => []

/-- derive(Deserialize) `visit_seq`: one element per non-skipped field; running out of elements is
the "invalid length" error; elements left over are an error of the format -/
def deFieldsSeq (dflt : FieldInfo → Val) : List FieldInfo → List Val → Option (List Val)
  | [], [] => some []
  | [], _ :: _ => none
  | f :: fs, xs =>
    if f.skip then
      match deFieldsSeq dflt fs xs with
      | some r => some (dflt f :: r)
      | none => none
    else
      match xs with
      | [] => none
      | x :: xs =>
        match deFieldsSeq dflt fs xs with
        | some r => some (x :: r)
        | none => none

/-- first entry whose key renders as `k` -/
def lookupKey (k : String) : List (Val × Val) → Option Val
  | [] => none
  | (k', v) :: r => if render k' == k then some v else lookupKey k r

/-- one field of derive(Deserialize) `visit_map`: a skipped field takes its default; a live field the value
stored under its name; an absent `Option` field reads as `None` (`nil`), any other absent field is the
"missing field" error -/
def fieldFromMap (dflt : FieldInfo → Val) (kvs : List (Val × Val)) (f : FieldInfo) : Option Val :=
  if f.skip then some (dflt f) else
    match lookupKey (keyOf f) kvs with
    | some v => some v
    | none => if isOptional f then some .nil else none

/-- derive(Deserialize) `visit_map`: every non-skipped field is looked up by name, in any order of
the entries; entries under other keys (unknown fields, names of skipped fields) are ignored -/
def deFieldsMap (dflt : FieldInfo → Val) (kvs : List (Val × Val)) : List FieldInfo → Option (List Val)
  | [] => some []
  | f :: fs =>
    match fieldFromMap dflt kvs f, deFieldsMap dflt kvs fs with
    | some v, some r => some (v :: r)
    | _, _ => none

/-- keys of the non-skipped fields -/
def liveKeys (fs : List FieldInfo) : List String := (liveFields fs).map keyOf

/-- the keys of a message that name a live field, in message order -/
def knownKeys (fs : List FieldInfo) (kvs : List (Val × Val)) : List String :=
  (kvs.map fun kv => render kv.1).filter fun k => (liveKeys fs).contains k

/-- reading a struct back from its wire value: positional (`visit_seq`) or by name (`visit_map`, where a
live field's key occurring twice is the "duplicate field" error) -/
def deStruct (dflt : FieldInfo → Val) (fs : List FieldInfo) : Val → Option (List Val)
  | .arr xs => deFieldsSeq dflt fs xs
  | .map kvs => if nodupStrings (knownKeys fs kvs) then deFieldsMap dflt kvs fs else none
  | _ => none

/-! ## enums in index-based formats -/

/-- derive(Serialize): `serialize_*_variant(name, index, variant)` passes the position of the variant
in the declaration, skipped variants included; a skipped variant cannot be serialised -/
def serIndex (name : String) : List VariantInfo → Option Nat
  | [] => none
  | w :: ws =>
    if w.name == name then (if w.skip then none else some 0)
    else match serIndex name ws with
      | some k => some (k + 1)
      | none => none

/-- derive(Deserialize): index `k` selects the `k`-th **non-skipped** variant -/
def deVariant : List VariantInfo → Nat → Option String
  | [], _ => none
  | w :: ws, k =>
    if w.skip then deVariant ws k
    else match k with
      | 0 => some w.name
      | k + 1 => deVariant ws k

/-- no skipped variant is declared before a non-skipped one -/
def skippedLast : List VariantInfo → Bool
  | [] => true
  | w :: ws => if w.skip then ws.all (fun v => v.skip) else skippedLast ws

/-- names of the non-skipped variants -/
def liveNames (ws : List VariantInfo) : List String := (ws.filter fun w => !w.skip).map fun w => w.name

/-! ## facts about a generated table that the driver and `Props/GenC19` use -/

/-- (type, members excluded from serialisation): skipped fields, skipped variants, skipped variant fields -/
def skipsOf (t : TypeInfo) : List String :=
  (t.fields.filter fun f => f.skip).map (fun f => f.name) ++
  t.variants.flatMap fun w =>
    (if w.skip then [w.name] else []) ++ (w.fields.filter fun f => f.skip).map fun f => w.name ++ "." ++ f.name

def skipTable (ts : List TypeInfo) : List (String × List String) :=
  (ts.map fun t => (t.id, skipsOf t)).filter fun p => !p.2.isEmpty

/-- members whose presence on the wire depends on the value or on the direction: `skip_serializing_if`,
`skip_serializing` / `skip_deserializing` alone, `default`, `flatten`, and every attribute under which the wire keys
are not the Rust member names or the layout is not the derive default (`rename`, `rename_all`, `transparent`,
`deny_unknown_fields`, `remote`, tagging options; the translator folds variant-level attributes into the
container's) — none of them is used by linfa today -/
def conditionalFlags : List String :=
  ["skip_serializing_if", "skip_serializing", "skip_deserializing", "default", "flatten", "rename", "alias",
   "with", "serialize_with", "deserialize_with", "getter", "from", "try_from", "into", "untagged", "tag", "content", "other",
   "rename_all", "rename_all_fields", "transparent", "deny_unknown_fields", "remote", "expecting",
   "field_identifier", "variant_identifier", "borrow"]

def flaggedOf (t : TypeInfo) : List String :=
  let bad (owner flags : String) : List String :=
    (conditionalFlags.filter fun c => hasFlag c flags).map fun c => owner ++ ":" ++ c
  bad "" t.flags ++ t.fields.flatMap (fun f => bad f.name f.flags) ++
    t.variants.flatMap fun w => w.fields.flatMap fun f => bad (w.name ++ "." ++ f.name) f.flags

def flagTable (ts : List TypeInfo) : List (String × List String) :=
  (ts.map fun t => (t.id, flaggedOf t)).filter fun p => !p.2.isEmpty

end LinfaSpec.Serde
