/-
C16 — model of `linfa-preprocessing`'s `linear_scaling.rs`, `norm_scaling.rs`
and the transform side of `whitening.rs`.  Core Lean only.

A record matrix is a list of rows (`List (List α)`) together with its column
count `p` (needed when there are no rows).  Everything is written once,
polymorphic in the scalar; the driver runs it on `Float`, the theorems are over
ordered fields.

What is modelled literally:
* `ScalingMethod::{standardize, min_max, max_abs}` including the
  `abs_diff_eq!(·, 0)` guards (`approx`: `|a - b| <= epsilon`, default epsilon =
  machine ε, a parameter `eps` here) and the two error returns;
* ndarray's `mean_axis` (`sum / n`) and `var_axis`/`std_axis` (Welford's
  recurrence, `mul_add(a,b,c)` read as `a*b+c`);
* `linfa_linalg::Norm::{norm_l1, norm_l2, norm_max}` (sequential iterator folds);
* `LinearScaler::transform` (`(x-o)*s [+o]`, then `* (max-min) + min`),
  `NormScaler::transform` (after the `fix:` commit: rows of norm 0 are left
  unchanged), `FittedWhitener::transform` (`(x - mean) · Wᵀ`), and the dataset
  forms (`DatasetBase::new(..).with_weights(..).with_feature_names(..)
  .with_target_names(..)`).

By contract (ndarray, trusted): `Zip`/`mapv_inplace`/array-scalar arithmetic act
cell by cell, `fold_axis`/`map_axis(Axis(0))` see a column top to bottom.
External (parameters): the whitening matrix `W` produced by SVD / Cholesky.
-/
import LinfaSpec.Model.Scalar

namespace LinfaSpec.Scaling

section
variable {α : Type} [Add α] [Sub α] [Mul α] [Div α] [Neg α] [LT α] [DecidableLT α]
  [LE α] [DecidableLE α] [OfNat α 0] [OfNat α 1] [NatCast α]

/-- column `j` of a row-major matrix -/
def col (rows : List (List α)) (j : Nat) : List α := rows.map fun r => r.getD j 0

/-- the `p` columns -/
def cols (p : Nat) (rows : List (List α)) : List (List α) := (List.range p).map (col rows)

/-- `approx::abs_diff_eq!(a, b)` with epsilon `eps`: `(a - b).abs() <= eps` -/
def absDiffEq (eps a b : α) : Bool := decide (absS (a - b) ≤ eps)

/-- ndarray `mean_axis`: `sum / n` -/
def meanCol (xs : List α) : α := sumS xs / (xs.length : α)

/-- one iteration of ndarray's `var_axis` loop (Welford); state = (mean, sum_sq, i) -/
def welfordStep (st : α × α × Nat) (x : α) : α × α × Nat :=
  let count : α := ((st.2.2 + 1 : Nat) : α)
  let delta := x - st.1
  let mean' := st.1 + delta / count
  (mean', (x - mean') * delta + st.2.1, st.2.2 + 1)

/-- ndarray `var_axis(axis, ddof)` of one lane -/
def varCol (ddof : α) (xs : List α) : α :=
  (xs.foldl welfordStep ((0 : α), (0 : α), 0)).2.1 / ((xs.length : α) - ddof)

/-- `if abs_diff_eq!(s, 0) { 1 } else { 1 / s }` — the constant-feature guard -/
def invOrOne (eps s : α) : α := if absDiffEq eps s 0 then 1 else 1 / s

/-- `fold_axis(Axis(0), +inf, |acc, el| if acc < el { acc } else { el })`.
The `+inf` start is absorbed by the first element (the lane is non-empty, data
finite), so the fold starts from the head. -/
def minCol : List α → α
  | [] => 0
  | x :: xs => xs.foldl (fun acc el => if acc < el then acc else el) x

/-- `fold_axis(Axis(0), -inf, |acc, el| if acc > el { acc } else { el })` -/
def maxCol : List α → α
  | [] => 0
  | x :: xs => xs.foldl (fun acc el => if el < acc then acc else el) x

/-- `norm_max`: `iter().fold(0, |f, &val| val.abs().max(f))` -/
def normMax (xs : List α) : α := xs.foldl (fun f v => maxS (absS v) f) 0

/-- `norm_l1`: `iter().map(|x| x.abs()).sum()` -/
def normL1 (xs : List α) : α := sumS (xs.map absS)

/-- the argument of the square root in `norm_l2` -/
def sumSquares (xs : List α) : α := sumS (xs.map fun x => x * x)

inductive Method (α : Type) where
  | standard (withMean withStd : Bool)
  | minMax (lo hi : α)
  | maxAbs

structure Scaler (α : Type) where
  offsets : List α
  scales : List α
  method : Method α

inductive FitErr where
  | notEnoughSamples
  | flippedMinMaxRange
  deriving DecidableEq, Repr

end

section
variable {α : Type} [Add α] [Sub α] [Mul α] [Div α] [Neg α] [LT α] [DecidableLT α]
  [LE α] [DecidableLE α] [OfNat α 0] [OfNat α 1] [NatCast α] [Transc α]

/-- ndarray `std_axis(axis, 0)` of one lane -/
def stdCol (xs : List α) : α := Transc.sqrt (varCol 0 xs)

/-- `norm_l2` -/
def normL2 (xs : List α) : α := Transc.sqrt (sumSquares xs)

/-- `ScalingMethod::standardize` -/
def fitStandard (eps : α) (p : Nat) (rows : List (List α)) (withMean withStd : Bool) :
    Except FitErr (Scaler α) :=
  if rows.length = 0 then .error .notEnoughSamples
  else
    let cs := cols p rows
    .ok { offsets := cs.map meanCol
          scales := if withStd then cs.map (fun c => invOrOne eps (stdCol c)) else cs.map (fun _ => 1)
          method := .standard withMean withStd }

end

section
variable {α : Type} [Add α] [Sub α] [Mul α] [Div α] [Neg α] [LT α] [DecidableLT α]
  [LE α] [DecidableLE α] [OfNat α 0] [OfNat α 1] [NatCast α]

/-- `ScalingMethod::min_max` -/
def fitMinMax (eps : α) (p : Nat) (rows : List (List α)) (lo hi : α) : Except FitErr (Scaler α) :=
  if rows.length = 0 then .error .notEnoughSamples
  else if hi < lo then .error .flippedMinMaxRange
  else
    let cs := cols p rows
    .ok { offsets := cs.map minCol
          scales := cs.map (fun c => invOrOne eps (maxCol c - minCol c))
          method := .minMax lo hi }

/-- `ScalingMethod::max_abs` -/
def fitMaxAbs (eps : α) (p : Nat) (rows : List (List α)) : Except FitErr (Scaler α) :=
  if rows.length = 0 then .error .notEnoughSamples
  else
    let cs := cols p rows
    .ok { offsets := cs.map (fun _ => 0)
          scales := cs.map (fun c => invOrOne eps (normMax c))
          method := .maxAbs }

/-- what `LinearScaler::transform` does to one cell of column `j` (offset `o`, scale `s`) -/
def transformCell (m : Method α) (x o s : α) : α :=
  match m with
  | .standard false _ => (x - o) * s + o
  | .standard true _ => (x - o) * s
  | .maxAbs => (x - o) * s
  | .minMax lo hi => (x - o) * s * (hi - lo) + lo

/-- one row through the fitted scaler -/
def transformRow (sc : Scaler α) (r : List α) : List α :=
  List.zipWith (fun x (os : α × α) => transformCell sc.method x os.1 os.2) r (sc.offsets.zip sc.scales)

/-- `LinearScaler::transform` on an `n × p` array; `none` = the `Zip` panics on a
column-count mismatch (an empty array is returned unchanged before that). -/
def transform (sc : Scaler α) (p : Nat) (rows : List (List α)) : Option (List (List α)) :=
  if rows.length = 0 ∨ p = 0 then some rows
  else if p ≠ sc.offsets.length then none
  else some (rows.map (transformRow sc))

inductive NormKind where
  | l1 | l2 | max
  deriving DecidableEq, Repr

/-- `NormScaler::transform` on one row given its norm (fixed code: a row whose
norm is not positive is left unchanged) -/
def scaleRowBy (nrm : α) (r : List α) : List α :=
  if 0 < nrm then r.map (fun x => x / nrm) else r

/-- `(x - mean) · Wᵀ` for one row -/
def whitenRow (mean : List α) (W : List (List α)) (r : List α) : List α :=
  let c := List.zipWith (fun x m => x - m) r mean
  W.map fun w => dotS c w

/-- `FittedWhitener::transform` -/
def whitenTransform (mean : List α) (W : List (List α)) (rows : List (List α)) : List (List α) :=
  rows.map (whitenRow mean W)

/-- the part of `Whitener::fit` that is linfa's own: the emptiness guard, the
column means and the centred matrix handed to SVD / Cholesky; `decomp` stands
for the external factorisation (its result is the whitening matrix). -/
def whitenFit {ε : Type} (decomp : List (List α) → Except ε (List (List α))) (p : Nat)
    (rows : List (List α)) : Except (FitErr ⊕ ε) (List α × List (List α)) :=
  if rows.length = 0 then .error (.inl .notEnoughSamples)
  else
    let mean := (cols p rows).map meanCol
    let sigma := rows.map fun r => List.zipWith (fun x m => x - m) r mean
    match decomp sigma with
    | .error e => .error (.inr e)
    | .ok W => .ok (mean, W)

end

section
variable {α : Type} [Add α] [Sub α] [Mul α] [Div α] [Neg α] [LT α] [DecidableLT α]
  [LE α] [DecidableLE α] [OfNat α 0] [OfNat α 1] [NatCast α] [Transc α]

def rowNorm : NormKind → List α → α
  | .l1, r => normL1 r
  | .l2, r => normL2 r
  | .max, r => normMax r

/-- `NormScaler::transform` -/
def normTransform (k : NormKind) (rows : List (List α)) : List (List α) :=
  rows.map fun r => scaleRowBy (rowNorm k r) r

end

/-! ### parameter objects and calling forms (`LinearScalerParams`, `Whitener`) -/

section
variable {α : Type}

/-- `LinearScalerParams<F>`: nothing but the method -/
structure Params (α : Type) where
  method : Method α

/-- `LinearScalerParams::new(method)` -/
def Params.new (m : Method α) : Params α := ⟨m⟩

/-- the setter `LinearScalerParams::method(self, method)`: replaces the method, whatever it was -/
def Params.setMethod (_self : Params α) (m : Method α) : Params α := ⟨m⟩

/-- the constructor functions `LinearScaler::{standard, standard_no_mean, standard_no_std, min_max,
min_max_range, max_abs}` -/
def Params.standard : Params α := ⟨.standard true true⟩
def Params.standardNoMean : Params α := ⟨.standard false true⟩
def Params.standardNoStd : Params α := ⟨.standard true false⟩
def Params.minMax [OfNat α 0] [OfNat α 1] : Params α := ⟨.minMax 0 1⟩
def Params.minMaxRange (lo hi : α) : Params α := ⟨.minMax lo hi⟩
def Params.maxAbs : Params α := ⟨.maxAbs⟩

/-- `WhiteningMethod` -/
inductive WMethod where
  | pca | zca | cholesky
  deriving DecidableEq, Repr

/-- `Whitener`: nothing but the method; `Whitener::{pca, zca, cholesky}` and the `method(self, m)` setter -/
structure WParams where
  method : WMethod

def WParams.pca : WParams := ⟨.pca⟩
def WParams.zca : WParams := ⟨.zca⟩
def WParams.cholesky : WParams := ⟨.cholesky⟩
def WParams.setMethod (_self : WParams) (m : WMethod) : WParams := ⟨m⟩

end

section
variable {α : Type} [Add α] [Sub α] [Mul α] [Div α] [Neg α] [LT α] [DecidableLT α]
  [LE α] [DecidableLE α] [OfNat α 0] [OfNat α 1] [NatCast α] [Transc α]

/-- `Fit::fit` of `LinearScalerParams` = `ScalingMethod::fit`: dispatch on the method -/
def fitParams (eps : α) (p : Nat) (rows : List (List α)) (q : Params α) : Except FitErr (Scaler α) :=
  match q.method with
  | .standard wm ws => fitStandard eps p rows wm ws
  | .minMax lo hi => fitMinMax eps p rows lo hi
  | .maxAbs => fitMaxAbs eps p rows

/-- `Fit::fit` of `Whitener`: the external factorisation is chosen by the method -/
def whitenFitParams {ε : Type} (decomp : WMethod → List (List α) → Except ε (List (List α)))
    (q : WParams) (p : Nat) (rows : List (List α)) : Except (FitErr ⊕ ε) (List α × List (List α)) :=
  whitenFit (decomp q.method) p rows

end

/-! ### the linfa-specific part of `Whitener::fit` after the external factorisation; fits on datasets -/

section
variable {α : Type} [Add α] [Sub α] [Mul α] [Div α] [Neg α] [LT α] [DecidableLT α]
  [LE α] [DecidableLE α] [OfNat α 0] [OfNat α 1] [NatCast α] [Transc α]

/-- PCA branch after `sigma.svd(false, true)`: `s.mapv(|x| x.max(1e-8))` (`floor` = the `1e-8`),
`cov_scale = F::cast(n - 1).sqrt()`, then row `a` of `Vᵀ` is multiplied by `cov_scale / s_a`
(`for (v_t, s) in v_t.axis_iter_mut(Axis(0)).zip(s.iter()) { v_t *= cov_scale / *s }`). -/
def pcaAssemble (floor : α) (n : Nat) (s : List α) (vt : List (List α)) : List (List α) :=
  let covScale : α := Transc.sqrt (((n - 1 : Nat)) : α)
  List.zipWith (fun row sv => row.map fun v => v * (covScale / maxS sv floor)) vt s

/-- the external factorisations of linfa-linalg, one per branch: `svd(false, true)` of the centred
records (singular values, `Vᵀ`), and the whole ZCA / Cholesky branches (covariance, SVD resp.
`invc` + `cholesky`), whose result is the whitening matrix -/
structure Factor (α ε : Type) where
  svdVt : List (List α) → Except ε (List α × List (List α))
  zca : List (List α) → Except ε (List (List α))
  chol : List (List α) → Except ε (List (List α))

/-- `match self.method { Pca => .., Zca => .., Cholesky => .. }` of `Whitener::fit`, on the centred records -/
def whitenDecomp {ε : Type} (floor : α) (n : Nat) (ext : Factor α ε) :
    WMethod → List (List α) → Except ε (List (List α))
  | .pca, sigma =>
    match ext.svdVt sigma with
    | .error e => .error e
    | .ok (s, vt) => .ok (pcaAssemble floor n s vt)
  | .zca, sigma => ext.zca sigma
  | .cholesky, sigma => ext.chol sigma

end

/-! ### dataset forms -/

/-- the parts of a `DatasetBase` the transformers touch -/
structure DS (R T W : Type) where
  records : R
  targets : T
  weights : W
  featureNames : List String
  targetNames : List String

/-- the body shared by the three `Transformer<DatasetBase<..>, DatasetBase<..>>`
impls: names are copied out, records go through the array transform `f`,
`DatasetBase::new(records, targets)` then `with_weights`, `with_feature_names`
(asserts `names.is_empty() || names.len() == nfeatures`), `with_target_names`
(same with `ntargets`).  `none` = one of the asserts (or `f`) panics. -/
def transformDataset {R R' T W : Type} (f : R → Option R') (nfeat : R' → Nat) (ntgt : T → Nat)
    (ds : DS R T W) : Option (DS R' T W) :=
  match f ds.records with
  | none => none
  | some recs =>
    if ¬ (ds.featureNames.isEmpty ∨ ds.featureNames.length = nfeat recs) then none
    else if ¬ (ds.targetNames.isEmpty ∨ ds.targetNames.length = ntgt ds.targets) then none
    else some { records := recs, targets := ds.targets, weights := ds.weights,
                featureNames := ds.featureNames, targetNames := ds.targetNames }

section
variable {α : Type} [Add α] [Sub α] [Mul α] [Div α] [Neg α] [LT α] [DecidableLT α]
  [LE α] [DecidableLE α] [OfNat α 0] [OfNat α 1] [NatCast α] [Transc α]

/-- `Fit::fit` of `LinearScalerParams` on a dataset: `self.method.fit(x.records())` — targets, sample
weights and names are not read -/
def fitDataset {T W : Type} (eps : α) (p : Nat) (q : Params α) (ds : DS (List (List α)) T W) :
    Except FitErr (Scaler α) :=
  fitParams eps p ds.records q

/-- `Fit::fit` of `Whitener` on a dataset: `x.nsamples()` and `x.records()` only; the branch taken is the
one of the parameter object's method -/
def whitenFitDataset {ε T W : Type} (floor : α) (ext : Factor α ε) (q : WParams) (p : Nat)
    (ds : DS (List (List α)) T W) : Except (FitErr ⊕ ε) (List α × List (List α)) :=
  whitenFitParams (whitenDecomp floor ds.records.length ext) q p ds.records

end

end LinfaSpec.Scaling
