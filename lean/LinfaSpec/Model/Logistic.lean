/-
C12 — model of `linfa-logistic` (algorithms/linfa-logistic/src/lib.rs), core Lean only.

Follows the Rust text:
* `label_classes`      → `binStep` / `labelClasses`   (first-seen vs second-seen class, counts, sign flip)
* `label_classes_multi`→ `classesOf` (sort + dedup) and `onehotRow` (zero row, `row[idx] = 1`)
* `convert_params`     → `splitParams` / `splitParams2`
* `logistic`, `log_logistic`, `log_sum_exp` (per-row max, floor `eps` = 1e-15), `softmax_inplace`
* `logistic_loss/grad`, `multi_logistic_prob_params/loss/grad`
* `predict_probabilities`, `predict_inplace` (threshold resp. first arg-max of the un-normalised scores)

Matrices are lists of rows.  The scalar is abstract (`Float` in the driver, `ℝ` in the theorems);
`exp`/`ln` come from `LinfaSpec.Transc`.  L-BFGS (`argmin`) is not modelled: the property about
fitted parameters is a certificate (gradient at the returned point), checked by the oracle.
-/
import LinfaSpec.Model.Scalar

namespace LinfaSpec.Logistic

/-! ### label coding -/

section Labels
variable {C : Type} [DecidableEq C]

/-- state of the scan in `label_classes`: first-seen and second-seen class with their counts -/
abbrev BinState (C : Type) := Option (C × Nat) × Option (C × Nat)

/-- one step of the `for class in y` loop; `none` = "found 3rd distinct class" (or the unreachable arm) -/
def binStep (st : BinState C) (c : C) : Option (BinState C) :=
  match st with
  | (none, none) => some (some (c, 1), none)
  | (some (a, na), s2) =>
    if a = c then some (some (c, na + 1), s2)
    else match s2 with
      | some (b, nb) => if b = c then some (some (a, na), some (c, nb + 1)) else none
      | none => some (some (a, na), some (c, 1))
  | (none, some _) => none

def binScan : BinState C → List C → Option (BinState C)
  | st, [] => some st
  | st, c :: cs => match binStep st c with
    | none => none
    | some st' => binScan st' cs

inductive LabelErr | tooMany | tooFew
  deriving DecidableEq, Repr

structure BinLabels (C α : Type) where
  pos : C
  neg : C
  target : List α

/-- `label_classes`: ±1 coding; the first-seen class is positive unless it is strictly rarer. -/
def labelClasses {α} [Neg α] [Mul α] [OfNat α 1] (y : List C) : Except LabelErr (BinLabels C α) :=
  match binScan (none, none) y with
  | none => .error .tooMany
  | some (some (a, na), some (b, nb)) =>
    let t : List α := y.map fun x => if x = a then 1 else -1
    if na < nb then .ok ⟨b, a, t.map (· * (-1))⟩ else .ok ⟨a, b, t⟩
  | some _ => .error .tooFew

end Labels

section Multi
variable {C : Type} [DecidableEq C] [LE C] [DecidableLE C]

/-- `Vec::dedup`: drop an element equal to its predecessor -/
def dedupAdj : List C → List C
  | [] => []
  | [a] => [a]
  | a :: b :: rest => if a = b then dedupAdj (b :: rest) else a :: dedupAdj (b :: rest)

/-- `classes.sort(); classes.dedup()` -/
def classesOf (y : List C) : List C := dedupAdj (y.mergeSort (fun a b => decide (a ≤ b)))

/-- a zero row with `row[idx] = 1`, `idx` = position of the class in the sorted class list
(`binary_search(..).unwrap()`, modelled by its contract on a strictly sorted list) -/
def onehotRow {α} [OfNat α 0] [OfNat α 1] (classes : List C) (c : C) : List α :=
  (List.replicate classes.length (0 : α)).set (classes.idxOf c) 1

def labelClassesMulti {α} [OfNat α 0] [OfNat α 1] (y : List C) : List C × List (List α) :=
  let cl := classesOf y
  (cl, y.map (onehotRow cl))

end Multi

/-! ### scalar functions -/

section Num
variable {α : Type} [Add α] [Sub α] [Mul α] [Div α] [Neg α] [LT α] [DecidableLT α]
  [OfNat α 0] [OfNat α 1] [Transc α]

/-- `F::cast(0.5)` -/
def half : α := 1 / (1 + 1)

/-- `1 / (1 + exp(-x))` -/
def logistic (x : α) : α := 1 / (1 + Transc.exp (-x))

/-- the two-branch `log_logistic` -/
def logLogistic (x : α) : α :=
  if 0 < x then -(Transc.ln (1 + Transc.exp (-x))) else x - Transc.ln (1 + Transc.exp x)

/-- `iter().copied().reduce(F::max)` over a non-empty list -/
def maxList : List α → Option α
  | [] => none
  | a :: as => some (as.foldl maxS a)

/-- `softmax_inplace` on one row (per-row max) -/
def softmax (v : List α) : List α :=
  match maxList v with
  | none => []
  | some m =>
    let e := v.map fun n => Transc.exp (n - m)
    let s := sumS e
    e.map fun n => n / s

/-- `log_sum_exp(m, Axis(1))` for one row: `ln(max(Σ exp(e - max), eps)) + max` with the max of
that row (`eps` = 1e-15 in the code; the floor is inactive since the sum is at least 1) -/
def logSumExpRow (eps : α) (row : List α) : α :=
  match maxList row with
  | none => Transc.ln (maxS (0 : α) eps)
  | some m => Transc.ln (maxS (row.foldl (fun acc e => acc + Transc.exp (e - m)) 0) eps) + m

def logSumExpRows (eps : α) (h : List (List α)) : List α := h.map (logSumExpRow eps)

/-- `convert_params` for a vector: `(weights, intercept)`; `none` = the panic branch -/
def splitParams (nf : Nat) (w : List α) : Option (List α × α) :=
  if w.length = nf then some (w, 0)
  else if w.length = nf + 1 then some (w.take nf, (w.drop nf).headD 0)
  else none

/-- `x.dot(params) + intercept` -/
def linPred (x : List (List α)) (params : List α) (b : α) : List α :=
  x.map fun row => dotS row params + b

/-- `logistic_loss` -/
def logisticLoss (nf : Nat) (x : List (List α)) (y : List α) (alpha : α) (w : List α) : Option α :=
  match splitParams nf w with
  | none => none
  | some (params, b) =>
    let yz := List.zipWith (· * ·) (linPred x params b) y
    some (-(sumS (yz.map logLogistic)) + half * alpha * dotS params params)

/-- `(logistic(y z) - 1) * y` per sample -/
def residuals (x : List (List α)) (y : List α) (params : List α) (b : α) : List α :=
  List.zipWith (fun z yi => (logistic (z * yi) - 1) * yi) (linPred x params b) y

/-- column `j` of a row-major matrix -/
def col (x : List (List α)) (j : Nat) : List α := x.map fun row => row.getD j 0

/-- `x.t().dot(r)` -/
def tDot (nf : Nat) (x : List (List α)) (r : List α) : List α :=
  (List.range nf).map fun j => dotS (col x j) r

/-- `logistic_grad` (`nf` = number of feature columns) -/
def logisticGrad (nf : Nat) (x : List (List α)) (y : List α) (alpha : α) (w : List α) : Option (List α) :=
  match splitParams nf w with
  | none => none
  | some (params, b) =>
    let r := residuals x y params b
    let gw := List.zipWith (· + ·) (tDot nf x r) (params.map (· * alpha))
    if w.length = nf + 1 then some (gw ++ [sumS r]) else some gw

/-! ### multinomial -/

/-- `convert_params` for a matrix (rows = features (+ intercept row), columns = classes) -/
def splitParams2 (nf k : Nat) (w : List (List α)) : Option (List (List α) × List α) :=
  if w.length = nf then some (w, List.replicate k 0)
  else if w.length = nf + 1 then some (w.take nf, (w.drop nf).headD [])
  else none

/-- `x.dot(&params) + intercept`: row `i`, class `c` -/
def scores (k : Nat) (x : List (List α)) (params : List (List α)) (b : List α) : List (List α) :=
  x.map fun row => (List.range k).map fun c => dotS row (col params c) + b.getD c 0

/-- `multi_logistic_prob_params`: `H - log_sum_exp(H)` -/
def logProb (eps : α) (k : Nat) (x : List (List α)) (params : List (List α)) (b : List α) : List (List α) :=
  let h := scores k x params b
  List.zipWith (fun row l => row.map (· - l)) h (logSumExpRows eps h)

/-- `elem_dot` -/
def elemDot (a b : List (List α)) : α :=
  (List.zipWith (fun ra rb => List.zipWith (· * ·) ra rb) a b).flatten.foldl (· + ·) 0

def multiLogisticLoss (eps : α) (nf k : Nat) (x : List (List α)) (y : List (List α)) (alpha : α)
    (w : List (List α)) : Option α :=
  match splitParams2 nf k w with
  | none => none
  | some (params, b) =>
    some (-(elemDot (logProb eps k x params b) y) + half * alpha * elemDot params params)

/-- `softmax(H) - Y` as computed in `multi_logistic_grad` (`exp` of the log-probabilities) -/
def multiDiff (eps : α) (k : Nat) (x : List (List α)) (y : List (List α)) (params : List (List α))
    (b : List α) : List (List α) :=
  List.zipWith (fun lp yr => List.zipWith (fun l t => Transc.exp l - t) lp yr) (logProb eps k x params b) y

def multiLogisticGrad (eps : α) (nf k : Nat) (x : List (List α)) (y : List (List α)) (alpha : α)
    (w : List (List α)) : Option (List (List α)) :=
  match splitParams2 nf k w with
  | none => none
  | some (params, b) =>
    let d := multiDiff eps k x y params b
    let dw := (List.range nf).map fun j => (List.range k).map fun c =>
      dotS (col x j) (col d c) + (params.getD j []).getD c 0 * alpha
    if w.length = nf + 1 then some (dw ++ [(List.range k).map fun c => sumS (col d c)]) else some dw

/-! ### prediction -/

variable [LE α] [DecidableLE α]

/-- binary `predict_probabilities` -/
def predictProba (x : List (List α)) (params : List α) (b : α) : List α :=
  (linPred x params b).map logistic

/-- binary `predict_inplace`: `prob >= threshold` gives the positive class -/
def predictBinary {C} (x : List (List α)) (params : List α) (b thr : α) (pos neg : C) : List C :=
  (predictProba x params b).map fun p => if thr ≤ p then pos else neg

/-- `argmax` of ndarray-stats: first index of a maximal entry -/
def argmaxAux : List α → Nat → Nat → α → Nat
  | [], _, best, _ => best
  | a :: as, i, best, m => if m < a then argmaxAux as (i + 1) i a else argmaxAux as (i + 1) best m

def argmax : List α → Nat
  | [] => 0
  | a :: as => argmaxAux as 1 0 a

/-- multinomial `predict_probabilities`: softmax of every score row -/
def predictProbaMulti (k : Nat) (x : List (List α)) (params : List (List α)) (b : List α) : List (List α) :=
  (scores k x params b).map softmax

/-- multinomial `predict_inplace`: arg-max of the UN-normalised scores -/
def predictMulti {C} [Inhabited C] (k : Nat) (x : List (List α)) (params : List (List α)) (b : List α)
    (classes : List C) : List C :=
  (scores k x params b).map fun row => classes.getD (argmax row) default

end Num

end LinfaSpec.Logistic
