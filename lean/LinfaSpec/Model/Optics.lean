/-
C08 — model of `OpticsValidParams::transform`
(algorithms/linfa-clustering/src/optics/algorithm.rs).  Core Lean only.

Parameters: `nbrs i` = positions returned by `nn.within_range(row i, tolerance)`,
in that order; `dist i j` = `dist_fn.distance(row i, row j)`.  `D` is the scalar.
`pts` is the `points` vector (core / reachability per sample), `processed` the
`BTreeSet` (as a membership vector), `seeds` the seed vector, `out` is
`result.orderings`.
-/
namespace LinfaSpec.Optics

variable {D : Type} [LT D] [DecidableLT D]

structure Pt (D : Type) where
  core : Option D
  reach : Option D
deriving Repr, DecidableEq

structure Entry (D : Type) where
  index : Nat
  core : Option D
  reach : Option D
deriving Repr, DecidableEq

structure State (D : Type) where
  pts : List (Pt D)
  processed : List Bool
  seeds : List Nat
  out : List (Entry D)
deriving Repr

/-- `find_neighbors`: the query result ordered by distance to the candidate
(stable sort, so equal distances keep the order of the index). -/
def findNeighbors (nbrs : Nat → List Nat) (dist : Nat → Nat → D) (i : Nat) : List Nat :=
  (nbrs i).mergeSort fun a b => !(decide (dist i b < dist i a))

/-- `set_core_distance`: distance to element `min_points - 1` of the neighbour list -/
def coreDist (dist : Nat → Nat → D) (mp : Nat) (i : Nat) (ns : List Nat) : Option D :=
  (ns[mp - 1]?).map fun x => dist i x

def isProcessed (processed : List Bool) (j : Nat) : Bool := processed[j]?.getD false

def getReach (pts : List (Pt D)) (j : Nat) : Option D := (pts[j]?).bind fun p => p.reach

def setReach (pts : List (Pt D)) (j : Nat) (r : D) : List (Pt D) :=
  match pts[j]? with
  | some p => pts.set j { p with reach := some r }
  | none => pts

def setCore (pts : List (Pt D)) (j : Nat) (c : Option D) : List (Pt D) :=
  match pts[j]? with
  | some p => pts.set j { p with core := c }
  | none => pts

/-- `F::max(a, b)` on non-NaN values -/
def fmax (a b : D) : D := if a < b then b else a

/-- `get_seeds(sample = (i, core c), neighbors, points, processed, seeds)` -/
def getSeeds (dist : Nat → Nat → D) (i : Nat) (c : D) (ns : List Nat) (processed : List Bool)
    (pts : List (Pt D)) (seeds : List Nat) : List (Pt D) × List Nat :=
  (ns.filter fun j => !isProcessed processed j).foldl
    (fun (ps : List (Pt D) × List Nat) j =>
      let r := fmax c (dist j i)
      match getReach ps.1 j with
      | none => (setReach ps.1 j r, ps.2 ++ [j])
      | some s => if r < s then (setReach ps.1 j r, ps.2) else ps)
    (pts, seeds)

/-- `Option<NoisyFloat>` order used by `Sample::cmp`: `None` below every `Some` -/
def optLt : Option D → Option D → Bool
  | none, none => false
  | none, some _ => true
  | some _, none => false
  | some a, some b => decide (a < b)

/-- `seeds.iter().enumerate().min_by(..)`: position of the first minimum by reachability -/
def argminPos (pts : List (Pt D)) : List Nat → Nat → Nat × Nat → Nat × Nat
  | [], _, best => best
  | j :: rest, pos, best =>
    argminPos pts rest (pos + 1) (if optLt (getReach pts j) (getReach pts best.2) then (pos, j) else best)

/-- one iteration of `while !seeds.is_empty()` (seeds = `j0 :: rest` after the descending sort) -/
def seedStep (nbrs : Nat → List Nat) (dist : Nat → Nat → D) (mp : Nat) (s : State D)
    (sorted : List Nat) (j0 : Nat) : State D :=
  let (pos, j) := argminPos s.pts sorted.tail 1 (0, j0)
  let seeds := sorted.eraseIdx pos
  let processed := s.processed.set j true
  let ns := findNeighbors nbrs dist j
  let c := coreDist dist mp j ns
  let pts := setCore s.pts j c
  let out := s.out ++ [{ index := j, core := c, reach := getReach pts j }]
  match c with
  | some cd =>
    let ps := getSeeds dist j cd ns processed pts seeds
    { pts := ps.1, processed := processed, seeds := ps.2, out := out }
  | none => { pts := pts, processed := processed, seeds := seeds, out := out }

/-- the `while !seeds.is_empty()` loop; fuel bounds the number of iterations -/
def seedLoop (nbrs : Nat → List Nat) (dist : Nat → Nat → D) (mp : Nat) : Nat → State D → State D
  | 0, s => s
  | fuel + 1, s =>
    -- `seeds.sort_unstable_by(|a, b| b.cmp(a))`: descending positions (they are distinct)
    match s.seeds.mergeSort (fun a b => decide (b ≤ a)) with
    | [] => s
    | j0 :: rest => seedLoop nbrs dist mp fuel (seedStep nbrs dist mp s (j0 :: rest) j0)

/-- body of the outer `loop` for the value `index` (the search through
`processed.range(index..)` always ends with `points_index = index`, because
`index` itself is not in `processed` at that point). -/
def outerStep (nbrs : Nat → List Nat) (dist : Nat → Nat → D) (mp n : Nat) (s : State D) (i : Nat) :
    State D :=
  if isProcessed s.processed i then s
  else
    let ns := findNeighbors nbrs dist i
    let c := coreDist dist mp i ns
    let pts := setCore s.pts i c
    match c with
    | some cd =>
      -- the start sample is marked processed and listed first, then `seeds.clear(); get_seeds(..)`
      let processed := s.processed.set i true
      let out := s.out ++ [{ index := i, core := c, reach := getReach pts i }]
      let ps := getSeeds dist i cd ns processed pts []
      seedLoop nbrs dist mp (n + 1) { pts := ps.1, processed := processed, seeds := ps.2, out := out }
    | none =>
      { s with pts := pts, processed := s.processed.set i true,
               out := s.out ++ [{ index := i, core := none, reach := getReach pts i }] }

def init (n : Nat) : State D :=
  { pts := List.replicate n { core := none, reach := none },
    processed := List.replicate n false, seeds := [], out := [] }

/-- `transform`; `nbrs = none` stands for `Err(BuildError::ZeroDimension)`:
all samples in input order with nothing defined. -/
def optics (nbrs : Option (Nat → List Nat)) (dist : Nat → Nat → D) (mp n : Nat) : List (Entry D) :=
  match nbrs with
  | none => (List.range n).map fun i => { index := i, core := none, reach := none }
  | some f => ((List.range n).foldl (outerStep f dist mp n) (init n)).out

/-! ## hyper-parameter glue (`optics/hyperparams.rs`) -/

structure Params (α : Type) where
  minPoints : Nat
  tolerance : α
deriving Repr, DecidableEq

inductive ParamsError where
  | minPoints
  | tolerance
deriving Repr, DecidableEq

/-- `OpticsParams::new(min_points, ..)`: `inf` is `F::infinity()` -/
def Params.new {α : Type} (inf : α) (mp : Nat) : Params α := { minPoints := mp, tolerance := inf }

def Params.withTolerance {α : Type} (p : Params α) (t : α) : Params α := { p with tolerance := t }

/-- `ParamGuard::check_ref` / `check`: `tolerance <= 0` is tested first, then `min_points <= 1`
(the other order than DBSCAN) -/
def Params.check {α : Type} [LE α] [DecidableLE α] [OfNat α 0] (p : Params α) : Except ParamsError (Params α) :=
  if p.tolerance ≤ 0 then .error .tolerance
  else if p.minPoints ≤ 1 then .error .minPoints
  else .ok p

end LinfaSpec.Optics
