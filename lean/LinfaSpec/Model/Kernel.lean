/-
C06 — model of `linfa-kernel` (core Lean only).

`KernelMethod::distance`, `dense_from_fn`, `sparse_from_fn` over `adjacency_matrix`, and the
`Inner` views (`size sum column diagonal to_upper_triangle dot`) for the dense (`Array2`) and the
sparse (`CsMat`, CSR) representation.

External code appears as a parameter or is modelled by its contract:
* the nearest-neighbour index: the list `nb` (`nb[m]` = indices returned by `k_nearest(row m, k+1)`),
  read from the real index by the harness (its contract is C07);
* `sprs`: `new_from_unsorted`, `transpose`, `csmat_binop(+)`, `map_inplace` — by contract (a CSR
  matrix with sorted rows whose pattern is the union of the pattern and its transpose);
* `ndarray`: elementwise product, `sum` (the eightfold unrolled fold is modelled literally:
  `ndSum`), `sum_axis`, `diag`, `column`, `indexed_iter` by contract;
* libm `exp`, `pow`: `Transc.exp`, `KPow.powf`.
-/
import LinfaSpec.Model.Scalar

namespace LinfaSpec.Kernel
open LinfaSpec

/-- `powf` — an external primitive like `Transc.exp` -/
class KPow (α : Type) where
  powf : α → α → α

instance : KPow Float := ⟨Float.pow⟩

/-- `KernelMethod<F>` -/
inductive Method (α : Type) where
  | gaussian (eps : α)
  | linear
  | poly (c d : α)

section
variable {α : Type} [Add α] [Sub α] [Mul α] [Div α] [Neg α] [OfNat α 0]

/-- the `while xs.len() >= 8` loop of ndarray's `unrolled_fold` with its eight partial sums -/
def unrolled8 : List α → (α × α × α × α × α × α × α × α) →
    (α × α × α × α × α × α × α × α) × List α
  | x0 :: x1 :: x2 :: x3 :: x4 :: x5 :: x6 :: x7 :: rest, (p0, p1, p2, p3, p4, p5, p6, p7) =>
    unrolled8 rest (p0 + x0, p1 + x1, p2 + x2, p3 + x3, p4 + x4, p5 + x5, p6 + x6, p7 + x7)
  | xs, p => (p, xs)

/-- ndarray `ArrayBase::sum` on a contiguous 1-D array: `unrolled_fold(slice, zero, add)`:
`acc = 0; acc += p0+p4; acc += p1+p5; acc += p2+p6; acc += p3+p7;` then the (< 8) remaining
elements one by one. -/
def ndSum (xs : List α) : α :=
  match unrolled8 xs (0, 0, 0, 0, 0, 0, 0, 0) with
  | ((p0, p1, p2, p3, p4, p5, p6, p7), rest) =>
    rest.foldl (· + ·) ((((0 + (p0 + p4)) + (p1 + p5)) + (p2 + p6)) + (p3 + p7))

/-- `a.iter().zip(b).map(|(x,y)| (x-y)*(x-y)).sum()` — a sequential iterator sum -/
def sqDist (a b : List α) : α := sumS (List.zipWith (fun x y => (x - y) * (x - y)) a b)

/-- `a.mul(&b).sum()` — elementwise product into a fresh array, then ndarray's `sum` -/
def ndDot (a b : List α) : α := ndSum (List.zipWith (· * ·) a b)

variable [Transc α] [KPow α]

/-- `KernelMethod::distance` -/
def kernelFn : Method α → List α → List α → α
  | .gaussian eps, a, b => Transc.exp (-(sqDist a b) / eps)
  | .linear, a, b => ndDot a b
  | .poly c d, a, b => KPow.powf (ndDot a b + c) d

/-- `dense_from_fn`: every `(i, j)` is overwritten with `method.distance(row i, row j)` -/
def dense (m : Method α) (X : List (List α)) : List (List α) :=
  X.map fun a => X.map fun b => kernelFn m a b

end

/-! ### dense views (`impl Inner for ArrayBase<D, Ix2>`) -/
section
variable {α : Type} [Add α] [Mul α] [OfNat α 0]

/-- `ncols` of the square matrix -/
def dSize (K : List (List α)) : Nat := K.length

/-- `sum_axis(Axis(1))`: for the C-ordered matrix every lane is summed with `ndSum` -/
def dSum (K : List (List α)) : List α := K.map ndSum

/-- `column(i).to_vec()`; ndarray panics when `i` is out of bounds -/
def dColumn (K : List (List α)) (i : Nat) : Option (List α) :=
  if i < K.length then some (K.map fun r => r.getD i 0) else none

/-- `diag().to_owned()` -/
def dDiag (K : List (List α)) : List α := K.mapIdx fun i r => r.getD i 0

/-- `indexed_iter().filter(col > row)` — row major -/
def dUpper (K : List (List α)) : List α := (K.mapIdx fun i r => r.drop (i + 1)).flatten

/-- the `q` columns of a row-major right-hand side -/
def colsOf (q : Nat) (R : List (List α)) : List (List α) :=
  (List.range q).map fun c => R.map fun r => r.getD c 0

/-- `self.dot(rhs)` (matrixmultiply; the summation order is not modelled — compared with tolerance) -/
def dDot (K : List (List α)) (q : Nat) (R : List (List α)) : List (List α) :=
  K.map fun r => (colsOf q R).map fun c => dotS r c

/-- `vᵀ K v` (used by the positive-semidefiniteness theorem) -/
def quadForm (v : List α) (K : List (List α)) : α :=
  sumS (List.zipWith (fun vi row => vi * dotS row v) v K)

end

/-! ### sparse construction -/

/-- CSR rows: `(column, value)` with increasing columns -/
abbrev Csr (α : Type) := List (List (Nat × α))

/-- rows pushed by the loop of `adjacency_matrix`: `m` itself, then every returned neighbour
`i ≠ m` (the preceding sort by index does not change membership) -/
def adjPattern (n : Nat) (nb : List (List Nat)) : List (List Nat) :=
  (List.range n).map fun m => m :: ((nb.getD m []).filter (· != m))

/-- pattern of `A + Aᵀ` in sorted CSR form: row `i` holds `j` iff `j ∈ A_i` or `i ∈ A_j` -/
def support (n : Nat) (pat : List (List Nat)) : List (List Nat) :=
  (List.range n).map fun i => (List.range n).filter fun j =>
    (pat.getD i []).contains j || (pat.getD j []).contains i

section
variable {α : Type} [Add α] [Sub α] [Mul α] [Div α] [Neg α] [OfNat α 0] [Transc α] [KPow α]

/-- `sparse_from_fn`; `none` = the `assert!(k < n_points); assert!(k > 0)` of `adjacency_matrix` -/
def sparseFromFn (m : Method α) (X : List (List α)) (k : Nat) (nb : List (List Nat)) : Option (Csr α) :=
  let n := X.length
  if k < n ∧ 0 < k then
    some ((support n (adjPattern n nb)).mapIdx fun i js =>
      js.map fun j => (j, kernelFn m (X.getD i []) (X.getD j [])))
  else none

end

/-! ### sparse views (`impl Inner for CsMat<F>`) -/
section
variable {α : Type} [Add α] [Mul α] [Neg α] [OfNat α 0]

/-- `CsMat::get(i, j)` -/
def sGet (S : Csr α) (i j : Nat) : Option α :=
  ((S.getD i []).find? (fun e => e.1 == j)).map (·.2)

/-- `sum`: **column** sums, accumulated in CSR iteration order -/
def sSum (n : Nat) (S : Csr α) : List α :=
  S.foldl (fun acc row => row.foldl (fun acc e => acc.set e.1 (acc.getD e.1 0 + e.2)) acc)
    (List.replicate n 0)

/-- `column(i)`: missing entries are reported as `-0.0`; an out-of-range `i` is not rejected -/
def sColumn (n : Nat) (S : Csr α) (i : Nat) : List α :=
  (List.range n).map fun j => (sGet S j i).getD (-0)

/-- `to_dense()` -/
def sToDense (n : Nat) (S : Csr α) : List (List α) :=
  (List.range n).map fun i => (List.range n).map fun j => (sGet S i j).getD 0

def sUpper (n : Nat) (S : Csr α) : List α := dUpper (sToDense n S)

/-- zeros overwritten by the stored diagonal -/
def sDiag (n : Nat) (S : Csr α) : List α :=
  (List.range n).map fun i => (sGet S i i).getD 0

/-- `csr_mulacc_dense_*`: `out[i][c] += v * rhs[j][c]` over the stored `(j, v)` of row `i`
(the real code uses a fused multiply-add — compared with tolerance) -/
def sDot (S : Csr α) (q : Nat) (R : List (List α)) : List (List α) :=
  S.map fun row => row.foldl
    (fun acc e => List.zipWith (fun o r => o + e.2 * r) acc (R.getD e.1 (List.replicate q 0)))
    (List.replicate q 0)

end

/-! ### `Kernel::new` and the dispatching accessors of `KernelBase`

Every construction wrapper of `KernelParams` (the six `Transformer` impls for `&Array2`, `ArrayView2`,
`&ArrayView2`, `DatasetBase<Array2, T>`, `&DatasetBase<Array2, T>`, `&DatasetBase<ArrayView2, T>`) is
`Kernel::new(records.view(), params)`; the memory layout of the records is invisible through `row(i)`.
So all calling forms are this one function of the record rows. -/

/-- `KernelType` -/
inductive Kind where
  | dense
  | sparse (k : Nat)

/-- `KernelInner`: the dense matrix, or the CSR matrix together with its side length -/
inductive Inner (α : Type) where
  | dense (K : List (List α))
  | sparse (n : Nat) (S : Csr α)

/-- `KernelMethod::is_linear` -/
def Method.isLinear {α : Type} : Method α → Bool
  | .linear => true
  | _ => false

section
variable {α : Type} [Add α] [Sub α] [Mul α] [Div α] [Neg α] [OfNat α 0] [Transc α] [KPow α]

/-- `Kernel::new`: `none` = the two asserts of `adjacency_matrix` -/
def kernelNew (kind : Kind) (m : Method α) (X : List (List α)) (nb : List (List Nat)) : Option (Inner α) :=
  match kind with
  | .dense => some (.dense (dense m X))
  | .sparse k => (sparseFromFn m X k nb).map (.sparse X.length)

end

/-- `Kernel<F>` = `KernelBase { inner, method }`: the matrix together with the kernel method it was built
with (`method` is public and read by the users of a kernel, e.g. the SVM prediction) -/
structure Built (α : Type) where
  inner : Inner α
  method : Method α

/-- `KernelBase::is_linear` -/
def Built.isLinear {α : Type} (K : Built α) : Bool := K.method.isLinear

section
variable {α : Type} [Add α] [Sub α] [Mul α] [Div α] [Neg α] [OfNat α 0] [Transc α] [KPow α]

/-- `Kernel::new` as a whole: `Kernel { inner, method: params.method.clone() }` — the parameters enter the
matrix and the `method` field unchanged (no sanitising of bandwidth, constant or degree) -/
def kernelBuild (kind : Kind) (m : Method α) (X : List (List α)) (nb : List (List Nat)) : Option (Built α) :=
  (kernelNew kind m X nb).map fun I => ⟨I, m⟩

end

section
variable {α : Type} [Add α] [Mul α] [Neg α] [OfNat α 0]

/-- `KernelBase::size` (= `Records::nsamples` = `Records::nfeatures`) -/
def kSize : Inner α → Nat
  | .dense K => dSize K
  | .sparse n _ => n

/-- `KernelBase::sum` -/
def kSum : Inner α → List α
  | .dense K => dSum K
  | .sparse n S => sSum n S

/-- `KernelBase::column`: `none` = panic (dense, out of bounds); the sparse variant never rejects -/
def kColumn : Inner α → Nat → Option (List α)
  | .dense K, i => dColumn K i
  | .sparse n S, i => some (sColumn n S i)

/-- `KernelBase::diagonal` -/
def kDiag : Inner α → List α
  | .dense K => dDiag K
  | .sparse n S => sDiag n S

/-- `KernelBase::to_upper_triangle` -/
def kUpper : Inner α → List α
  | .dense K => dUpper K
  | .sparse n S => sUpper n S

/-- `KernelBase::dot` -/
def kDot : Inner α → Nat → List (List α) → List (List α)
  | .dense K, q, R => dDot K q R
  | .sparse _ S, q, R => sDot S q R

/-- the matrix a kernel stands for -/
def kMatrix : Inner α → List (List α)
  | .dense K => K
  | .sparse n S => sToDense n S

end

end LinfaSpec.Kernel
