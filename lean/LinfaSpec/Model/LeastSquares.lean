/-
C11 — model of linfa-elasticnet's solvers (`algorithm.rs`) and of the documented objective.

A design matrix is a list of *columns* `C` (each of length `n`); the driver transposes the
row-major request.  `contig` says whether a column view is contiguous in memory (`p = 1`):
ndarray's `dot` then goes through the eight-fold unrolled kernel (`sumU`), otherwise through
the plain sequential loop (`sumS`).  Owned vectors (`r`, `w`, `y`) are always contiguous.

Everything follows the Rust control flow: `cdCoord` is the body of `for j in 0..n_features`,
`cdSweep` one pass of the `while`, `cdLoop` the `while` with fuel `max_steps`,
`dualityGap` the function of the same name, `eps` is `F::EPSILON` (the default tolerance of the one
`abs_diff_eq!(w_max, 0)` left in each loop).  Core Lean only.
-/
import LinfaSpec.Model.Scalar

namespace LinfaSpec.LeastSquares
open LinfaSpec

section
variable {α : Type} [Add α] [Sub α] [Mul α] [Div α] [Neg α] [LT α] [DecidableLT α]
  [LE α] [DecidableLE α] [OfNat α 0] [OfNat α 1]

/-- `F::cast(0.5)` -/
def half : α := 1 / (1 + 1)

/-- ndarray `numeric_util::unrolled_fold` / `unrolled_dot`: eight partial sums, combined as
`(p0+p4) + (p1+p5) + (p2+p6) + (p3+p7)`, then the (< 8) remaining elements in order. -/
def sumU8 : List α → α → α → α → α → α → α → α → α → α
  | x0 :: x1 :: x2 :: x3 :: x4 :: x5 :: x6 :: x7 :: xs, p0, p1, p2, p3, p4, p5, p6, p7 =>
      sumU8 xs (p0 + x0) (p1 + x1) (p2 + x2) (p3 + x3) (p4 + x4) (p5 + x5) (p6 + x6) (p7 + x7)
  | xs, p0, p1, p2, p3, p4, p5, p6, p7 =>
      xs.foldl (· + ·) ((((0 + (p0 + p4)) + (p1 + p5)) + (p2 + p6)) + (p3 + p7))

def sumU (l : List α) : α := sumU8 l 0 0 0 0 0 0 0 0

/-- `a.dot(&b)` on two contiguous 1-D arrays -/
def dotU (a b : List α) : α := sumU (List.zipWith (· * ·) a b)

/-- `a.dot(&b)` where `a` is a column view of a row-major matrix -/
def dotC (contig : Bool) (a b : List α) : α := if contig then dotU a b else dotS a b

/-- `r.scaled_add(a, &x)` : `r_i + a * x_i` -/
def axpy (a : α) (x r : List α) : List α := List.zipWith (fun ri xi => ri + a * xi) r x

/-- `norm_max` of linfa-linalg: `fold(0, |f, v| v.abs().max(f))` -/
def normMax (v : List α) : α := v.foldl (fun f x => maxS (absS x) f) 0

/-- `norm_l1`: `iter().map(abs).sum()` -/
def normL1 (v : List α) : α := sumS (v.map absS)

/-- `f64::signum` (`+1` at `+0`; the sign of a zero is not modelled) -/
def signumS (x : α) : α := if x < 0 then -1 else 1

/-- the coordinate update `tmp.signum() * max(|tmp| - thr, 0) / den` -/
def softThreshold (tmp thr den : α) : α := signumS tmp * maxS (absS tmp - thr) 0 / den

/-- `duality_gap(x, y, w, r, l1_ratio, penalty)`; `n` is `F::cast(x.nrows())` -/
def dualityGap (contig : Bool) (C : List (List α)) (y w r : List α) (l1r pen n : α) : α :=
  let l1 := l1r * pen * n
  let l2 := (1 - l1r) * pen * n
  let xta := List.zipWith (fun c wj => dotC contig c r - wj * l2) C w
  let dn := normMax xta
  let rn := dotU r r
  let wn := dotU w w
  let cg : α × α :=
    if l1 < dn then
      let c := l1 / dn
      let an := rn * c * c
      (c, half * (rn + an))
    else (1, rn)
  cg.2 + (l1 * normL1 w - cg.1 * dotU r y + half * l2 * (1 + cg.1 * cg.1) * wn)

structure CdState (α : Type) where
  w : List α
  r : List α
  wMax : α
  dwMax : α

/-- body of `for j in 0..n_features` in `coordinate_descent`.  The three guards compare with zero exactly
(`norm_cols_x[j] == 0`, `old_w_j != 0`, `w[j] != 0`; written `absS x ≤ 0`, which is the same test on floats
including NaN, and `x = 0` over an ordered field) -/
def cdCoord (contig : Bool) (thr denAdd : α) (st : CdState α) (j : Nat) (cj : List α) (nrm : α) :
    CdState α :=
  if absS nrm ≤ 0 then st else
  let old := st.w.getD j 0
  let r1 := if absS old ≤ 0 then st.r else axpy old cj st.r
  let tmp := dotC contig cj r1
  let wj := softThreshold tmp thr (nrm + denAdd)
  let r2 := if absS wj ≤ 0 then r1 else axpy (-wj) cj r1
  { w := st.w.set j wj, r := r2, dwMax := maxS st.dwMax (absS (wj - old)), wMax := maxS st.wMax (absS wj) }

def cdSweepGo (contig : Bool) (thr denAdd : α) : Nat → List (List α) → List α → CdState α → CdState α
  | j, c :: C, nrm :: ns, st => cdSweepGo contig thr denAdd (j + 1) C ns (cdCoord contig thr denAdd st j c nrm)
  | _, _, _, st => st

/-- one pass of the `while` loop body up to `n_steps += 1` -/
def cdSweep (contig : Bool) (thr denAdd : α) (C : List (List α)) (norms w r : List α) : CdState α :=
  cdSweepGo contig thr denAdd 0 C norms { w := w, r := r, wMax := 0, dwMax := 0 }

/-- the `while n_steps < max_steps` loop (fuel = remaining steps); `eps` is `F::EPSILON`, the default tolerance of
the one remaining `abs_diff_eq!(w_max, 0)` -/
def cdLoop (contig : Bool) (eps thr denAdd : α) (C : List (List α)) (norms y : List α)
    (n tol tolS l1r pen : α) (maxSteps : Nat) : Nat → Nat → List α → List α → α → List α × α × Nat
  | 0, steps, w, _, gap => (w, gap, steps)
  | fuel + 1, steps, w, r, gap =>
    let st := cdSweep contig thr denAdd C norms w r
    let steps' := steps + 1
    if (steps' == maxSteps - 1) || decide (absS st.wMax ≤ eps) || decide (st.dwMax / st.wMax < tol) then
      let g := dualityGap contig C y st.w st.r l1r pen n
      if g < tolS then (st.w, g, steps')
      else cdLoop contig eps thr denAdd C norms y n tol tolS l1r pen maxSteps fuel steps' st.w st.r g
    else cdLoop contig eps thr denAdd C norms y n tol tolS l1r pen maxSteps fuel steps' st.w st.r gap

/-- `coordinate_descent(x, y, tol, max_steps, l1_ratio, penalty)` = `(w, gap, n_steps)` -/
def coordinateDescent (contig : Bool) (eps : α) (C : List (List α)) (y : List α) (n tol : α)
    (maxSteps : Nat) (l1r pen : α) : List α × α × Nat :=
  let norms := C.map fun c => dotC contig c c
  cdLoop contig eps (n * l1r * pen) (n * (1 - l1r) * pen) C norms y n tol (tol * dotU y y) l1r pen maxSteps
    maxSteps 0 (List.replicate C.length 0) y (1 + tol)

/-- `compute_intercept` for a 1-D target: `(mean, y - mean)` or `(0, y)`; `mean_axis` of a contiguous
1-D array is ndarray's unrolled `sum` divided by `n` (a strided target view would be summed
sequentially: not modelled) -/
def computeIntercept (withIntercept : Bool) (y : List α) (n : α) : α × List α :=
  if withIntercept then
    let m := sumU y / n
    (m, y.map (· - m))
  else (0, y)

/-- `ElasticNetValidParams::fit` = `(intercept, hyperplane, duality_gap, n_steps)` -/
def fitEnet (contig : Bool) (eps : α) (C : List (List α)) (y : List α) (n tol : α) (maxSteps : Nat)
    (l1r pen : α) (withIntercept : Bool) : α × List α × α × Nat :=
  let (b, yc) := computeIntercept withIntercept y n
  let (w, g, s) := coordinateDescent contig eps C yc n tol maxSteps l1r pen
  (b, w, g, s)

/-! ### the glue around the solver: parameter sets, constructors, `ParamGuard`, `predict` -/

/-- `ElasticNetValidParamsBase` (the same struct serves the single- and the multi-task estimator) -/
structure EnetParams (α : Type) where
  penalty : α
  l1Ratio : α
  withIntercept : Bool
  maxIterations : Nat
  tolerance : α

/-- `ElasticNetParamsBase::new()`; `tol0` is `F::cast(1e-4)` -/
def EnetParams.new (tol0 : α) : EnetParams α :=
  { penalty := 1, l1Ratio := half, withIntercept := true, maxIterations := 1000, tolerance := tol0 }

/-- `impl Default for ElasticNetParamsBase`: `Self::new()` -/
def EnetParams.default (tol0 : α) : EnetParams α := EnetParams.new tol0

/-- `ElasticNet::ridge()` / `MultiTaskElasticNet::ridge()` : `new().l1_ratio(0)` -/
def EnetParams.ridge (tol0 : α) : EnetParams α := { EnetParams.new tol0 with l1Ratio := 0 }

/-- `ElasticNet::lasso()` / `MultiTaskElasticNet::lasso()` : `new().l1_ratio(1)` -/
def EnetParams.lasso (tol0 : α) : EnetParams α := { EnetParams.new tol0 with l1Ratio := 1 }

inductive ParamError where
  | invalidPenalty | invalidL1Ratio | invalidTolerance
  deriving DecidableEq, Repr

/-- `ParamGuard::check_ref` (`is_negative` read as `< 0`: `-0.0` and NaN are not modelled) -/
def EnetParams.check (p : EnetParams α) : Except ParamError (EnetParams α) :=
  if p.penalty < 0 then .error .invalidPenalty
  else if ¬ (0 ≤ p.l1Ratio ∧ p.l1Ratio ≤ 1) then .error .invalidL1Ratio
  else if p.tolerance < 0 then .error .invalidTolerance
  else .ok p

/-- `ElasticNetParams::fit` = `check` then `ElasticNetValidParams::fit` -/
def fitParams (contig : Bool) (eps : α) (C : List (List α)) (y : List α) (n : α) (p : EnetParams α) :
    Except ParamError (α × List α × α × Nat) :=
  match p.check with
  | .error e => .error e
  | .ok q => .ok (fitEnet contig eps C y n q.tolerance q.maxIterations q.l1Ratio q.penalty q.withIntercept)

/-- `predict`: `x.dot(&hyperplane) + intercept`, row by row (`rowContig`: the rows of `x` are
contiguous, i.e. `x` is in standard layout) -/
def predict (rowContig : Bool) (rows : List (List α)) (w : List α) (b : α) : List α :=
  rows.map fun row => dotC rowContig row w + b

/-! ### the documented objective (used by the theorems and by the `obj` correspondence) -/

/-- `X w` from columns: `Σ_j w_j · c_j` (zeros of length `n` when there is no column) -/
def matVec (n : Nat) : List (List α) → List α → List α
  | c :: C, wj :: w => List.zipWith (· + ·) (c.map (wj * ·)) (matVec n C w)
  | _, _ => List.replicate n 0

/-- `y - X w - b` -/
def residual (C : List (List α)) (y w : List α) (b : α) : List α :=
  List.zipWith (fun yi xi => yi - xi - b) y (matVec y.length C w)

/-- the elastic-net penalty `l1·‖w‖₁ + ½·l2·‖w‖²` -/
def penaltyTerm (w : List α) (l1 l2 : α) : α := l1 * normL1 w + half * l2 * dotS w w

/-- `n` times the documented objective: `½‖y − Xw − b‖² + n·pen·(ρ‖w‖₁ + (1−ρ)/2·‖w‖²)` -/
def objective (C : List (List α)) (y w : List α) (b l1r pen n : α) : α :=
  let r := residual C y w b
  half * dotS r r + penaltyTerm w (l1r * pen * n) ((1 - l1r) * pen * n)

/-- sum of squared errors of an OLS fit -/
def sse (C : List (List α)) (y w : List α) (b : α) : α :=
  let r := residual C y w b
  dotS r r

end

/-! ### multi-task (needs `sqrt`) -/
section
variable {α : Type} [Add α] [Sub α] [Mul α] [Div α] [Neg α] [LT α] [DecidableLT α]
  [LE α] [DecidableLE α] [OfNat α 0] [OfNat α 1] [Transc α]

def norm2U (x : List α) : α := Transc.sqrt (dotU x x)

/-- `block_soft_thresholding(x, threshold)` -/
def blockSoft (x : List α) (thr : α) : List α :=
  let nx := norm2U x
  if nx ≤ thr then List.replicate x.length 0
  else
    let s := 1 - thr / nx
    x.map (· * s)

/-- `r += a · outer(x_j, v)` for `a = ±1` as `general_mat_mul(±1, x_j, v, 1, r)` -/
def rankOne (neg : Bool) (cj v : List α) (R : List (List α)) : List (List α) :=
  List.zipWith (fun row xi => List.zipWith (fun rit vt => if neg then rit - xi * vt else rit + xi * vt) row v) R cj

def colsOf (t : Nat) (R : List (List α)) : List (List α) :=
  (List.range t).map fun k => R.map fun row => row.getD k 0

structure BcdState (α : Type) where
  w : List (List α)
  r : List (List α)
  wMax : α
  dwMax : α

/-- body of `for j in 0..n_features` in `block_coordinate_descent` (`t` tasks); exact comparisons with zero as in
`cdCoord` -/
def bcdCoord (contig : Bool) (t : Nat) (thr denAdd : α) (st : BcdState α) (j : Nat) (cj : List α)
    (nrm : α) : BcdState α :=
  if absS nrm ≤ 0 then st else
  let old := st.w.getD j []
  let nOld := norm2U old
  let r1 := if absS nOld ≤ 0 then st.r else rankOne false cj old st.r
  let tmp := (colsOf t r1).map fun rc => dotC (contig && t == 1) rc cj
  let new := (blockSoft tmp thr).map (· / (nrm + denAdd))
  let nNew := norm2U new
  let r2 := if absS nNew ≤ 0 then r1 else rankOne true cj new r1
  { w := st.w.set j new, r := r2, dwMax := maxS st.dwMax (absS (nNew - nOld)), wMax := maxS st.wMax nNew }

def bcdSweepGo (contig : Bool) (t : Nat) (thr denAdd : α) :
    Nat → List (List α) → List α → BcdState α → BcdState α
  | j, c :: C, nrm :: ns, st =>
      bcdSweepGo contig t thr denAdd (j + 1) C ns (bcdCoord contig t thr denAdd st j c nrm)
  | _, _, _, st => st

/-- `dual_norm_xta` of `duality_gap_mtl`: the largest row norm of `XᵀR − l2·W` -/
def dualNormMtl (t : Nat) (C : List (List α)) (W R : List (List α)) (l2 : α) : α :=
  let rc := colsOf t R
  let xta := List.zipWith (fun c wj => List.zipWith (fun rk wjk => dotS c rk - wjk * l2) rc wj) C W
  normMax (xta.map norm2U)

/-- `duality_gap_mtl` (`W` : p rows of t, `R`,`Y` : n rows of t) -/
def dualityGapMtl (t : Nat) (C : List (List α)) (Y W R : List (List α)) (l1r pen n : α) : α :=
  let l1 := l1r * pen * n
  let l2 := (1 - l1r) * pen * n
  let rc := colsOf t R
  let dn := dualNormMtl t C W R l2
  let rn := sumS (R.flatten.map fun x => x * x)
  let wn := sumS (W.flatten.map fun x => x * x)
  let cg : α × α :=
    if l1 < dn then
      let c := l1 / dn
      let an := rn * c * c
      (c, half * (rn + an))
    else (1, rn)
  let tr := sumS (List.zipWith (fun a b => dotS a b) rc (colsOf t Y))
  let l21 := sumU (W.map norm2U)
  cg.2 + (l1 * l21 - cg.1 * tr + half * l2 * (1 + cg.1 * cg.1) * wn)

def bcdLoop (contig : Bool) (t : Nat) (eps thr denAdd : α) (C : List (List α)) (norms : List α)
    (Y : List (List α)) (n tol tolS l1r pen : α) (maxSteps : Nat) :
    Nat → Nat → List (List α) → List (List α) → α → List (List α) × α × Nat
  | 0, steps, w, _, gap => (w, gap, steps)
  | fuel + 1, steps, w, r, gap =>
    let st := bcdSweepGo contig t thr denAdd 0 C norms { w := w, r := r, wMax := 0, dwMax := 0 }
    let steps' := steps + 1
    if (steps' == maxSteps - 1) || decide (absS st.wMax ≤ eps) || decide (st.dwMax / st.wMax < tol) then
      let g := dualityGapMtl t C Y st.w st.r l1r pen n
      if g < tolS then (st.w, g, steps')
      else bcdLoop contig t eps thr denAdd C norms Y n tol tolS l1r pen maxSteps fuel steps' st.w st.r g
    else bcdLoop contig t eps thr denAdd C norms Y n tol tolS l1r pen maxSteps fuel steps' st.w st.r gap

/-- `block_coordinate_descent(x, y, tol, max_steps, l1_ratio, penalty)` -/
def blockCoordinateDescent (contig : Bool) (t : Nat) (eps : α) (C : List (List α)) (Y : List (List α))
    (n tol : α) (maxSteps : Nat) (l1r pen : α) : List (List α) × α × Nat :=
  let norms := C.map fun c => dotC contig c c
  bcdLoop contig t eps (n * l1r * pen) (n * (1 - l1r) * pen) C norms Y n tol
    (tol * sumS (Y.flatten.map fun x => x * x)) l1r pen maxSteps
    maxSteps 0 (List.replicate C.length (List.replicate t 0)) Y (1 + tol)

/-- `compute_intercept` for a 2-D target (`Y` : n rows of t): `mean_axis(Axis(0))` adds the rows one
after the other and divides by `n`; the centred target is `Y − mean` row by row -/
def computeInterceptMtl (withIntercept : Bool) (t : Nat) (Y : List (List α)) (n : α) :
    List α × List (List α) :=
  if withIntercept then
    let m := (colsOf t Y).map fun c => sumS c / n
    (m, Y.map fun row => List.zipWith (· - ·) row m)
  else (List.replicate t 0, Y)

/-- `MultiTaskElasticNetValidParams::fit` = `(intercept, hyperplane, duality_gap, n_steps)` -/
def fitMtl (contig : Bool) (t : Nat) (eps : α) (C : List (List α)) (Y : List (List α)) (n tol : α)
    (maxSteps : Nat) (l1r pen : α) (withIntercept : Bool) : List α × List (List α) × α × Nat :=
  let (b, Yc) := computeInterceptMtl withIntercept t Y n
  let (w, g, s) := blockCoordinateDescent contig t eps C Yc n tol maxSteps l1r pen
  (b, w, g, s)

/-- `MultiTaskElasticNetParams::fit` = `check` then the fit -/
def fitParamsMtl (contig : Bool) (t : Nat) (eps : α) (C : List (List α)) (Y : List (List α)) (n : α)
    (p : EnetParams α) : Except ParamError (List α × List (List α) × α × Nat) :=
  match p.check with
  | .error e => .error e
  | .ok q => .ok (fitMtl contig t eps C Y n q.tolerance q.maxIterations q.l1Ratio q.penalty q.withIntercept)

/-- multi-task `predict`: `x.dot(&W) + &b` (gemm: each entry is `Σ_j x_ij·W_jk` then `+ b_k`) -/
def predictMtl (t : Nat) (rows : List (List α)) (W : List (List α)) (b : List α) : List (List α) :=
  rows.map fun row => List.zipWith (fun wc bk => dotS row wc + bk) (colsOf t W) b

/-- the residual matrix `R = Y − XW` (rows of length `t`), built task by task from the single-task
`residual` and transposed back to rows -/
def residualMtl (t : Nat) (C : List (List α)) (Y W : List (List α)) : List (List α) :=
  colsOf Y.length (List.zipWith (fun yk wk => residual C yk wk 0) (colsOf t Y) (colsOf t W))

/-- the multi-task documented objective times `n`:
`½‖Y − XW − 1bᵀ‖²_F + n·pen·(ρ‖W‖₂,₁ + (1−ρ)/2·‖W‖²_F)`; `C` columns of `X`, `Yc` columns of `Y`,
`Wc` columns of `W` (one coefficient vector per task), `Wr` its rows (one group per feature) -/
def objectiveMtl (C : List (List α)) (Yc Wc : List (List α)) (Wr : List (List α)) (b : List α) (l1r pen n : α) : α :=
  let sq := sumS (List.zipWith (fun (yw : List α × List α) bk => let r := residual C yw.1 yw.2 bk; dotS r r)
    (List.zip Yc Wc) b)
  half * sq + (l1r * pen * n) * sumS (Wr.map norm2U)
    + half * ((1 - l1r) * pen * n) * sumS (Wc.map fun w => dotS w w)

end

end LinfaSpec.LeastSquares
