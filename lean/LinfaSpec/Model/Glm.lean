/-
C12 — model of the Tweedie GLM of `linfa-linear` (algorithms/linfa-linear/src/glm/), core Lean only.

* `TweedieDistribution::{new, in_range, unit_deviance, unit_deviance_derivative}` → `powerClass`,
  `inRange`, `unitDeviance`, `unitDevianceDeriv`
* `Link::{inverse, inverse_derviative, link, link_derivative}` → `linkInverse`, `linkInverseDeriv`, `linkFn`, `linkFnDeriv`;
  the default link of `TweedieRegressorValidParams::link()` → `selectLink`
* `TweedieProblem::{ypred, cost, gradient}` → `ypred`, `cost`, `gradient` (parameter vector with the
  intercept FIRST when `fit_intercept`)

`powf` is an external primitive: it is the parameter `pw` (`Float.pow` in the driver, `Real.rpow` in
the theorems).  `tol6` is the literal `1e-6` of the power dispatch.
-/
import LinfaSpec.Model.Scalar

namespace LinfaSpec.Glm

inductive Link | identity | log | logit
  deriving DecidableEq, Repr

/-- which arm of the `match self.power` in `unit_deviance` is taken -/
inductive PowerClass | negative | normal | invalid | poisson | gamma | generic
  deriving DecidableEq, Repr

section
variable {α : Type} [Add α] [Sub α] [Mul α] [Div α] [Neg α] [LT α] [DecidableLT α]
  [LE α] [DecidableLE α] [DecidableEq α] [OfNat α 0] [OfNat α 1] [Transc α]

def two : α := 1 + 1
def half : α := 1 / (1 + 1)

/-- the arms of `unit_deviance`, in the order of the Rust `match` -/
def powerClass (tol6 power : α) : PowerClass :=
  if power < 0 then .negative
  else if power = 0 then .normal
  else if power < 1 then .invalid
  else if absS (power - 1) < tol6 then .poisson
  else if absS (power - two) < tol6 then .gamma
  else .generic

/-- `TweedieDistribution::new` followed by `in_range` (finite targets): `none` = `InvalidTweediePower` -/
def inRange (power : α) (y : List α) : Option Bool :=
  if power ≤ 0 then some true
  else if power < 1 then none
  else if power < two then some (y.all fun v => decide (0 ≤ v))
  else some (y.all fun v => decide (0 < v))

/-- `unit_deviance` for one sample -/
def unitDeviance (pw : α → α → α) (tol6 power y yp : α) : Option α :=
  match powerClass tol6 power with
  | .negative =>
    let left := pw (maxS y 0) (two - power) / ((1 - power) * (two - power))
    let middle := y * (pw yp (1 - power) / (1 - power))
    let right := pw yp (two - power) / (two - power)
    some (two * (left - middle + right))
  | .normal => some ((y - yp) * (y - yp))
  | .invalid => none
  | .poisson =>
    let d := if y = 0 then 0 else two * (y * Transc.ln (y / yp))
    some (d + two * (yp - y))
  | .gamma => some (two * (Transc.ln (yp / y) + y / yp - 1))
  | .generic =>
    let left := pw y (two - power) / ((1 - power) * (two - power))
    let middle := y * (pw yp (1 - power) / (1 - power))
    let right := pw yp (two - power) / (two - power)
    some (two * (left - middle + right))

/-- `deviance`: sum of the unit deviances -/
def deviance (pw : α → α → α) (tol6 power : α) (y yp : List α) : Option α :=
  (List.zipWith (unitDeviance pw tol6 power) y yp).foldl
    (fun acc d => match acc, d with
      | some a, some v => some (a + v)
      | _, _ => none) (some 0)

/-- `unit_deviance_derivative`: `-2 (y - ŷ) / ŷ^power` -/
def unitDevianceDeriv (pw : α → α → α) (power y yp : α) : α :=
  (-two) * ((y - yp) / pw yp power)

def linkInverse (l : Link) (x : α) : α :=
  match l with
  | .identity => x
  | .log => Transc.exp x
  | .logit => 1 / (1 + Transc.exp (-x))

def linkInverseDeriv (l : Link) (x : α) : α :=
  match l with
  | .identity => 1
  | .log => Transc.exp x
  | .logit => let e := 1 / (1 + Transc.exp (-x)); e * (1 - e)

/-- `Link::link` (forward direction; feeds the start intercept `link(mean(y))` of `fit`) -/
def linkFn (l : Link) (x : α) : α :=
  match l with
  | .identity => x
  | .log => Transc.ln x
  | .logit => Transc.ln (x / (1 - x))

/-- `Link::link_derivative`; `lb` is the literal `1e-7` below which the log link's derivative is capped -/
def linkFnDeriv (lb : α) (l : Link) (x : α) : α :=
  match l with
  | .identity => 1
  | .log => if x < lb then 1 / lb else 1 / x
  | .logit => 1 / (x * (1 - x))

/-- the default of `TweedieRegressorValidParams::link()` when no link was set: identity for `power <= 0`, log otherwise -/
def defaultLink (power : α) : Link := if power ≤ 0 then .identity else .log

/-- `TweedieRegressorValidParams::link()` -/
def selectLink (chosen : Option Link) (power : α) : Link :=
  match chosen with
  | some l => l
  | none => defaultLink power

/-- `TweedieRegressorParams::check` (the test on the power) followed by `TweedieRegressorValidParams::link()`:
`none` = `InvalidTweediePower` (powers strictly between 0 and 1 are rejected before a link is selected) -/
def checkedLink (chosen : Option Link) (power : α) : Option Link :=
  if 0 < power ∧ power < 1 then none else some (selectLink chosen power)

/-- `(coefficients, intercept)` of the parameter vector (intercept first) -/
def splitP (icpt : Bool) (p : List α) : List α × α :=
  if icpt then (p.drop 1, p.headD 0) else (p, 0)

/-- `TweedieProblem::ypred`: linear predictor per sample -/
def linPred (icpt : Bool) (x : List (List α)) (p : List α) : List α :=
  let (c, b) := splitP icpt p
  x.map fun row => dotS row c + b

/-- `0.5 * (deviance + alpha * |coef|^2)` -/
def cost (pw : α → α → α) (tol6 power alpha : α) (l : Link) (icpt : Bool)
    (x : List (List α)) (y p : List α) : Option α :=
  let lp := linPred icpt x p
  let yp := lp.map (linkInverse l)
  match deviance pw tol6 power y yp with
  | none => none
  | some dev =>
    let c := (splitP icpt p).1
    some (half * (dev + dotS c (c.map (· * alpha))))

def col (x : List (List α)) (j : Nat) : List α := x.map fun row => row.getD j 0

/-- `TweedieProblem::gradient` -/
def gradient (pw : α → α → α) (power alpha : α) (l : Link) (icpt : Bool) (nf : Nat)
    (x : List (List α)) (y p : List α) : List α :=
  let lp := linPred icpt x p
  let yp := lp.map (linkInverse l)
  let temp := List.zipWith (· * ·) (lp.map (linkInverseDeriv l))
    (List.zipWith (unitDevianceDeriv pw power) y yp)
  let c := (splitP icpt p).1
  let gw := (List.range nf).map fun j => dotS temp (col x j) * half + c.getD j 0 * alpha
  if icpt then (sumS temp * half) :: gw else gw

/-- `TweedieRegressor::predict` -/
def predict (l : Link) (x : List (List α)) (coef : List α) (b : α) : List α :=
  x.map fun row => linkInverse l (dotS row coef + b)

end
end LinfaSpec.Glm
