/-
C04 — the *documented* ranges of every parameter builder, transcribed by hand from linfa's doc
comments and `#[error("…")]` texts (core Lean only; decidable, so the driver evaluates them on the grid).

Precedence of sources (DESIGN.md, C04 "Limits"): doc comment of the setter / field, then the error text
of the variant the guard returns.  Where the text says "positive" but the variant is called `…Negative`,
or the default is 0, and no open end is stated, the range is read as `≥ 0` (listed in notes/C04.md as an
ambiguity, not a finding).  Where the documentation is silent the guard itself is the documentation
(marked `-- silent`).

`Finite p` is the hypothesis "a parameter set with finite values" of the property statement.
-/
import LinfaSpec.Gen.C04Params

namespace LinfaSpec.Ranges
open LinfaSpec.ParamGuard LinfaSpec.Gen.C04

/-- finite and `≥ 0` -/
abbrev nonneg (x : XF) : Prop := x.Sat (fun q => 0 ≤ q)
/-- finite and `> 0` -/
abbrev pos (x : XF) : Prop := x.Sat (fun q => 0 < q)
/-- finite and in `[0, 1]` -/
abbrev unit01 (x : XF) : Prop := x.Sat (fun q => 0 ≤ q ∧ q ≤ 1)

namespace Platt
/-- platt_scaling.rs: `maxiter` "Set the maximum number of iterations" — 0 rejected with MaxIterReached;
"minstep should be positive" (variant `MinStepNegative`), "sigma should be positive" (`SigmaNegative`):
read as `≥ 0`. -/
def InRange (p : Platt.Params) : Prop := 1 ≤ p.maxiter ∧ nonneg p.minstep ∧ nonneg p.sigma
def Finite (p : Platt.Params) : Prop := p.minstep.Finite ∧ p.sigma.Finite
instance (p) : Decidable (InRange p) := by unfold InRange; infer_instance
instance (p) : Decidable (Finite p) := by unfold Finite; infer_instance
end Platt

namespace KMeans
/-- k_means/errors.rs: "n_clusters cannot be 0", "n_runs cannot be 0", "tolerance must be greater than 0",
"max_n_iterations cannot be 0". -/
def InRange (p : KMeans.Params) : Prop :=
  1 ≤ p.n_clusters ∧ 1 ≤ p.n_runs ∧ pos p.tolerance ∧ 1 ≤ p.max_n_iterations
def Finite (p : KMeans.Params) : Prop := p.tolerance.Finite
instance (p) : Decidable (InRange p) := by unfold InRange; infer_instance
instance (p) : Decidable (Finite p) := by unfold Finite; infer_instance
end KMeans

namespace Dbscan
/-- dbscan/hyperparams.rs: "min_points must be greater than 1", "tolerance must be greater than 0". -/
def InRange (p : Dbscan.Params) : Prop := 2 ≤ p.min_points ∧ pos p.tolerance
def Finite (p : Dbscan.Params) : Prop := p.tolerance.Finite
instance (p) : Decidable (InRange p) := by unfold InRange; infer_instance
instance (p) : Decidable (Finite p) := by unfold Finite; infer_instance
end Dbscan

namespace AppxDbscan
/-- appx_dbscan/hyperparams.rs: as DBSCAN, plus "slack must be greater than 0". -/
def InRange (p : AppxDbscan.Params) : Prop := 2 ≤ p.min_points ∧ pos p.tolerance ∧ pos p.slack
def Finite (p : AppxDbscan.Params) : Prop := p.tolerance.Finite ∧ p.slack.Finite
instance (p) : Decidable (InRange p) := by unfold InRange; infer_instance
instance (p) : Decidable (Finite p) := by unfold Finite; infer_instance
end AppxDbscan

namespace Optics
/-- optics/hyperparams.rs: "`tolerance` must be greater than 0!", "`min_points` must be greater than 1!". -/
def InRange (p : Optics.Params) : Prop := pos p.tolerance ∧ 2 ≤ p.min_points
def Finite (p : Optics.Params) : Prop := p.tolerance.Finite
instance (p) : Decidable (InRange p) := by unfold InRange; infer_instance
instance (p) : Decidable (Finite p) := by unfold Finite; infer_instance
end Optics

namespace Gmm
/-- gaussian_mixture/hyperparams.rs: "`n_clusters` cannot be 0!", "`tolerance` must be greater than 0!",
`reg_covariance`: "Non-negative regularization added to the diagonal of covariance", "`n_runs` cannot be 0!",
"`max_n_iterations` cannot be 0!". -/
def InRange (p : Gmm.Params) : Prop :=
  1 ≤ p.n_clusters ∧ pos p.tolerance ∧ nonneg p.reg_covar ∧ 1 ≤ p.n_runs ∧ 1 ≤ p.max_n_iter
def Finite (p : Gmm.Params) : Prop := p.tolerance.Finite ∧ p.reg_covar.Finite
instance (p) : Decidable (InRange p) := by unfold InRange; infer_instance
instance (p) : Decidable (Finite p) := by unfold Finite; infer_instance
end Gmm

namespace ElasticNet
/-- elasticnet/hyperparams.rs: penalty "must be non-negative" ; "l1 ratio should be in range [0, 1]";
tolerance: "invalid tolerance" for negative values (setter doc silent on the open end: `≥ 0`). -/
def InRange (p : ElasticNet.Params) : Prop := nonneg p.penalty ∧ unit01 p.l1_ratio ∧ nonneg p.tolerance
def Finite (p : ElasticNet.Params) : Prop := p.penalty.Finite ∧ p.l1_ratio.Finite ∧ p.tolerance.Finite
instance (p) : Decidable (InRange p) := by unfold InRange; infer_instance
instance (p) : Decidable (Finite p) := by unfold Finite; infer_instance
/-- the builder's parameter table (hyperparams.rs:77-83) also gives `max_iterations` the range `[1, inf)`; no guard
reads that field, so it is not part of the translated `Params`: the full documented range takes it as an argument -/
def DocRange (p : ElasticNet.Params) (max_iterations : Nat) : Prop := InRange p ∧ 1 ≤ max_iterations
instance (p mi) : Decidable (DocRange p mi) := by unfold DocRange; infer_instance
end ElasticNet

namespace Logistic
/-- logistic/error.rs: "alpha must be a positive, finite number" (0 = no regularisation is a documented
use; read `≥ 0`), "gradient_tolerance must be a positive, finite number" (`> 0`: the guard and the text
agree), "Initial parameters must be finite". -/
def InRange (p : Logistic.Params) : Prop :=
  nonneg p.alpha ∧ pos p.gradient_tolerance ∧
  (match p.initial_params with | some xs => ∀ x ∈ xs, x.Finite | none => True)
def Finite (p : Logistic.Params) : Prop :=
  p.alpha.Finite ∧ p.gradient_tolerance.Finite ∧
  (match p.initial_params with | some xs => ∀ x ∈ xs, x.Finite | none => True)
instance (p) : Decidable (InRange p) := by unfold InRange; cases p.initial_params <;> infer_instance
instance (p) : Decidable (Finite p) := by unfold Finite; cases p.initial_params <;> infer_instance
end Logistic

namespace Tweedie
/-- linear/error.rs: "penalty should be positive" (default 1, 0 documented as "no penalty": `≥ 0`),
"tweedie distribution power should not be in (0, 1)". -/
def InRange (p : Tweedie.Params) : Prop := nonneg p.alpha ∧ p.power.Sat (fun q => q ≤ 0 ∨ 1 ≤ q)
def Finite (p : Tweedie.Params) : Prop := p.alpha.Finite ∧ p.power.Finite
instance (p) : Decidable (InRange p) := by unfold InRange; infer_instance
instance (p) : Decidable (Finite p) := by unfold Finite; infer_instance
end Tweedie

namespace Svm
/-- svm/hyperparams.rs + error.rs: the Platt sub-parameters in their range; "Invalid epsilon" for a negative
stopping tolerance (`≥ 0`); "Negative C value" — `C` weights strictly positive (setter: "positive");
"Nu should be in unit range" — `(0, 1]` (0 excluded: `fit_nu` doc "should be in range (0, 1)", the guard admits 1).
The second component of `nu` is the C value of nu-regression (`nu_svr(nu, c)`, default 1; `nu_weight` stores nu
itself, `nu_eps` stores 1): strictly positive like every other C ("Negative C value"). -/
def InRange (p : Svm.Params) : Prop :=
  Platt.InRange p.platt ∧ nonneg p.solver_params_eps ∧
  (match p.c with | some (c1, c2) => pos c1 ∧ pos c2 | none => True) ∧
  (match p.nu with | some (nu, c) => nu.Sat (fun q => 0 < q ∧ q ≤ 1) ∧ pos c | none => True)
def Finite (p : Svm.Params) : Prop :=
  Platt.Finite p.platt ∧ p.solver_params_eps.Finite ∧
  (match p.c with | some (c1, c2) => c1.Finite ∧ c2.Finite | none => True) ∧
  (match p.nu with | some (nu, e) => nu.Finite ∧ e.Finite | none => True)
instance (p) : Decidable (InRange p) := by
  unfold InRange; rcases p.c with _ | ⟨_, _⟩ <;> rcases p.nu with _ | ⟨_, _⟩ <;> infer_instance
instance (p) : Decidable (Finite p) := by
  unfold Finite; rcases p.c with _ | ⟨_, _⟩ <;> rcases p.nu with _ | ⟨_, _⟩ <;> infer_instance
end Svm

namespace DecisionTree
/-- trees/hyperparams.rs: "Minimum impurity decrease should be greater than zero"; the guard compares with
the machine epsilon of the carrier (`F::epsilon()`: 2^-52 for f64, 2^-23 for f32; `epsQ`) as its notion of "numerically greater than
zero"; the setter doc is silent.  Range taken as `≥ ε` (ambiguity listed in the notes).  -- silent -/
def epsQ : Carrier → Rat
  | .f64 => 1 / 4503599627370496
  | .f32 => 1 / 8388608
def InRange (p : DecisionTree.Params) : Prop := p.min_impurity_decrease.Sat (fun q => epsQ p.carrier ≤ q)
def Finite (p : DecisionTree.Params) : Prop := p.min_impurity_decrease.Finite
instance (p) : Decidable (InRange p) := by unfold InRange; infer_instance
instance (p) : Decidable (Finite p) := by unfold Finite; infer_instance
end DecisionTree

namespace GaussianNb
/-- bayes/hyperparams.rs: var_smoothing "Specifies the portion of the largest variance … added" — negative
values give "invalid smoothing parameter": `≥ 0`. -/
def InRange (p : GaussianNb.Params) : Prop := nonneg p.var_smoothing
def Finite (p : GaussianNb.Params) : Prop := p.var_smoothing.Finite
instance (p) : Decidable (InRange p) := by unfold InRange; infer_instance
instance (p) : Decidable (Finite p) := by unfold Finite; infer_instance
end GaussianNb

namespace MultinomialNb
/-- bayes/hyperparams.rs: alpha "additive smoothing parameter (0 for no smoothing)": `≥ 0`. -/
def InRange (p : MultinomialNb.Params) : Prop := nonneg p.alpha
def Finite (p : MultinomialNb.Params) : Prop := p.alpha.Finite
instance (p) : Decidable (InRange p) := by unfold InRange; infer_instance
instance (p) : Decidable (Finite p) := by unfold Finite; infer_instance
end MultinomialNb

namespace Ftrl
/-- ftrl/error.rs: "l1 ratio should be in range [0, 1]", "l2 ratio should be in range [0, 1]", "alpha should
be positive and finite" (default 0.005; setter: "must be positive and finite"; variant tests `is_negative`),
"beta should be positive and finite" (default 0.0, hence `≥ 0`; alpha read the same way). -/
def InRange (p : Ftrl.Params) : Prop := unit01 p.l1_ratio ∧ unit01 p.l2_ratio ∧ nonneg p.alpha ∧ nonneg p.beta
def Finite (p : Ftrl.Params) : Prop := p.l1_ratio.Finite ∧ p.l2_ratio.Finite ∧ p.alpha.Finite ∧ p.beta.Finite
instance (p) : Decidable (InRange p) := by unfold InRange; infer_instance
instance (p) : Decidable (Finite p) := by unfold Finite; infer_instance
end Ftrl

namespace Pls
/-- pls/errors.rs: "tolerance should be positive" / InvalidTolerance for negative, NaN, infinite (`≥ 0`
finite), "The maximal number of iterations should be positive" (ZeroMaxIter). -/
def InRange (p : Pls.Params) : Prop := nonneg p.tolerance ∧ 1 ≤ p.max_iter
def Finite (p : Pls.Params) : Prop := p.tolerance.Finite
instance (p) : Decidable (InRange p) := by unfold InRange; infer_instance
instance (p) : Decidable (Finite p) := by unfold Finite; infer_instance
end Pls

namespace PlsMacro
/-- the macro-generated `PlsRegressionParams`, `PlsCanonicalParams`, `PlsCcaParams`: same texts as `Pls`. -/
def InRange (p : PlsMacro.Params) : Prop := nonneg p.tolerance ∧ 1 ≤ p.max_iter
def Finite (p : PlsMacro.Params) : Prop := p.tolerance.Finite
instance (p) : Decidable (InRange p) := by unfold InRange; infer_instance
instance (p) : Decidable (Finite p) := by unfold Finite; infer_instance
end PlsMacro

namespace TSne
/-- tsne/error.rs: "negative perplexity", "negative approximation threshold"; setter doc of the threshold:
"lies in range (0, inf) where a value of 0 disables approximation" — 0 is an allowed value: `≥ 0`. -/
def InRange (p : TSne.Params) : Prop := nonneg p.perplexity ∧ nonneg p.approx_threshold
def Finite (p : TSne.Params) : Prop := p.perplexity.Finite ∧ p.approx_threshold.Finite
instance (p) : Decidable (InRange p) := by unfold InRange; infer_instance
instance (p) : Decidable (Finite p) := by unfold Finite; infer_instance
end TSne

namespace FastIca
/-- ica/error.rs: "tolerance should be positive" — the guard rejects `< 0` only, default 1e-4: `≥ 0`. -/
def InRange (p : FastIca.Params) : Prop := nonneg p.tol
def Finite (p : FastIca.Params) : Prop := p.tol.Finite
instance (p) : Decidable (InRange p) := by unfold InRange; infer_instance
instance (p) : Decidable (Finite p) := by unfold Finite; infer_instance
end FastIca

namespace DiffusionMap
/-- reduction/error.rs: "Number of steps zero in diffusion map operator", embedding size 0 rejected
(EmbeddingTooSmall). -/
def InRange (p : DiffusionMap.Params) : Prop := 1 ≤ p.steps ∧ 1 ≤ p.embedding_size
def Finite (_p : DiffusionMap.Params) : Prop := True
instance (p) : Decidable (InRange p) := by unfold InRange; infer_instance
instance (p) : Decidable (Finite p) := by unfold Finite; infer_instance
end DiffusionMap

namespace RandomProjection
/-- reduction/error.rs: "Target dimension of the projection must be positive", "Precision parameter must be
in the interval (0; 1)". -/
def InRange (p : RandomProjection.Params) : Prop :=
  match p.params with
  | .Dimension d => 1 ≤ d
  | .Epsilon e => e.Sat (fun q => 0 < q ∧ q < 1)
def Finite (p : RandomProjection.Params) : Prop :=
  match p.params with
  | .Dimension _ => True
  | .Epsilon e => e.Finite
instance (p) : Decidable (InRange p) := by unfold InRange; cases p.params <;> infer_instance
instance (p) : Decidable (Finite p) := by unfold Finite; cases p.params <;> infer_instance
end RandomProjection

namespace Hierarchical
/-- hierarchical/lib.rs: stopping condition `NumClusters(n)`: "Stop when a certain number of clusters is
reached" — 0 invalid; `Distance(x)`: "Stop when the minimal distance exceeds x" — negative / NaN / infinite
invalid ("The stopping condition … is not valid"). -/
def InRange (p : Hierarchical.Params) : Prop :=
  match p.stopping with
  | .NumClusters n => 1 ≤ n
  | .Distance x => nonneg x
def Finite (p : Hierarchical.Params) : Prop :=
  match p.stopping with
  | .NumClusters _ => True
  | .Distance x => x.Finite
instance (p) : Decidable (InRange p) := by unfold InRange; cases p.stopping <;> infer_instance
instance (p) : Decidable (Finite p) := by unfold Finite; cases p.stopping <;> infer_instance
end Hierarchical

namespace CountVectorizer
/-- countgrams/hyperparams.rs:176 "`min_n` should not be greater than `max_n`", error "n_gram boundaries
cannot be zero"; :189 "`min_freq` and `max_freq` must lie in `0..=1` and `min_freq` should not be greater
than `max_freq`", error "document frequencies have to be between 0 and 1"; the split regex must compile
(external call, parameter `split_regex_ok`). -/
def InRange (p : CountVectorizer.Params) : Prop :=
  1 ≤ p.n_gram_range.1 ∧ 1 ≤ p.n_gram_range.2 ∧ p.n_gram_range.1 ≤ p.n_gram_range.2 ∧
  unit01 p.document_frequency.1 ∧ unit01 p.document_frequency.2 ∧
  p.document_frequency.1.Sat (fun a => p.document_frequency.2.Sat (fun b => a ≤ b)) ∧
  p.split_regex_ok = true
def Finite (p : CountVectorizer.Params) : Prop := p.document_frequency.1.Finite ∧ p.document_frequency.2.Finite
instance (p) : Decidable (InRange p) := by unfold InRange; infer_instance
instance (p) : Decidable (Finite p) := by unfold Finite; infer_instance
end CountVectorizer

/-! ### "Rebuild" setters: setters that construct a NEW parameter struct from `self`

Enumerated in the workspace (by-value setters whose result is not `Self`, struct literals copying `self.0.*`, wrappers
re-wrapping an inner builder): `GmmParams::with_rng`, `RandomProjectionParams::with_rng` (both change the RNG type and
copy every other field), and the seven setters of `TfIdfVectorizer` (`Self { count_vectorizer: self.count_vectorizer.f(..),
method: self.method }`).  Every other setter of the workspace is `mut self; self.0.<field> = v; self`; those that do not
assign a guarded field are the identity on the translated `Params` (which holds exactly the guarded fields).
The models below follow the struct literals field by field; `Props/C04` proves that they preserve every guarded field,
hence the outcome of the guard.  The tie to the code is the correspondence stream `rebuild=…` (the harness applies the
real setter after / before the value setters and reads the fields back). -/

/-- `GmmParams::with_rng`: `GmmParams(GmmValidParams { n_clusters: self.0.n_clusters, …, max_n_iter: self.0.max_n_iter, …, rng })` -/
def Gmm.withRng (p : Gen.C04.Gmm.Params) : Gen.C04.Gmm.Params :=
  { n_clusters := p.n_clusters, tolerance := p.tolerance, reg_covar := p.reg_covar, n_runs := p.n_runs, max_n_iter := p.max_n_iter }

/-- `RandomProjectionParams::with_rng`: `RandomProjectionValidParams { params: self.0.params, rng, marker }` -/
def RandomProjection.withRng (p : Gen.C04.RandomProjection.Params) : Gen.C04.RandomProjection.Params :=
  { params := p.params }

/-- a `TfIdfVectorizer` is an unchecked count-vectoriser builder next to a method; each of its setters rebuilds the
pair around the inner builder's setter: `Self { count_vectorizer: self.count_vectorizer.f(..), method: self.method }` -/
def tfidfSet {P M : Type} (f : P → P) (w : P × M) : P × M := (f w.1, w.2)

/-! ### the setters of `CountVectorizerParams` (countgrams/hyperparams.rs) and of the `TfIdfVectorizer` wrapper

Each setter of the builder is `mut self; self.0.<field> = v; self`.  Three assign a field the guard reads (`n_gram_range`,
`document_frequency`, and `tokenizer(Tokenizer::Regex(s))`, which replaces the expression `check_ref` compiles: the model
carries the outcome of that external call, `compiles`); the other four (`max_features`, `convert_to_lowercase`,
`normalize`, `stopwords`) assign fields no guard reads.  `cvDefault` is `CountVectorizerParams::default()` restricted to
the guarded fields.  The driver answers the requests `b=CountVectorizer sets=…` by running the call chain through `cvRun`
(plain builder) or `tfidfRun` (wrapper: every call goes through `tfidfSet`). -/

inductive CvSet where
  /-- `.n_gram_range(min_n, max_n)` -/
  | nGramRange (a b : Nat)
  /-- `.document_frequency(min_freq, max_freq)` -/
  | documentFrequency (lo hi : XF)
  /-- `.tokenizer(Tokenizer::Regex(s))`; `compiles` = whether `SerdeRegex::new(s)` succeeds -/
  | tokenizerRegex (compiles : Bool)
  /-- `.max_features(_)` -/
  | maxFeatures
  /-- `.convert_to_lowercase(_)` -/
  | convertToLowercase
  /-- `.normalize(_)` -/
  | normalize
  /-- `.stopwords(_)` -/
  | stopwords

/-- does the setter assign a field the guard reads? -/
def CvSet.isGuarded : CvSet → Bool
  | .nGramRange _ _ => true
  | .documentFrequency _ _ => true
  | .tokenizerRegex _ => true
  | _ => false

def CvSet.apply (p : Gen.C04.CountVectorizer.Params) : CvSet → Gen.C04.CountVectorizer.Params
  | .nGramRange a b => { p with n_gram_range := (a, b) }
  | .documentFrequency lo hi => { p with document_frequency := (lo, hi) }
  | .tokenizerRegex ok => { p with split_regex_ok := ok }
  | _ => p

/-- `CountVectorizerParams::default()`: `n_gram_range: (1, 1)`, `document_frequency: (0., 1.)`, the default expression
`\b\w\w+\b` compiles -/
def cvDefault : Gen.C04.CountVectorizer.Params :=
  { n_gram_range := (1, 1), document_frequency := (.fin 0, .fin 1), split_regex_ok := true }

/-- a call chain on `CountVectorizer::params()` -/
def cvRun (ops : List CvSet) : Gen.C04.CountVectorizer.Params := ops.foldl CvSet.apply cvDefault

/-- the same chain on `TfIdfVectorizer::default()`: every call rebuilds the wrapper around the inner builder's setter -/
def tfidfRun {M : Type} (m : M) (ops : List CvSet) : Gen.C04.CountVectorizer.Params × M :=
  ops.foldl (fun w s => tfidfSet (fun p => CvSet.apply p s) w) (cvDefault, m)

/-- one setter call `name[:args]` of a `sets=` request -/
def parseCvSet (s : String) : Option CvSet :=
  match s.splitOn ":" with
  | ["ng", args] => (pairOf LinfaSpec.Proto.parseNat args).map fun (a, b) => .nGramRange a b
  | ["df", args] => (pairOf parseXF args).map fun (a, b) => .documentFrequency a b
  | ["tok", "1"] => some (.tokenizerRegex true)
  | ["tok", "0"] => some (.tokenizerRegex false)
  | ["maxf"] => some .maxFeatures
  | ["lower"] => some .convertToLowercase
  | ["norm"] => some .normalize
  | ["stop"] => some .stopwords
  | _ => none

/-- `b=CountVectorizer sets=s1;s2;…` (driver entry point): the parameters the chain leaves in the builder — through the
wrapper when the entry point is one of `TfIdfVectorizer` (`wrapped`) -/
def cvOfChain (wrapped : Bool) (toks : List String) : Option Gen.C04.CountVectorizer.Params := do
  let ops ← (LinfaSpec.Proto.arg toks "sets").bind fun s => (LinfaSpec.Proto.splitOn' (if s = "-" then "" else s) ";").mapM parseCvSet
  pure (if wrapped then (tfidfRun () ops).1 else cvRun ops)

/-- the translated check of the builder after the named rebuild setter (driver entry point; `none`: unknown name).
Setters that do not assign a guarded field act as the identity on `Params`. -/
def checkRebuilt (name variant : String) (toks : List String) : Option (Except String Unit) :=
  let fam := (variant.splitOn ":").headD ""
  match name, fam with
  | "Gmm", "with_rng" => (Gen.C04.Gmm.parse toks).map fun p => Gen.C04.Gmm.check (Gmm.withRng p)
  | "RandomProjection", "with_rng" => (Gen.C04.RandomProjection.parse toks).map fun p => Gen.C04.RandomProjection.check (RandomProjection.withRng p)
  | _, "other" => Gen.C04.checkByName name toks
  | _, "rev" => Gen.C04.checkByName name toks
  | _, _ => none

/-- decidable range / finiteness by builder name (driver entry point): `(inRange, finite)` -/
def rangeByName (name : String) (toks : List String) : Option (Bool × Bool) :=
  match name with
  | "Platt" => (Gen.C04.Platt.parse toks).map fun p => (decide (Platt.InRange p), decide (Platt.Finite p))
  | "KMeans" => (Gen.C04.KMeans.parse toks).map fun p => (decide (KMeans.InRange p), decide (KMeans.Finite p))
  | "Dbscan" => (Gen.C04.Dbscan.parse toks).map fun p => (decide (Dbscan.InRange p), decide (Dbscan.Finite p))
  | "AppxDbscan" => (Gen.C04.AppxDbscan.parse toks).map fun p => (decide (AppxDbscan.InRange p), decide (AppxDbscan.Finite p))
  | "Optics" => (Gen.C04.Optics.parse toks).map fun p => (decide (Optics.InRange p), decide (Optics.Finite p))
  | "Gmm" => (Gen.C04.Gmm.parse toks).map fun p => (decide (Gmm.InRange p), decide (Gmm.Finite p))
  | "ElasticNet" => (Gen.C04.ElasticNet.parse toks).map fun p => (decide (ElasticNet.InRange p), decide (ElasticNet.Finite p))
  | "Logistic" => (Gen.C04.Logistic.parse toks).map fun p => (decide (Logistic.InRange p), decide (Logistic.Finite p))
  | "Tweedie" => (Gen.C04.Tweedie.parse toks).map fun p => (decide (Tweedie.InRange p), decide (Tweedie.Finite p))
  | "Svm" => (Gen.C04.Svm.parse toks).map fun p => (decide (Svm.InRange p), decide (Svm.Finite p))
  | "DecisionTree" => (Gen.C04.DecisionTree.parse toks).map fun p => (decide (DecisionTree.InRange p), decide (DecisionTree.Finite p))
  | "GaussianNb" => (Gen.C04.GaussianNb.parse toks).map fun p => (decide (GaussianNb.InRange p), decide (GaussianNb.Finite p))
  | "MultinomialNb" => (Gen.C04.MultinomialNb.parse toks).map fun p => (decide (MultinomialNb.InRange p), decide (MultinomialNb.Finite p))
  | "Ftrl" => (Gen.C04.Ftrl.parse toks).map fun p => (decide (Ftrl.InRange p), decide (Ftrl.Finite p))
  | "Pls" => (Gen.C04.Pls.parse toks).map fun p => (decide (Pls.InRange p), decide (Pls.Finite p))
  | "PlsMacro" => (Gen.C04.PlsMacro.parse toks).map fun p => (decide (PlsMacro.InRange p), decide (PlsMacro.Finite p))
  | "TSne" => (Gen.C04.TSne.parse toks).map fun p => (decide (TSne.InRange p), decide (TSne.Finite p))
  | "FastIca" => (Gen.C04.FastIca.parse toks).map fun p => (decide (FastIca.InRange p), decide (FastIca.Finite p))
  | "DiffusionMap" => (Gen.C04.DiffusionMap.parse toks).map fun p => (decide (DiffusionMap.InRange p), decide (DiffusionMap.Finite p))
  | "RandomProjection" => (Gen.C04.RandomProjection.parse toks).map fun p => (decide (RandomProjection.InRange p), decide (RandomProjection.Finite p))
  | "Hierarchical" => (Gen.C04.Hierarchical.parse toks).map fun p => (decide (Hierarchical.InRange p), decide (Hierarchical.Finite p))
  | "CountVectorizer" => (Gen.C04.CountVectorizer.parse toks).map fun p => (decide (CountVectorizer.InRange p), decide (CountVectorizer.Finite p))
  | _ => none

end LinfaSpec.Ranges
