/-
C14 — model of `linfa_trees::DecisionTree` fitting, pruning, prediction and feature
importances (algorithms/linfa-trees/src/decision_trees/algorithm.rs).  Core Lean only.

Two scalars, as in the Rust code: `α` is the feature type `F` (split values, impurity
decrease, importances), `β` is the `f32` in which class weights and impurities are computed;
`cast : β → α` is `F::cast`.  The theorems instantiate `α = β` = an ordered field, `cast = id`;
the driver runs `α = Float`, `β = Float32`.

Quirks of the code that the model keeps:
* the sweep walks the *global* presorted order of a feature and looks at the globally next
  value (which may belong to a row outside the node) for the equal-value skip `|Δ| < 1e-5`
  and for the midpoint threshold; the last sorted position is never moved;
* `min_weight_split` is compared with the *number* of rows of the node, `min_weight_leaf` with
  weights;
* the threshold is the midpoint to the globally next value, or the current value when the
  midpoint is not in `[value, next value)` (floating-point rounding onto the next value, overflow
  of the sum to an infinity; after `fix:` commits in linfa — before them the midpoint was used
  unconditionally and prediction routed `value < split`);
* the equal-value skip is `value == next || |value - next| < 1e-5` (`==` written `≤ ∧ ≥`, the same
  on floats incl. NaN; the first disjunct matters for equal infinite values, whose difference is
  NaN — a `fix:` commit in linfa);
* fitting and prediction both route `value <= split` to the left;
* `gini_impurity` / `entropy` `assert!` a positive total (reachable with `min_weight_leaf <= 0`);
* a node one of whose sides received no row is flagged `leaf_node` but keeps its other child
  (constructor `half`);
* `find_modal_class` folds over a hash map: the iteration order is a parameter (`ord`); since the
  `fix:` of C20 a tie is decided for the smaller label *in the order of the label type*, which is
  the parameter `lord` of the data (class indices listed in label order);
* `sorted_frequencies`: every sum over class weights (`total_weight`, both impurities) runs in the
  order of the label type (`inLabelOrder`), not in class-index order and not in hash order;
* `prune` merges sibling leaves with equal prediction, bottom-up;
* the accessors `iter_nodes` (level order), `num_leaves`, `max_depth()`, `features()` (first-met
  order of the level-order traversal).
-/
import LinfaSpec.Model.Scalar

namespace LinfaSpec.Tree
open LinfaSpec

/-- fitted tree.  `leaf`: `empty_leaf` or a pruned node.  `node`: split with both children.
`half`: `leaf_node = true` with exactly one child kept (`isLeft` tells which). -/
inductive Tree (α : Type) where
  | leaf (pred depth : Nat)
  | node (feat : Nat) (split dec : α) (pred depth : Nat) (l r : Tree α)
  | half (feat : Nat) (split dec : α) (pred depth : Nat) (isLeft : Bool) (c : Tree α)
  deriving Repr, BEq, DecidableEq, Inhabited

structure Params (α β : Type) where
  entropy : Bool
  maxDepth : Option Nat
  minSplit : β
  minLeaf : β
  minDec : α
  /-- the literal `1e-5` of the equal-value skip -/
  eps : α
  /-- `f32::log2` (external call) -/
  log2 : β → β
  /-- `F::cast` on an `f32` -/
  cast : β → α

structure Data (α β : Type) where
  /-- records, row-major -/
  xs : List (List α)
  /-- class index of each row -/
  ys : List Nat
  /-- sample weights; `[]` = none given (`weight_for` then returns 1) -/
  ws : List β
  /-- number of classes (class indices are `< K`) -/
  K : Nat
  /-- the class indices `0..K-1` listed in the order of the label type `L` (its `Ord`): the order of
  `sorted_frequencies` and of the tie-break of `find_modal_class` -/
  lord : List Nat

section
variable {α β : Type}
variable [Add α] [Sub α] [Div α] [Neg α] [LT α] [DecidableLT α] [LE α] [DecidableLE α]
  [OfNat α 0] [NatCast α]
variable [Add β] [Sub β] [Mul β] [Div β] [Neg β] [LT β] [DecidableLT β]
  [OfNat β 0] [OfNat β 1] [NatCast β]

def Data.n (D : Data α β) : Nat := D.xs.length
def Data.x (D : Data α β) (i f : Nat) : α := (D.xs.getD i []).getD f 0
def Data.y (D : Data α β) (i : Nat) : Nat := D.ys.getD i 0
/-- `DatasetBase::weight_for` -/
def Data.w (D : Data α β) (i : Nat) : β := D.ws.getD i 1

/-! ### SortedIndex -/

/-- stable insertion by value (what `sort_by(partial_cmp)` — a stable sort — yields) -/
def insSorted (x : Nat × α) : List (Nat × α) → List (Nat × α)
  | [] => [x]
  | y :: ys => if x.2 < y.2 then x :: y :: ys else y :: insSorted x ys

def sortPairs (l : List (Nat × α)) : List (Nat × α) :=
  l.foldl (fun acc x => insSorted x acc) []

/-- `SortedIndex::of_array_column` -/
def sortedIndex (D : Data α β) (f : Nat) : List (Nat × α) :=
  sortPairs ((List.range D.n).map fun i => (i, D.x i f))

/-! ### class frequencies, impurities, modal class -/

/-- rows of the node (`RowMask`) in index order -/
def rowsOf (mask : List Bool) : List Nat :=
  (List.range mask.length).filter fun i => mask.getD i false

/-- weight of class `c` among `rows`, accumulated in row order -/
def classWeight (D : Data α β) (rows : List Nat) (c : Nat) : β :=
  sumS ((rows.filter fun i => D.y i == c).map D.w)

/-- `label_frequencies_with_mask`, dense over the class indices (absent classes carry 0) -/
def freqOf (D : Data α β) (rows : List Nat) : List β :=
  (List.range D.K).map (classWeight D rows)

/-- keys of the hash map: classes that occur among `rows` -/
def presentClasses (D : Data α β) (rows : List Nat) : List Nat :=
  (List.range D.K).filter fun c => rows.any fun i => D.y i == c

/-- position of class `c` in the order of the label type -/
def Data.rank (D : Data α β) (c : Nat) : Nat := D.lord.idxOf c

/-- `sorted_frequencies`: the class weights (dense over class indices) listed in label order.
(The Rust vector lists only the keys of the map; the classes absent from it carry `0` here, and
adding `0`, `0/n`, `0*0` changes no partial sum.) -/
def inLabelOrder (D : Data α β) (fs : List β) : List β := D.lord.map fun c => fs.getD c 0

/-- `find_modal_class`: fold over the map in iteration order `order`; the running best `b` is kept
iff `best_freq > freq || (best_freq == freq && best_idx < idx)` (`rank` = order of the label
type; `==` on weights written with `<` only, the same away from NaN). -/
def modalOf (freq : Nat → β) (rank : Nat → Nat) (order : List Nat) : Option Nat :=
  order.foldl (fun acc c => match acc with
    | none => some c
    | some b =>
      if freq c < freq b ∨ ((¬ freq b < freq c ∧ ¬ freq c < freq b) ∧ rank b < rank c) then some b
      else some c) none

/-- `assert!(n_samples > 0.0)` of both impurity functions -/
def impOk (fs : List β) : Bool := decide ((0 : β) < sumS fs)

def gini (fs : List β) : β :=
  let n := sumS fs
  1 - sumS ((fs.map fun x => x / n).map fun x => x * x)

def entropyOf (log2 : β → β) (fs : List β) : β :=
  let n := sumS fs
  sumS ((fs.map fun x => x / n).map fun x => if 0 < x then (-x) * log2 x else 0)

def impurity (P : Params α β) (fs : List β) : β :=
  if P.entropy then entropyOf P.log2 fs else gini fs

/-! ### the sweep over one feature -/

/-- a split evaluated by the sweep, with the loop's locals at that moment -/
structure Cand (α β : Type) where
  feat : Nat
  split : α
  score : β
  wL : β
  wR : β
  fL : List β
  fR : List β
  /-- both impurity asserts passed -/
  ok : Bool

def addAt (l : List β) (c : Nat) (w : β) : List β := l.modify c (· + w)
def subAt (l : List β) (c : Nat) (w : β) : List β := l.modify c (· - w)

/-- body of `for i in 0..mask.len() - 1` for feature `f`; the list is the not yet visited part
of `sorted_values`, whose head is position `i` and whose second element is position `i+1`. -/
def sweepGo (P : Params α β) (D : Data α β) (mask : List Bool) (f : Nat) (total : β) :
    List β → List β → β → β → List (Nat × α) → List (Cand α β)
  | fL, fR, wL, wR, (i, v) :: (j, v') :: rest =>
    if mask.getD i false then
      let c := D.y i
      let w := D.w i
      let fR' := subAt fR c w
      let wR' := wR - w
      let fL' := addAt fL c w
      let wL' := wL + w
      if (v ≤ v' ∧ v' ≤ v) ∨ absS (v - v') < P.eps then
        sweepGo P D mask f total fL' fR' wL' wR' ((j, v') :: rest)
      else if wR' < P.minLeaf ∨ wL' < P.minLeaf then
        sweepGo P D mask f total fL' fR' wL' wR' ((j, v') :: rest)
      else
        let wq := wR' / total
        let score := wq * impurity P (inLabelOrder D fR') + (1 - wq) * impurity P (inLabelOrder D fL')
        let mid := (v + v') / ((2 : Nat) : α)
        { feat := f, split := (if v ≤ mid ∧ mid < v' then mid else v), score := score, wL := wL', wR := wR',
          fL := fL', fR := fR', ok := impOk (inLabelOrder D fR') && impOk (inLabelOrder D fL') } ::
          sweepGo P D mask f total fL' fR' wL' wR' ((j, v') :: rest)
    else
      sweepGo P D mask f total fL fR wL wR ((j, v') :: rest)
  | _, _, _, _, _ => []

/-- all evaluated splits of a node in evaluation order (features outer, positions inner) -/
def candidates (P : Params α β) (D : Data α β) (sorted : List (List (Nat × α)))
    (mask : List Bool) (pf : List β) : List (Cand α β) :=
  let total := sumS (inLabelOrder D pf)
  (sorted.zipIdx).flatMap fun (s, f) =>
    sweepGo P D mask f total (pf.map fun _ => 0) pf 0 total s

/-- `best`: replaced only by a strictly smaller score -/
def pickBest (cs : List (Cand α β)) : Option (Cand α β) :=
  cs.foldl (fun best c => match best with
    | none => some c
    | some b => if c.score < b.score then some c else some b) none

/-! ### recursive fit -/

def leftMask (D : Data α β) (mask : List Bool) (f : Nat) (s : α) : List Bool :=
  (mask.zipIdx).map fun (m, i) => m && decide (D.x i f ≤ s)

def rightMask (D : Data α β) (mask : List Bool) (f : Nat) (s : α) : List Bool :=
  (mask.zipIdx).map fun (m, i) => m && !decide (D.x i f ≤ s)

/-- the early return of `fit`: too few rows (`nsamples as f32 < min_weight_split`) or depth reached -/
def stopGuard (P : Params α β) (nrows depth : Nat) : Bool :=
  decide ((nrows : β) < P.minSplit) ||
    (match P.maxDepth with | some d => decide (d ≤ depth) | none => false)

/-- `impurity_decrease` of the best split (`0` when there is none) -/
def decOf (P : Params α β) (D : Data α β) (pf : List β) : Option (Cand α β) → α
  | some b => P.cast (impurity P (inLabelOrder D pf)) - P.cast b.score
  | none => 0

/-- `TreeNode::fit`.  `none` = the call does not return (an `assert!`/`unwrap` fires, or the
recursion does not terminate: fuel exhausted).  `ord` is the hash map's iteration order. -/
def fitNode (P : Params α β) (D : Data α β) (ord : List Nat → List Nat)
    (sorted : List (List (Nat × α))) : Nat → List Bool → Nat → Option (Tree α)
  | 0, _, _ => none
  | fuel + 1, mask, depth =>
    let rows := rowsOf mask
    let pf := freqOf D rows
    match modalOf (classWeight D rows) D.rank (ord (presentClasses D rows)) with
    | none => none
    | some pred =>
      if stopGuard P rows.length depth then some (.leaf pred depth)
      else
        let cands := candidates P D sorted mask pf
        if cands.any (fun c => !c.ok) then none
        else
          let best := pickBest cands
          let dec : α := decOf P D pf best
          if dec < P.minDec then some (.leaf pred depth)
          else match best with
            | none => none
            | some b =>
              let lm := leftMask D mask b.feat b.split
              let rm := rightMask D mask b.feat b.split
              match (rowsOf lm).isEmpty, (rowsOf rm).isEmpty with
              | false, false =>
                match fitNode P D ord sorted fuel lm (depth + 1) with
                | none => none
                | some l =>
                  match fitNode P D ord sorted fuel rm (depth + 1) with
                  | none => none
                  | some r => some (.node b.feat b.split dec pred depth l r)
              | false, true =>
                match fitNode P D ord sorted fuel lm (depth + 1) with
                | none => none
                | some l => some (.half b.feat b.split dec pred depth true l)
              | true, false =>
                match fitNode P D ord sorted fuel rm (depth + 1) with
                | none => none
                | some r => some (.half b.feat b.split dec pred depth false r)
              | true, true => some (.leaf pred depth)

/-- `TreeNode::prune`: the pruned node and the returned `Option<L>` -/
def prune : Tree α → Tree α × Option Nat
  | .leaf p d => (.leaf p d, some p)
  | .half f s dec p d il c => (.half f s dec p d il c, some p)
  | .node f s dec p d l r =>
    let pl := prune l
    let pr := prune r
    match pl.2, pr.2 with
    | some x, some y =>
      if x = y then (.leaf x d, some x) else (.node f s dec p d pl.1 pr.1, none)
    | _, _ => (.node f s dec p d pl.1 pr.1, none)

def allMask (D : Data α β) : List Bool := (List.range D.n).map fun _ => true

def sortedAll (D : Data α β) (p : Nat) : List (List (Nat × α)) :=
  (List.range p).map (sortedIndex D)

/-- recursion budget of `fit`: `n + 1` levels are enough whenever every split sends rows to both
sides (each level loses a row); `max_depth + 1` levels are enough in any case (the depth guard).
Only when neither bounds the recursion (`max_depth = None` and a split with an empty side, which
needs `min_weight_leaf <= 0`) does the budget run out — the Rust recursion then does not end. -/
def fitFuel (P : Params α β) (D : Data α β) : Nat := D.n + 1 + P.maxDepth.getD 0

/-- `Fit::fit`: presort every column, fit the root on all rows, prune.  `p` = number of
columns. -/
def fit (P : Params α β) (D : Data α β) (ord : List Nat → List Nat) (p : Nat) : Option (Tree α) :=
  match fitNode P D ord (sortedAll D p) (fitFuel P D) (allMask D) 0 with
  | none => none
  | some t => some (prune t).1

/-! ### prediction -/

/-- `make_prediction` -/
def predict (row : List α) : Tree α → Nat
  | .leaf p _ => p
  | .half _ _ _ p _ _ _ => p
  | .node f s _ _ _ l r => if row.getD f 0 ≤ s then predict row l else predict row r

/-- the fit-time route of a row (`<=`), as the list of turns (true = left) -/
def routeFit (row : List α) : Tree α → List Bool
  | .node f s _ _ _ l r => if row.getD f 0 ≤ s then true :: routeFit row l else false :: routeFit row r
  | _ => []

/-- the predict-time route of a row: the comparisons `make_prediction` makes -/
def routePredict (row : List α) : Tree α → List Bool
  | .node f s _ _ _ l r => if row.getD f 0 ≤ s then true :: routePredict row l else false :: routePredict row r
  | _ => []

/-! ### feature importances -/

def Tree.children : Tree α → List (Tree α)
  | .leaf _ _ => []
  | .node _ _ _ _ _ l r => [l, r]
  | .half _ _ _ _ _ _ c => [c]

def Tree.size : Tree α → Nat
  | .leaf _ _ => 1
  | .node _ _ _ _ _ l r => 1 + l.size + r.size
  | .half _ _ _ _ _ _ c => 1 + c.size

/-- `NodeIter`: level order -/
def bfs : Nat → List (Tree α) → List (Tree α)
  | 0, _ => []
  | _, [] => []
  | fuel + 1, t :: q => t :: bfs fuel (q ++ t.children)

def iterNodes (t : Tree α) : List (Tree α) := bfs t.size [t]

/-- `(feature, impurity_decrease)` of the nodes with `leaf_node = false`, in level order -/
def splitDecs (t : Tree α) : List (Nat × α) :=
  (iterNodes t).filterMap fun
    | .node f _ dec _ _ _ _ => some (f, dec)
    | _ => none

/-- `mean_impurity_decrease` -/
def meanDecrease (t : Tree α) (p : Nat) : List α :=
  (List.range p).map fun f =>
    let ds := ((splitDecs t).filter fun fd => fd.1 == f).map (·.2)
    if ds.length = 0 then 0 else sumS ds / ((ds.length : Nat) : α)

/-- `feature_importance` = `relative_impurity_decrease` -/
def importances (t : Tree α) (p : Nat) : List α :=
  let m := meanDecrease t p
  let s := sumS m
  m.map fun x => x / s

/-! ### accessors of `DecisionTree` -/

/-- `TreeNode::is_leaf` (the `leaf_node` flag) -/
def Tree.isLeafFlag : Tree α → Bool
  | .node _ _ _ _ _ _ _ => false
  | _ => true

/-- `TreeNode::depth` -/
def Tree.depthField : Tree α → Nat
  | .leaf _ d => d
  | .node _ _ _ _ d _ _ => d
  | .half _ _ _ _ d _ _ => d

/-- `DecisionTree::num_leaves`: `iter_nodes().filter(is_leaf).count()` -/
def numLeaves (t : Tree α) : Nat := ((iterNodes t).filter Tree.isLeafFlag).length

/-- `DecisionTree::max_depth`: `iter_nodes().fold(0, max(depth))` -/
def maxDepthOf (t : Tree α) : Nat := (iterNodes t).foldl (fun m n => Nat.max m n.depthField) 0

/-- the loop of `DecisionTree::features`: push a feature index the first time it is met
(`if seen.insert(f) { fitted_features.push(f) }`) -/
def firstOcc (l : List Nat) : List Nat :=
  l.foldl (fun acc f => if acc.contains f then acc else acc ++ [f]) []

/-- `DecisionTree::features`: the feature indexes of the split nodes in the order the level-order
traversal meets them first -/
def featuresOf (t : Tree α) : List Nat := firstOcc ((splitDecs t).map (·.1))

end
end LinfaSpec.Tree
