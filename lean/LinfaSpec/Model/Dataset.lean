/-
C02 — model of the sample/column operations of `DatasetBase`
(src/dataset/impl_dataset.rs, impl_targets.rs, iter.rs).  Core Lean only.

A dataset is the five parallel containers of the Rust struct, kept *parallel*
(not zipped), because the property is precisely that every operation slices /
permutes / filters them consistently:

  records : n × p matrix      → `recs  : List (List R)` (rows) and `p` (`raw_dim()[1]`)
  targets : n or n × t array  → `tgts  : List (List T)` (rows; singleton rows for `Ix1`), `t`, `ix1`
  weights : Array1<f32>       → `weights : List W`, empty = `weights()` is `None`
  feature_names, target_names → `fnames`, `tnames`
  CountedTargets.labels       → `counts : Option …` (`none` = plain array targets)

External crates are modelled by contract: ndarray `select` (`selRows`/`selCols`,
panics when an index is out of range), `split_at`, `from_shape_vec` (`reshape`),
`collapse_axis`, `slice_axis_inplace`; `rand` is a parameter (the index vectors).
`none` = the call panics.
-/
namespace LinfaSpec.Dataset

structure DS (R T W : Type) where
  p : Nat
  t : Nat
  ix1 : Bool
  recs : List (List R)
  tgts : List (List T)
  weights : List W
  fnames : List String
  tnames : List String
  counts : Option (List (List (T × Nat)))

variable {R T W : Type}

def DS.n (ds : DS R T W) : Nat := ds.recs.length

/-! ### contracts of the ndarray primitives -/

/-- `select(Axis(0), idx)` on a container of rows -/
def selRows {α} (idx : List Nat) (xs : List α) : Option (List α) := idx.mapM (xs[·]?)

/-- `select(Axis(1), cols)` -/
def selCols {α} (cols : List Nat) (rows : List (List α)) : Option (List (List α)) :=
  rows.mapM (selRows cols)

/-- `Array::from_shape_vec((n, p), buf)` read back row by row -/
def reshape {α} (n p : Nat) (buf : List α) : List (List α) :=
  (List.range n).map fun i => (buf.drop (i * p)).take p

/-- `collapse_axis(Axis(1), j)`: width-1 matrix holding column `j` -/
def colOf {α} (j : Nat) (rows : List (List α)) : Option (List (List α)) := selCols [j] rows

/-! ### label counting (`Labels::label_count`, first-occurrence order; the driver sorts) -/

def bump [DecidableEq T] (m : List (T × Nat)) (x : T) : List (T × Nat) :=
  match m with
  | [] => [(x, 1)]
  | (y, c) :: rest => if y = x then (y, c + 1) :: rest else (y, c) :: bump rest x

def countCol [DecidableEq T] (col : List T) : List (T × Nat) := col.foldl bump []

/-- column `c` of a row container (rows too short contribute nothing) -/
def column {α} (c : Nat) (rows : List (List α)) : List α := rows.filterMap (·[c]?)

/-- `ArrayBase::label_count`: one map per column (`columns()`; a 1-D array is one lane) -/
def labelCount [DecidableEq T] (t : Nat) (rows : List (List T)) : List (List (T × Nat)) :=
  (List.range t).map fun c => countCol (column c rows)

/-- `T::new_targets` / `new_targets_view`: plain arrays stay plain, `CountedTargets` recount -/
def recount [DecidableEq T] (counted : Bool) (t : Nat) (rows : List (List T)) :
    Option (List (List (T × Nat))) :=
  if counted then some (labelCount t rows) else none

def DS.counted (ds : DS R T W) : Bool := ds.counts.isSome

/-! ### ceil(n as f32 * ratio) as usize -/

/-- the split point, computed in single precision as the Rust code does;
`as usize` saturates (NaN and negatives give 0) like `Float32.toUInt64` -/
def ceilRatio (n : Nat) (ratio : Float32) : Nat :=
  (Float32.ceil (Float32.ofNat n * ratio)).toUInt64.toNat

/-! ### the operations -/

/-- `split_with_ratio` on a view (`split_at`), split point `n1` -/
def splitView [DecidableEq T] (n1 : Nat) (ds : DS R T W) : Option (DS R T W × DS R T W) :=
  if ds.n < n1 then none
  else
    let (w1, w2) := if ds.weights.length = ds.n then (ds.weights.take n1, ds.weights.drop n1) else ([], [])
    let t1 := ds.tgts.take n1
    let t2 := ds.tgts.drop n1
    some ({ ds with recs := ds.recs.take n1, tgts := t1, weights := w1, counts := recount ds.counted ds.t t1 },
          { ds with recs := ds.recs.drop n1, tgts := t2, weights := w2, counts := recount ds.counted ds.t t2 })

/-- `split_with_ratio` on owned data: the raw row-major buffers are cut with
`split_off(n1 * p)` resp. `split_off(n1 * t)` and re-shaped; weights are cut only
when there is one per sample, otherwise the first part keeps them all.
`std` = both `is_standard_layout()` asserts hold (the documented panic otherwise).
The buffers are the arrays' own elements in logical order (`into_iter().collect()`),
also for an array that is a slice of a larger allocation.
Only plain array targets have this method. -/
def splitOwned (std : Bool) (n1 : Nat) (ds : DS R T W) : Option (DS R T W × DS R T W) :=
  if std = false then none
  else if ds.n < n1 then none
  else
    let n2 := ds.n - n1
    let rb := ds.recs.flatten
    let tb := ds.tgts.flatten
    let (w1, w2) := if ds.weights.length = n1 + n2 then (ds.weights.take n1, ds.weights.drop n1) else (ds.weights, [])
    some ({ ds with recs := reshape n1 ds.p (rb.take (n1 * ds.p)), tgts := reshape n1 ds.t (tb.take (n1 * ds.t)), weights := w1 },
          { ds with recs := reshape n2 ds.p (rb.drop (n1 * ds.p)), tgts := reshape n2 ds.t (tb.drop (n1 * ds.t)), weights := w2 })

/-- `shuffle`: `select` records and targets with the shuffled index vector;
names are kept, weights are not carried -/
def shuffle [DecidableEq T] (idx : List Nat) (ds : DS R T W) : Option (DS R T W) :=
  match selRows idx ds.recs, selRows idx ds.tgts with
  | some r, some g => some { ds with recs := r, tgts := g, weights := [], counts := recount ds.counted ds.t g }
  | _, _ => none

/-- `bootstrap_samples(ns)`: `gen_range(0..n)` panics on an empty range; nothing but
records and targets is carried -/
def bootstrapSamples [DecidableEq T] (ns : Nat) (idx : List Nat) (ds : DS R T W) : Option (DS R T W) :=
  if 0 < ns ∧ ds.n = 0 then none
  else match selRows idx ds.recs, selRows idx ds.tgts with
    | some r, some g =>
      some { ds with recs := r, tgts := g, weights := [], fnames := [], tnames := [], counts := recount ds.counted ds.t g }
    | _, _ => none

/-- `bootstrap_features(nf)` -/
def bootstrapFeatures [DecidableEq T] (nf : Nat) (fidx : List Nat) (ds : DS R T W) : Option (DS R T W) :=
  if 0 < nf ∧ ds.p = 0 then none
  else match selCols fidx ds.recs with
    | some r =>
      some { ds with p := fidx.length, recs := r, weights := [], fnames := [], tnames := [],
                     counts := recount ds.counted ds.t ds.tgts }
    | none => none

/-- `bootstrap((ns, nf))`: rows first, then columns of the selected rows -/
def bootstrap [DecidableEq T] (ns nf : Nat) (idx fidx : List Nat) (ds : DS R T W) : Option (DS R T W) :=
  match bootstrapSamples ns idx ds with
  | none => none
  | some d => bootstrapFeatures nf fidx d

/-- the row filter of `with_labels`: kept positions, in order -/
def keptIdx [DecidableEq T] (labs : List T) (tgts : List (List T)) : List Nat :=
  (List.range tgts.length).filter fun i => (tgts.getD i []).any (labs.contains ·)

/-- `with_labels(labs)`: keeps the samples one of whose targets is listed, rebuilds
records, targets, weights (`weight[i]` panics when there are fewer weights than
samples) and the label counts; names are cloned -/
def withLabels [DecidableEq T] (labs : List T) (ds : DS R T W) : Option (DS R T W) :=
  -- `records().rows().zip(targets.axis_iter(Axis(0)))`
  let k := keptIdx labs (ds.tgts.take ds.n)
  match selRows k ds.recs, selRows k ds.tgts,
        (if ds.weights.isEmpty then some [] else selRows k ds.weights) with
  | some r, some g, some w =>
    some { ds with recs := r, tgts := g, weights := w, counts := some (labelCount ds.t g) }
  | _, _, _ => none

/-- distinct labels of a dataset, as `one_vs_all` collects them: it scans
`as_single_targets().iter()` and keeps a label the first time it is seen
(`if !labels.contains(label) { labels.push(..) }`), so the order is that of first
appearance and a cached label count is not consulted -/
def labelsOf [DecidableEq T] (ds : DS R T W) : List T := ds.tgts.flatten.eraseDups

/-- `one_vs_all` (single-target datasets): one binary dataset per distinct label -/
def oneVsAll [DecidableEq T] (ds : DS R T W) : List (T × DS R Bool W) :=
  (labelsOf ds).map fun l =>
    let g := ds.tgts.map fun row => row.map fun x => decide (x = l)
    (l, { p := ds.p, t := ds.t, ix1 := ds.ix1, recs := ds.recs, tgts := g, weights := ds.weights,
          fnames := ds.fnames, tnames := ds.tnames, counts := some (labelCount ds.t g) })

/-- `map_targets(f)`: plain array result, everything else moved over -/
def mapTargets {S} (f : T → S) (ds : DS R T W) : DS R S W :=
  { p := ds.p, t := ds.t, ix1 := ds.ix1, recs := ds.recs, tgts := ds.tgts.map (·.map f),
    weights := ds.weights, fnames := ds.fnames, tnames := ds.tnames, counts := none }

/-- `view()` -/
def view [DecidableEq T] (ds : DS R T W) : DS R T W :=
  { ds with counts := recount ds.counted ds.t ds.tgts }

/-- `to_owned()`: records and targets only -/
def toOwned [DecidableEq T] (ds : DS R T W) : DS R T W :=
  { ds with weights := [], fnames := [], tnames := [], counts := recount ds.counted ds.t ds.tgts }

/-- `into_single_target()`: `into_shape(n).unwrap()` succeeds iff the buffer has `n` cells -/
def intoSingleTarget (ds : DS R T W) : Option (DS R T W) :=
  let flat := ds.tgts.flatten
  if flat.length = ds.n then
    some { ds with t := 1, ix1 := true, tgts := flat.map ([·]), weights := [], fnames := [], tnames := [], counts := none }
  else none

/-- `sample_iter()`: the pairs it yields (`index_axis_move` panics when targets run out) -/
def sampleIter (ds : DS R T W) : Option (List (List R × List T)) :=
  (List.range ds.n).mapM fun i => match ds.recs[i]?, ds.tgts[i]? with
    | some r, some g => some (r, g)
    | _, _ => none

/-- `feature_iter()`: view `j` has the single record column `j`; the feature name is
kept only when the name list has the collapsed width (1) -/
def featureIter (ds : DS R T W) : Option (List (DS R T W)) :=
  (List.range ds.p).mapM fun j =>
    match colOf j ds.recs, (if ds.fnames.length = 1 then (ds.fnames[j]?).map ([·]) else some []) with
    | some r, some fnm => some { ds with p := 1, recs := r, fnames := fnm, counts := none }
    | _, _ => none

/-- `target_iter()`: view `c` has the single target column `c` (`collapse_axis`, the
array stays two-dimensional); a one-dimensional target array is its own single
column (`t = 1`, rows are singletons, so `colOf 0` is the identity on it) -/
def targetIter (ds : DS R T W) : Option (List (DS R T W)) :=
  (List.range ds.t).mapM fun c =>
    match colOf c ds.tgts, (if ds.tnames.isEmpty then some [] else (ds.tnames[c]?).map ([·])) with
    | some g, some tnm => some { ds with t := 1, tgts := g, tnames := tnm, counts := none }
    | _, _ => none

/-- `sample_chunks(size)`: `n / size` full chunks (division by zero panics), no
weights, no names -/
def sampleChunks [DecidableEq T] (size : Nat) (ds : DS R T W) : Option (List (DS R T W)) :=
  if size = 0 then none
  else some <| (List.range (ds.n / size)).map fun i =>
    let g := (ds.tgts.drop (i * size)).take size
    { ds with recs := (ds.recs.drop (i * size)).take size, tgts := g, weights := [], fnames := [], tnames := [],
              counts := recount ds.counted ds.t g }

/-! ### accessors that pair a sample with its weight -/

/-- `weight_for(i)`: the weight stored for sample `i`, `1.0` (`one`) when there is none -/
def weightFor (one : W) (ds : DS R T W) (i : Nat) : W := (ds.weights[i]?).getD one

/-- `if !freqs.contains_key(elm) { freqs.insert(elm, 0.0) }; *freqs.get_mut(elm) += val`
(first-occurrence order; the driver sorts) -/
def addFreq [DecidableEq T] [Add W] (zero : W) (m : List (T × W)) (x : T) (w : W) : List (T × W) :=
  match m with
  | [] => [(x, zero + w)]
  | (y, c) :: rest => if y = x then (y, c + w) :: rest else (y, c) :: addFreq zero rest x w

/-- `axis_iter(Axis(0)).enumerate().filter(mask.get(i).unwrap_or(true)).map((i, x) => (x, weight_for(i)))`:
the target rows whose *position* passes the mask, each with the weight of that position -/
def maskedRows (one : W) (mask : List Bool) (ds : DS R T W) : List (List T × W) :=
  ((List.range ds.tgts.length).filter fun i => mask.getD i true).filterMap fun i =>
    (ds.tgts[i]?).map fun g => (g, weightFor one ds i)

/-- accumulation of `label_frequencies_with_mask` over rows already paired with a weight -/
def accFreqs [DecidableEq T] [Add W] (zero : W) (rows : List (List T × W)) : List (T × W) :=
  rows.foldl (fun m gw => gw.1.foldl (fun m x => addFreq zero m x gw.2) m) []

/-- `label_frequencies_with_mask(mask)`; `label_frequencies()` is the empty mask -/
def labelFreqsWithMask [DecidableEq T] [Add W] (zero one : W) (mask : List Bool) (ds : DS R T W) : List (T × W) :=
  accFreqs zero (maskedRows one mask ds)

/-! ### operation sequences (single label carrier `T`, `ofBool` embeds one-vs-all targets) -/

inductive Op (T : Type) where
  | splitView (n1 : Nat)
  | splitOwned (std : Bool) (n1 : Nat)
  | shuffle (idx : List Nat)
  | bootstrap (ns nf : Nat) (idx fidx : List Nat)
  | bootstrapSamples (ns : Nat) (idx : List Nat)
  | bootstrapFeatures (nf : Nat) (fidx : List Nat)
  | withLabels (labs : List T)
  | oneVsAll
  | mapTargets (f : T → T)
  | view
  | toOwned
  | intoSingleTarget
  | featureIter
  | targetIter
  | sampleChunks (size : Nat)

/-- all datasets an operation returns, in the order the Rust API yields them
(`one_vs_all` in the order of `labelsOf`) -/
def apply [DecidableEq T] (ofBool : Bool → T) (op : Op T) (ds : DS R T W) : Option (List (DS R T W)) :=
  match op with
  | .splitView n1 => (splitView n1 ds).map fun (a, b) => [a, b]
  | .splitOwned std n1 => if ds.counted then none else (splitOwned std n1 ds).map fun (a, b) => [a, b]
  | .shuffle idx => (shuffle idx ds).map ([·])
  | .bootstrap ns nf idx fidx => (bootstrap ns nf idx fidx ds).map ([·])
  | .bootstrapSamples ns idx => (bootstrapSamples ns idx ds).map ([·])
  | .bootstrapFeatures nf fidx => (bootstrapFeatures nf fidx ds).map ([·])
  | .withLabels labs => (withLabels labs ds).map ([·])
  | .oneVsAll => some ((oneVsAll ds).map fun (_, d) =>
      { mapTargets ofBool d with counts := some (labelCount d.t ((mapTargets ofBool d).tgts)) })
  | .mapTargets f => some [mapTargets f ds]
  | .view => some [view ds]
  | .toOwned => some [toOwned ds]
  | .intoSingleTarget => (intoSingleTarget ds).map ([·])
  | .featureIter => featureIter ds
  | .targetIter => targetIter ds
  | .sampleChunks size => sampleChunks size ds

/-- a history: each step applies an operation and continues with the `pick`-th
dataset it returned -/
def runSeq [DecidableEq T] (ofBool : Bool → T) : List (Op T × Nat) → DS R T W → Option (DS R T W)
  | [], ds => some ds
  | (op, k) :: rest, ds =>
    match apply ofBool op ds with
    | none => none
    | some outs => match outs[k]? with
      | none => none
      | some d => runSeq ofBool rest d

/-! ### the guard, as the driver evaluates it -/

def inRangeB (idx : List Nat) (n : Nat) : Bool := idx.all (· < n)

/-- Boolean form of `Guard` (Proofs/Dataset.lean; `guardB_iff` in Props/C02.lean): the requests
for which the property promises a result.  The driver answers `unpromised` exactly when this
is `false` (or the request's ratio lies outside `[0, 1]`, which an `Op` no longer shows). -/
def guardB (op : Op T) (ds : DS R T W) : Bool :=
  match op with
  | .splitView n1 => decide (n1 ≤ ds.n)
  | .splitOwned std n1 => std && ds.counts.isNone && decide (n1 ≤ ds.n)
  | .shuffle idx => inRangeB idx ds.n
  | .bootstrap ns nf idx fidx =>
    (ns == 0 || decide (0 < ds.n)) && (nf == 0 || decide (0 < ds.p)) && inRangeB idx ds.n && inRangeB fidx ds.p
  | .bootstrapSamples ns idx => (ns == 0 || decide (0 < ds.n)) && inRangeB idx ds.n
  | .bootstrapFeatures nf fidx => (nf == 0 || decide (0 < ds.p)) && inRangeB fidx ds.p
  | .intoSingleTarget => ds.t == 1
  | .sampleChunks size => decide (0 < size)
  | .withLabels _ => ds.weights.length == 0 || decide (ds.n ≤ ds.weights.length)
  | _ => true

/-- the datasets of every step of a history (what the driver prints), next to where it ends:
the same recursion as `runSeq` with the intermediate results kept (`runTrace_final` in Props/C02.lean) -/
def runTrace [DecidableEq T] (ofBool : Bool → T) : List (Op T × Nat) → DS R T W → List (List (DS R T W)) × Option (DS R T W)
  | [], ds => ([], some ds)
  | (op, k) :: rest, ds =>
    match apply ofBool op ds with
    | none => ([], none)
    | some outs => match outs[k]? with
      | none => ([outs], none)
      | some d => let r := runTrace ofBool rest d; (outs :: r.1, r.2)

end LinfaSpec.Dataset
