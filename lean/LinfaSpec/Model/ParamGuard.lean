/-
C04 — hand-written part of the model of `ParamGuard` (core Lean only).

* `XF`: the extended-float domain the guards are evaluated on: `nan | ninf | pinf | fin q` with the
  IEEE comparison semantics (every ordered comparison with `nan` is false).  `nan` stands for the
  positive-sign quiet NaN (`f64::NAN`); negative zero is outside the model (the generators never
  emit it): `is_negative()` / `is_sign_negative()` read the sign bit and would be true for `-0.0`.
* `firstErr`: a guard chain is a list of `Option String` (the error tag a guard raises, if it fires),
  evaluated in order; this is the `if … else if …` / early-return structure of every `check_ref`.
* `checkRef / checkVal / fitUnchecked / fitWithUnchecked / transformUnchecked`: the trait-level code of
  `src/param_guard.rs` over an abstract inner `fit` (blanket `Fit`, `FitWith`, `Transformer` impls).

The per-builder `Params`, `guards` and `check` are generated from the Rust sources by
`tools/params2lean.py` into `LinfaSpec/Gen/C04Params.lean`.
-/
import LinfaSpec.Model.Proto

namespace LinfaSpec.ParamGuard
open LinfaSpec.Proto

inductive XF where
  | nan | ninf | pinf
  | fin (q : Rat)
  deriving Repr, DecidableEq

namespace XF

def zero : XF := fin 0
def one : XF := fin 1
/-- `f64::EPSILON` = 2^-52 (the harness instantiates every builder at `F = f64`) -/
def eps64 : XF := fin (1 / 4503599627370496)

/-- `f32::EPSILON` = 2^-23 -/
def eps32 : XF := fin (1 / 8388608)

/-- IEEE `<` -/
def lt : XF → XF → Bool
  | nan, _ => false
  | _, nan => false
  | ninf, ninf => false
  | ninf, _ => true
  | _, ninf => false
  | pinf, _ => false
  | _, pinf => true
  | fin a, fin b => decide (a < b)

/-- IEEE `<=` -/
def le : XF → XF → Bool
  | nan, _ => false
  | _, nan => false
  | ninf, _ => true
  | _, ninf => false
  | _, pinf => true
  | pinf, _ => false
  | fin a, fin b => decide (a ≤ b)

def gt (a b : XF) : Bool := lt b a
def ge (a b : XF) : Bool := le b a

/-- IEEE `==` (without `-0.0`) -/
def eq : XF → XF → Bool
  | nan, _ => false
  | _, nan => false
  | ninf, ninf => true
  | pinf, pinf => true
  | fin a, fin b => decide (a = b)
  | _, _ => false
def ne (a b : XF) : Bool := !(eq a b)

/-- sign bit (`Signed::is_negative` for floats is `is_sign_negative`); `nan` is the positive NaN -/
def isNegative : XF → Bool
  | ninf => true
  | fin q => decide (q < 0)
  | _ => false
def isSignNegative (x : XF) : Bool := isNegative x
def isNan : XF → Bool
  | nan => true
  | _ => false
def isInfinite : XF → Bool
  | ninf => true
  | pinf => true
  | _ => false
def isFinite : XF → Bool
  | fin _ => true
  | _ => false
/-- `(lo..=hi).contains(&x)` is `lo <= x && x <= hi` -/
def inClosed (lo hi x : XF) : Bool := le lo x && le x hi

/-- the value is a finite number satisfying `P` (used by the documented-range predicates) -/
def Sat (x : XF) (P : Rat → Prop) : Prop :=
  match x with
  | fin q => P q
  | _ => False

instance (x : XF) (P : Rat → Prop) [DecidablePred P] : Decidable (Sat x P) := by
  cases x <;> simp only [Sat] <;> infer_instance

def Finite (x : XF) : Prop := x.isFinite = true
instance (x : XF) : Decidable (Finite x) := by unfold Finite; infer_instance

/-- exact value of an f64 bit pattern; `-0.0` has no image (outside the model) -/
def ofBits (b : Nat) : Option XF :=
  let sign : Nat := b / 2 ^ 63
  let e : Nat := (b / 2 ^ 52) % 2048
  let m : Nat := b % 2 ^ 52
  if e = 2047 then
    (if m ≠ 0 then (if sign = 0 then some nan else none) else if sign = 0 then some pinf else some ninf)
  else if e = 0 ∧ m = 0 then (if sign = 0 then some (fin 0) else none)
  else
    let mant : Nat := if e = 0 then m else m + 2 ^ 52
    let ex : Int := (if e = 0 then (1 : Int) else Int.ofNat e) - 1075
    let mag : Rat := if ex ≥ 0 then (mant * 2 ^ ex.toNat : Nat) else (mant : Rat) / ((2 ^ (-ex).toNat : Nat) : Rat)
    some (fin (if sign = 0 then mag else -mag))

end XF

/-- the float type `F` a builder is instantiated at; the only thing a guard reads from it is `F::epsilon()` -/
inductive Carrier where
  | f64 | f32
  deriving Repr, DecidableEq

/-- `F::epsilon()` -/
def XF.epsOf : Carrier → XF
  | .f64 => XF.eps64
  | .f32 => XF.eps32

/-- the guard chain: the first guard that fires decides the error -/
def firstErr : List (Option String) → Except String Unit
  | [] => .ok ()
  | some t :: _ => .error t
  | none :: rest => firstErr rest

/-! ### trait-level code of `src/param_guard.rs` (generic in parameters `P`, errors, models) -/

section Trait
variable {P E E' M M0 D T : Type}

/-- `check_ref(&self) -> Result<&Checked, Error>`: the guard, then a reference to the inner value -/
def checkRef (chk : P → Except E Unit) (p : P) : Except E P :=
  match chk p with
  | .ok _ => .ok p
  | .error e => .error e

/-- `check(self)`: `self.check_ref()?; Ok(self.0)` -/
def checkVal (chk : P → Except E Unit) (p : P) : Except E P :=
  match checkRef chk p with
  | .error e => .error e
  | .ok _ => .ok p

/-- blanket `Fit`: `let checked = self.check_ref()?; checked.fit(dataset)` (`?` converts with `From`) -/
def fitUnchecked (chk : P → Except E Unit) (conv : E → E') (fit : P → D → Except E' M) (p : P) (d : D) : Except E' M :=
  match checkRef chk p with
  | .error e => .error (conv e)
  | .ok c => fit c d

/-- blanket `FitWith` -/
def fitWithUnchecked (chk : P → Except E Unit) (conv : E → E') (fitWith : P → M0 → D → Except E' M)
    (p : P) (m : M0) (d : D) : Except E' M :=
  match checkRef chk p with
  | .error e => .error (conv e)
  | .ok c => fitWith c m d

/-- blanket `Transformer` (`TransformGuard`): `self.check_ref().map(|p| p.transform(x))` -/
def transformUnchecked (chk : P → Except E Unit) (tr : P → D → T) (p : P) (x : D) : Except E T :=
  match checkRef chk p with
  | .error e => .error e
  | .ok c => .ok (tr c x)

/-! hand-written entry points on unchecked builders (not the blanket impls) -/

/-- `TSneParams::transform` (both the `Array2` and the `DatasetBase` form, linfa-tsne/src/lib.rs):
`self.check_ref()?.transform(x)` — the checked transform itself returns a `Result` -/
def tryTransformUnchecked (chk : P → Except E Unit) (conv : E → E') (tr : P → D → Except E' T) (p : P) (x : D) : Except E' T :=
  match checkRef chk p with
  | .error e => .error (conv e)
  | .ok c => tr c x

/-- `CountVectorizerParams::{fit, fit_files, fit_vocabulary}` (countgrams/mod.rs):
`self.check_ref().and_then(|params| params.fit(x))` -/
def andThenUnchecked (chk : P → Except E Unit) (fit : P → D → Except E M) (p : P) (d : D) : Except E M :=
  (checkRef chk p).bind fun c => fit c d

/-- `TfIdfVectorizer::{fit, fit_files, fit_vocabulary}` (tf_idf_vectorization.rs): the unchecked count
vectoriser parameters are a field; `let fitted = self.count_vectorizer.fit(x)?; Ok(Fitted { fitted, method })` -/
def wrapUnchecked {M' : Type} (chk : P → Except E Unit) (fit : P → D → Except E M) (wrap : M → M') (p : P) (d : D) : Except E M' :=
  match andThenUnchecked chk fit p d with
  | .error e => .error e
  | .ok m => .ok (wrap m)

end Trait

/-! ### the setters of `SvmParams` (linfa-svm/src/hyperparams.rs): which of `c` / `nu` a call sequence leaves set

Generic in the value type `α` (the driver runs it on decoded bit patterns, the theorems hold for every `α`).
`SvmConsts` are the three constants the setters insert: `F::one()`, `F::cast(0.1)`, `F::cast(1e-7)`. -/

structure SvmConsts (α : Type) where
  one : α
  tenth : α
  eps0 : α

structure SvmState (α : Type) where
  eps : α
  c : Option (α × α)
  nu : Option (α × α)

inductive SvmSet (α : Type) where
  /-- `.eps(x)` -/
  | eps (x : α)
  /-- `.pos_neg_weights(c_pos, c_neg)` -/
  | posNeg (a b : α)
  /-- `.nu_weight(nu)` -/
  | nuWeight (v : α)
  /-- `.c_eps(c, eps)` (deprecated; regression) -/
  | cEps (c e : α)
  /-- `.nu_eps(nu, eps)` (deprecated; regression) -/
  | nuEps (nu e : α)
  /-- `.c_svr(c, loss_eps)` -/
  | cSvr (c : α) (lossEps : Option α)
  /-- `.nu_svr(nu, c)` -/
  | nuSvr (nu : α) (c : Option α)

/-- `SvmParams::new()` -/
def svmNew {α : Type} (k : SvmConsts α) : SvmState α := { eps := k.eps0, c := some (k.one, k.one), nu := none }

def SvmSet.apply {α : Type} (k : SvmConsts α) (s : SvmState α) : SvmSet α → SvmState α
  | .eps x => { s with eps := x }
  | .posNeg a b => { s with c := some (a, b), nu := none }
  | .nuWeight v => { s with nu := some (v, v), c := none }
  | .cEps c e => { eps := e, c := some (c, k.tenth), nu := none }
  | .nuEps nu e => { eps := e, nu := some (nu, k.one), c := none }
  | .cSvr c le => { s with c := some (c, le.getD k.tenth), nu := none }
  | .nuSvr nu c => { s with nu := some (nu, c.getD k.one), c := none }

/-- a builder call chain `Svm::params().s1(..).s2(..)…` -/
def svmRun {α : Type} (k : SvmConsts α) (ops : List (SvmSet α)) : SvmState α := ops.foldl (SvmSet.apply k) (svmNew k)

/-! ### request decoding shared by the generated `parse` functions -/

def parseXF (s : String) : Option XF := (parseHex s).bind fun n => if s.length = 16 then XF.ofBits n else none
def argXF (toks : List String) (key : String) : Option XF := (arg toks key).bind parseXF
def argCarrier (toks : List String) (key : String) : Option Carrier :=
  match arg toks key with
  | some "f64" => some .f64
  | some "f32" => some .f32
  | _ => none
def argBool (toks : List String) (key : String) : Option Bool :=
  (arg toks key).bind fun s => if s = "1" then some true else if s = "0" then some false else none
def pairOf {α} (f : String → Option α) (s : String) : Option (α × α) :=
  match s.splitOn "," with
  | [a, b] => do let x ← f a; let y ← f b; pure (x, y)
  | _ => none
def argNatPair (toks : List String) (key : String) : Option (Nat × Nat) := (arg toks key).bind (pairOf parseNat)
def argXFPair (toks : List String) (key : String) : Option (XF × XF) := (arg toks key).bind (pairOf parseXF)
def argXFList (toks : List String) (key : String) : Option (List XF) :=
  (arg toks key).bind fun s => if s = "-" then some [] else parseList parseXF s
def argNatList (toks : List String) (key : String) : Option (List Nat) :=
  (arg toks key).bind fun s => if s = "-" then some [] else parseList parseNat s
/-- `key=none` or the value form read by `f` -/
def argOpt {α} (f : List String → String → Option α) (toks : List String) (key : String) : Option (Option α) :=
  match arg toks key with
  | none => none
  | some "none" => some none
  | some _ => (f toks key).map some
/-- tokens `pre.key=value` with the prefix removed (nested builders) -/
def subToks (pre : String) (toks : List String) : List String :=
  toks.filterMap fun t => if t.startsWith pre then some ((t.drop pre.length).toString) else none

end LinfaSpec.ParamGuard
