/-
C15 — incremental learners (core Lean only).

Models of the code that exists in
  linfa-bayes      `GaussianNbValidParams::fit_with` + `update_mean_variance`,
                   `MultinomialNbValidParams::fit_with` + `update_feature_log_prob`,
                   `NaiveBayes::predict_inplace` (arg-max over `joint_log_likelihood`)
  linfa-clustering `KMeansValidParams::fit_with` (mini-batch step: `closest_centroid`,
                   `compute_centroids_incremental`, tolerance test)
  linfa-ftrl       `Ftrl::{get_weights, calculate_sigma, update_params}`, `calculate_gradient`,
                   `predict_probabilities`, `fit_with`

A `HashMap<L, ClassInfo>` is an association list keyed by the label (the driver sorts by label
before printing); `&mut` state is a returned value; a history of batches is a `List.foldl` of the
step.  ndarray reductions are modelled by their contract: `sum_axis`/`mean_axis` = left-to-right
column sum (/ n), `var_axis(_, 0)` = mean of squared deviations from the mean (ndarray computes it
with Welford's recurrence and a fused multiply-add, hence a tolerance on σ² in the correspondence).
-/
import LinfaSpec.Model.Scalar

namespace LinfaSpec.Incremental
open LinfaSpec

/-! ### association lists (the `HashMap` of the naive-Bayes models) -/

def lookup {β : Type} (c : Nat) : List (Nat × β) → Option β
  | [] => none
  | (k, v) :: rest => if k = c then some v else lookup c rest

/-- `entry(c).or_insert(..)` followed by the write-back: replace in place or append -/
def upsert {β : Type} (c : Nat) (v : β) : List (Nat × β) → List (Nat × β)
  | [] => [(c, v)]
  | (k, w) :: rest => if k = c then (k, v) :: rest else (k, w) :: upsert c v rest

def mapVals {β γ : Type} (f : β → γ) (l : List (Nat × β)) : List (Nat × γ) :=
  l.map fun kv => (kv.1, f kv.2)

/-- a labelled batch: rows of (features, class label) -/
abbrev Batch (α : Type) := List (List α × Nat)

/-- `dataset.labels()`: the distinct labels of the batch (first-appearance order; the order is
irrelevant because each class is updated independently) -/
def labelsOf {α : Type} (b : Batch α) : List Nat := (b.map (·.2)).eraseDups

/-- `filter(x, y, class)`: the rows of class `c`, in order -/
def rowsOf {α : Type} (c : Nat) (b : Batch α) : List (List α) :=
  (b.filter fun r => r.2 == c).map (·.1)

section Generic
variable {α : Type} [Add α] [Sub α] [Mul α] [Div α] [Neg α] [LT α] [DecidableLT α]
  [LE α] [DecidableLE α] [OfNat α 0] [OfNat α 1] [NatCast α]

/-- column `j` of a row-major matrix -/
def column (j : Nat) (rows : List (List α)) : List α := rows.map fun r => r.getD j 0
def columns (p : Nat) (rows : List (List α)) : List (List α) :=
  (List.range p).map fun j => column j rows

/-- `mean_axis(Axis(0))` of one column -/
def meanL (xs : List α) : α := sumS xs / (xs.length : α)
/-- `var_axis(Axis(0), 0)` of one column (population variance; contract of ndarray's Welford loop) -/
def varL (xs : List α) : α :=
  sumS (xs.map fun x => (x - meanL xs) * (x - meanL xs)) / (xs.length : α)

/-- `QuantileExt::max` (first element, then `if acc < elem`) -/
def maxL : List α → Option α
  | [] => none
  | x :: xs => some (xs.foldl maxS x)

/-! ### Gaussian naive Bayes -/

/-- `update_mean_variance` for one feature column: old (count, mean, variance), new values `xs` -/
def gnbMerge (nOld : Nat) (muOld varOld : α) (xs : List α) : α × α :=
  if xs.length = 0 then (muOld, varOld) else
  let nNew := xs.length
  let muNew := meanL xs
  let varNew := varL xs
  if nOld = 0 then (muNew, varNew) else
  let nTot := nOld + nNew
  let mu := (muNew * (nNew : α) + muOld * (nOld : α)) / (nTot : α)
  let ssdOld := varOld * (nOld : α)
  let ssdNew := varNew * (nNew : α)
  let weight := ((nNew * nOld : Nat) : α) / (nTot : α)
  let d := muOld - muNew
  let ssd := ssdOld + ssdNew + weight * (d * d)
  (mu, ssd / (nTot : α))

structure GInfo (α : Type) where
  count : Nat
  prior : α
  theta : List α
  sigma : List α

abbrev GState (α : Type) := List (Nat × GInfo α)

def GInfo.default : GInfo α := ⟨0, 0, [], []⟩

/-- `update_mean_variance` on all columns (`cols` = the columns of the class's rows in the batch).
A class with `count = 0` still has the empty default arrays; the code returns the batch statistics
without touching them. -/
def gnbUpdateClass (info : GInfo α) (cols : List (List α)) : List α × List α :=
  if info.count = 0 then
    (cols.map fun xs => (gnbMerge 0 0 0 xs).1, cols.map fun xs => (gnbMerge 0 0 0 xs).2)
  else
    let r := List.zipWith (fun xs (mv : α × α) => gnbMerge info.count mv.1 mv.2 xs) cols
      (info.theta.zip info.sigma)
    (r.map (·.1), r.map (·.2))

/-- `epsilon = var_smoothing * max_j var_j(x)` over **the current batch** (all classes together) -/
def gnbEps (vs : α) (p : Nat) (b : Batch α) : α :=
  vs * (maxL ((columns p (b.map (·.1))).map varL)).getD 0

def gnbClassLoop (p : Nat) (b : Batch α) (st : GState α) : GState α :=
  (labelsOf b).foldl (fun s c =>
    let rows := rowsOf c b
    let info := (lookup c s).getD GInfo.default
    let ts := gnbUpdateClass info (columns p rows)
    upsert c { info with theta := ts.1, sigma := ts.2, count := info.count + rows.length } s) st

def gnbPriors (st : GState α) : GState α :=
  let total : Nat := (st.map fun ci => ci.2.count).foldl (fun (a b : Nat) => a + b) (0 : Nat)
  mapVals (fun i => { i with prior := (i.count : α) / (total : α) }) st

/-- one `fit_with` call (model `None` = empty state) -/
def gnbStep (vs : α) (p : Nat) (st : GState α) (b : Batch α) : GState α :=
  let eps := gnbEps vs p b
  let st1 := mapVals (fun i => { i with sigma := i.sigma.map (· - eps) }) st
  let st2 := gnbClassLoop p b st1
  let st3 := mapVals (fun i => { i with sigma := i.sigma.map (· + eps) }) st2
  gnbPriors st3

/-- guard of the real code: `max()` errors on an empty variance vector (no feature) and on NaN
(an empty batch has variance 0/0) -/
def nbGuard (p : Nat) (b : Batch α) : Bool := decide (0 < p) && decide (0 < b.length)

/-- the model after a history of batches (`state_is_fold`) -/
def gnbRun (vs : α) (p : Nat) (hist : List (Batch α)) : GState α := hist.foldl (gnbStep vs p) []

/-- textbook estimate for one class on the whole dataset: frequency, column means, column
variances + `var_smoothing * max_j var_j(all rows)` -/
def gnbTextbook (vs : α) (p : Nat) (d : Batch α) (c : Nat) : GInfo α :=
  let rows := rowsOf c d
  { count := rows.length
    prior := (rows.length : α) / (d.length : α)
    theta := (columns p rows).map meanL
    sigma := (columns p rows).map fun xs => varL xs + gnbEps vs p d }

/-! ### multinomial naive Bayes -/

structure MInfo (α : Type) where
  count : Nat
  prior : α
  fcount : List α
  flogp : List α

abbrev MState (α : Type) := List (Nat × MInfo α)

def MInfo.default : MInfo α := ⟨0, 0, [], []⟩

/-- smoothed log-frequencies from the feature counts: `ln(N_j + a) - ln(Σ_j (N_j + a))` -/
def mnbLogProb [Transc α] (alpha : α) (fc : List α) : List α :=
  let sm := fc.map (· + alpha)
  let cnt := sumS sm
  sm.map fun x => Transc.ln x - Transc.ln cnt

/-- `update_feature_log_prob` (`cols` = columns of the class's rows in the batch) -/
def mnbUpdateClass [Transc α] (alpha : α) (info : MInfo α) (cols : List (List α)) (nrows : Nat) :
    List α × List α :=
  if nrows = 0 then (info.flogp, info.fcount) else
  let fcNew := cols.map sumS
  let fc := if 0 < info.count then List.zipWith (· + ·) info.fcount fcNew else fcNew
  (mnbLogProb alpha fc, fc)

def mnbClassLoop [Transc α] (alpha : α) (p : Nat) (b : Batch α) (st : MState α) : MState α :=
  (labelsOf b).foldl (fun s c =>
    let rows := rowsOf c b
    let info := (lookup c s).getD MInfo.default
    let r := mnbUpdateClass alpha info (columns p rows) rows.length
    upsert c { info with flogp := r.1, fcount := r.2, count := info.count + rows.length } s) st

def mnbPriors (st : MState α) : MState α :=
  let total : Nat := (st.map fun ci => ci.2.count).foldl (fun (a b : Nat) => a + b) (0 : Nat)
  mapVals (fun i => { i with prior := (i.count : α) / (total : α) }) st

def mnbStep [Transc α] (alpha : α) (p : Nat) (st : MState α) (b : Batch α) : MState α :=
  mnbPriors (mnbClassLoop alpha p b st)

def mnbRun [Transc α] (alpha : α) (p : Nat) (hist : List (Batch α)) : MState α :=
  hist.foldl (mnbStep alpha p) []

def mnbTextbook [Transc α] (alpha : α) (p : Nat) (d : Batch α) (c : Nat) : MInfo α :=
  let rows := rowsOf c d
  let fc := (columns p rows).map sumS
  { count := rows.length
    prior := (rows.length : α) / (d.length : α)
    fcount := fc
    flogp := mnbLogProb alpha fc }

/-! ### prediction: arg-max of the joint log-likelihood -/

/-- Gaussian `joint_log_likelihood` of one query row for one class -/
def gnbJll [Transc α] (twoPi half : α) (i : GInfo α) (x : List α) : α :=
  let nij := (-half) * sumS (i.sigma.map fun s => Transc.ln (twoPi * s))
  let q := sumS (List.zipWith (fun (xt : α × α) s => ((xt.1 - xt.2) * (xt.1 - xt.2)) / s) (x.zip i.theta) i.sigma)
  (nij - q * half) + Transc.ln i.prior

/-- multinomial `joint_log_likelihood` -/
def mnbJll [Transc α] (i : MInfo α) (x : List α) : α :=
  dotS x i.flogp + Transc.ln i.prior

/-- `argmax` over the classes: the first strictly greatest score (the real code walks the classes in
hash-map order, so only untied maxima are determined) -/
def argmaxScore : List (Nat × α) → Option (Nat × α)
  | [] => none
  | x :: xs => some (xs.foldl (fun best y => if best.2 < y.2 then y else best) x)

def nbPredict {ι : Type} (jll : ι → List α → α) (st : List (Nat × ι)) (x : List α) : Option Nat :=
  (argmaxScore (st.map fun ci => (ci.1, jll ci.2 x))).map (·.1)

/-- gap between the best and the second-best score (`none` if fewer than two classes) -/
def scoreMargin (scores : List (Nat × α)) : Option α :=
  match argmaxScore scores with
  | none => none
  | some b =>
    match argmaxScore (scores.filter fun y => y.1 != b.1) with
    | none => none
    | some s => some (b.2 - s.2)

/-! ### mini-batch k-means -/

/-- squared L2 distance, the sequential loop of `sq_l2_dist` -/
def sqDist (a b : List α) : α := sumS (List.zipWith (fun x y => (x - y) * (x - y)) a b)

/-- `closest_centroid`: first centroid with the strictly smallest squared distance -/
def closest (cs : List (List α)) (x : List α) : Nat × α :=
  match cs with
  | [] => (0, 0)
  | c0 :: _ =>
    cs.zipIdx.foldl (fun (best : Nat × α) (ci : List α × Nat) =>
      let d := sqDist ci.1 x
      if d < best.2 then (ci.2, d) else best) (0, sqDist c0 x)

structure KState (α : Type) where
  centroids : List (List α)
  counts : List α

/-- one observation of `compute_centroids_incremental`:
`counts[c] += 1; centroids[c] += (obs - centroids[c]) / counts[c]` -/
def kmAddPoint (st : KState α) (x : List α) (c : Nat) : KState α :=
  let cnt := st.counts.getD c 0 + 1
  let row := st.centroids.getD c []
  { centroids := st.centroids.set c (List.zipWith (fun ci xi => ci + (xi - ci) / cnt) row x)
    counts := st.counts.set c cnt }

/-- `compute_centroids_incremental` with the given memberships -/
def kmIncr (st : KState α) (obs : List (List α)) (mem : List Nat) : KState α :=
  (obs.zip mem).foldl (fun s xc => kmAddPoint s xc.1 xc.2) st

/-- memberships are taken against the centroids at the start of the batch -/
def kmAssign (cs : List (List α)) (obs : List (List α)) : List Nat := obs.map fun x => (closest cs x).1

/-- squared Frobenius distance between old and new centroid matrices (row-major sequential sum) -/
def kmShiftSq (old new : List (List α)) : α := sqDist old.flatten new.flatten

/-- one `fit_with` call: new state and `converged` (`Ok` vs `Err(NotConverged(model))`) -/
def kmStep [Transc α] (tol : α) (st : KState α) (obs : List (List α)) : KState α × Bool :=
  let st' := kmIncr st obs (kmAssign st.centroids obs)
  (st', decide (Transc.sqrt (kmShiftSq st.centroids st'.centroids) < tol))

/-- states and verdicts after every batch of a history -/
def kmRun [Transc α] (tol : α) (st : KState α) : List (List (List α)) → List (KState α × Bool)
  | [] => []
  | b :: rest => let r := kmStep tol st b; r :: kmRun tol r.1 rest


/-! ### mini-batch k-means with an arbitrary metric, inertia, first-batch initialisation -/

/-- the `Distance` implementations of linfa-nn used with k-means: `rdistance` between two rows and
`distance` between the old and the new centroid matrix (both matrices flattened row-major) -/
inductive Metric where
  | l2 | l1 | linf
  deriving DecidableEq, Repr

/-- `l1_dist`: sequential `result += |a - b|` -/
def l1Dist (a b : List α) : α := sumS (List.zipWith (fun x y => absS (x - y)) a b)

/-- `linf_dist`: `max = 0; if diff > max { max = diff }` -/
def linfDist (a b : List α) : α :=
  (List.zipWith (fun x y => absS (x - y)) a b).foldl (fun m d => if m < d then d else m) 0

/-- `Distance::rdistance` (squared for L2, the distance itself otherwise) -/
def rdistBy (m : Metric) (a b : List α) : α :=
  match m with
  | .l2 => sqDist a b
  | .l1 => l1Dist a b
  | .linf => linfDist a b

/-- `Distance::distance` -/
def distBy [Transc α] (m : Metric) (a b : List α) : α :=
  match m with
  | .l2 => Transc.sqrt (sqDist a b)
  | .l1 => l1Dist a b
  | .linf => linfDist a b

/-- `closest_centroid` with the metric's `rdistance` -/
def closestBy (m : Metric) (cs : List (List α)) (x : List α) : Nat × α :=
  match cs with
  | [] => (0, 0)
  | c0 :: _ =>
    cs.zipIdx.foldl (fun (best : Nat × α) (ci : List α × Nat) =>
      let d := rdistBy m ci.1 x
      if d < best.2 then (ci.2, d) else best) (0, rdistBy m c0 x)

def kmAssignBy (m : Metric) (cs : List (List α)) (obs : List (List α)) : List Nat :=
  obs.map fun x => (closestBy m cs x).1

/-- `dists.sum() / n_samples` against the centroids at the start of the batch -/
def kmInertiaBy (m : Metric) (cs : List (List α)) (obs : List (List α)) : α :=
  sumS (obs.map fun x => (closestBy m cs x).2) / (obs.length : α)

/-- one `fit_with` call for any metric: new state, `converged`, inertia of the batch -/
def kmStepBy [Transc α] (m : Metric) (tol : α) (st : KState α) (obs : List (List α)) :
    KState α × Bool × α :=
  let st' := kmIncr st obs (kmAssignBy m st.centroids obs)
  (st', decide (distBy m st.centroids.flatten st'.centroids.flatten < tol),
    kmInertiaBy m st.centroids obs)

def kmRunBy [Transc α] (m : Metric) (tol : α) (st : KState α) :
    List (List (List α)) → List (KState α × Bool × α)
  | [] => []
  | b :: rest => let r := kmStepBy m tol st b; r :: kmRunBy m tol r.1 rest

/-- the `n_runs` selection of `fit_with(None, ..)`:
`.min_by(|(_, d1), (_, d2)| if d1 < d2 { Less } else { Greater })` over the candidates in order
(`Iterator::min_by` keeps the earlier element only when the comparison says `Less`/`Equal`) -/
def pickInit {β : Type} : List (β × α) → Option (β × α)
  | [] => none
  | x :: xs => some (xs.foldl (fun best y => if best.2 < y.2 then best else y) x)

/-! ### FTRL-proximal -/

structure FtrlHp (α : Type) where
  alpha : α
  beta : α
  l1 : α
  l2 : α

/-- `apply_proximal_to_weights` -/
def ftrlWeight [Transc α] (hp : FtrlHp α) (z n : α) : α :=
  let sign : α := if z < 0 then -1 else 1
  if z * sign ≤ hp.l1 then 0
  else (sign * hp.l1 - z) / ((Transc.sqrt n + hp.beta) / hp.alpha + hp.l2)

/-- `calculate_weight_in_average` -/
def ftrlSigma [Transc α] (hp : FtrlHp α) (n g : α) : α :=
  (Transc.sqrt (n + g * g) - Transc.sqrt n) / hp.alpha

/-- `update_params` for one coordinate: `z += g; z -= σ·w; n += g·g` -/
def ftrlCoord [Transc α] (hp : FtrlHp α) (z n g : α) : α × α :=
  ((z + g) - ftrlSigma hp n g * ftrlWeight hp z n, n + g * g)

structure FState (α : Type) where
  z : List α
  n : List α

def ftrlWeights [Transc α] (hp : FtrlHp α) (st : FState α) : List α :=
  List.zipWith (ftrlWeight hp) st.z st.n

/-- `update_params` with a given gradient vector -/
def ftrlUpdate [Transc α] (hp : FtrlHp α) (st : FState α) (g : List α) : FState α :=
  let r := List.zipWith (fun (zn : α × α) gj => ftrlCoord hp zn.1 zn.2 gj) (st.z.zip st.n) g
  { z := r.map (·.1), n := r.map (·.2) }

/-- `stable_sigmoid` -/
def sigmoid [Transc α] (max35 : α) (v : α) : α :=
  let v := maxS (minS v max35) (-max35)
  if v < 0 then Transc.exp v / (Transc.exp v + 1) else 1 / (1 + Transc.exp (-v))

/-- `calculate_gradient`: `g_j = Σ_i (p_i - y_i) x_ij` -/
def ftrlGradient (p : Nat) (probs : List α) (xs : List (List α)) (ys : List Bool) : List α :=
  let diff := List.zipWith (fun pr (y : Bool) => pr - (if y then 1 else 0)) probs ys
  (List.range p).map fun j => dotS diff (column j xs)

/-- `predict_probabilities`; `r32` is the rounding through `Pr(f32)` -/
def ftrlProbs [Transc α] (max35 : α) (r32 : α → α) (hp : FtrlHp α) (st : FState α)
    (xs : List (List α)) : List α :=
  let w := ftrlWeights hp st
  xs.map fun x => r32 (sigmoid max35 (dotS x w))

/-- one `fit_with` call -/
def ftrlStep [Transc α] (max35 : α) (r32 : α → α) (hp : FtrlHp α) (p : Nat) (st : FState α)
    (b : List (List α) × List Bool) : FState α :=
  ftrlUpdate hp st (ftrlGradient p (ftrlProbs max35 r32 hp st b.1) b.1 b.2)

def ftrlRun [Transc α] (max35 : α) (r32 : α → α) (hp : FtrlHp α) (p : Nat) (st : FState α)
    (hist : List (List (List α) × List Bool)) : FState α :=
  hist.foldl (ftrlStep max35 r32 hp p) st

/-! ### the glue around the steps: `Option` model in, guard, the caller's loop -/

/-- `fit_with(model_in, batch)` of both naive-Bayes learners: `None` is the empty map
(`HashMap::new()`), `guard` is what makes the call return `Err` (`none`), otherwise one step.
Gaussian: `guard = nbGuard p` (the `?` on `max()` of the batch variances); multinomial: no error
path at all (`guard = fun _ => true`: an empty batch is accepted and changes nothing). -/
def nbFitWith {σ : Type} (step : σ → Batch α → σ) (empty : σ) (guard : Batch α → Bool)
    (model : Option σ) (b : Batch α) : Option σ :=
  if guard b then some (step (model.getD empty) b) else none

/-- the caller's loop `model = params.fit_with(model, &batch)?` over a history: the models after every
batch, `none` as soon as one call returns an error -/
def nbFitHistory {σ : Type} (step : σ → Batch α → σ) (empty : σ) (guard : Batch α → Bool) :
    Option σ → List (Batch α) → Option (List σ)
  | _, [] => some []
  | model, b :: rest =>
    match nbFitWith step empty guard model b with
    | none => none
    | some s => (nbFitHistory step empty guard (some s) rest).map (s :: ·)

/-- the fresh model of k-means `fit_with(None, ..)` with `KMeansInit::Precomputed(c0)`: the given
centroids, `cluster_count = Array1::zeros(n_clusters)` -/
def kmFresh (c0 : List (List α)) : KState α := ⟨c0, c0.map fun _ => 0⟩

/-- k-means `fit_with(model, batch)`: `None` starts from the fresh model; the result carries the
model whether it is `Ok(model)` or `Err(NotConverged(model))` -/
def kmFitWith [Transc α] (m : Metric) (tol : α) (c0 : List (List α)) (model : Option (KState α))
    (obs : List (List α)) : KState α × Bool × α :=
  kmStepBy m tol (model.getD (kmFresh c0)) obs

/-- the caller's loop `model = match fit_with(model.take(), &batch) { Ok(m) | Err(NotConverged(m)) => Some(m) }` -/
def kmFitHistory [Transc α] (m : Metric) (tol : α) (c0 : List (List α)) :
    Option (KState α) → List (List (List α)) → List (KState α × Bool × α)
  | _, [] => []
  | model, b :: rest =>
    let r := kmFitWith m tol c0 model b
    r :: kmFitHistory m tol c0 (some r.1) rest

/-- `Ftrl::new(params, p)` with the initial `z` drawn by the caller's generator (`z0`) and `n = 0` -/
def ftrlFresh (z0 : List α) : FState α := ⟨z0, z0.map fun _ => 0⟩

/-- FTRL `fit_with(model_in, batch)`: `model_in.unwrap_or_else(|| Ftrl::new(..))`, then one step -/
def ftrlFitWith [Transc α] (max35 : α) (r32 : α → α) (hp : FtrlHp α) (z0 : List α)
    (model : Option (FState α)) (b : List (List α) × List Bool) : FState α :=
  ftrlStep max35 r32 hp z0.length (model.getD (ftrlFresh z0)) b

/-- the caller's loop over a history: the models after every batch -/
def ftrlFitHistory [Transc α] (max35 : α) (r32 : α → α) (hp : FtrlHp α) (z0 : List α) :
    Option (FState α) → List (List (List α) × List Bool) → List (FState α)
  | _, [] => []
  | model, b :: rest =>
    let s := ftrlFitWith max35 r32 hp z0 model b
    s :: ftrlFitHistory max35 r32 hp z0 (some s) rest

/-! ### round 3: the pieces the theorems talk about, as functions the driver runs -/

/-- `update_min_dists` + `dists.sum()` of one initialisation candidate on the first batch: the cost the
`n_runs` loop of `fit_with(None, ..)` compares -/
def kmInitCost (m : Metric) (obs : List (List α)) (c : List (List α)) : α :=
  sumS (obs.map fun x => (closestBy m c x).2)

/-- k-means `fit_with(None, first)` with a NON-precomputed initialisation, then the caller's loop.
`cands` are the centroid matrices of the `n_runs` initialisation runs in the order they are drawn
(external: `KMeansInit::run` on the parameters' generator); the code keeps the `min_by` candidate of
their costs on the first batch (`pickInit`), starts from it with `cluster_count = 0` and goes on as
with precomputed centroids.  `none`: no candidate (`n_runs = 0`, the `unwrap` of the real code). -/
def kmFitInitHistory [Transc α] (m : Metric) (tol : α) (cands : List (List (List α)))
    (hist : List (List (List α))) : Option (List (KState α × Bool × α)) :=
  match hist with
  | [] => some []
  | first :: _ =>
    match pickInit (cands.map fun c => (c, kmInitCost m first c)) with
    | none => none
    | some best => some (kmFitHistory m tol best.1 none hist)

/-- an `Ftrl` value: the hyper-parameters are stored IN the model (copied from the parameters by
`Ftrl::new`) next to `z` and `n` -/
structure FModel (α : Type) where
  hp : FtrlHp α
  st : FState α

/-- FTRL `fit_with(model_in, batch)` of parameters carrying `hpParams`: a missing model is
`Ftrl::new(params)` (the parameters' hyper-parameters, the drawn `z`, `n = 0`); the update itself —
`get_weights`, `calculate_sigma`, `update_params` are methods of the MODEL — uses the
hyper-parameters stored in the model, never the parameters' -/
def ftrlFitWithM [Transc α] (max35 : α) (r32 : α → α) (hpParams : FtrlHp α) (z0 : List α)
    (model : Option (FModel α)) (b : List (List α) × List Bool) : FModel α :=
  let m := model.getD ⟨hpParams, ftrlFresh z0⟩
  ⟨m.hp, ftrlStep max35 r32 m.hp z0.length m.st b⟩

/-- the caller's loop where every call may come from different parameters -/
def ftrlFitHistoryM [Transc α] (max35 : α) (r32 : α → α) (z0 : List α) :
    Option (FModel α) → List (FtrlHp α × (List (List α) × List Bool)) → List (FModel α)
  | _, [] => []
  | model, hb :: rest =>
    let s := ftrlFitWithM max35 r32 hb.1 z0 model hb.2
    s :: ftrlFitHistoryM max35 r32 z0 (some s) rest

/-- the gradient vectors of a history of `fit_with` calls, one per batch: `calculate_gradient` on the
probabilities predicted by the state BEFORE the batch -/
def ftrlGradSeq [Transc α] (max35 : α) (r32 : α → α) (hp : FtrlHp α) (p : Nat) :
    FState α → List (List (List α) × List Bool) → List (List α)
  | _, [] => []
  | st, b :: rest =>
    let g := ftrlGradient p (ftrlProbs max35 r32 hp st b.1) b.1 b.2
    g :: ftrlGradSeq max35 r32 hp p (ftrlUpdate hp st g) rest

/-- the textbook model of a whole dataset: one record per class that occurs (`gnbTextbook`) -/
def gnbTextbookState (vs : α) (p : Nat) (d : Batch α) : GState α :=
  (labelsOf d).map fun c => (c, gnbTextbook vs p d c)

def mnbTextbookState [Transc α] (alpha : α) (p : Nat) (d : Batch α) : MState α :=
  (labelsOf d).map fun c => (c, mnbTextbook alpha p d c)

end Generic

end LinfaSpec.Incremental
