/-
Model of linfa-svm's SMO solver (`algorithms/linfa-svm/src/solver_smo.rs`, the code *after* the
`fix:` commits listed in notes/C13.md), core Lean only, polymorphic in the scalar.

`SolverState` is a record of parallel lists indexed by *position*; `active`/`kidx` map a position
back to its sample (`active_set`, `PermutableKernel::kernel_indices`).  The kernel matrix, the labels
kept inside `PermutableKernel`, the stopping tolerance and the float constants are an `Env`.
Loops are folds over `List.range`; the main loop is fuelled.  The nu-variants
(`max_violating_pair_nu`, `select_working_set_nu`, `should_shrunk_nu`, `do_shrinking_nu`,
`calculate_rho_nu`) are modelled next to the plain ones; `Env.nu` is the `nu_constraint` flag the
entry points dispatch on.  `Env.kmode` selects the `Permutable` implementation (`PermutableKernel`,
`PermutableKernelOneClass`, `PermutableKernelRegression`).
`reached_lower` (`value == 0`) is written with `<` only: it differs from IEEE `==` on NaN alone.
-/
import LinfaSpec.Model.Scalar

namespace LinfaSpec.Smo

structure St (α : Type) where
  alpha : List α
  /-- `Alpha::upper_bound`, stored next to each value -/
  ub : List α
  grad : List α
  gbar : List α
  active : List Nat
  nactive : Nat
  unshrink : Bool
  p : List α
  y : List Bool
  bounds : List α
  kidx : List Nat

structure Env (α : Type) where
  K : List (List α)
  /-- labels in sample order (the copy inside `PermutableKernel`) -/
  y0 : List Bool
  eps : α
  /-- `F::cast(1e-10)` -/
  tiny : α
  /-- `F::infinity()` -/
  inf : α
  /-- `nu_constraint` -/
  nu : Bool := false
  /-- which `Permutable` wraps the matrix: 0 `PermutableKernel` (signs from the sample-ordered
  labels), 1 `PermutableKernelOneClass` (no signs), 2 `PermutableKernelRegression` (`2 m`
  variables over an `m × m` matrix; its `signs` list is initialised like `targets` by
  `fit_epsilon` / `fit_nu` (`i < m`) and swapped together with it, the model reads `y`) -/
  kmode : Nat := 0

/-- `Vec::swap` -/
def swapL {β : Type} (l : List β) (i j : Nat) : List β :=
  match l[i]?, l[j]? with
  | some a, some b => (l.set i b).set j a
  | _, _ => l

def gb (l : List Bool) (i : Nat) : Bool := l.getD i false
def gn (l : List Nat) (i : Nat) : Nat := l.getD i 0

section
variable {α : Type} [Add α] [Sub α] [Mul α] [Div α] [Neg α] [LT α] [DecidableLT α]
  [LE α] [DecidableLE α] [OfNat α 0] [OfNat α 1] [NatCast α]

def gf (l : List α) (i : Nat) : α := l.getD i 0

def ntotal (s : St α) : Nat := s.alpha.length

/-! ### kernel access (`PermutableKernel`) -/

def kEntry (e : Env α) (r c : Nat) : α := gf (e.K.getD r []) c

/-- `kernel.distances(a, len)` for the three `Permutable` implementations -/
def dist (e : Env α) (s : St α) (a len : Nat) : List α :=
  let ia := gn s.kidx a
  (List.range len).map fun b =>
    let ib := gn s.kidx b
    let v := kEntry e ib ia
    let differ :=
      match e.kmode with
      | 0 => gb e.y0 ib != gb e.y0 ia
      | 1 => false
      | _ => gb s.y a != gb s.y b
    if differ then -v else v

/-- `kernel.self_distance(a)` -/
def selfDist (e : Env α) (s : St α) (a : Nat) : α :=
  let ia := gn s.kidx a
  kEntry e ia ia

/-! ### `Alpha` status -/

def reachedUpper (s : St α) (i : Nat) : Bool := decide (gf s.ub i ≤ gf s.alpha i)
def reachedLower (s : St α) (i : Nat) : Bool :=
  !(decide (gf s.alpha i < 0)) && !(decide (0 < gf s.alpha i))
def freeFloating (s : St α) (i : Nat) : Bool :=
  decide (gf s.alpha i < gf s.ub i) && decide (0 < gf s.alpha i)

/-- `target(i)` -/
def tgt (s : St α) (i : Nat) : α := if gb s.y i then 1 else -1

/-- `g[k] += c * d[k]` for `k < m` -/
def addScaledPrefix (g : List α) (c : α) (d : List α) (m : Nat) : List α :=
  List.zipWith (fun gk dk => gk + c * dk) (g.take m) d ++ g.drop m

/-- `g[k] -= c * d[k]` for `k < m` -/
def subScaledPrefix (g : List α) (c : α) (d : List α) (m : Nat) : List α :=
  List.zipWith (fun gk dk => gk - c * dk) (g.take m) d ++ g.drop m

/-! ### `SolverState::new` -/

/-- `kernel_indices` of a fresh `Permutable`: the identity, for the regression kernel
`x ↦ if x < m then x else x - m` over `2 m` variables (`m` = size of the matrix) -/
def initKidx (e : Env α) (n : Nat) : List Nat :=
  if e.kmode == 2 then (List.range n).map fun x => if x < e.K.length then x else x - e.K.length
  else List.range n

def init (e : Env α) (alpha p bounds : List α) (y : List Bool) : St α :=
  let n := alpha.length
  let s0 : St α := { alpha := alpha, ub := (List.range n).map (gf bounds), grad := p,
                     gbar := List.replicate n 0, active := List.range n, nactive := n,
                     unshrink := false, p := p, y := y, bounds := bounds, kidx := initKidx e n }
  (List.range n).foldl (fun s i =>
    if !reachedLower s i then
      let di := dist e s i n
      let s1 := { s with grad := addScaledPrefix s.grad (gf s.alpha i) di n }
      if reachedUpper s i then { s1 with gbar := addScaledPrefix s1.gbar (gf bounds i) di n } else s1
    else s) s0

/-! ### `swap` -/

def swap (s : St α) (i j : Nat) : St α :=
  { s with grad := swapL s.grad i j, gbar := swapL s.gbar i j, alpha := swapL s.alpha i j,
           ub := swapL s.ub i j, p := swapL s.p i j, active := swapL s.active i j,
           kidx := swapL s.kidx i j, y := swapL s.y i j, bounds := swapL s.bounds i j }

/-! ### `reconstruct_gradient` -/

def reconstructGradient (e : Env α) (s : St α) : St α :=
  let n := ntotal s
  let na := s.nactive
  if na == n then s else
  let g0 := s.grad.take na ++ (List.range (n - na)).map (fun t => gf s.gbar (na + t) + gf s.p (na + t))
  let nfree := ((List.range na).filter (freeFloating s)).length
  if 2 * na * (n - na) < nfree * n then
    let tail := (List.range (n - na)).map fun t =>
      let i := na + t
      let di := dist e s i na
      (List.range na).foldl (fun acc j =>
        if freeFloating s j then acc + gf s.alpha j * gf di j else acc) (gf g0 i)
    { s with grad := g0.take na ++ tail }
  else
    let g := (List.range na).foldl (fun g i =>
      if freeFloating s i then
        let di := dist e s i n
        let ai := gf s.alpha i
        g.take na ++ (List.range (n - na)).map (fun t => gf g (na + t) + ai * gf di (na + t))
      else g) g0
    { s with grad := g }

/-! ### `update`: the two-variable analytic step with clipping -/

/-- labels differ: both variables move by `delta`, `diff = a_i - a_j` is kept -/
def clipOpp (ai aj diff bi bj : α) : α × α :=
  let (ai, aj) :=
    if 0 < diff then (if aj < 0 then (diff, 0) else (ai, aj))
    else (if ai < 0 then (0, -diff) else (ai, aj))
  if bi - bj < diff then (if bi < ai then (bi, bi - diff) else (ai, aj))
  else (if bj < aj then (bj + diff, bj) else (ai, aj))

/-- labels agree: `sum = a_i + a_j` is kept -/
def clipSame (ai aj sum bi bj : α) : α × α :=
  let (ai, aj) :=
    if bi < sum then (if bi < ai then (bi, sum - bi) else (ai, aj))
    else (if aj < 0 then (sum, 0) else (ai, aj))
  if bj < sum then (if bj < aj then (sum - bj, bj) else (ai, aj))
  else (if ai < 0 then (0, sum) else (ai, aj))

/-- new `(alpha_i, alpha_j)`; `qii qjj qij` are `self_distance(i)`, `self_distance(j)`, `dist_i[j]` -/
def stepPair (tiny : α) (differ : Bool) (oi oj gi gj qii qjj qij bi bj : α) : α × α :=
  if differ then
    let q := qii + qjj + (1 + 1) * qij
    let q := if q ≤ 0 then tiny else q
    let delta := (-(gi + gj)) / q
    clipOpp (oi + delta) (oj + delta) (oi - oj) bi bj
  else
    let q := qii + qjj - (1 + 1) * qij
    let q := if q ≤ 0 then tiny else q
    let delta := (gi - gj) / q
    clipSame (oi - delta) (oj + delta) (oi + oj) bi bj

def update (e : Env α) (s : St α) (i j : Nat) : St α :=
  let n := ntotal s
  let na := s.nactive
  let di := dist e s i na
  let dj := dist e s j na
  let bi := gf s.bounds i
  let bj := gf s.bounds j
  let oi := gf s.alpha i
  let oj := gf s.alpha j
  let ui := reachedUpper s i
  let uj := reachedUpper s j
  let (ai, aj) := stepPair e.tiny (gb s.y i != gb s.y j) oi oj (gf s.grad i) (gf s.grad j)
    (selfDist e s i) (selfDist e s j) (gf di j) bi bj
  let dai := ai - oi
  let daj := aj - oj
  let grad := List.zipWith (fun gk (dk : α × α) => gk + (dk.1 * dai + dk.2 * daj)) (s.grad.take na) (di.zip dj)
    ++ s.grad.drop na
  let s1 : St α := { s with alpha := (s.alpha.set i ai).set j aj, grad := grad,
                            ub := (s.ub.set i bi).set j bj }
  let s2 :=
    if ui != reachedUpper s1 i then
      let di := dist e s1 i n
      if ui then { s1 with gbar := subScaledPrefix s1.gbar bi di n }
      else { s1 with gbar := addScaledPrefix s1.gbar bi di n }
    else s1
  if uj != reachedUpper s2 j then
    let dj := dist e s2 j n
    if uj then { s2 with gbar := subScaledPrefix s2.gbar bj dj n }
    else { s2 with gbar := addScaledPrefix s2.gbar bj dj n }
  else s2

/-! ### working-set selection (maximal violating pair, second-order rule) -/

def maxViolatingPair (e : Env α) (s : St α) : (α × Option Nat) × (α × Option Nat) :=
  (List.range s.nactive).foldl (fun (acc : (α × Option Nat) × (α × Option Nat)) i =>
    let g1 := acc.1
    let g2 := acc.2
    let G := gf s.grad i
    if gb s.y i then
      let g1 := if !reachedUpper s i && decide (g1.1 ≤ -G) then (-G, some i) else g1
      let g2 := if !reachedLower s i && decide (g2.1 ≤ G) then (G, some i) else g2
      (g1, g2)
    else
      let g2 := if !reachedUpper s i && decide (g2.1 ≤ -G) then (-G, some i) else g2
      let g1 := if !reachedLower s i && decide (g1.1 ≤ G) then (G, some i) else g1
      (g1, g2)) ((-e.inf, none), (-e.inf, none))

/-- the candidate `j` of `select_working_set` for the violator `i` with value `gm` (second-order rule) -/
def selectObjMin (e : Env α) (s : St α) (gm : α) (i : Nat) : α × Option Nat :=
  let di := dist e s i (ntotal s)
  (List.range s.nactive).foldl (fun (m : α × Option Nat) j =>
    let dij := gf di j
    if gb s.y j then
      if !reachedLower s j then
        let gd := gm + gf s.grad j
        if 0 < gd then
          let q := selfDist e s i + selfDist e s j - (1 + 1) * tgt s i * dij
          let od := if 0 < q then (-(gd * gd)) / q else (-(gd * gd)) / e.tiny
          if od ≤ m.1 then (od, some j) else m
        else m
      else m
    else if !reachedUpper s j then
      let gd := gm - gf s.grad j
      if 0 < gd then
        let q := selfDist e s i + selfDist e s j + (1 + 1) * tgt s i * dij
        let od := if 0 < q then (-(gd * gd)) / q else (-(gd * gd)) / e.tiny
        if od ≤ m.1 then (od, some j) else m
      else m
    else m) (e.inf, none)

/-- `(i, j, is_optimal)`, the body of `select_working_set` below the `nu_constraint` dispatch -/
def selectWorkingSetC (e : Env α) (s : St α) : Nat × Nat × Bool :=
  let mv := maxViolatingPair e s
  let gmax := mv.1
  let gmax2 := mv.2
  let objMin : α × Option Nat :=
    match gmax.2 with
    | none => (e.inf, none)
    | some i => selectObjMin e s gmax.1 i
  match gmax.2, objMin.2 with
  | some i, some j => if gmax.1 + gmax2.1 < e.eps then (0, 0, true) else (i, j, false)
  | _, _ => (0, 0, true)

/-- `max_violating_pair_nu`: `(gmax1, gmax2, gmax3, gmax4)` = the maxima of `-G` over the positive
not-upper, of `G` over the negative not-lower, of `G` over the positive not-lower and of `-G` over
the negative not-upper variables (strict comparisons: the first maximiser is kept) -/
def maxViolatingPairNu (e : Env α) (s : St α) :
    (α × Option Nat) × (α × Option Nat) × (α × Option Nat) × (α × Option Nat) :=
  (List.range s.nactive).foldl
    (fun (acc : (α × Option Nat) × (α × Option Nat) × (α × Option Nat) × (α × Option Nat)) i =>
      let g1 := acc.1
      let g2 := acc.2.1
      let g3 := acc.2.2.1
      let g4 := acc.2.2.2
      let G := gf s.grad i
      if gb s.y i then
        let g1 := if !reachedUpper s i && decide (g1.1 < -G) then (-G, some i) else g1
        let g3 := if !reachedLower s i && decide (g3.1 < G) then (G, some i) else g3
        (g1, g2, g3, g4)
      else
        let g4 := if !reachedUpper s i && decide (g4.1 < -G) then (-G, some i) else g4
        let g2 := if !reachedLower s i && decide (g2.1 < G) then (G, some i) else g2
        (g1, g2, g3, g4))
    ((-e.inf, none), (-e.inf, none), (-e.inf, none), (-e.inf, none))

/-- the candidate `j` of `select_working_set_nu` (second-order rule inside each class); the kernel
columns of the two class violators are fetched once, before the loop -/
def selectNuObjMin (e : Env α) (s : St α) (gp1 gn1 : α × Option Nat) : α × Option Nat :=
  let dip := gp1.2.map fun i => (i, dist e s i (ntotal s))
  let din := gn1.2.map fun i => (i, dist e s i (ntotal s))
  (List.range s.nactive).foldl (fun (m : α × Option Nat) j =>
    if gb s.y j then
      if !reachedLower s j then
        let gd := gp1.1 + gf s.grad j
        if 0 < gd then
          match dip with
          | some idi =>
            let q := selfDist e s idi.1 + selfDist e s j - (1 + 1) * gf idi.2 j
            let od := if 0 < q then (-(gd * gd)) / q else (-(gd * gd)) / e.tiny
            if od ≤ m.1 then (od, some j) else m
          | none => m
        else m
      else m
    else if !reachedUpper s j then
      let gd := gn1.1 - gf s.grad j
      if 0 < gd then
        match din with
        | some idi =>
          let q := selfDist e s idi.1 + selfDist e s j - (1 + 1) * gf idi.2 j
          let od := if 0 < q then (-(gd * gd)) / q else (-(gd * gd)) / e.tiny
          if od ≤ m.1 then (od, some j) else m
        | none => m
      else m
    else m) (e.inf, none)

/-- `select_working_set_nu`: `i` is the maximal violator **of the class of `j`** -/
def selectWorkingSetNu (e : Env α) (s : St α) : Nat × Nat × Bool :=
  let mv := maxViolatingPairNu e s
  let gp1 := mv.1
  let gn1 := mv.2.1
  let gp2 := mv.2.2.1
  let gn2 := mv.2.2.2
  let objMin := selectNuObjMin e s gp1 gn1
  match objMin.2 with
  | none => (0, 0, true)
  | some j =>
    if maxS (gp1.1 + gp2.1) (gn1.1 + gn2.1) < e.eps then (0, 0, true)
    else
      let i := if gb s.y j then gp1.2.getD 0 else gn1.2.getD 0
      (i, j, false)

/-- `select_working_set` -/
def selectWorkingSet (e : Env α) (s : St α) : Nat × Nat × Bool :=
  if e.nu then selectWorkingSetNu e s else selectWorkingSetC e s

/-! ### shrinking -/

def shouldShrink (s : St α) (i : Nat) (g1 g2 : α) : Bool :=
  if reachedUpper s i then
    if gb s.y i then decide (g1 < -gf s.grad i) else decide (g2 < -gf s.grad i)
  else if reachedLower s i then
    if gb s.y i then decide (g2 < gf s.grad i) else decide (g1 < -gf s.grad i)
  else false

/-- `should_shrunk_nu` -/
def shouldShrinkNu (s : St α) (i : Nat) (g1 g2 g3 g4 : α) : Bool :=
  if reachedUpper s i then
    if gb s.y i then decide (g1 < -gf s.grad i) else decide (g4 < -gf s.grad i)
  else if reachedLower s i then
    if gb s.y i then decide (g2 < gf s.grad i) else decide (g3 < gf s.grad i)
  else false

/-- the inner `while self.nactive > i` (`sh` = `should_shrunk` / `should_shrunk_nu` with the maxima
computed before the loops) -/
def shrinkInner (sh : St α → Nat → Bool) (i : Nat) : Nat → St α → St α
  | 0, s => s
  | fuel + 1, s =>
    if i < s.nactive then
      if !sh s s.nactive then swap s i s.nactive
      else shrinkInner sh i fuel { s with nactive := s.nactive - 1 }
    else s

/-- the outer `while i < self.nactive()` -/
def shrinkOuter (sh : St α → Nat → Bool) : Nat → Nat → St α → St α
  | 0, _, s => s
  | fuel + 1, i, s =>
    if i < s.nactive then
      let s := if sh s i then
          shrinkInner sh i s.nactive { s with nactive := s.nactive - 1 }
        else s
      shrinkOuter sh fuel (i + 1) s
    else s

def doShrinkingC (e : Env α) (s : St α) : St α :=
  let (m1, m2) := maxViolatingPair e s
  let g1 := m1.1
  let g2 := m2.1
  let s :=
    if !s.unshrink && decide (g1 + g2 ≤ e.eps * ((10 : Nat) : α)) then
      let s := reconstructGradient e { s with unshrink := true }
      { s with nactive := ntotal s }
    else s
  shrinkOuter (fun s i => shouldShrink s i g1 g2) s.nactive 0 s

/-- `do_shrinking_nu` (the un-shrink test pairs `gmax1 + gmax2` and `gmax3 + gmax4` as the code does) -/
def doShrinkingNu (e : Env α) (s : St α) : St α :=
  let (m1, m2, m3, m4) := maxViolatingPairNu e s
  let g1 := m1.1
  let g2 := m2.1
  let g3 := m3.1
  let g4 := m4.1
  let s :=
    if !s.unshrink && decide (maxS (g1 + g2) (g3 + g4) ≤ e.eps * ((10 : Nat) : α)) then
      let s := reconstructGradient e { s with unshrink := true }
      { s with nactive := ntotal s }
    else s
  shrinkOuter (fun s i => shouldShrinkNu s i g1 g2 g3 g4) s.nactive 0 s

/-- `do_shrinking` -/
def doShrinking (e : Env α) (s : St α) : St α :=
  if e.nu then doShrinkingNu e s else doShrinkingC e s

/-! ### `calculate_rho` -/

def calculateRhoC (e : Env α) (s : St α) : α :=
  let r := (List.range s.nactive).foldl (fun (acc : Nat × α × α × α) i =>
    let (nfree, sumFree, ub, lb) := acc
    let yg := tgt s i * gf s.grad i
    if reachedUpper s i then
      if gb s.y i then (nfree, sumFree, ub, maxS lb yg) else (nfree, sumFree, minS ub yg, lb)
    else if reachedLower s i then
      if gb s.y i then (nfree, sumFree, minS ub yg, lb) else (nfree, sumFree, ub, maxS lb yg)
    else (nfree + 1, sumFree + yg, ub, lb)) (0, 0, e.inf, -e.inf)
  let (nfree, sumFree, ub, lb) := r
  if 0 < nfree then sumFree / ((nfree : Nat) : α) else (ub + lb) / (1 + 1)

/-- per-class scan of `calculate_rho_nu`: `(nfree, sum_free, ub, lb)` over the active variables with label `cls` -/
def rhoNuClass (e : Env α) (s : St α) (cls : Bool) : α :=
  let r := (List.range s.nactive).foldl (fun (acc : Nat × α × α × α) i =>
    let (nfree, sumFree, ub, lb) := acc
    if gb s.y i == cls then
      let G := gf s.grad i
      if reachedUpper s i then (nfree, sumFree, ub, maxS lb G)
      else if reachedLower s i then (nfree, sumFree, minS ub G, lb)
      else (nfree + 1, sumFree + G, ub, lb)
    else acc) (0, 0, e.inf, -e.inf)
  let (nfree, sumFree, ub, lb) := r
  if 0 < nfree then sumFree / ((nfree : Nat) : α) else (ub + lb) / (1 + 1)

/-- `calculate_rho_nu`: `(rho, r)` with `r1`, `r2` the class multipliers -/
def calculateRhoNu (e : Env α) (s : St α) : α × α :=
  let r1 := rhoNuClass e s true
  let r2 := rhoNuClass e s false
  ((r1 - r2) / (1 + 1), (r1 + r2) / (1 + 1))

/-- `calculate_rho` (the value returned) -/
def calculateRho (e : Env α) (s : St α) : α :=
  if e.nu then (calculateRhoNu e s).1 else calculateRhoC e s

/-- the field `r` after `calculate_rho` (untouched `0` without `nu_constraint`) -/
def calculateR (e : Env α) (s : St α) : α :=
  if e.nu then (calculateRhoNu e s).2 else 0

/-! ### `solve` -/

/-- the main loop; returns the state, the iteration count and whether the loop ended by `break` -/
def solveLoop (e : Env α) (shrinking : Bool) : Nat → St α → Nat → Nat → St α × Nat × Bool
  | 0, s, iter, _ => (s, iter, false)
  | fuel + 1, s, iter, counter =>
    let counter := counter - 1
    let s1 := if counter == 0 && shrinking then doShrinking e s else s
    let counter1 := if counter == 0 then min (ntotal s) 1000 else counter
    let w := selectWorkingSet e s1
    if w.2.2 then
      let s2 := reconstructGradient e s1
      let s3 := { s2 with nactive := ntotal s2 }
      let w2 := selectWorkingSet e s3
      if w2.2.2 then (s3, iter, true)
      else solveLoop e shrinking fuel (update e s3 w2.1 w2.2.1) (iter + 1) 1
    else solveLoop e shrinking fuel (update e s1 w.1 w.2.1) (iter + 1) counter1

/-- `alpha[active_set[i]] = self.alpha[i]` -/
def writeBack (s : St α) : List α :=
  (List.range (ntotal s)).foldl (fun out i => out.set (gn s.active i) (gf s.alpha i))
    (List.replicate (ntotal s) 0)

/-- labels in sample order -/
def sampleTargets (s : St α) : List α :=
  (List.range (ntotal s)).foldl (fun out i => out.set (gn s.active i) (tgt s i))
    (List.replicate (ntotal s) 1)

/-- regression: `alpha[i] - alpha[i + nsamples]` when the solver held `2 * nsamples` variables -/
def foldRegression (alpha : List α) (nsamples : Nat) : List α :=
  if nsamples < alpha.length then
    (List.range nsamples).map fun i => gf alpha i - gf alpha (i + nsamples)
  else alpha

structure Solved (α : Type) where
  alpha : List α
  rho : α
  /-- `SolverState::r` (published as `Some(r)` under `nu_constraint`) -/
  r : α
  obj : α
  iterations : Nat
  finished : Bool
  /-- linear kernel: the combined weight vector -/
  linear : List α
  /-- otherwise: indices of the selected support vectors -/
  support : List Nat

def supportIdx (thr : α) (alpha : List α) : List Nat :=
  (List.range alpha.length).filter fun i => decide (thr < absS (gf alpha i))

/-- `Svm::nsupport` -/
def nsupport (thr : α) (alpha : List α) : Nat := (alpha.filter fun a => decide (thr < absS a)).length

def linearHyperplane (st : List α) (alpha : List α) (X : List (List α)) (d : Nat) : List α :=
  (List.range X.length).foldl (fun w i =>
    let c := gf st i * gf alpha i
    List.zipWith (fun wk xk => wk + c * xk) w (X.getD i [])) (List.replicate d 0)

def solve (e : Env α) (thr : α) (shrinking : Bool) (fuel : Nat) (X : List (List α)) (d : Nat)
    (s0 : St α) : Solved α :=
  let n := ntotal s0
  let (s, iter, fin) := solveLoop e shrinking fuel s0 0 (min n 1000 + 1)
  let rho := calculateRho e s
  let v := (List.range n).foldl (fun v i => v + gf s.alpha i * (gf s.grad i + gf s.p i)) 0
  let alpha := foldRegression (writeBack s) X.length
  { alpha := alpha, rho := rho, r := calculateR e s, obj := v / (1 + 1), iterations := iter, finished := fin,
    linear := linearHyperplane (sampleTargets s) alpha X d,
    support := supportIdx thr alpha }

/-- `Svm::weighted_sum` for the non-linear case: the selected rows zipped with the re-filtered
coefficients (`kv i` = kernel value between support row `i` and the query) -/
def weightedSum (thr : α) (alpha : List α) (kv : List α) : α :=
  sumS (List.zipWith (fun k a => k * a) kv (alpha.filter fun a => decide (thr < absS a)))

end
end LinfaSpec.Smo
