/-
C01 — model of `DatasetBase::fold`, `DatasetBase::iter_fold`, `cross_validate`
(src/dataset/impl_dataset.rs).  Core Lean only.

Rows are values of an arbitrary type; records and targets are folded by the
*same* polymorphic functions applied to the two parallel containers, exactly as
the Rust code chunks / swaps `records` and `targets` in tandem.
-/
namespace LinfaSpec.Fold

/-- contract of ndarray's `axis_chunks_iter(Axis(0), fs)`: chunk `i` is rows
`[i*fs, min((i+1)*fs, n))`, there are `ceil(n/fs)` of them (the last one may be short).
`fs = 0` panics in ndarray; callers guard it.  (linfa's own `ChunksIter` is `sampleChunks`
below: it yields `floor(n/fs)` full blocks only.) -/
def chunks {α} (fs : Nat) (l : List α) : List (List α) :=
  (List.range ((l.length + fs - 1) / fs)).map fun i => (l.drop (i * fs)).take fs

/-- `Vec::swap(0, j)` (in range). -/
def swap0 {α} (l : List α) (j : Nat) : List α :=
  match l[0]?, l[j]? with
  | some a, some b => (l.set 0 b).set j a
  | _, _ => l

/-- the `for i in 0..k` loop of `fold`; `fuel` counts the remaining iterations,
`i` is the loop variable, `cs` the (rotating) chunk vector.
Each iteration yields `(training, validation)`. -/
def foldGo {α} (k : Nat) : Nat → Nat → List (List α) → List (List α × List α)
  | 0, _, _ => []
  | fuel + 1, i, cs =>
    (cs.tail.flatten, cs.headD []) ::
      foldGo k fuel (i + 1) (if i < k - 1 then swap0 cs (i + 1) else cs)

/-- `fold(k)` on one of the two parallel containers; `none` = the call panics
(`k = 0`: division by zero; `fold_size = 0`: ndarray rejects chunk size 0;
fewer than two chunks: `concatenate` of an empty slice is an `Err` that is
unwrapped; fewer than `k` chunks: `swap(0, i+1)` out of bounds).  For
`2 ≤ k ≤ n` none of these happens (`foldPairs_isSome`). -/
def foldPairs {α} (k : Nat) (ds : List α) : Option (List (List α × List α)) :=
  if k = 0 then none
  else if ds.length / k = 0 then none
  else
    let cs := chunks (ds.length / k) ds
    if cs.length < 2 ∨ cs.length < k then none
    else some (foldGo k k 0 cs)

/-- `fold` on one of the two containers with the chunk size HANDED IN: the Rust code computes
one `fold_size` (`targets.len_of(Axis(0)) / k`) and chunks records and targets with it. -/
def foldWith {α} (fs k : Nat) (ds : List α) : Option (List (List α × List α)) :=
  if fs = 0 then none
  else
    let cs := chunks fs ds
    if cs.length < 2 ∨ cs.length < k then none
    else some (foldGo k k 0 cs)

/-- `DatasetBase::fold(k)` on the dataset: ONE fold size, taken from the row count of the
targets, applied to records and targets; the two chunk vectors go through the same loop (same
swaps) and pair `i` of the result is ((training records, training targets), (validation
records, validation targets)).  `none` = the call panics. -/
def foldDataset {α β} (k : Nat) (recs : List α) (tgts : List β) :
    Option (List ((List α × List β) × (List α × List β))) :=
  if k = 0 then none
  else
    let fs := tgts.length / k
    match foldWith fs k recs, foldWith fs k tgts with
    | some fr, some ft => some ((fr.zip ft).map fun x => ((x.1.1, x.2.1), (x.1.2, x.2.2)))
    | _, _ => none

/-- `assist_swap_array2!(slice, i, fold_size, stride)` -/
def swapBlock {α} (buf : List α) (i fs stride : Nat) : List α :=
  if i = 0 then buf
  else
    let w := fs * stride
    let start := w * i
    (buf.drop start).take w ++ (buf.take start).drop w ++ buf.take w ++ buf.drop (start + w)

structure IterFoldOut (α β : Type) where
  /-- flat training views handed to the closure, fold by fold -/
  trains : List (List α × List β)
  /-- validation chunks zipped with the results -/
  valids : List (List α × List β)
  finalR : List α
  finalT : List β

/-- the in-place loop of `iter_fold` on the two flat buffers (row-major,
`p` record cells and `t` target cells per sample). -/
def iterGo {α β} (fs p t : Nat) : Nat → Nat → List α → List β →
    List (List α × List β) × List α × List β
  | 0, _, r, g => ([], r, g)
  | fuel + 1, i, r, g =>
    let r1 := swapBlock r i fs p
    let g1 := swapBlock g i fs t
    let train := (r1.drop (fs * p), g1.drop (fs * t))
    let r2 := swapBlock r1 i fs p
    let g2 := swapBlock g1 i fs t
    let (rest, rf, gf) := iterGo fs p t fuel (i + 1) r2 g2
    (train :: rest, rf, gf)

/-- linfa's `ChunksIter` (`sample_chunks(fs)`) on a flat row-major buffer of `n` samples, `w`
cells per sample: `n / fs` blocks of `fs` WHOLE samples each (`slice_axis` on the logical rows;
a trailing partial block is not yielded).  Also right for `w = 0` (blocks of zero-width rows). -/
def sampleChunks {α} (n fs w : Nat) (buf : List α) : List (List α) :=
  (List.range (n / fs)).map fun i => (buf.drop (i * (fs * w))).take (fs * w)

/-- `iter_fold(k, closure)`; `none` = one of the two `assert!`s fires. -/
def iterFold {α β} (n k p t : Nat) (recs : List α) (tgts : List β) :
    Option (IterFoldOut α β) :=
  if k = 0 ∨ n < k then none
  else
    let fs := n / k
    let (trains, rf, gf) := iterGo fs p t k 0 recs tgts
    -- `objs.into_iter().zip(self.sample_chunks(fold_size))`: the `k` results cut the
    -- `n / fs ≥ k` validation blocks down to the first `k`
    let vr := sampleChunks n fs p rf
    let vt := sampleChunks n fs t gf
    some { trains := trains, valids := (vr.zip vt).take k, finalR := rf, finalT := gf }

/-! ### cross_validate -/

/-- one fold of `cross_validate`: all fits first (`collect::<Result<Vec<_>,_>>`
stops at the first failing model), then per model predict + eval (first
failing eval stops the fold).  `fits[m]` and `evals[m]` are the scripted
outcomes of model `m` on this fold: `evals[m]` is only looked at when every fit
succeeded. -/
def cvFold {ε σ} (fits : List (Except ε Unit)) (evals : List (Except ε (List σ))) :
    Except ε (List (List σ)) :=
  match fits.mapM id with
  | .error e => .error e
  | .ok _ => evals.mapM id

def addRow {σ} [Add σ] (a b : List σ) : List σ := List.zipWith (· + ·) a b
def addMat {σ} [Add σ] (a b : List (List σ)) : List (List σ) := List.zipWith addRow a b

/-- `cross_validate`: `folds[f] = (fits, evals)` as in `cvFold`.  The result is
`models × targets`.  Errors: first failing fold in fold order. -/
def crossValidate {ε σ} [Add σ] [Div σ] [OfNat σ 0] [NatCast σ]
    (k nmodels ntargets : Nat)
    (folds : List (List (Except ε Unit) × List (Except ε (List σ)))) :
    Except ε (List (List σ)) :=
  match folds.mapM (fun f => cvFold f.1 f.2) with
  | .error e => .error e
  | .ok fes =>
    let zero : List (List σ) := List.replicate nmodels (List.replicate ntargets 0)
    -- each fold: `eval_predictions` starts at zero and the model's row is added
    let acc := fes.foldl (fun acc fe => addMat acc (addMat zero fe)) zero
    .ok (acc.map fun row => row.map fun x => x / (k : σ))

/-! ### glue around the core: layout guard, the calling forms of cross-validation, counted labels -/

/-- `iter_fold` as it is called on an arbitrary `DataMut` dataset: the two `assert!`s, then
`records.as_slice_mut().unwrap()` / `targets.as_slice_mut().unwrap()` — `None` (a panic, as
documented under "Panics") unless both arrays are contiguous in standard (row-major) order —
then the in-place loop on the flat buffers.  `stdR` / `stdT` say whether the
two `as_slice_mut()` calls answer `Some`: the records array is in standard layout; the targets
array is in standard layout AFTER `as_targets_mut()` (`view_mut()`) made its storage unique (a
shared `ArcArray` that shows at most half of its allocation is copied compactly at that point,
so it passes).  An array without cells passes. -/
def iterFoldLayout {α β} (stdR stdT : Bool) (n k p t : Nat) (recs : List α) (tgts : List β) :
    Option (IterFoldOut α β) :=
  if k = 0 ∨ n < k then none
  else if stdR = false ∨ stdT = false then none
  else iterFold n k p t recs tgts

/-- one fold of `cross_validate` on real fit results: `fits[m]` is `parameters[m].fit(train)`,
`score md` is `eval(md.predict(valid.records()), valid.targets())`.  All fits first
(`collect::<Result<Vec<_>,_>>`), then predict + eval model by model (`?`). -/
def cvFoldM {ε μ σ} (fits : List (Except ε μ)) (score : μ → Except ε (List σ)) :
    Except ε (List (List σ)) :=
  match fits.mapM id with
  | .error e => .error e
  | .ok ms => ms.mapM score

/-- the scripted tables (`cvFold`'s arguments) that a fold with real fit results amounts to -/
def scriptOf {ε μ σ} (fits : List (Except ε μ)) (score : μ → Except ε (List σ)) :
    List (Except ε Unit) × List (Except ε (List σ)) :=
  (fits.map (fun f => f.map fun _ => ()), fits.map (fun f => f.bind score))

structure CvOut (α β ε σ : Type) where
  result : Except ε (List (List σ))
  finalR : List α
  finalT : List β

/-- `cross_validate(k, parameters, eval)` on a dataset: `iter_fold` with the closure
"fit every parameter set on the training view", then per fold predict + eval on the
validation view, accumulate, divide by `k`.  `params[m] (trainR, trainT)` is `Fit::fit`,
`score md (validR, validT)` is predict-then-eval.  `none` = `iter_fold` panics.  The
buffers come back through `iter_fold` (the fits run inside it, the evaluations after it). -/
def crossValidateOn {α β ε μ σ} [Add σ] [Div σ] [OfNat σ 0] [NatCast σ]
    (stdR stdT : Bool) (n k p t : Nat) (recs : List α) (tgts : List β)
    (params : List (List α × List β → Except ε μ))
    (score : μ → List α × List β → Except ε (List σ)) (ntargets : Nat) :
    Option (CvOut α β ε σ) :=
  match iterFoldLayout stdR stdT n k p t recs tgts with
  | none => none
  | some o =>
    let folds := (o.trains.zip o.valids).map fun (tr, va) =>
      scriptOf (params.map fun f => f tr) (fun md => score md va)
    some { result := crossValidate k params.length ntargets folds,
           finalR := o.finalR, finalT := o.finalT }

/-- `cross_validate_single`: the evaluation closure returns one number, wrapped by `arr0`;
the result is one number per model (`Array1`, the row of the `(m)`-shaped accumulator). -/
def crossValidateSingleOn {α β ε μ σ} [Add σ] [Div σ] [OfNat σ 0] [NatCast σ]
    (stdR stdT : Bool) (n k p : Nat) (recs : List α) (tgts : List β)
    (params : List (List α × List β → Except ε μ))
    (score1 : μ → List α × List β → Except ε σ) :
    Option (Except ε (List σ) × List α × List β) :=
  match crossValidateOn stdR stdT n k p 1 recs tgts params
      (fun md va => match score1 md va with | .ok x => .ok [x] | .error e => .error e) 1 with
  | none => none
  | some o =>
    some (match o.result with | .ok rows => .ok (rows.map fun r => r.headD 0) | .error e => .error e,
          o.finalR, o.finalT)

/-- `Labels::label_count` of one target column, read off at a label: the number of
occurrences (the hash map's value; absent = 0). -/
def labelCount {γ} [BEq γ] (col : List γ) (l : γ) : Nat := col.count l

/-- `CountedTargets::new_targets` on the two parts of a fold pair (one target column):
the label counts are recomputed from the part's own targets. -/
def foldCounted {γ} [BEq γ] (k : Nat) (tgts : List γ) :
    Option (List ((List γ × (γ → Nat)) × (List γ × (γ → Nat)))) :=
  (foldPairs k tgts).map fun ps => ps.map fun (tr, va) => ((tr, labelCount tr), (va, labelCount va))

end LinfaSpec.Fold
