/-
C06 — model of `ValidHierarchicalCluster::transform` (core Lean only).

`kodama::linkage` is external: its dendrogram (`steps`) is a parameter, read from the real crate
by the harness and validated there against the dendrogram contract.  The `HashMap<usize, Vec<usize>>`
is an association list; the order in which the final clusters are enumerated (hash order in Rust,
list order here) only renames the labels, so labelings are compared after `canon`.
-/
import LinfaSpec.Model.Scalar

namespace LinfaSpec.Hier
open LinfaSpec

/-- `kodama::Step` -/
structure Step (α : Type) where
  c1 : Nat
  c2 : Nat
  dis : α
  size : Nat

/-- `Criterion<F>` -/
inductive Crit (α : Type) where
  | num (c : Nat)
  | dist (d : α)

/-- `if x > threshold { -x.ln() } else { -threshold.ln() }` -/
def toDist {α : Type} [LT α] [DecidableLT α] [Neg α] [Transc α] (thr x : α) : α :=
  if thr < x then -(Transc.ln x) else -(Transc.ln thr)

abbrev Clusters := List (Nat × List Nat)

/-- `clusters.remove(&k)` -/
def removeKey (k : Nat) : Clusters → Option (List Nat × Clusters)
  | [] => none
  | (k', ids) :: rest =>
    if k' = k then some (ids, rest)
    else match removeKey k rest with
      | none => none
      | some (r, cl) => some (r, (k', ids) :: cl)

section
variable {α : Type} [LE α] [DecidableLE α]

/-- `clusters.len() <= max_clusters` resp. `step.dissimilarity >= dis`, tested *before* the merge -/
def shouldStop (crit : Crit α) (ncl : Nat) (s : Step α) : Bool :=
  match crit with
  | .num c => decide (ncl ≤ c)
  | .dist d => decide (d ≤ s.dis)

/-- the `for step in res.steps()` loop; `none` = an `unwrap` on a missing cluster id panics -/
def replayGo (crit : Crit α) : List (Step α) → Clusters → Nat → Option Clusters
  | [], cl, _ => some cl
  | s :: rest, cl, ct =>
    if shouldStop crit cl.length s then some cl
    else match removeKey s.c1 cl with
      | none => none
      | some (a, cl1) =>
        match removeKey s.c2 cl1 with
        | none => none
        | some (b, cl2) => replayGo crit rest ((ct, a ++ b) :: cl2) (ct + 1)

/-- at the beginning every node is in its own cluster -/
def initClusters (n : Nat) : Clusters := (List.range n).map fun x => (x, [x])

def replay (crit : Crit α) (n : Nat) (steps : List (Step α)) : Option Clusters :=
  replayGo crit steps (initClusters n) n

end

/-- `tmp = vec![0; n]; for (i, (_, ids)) in clusters.enumerate() { for id in ids { tmp[id] = i } }` -/
def assign (n : Nat) (cl : Clusters) : List Nat :=
  (cl.zipIdx).foldl (fun tmp e => e.1.2.foldl (fun t id => t.set id e.2) tmp) (List.replicate n 0)

/-- a labeling up to renaming: every sample gets the first sample carrying the same label -/
def canon (l : List Nat) : List Nat := l.map fun x => l.idxOf x

/-- number of distinct labels -/
def nLabels (l : List Nat) : Nat := (l.eraseDups).length

/-! ### the parameter guard and the unchecked-parameter `transform` (`TransformGuard`) -/

/-- the three float predicates used by `check_ref` (`is_negative` is the sign bit: `-0.0` counts) -/
structure FloatPreds (α : Type) where
  isNeg : α → Bool
  isNan : α → Bool
  isInf : α → Bool

/-- `ParamGuard::check_ref` of `HierarchicalCluster`: `NumClusters(0)` and a negative, NaN or infinite
`Distance` are `InvalidStoppingCondition` -/
def checkCrit {α : Type} (fp : FloatPreds α) : Crit α → Bool
  | .num 0 => false
  | .num _ => true
  | .dist x => !(fp.isNeg x || fp.isNan x || fp.isInf x)

/-- what `HierarchicalCluster::transform` (both the `Kernel` and the `DatasetBase<Kernel, T>` form, which
only unwraps the records) does -/
inductive Outcome where
  | invalid
  | panic
  | ok (cl : Clusters)

def transform {α : Type} [LE α] [DecidableLE α] (fp : FloatPreds α) (crit : Crit α) (n : Nat)
    (steps : List (Step α)) : Outcome :=
  if checkCrit fp crit then
    match replay crit n steps with
    | none => .panic
    | some cl => .ok cl
  else .invalid

/-! ### the transform seen from the kernel

`ValidHierarchicalCluster::transform(kernel)`: the upper triangle of the kernel goes through the `-ln`
transform with the `F::cast(1e-6)` floor (`thr`), the condensed distance vector is handed to
`kodama::linkage` (external: the parameter `link`), and the dendrogram is replayed.  The driver answers every
`hier` request through `transformKernel`, with `link` = the recorded answer of the real `kodama::linkage`
for the recorded distance vector (`recorded`). -/

/-- the condensed dissimilarity vector handed to `kodama::linkage` -/
def distances {α : Type} [LT α] [DecidableLT α] [Neg α] [Transc α] (thr : α) (ut : List α) : List α :=
  ut.map (toDist thr)

/-- `HierarchicalCluster::transform` from the upper triangle of the kernel -/
def transformKernel {α : Type} [LT α] [DecidableLT α] [LE α] [DecidableLE α] [Neg α] [Transc α]
    (fp : FloatPreds α) (thr : α) (link : List α → Nat → List (Step α)) (crit : Crit α) (n : Nat)
    (ut : List α) : Outcome :=
  transform fp crit n (link (distances thr ut) n)

/-- an external call answered from a record: the dendrogram `steps` is the answer to the question `q`
(up to `close`, because libm's `ln` may differ in the last place between the two sides); any other question
gets no dendrogram, so a model transform that differs from the code's is not silently accepted -/
def recorded {α : Type} (close : α → α → Bool) (q : List α) (steps : List (Step α)) :
    List α → Nat → List (Step α) :=
  fun d _ => if d.length == q.length && (d.zip q).all (fun e => close e.1 e.2) then steps else []

end LinfaSpec.Hier
