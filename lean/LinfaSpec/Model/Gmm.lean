import LinfaSpec.Model.Scalar

/-!
Model of `linfa-clustering/src/gaussian_mixture/algorithm.rs` (core Lean only).

What is modelled (one definition, run on `Float` by the driver, proved about over
ordered fields / `ℝ`):

* `estimate_gaussian_parameters` + `estimate_gaussian_covariances_full` and the
  `weights = nk / n_samples` line of `new` / `m_step`  → `estimateParams`
  (with the `EmptyCluster` guard `nk.min() < 10·ε`, `ε` a parameter);
* `compute_precisions_full`  → `precisionsFull` (`P = C Cᵀ` of `precisions_chol`);
* `compute_log_det_cholesky_full`, `estimate_log_gaussian_prob`,
  `estimate_log_weights`, `estimate_weighted_log_prob`  → `logDet`, `maha`,
  `weightedLogProb`;
* `estimate_log_prob_resp` **as repaired** (row maximum taken out before `exp`)
  → `logRespStable`; the form it had before the repair → `logRespNaive`;
* `predict_proba`, `predict_inplace`  → `predictProba`, `predict`
  (`argmax` = first index of the maximum, ndarray-stats).

* the loop of `GmmValidParams::fit` → `runLoop`, `fitRuns`, `fitOutcome` (over the trace of lower
  bounds of the chain of EM states);
* `compute_precisions_cholesky_full` incl. the two `linfa-linalg` routines it calls
  (`cholesky_inplace_dirty`, forward substitution of `solve_triangular_into(eye, Lower)`), operation
  by operation → `cholRowD`, `cholRow`, `cholesky`, `solveLowerCol`, `precCholOf`;
* the methods `e_step` / `m_step` on whole model states and the whole of `fit` from the initial state
  → `eStepFull`, `mStepFull`, `emStepFull`, `chainFrom`, `fitFull`.

Not modelled: k-means / random initial responsibilities (`GaussianMixtureModel::new`; the initial
state is an input of `fitFull`).  That the modelled Cholesky satisfies `L Lᵀ = Σ` is a hypothesis of
`precision_is_inverse` (validated numerically by the oracle), not a theorem.

Matrices are lists of rows; sums run over `List.range n` in index order — the
order of the Rust loops up to the blocked kernels of `matrixmultiply`
(compared with a tolerance).
-/
namespace LinfaSpec.Gmm
open LinfaSpec

section
variable {α : Type} [Add α] [Sub α] [Mul α] [Div α] [Neg α] [LT α] [DecidableLT α]
  [LE α] [DecidableLE α] [OfNat α 0] [OfNat α 1] [NatCast α]

/-- entry `(i, j)` of a matrix given as a list of rows (0 outside) -/
def at2 (m : List (List α)) (i j : Nat) : α := (m.getD i []).getD j 0

/-- `Σ_{i<n} f i`, summed in index order starting from 0 -/
def sumRange (n : Nat) (f : Nat → α) : α := sumS ((List.range n).map f)

/-- `nk = resp.sum_axis(Axis(0))` -/
def nkOf (n k : Nat) (r : List (List α)) : List α :=
  (List.range k).map fun j => sumRange n fun i => at2 r i j

/-- `means = resp.t().dot(observations) / nk` -/
def meansOf (n d k : Nat) (x r : List (List α)) (nk : List α) : List (List α) :=
  (List.range k).map fun j => (List.range d).map fun c =>
    sumRange n (fun i => at2 r i j * at2 x i c) / nk.getD j 0

/-- `estimate_gaussian_covariances_full`: `diff = X − μ_j`, `m = diffᵀ ∘ r_j`,
`cov_j = m·diff / nk_j`, then `+ reg` on the diagonal -/
def covOf (n d : Nat) (x r : List (List α)) (j : Nat) (mu : List α) (nkj reg : α) : List (List α) :=
  (List.range d).map fun a => (List.range d).map fun b =>
    let v := sumRange n (fun i => ((at2 x i a - mu.getD a 0) * at2 r i j) * (at2 x i b - mu.getD b 0)) / nkj
    if a = b then v + reg else v

structure Params (α : Type) where
  nk : List α
  weights : List α
  means : List (List α)
  covs : List (List (List α))

/-- one M-step: `estimate_gaussian_parameters` followed by `weights = nk / n`.
`thr` is the guard constant `10·ε` of the code. -/
def estimateParams (thr reg : α) (n d k : Nat) (x r : List (List α)) : Except String (Params α) :=
  let nk := nkOf n k r
  if nk.any (fun v => v < thr) then .error "EmptyCluster" else
  let mu := meansOf n d k x r nk
  .ok { nk := nk,
        weights := nk.map (fun v => v / (n : α)),
        means := mu,
        covs := (List.range k).map fun j => covOf n d x r j (mu.getD j []) (nk.getD j 0) reg }

/-- `compute_precisions_full`: `P = C · Cᵀ` -/
def precisionsFull (d : Nat) (pc : List (List α)) : List (List α) :=
  (List.range d).map fun a => (List.range d).map fun b =>
    sumRange d fun c => at2 pc a c * at2 pc b c


/-! ## The loop of `GmmValidParams::fit`

`fit` builds one initial model and then walks along ONE deterministic chain of EM states
`s₀ → s₁ → …` (`sₜ₊₁ = m_step(sₜ, e_step(sₜ).log_resp)`; the model is **not** re-initialised between
runs, a new run only forgets the previous lower bound).  What the loop decides — when a run stops, which
run is kept, `Ok` or which error — depends on the chain only through the sequence of lower bounds
`lbₜ = e_step(sₜ).log_mean` and the first error a step raises.  `tr[t]` is the outcome of step `t`
(`.ok lbₜ`, or `.error kind` when `e_step`/`m_step` failed).  `none` stands for the `−∞` the code
initialises `lower_bound` / `max_lower_bound` with. -/

/-- `change = lower_bound - prev_lower_bound; change.abs() < tolerance`; with `prev = −∞` the change is
`+∞` (or NaN): never below the tolerance -/
def convTest (tol : α) (prev : Option α) (lb : α) : Bool :=
  match prev with
  | none => false
  | some p => absS (lb - p) < tol

/-- one run, `for n_iter in 0..max_n_iterations` (`fuel` iterations left, `iter = n_iter`), from chain
position `pos` with previous lower bound `prev`.  Result: position after the run, `lower_bound`,
`converged_iter`; or the error of the step that failed (`?`). -/
def runLoop (tol : α) (tr : List (Except String α)) :
    Nat → Nat → Nat → Option α → Except String (Nat × Option α × Option Nat)
  | 0, _, pos, prev => .ok (pos, prev, none)
  | fuel + 1, iter, pos, prev =>
    match tr[pos]? with
    | none => .error "trace-exhausted"
    | some (.error e) => .error e
    | some (.ok lb) =>
      if convTest tol prev lb then .ok (pos + 1, some lb, some iter)
      else runLoop tol tr fuel (iter + 1) (pos + 1) (some lb)

/-- `max_lower_bound`, `best_params` (as the chain index of the cloned state), `best_iter` -/
structure Best (α : Type) where
  maxLb : Option α
  best : Option Nat
  bestIter : Option Nat

/-- `lower_bound > max_lower_bound` with `none = −∞` -/
def lbGreater (lb maxLb : Option α) : Bool :=
  match lb, maxLb with
  | none, _ => false
  | some _, none => true
  | some v, some m => m < v

/-- `for _ in 0..n_runs`: returns the bookkeeping after the last run and the chain position reached -/
def fitRuns (tol : α) (maxIter : Nat) (tr : List (Except String α)) :
    Nat → Nat → Best α → Except String (Best α × Nat)
  | 0, pos, b => .ok (b, pos)
  | runs + 1, pos, b =>
    match runLoop tol tr maxIter 0 pos none with
    | .error e => .error e
    | .ok (pos', lb, conv) =>
      let b' : Best α := if lbGreater lb b.maxLb then ⟨lb, some pos', conv⟩ else b
      fitRuns tol maxIter tr runs pos' b'

/-- the result of `fit`: the chain index of the returned state, or the error kind -/
def fitOutcome (tol : α) (maxIter nRuns : Nat) (tr : List (Except String α)) : Except String Nat :=
  match fitRuns tol maxIter tr nRuns 0 ⟨none, none, none⟩ with
  | .error e => .error e
  | .ok (b, _) =>
    match b.bestIter with
    | some _ => (match b.best with
      | some i => .ok i
      | none => .error "LowerBoundError")
    | none => .error "NotConverged"

variable [Transc α]

/-- `compute_log_det_cholesky_full`: sum of the logs of the diagonal of `precisions_chol` -/
def logDet (d : Nat) (pc : List (List α)) : α := sumRange d fun a => Transc.ln (at2 pc a a)

/-- squared Mahalanobis length `‖(x − μ)·C‖²` -/
def maha (d : Nat) (x mu : List α) (pc : List (List α)) : α :=
  sumRange d fun b =>
    let y := sumRange d fun a => (x.getD a 0 - mu.getD a 0) * at2 pc a b
    y * y

/-- `-0.5` -/
def negHalf : α := -(1 / (1 + 1))

/-- `estimate_weighted_log_prob` for one observation: for each component
`-0.5·(maha + d·ln 2π) + logdet + ln w` -/
def weightedLogProb (ln2pi : α) (d : Nat) (w : List α) (mu : List (List α))
    (pcs : List (List (List α))) (x : List α) : List α :=
  (List.range w.length).map fun j =>
    (negHalf * (maha d x (mu.getD j []) (pcs.getD j []) + (d : α) * ln2pi) + logDet d (pcs.getD j []))
      + Transc.ln (w.getD j 0)

/-- maximum of a row (the code folds `if v > m` from `-∞`; on a non-empty row
without NaN that is the fold from the first element) -/
def rowMax : List α → α
  | [] => 0
  | a :: t => t.foldl (fun m v => if m < v then v else m) a

/-- `estimate_log_prob_resp` before the repair: `ln Σ exp(wlp)` and `wlp − that` -/
def logRespNaive (wlp : List α) : α × List α :=
  let lse := Transc.ln (sumS (wlp.map Transc.exp))
  (lse, wlp.map fun v => v - lse)

/-- `estimate_log_prob_resp` as repaired: `shifted = wlp − max`,
`ls = ln Σ exp(shifted)`, `log_resp = shifted − ls`, `log_prob_norm = ls + max` -/
def logRespStable (wlp : List α) : α × List α :=
  let m := rowMax wlp
  let shifted := wlp.map fun v => v - m
  let ls := Transc.ln (sumS (shifted.map Transc.exp))
  (ls + m, shifted.map fun v => v - ls)

/-- first index of the maximum (`argmax` of ndarray-stats: replace on `>` only) -/
def argmaxFirst : List α → Nat
  | [] => 0
  | a :: t =>
    (t.foldl (fun (st : Nat × Nat × α) v =>
      let (best, i, m) := st
      if m < v then (i, i + 1, v) else (best, i + 1, m)) (0, 1, a)).1

/-- one row of `predict_proba` -/
def predictProba (ln2pi : α) (d : Nat) (w : List α) (mu : List (List α))
    (pcs : List (List (List α))) (x : List α) : List α :=
  (logRespStable (weightedLogProb ln2pi d w mu pcs x)).2.map Transc.exp

/-- the responsibilities `e_step` hands to `m_step` (`log_resp.mapv(exp)`), one row per observation -/
def eResp (ln2pi : α) (d : Nat) (w : List α) (mu : List (List α))
    (pcs : List (List (List α))) (x : List (List α)) : List (List α) :=
  x.map (predictProba ln2pi d w mu pcs)

/-- one EM iteration as `fit` performs it: `e_step` on the current mixture, then `m_step` -/
def emStep (thr reg ln2pi : α) (d : Nat) (w : List α) (mu : List (List α))
    (pcs : List (List (List α))) (x : List (List α)) : Except String (Params α) :=
  estimateParams thr reg x.length d w.length x (eResp ln2pi d w mu pcs x)

/-- one entry of `predict` -/
def predict (ln2pi : α) (d : Nat) (w : List α) (mu : List (List α))
    (pcs : List (List (List α))) (x : List α) : Nat :=
  argmaxFirst (predictProba ln2pi d w mu pcs x)

/-! ## `compute_precisions_cholesky_full` (with the two `linfa-linalg` routines, operation by operation) -/

/-- row `j` of `cholesky_inplace_dirty` up to the pivot: for `k < j`
`s = (A[j][k] − Σ_{i<k} L[k][i]·L[j][i]) / L[k][k]`, `d += s·s`; returns the off-diagonal part of the
row and the pivot `A[j][j] − d` (`L` = the rows `0..j` already computed) -/
def cholRowD (A L : List (List α)) (j : Nat) : List α × α :=
  let st := (List.range j).foldl (fun (st : List α × α) k =>
      let s0 := sumRange k fun i => at2 L k i * st.1.getD i 0
      let s := (at2 A j k - s0) / at2 L k k
      (st.1 ++ [s], st.2 + s * s)) (([] : List α), (0 : α))
  (st.1, at2 A j j - st.2)

/-- `if d <= 0 { return Err(NotPositiveDefinite) }`, else the diagonal entry is `sqrt d` -/
def cholRow (A L : List (List α)) (j : Nat) : Except String (List α) :=
  let rd := cholRowD A L j
  if rd.2 ≤ 0 then .error "LinalgError" else .ok (rd.1 ++ [Transc.sqrt rd.2])

/-- `covariance.cholesky()`: rows `0..d` of the lower factor (entries above the diagonal are absent = 0,
as after `triangular_inplace(Lower)`); `cholesky j A` is the first `j` rows -/
def cholesky (d : Nat) (A : List (List α)) : Except String (List (List α)) :=
  (List.range d).foldl (fun acc j =>
    match acc with
    | .error e => .error e
    | .ok L => match cholRow A L j with
      | .error e => .error e
      | .ok r => .ok (L ++ [r])) (.ok [])

/-- column `k` of `decomp.solve_triangular_into(eye, Lower)`: forward substitution on `b = e_k`,
`coeff = b[i] / L[i][i]; b[i] = coeff; b[r] += (−coeff)·L[r][i]` for `r > i` -/
def solveLowerCol (d : Nat) (L : List (List α)) (k : Nat) : List α :=
  (List.range d).foldl (fun b i =>
      let coeff := b.getD i 0 / at2 L i i
      (List.range d).map fun r =>
        if r = i then coeff else if i < r then b.getD r 0 + (-coeff) * at2 L r i else b.getD r 0)
    ((List.range d).map fun r => if r = k then (1 : α) else 0)

/-- `precisions_chol_k = sol.t()`: row `k` of the result is column `k` of `sol` -/
def precCholOf (d : Nat) (cov : List (List α)) : Except String (List (List α)) :=
  match cholesky d cov with
  | .error e => .error e
  | .ok L => .ok ((List.range d).map (solveLowerCol d L))

/-- the loop over the components, `?` on the first failure -/
def precCholAll (d : Nat) : List (List (List α)) → Except String (List (List (List α)))
  | [] => .ok []
  | c :: cs =>
    match precCholOf d c with
    | .error e => .error e
    | .ok pc => match precCholAll d cs with
      | .error e => .error e
      | .ok pcs => .ok (pc :: pcs)

/-! ## The methods `e_step`, `m_step` on whole model states and the whole of `fit` -/

/-- the fields of `GaussianMixtureModel` the EM iteration reads and writes (`precisions` is a function
of `pcs`: `refresh_precisions_full`) -/
structure State (α : Type) where
  weights : List α
  means : List (List α)
  covs : List (List (List α))
  pcs : List (List (List α))

/-- the method `m_step`: `estimate_gaussian_parameters` on `exp(log_resp)` (`?`), `weights = nk / n`,
then `compute_precisions_cholesky_full` (`?`) -/
def mStepFull (thr reg : α) (n d k : Nat) (x r : List (List α)) : Except String (State α) :=
  match estimateParams thr reg n d k x r with
  | .error e => .error e
  | .ok p =>
    match precCholAll d p.covs with
    | .error e => .error e
    | .ok pcs => .ok ⟨p.weights, p.means, p.covs, pcs⟩

/-- `fit` on a chain of states: `step s` = lower bound of `s` and the next state, or the error.
`chainFrom step fuel s₀` = the trace `tr` (`tr[t]` = outcome of step `t`) and the states `s₀, s₁, …`
reached, for at most `fuel` steps, stopping at the first error. -/
def chainFrom {σ : Type} (step : σ → Except String (α × σ)) : Nat → σ → List (Except String α) × List σ
  | 0, s => ([], [s])
  | fuel + 1, s =>
    match step s with
    | .error e => ([.error e], [s])
    | .ok (lb, s') =>
      let rest := chainFrom step fuel s'
      (.ok lb :: rest.1, s :: rest.2)

/-- the whole of `GmmValidParams::fit` after `GaussianMixtureModel::new`: the loop `fitOutcome` on the
chain generated by `step` from the initial state; returns the chain index and the state `best_params`.
`fuel` bounds the number of EM steps evaluated (`n_runs · max_n_iterations` always suffices; with less
the answer may be `trace-exhausted`, never a different state). -/
def fitFull {σ : Type} (step : σ → Except String (α × σ)) (tol : α) (maxIter nRuns fuel : Nat) (s0 : σ) :
    Except String (Nat × σ) :=
  let ch := chainFrom step fuel s0
  match fitOutcome tol maxIter nRuns ch.1 with
  | .error e => .error e
  | .ok i =>
    match ch.2[i]? with
    | some s => .ok (i, s)
    | none => .error "trace-exhausted"

/-- the method `e_step`: `(log_prob_norm.mean(), log_resp)`; the second component is handed to `m_step`,
which exponentiates it (here already exponentiated: `eResp`) -/
def eStepFull (ln2pi : α) (d : Nat) (s : State α) (x : List (List α)) : α × List (List α) :=
  let rows := x.map fun xi => logRespStable (weightedLogProb ln2pi d s.weights s.means s.pcs xi)
  (sumS (rows.map (·.1)) / (x.length : α), rows.map fun r => r.2.map Transc.exp)

/-- one iteration of the loop body of `fit`: `e_step(obs)?`, `m_step(reg, obs, log_resp)?`,
`lower_bound = log_prob_norm` -/
def emStepFull (thr reg ln2pi : α) (d : Nat) (x : List (List α)) (s : State α) : Except String (α × State α) :=
  let e := eStepFull ln2pi d s x
  match mStepFull thr reg x.length d s.weights.length x e.2 with
  | .error err => .error err
  | .ok s' => .ok (e.1, s')

/-- gap between the largest and the second largest entry (the entry itself for a
single component): the margin of the discrete `predict` decision -/
def margin (p : List α) : α :=
  match p with
  | [] => 0
  | [a] => a
  | a :: t =>
    let i := argmaxFirst (a :: t)
    let top := (a :: t).getD i 0
    let rest := ((a :: t).take i) ++ ((a :: t).drop (i + 1))
    top - rowMax rest

end
end LinfaSpec.Gmm
