import LinfaSpec.Model.Scalar

/-!
Model of `linfa-clustering/src/gaussian_mixture/algorithm.rs` (core Lean only).

What is modelled (one definition, run on `Float` by the driver, proved about over
ordered fields / `ℝ`):

* `estimate_gaussian_parameters` + `estimate_gaussian_covariances_full` and the
  `weights = nk / n_samples` line of `new` / `m_step`  → `estimateParams`
  (with the `EmptyCluster` guard `nk.min() < 10·ε`, `ε` a parameter);
* `compute_precisions_full`  → `precisionsFull` (`P = C Cᵀ` of `precisions_chol`);
* `compute_log_det_cholesky_full`, `estimate_log_gaussian_prob`,
  `estimate_log_weights`, `estimate_weighted_log_prob`  → `logDet`, `maha`,
  `weightedLogProb`;
* `estimate_log_prob_resp` **as repaired** (row maximum taken out before `exp`)
  → `logRespStable`; the form it had before the repair → `logRespNaive`;
* `predict_proba`, `predict_inplace`  → `predictProba`, `predict`
  (`argmax` = first index of the maximum, ndarray-stats).

Not modelled: the EM loop, k-means / random initial responsibilities, Cholesky
and the triangular solve (`precisions_chol` is an input; its contract
`L Lᵀ = Σ`, `C = L⁻ᵀ` is a hypothesis of `precision_is_inverse`).

Matrices are lists of rows; sums run over `List.range n` in index order — the
order of the Rust loops up to the blocked kernels of `matrixmultiply`
(compared with a tolerance).
-/
namespace LinfaSpec.Gmm
open LinfaSpec

section
variable {α : Type} [Add α] [Sub α] [Mul α] [Div α] [Neg α] [LT α] [DecidableLT α]
  [OfNat α 0] [OfNat α 1] [NatCast α]

/-- entry `(i, j)` of a matrix given as a list of rows (0 outside) -/
def at2 (m : List (List α)) (i j : Nat) : α := (m.getD i []).getD j 0

/-- `Σ_{i<n} f i`, summed in index order starting from 0 -/
def sumRange (n : Nat) (f : Nat → α) : α := sumS ((List.range n).map f)

/-- `nk = resp.sum_axis(Axis(0))` -/
def nkOf (n k : Nat) (r : List (List α)) : List α :=
  (List.range k).map fun j => sumRange n fun i => at2 r i j

/-- `means = resp.t().dot(observations) / nk` -/
def meansOf (n d k : Nat) (x r : List (List α)) (nk : List α) : List (List α) :=
  (List.range k).map fun j => (List.range d).map fun c =>
    sumRange n (fun i => at2 r i j * at2 x i c) / nk.getD j 0

/-- `estimate_gaussian_covariances_full`: `diff = X − μ_j`, `m = diffᵀ ∘ r_j`,
`cov_j = m·diff / nk_j`, then `+ reg` on the diagonal -/
def covOf (n d : Nat) (x r : List (List α)) (j : Nat) (mu : List α) (nkj reg : α) : List (List α) :=
  (List.range d).map fun a => (List.range d).map fun b =>
    let v := sumRange n (fun i => ((at2 x i a - mu.getD a 0) * at2 r i j) * (at2 x i b - mu.getD b 0)) / nkj
    if a = b then v + reg else v

structure Params (α : Type) where
  nk : List α
  weights : List α
  means : List (List α)
  covs : List (List (List α))

/-- one M-step: `estimate_gaussian_parameters` followed by `weights = nk / n`.
`thr` is the guard constant `10·ε` of the code. -/
def estimateParams (thr reg : α) (n d k : Nat) (x r : List (List α)) : Except String (Params α) :=
  let nk := nkOf n k r
  if nk.any (fun v => v < thr) then .error "EmptyCluster" else
  let mu := meansOf n d k x r nk
  .ok { nk := nk,
        weights := nk.map (fun v => v / (n : α)),
        means := mu,
        covs := (List.range k).map fun j => covOf n d x r j (mu.getD j []) (nk.getD j 0) reg }

/-- `compute_precisions_full`: `P = C · Cᵀ` -/
def precisionsFull (d : Nat) (pc : List (List α)) : List (List α) :=
  (List.range d).map fun a => (List.range d).map fun b =>
    sumRange d fun c => at2 pc a c * at2 pc b c


/-! ## The loop of `GmmValidParams::fit`

`fit` builds one initial model and then walks along ONE deterministic chain of EM states
`s₀ → s₁ → …` (`sₜ₊₁ = m_step(sₜ, e_step(sₜ).log_resp)`; the model is **not** re-initialised between
runs, a new run only forgets the previous lower bound).  What the loop decides — when a run stops, which
run is kept, `Ok` or which error — depends on the chain only through the sequence of lower bounds
`lbₜ = e_step(sₜ).log_mean` and the first error a step raises.  `tr[t]` is the outcome of step `t`
(`.ok lbₜ`, or `.error kind` when `e_step`/`m_step` failed).  `none` stands for the `−∞` the code
initialises `lower_bound` / `max_lower_bound` with. -/

/-- `change = lower_bound - prev_lower_bound; change.abs() < tolerance`; with `prev = −∞` the change is
`+∞` (or NaN): never below the tolerance -/
def convTest (tol : α) (prev : Option α) (lb : α) : Bool :=
  match prev with
  | none => false
  | some p => absS (lb - p) < tol

/-- one run, `for n_iter in 0..max_n_iterations` (`fuel` iterations left, `iter = n_iter`), from chain
position `pos` with previous lower bound `prev`.  Result: position after the run, `lower_bound`,
`converged_iter`; or the error of the step that failed (`?`). -/
def runLoop (tol : α) (tr : List (Except String α)) :
    Nat → Nat → Nat → Option α → Except String (Nat × Option α × Option Nat)
  | 0, _, pos, prev => .ok (pos, prev, none)
  | fuel + 1, iter, pos, prev =>
    match tr[pos]? with
    | none => .error "trace-exhausted"
    | some (.error e) => .error e
    | some (.ok lb) =>
      if convTest tol prev lb then .ok (pos + 1, some lb, some iter)
      else runLoop tol tr fuel (iter + 1) (pos + 1) (some lb)

/-- `max_lower_bound`, `best_params` (as the chain index of the cloned state), `best_iter` -/
structure Best (α : Type) where
  maxLb : Option α
  best : Option Nat
  bestIter : Option Nat

/-- `lower_bound > max_lower_bound` with `none = −∞` -/
def lbGreater (lb maxLb : Option α) : Bool :=
  match lb, maxLb with
  | none, _ => false
  | some _, none => true
  | some v, some m => m < v

/-- `for _ in 0..n_runs`: returns the bookkeeping after the last run and the chain position reached -/
def fitRuns (tol : α) (maxIter : Nat) (tr : List (Except String α)) :
    Nat → Nat → Best α → Except String (Best α × Nat)
  | 0, pos, b => .ok (b, pos)
  | runs + 1, pos, b =>
    match runLoop tol tr maxIter 0 pos none with
    | .error e => .error e
    | .ok (pos', lb, conv) =>
      let b' : Best α := if lbGreater lb b.maxLb then ⟨lb, some pos', conv⟩ else b
      fitRuns tol maxIter tr runs pos' b'

/-- the result of `fit`: the chain index of the returned state, or the error kind -/
def fitOutcome (tol : α) (maxIter nRuns : Nat) (tr : List (Except String α)) : Except String Nat :=
  match fitRuns tol maxIter tr nRuns 0 ⟨none, none, none⟩ with
  | .error e => .error e
  | .ok (b, _) =>
    match b.bestIter with
    | some _ => (match b.best with
      | some i => .ok i
      | none => .error "LowerBoundError")
    | none => .error "NotConverged"

variable [Transc α]

/-- `compute_log_det_cholesky_full`: sum of the logs of the diagonal of `precisions_chol` -/
def logDet (d : Nat) (pc : List (List α)) : α := sumRange d fun a => Transc.ln (at2 pc a a)

/-- squared Mahalanobis length `‖(x − μ)·C‖²` -/
def maha (d : Nat) (x mu : List α) (pc : List (List α)) : α :=
  sumRange d fun b =>
    let y := sumRange d fun a => (x.getD a 0 - mu.getD a 0) * at2 pc a b
    y * y

/-- `-0.5` -/
def negHalf : α := -(1 / (1 + 1))

/-- `estimate_weighted_log_prob` for one observation: for each component
`-0.5·(maha + d·ln 2π) + logdet + ln w` -/
def weightedLogProb (ln2pi : α) (d : Nat) (w : List α) (mu : List (List α))
    (pcs : List (List (List α))) (x : List α) : List α :=
  (List.range w.length).map fun j =>
    (negHalf * (maha d x (mu.getD j []) (pcs.getD j []) + (d : α) * ln2pi) + logDet d (pcs.getD j []))
      + Transc.ln (w.getD j 0)

/-- maximum of a row (the code folds `if v > m` from `-∞`; on a non-empty row
without NaN that is the fold from the first element) -/
def rowMax : List α → α
  | [] => 0
  | a :: t => t.foldl (fun m v => if m < v then v else m) a

/-- `estimate_log_prob_resp` before the repair: `ln Σ exp(wlp)` and `wlp − that` -/
def logRespNaive (wlp : List α) : α × List α :=
  let lse := Transc.ln (sumS (wlp.map Transc.exp))
  (lse, wlp.map fun v => v - lse)

/-- `estimate_log_prob_resp` as repaired: `shifted = wlp − max`,
`ls = ln Σ exp(shifted)`, `log_resp = shifted − ls`, `log_prob_norm = ls + max` -/
def logRespStable (wlp : List α) : α × List α :=
  let m := rowMax wlp
  let shifted := wlp.map fun v => v - m
  let ls := Transc.ln (sumS (shifted.map Transc.exp))
  (ls + m, shifted.map fun v => v - ls)

/-- first index of the maximum (`argmax` of ndarray-stats: replace on `>` only) -/
def argmaxFirst : List α → Nat
  | [] => 0
  | a :: t =>
    (t.foldl (fun (st : Nat × Nat × α) v =>
      let (best, i, m) := st
      if m < v then (i, i + 1, v) else (best, i + 1, m)) (0, 1, a)).1

/-- one row of `predict_proba` -/
def predictProba (ln2pi : α) (d : Nat) (w : List α) (mu : List (List α))
    (pcs : List (List (List α))) (x : List α) : List α :=
  (logRespStable (weightedLogProb ln2pi d w mu pcs x)).2.map Transc.exp

/-- the responsibilities `e_step` hands to `m_step` (`log_resp.mapv(exp)`), one row per observation -/
def eResp (ln2pi : α) (d : Nat) (w : List α) (mu : List (List α))
    (pcs : List (List (List α))) (x : List (List α)) : List (List α) :=
  x.map (predictProba ln2pi d w mu pcs)

/-- one EM iteration as `fit` performs it: `e_step` on the current mixture, then `m_step` -/
def emStep (thr reg ln2pi : α) (d : Nat) (w : List α) (mu : List (List α))
    (pcs : List (List (List α))) (x : List (List α)) : Except String (Params α) :=
  estimateParams thr reg x.length d w.length x (eResp ln2pi d w mu pcs x)

/-- one entry of `predict` -/
def predict (ln2pi : α) (d : Nat) (w : List α) (mu : List (List α))
    (pcs : List (List (List α))) (x : List α) : Nat :=
  argmaxFirst (predictProba ln2pi d w mu pcs x)

/-- gap between the largest and the second largest entry (the entry itself for a
single component): the margin of the discrete `predict` decision -/
def margin (p : List α) : α :=
  match p with
  | [] => 0
  | [a] => a
  | a :: t =>
    let i := argmaxFirst (a :: t)
    let top := (a :: t).getD i 0
    let rest := ((a :: t).take i) ++ ((a :: t).drop (i + 1))
    top - rowMax rest

end
end LinfaSpec.Gmm
