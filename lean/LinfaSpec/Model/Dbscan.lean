/-
C08 — model of `DbscanValidParams::transform`
(algorithms/linfa-clustering/src/dbscan/algorithm.rs).  Core Lean only.

The neighbour index is a parameter: `nbrs i` is what
`nn.within_range(observations.row(i), tolerance)` returned (positions, in that
order; the point itself is among them).  Labels are `List (Option Nat)`
(`cluster_memberships`), `found` is `search_found`, `queue` is `search_queue`.
-/
namespace LinfaSpec.Dbscan

/-- `clusters[j].is_none()` -/
def unl (labels : List (Option Nat)) (j : Nat) : Bool :=
  match labels[j]? with
  | some none => true
  | _ => false

/-- `find_neighbors`: (number of points in range, self included ;
the still unlabelled ones other than `idx`, in index order of the query result) -/
def findNeighbors (nbrs : Nat → List Nat) (labels : List (Option Nat)) (idx : Nat) :
    Nat × List Nat :=
  ((nbrs idx).length, (nbrs idx).filter fun j => unl labels j && j != idx)

structure State where
  labels : List (Option Nat)
  found : List Bool
  queue : List Nat
deriving Repr, DecidableEq

/-- `for n in neighbors { if !search_found[n] { push_back(n); search_found[n] = true } }` -/
def pushAll (res : List Nat) (found : List Bool) (queue : List Nat) : List Bool × List Nat :=
  res.foldl (fun (fq : List Bool × List Nat) j =>
    if fq.1[j]?.getD false then fq else (fq.1.set j true, fq.2 ++ [j])) (found, queue)

/-- one iteration of `while let Some(candidate_idx) = search_queue.pop_front()` -/
def popStep (nbrs : Nat → List Nat) (mp cid : Nat) (s : State) (c : Nat) (q : List Nat) : State :=
  let found := s.found.set c false
  let (cnt, res) := findNeighbors nbrs s.labels c
  let labels := s.labels.set c (some cid)
  if mp ≤ cnt then
    let fq := pushAll res found q
    { labels := labels, found := fq.1, queue := fq.2 }
  else
    { labels := labels, found := found, queue := q }

/-- the `while let` loop; `fuel` bounds the number of pops (`bfs_fuel_enough`:
the number of unlabelled points is always enough, the bound is never hit). -/
def bfs (nbrs : Nat → List Nat) (mp cid : Nat) : Nat → State → State
  | 0, s => s
  | fuel + 1, s =>
    match s.queue with
    | [] => s
    | c :: q => bfs nbrs mp cid fuel (popStep nbrs mp cid s c q)

/-- `neighbors.iter().for_each(|&n| search_found[n] = true)` -/
def markAll (res : List Nat) (found : List Bool) : List Bool :=
  res.foldl (fun f j => f.set j true) found

/-- body of `for i in 0..observations.nrows()`; the second component is
`current_cluster_id`. -/
def outerStep (nbrs : Nat → List Nat) (mp n : Nat) (sc : State × Nat) (i : Nat) : State × Nat :=
  let s := sc.1
  if !unl s.labels i then sc
  else
    let (cnt, res) := findNeighbors nbrs s.labels i
    if cnt < mp then sc
    else
      let s1 : State :=
        { labels := s.labels.set i (some sc.2), found := markAll res s.found, queue := s.queue ++ res }
      (bfs nbrs mp sc.2 n s1, sc.2 + 1)

def init (n : Nat) : State :=
  { labels := List.replicate n none, found := List.replicate n false, queue := [] }

def run (nbrs : Nat → List Nat) (mp n : Nat) : State × Nat :=
  (List.range n).foldl (outerStep nbrs mp n) (init n, 0)

/-- `transform`: `nbrs = none` stands for `Err(BuildError::ZeroDimension)` from the index
constructor (records with zero features): everything is reported as noise. -/
def dbscan (nbrs : Option (Nat → List Nat)) (mp n : Nat) : List (Option Nat) :=
  match nbrs with
  | none => List.replicate n none
  | some f => (run f mp n).1.labels

/-! ## hyper-parameter glue (`dbscan/hyperparams.rs`) -/

/-- `DbscanValidParams` without the distance function and the index (parameters of the model) -/
structure Params (α : Type) where
  minPoints : Nat
  tolerance : α
deriving Repr, DecidableEq

inductive ParamsError where
  | minPoints
  | tolerance
deriving Repr, DecidableEq

/-- `DbscanParams::new(min_points, ..)`: `defaultTol` is `F::cast(1e-4)` -/
def Params.new {α : Type} (defaultTol : α) (mp : Nat) : Params α := { minPoints := mp, tolerance := defaultTol }

/-- `.tolerance(t)` -/
def Params.withTolerance {α : Type} (p : Params α) (t : α) : Params α := { p with tolerance := t }

/-- `ParamGuard::check_ref` / `check`: `min_points <= 1` is tested first, then `tolerance <= 0` -/
def Params.check {α : Type} [LE α] [DecidableLE α] [OfNat α 0] (p : Params α) : Except ParamsError (Params α) :=
  if p.minPoints ≤ 1 then .error .minPoints
  else if p.tolerance ≤ 0 then .error .tolerance
  else .ok p

/-- `Transformer<DatasetBase<records, T>>`: the labels replace the targets, the records are passed on
(`dataset.with_targets(predicted)`) -/
def transformDataset {R T : Type} (nbrs : R → Option (Nat → List Nat)) (nrows : R → Nat) (mp : Nat)
    (ds : R × T) : R × List (Option Nat) :=
  (ds.1, dbscan (nbrs ds.1) mp (nrows ds.1))

/-- the neighbourhood of the definition: positions `j < n` with `dist i j < tol`, in dataset order
(what a linear scan with a strict comparison returns for row `i`; there is no row `i ≥ n`) -/
def rangeQuery {α : Type} [LT α] [DecidableLT α] (dist : Nat → Nat → α) (tol : α) (n i : Nat) : List Nat :=
  if i < n then (List.range n).filter fun j => decide (dist i j < tol) else []

end LinfaSpec.Dbscan
