/-
C07 — model of `linfa-nn` (core Lean only).

Follows `algorithms/linfa-nn/src/{lib,linear,balltree,kdtree,distance}.rs`:

* `Metric`         the trait `Distance` (`distance`, `rdistance`, `dist_to_rdist`, `rdist_to_dist`);
                   `mL1 mL2 mLinf mLp` are the four provided metrics on `List α`, written in the
                   operation order of the `ndarray-stats` loops (sequential `Zip::for_each`).
* `linearKnn/linearRange`   `LinearSearchIndex::{k_nearest, within_range}`: a min-heap of all reduced
                   distances popped `min k n` times (heap = sorted list, `insertAsc`), resp. the strict
                   filter `rdist < dist_to_rdist(range)`.
* `Ball`, `build`  `BallTreeInner::new`: leaf = (mean, max distance to it, points); branch =
                   (median point, max distance to it over both halves, two subtrees).  `partition`
                   (`order_stat::kth_by` + stable `<` partition) is a *parameter* `split`; the driver
                   instantiates it with the split the real tree took (read through the dump hook) and
                   checks it against the specification of `partition`.
* `lower`          `BallTreeInner::rdistance`: `dist_to_rdist(max(distance(q, center) − radius, 0))`.
* `searchLoop`     the `while let Some(..) = queue.pop()` loop of `nn_helper`; `queue` (min-heap) and
                   `out` (max-heap) are ascending sorted lists, `peek` of `out` is its last element;
                   `max_radius = ∞` is `none`.
* the k-d tree is the external `kdtree` crate: only its contract is modelled (`kdKnn`, `kdRange`).

Points are abstract (`P`); a stored point is `(coordinates, row position)`.
-/
import LinfaSpec.Model.Scalar

namespace LinfaSpec.NN

/-- The Rust trait `Distance<F>`. -/
structure Metric (P α : Type) where
  dist : P → P → α
  rdist : P → P → α
  /-- `dist_to_rdist` -/
  toR : α → α
  /-- `rdist_to_dist` -/
  ofR : α → α

/-- stored point: coordinates and row position in the batch -/
abbrev Pt (P : Type) := P × Nat

inductive BuildErr | zeroDimension | emptyLeaf
  deriving DecidableEq, Repr
inductive NnErr | wrongDimension
  deriving DecidableEq, Repr

/-- `from_batch_with_leaf_size` of all three kinds: leaf size first, then dimension. -/
def buildCheck (ncols leafSize : Nat) : Except BuildErr Unit :=
  if leafSize = 0 then .error .emptyLeaf
  else if ncols = 0 then .error .zeroDimension
  else .ok ()

/-- `batch.rows().into_iter().enumerate()` -/
def enumerate {P} (rows : List P) : List (Pt P) := rows.zipIdx

section generic
variable {P α β : Type} [LT α] [DecidableLT α] [LE α] [DecidableLE α]

/-- insertion into an ascending list (after equal keys): the heaps of the Rust code as sorted lists -/
def insertAsc (x : α × β) : List (α × β) → List (α × β)
  | [] => [x]
  | y :: ys => if x.1 < y.1 then x :: y :: ys else y :: insertAsc x ys

/-- `(rdistance(q, pt), (pt, i))` -/
def tag (m : Metric P α) (q : P) (p : Pt P) : α × Pt P := (m.rdist q p.1, p)

/-! ### linear scan -/

/-- push every point on a min-heap, pop `min k n` times -/
def linearKnnTagged (m : Metric P α) (q : P) (k : Nat) (pts : List (Pt P)) : List (α × Pt P) :=
  (pts.foldl (fun heap p => insertAsc (tag m q p) heap) []).take k

def linearKnn (m : Metric P α) (q : P) (k : Nat) (pts : List (Pt P)) : List (Pt P) :=
  (linearKnnTagged m q k pts).map (·.2)

/-- `filter(|pt| rdistance(q, pt) < dist_to_rdist(range))` -/
def linearRange (m : Metric P α) (q : P) (r : α) (pts : List (Pt P)) : List (Pt P) :=
  pts.filter fun p => m.rdist q p.1 < m.toR r

/-- `LinearSearchIndex::k_nearest` with its dimension guard -/
def linearKnnQ (m : Metric P α) (dim qdim : Nat) (q : P) (k : Nat) (pts : List (Pt P)) :
    Except NnErr (List (Pt P)) :=
  if dim ≠ qdim then .error .wrongDimension else .ok (linearKnn m q k pts)

def linearRangeQ (m : Metric P α) (dim qdim : Nat) (q : P) (r : α) (pts : List (Pt P)) :
    Except NnErr (List (Pt P)) :=
  if dim ≠ qdim then .error .wrongDimension else .ok (linearRange m q r pts)

/-! ### k-d tree: contract of the external crate
`kdtree::KdTree::nearest` = the `min k n` nearest in ascending order, `within` = every point with
`rdist ≤ radius` in ascending order; linfa's `within_range` keeps those strictly inside
(`rdist < radius`, after the border fix).  Covered differentially only. -/

def kdKnnQ (m : Metric P α) (dim qdim : Nat) (q : P) (k : Nat) (pts : List (Pt P)) :
    Except NnErr (List (Pt P)) :=
  if dim ≠ qdim then .error .wrongDimension else .ok (linearKnn m q k pts)

/-- contract of `kdtree::KdTree::within(point, radius, rdistance)`: every stored point with
`rdist ≤ radius`, in ascending order, tagged with its reduced distance -/
def kdWithin (m : Metric P α) (q : P) (radius : α) (pts : List (Pt P)) : List (α × Pt P) :=
  (linearKnnTagged m q pts.length pts).filter fun e => e.1 ≤ radius

/-- `KdTreeIndex::within_range`: `let range = dist_to_rdist(range); within(point, range, rdistance)`
followed by linfa's own `.filter(|(dist, _)| *dist < range)` (the border repair) and the projection
on `(point, position)` -/
def kdRangeQ (m : Metric P α) (dim qdim : Nat) (q : P) (r : α) (pts : List (Pt P)) :
    Except NnErr (List (Pt P)) :=
  if dim ≠ qdim then .error .wrongDimension else
    let range := m.toR r
    .ok (((kdWithin m q range pts).filter fun e => e.1 < range).map (·.2))

/-! ### ball tree -/

inductive Ball (P α : Type) where
  | leaf (center : P) (radius : α) (pts : List (Pt P))
  | branch (center : P) (radius : α) (l r : Ball P α)

namespace Ball
def center : Ball P α → P
  | leaf c _ _ => c
  | branch c _ _ _ => c
def radius : Ball P α → α
  | leaf _ r _ => r
  | branch _ r _ _ => r
/-- all stored points of a subtree, left to right -/
def points : Ball P α → List (Pt P)
  | leaf _ _ pts => pts
  | branch _ _ l r => l.points ++ r.points
/-- number of nodes (the fuel of the search loop: every node is queued at most once) -/
def nodes : Ball P α → Nat
  | leaf _ _ _ => 1
  | branch _ _ l r => 1 + l.nodes + r.nodes
end Ball

variable [OfNat α 0]

/-- maximum of a list as the iterator `max()` computes it (`0` for the empty tree's leaf) -/
def maxList : List α → α
  | [] => 0
  | x :: xs => xs.foldl maxS x

/-- `calc_radius`: `rdist_to_dist(max rdistance(pt, center))` -/
def calcRadius (m : Metric P α) (c : P) (pts : List (Pt P)) : α :=
  m.ofR (maxList (pts.map fun p => m.rdist p.1 c))

def leafOf (m : Metric P α) (mean : List P → P) (pts : List (Pt P)) : Ball P α :=
  let c := mean (pts.map (·.1))
  .leaf c (match pts with | [] => 0 | _ => calcRadius m c pts) pts

/-- `BallTreeInner::new`.  `split` is `partition` (left half, median point, right half); the Rust
recursion terminates because both halves are non-empty, here `fuel` (= number of points) bounds it
and an exhausted fuel or a refused split yields a leaf, so every property of the tree used by the
search holds for every `split`. -/
def build (m : Metric P α) (mean : List P → P)
    (split : List (Pt P) → Option (List (Pt P) × P × List (Pt P))) (leafSize : Nat) :
    Nat → List (Pt P) → Ball P α
  | 0, pts => leafOf m mean pts
  | fuel + 1, pts =>
    if pts.length ≤ leafSize then leafOf m mean pts
    else match split pts with
      | none => leafOf m mean pts
      | some (a, c, b) =>
        .branch c (calcRadius m c (a ++ b)) (build m mean split leafSize fuel a)
          (build m mean split leafSize fuel b)

variable [Sub α]

/-- `BallTreeInner::rdistance`: lower bound of the reduced distance from `q` to anything in the ball -/
def lower (m : Metric P α) (q : P) (node : Ball P α) : α :=
  m.toR (maxS (m.dist q node.center - node.radius) 0)

/-- `d < max_radius` (`none` = `∞`) -/
def ltR (d : α) : Option α → Bool
  | none => true
  | some r => decide (d < r)
/-- `d <= max_radius` -/
def leR (d : α) : Option α → Bool
  | none => true
  | some r => decide (d ≤ r)
/-- `d >= max_radius` -/
def geR (d : α) : Option α → Bool
  | none => false
  | some r => decide (r ≤ d)

/-- body of the `for p in points` loop of a visited leaf -/
def visit (m : Metric P α) (q : P) (k : Nat) (R : Option α) (out : List (α × Pt P)) (p : Pt P) :
    List (α × Pt P) :=
  let d := m.rdist q p.1
  if ltR d R && (decide (out.length < k) ||
      (match out.getLast? with | some e => decide (d < e.1) | none => false)) then
    let out' := insertAsc (d, p) out
    if k < out'.length then out'.dropLast else out'
  else out

/-- `dist >= max_radius || (out.len() == k && dist >= out.peek().unwrap().dist)` -/
def stop (k : Nat) (R : Option α) (d : α) (out : List (α × Pt P)) : Bool :=
  geR d R || (out.length == k &&
    (match out.getLast? with | some e => decide (e.1 ≤ d) | none => true))

/-- the `while let Some(..) = queue.pop()` loop of `nn_helper` -/
def searchLoop (m : Metric P α) (q : P) (k : Nat) (R : Option α) :
    Nat → List (α × Ball P α) → List (α × Pt P) → List (α × Pt P)
  | 0, _, out => out
  | _ + 1, [], out => out
  | fuel + 1, (d, node) :: rest, out =>
    if stop k R d out then out
    else match node with
      | .leaf _ _ pts => searchLoop m q k R fuel rest (pts.foldl (visit m q k R) out)
      | .branch _ _ l r =>
        let dl := lower m q l
        let dr := lower m q r
        let rest := if leR dl R then insertAsc (dl, l) rest else rest
        let rest := if leR dr R then insertAsc (dr, r) rest else rest
        searchLoop m q k R fuel rest out

def searchTagged (m : Metric P α) (tree : Ball P α) (q : P) (k : Nat) (R : Option α) :
    List (α × Pt P) :=
  searchLoop m q k R tree.nodes [(lower m q tree, tree)] []

structure BallIndex (P α : Type) where
  tree : Ball P α
  dim : Nat
  len : Nat

/-- `BallTreeIndex::new` (after `buildCheck`) -/
def ballIndex (m : Metric P α) (mean : List P → P)
    (split : List (Pt P) → Option (List (Pt P) × P × List (Pt P))) (leafSize ncols : Nat)
    (rows : List P) : BallIndex P α :=
  { tree := build m mean split leafSize rows.length (enumerate rows), dim := ncols, len := rows.length }

/-- `nn_helper` (with the `k = 0` guard of the repaired code: an empty answer instead of
`peek().unwrap()` on an empty heap) -/
def nnHelper (m : Metric P α) (ix : BallIndex P α) (qdim : Nat) (q : P) (k : Nat) (R : Option α) :
    Except NnErr (List (Pt P)) :=
  if ix.dim ≠ qdim then .error .wrongDimension
  else if ix.len = 0 ∨ k = 0 then .ok []
  else .ok ((searchTagged m ix.tree q k R).map (·.2))

def ballKnnQ (m : Metric P α) (ix : BallIndex P α) (qdim : Nat) (q : P) (k : Nat) :
    Except NnErr (List (Pt P)) :=
  nnHelper m ix qdim q k none

def ballRangeQ (m : Metric P α) (ix : BallIndex P α) (qdim : Nat) (q : P) (r : α) :
    Except NnErr (List (Pt P)) :=
  nnHelper m ix qdim q ix.len (some (m.toR r))

/-! ### the glue around the three indices: `CommonNearestNeighbour`, `from_batch`, one request -/

/-- the enum `CommonNearestNeighbour` -/
inductive Kind | linear | kd | ball
  deriving DecidableEq, Repr

/-- `from_batch`: `self.from_batch_with_leaf_size(batch, 2usize.pow(4), dist_fn)` -/
def defaultLeaf : Nat := 2 ^ 4

/-- the boxed `NearestNeighbourIndex` a build returns (a view of the batch for the linear scan and,
by contract, for the k-d tree; the tree for the ball tree) -/
inductive Index (P α : Type) where
  | linear (dim : Nat) (pts : List (Pt P))
  | kd (dim : Nat) (pts : List (Pt P))
  | ball (ix : BallIndex P α)

/-- `CommonNearestNeighbour::from_batch_with_leaf_size`: dispatch on the kind; every kind checks the
leaf size first and the dimension second (`LinearSearch` in `from_batch_with_leaf_size` + `new`,
`KdTreeIndex::new`, `BallTreeIndex::new`).  The memory layout of the batch plays no role: all three
read the batch through `rows()` (the k-d tree copies a row that is not contiguous). -/
def fromBatchWithLeafSize (m : Metric P α) (mean : List P → P)
    (split : List (Pt P) → Option (List (Pt P) × P × List (Pt P))) (kind : Kind)
    (leafSize ncols : Nat) (rows : List P) : Except BuildErr (Index P α) :=
  match buildCheck ncols leafSize with
  | .error e => .error e
  | .ok () => .ok (match kind with
    | .linear => .linear ncols (enumerate rows)
    | .kd => .kd ncols (enumerate rows)
    | .ball => .ball (ballIndex m mean split leafSize ncols rows))

/-- `NearestNeighbour::from_batch` (provided method of the trait) -/
def fromBatch (m : Metric P α) (mean : List P → P)
    (split : List (Pt P) → Option (List (Pt P) × P × List (Pt P))) (kind : Kind)
    (ncols : Nat) (rows : List P) : Except BuildErr (Index P α) :=
  fromBatchWithLeafSize m mean split kind defaultLeaf ncols rows

/-- `NearestNeighbourIndex::k_nearest` through the box -/
def Index.kNearest (m : Metric P α) (ix : Index P α) (qdim : Nat) (q : P) (k : Nat) :
    Except NnErr (List (Pt P)) :=
  match ix with
  | .linear dim pts => linearKnnQ m dim qdim q k pts
  | .kd dim pts => kdKnnQ m dim qdim q k pts
  | .ball b => ballKnnQ m b qdim q k

/-- `NearestNeighbourIndex::within_range` through the box -/
def Index.withinRange (m : Metric P α) (ix : Index P α) (qdim : Nat) (q : P) (r : α) :
    Except NnErr (List (Pt P)) :=
  match ix with
  | .linear dim pts => linearRangeQ m dim qdim q r pts
  | .kd dim pts => kdRangeQ m dim qdim q r pts
  | .ball b => ballRangeQ m b qdim q r

/-- outcome of one build + query -/
inductive Reply (P : Type) where
  | buildErr (e : BuildErr)
  | nnErr (e : NnErr)
  | ok (out : List (Pt P))

/-- how an index is built: `from_batch_with_leaf_size(leaf)` or `from_batch` -/
inductive Form | leaf (leafSize : Nat) | default

/-- the leaf size a build form passes on -/
def Form.leafSize : Form → Nat
  | .leaf l => l
  | .default => defaultLeaf

def buildForm (m : Metric P α) (mean : List P → P)
    (split : List (Pt P) → Option (List (Pt P) × P × List (Pt P))) (kind : Kind) (form : Form)
    (ncols : Nat) (rows : List P) : Except BuildErr (Index P α) :=
  match form with
  | .leaf l => fromBatchWithLeafSize m mean split kind l ncols rows
  | .default => fromBatch m mean split kind ncols rows

/-- build an index of `kind` over `rows`, then ask for the `k` nearest points of `q` -/
def knnRequest (m : Metric P α) (mean : List P → P)
    (split : List (Pt P) → Option (List (Pt P) × P × List (Pt P))) (kind : Kind) (form : Form)
    (ncols : Nat) (rows : List P) (qdim : Nat) (q : P) (k : Nat) : Reply P :=
  match buildForm m mean split kind form ncols rows with
  | .error e => .buildErr e
  | .ok ix => match ix.kNearest m qdim q k with
    | .error e => .nnErr e
    | .ok out => .ok out

/-- build an index of `kind` over `rows`, then ask for the points within `r` of `q` -/
def rangeRequest (m : Metric P α) (mean : List P → P)
    (split : List (Pt P) → Option (List (Pt P) × P × List (Pt P))) (kind : Kind) (form : Form)
    (ncols : Nat) (rows : List P) (qdim : Nat) (q : P) (r : α) : Reply P :=
  match buildForm m mean split kind form ncols rows with
  | .error e => .buildErr e
  | .ok ix => match ix.withinRange m qdim q r with
    | .error e => .nnErr e
    | .ok out => .ok out

end generic

/-! ### the provided metrics on coordinate lists -/

class PowF (α : Type) where
  powf : α → α → α

instance : PowF Float := ⟨Float.pow⟩
instance : PowF Float32 := ⟨Float32.pow⟩
instance : NatCast Float32 := ⟨Float32.ofNat⟩
instance : Transc Float32 := ⟨Float32.sqrt, Float32.exp, Float32.log⟩

section metrics
variable {α : Type} [Add α] [Sub α] [Mul α] [Div α] [Neg α] [LT α] [DecidableLT α] [OfNat α 0]

/-- `l1_dist`: `result += (a - b).abs()` -/
def l1 (a b : List α) : α := (List.zipWith (fun x y => absS (x - y)) a b).foldl (· + ·) 0
/-- `sq_l2_dist`: `result += diff * diff` -/
def sqL2 (a b : List α) : α := (List.zipWith (fun x y => (x - y) * (x - y)) a b).foldl (· + ·) 0
/-- `linf_dist`: `if diff > max { max = diff }` -/
def linf (a b : List α) : α :=
  (List.zipWith (fun x y => absS (x - y)) a b).foldl (fun mx d => if mx < d then d else mx) 0

def mL1 : Metric (List α) α := ⟨l1, l1, id, id⟩
def mLinf : Metric (List α) α := ⟨linf, linf, id, id⟩
/-- `L2Dist`: reduced distance = squared distance, `dist_to_rdist = powi(2)`, `rdist_to_dist = sqrt` -/
def mL2 [Transc α] : Metric (List α) α :=
  ⟨fun a b => Transc.sqrt (sqL2 a b), sqL2, fun d => d * d, Transc.sqrt⟩

variable [OfNat α 1] [PowF α]
/-- `LpDist(p)`: `fold(0, acc + |a-b|.powf(p)).powf(1/p)`; no reduced form -/
def lp (p : α) (a b : List α) : α :=
  PowF.powf ((List.zipWith (fun x y => PowF.powf (absS (x - y)) p) a b).foldl (· + ·) 0) (1 / p)
def mLp (p : α) : Metric (List α) α := ⟨lp p, lp p, id, id⟩

variable [NatCast α]
/-- centre of a leaf: `c = zeros(dim); for p { c += p }; c / len` -/
def vecMean (ps : List (List α)) : List α :=
  match ps with
  | [] => []
  | p :: _ =>
    let s := ps.foldl (fun c x => List.zipWith (· + ·) c x) (List.replicate p.length 0)
    s.map (· / (ps.length : α))

end metrics

end LinfaSpec.NN
