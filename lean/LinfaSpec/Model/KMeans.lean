import LinfaSpec.Model.Scalar

/-!
Model of `linfa-clustering/src/k_means/algorithm.rs` (core Lean only).

A matrix is a `List (List α)` (rows).  The reduced distance `rd` is a parameter
(`Distance::rdistance`): instances `sqL2`, `l1`, `linf` follow `ndarray-stats`
(`sq_l2_dist`, `l1_dist`, `linf_dist`: one sequential `Zip` accumulating left to right).

* `closest`          — `closest_centroid`: strict `<` scan, first minimum, returns `(index, rdist)`
* `assign`           — `update_memberships_and_dists` / `predict` / `transform` (per row, no coupling)
* `updateCentroids`  — `compute_centroids` (m_k-means: the old centroid counts as one more point)
* `fitLoop`          — the `loop { … }` of `fit` for one run: assign, update, stop when
                       `distance(old,new) < tol` or the iteration budget is used up
* `runOnce`, `fitRuns`, `finish` — the restart loop: each run reports memberships / inertia of the
                       centroids it returns, the minimum-inertia run (strict `<`, first wins) is
                       kept together with *its* memberships; `inertia = min_inertia / n`.

The initialisers consume the RNG and are not modelled: `fitRuns` takes the list of initial
centroid matrices, one per run, as a parameter (the harness observes them through a hook).
-/
namespace LinfaSpec.KMeans
open LinfaSpec

variable {α : Type}

/-- `sq_l2_dist`: `result += (a-b)*(a-b)` -/
def sqL2 [Add α] [Sub α] [Mul α] [OfNat α 0] (a b : List α) : α :=
  sumS (List.zipWith (fun x y => (x - y) * (x - y)) a b)

/-- `l1_dist`: `result += |a-b|` -/
def l1 [Add α] [Sub α] [Neg α] [LT α] [DecidableLT α] [OfNat α 0] (a b : List α) : α :=
  sumS (List.zipWith (fun x y => absS (x - y)) a b)

/-- `linf_dist`: `if diff > max { max = diff }` starting from zero -/
def linf [Sub α] [Neg α] [LT α] [DecidableLT α] [OfNat α 0] (a b : List α) : α :=
  (List.zipWith (fun x y => absS (x - y)) a b).foldl (fun m d => if m < d then d else m) 0

/-- the `for (centroid_index, centroid) in iterator.enumerate()` scan of `closest_centroid` -/
def closestGo [LT α] [DecidableLT α] (rd : List α → List α → α) (x : List α) :
    List (List α) → Nat → Nat × α → Nat × α
  | [], _, best => best
  | c :: cs, i, best =>
    let d := rd c x
    closestGo rd x cs (i + 1) (if d < best.2 then (i, d) else best)

/-- `closest_centroid`: starts from centroid 0 and scans all rows (row 0 again) with strict `<`.
(The Rust code indexes row 0 and panics on an empty matrix; `n_clusters ≥ 1` is guaranteed by the
parameter check, the driver refuses `k = 0`.) -/
def closest [LT α] [DecidableLT α] (rd : List α → List α → α) (cs : List (List α)) (x : List α) :
    Nat × α :=
  closestGo rd x cs 0 (0, rd (cs.headD []) x)

/-- memberships and reduced distances of all rows -/
def assign [LT α] [DecidableLT α] (rd : List α → List α → α) (cs xs : List (List α)) :
    List (Nat × α) :=
  xs.map (closest rd cs)

/-- `PredictInplace<ArrayBase<_, Ix1>, usize>`: the index of the closest centroid of one observation -/
def predict1 [LT α] [DecidableLT α] (rd : List α → List α → α) (cs : List (List α)) (x : List α) :
    Nat :=
  (closest rd cs x).1

/-- `Predict::predict` on a matrix (`default_target` = zeros of length `nrows`, then
`update_cluster_memberships`): one index per row -/
def predict [LT α] [DecidableLT α] (rd : List α → List α → α) (cs xs : List (List α)) : List Nat :=
  (assign rd cs xs).map (·.1)

/-- `Transformer::transform` (`update_min_dists`): one reduced distance per row -/
def transform [LT α] [DecidableLT α] (rd : List α → List α → α) (cs xs : List (List α)) : List α :=
  (assign rd cs xs).map (·.2)

/-- `PredictInplace<ArrayBase<_, Ix2>, Array1<usize>>::predict_inplace` on a caller-supplied buffer:
`assert_eq!(observations.nrows(), memberships.len())` (`none` = the panic), then every cell of the
buffer is overwritten (`Zip::from(rows).and(memberships)`), whatever it held -/
def predictInplace [LT α] [DecidableLT α] (rd : List α → List α → α) (cs xs : List (List α))
    (buf : List Nat) : Option (List Nat) :=
  if xs.length = buf.length then some ((xs.zip buf).map fun q => predict1 rd cs q.1) else none

def vadd [Add α] (a b : List α) : List α := List.zipWith (· + ·) a b

/-- rows of cluster `j`, in observation order -/
def members (j : Nat) (xs : List (List α)) (mem : List Nat) : List (List α) :=
  ((xs.zip mem).filter (fun q => q.2 == j)).map (·.1)

/-- `centroid += &observation` for every row of the cluster, starting from zeros -/
def vsum [Add α] [OfNat α 0] (p : Nat) (rows : List (List α)) : List α :=
  rows.foldl vadd (List.replicate p 0)

/-- one row of `compute_centroids`: `(Σ members + old) / (count + 1)` -/
def updateOne [Add α] [Div α] [OfNat α 0] [NatCast α] (c : List α) (rows : List (List α)) : List α :=
  (vadd (vsum c.length rows) c).map (· / ((rows.length + 1 : Nat) : α))

/-- `compute_centroids` -/
def updateCentroids [Add α] [Div α] [OfNat α 0] [NatCast α]
    (old xs : List (List α)) (mem : List Nat) : List (List α) :=
  (List.range old.length).map fun j => updateOne (old.getD j []) (members j xs mem)

/-- one Lloyd iteration: memberships for the current centroids, then new centroids -/
def lloydStep [Add α] [Div α] [OfNat α 0] [NatCast α] [LT α] [DecidableLT α]
    (rd : List α → List α → α) (xs cs : List (List α)) : List (List α) :=
  updateCentroids cs xs ((assign rd cs xs).map (·.1))

/-- the inner `loop` of `fit`; `fuel` = iterations still allowed (`max_n_iterations - n_iter`),
`conv old new` = `dist_fn.distance(old, new) < tolerance` -/
def fitLoop [Add α] [Div α] [OfNat α 0] [NatCast α] [LT α] [DecidableLT α]
    (rd : List α → List α → α) (conv : List (List α) → List (List α) → Bool)
    (xs : List (List α)) : Nat → List (List α) → List (List α)
  | 0, cs => cs
  | f + 1, cs =>
    let cs' := lloydStep rd xs cs
    if conv cs cs' || f == 0 then cs' else fitLoop rd conv xs f cs'

/-- `ndarray::ArrayBase::sum` on a contiguous array (`numeric_util::unrolled_fold`): eight running
partial sums over blocks of eight, combined as `((((0+(p0+p4))+(p1+p5))+(p2+p6))+(p3+p7))`, then the
remaining (< 8) elements added left to right. -/
def sumU8Go [Add α] [OfNat α 0] : List α → α → α → α → α → α → α → α → α → α
  | x0 :: x1 :: x2 :: x3 :: x4 :: x5 :: x6 :: x7 :: rest, p0, p1, p2, p3, p4, p5, p6, p7 =>
    sumU8Go rest (p0 + x0) (p1 + x1) (p2 + x2) (p3 + x3) (p4 + x4) (p5 + x5) (p6 + x6) (p7 + x7)
  | rest, p0, p1, p2, p3, p4, p5, p6, p7 =>
    rest.foldl (· + ·) ((((0 + (p0 + p4)) + (p1 + p5)) + (p2 + p6)) + (p3 + p7))

def sumU8 [Add α] [OfNat α 0] (l : List α) : α := sumU8Go l 0 0 0 0 0 0 0 0

/-- what one restart hands to the selection -/
structure Run (α : Type) where
  centroids : List (List α)
  inertia : α
  memberships : List Nat

/-- one restart: Lloyd loop, then memberships and `dists.sum()` (ndarray's unrolled sum) of the
centroids it returns -/
def runOnce [Add α] [Div α] [OfNat α 0] [NatCast α] [LT α] [DecidableLT α]
    (rd : List α → List α → α) (conv : List (List α) → List (List α) → Bool)
    (xs : List (List α)) (budget : Nat) (init : List (List α)) : Run α :=
  let cs := fitLoop rd conv xs budget init
  let a := assign rd cs xs
  { centroids := cs, inertia := sumU8 (a.map (·.2)), memberships := a.map (·.1) }

/-- `if inertia < min_inertia { … }` with `min_inertia` starting at `+∞`
(`ltInf x` = `x < ∞`; constantly true over an ordered field) -/
def better [LT α] [DecidableLT α] (ltInf : α → Bool) (best : Option (Run α)) (r : Run α) :
    Option (Run α) :=
  match best with
  | none => if ltInf r.inertia then some r else none
  | some b => if r.inertia < b.inertia then some r else some b

/-- the sentinel test the code performs: `inertia < min_inertia` while `min_inertia` still holds its
initial value `T` (`F::infinity()`); the driver runs `fit` with `ltThr +∞` -/
def ltThr [LT α] [DecidableLT α] (T : α) (x : α) : Bool := decide (x < T)

/-- the restart loop over the initial matrices of the runs -/
def fitRuns [Add α] [Div α] [OfNat α 0] [NatCast α] [LT α] [DecidableLT α]
    (rd : List α → List α → α) (conv : List (List α) → List (List α) → Bool) (ltInf : α → Bool)
    (xs : List (List α)) (budget : Nat) (inits : List (List (List α))) : Option (Run α) :=
  inits.foldl (fun best init => better ltInf best (runOnce rd conv xs budget init)) none

/-- number of rows with membership `j` -/
def countOf (j : Nat) (mem : List Nat) : Nat := (mem.filter (· == j)).length

/-- the fitted model: centroids, `cluster_count`, `inertia` -/
structure Fitted (α : Type) where
  centroids : List (List α)
  counts : List Nat
  inertia : α

/-- the tail of `fit`: counts from the kept memberships, `min_inertia / n`;
`none` = `Err(InertiaError)` -/
def finish [Div α] [NatCast α] (k n : Nat) (best : Option (Run α)) : Option (Fitted α) :=
  best.map fun b =>
    { centroids := b.centroids
      counts := (List.range k).map fun j => countOf j b.memberships
      inertia := b.inertia / (n : α) }

def fit [Add α] [Div α] [OfNat α 0] [NatCast α] [LT α] [DecidableLT α]
    (rd : List α → List α → α) (conv : List (List α) → List (List α) → Bool) (ltInf : α → Bool)
    (k : Nat) (xs : List (List α)) (budget : Nat) (inits : List (List (List α))) :
    Option (Fitted α) :=
  finish k xs.length (fitRuns rd conv ltInf xs budget inits)

/-- within-cluster cost of a centroid matrix: every row at its closest centroid -/
def cost [Add α] [OfNat α 0] [LT α] [DecidableLT α]
    (rd : List α → List α → α) (cs xs : List (List α)) : α :=
  sumS ((assign rd cs xs).map (·.2))

end LinfaSpec.KMeans
