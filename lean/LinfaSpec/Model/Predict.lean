import LinfaSpec.Model.Scalar
/-
C03 — model of the prediction paths (core Lean only).

For every structural family the *batch* function is written as the Rust code
computes it (whole-matrix passes, class-major score tables, flat buffers that
are reshaped and transposed) and the *row* function is what the same code does
on a one-row batch.  `Props/C03.lean` proves `batch = map row` for each.

Anchors:
* `src/composing/multi_target_model.rs`  — `multiTargetBatch`
* `src/composing/multi_class_model.rs`   — `multiClassBatch`
* `src/composing/platt_scaling.rs`       — `plattPredict`, `plattBatch`
* `src/dataset/impl_dataset.rs` (four blanket `Predict` impls) — `Form`, `predictForm`
* k-means `closest_centroid` / `update_cluster_memberships` — `closestCentroid`, `kmeansBatch`
* `x.dot(w) + b` (OLS, elastic net, GLM, logistic, SVM-linear) — `affineBatch`
* `(x - mean) / std · C + b` (PCA, PLS, multi-task elastic net, ICA) — `linMapBatch`
* `base_nb.rs` (class-major likelihood table read sample-major), GMM, multinomial
  logistic — `tableBatch`, `argmaxFirst`
* binary logistic / SVM sign — `threshBatch`
* decision tree `make_prediction` — `Tree`, `treeDescend`
* isotonic regression interpolation — `isoRow`
-/
namespace LinfaSpec.Predict

instance : Transc Float32 := ⟨Float32.sqrt, Float32.exp, Float32.log⟩

/-! ## The four calling forms (blanket impls at the end of `impl_dataset.rs`)

Every form is `let mut t = default_target(records); predict_inplace(records, &mut t)`
followed by either `t` or `DatasetBase::new(records, t)`.  `inplace` is the model's
`predict_inplace ∘ default_target`, a function of the records only. -/

inductive Form where
  | refArray    -- `predict(&Array2)`            -> targets
  | ownedArray  -- `predict(Array2)`             -> DatasetBase(records, targets)
  | refDataset  -- `predict(&DatasetBase)`       -> targets
  | ownedDataset-- `predict(DatasetBase)`        -> DatasetBase(records, targets)
  | inplace     -- `predict_inplace(&records, &mut default_target)`
deriving DecidableEq, Repr

/-- result of a calling form: the targets and, for the dataset forms, the records handed back -/
structure FormOut (R T : Type) where
  targets : T
  records : Option (List R)

def predictForm {R T : Type} (inplace : List R → T) (f : Form) (records : List R) : FormOut R T :=
  match f with
  | .refArray => ⟨inplace records, none⟩
  | .ownedArray => ⟨inplace records, some records⟩
  | .refDataset => ⟨inplace records, none⟩
  | .ownedDataset => ⟨inplace records, some records⟩
  | .inplace => ⟨inplace records, none⟩

/-! ## MultiTargetModel

`models.flat_map(|m| { m.predict_inplace(arr, &mut t); t.into_raw_vec() })
   .collect::<Array1>().into_shape((m, n)).unwrap().reversed_axes()`.
Entry `(i, j)` of the reversed `(m, n)` row-major array is `flat[j * n + i]`.
`into_shape` fails (panic = `none`) unless the flat buffer has `m * n` cells. -/

def multiTargetBatch {R L : Type} (members : List (List R → List L)) (rows : List R) : Option (List (List L)) :=
  let n := rows.length
  let m := members.length
  let flat := members.flatMap (fun f => f rows)
  if flat.length ≠ m * n then none
  else some ((List.range n).map fun i => (List.range m).filterMap fun j => flat[j * n + i]?)

/-! ## MultiClassModel — running arg-max with strict `>` -/

/-- one iteration of the `for pairs in …` loop -/
def multiClassStep {L P : Type} [LT P] [DecidableLT P] (res pairs : List (L × P)) : List (L × P) :=
  if res.isEmpty then pairs
  else List.zipWith (fun c d => if c.2 < d.2 then d else c) res pairs

/-- `y` is pre-filled with `L::default()` by `default_target`; `res.zip(y.iter_mut())`
writes as many cells as both have. -/
def multiClassBatch {R L P : Type} [LT P] [DecidableLT P]
    (members : List (L × (List R → List P))) (rows : List R) (dflt : L) : List L :=
  let res := members.foldl
    (fun res m => multiClassStep res ((m.2 rows).map fun p => (m.1, p))) []
  let labs := (res.map (·.1)).take rows.length
  labs ++ List.replicate (rows.length - labs.length) dflt

/-- the specification side: label of the first pair attaining the maximal probability -/
def argmaxPairGo {L P : Type} [LT P] [DecidableLT P] : L × P → List (L × P) → L × P
  | best, [] => best
  | best, d :: rest => argmaxPairGo (if best.2 < d.2 then d else best) rest

def multiClassRow {R L P : Type} [LT P] [DecidableLT P]
    (members : List (L × (R → P))) (r : R) (dflt : L) : L :=
  match members with
  | [] => dflt
  | m :: rest => (argmaxPairGo (m.1, m.2 r) (rest.map fun k => (k.1, k.2 r))).1

/-! ## Platt scaling

`f_apb = (a*x + b).to_f32()`; two algebraically equal branches; `Pr::new` panics outside `[0,1]`.
`cast` is the `F -> f32` conversion (identity in the theorems over `ℝ`). -/

def plattRaw {β : Type} [Add β] [Div β] [Neg β] [LE β] [DecidableLE β] [OfNat β 0] [OfNat β 1] [Transc β]
    (t : β) : β :=
  if 0 ≤ t then Transc.exp (-t) / (1 + Transc.exp (-t))
  else 1 / (1 + Transc.exp t)

def plattPredict {α β : Type} [Add α] [Mul α]
    [Add β] [Div β] [Neg β] [LE β] [DecidableLE β] [OfNat β 0] [OfNat β 1] [Transc β]
    (cast : α → β) (x a b : α) : Option β :=
  let p := plattRaw (cast (a * x + b))
  if 0 ≤ p ∧ p ≤ 1 then some p else none

/-- `Platt::predict_inplace`: inner decision values of the whole batch, then one
`platt_predict` per value; any `Pr::new` panic aborts the call. -/
def plattBatch {R α β : Type} [Add α] [Mul α]
    [Add β] [Div β] [Neg β] [LE β] [DecidableLE β] [OfNat β 0] [OfNat β 1] [Transc β]
    (cast : α → β) (inner : List R → List α) (a b : α) (rows : List R) : Option (List β) :=
  (inner rows).mapM fun x => plattPredict cast x a b

/-! ## k-means: nearest centroid (first minimum; centroid 0 is visited twice, as in the code) -/

section scalar
variable {α : Type} [Add α] [Sub α] [Mul α] [Div α] [LT α] [DecidableLT α] [LE α] [DecidableLE α]
  [OfNat α 0]

/-- `sq_l2_dist`: sequential fold of `(a-b)^2` -/
def sqDist (a b : List α) : α := sumS (List.zipWith (fun x y => (x - y) * (x - y)) a b)

def closestGo (obs : List α) : List (List α) → Nat → Nat × α → Nat × α
  | [], _, best => best
  | c :: rest, idx, best =>
    let d := sqDist c obs
    closestGo obs rest (idx + 1) (if d < best.2 then (idx, d) else best)

/-- `closest_centroid`; `none` = panic on `centroids.row(0)` of an empty table -/
def closestCentroid (cents : List (List α)) (obs : List α) : Option (Nat × α) :=
  match cents with
  | [] => none
  | c0 :: _ => some (closestGo obs cents 0 (0, sqDist c0 obs))

/-- `update_cluster_memberships`: a parallel zip over the rows; no row → no call -/
def kmeansBatch (cents : List (List α)) (rows : List (List α)) : Option (List Nat) :=
  rows.mapM fun r => (closestCentroid cents r).map (·.1)

/-! ## affine family: `x.dot(w) + b` -/

def matVec (rows : List (List α)) (w : List α) : List α := rows.map fun r => dotS r w

def affineBatch (rows : List (List α)) (w : List α) (b : α) : List α :=
  (matVec rows w).map (· + b)

def affineRow (w : List α) (b : α) (r : List α) : α := dotS r w + b

/-! ## linear maps with centring/scaling: `((x - mean) / std) · C + bias`
written as the four whole-matrix passes of `Pls::predict_inplace`
(PCA: `std = 1`, `bias = 0`; multi-task elastic net: `mean = 0`, `std = 1`).
`cols` are the columns of the coefficient matrix. -/

def subRows (rows : List (List α)) (mean : List α) : List (List α) :=
  rows.map fun r => List.zipWith (· - ·) r mean
def divRows (rows : List (List α)) (std : List α) : List (List α) :=
  rows.map fun r => List.zipWith (· / ·) r std
def matMul (rows : List (List α)) (cols : List (List α)) : List (List α) :=
  rows.map fun r => cols.map fun c => dotS r c
def addRows (rows : List (List α)) (bias : List α) : List (List α) :=
  rows.map fun r => List.zipWith (· + ·) r bias

def linMapBatch (mean std : List α) (cols : List (List α)) (bias : List α)
    (rows : List (List α)) : List (List α) :=
  addRows (matMul (divRows (subRows rows mean) std) cols) bias

def linMapRow (mean std : List α) (cols : List (List α)) (bias : List α) (r : List α) : List α :=
  List.zipWith (· + ·)
    (cols.map fun c => dotS (List.zipWith (· / ·) (List.zipWith (· - ·) r mean) std) c) bias

/-! ## score tables: arg-max of a class-major table read sample-major

`base_nb.rs`: `likelihood[(class, sample)]` is filled one class row at a time from a
per-class score vector over the whole batch, then `map_axis(Axis(0))` takes the
arg-max of every column.  GMM fills `log_prob[.., k]` column by column and takes the
arg-max of every row; multinomial logistic takes the arg-max of every row of `x·W + b`.
`argmax` (ndarray-stats) returns the first maximal index. -/

def argmaxGo : List α → Nat → Nat × α → Nat × α
  | [], _, best => best
  | x :: rest, idx, best => argmaxGo rest (idx + 1) (if best.2 < x then (idx, x) else best)

/-- first index of the maximum (`argmax().unwrap()`; the empty case is excluded by the guard of
`tableBatch`, where the Rust code panics) -/
def argmaxIdx : List α → Nat
  | [] => 0
  | x :: rest => (argmaxGo rest 1 (0, x)).1

/-- column `i` of a class-major table -/
def column (table : List (List α)) (i : Nat) : List α := table.filterMap fun row => row[i]?

/-- `scores c rows` = the score vector of class `c` over the whole batch (one table row);
`none` = `argmax` of an empty column panics (no classes, at least one row) -/
def tableBatch {R : Type} (scores : List (List R → List α)) (rows : List R) : Option (List Nat) :=
  let table := scores.map fun s => s rows
  if scores.isEmpty && !rows.isEmpty then none
  else some ((List.range rows.length).map fun i => argmaxIdx (column table i))

def tableRow {R : Type} (scores : List (R → α)) (r : R) : Nat :=
  argmaxIdx (scores.map fun s => s r)

/-! ## threshold family: binary logistic (`prob >= threshold`), SVM (`val >= 0`) -/

def threshBatch {R : Type} (decision : List R → List α) (thr : α) (rows : List R) : List Bool :=
  (decision rows).map fun v => decide (thr ≤ v)

end scalar

/-! ## decision tree descent -/

inductive Tree (α L : Type) where
  | leaf : L → Tree α L
  | node : Nat → α → Tree α L → Tree α L → Tree α L

/-- `make_prediction` (`value <= split_value` goes left, as fitting routes it — repo fix
3be3d06); `none` = out-of-bounds feature index (panic) -/
def treeDescend {α L : Type} [LE α] [DecidableLE α] : Tree α L → List α → Option L
  | .leaf l, _ => some l
  | .node f thr lo hi, x =>
    match x[f]? with
    | none => none
    | some v => if v ≤ thr then treeDescend lo x else treeDescend hi x

def treeBatch {α L : Type} [LE α] [DecidableLE α] (t : Tree α L) (rows : List (List α)) : Option (List L) :=
  rows.mapM (treeDescend t)

/-! ## isotonic regression: piecewise-linear interpolation of one value -/

section iso
variable {α : Type} [Add α] [Sub α] [Mul α] [Div α] [LT α] [DecidableLT α] [LE α] [DecidableLE α]

/-- `regressor.position(|x| x >= val)` -/
def positionGe (xs : List α) (v : α) : Option Nat := xs.findIdx? fun x => decide (v ≤ x)

/-- body of the `for (i, row)` loop for `val = row[0]`; `none` = the cell is left at its
default (`0`) because `position` found nothing (cannot happen between `x_min` and `x_max`) or
the model is empty (panic on `regressor[0]`, also `none`). -/
def isoRow (reg resp : List α) (v : α) : Option α :=
  match reg.head?, reg.getLast?, resp.head?, resp.getLast? with
  | some xmin, some xmax, some ymin, some ymax =>
    if xmax ≤ v then some ymax
    else if v ≤ xmin then some ymin
    else match positionGe reg v with
      | none => none
      | some j =>
        match reg[j]?, reg[j - 1]?, resp[j]?, resp[j - 1]? with
        | some xj, some xp, some yj, some yp =>
          if v ≤ xj ∧ j < reg.length then some (yp + ((v - xp) / (xj - xp)) * (yj - yp))
          else some ymin
        | _, _, _, _ => none
  | _, _, _, _ => none

def isoBatch (reg resp : List α) (rows : List (List α)) : Option (List α) :=
  rows.mapM fun r => match r with
    | [v] => isoRow reg resp v
    | _ => none

end iso

end LinfaSpec.Predict
