import LinfaSpec.Model.Scalar
/-
C03 — model of the prediction paths (core Lean only).

For every structural family the *batch* function is written as the Rust code
computes it (whole-matrix passes, class-major score tables, flat buffers that
are reshaped and transposed) and the *row* function is what the same code does
on a one-row batch.  `Props/C03.lean` proves `batch = map row` for each.

Anchors:
* `src/composing/multi_target_model.rs`  — `multiTargetBatch`
* `src/composing/multi_class_model.rs`   — `multiClassBatch`
* `src/composing/platt_scaling.rs`       — `plattPredict`, `plattBatch`
* `src/dataset/impl_dataset.rs` (four blanket `Predict` impls) — `Form`, `predictForm`
* k-means `closest_centroid` / `update_cluster_memberships` — `closestCentroid`, `kmeansBatch`
* `x.dot(w) + b` (OLS, elastic net, GLM, logistic, SVM-linear) — `affineBatch`
* `(x - mean) / std · C + b` (PCA, PLS, multi-task elastic net, ICA) — `linMapBatch`
* `base_nb.rs` (class-major likelihood table read sample-major), GMM, multinomial
  logistic — `tableBatch`, `argmaxFirst`
* binary logistic / SVM sign — `threshBatch`
* decision tree `make_prediction` — `Tree`, `treeDescend`
* isotonic regression interpolation — `isoRow`
-/
namespace LinfaSpec.Predict

instance : Transc Float32 := ⟨Float32.sqrt, Float32.exp, Float32.log⟩

/-! ## The calling forms (blanket impls at the end of `impl_dataset.rs`) and the target buffer

A model implements `PredictInplace`: `default_target(x)` allocates a target buffer and
`predict_inplace(x, &mut y)` fills a buffer *supplied by the caller*.  Every blanket `Predict`
form is `let mut t = default_target(records); predict_inplace(records, &mut t)` followed by
either `t` or `DatasetBase::new(records, t)`; the in-place form proper hands
`predict_inplace` any buffer the caller has (freshly allocated, pre-filled, reused from a
previous batch).  `none` = panic (the shape `assert_eq!` at the head of every impl, or a
panic further down). -/

structure Inplace (R T : Type) where
  defaultTarget : List R → T
  predictInplace : List R → T → Option T

inductive Form where
  | refArray    -- `predict(&Array2)`            -> targets
  | ownedArray  -- `predict(Array2)`             -> DatasetBase(records, targets)
  | refDataset  -- `predict(&DatasetBase)`       -> targets
  | ownedDataset-- `predict(DatasetBase)`        -> DatasetBase(records, targets)
  | inplace     -- `predict_inplace(&records, &mut default_target(&records))`
  | inplaceInto -- `predict_inplace(&records, &mut buf)` for a buffer supplied by the caller
deriving DecidableEq, Repr

/-- result of a calling form: the targets and, for the dataset forms, the records handed back -/
structure FormOut (R T : Type) where
  targets : T
  records : Option (List R)

/-- `buf` is the caller's buffer; only the `inplaceInto` form looks at it -/
def predictForm {R T : Type} (m : Inplace R T) (f : Form) (records : List R) (buf : T) :
    FormOut R (Option T) :=
  let fresh := m.predictInplace records (m.defaultTarget records)
  match f with
  | .refArray => ⟨fresh, none⟩
  | .ownedArray => ⟨fresh, some records⟩
  | .refDataset => ⟨fresh, none⟩
  | .ownedDataset => ⟨fresh, some records⟩
  | .inplace => ⟨fresh, none⟩
  | .inplaceInto => ⟨m.predictInplace records buf, none⟩

/-! ### The three ways the impls write the buffer -/

/-- `assert_eq!(shape of y, …); *y = <expression of x and the parameters>`: the buffer is looked at
for its shape only (OLS, elastic net, GLM, PLS, PCA, naive Bayes, GMM, `MultiTargetModel`).
`shapeOk` is the outcome of the assert, `value` the assigned expression (`none` = it panics). -/
def assignInplace {T : Type} (shapeOk : Bool) (value : Option T) : Option T :=
  if shapeOk then value else none

/-- `for (row, t) in x.rows().zip(y.iter_mut()) { *t = f(row) }`: a panic in `f` aborts the call;
`zip` stops at the shorter side and the cells beyond it keep their content -/
def zipWrite {R β : Type} (f : R → Option β) : List R → List β → Option (List β)
  | r :: rs, _ :: ys =>
    match f r with
    | none => none
    | some v => (zipWrite f rs ys).map (v :: ·)
  | _, ys => some ys

/-- `assert_eq!(x.nrows(), y.len())` followed by the zip loop (SVM, decision tree, logistic,
FTRL, k-means' `Zip`, Platt, the final write of `MultiClassModel`) -/
def zipInplace {R β : Type} (f : R → Option β) (rows : List R) (y : List β) : Option (List β) :=
  if y.length ≠ rows.length then none else zipWrite f rows y

/-- `for (r, t) in res.into_iter().zip(y.iter_mut()) { *t = r }` -/
def writeZip {β : Type} : List β → List β → List β
  | r :: rs, _ :: ys => r :: writeZip rs ys
  | _, ys => ys

/-! ## MultiTargetModel

`models.flat_map(|m| { m.predict_inplace(arr, &mut t); t.into_raw_vec() })
   .collect::<Array1>().into_shape((m, n)).unwrap().reversed_axes()`.
Entry `(i, j)` of the reversed `(m, n)` row-major array is `flat[j * n + i]`.
`into_shape` fails (panic = `none`) unless the flat buffer has `m * n` cells. -/

def multiTargetBatch {R L : Type} (members : List (List R → List L)) (rows : List R) : Option (List (List L)) :=
  let n := rows.length
  let m := members.length
  let flat := members.flatMap (fun f => f rows)
  if flat.length ≠ m * n then none
  else some ((List.range n).map fun i => (List.range m).filterMap fun j => flat[j * n + i]?)

/-- `MultiTargetModel::predict_inplace(arr, &mut targets)`: `assert_eq!(targets.shape(), [n, m])`,
then `*targets = …` — every member runs on its own fresh `Array1::default(n)` -/
def multiTargetInplace {R L : Type} (members : List (List R → List L)) (rows : List R)
    (y : List (List L)) : Option (List (List L)) :=
  assignInplace (y.length == rows.length && y.all (·.length == members.length))
    (multiTargetBatch members rows)

/-! ## MultiClassModel — running arg-max with strict `>` -/

/-- one iteration of the `for pairs in …` loop -/
def multiClassStep {L P : Type} [LT P] [DecidableLT P] (res pairs : List (L × P)) : List (L × P) :=
  if res.isEmpty then pairs
  else List.zipWith (fun c d => if c.2 < d.2 then d else c) res pairs

/-- `y` is pre-filled with `L::default()` by `default_target`; `res.zip(y.iter_mut())`
writes as many cells as both have. -/
def multiClassBatch {R L P : Type} [LT P] [DecidableLT P]
    (members : List (L × (List R → List P))) (rows : List R) (dflt : L) : List L :=
  let res := members.foldl
    (fun res m => multiClassStep res ((m.2 rows).map fun p => (m.1, p))) []
  let labs := (res.map (·.1)).take rows.length
  labs ++ List.replicate (rows.length - labs.length) dflt

/-- `MultiClassModel::predict_inplace(arr, &mut y)` for a buffer supplied by the caller: the length
assert, every member on its own fresh `Array1::default(n)`, then `res.zip(y.iter_mut())` writes as
many cells as both have — with no member at all `res` is empty and the buffer is handed back as it
came. -/
def multiClassInplace {R L P : Type} [LT P] [DecidableLT P]
    (members : List (L × (List R → List P))) (rows : List R) (y : List L) : Option (List L) :=
  if y.length ≠ rows.length then none
  else
    let res := members.foldl
      (fun res m => multiClassStep res ((m.2 rows).map fun p => (m.1, p))) []
    some (writeZip (res.map (·.1)) y)

/-- the specification side: label of the first pair attaining the maximal probability -/
def argmaxPairGo {L P : Type} [LT P] [DecidableLT P] : L × P → List (L × P) → L × P
  | best, [] => best
  | best, d :: rest => argmaxPairGo (if best.2 < d.2 then d else best) rest

def multiClassRow {R L P : Type} [LT P] [DecidableLT P]
    (members : List (L × (R → P))) (r : R) (dflt : L) : L :=
  match members with
  | [] => dflt
  | m :: rest => (argmaxPairGo (m.1, m.2 r) (rest.map fun k => (k.1, k.2 r))).1

/-! ## Platt scaling

`f_apb = (a*x + b).to_f32()`; two algebraically equal branches; `Pr::new` panics outside `[0,1]`.
`cast` is the `F -> f32` conversion (identity in the theorems over `ℝ`). -/

def plattRaw {β : Type} [Add β] [Div β] [Neg β] [LE β] [DecidableLE β] [OfNat β 0] [OfNat β 1] [Transc β]
    (t : β) : β :=
  if 0 ≤ t then Transc.exp (-t) / (1 + Transc.exp (-t))
  else 1 / (1 + Transc.exp t)

def plattPredict {α β : Type} [Add α] [Mul α]
    [Add β] [Div β] [Neg β] [LE β] [DecidableLE β] [OfNat β 0] [OfNat β 1] [Transc β]
    (cast : α → β) (x a b : α) : Option β :=
  let p := plattRaw (cast (a * x + b))
  if 0 ≤ p ∧ p ≤ 1 then some p else none

/-- `Platt::predict_inplace`: inner decision values of the whole batch, then one
`platt_predict` per value; any `Pr::new` panic aborts the call. -/
def plattBatch {R α β : Type} [Add α] [Mul α]
    [Add β] [Div β] [Neg β] [LE β] [DecidableLE β] [OfNat β 0] [OfNat β 1] [Transc β]
    (cast : α → β) (inner : List R → List α) (a b : α) (rows : List R) : Option (List β) :=
  (inner rows).mapM fun x => plattPredict cast x a b

/-- `Platt::predict_inplace(data, &mut targets)` for a buffer supplied by the caller: the length
assert, the inner model's `predict` on the whole batch (its own fresh buffer), then
`for (x, t) in inner.iter().zip(targets.iter_mut()) { *t = platt_predict(x, a, b) }` -/
def plattInplace {R α β : Type} [Add α] [Mul α]
    [Add β] [Div β] [Neg β] [LE β] [DecidableLE β] [OfNat β 0] [OfNat β 1] [Transc β]
    (cast : α → β) (inner : List R → List α) (a b : α) (rows : List R) (y : List β) : Option (List β) :=
  if y.length ≠ rows.length then none
  else zipWrite (fun x => plattPredict cast x a b) (inner rows) y

/-! ## k-means: nearest centroid (first minimum; centroid 0 is visited twice, as in the code) -/

section scalar
variable {α : Type} [Add α] [Sub α] [Mul α] [Div α] [LT α] [DecidableLT α] [LE α] [DecidableLE α]
  [OfNat α 0]

/-- `sq_l2_dist`: sequential fold of `(a-b)^2` -/
def sqDist (a b : List α) : α := sumS (List.zipWith (fun x y => (x - y) * (x - y)) a b)

def closestGo (obs : List α) : List (List α) → Nat → Nat × α → Nat × α
  | [], _, best => best
  | c :: rest, idx, best =>
    let d := sqDist c obs
    closestGo obs rest (idx + 1) (if d < best.2 then (idx, d) else best)

/-- `closest_centroid`; `none` = panic on `centroids.row(0)` of an empty table -/
def closestCentroid (cents : List (List α)) (obs : List α) : Option (Nat × α) :=
  match cents with
  | [] => none
  | c0 :: _ => some (closestGo obs cents 0 (0, sqDist c0 obs))

/-- `update_cluster_memberships`: a parallel zip over the rows; no row → no call -/
def kmeansBatch (cents : List (List α)) (rows : List (List α)) : Option (List Nat) :=
  rows.mapM fun r => (closestCentroid cents r).map (·.1)

/-- `KMeans::predict_inplace(x, &mut memberships)`: length assert, then `Zip` over rows and cells -/
def kmeansInplace (cents : List (List α)) (rows : List (List α)) (y : List Nat) : Option (List Nat) :=
  zipInplace (fun r => (closestCentroid cents r).map (·.1)) rows y

/-! ## affine family: `x.dot(w) + b` -/

def matVec (rows : List (List α)) (w : List α) : List α := rows.map fun r => dotS r w

def affineBatch (rows : List (List α)) (w : List α) (b : α) : List α :=
  (matVec rows w).map (· + b)

def affineRow (w : List α) (b : α) (r : List α) : α := dotS r w + b

/-- `assert_eq!(x.nrows(), y.len()); *y = x.dot(w) + b` -/
def affineInplace (rows : List (List α)) (w : List α) (b : α) (y : List α) : Option (List α) :=
  assignInplace (y.length == rows.length) (some (affineBatch rows w b))

/-! ## linear maps with centring/scaling: `((x - mean) / std) · C + bias`
written as the four whole-matrix passes of `Pls::predict_inplace`
(PCA: `std = 1`, `bias = 0`; multi-task elastic net: `mean = 0`, `std = 1`).
`cols` are the columns of the coefficient matrix. -/

def subRows (rows : List (List α)) (mean : List α) : List (List α) :=
  rows.map fun r => List.zipWith (· - ·) r mean
def divRows (rows : List (List α)) (std : List α) : List (List α) :=
  rows.map fun r => List.zipWith (· / ·) r std
def matMul (rows : List (List α)) (cols : List (List α)) : List (List α) :=
  rows.map fun r => cols.map fun c => dotS r c
def addRows (rows : List (List α)) (bias : List α) : List (List α) :=
  rows.map fun r => List.zipWith (· + ·) r bias

def linMapBatch (mean std : List α) (cols : List (List α)) (bias : List α)
    (rows : List (List α)) : List (List α) :=
  addRows (matMul (divRows (subRows rows mean) std) cols) bias

/-- `assert_eq!(y.shape(), [n, q]); *y = …` (PLS, PCA; `q` = number of output columns) -/
def linMapInplace (mean std : List α) (cols : List (List α)) (bias : List α)
    (rows : List (List α)) (y : List (List α)) : Option (List (List α)) :=
  assignInplace (y.length == rows.length && y.all (·.length == cols.length))
    (some (linMapBatch mean std cols bias rows))

def linMapRow (mean std : List α) (cols : List (List α)) (bias : List α) (r : List α) : List α :=
  List.zipWith (· + ·)
    (cols.map fun c => dotS (List.zipWith (· / ·) (List.zipWith (· - ·) r mean) std) c) bias

/-! ## score tables: arg-max of a class-major table read sample-major

`base_nb.rs`: `likelihood[(class, sample)]` is filled one class row at a time from a
per-class score vector over the whole batch, then `map_axis(Axis(0))` takes the
arg-max of every column.  GMM fills `log_prob[.., k]` column by column and takes the
arg-max of every row; multinomial logistic takes the arg-max of every row of `x·W + b`.
`argmax` (ndarray-stats) returns the first maximal index. -/

def argmaxGo : List α → Nat → Nat × α → Nat × α
  | [], _, best => best
  | x :: rest, idx, best => argmaxGo rest (idx + 1) (if best.2 < x then (idx, x) else best)

/-- first index of the maximum (`argmax().unwrap()`; the empty case is excluded by the guard of
`tableBatch`, where the Rust code panics) -/
def argmaxIdx : List α → Nat
  | [] => 0
  | x :: rest => (argmaxGo rest 1 (0, x)).1

/-- column `i` of a class-major table -/
def column (table : List (List α)) (i : Nat) : List α := table.filterMap fun row => row[i]?

/-- `scores c rows` = the score vector of class `c` over the whole batch (one table row);
`none` = `argmax` of an empty column panics (no classes, at least one row) -/
def tableBatch {R : Type} (scores : List (List R → List α)) (rows : List R) : Option (List Nat) :=
  let table := scores.map fun s => s rows
  if scores.isEmpty && !rows.isEmpty then none
  else some ((List.range rows.length).map fun i => argmaxIdx (column table i))

def tableRow {R : Type} (scores : List (R → α)) (r : R) : Nat :=
  argmaxIdx (scores.map fun s => s r)

/-! ## threshold family: binary logistic (`prob >= threshold`), SVM (`val >= 0`) -/

def threshBatch {R : Type} (decision : List R → List α) (thr : α) (rows : List R) : List Bool :=
  (decision rows).map fun v => decide (thr ≤ v)

end scalar

/-! ## decision tree descent -/

inductive Tree (α L : Type) where
  | leaf : L → Tree α L
  | node : Nat → α → Tree α L → Tree α L → Tree α L

/-- `make_prediction` (`value <= split_value` goes left, as fitting routes it — repo fix
3be3d06); `none` = out-of-bounds feature index (panic) -/
def treeDescend {α L : Type} [LE α] [DecidableLE α] : Tree α L → List α → Option L
  | .leaf l, _ => some l
  | .node f thr lo hi, x =>
    match x[f]? with
    | none => none
    | some v => if v ≤ thr then treeDescend lo x else treeDescend hi x

def treeBatch {α L : Type} [LE α] [DecidableLE α] (t : Tree α L) (rows : List (List α)) : Option (List L) :=
  rows.mapM (treeDescend t)

/-- `DecisionTree::predict_inplace(x, &mut y)`: length assert, then the zip loop -/
def treeInplace {α L : Type} [LE α] [DecidableLE α] (t : Tree α L) (rows : List (List α)) (y : List L) :
    Option (List L) :=
  zipInplace (treeDescend t) rows y

/-! ## isotonic regression: piecewise-linear interpolation of one value -/

section iso
variable {α : Type} [Add α] [Sub α] [Mul α] [Div α] [LT α] [DecidableLT α] [LE α] [DecidableLE α]

/-- `regressor.position(|x| x >= val)` -/
def positionGe (xs : List α) (v : α) : Option Nat := xs.findIdx? fun x => decide (v ≤ x)

/-- body of the `for (i, row)` loop for `val = row[0]`.  Outer `none` = panic (empty model:
`regressor[0]`; an index out of bounds); `some (some v)` = `y[i] = v`; `some none` (the cell is not
written and keeps whatever the buffer held) no longer occurs: when `position` finds no knot — which
cannot happen for an ordered `val` between `x_min` and `x_max`, only for NaN — the value itself is
written (`y[i] = val`, repo fix `C03-isotonic-nan-stale-cell`; before it the cell was skipped). -/
def isoCell (reg resp : List α) (v : α) : Option (Option α) :=
  match reg.head?, reg.getLast?, resp.head?, resp.getLast? with
  | some xmin, some xmax, some ymin, some ymax =>
    if xmax ≤ v then some (some ymax)
    else if v ≤ xmin then some (some ymin)
    else match positionGe reg v with
      | none => some (some v)
      | some j =>
        match reg[j]?, reg[j - 1]?, resp[j]?, resp[j - 1]? with
        | some xj, some xp, some yj, some yp =>
          if v ≤ xj ∧ j < reg.length then some (some (yp + ((v - xp) / (xj - xp)) * (yj - yp)))
          else some (some ymin)
        | _, _, _, _ => none
  | _, _, _, _ => none

/-- the indexed loop `y[i] = …` over the rows of an `(n, 1)` matrix -/
def isoWrite (reg resp : List α) : List (List α) → List α → Option (List α)
  | r :: rs, yi :: ys =>
    match r with
    | [v] =>
      match isoCell reg resp v with
      | none => none
      | some c => (isoWrite reg resp rs ys).map (c.getD yi :: ·)
    | _ => none
  | _, ys => some ys

/-- `FittedIsotonicRegression::predict_inplace(x, &mut y)` for a buffer supplied by the caller:
`assert_eq!(n_samples, y.len())`, `regressor[0]` / `response[0]` (panic on an empty model, even for
an empty batch), then the loop -/
def isoInplace (reg resp : List α) (rows : List (List α)) (y : List α) : Option (List α) :=
  if y.length ≠ rows.length then none
  else if reg.isEmpty || resp.isEmpty then none
  else isoWrite reg resp rows y

/-- the `Predict` forms: the buffer is `Array1::zeros(n)` -/
def isoBatch [OfNat α 0] (reg resp : List α) (rows : List (List α)) : Option (List α) :=
  isoInplace reg resp rows (List.replicate rows.length 0)

end iso

/-! ## The families as `Inplace` models

What the driver runs: every request of a family op names a calling form and is answered by
`predictForm <family>Model form rows buf` — the `default_target` of the Rust impl, its
`predict_inplace`, and the blanket impl of `impl_dataset.rs` that the form goes through. -/

section models
variable {α : Type} [Add α] [Sub α] [Mul α] [Div α] [LT α] [DecidableLT α] [LE α] [DecidableLE α]
  [OfNat α 0]

/-- OLS / elastic net (`default_target = Array1::zeros(n)`) -/
def affineModel (w : List α) (b : α) : Inplace (List α) (List α) where
  defaultTarget rows := List.replicate rows.length 0
  predictInplace rows y := affineInplace rows w b y

/-- PCA / PLS (`default_target = Array2::zeros((n, q))`) -/
def linMapModel (mean std : List α) (cols : List (List α)) (bias : List α) :
    Inplace (List α) (List (List α)) where
  defaultTarget rows := List.replicate rows.length (List.replicate cols.length 0)
  predictInplace rows y := linMapInplace mean std cols bias rows y

/-- k-means (`default_target = Array1::zeros(n)`) -/
def kmeansModel (cents : List (List α)) : Inplace (List α) (List Nat) where
  defaultTarget rows := List.replicate rows.length 0
  predictInplace rows y := kmeansInplace cents rows y

/-- isotonic regression (`default_target = Array1::zeros(n)`) -/
def isoModel (reg resp : List α) : Inplace (List α) (List α) where
  defaultTarget rows := List.replicate rows.length 0
  predictInplace rows y := isoInplace reg resp rows y

end models

/-- decision tree (`default_target = Array1::default(n)`) -/
def treeModel {α L : Type} [LE α] [DecidableLE α] (t : Tree α L) (dflt : L) :
    Inplace (List α) (List L) where
  defaultTarget rows := List.replicate rows.length dflt
  predictInplace rows y := treeInplace t rows y

/-- `MultiTargetModel` (`default_target = Array2::default((n, m))`) -/
def multiTargetModel {R L : Type} (members : List (List R → List L)) (dflt : L) :
    Inplace R (List (List L)) where
  defaultTarget rows := List.replicate rows.length (List.replicate members.length dflt)
  predictInplace rows y := multiTargetInplace members rows y

/-- `MultiClassModel` (`default_target = Array1::default(n)`) -/
def multiClassModel {R L P : Type} [LT P] [DecidableLT P]
    (members : List (L × (List R → List P))) (dflt : L) : Inplace R (List L) where
  defaultTarget rows := List.replicate rows.length dflt
  predictInplace rows y := multiClassInplace members rows y

/-- `Platt` over an inner model (`default_target = Array1::default(n)`, i.e. `Pr(0.0)`) -/
def plattModel {R α β : Type} [Add α] [Mul α]
    [Add β] [Div β] [Neg β] [LE β] [DecidableLE β] [OfNat β 0] [OfNat β 1] [Transc β]
    (cast : α → β) (inner : List R → List α) (a b : α) : Inplace R (List β) where
  defaultTarget rows := List.replicate rows.length 0
  predictInplace rows y := plattInplace cast inner a b rows y

end LinfaSpec.Predict
