import LinfaSpec.Model.Scalar
/-
C17 — model of the count / tf-idf vectorisers
(algorithms/linfa-preprocessing/src/{helpers.rs, countgrams/mod.rs,
countgrams/hyperparams.rs, tf_idf_vectorization.rs}).  Core Lean only.

The tokeniser (NFKD, lower-casing, regex or function) is the external parameter:
every function here starts from the token list of a document.  `ω` is the type
of tokens, `γ` the type of vocabulary entries (both `String` in the driver).

A `HashMap<String, (usize, usize)>` is an association list with distinct keys,
entry = `(word, index, document frequency)`; a `HashSet<String>` is a
duplicate-free list.  Wherever the Rust code *iterates* a hash container the
iteration order is an explicit parameter (`order`), and the theorems hold for
every order that is a permutation.
-/
namespace LinfaSpec.Vectorizer

/-! ## `NGramList` (helpers.rs) -/

/-- how an n-gram string is built: `single w` is `w.to_string()`,
`push s w` is `s.push(' '); s.push_str(w)`. -/
structure Joiner (ω γ : Type) where
  single : ω → γ
  push : γ → ω → γ

def strJoiner : Joiner String String := ⟨fun w => w, fun s w => s ++ " " ++ w⟩

/-- the entry a non-empty window of tokens denotes (`w₀ w₁ … w_k` joined by blanks) -/
def joinW {ω γ} (J : Joiner ω γ) : List ω → Option γ
  | [] => none
  | w :: rest => some (rest.foldl J.push (J.single w))

/-- `NGramList::ngram_items(index)`.  `none` is the Rust `None` (no window of the
minimum length starts here).  `self.list[index]` with `index ≥ len` would panic
in Rust; the iterator never asks (it checks `index >= len` first), the model
answers `none` there. -/
def ngramItems {ω γ} (J : Joiner ω γ) (ws : List ω) (nmin nmax index : Nat) : Option (List γ) :=
  match ws[index]? with
  | none => none
  | some w0 =>
    if nmax = 1 then some [J.single w0]
    else
      let len := ws.length
      let minEnd := index + nmin
      if minEnd > len then none
      else
        let maxEnd := min (index + nmax) len
        -- for j in (index + 1)..min_end { item.push(' '); item.push_str(list[j]) }
        let item := ((ws.drop (index + 1)).take (minEnd - (index + 1))).foldl J.push (J.single w0)
        -- for j in min_end..max_end { …push…; items.push(item.clone()) }
        let r := ((ws.drop minEnd).take (maxEnd - minEnd)).foldl
          (fun (st : γ × List γ) w => let it := J.push st.1 w; (it, st.2 ++ [it])) (item, [item])
        some r.2

/-- `NGramListIntoIterator::next` unrolled: stops at `index ≥ len` or at the first `None`. -/
def ngramIter {ω γ} (J : Joiner ω γ) (ws : List ω) (nmin nmax : Nat) : Nat → Nat → List (List γ)
  | 0, _ => []
  | fuel + 1, index =>
    if index ≥ ws.length then []
    else match ngramItems J ws nmin nmax index with
      | none => []
      | some items => items :: ngramIter J ws nmin nmax fuel (index + 1)

/-- `NGramList::new(words, (nmin, nmax)).into_iter().collect()` -/
def ngramList {ω γ} (J : Joiner ω γ) (ws : List ω) (nmin nmax : Nat) : List (List γ) :=
  ngramIter J ws nmin nmax ws.length 0

/-- `list.into_iter().flatten()`: all entries of a document, with multiplicity, in reading order -/
def docGrams {ω γ} (J : Joiner ω γ) (nmin nmax : Nat) (ws : List ω) : List γ :=
  (ngramList J ws nmin nmax).flatten

/-! ## fitting (countgrams/mod.rs) -/

/-- one entry of `vocabulary: HashMap<String, (usize, usize)>`: `(word, (index, doc freq))` -/
abbrev Entry (γ : Type) := γ × Nat × Nat

section Fit
variable {γ : Type} [DecidableEq γ]

/-- body of the `for word in document_vocabulary` loop of `read_document_into_vocabulary` -/
def bump (voc : List (Entry γ)) (g : γ) : List (Entry γ) :=
  if voc.any (fun e => e.1 == g) then
    voc.map fun e => if e.1 = g then (e.1, e.2.1, e.2.2 + 1) else e
  else voc ++ [(g, voc.length, 1)]

/-- `read_document_into_vocabulary`: the document's entries as a *set*
(`HashSet<String>`; any iteration order gives the same map up to the dead index
field), each bumping its document frequency once. -/
def readDocument (voc : List (Entry γ)) (grams : List γ) : List (Entry γ) :=
  grams.eraseDups.foldl bump voc

/-- the loop over the corpus in `fit` -/
def readCorpus (docs : List (List γ)) : List (Entry γ) :=
  docs.foldl readDocument []

/-- sort key of the feature cap: `(Reverse(freq), Reverse(word), x)` ascending -/
def capLe [LT γ] [DecidableLT γ] (a b : Nat × γ × Nat) : Bool :=
  if a.1 > b.1 then true
  else if a.1 < b.1 then false
  else if b.2.1 < a.2.1 then true
  else if a.2.1 < b.2.1 then false
  else a.2.2 ≤ b.2.2

/-- `filter_vocabulary` with the absolute bounds already computed (`absBounds`). -/
def filterVocab [LT γ] [DecidableLT γ] (voc : List (Entry γ)) (nDocs minAbs maxAbs : Nat)
    (stop : Option (List γ)) (cap : Option Nat) : List (Entry γ) :=
  let v :=
    if minAbs = 0 ∧ maxAbs = nDocs then
      match stop with
      | none => voc
      | some s => voc.filter fun e => !s.contains e.1
    else
      match stop with
      | none => voc.filter fun e => decide (e.2.2 ≥ minAbs) && decide (e.2.2 ≤ maxAbs)
      | some s => voc.filter fun e =>
          decide (e.2.2 ≥ minAbs) && decide (e.2.2 ≤ maxAbs) && !s.contains e.1
  match cap with
  | some m =>
    (((v.map fun e => (e.2.2, e.1, e.2.1)).mergeSort capLe).take m).map fun k => (k.2.1, k.2.2, k.1)
  | none => v

/-- `hashmap_to_vocabulary` on the entries in the order the map is iterated:
the index field is overwritten with the position, the word pushed to the vector. -/
def reindex : List (Entry γ) → Nat → List (Entry γ)
  | [], _ => []
  | e :: t, k => (e.1, k, e.2.2) :: reindex t (k + 1)

/-- `CountVectorizer { vocabulary, vec_vocabulary }` -/
structure Fitted (γ : Type) where
  vocabulary : List (Entry γ)
  vec : List γ

def hashmapToVocabulary (order : List (Entry γ) → List (Entry γ)) (voc : List (Entry γ)) : Fitted γ :=
  let ents := order voc
  ⟨reindex ents 0, ents.map (·.1)⟩

/-- `CountVectorizerValidParams::fit` from the per-document entry lists;
`x.len()` is `docs.length`. -/
def fit [LT γ] [DecidableLT γ] (order : List (Entry γ) → List (Entry γ)) (docs : List (List γ))
    (minAbs maxAbs : Nat) (stop : Option (List γ)) (cap : Option Nat) : Fitted γ :=
  hashmapToVocabulary order (filterVocab (readCorpus docs) docs.length minAbs maxAbs stop cap)

/-- the loop of `fit_vocabulary`: `vocabulary.entry(item).or_insert((len, 1))` -/
def insertWord (voc : List (Entry γ)) (w : γ) : List (Entry γ) :=
  if voc.any (fun e => e.1 == w) then voc else voc ++ [(w, voc.length, 1)]

def fitVocabulary (order : List (Entry γ) → List (Entry γ)) (words : List γ) : Fitted γ :=
  hashmapToVocabulary order (words.foldl insertWord [])

/-! ## transforming -/

/-- `self.vocabulary.get(&item)` projected to the index -/
def lookupIdx (voc : List (Entry γ)) (g : γ) : Option Nat :=
  (voc.find? fun e => e.1 == g).map fun e => e.2.1

/-- body of the counting loop of `analyze_document`:
`if let Some((idx, _)) = vocabulary.get(&item) { term_frequencies[idx] += 1 }` -/
def countStep (voc : List (Entry γ)) (row : List Nat) (g : γ) : List Nat :=
  match lookupIdx voc g with
  | some j => row.modify j (· + 1)
  | none => row

/-- `analyze_document`: dense row of term frequencies.  `get_mut(idx).unwrap()`
cannot fail because every stored index is `< vocabulary.len()` (theorem
`column_is_vocab_index`); `List.modify` out of range would leave the row alone. -/
def analyzeDocument (F : Fitted γ) (grams : List γ) : List Nat :=
  grams.foldl (countStep F.vocabulary) (List.replicate F.vocabulary.length 0)

/-- `doc_freqs[i] += 1` for every non-zero cell of the row -/
def bumpDocFreqs (dfs row : List Nat) : List Nat :=
  List.zipWith (fun d c => if c > 0 then d + 1 else d) dfs row

/-- one iteration of the loop of `get_term_and_document_frequencies`: append the row, bump the
document frequencies -/
def tdStep (F : Fitted γ) (st : List (List Nat) × List Nat) (d : List γ) : List (List Nat) × List Nat :=
  let row := analyzeDocument F d
  (st.1 ++ [row], bumpDocFreqs st.2 row)

/-- `get_term_and_document_frequencies`: (dense view of the CSR matrix, document frequencies) -/
def termAndDocFreqs (F : Fitted γ) (docs : List (List γ)) : List (List Nat) × List Nat :=
  docs.foldl (tdStep F) ([], List.replicate F.vocabulary.length 0)

/-- `CountVectorizer::transform(...).to_dense()` -/
def transform (F : Fitted γ) (docs : List (List γ)) : List (List Nat) :=
  (termAndDocFreqs F docs).1

end Fit

/-! ## parameters -/

/-- `ParamGuard::check_ref` of `CountVectorizerParams` (the regex compilation aside), written once
for any scalar: `some kind` = the error returned. -/
def checkParamsG {α : Type} [LT α] [DecidableLT α] [OfNat α 0] [OfNat α 1]
    (nmin nmax : Nat) (lo hi : α) : Option String :=
  if nmin = 0 ∨ nmax = 0 then some "InvalidNGramBoundaries"
  else if nmin > nmax then some "FlippedNGramBoundaries"
  else if lo < 0 ∨ hi < 0 ∨ lo > 1 ∨ hi > 1 then some "InvalidDocumentFrequencies"
  else if hi < lo then some "FlippedDocumentFrequencies"
  else none

/-- the check as the driver runs it (`f32` fields) -/
def checkParams (nmin nmax : Nat) (lo hi : Float32) : Option String :=
  checkParamsG nmin nmax lo hi

/-- `((min_df * n as f32).ceil() as usize, (max_df * n as f32) as usize)` for any scalar: the
conversion `n as f32`, "round up and convert to a count" and "truncate to a count" are parameters. -/
def absBoundsWith {α : Type} [Mul α] (ofNat : Nat → α) (ceilU floorU : α → Nat)
    (lo hi : α) (n : Nat) : Nat × Nat :=
  let len := ofNat n
  (ceilU (lo * len), floorU (hi * len))

/-- `((min_df * n as f32).ceil() as usize, (max_df * n as f32) as usize)`: `f32` product,
lower bound rounded up, upper bound truncated, then the saturating conversion of Rust's
`as usize` (NaN ↦ 0, negative ↦ 0, huge ↦ `usize::MAX`). -/
def absBounds (lo hi : Float32) (n : Nat) : Nat × Nat :=
  absBoundsWith Float32.ofNat (fun x => x.ceil.toUSize.toNat) (fun x => x.toUSize.toNat) lo hi n

/-! ## the string a document is tokenised from (`transform_string`, countgrams/mod.rs) -/

/-- `transform_string`: NFKD first (only if `normalize`), then lower-casing (only if
`convert_to_lowercase`).  The two Unicode maps (`unicode-normalization`, `str::to_lowercase`) are
external parameters. -/
def transformString {σ : Type} (nfkd lower : σ → σ) (normalize lowercase : Bool) (s : σ) : σ :=
  let s := if normalize then nfkd s else s
  if lowercase then lower s else s

/-! ## the sparse row (`analyze_document`, `CsVec`) -/

/-- the `CsVec` `analyze_document` builds from the dense row: `(column, count)` of the non-zero
cells in increasing column order ("only insert non-zero elements") -/
def sparseRow (row : List Nat) : List (Nat × Nat) :=
  (row.zipIdx.filter fun p => decide (p.1 > 0)).map fun p => (p.2, p.1)

/-- `CsVec::get(j)`: the stored value, `none` when the cell is not stored -/
def sparseGet (sp : List (Nat × Nat)) (j : Nat) : Option Nat :=
  (sp.find? fun p => p.1 == j).map (·.2)

/-- number of stored cells of the CSR matrix (`CsMat::nnz`) -/
def nnz (rows : List (List Nat)) : Nat :=
  (rows.map fun r => (sparseRow r).length).foldl (· + ·) 0

/-! ## tf-idf (tf_idf_vectorization.rs) -/

inductive Method | smooth | nonSmooth | textbook
  deriving DecidableEq, Repr

section TfIdf
variable {α : Type} [Add α] [Mul α] [Div α] [OfNat α 0] [OfNat α 1] [NatCast α] [Transc α]

/-- `TfIdfMethod::compute_idf(n, df)` -/
def computeIdf (m : Method) (n df : Nat) : α :=
  match m with
  | .smooth => Transc.ln ((1 + (n : α)) / (1 + (df : α))) + 1
  | .nonSmooth => Transc.ln ((n : α) / (df : α)) + 1
  | .textbook => Transc.ln ((n : α) / (1 + (df : α)))

/-- `apply_tf_idf` on the dense view: only the stored (non-zero) cells of the sparse matrix
are multiplied, the others read as `0`. -/
def applyTfIdf (m : Method) (rows : List (List Nat)) (dfs : List Nat) : List (List α) :=
  let idfs : List α := dfs.map fun df => computeIdf m rows.length df
  rows.map fun row => List.zipWith (fun (c : Nat) (w : α) => if c = 0 then (0 : α) else (c : α) * w) row idfs

/-- `FittedTfIdfVectorizer::transform(...).to_dense()` -/
def transformTfIdf {γ : Type} [DecidableEq γ] (m : Method) (F : Fitted γ) (docs : List (List γ)) :
    List (List α) :=
  let td := termAndDocFreqs F docs
  applyTfIdf m td.1 td.2

end TfIdf

/-! ## from token lists: the compositions the driver answers through -/

section Docs
variable {ω γ : Type} [DecidableEq γ]

/-- `CountVectorizerValidParams::fit` from the token lists of the documents: the entries of every
document by `NGramList`, the absolute window from `x.len()` (`bounds` = the conversion of the relative
bounds, `absBounds…`). -/
def fitDocs [LT γ] [DecidableLT γ] (J : Joiner ω γ) (order : List (Entry γ) → List (Entry γ))
    (nmin nmax : Nat) (bounds : Nat → Nat × Nat) (stop : Option (List γ)) (cap : Option Nat)
    (docs : List (List ω)) : Fitted γ :=
  let b := bounds docs.length
  fit order (docs.map (docGrams J nmin nmax)) b.1 b.2 stop cap

/-- `CountVectorizer::transform` from the token lists -/
def transformDocs (J : Joiner ω γ) (nmin nmax : Nat) (F : Fitted γ) (docs : List (List ω)) : List (List Nat) :=
  transform F (docs.map (docGrams J nmin nmax))

/-- one iteration of the loop of `fit_files`: the file is read and decoded — `none` stands for a file
the decoder refuses (`Err(EncodingError)`, the function returns at once) — and its entries go into the map -/
def filesStep (J : Joiner ω γ) (nmin nmax : Nat) (st : Option (List (Entry γ))) (f : Option (List ω)) :
    Option (List (Entry γ)) :=
  match st, f with
  | some voc, some ws => some (readDocument voc (docGrams J nmin nmax ws))
  | _, _ => none

/-- `fit_files` has its OWN loop (countgrams/mod.rs, not shared with `fit`); `documents_count =
input.len()` feeds the filter. -/
def fitFiles [LT γ] [DecidableLT γ] (J : Joiner ω γ) (order : List (Entry γ) → List (Entry γ))
    (nmin nmax : Nat) (bounds : Nat → Nat × Nat) (stop : Option (List γ)) (cap : Option Nat)
    (files : List (Option (List ω))) : Option (Fitted γ) :=
  match files.foldl (filesStep J nmin nmax) (some []) with
  | none => none
  | some voc =>
    some (hashmapToVocabulary order
      (filterVocab voc files.length (bounds files.length).1 (bounds files.length).2 stop cap))

/-- one iteration of the loop of `get_term_and_document_frequencies_files` (the decoder result is
`unwrap`ped: `none` = panic) -/
def trFilesStep (J : Joiner ω γ) (nmin nmax : Nat) (F : Fitted γ)
    (st : Option (List (List Nat) × List Nat)) (f : Option (List ω)) : Option (List (List Nat) × List Nat) :=
  match st, f with
  | some s, some ws => some (tdStep F s (docGrams J nmin nmax ws))
  | _, _ => none

/-- `get_term_and_document_frequencies_files` (again its own loop): count matrix and document frequencies -/
def transformFiles (J : Joiner ω γ) (nmin nmax : Nat) (F : Fitted γ) (files : List (Option (List ω))) :
    Option (List (List Nat) × List Nat) :=
  files.foldl (trFilesStep J nmin nmax F) (some ([], List.replicate F.vocabulary.length 0))

end Docs

/-! ## the parameter object and its compiled-regex cache (countgrams/hyperparams.rs) -/

/-- what a document is tokenised with -/
inductive TokSetting (ρ φ : Type)
  | regex (r : ρ)
  | function (f : φ)
  deriving DecidableEq, Repr

/-- the tokenisation fields of `CountVectorizerValidParams`: `split_regex_expr`, the cache
`split_regex: RefCell<Option<_>>` of the compiled expression, `tokenizer_function`.  `Clone` copies all
three (the cache included). -/
structure TokParams (ρ φ : Type) where
  expr : ρ
  cache : Option ρ
  func : Option φ

namespace TokParams
variable {ρ φ : Type}

/-- `CountVectorizerParams::tokenizer`: a function is stored next to the expression; a regex replaces the
expression and clears the function.  The cache is NOT touched. -/
def tokenizer (p : TokParams ρ φ) : TokSetting ρ φ → TokParams ρ φ
  | .function f => { p with func := some f }
  | .regex r => { p with expr := r, func := none }

/-- the effect of `check_ref` (on valid settings) on the object: `split_regex_expr` is compiled into
the cache on EVERY call, whatever the cache held. -/
def checkRef (p : TokParams ρ φ) : TokParams ρ φ := { p with cache := some p.expr }

/-- what `fit` / `transform` tokenise with: the function if one is set, else `split_regex()` = the
content of the cache (`unwrap()`: `none` is a panic). -/
def used (p : TokParams ρ φ) : Option (TokSetting ρ φ) :=
  match p.func with
  | some f => some (.function f)
  | none => p.cache.map .regex

/-- the tokeniser configured last -/
def configured (p : TokParams ρ φ) : TokSetting ρ φ :=
  match p.func with
  | some f => .function f
  | none => .regex p.expr

end TokParams

/-! ## exact reading of the relative bounds -/

/-- the exact value of a finite `f32` -/
def f32ToRat (x : Float32) : Rat :=
  let b := x.toBits.toNat
  let e := (b / 2 ^ 23) % 256
  let m := b % 2 ^ 23
  let mag : Rat :=
    if e = 0 then ((m : Nat) : Rat) / ((2 ^ 149 : Nat) : Rat)
    else (((2 ^ 23 + m) * 2 ^ e : Nat) : Rat) / ((2 ^ 150 : Nat) : Rat)
  if b / 2 ^ 31 = 1 then -mag else mag

/-- the absolute window in exact arithmetic: `absBoundsWith` (the formula of `filter_vocabulary`) with
the exact product, the exact ceiling and the exact floor. -/
def absBoundsExact (lo hi : Rat) (n : Nat) : Nat × Nat :=
  absBoundsWith (fun k : Nat => (k : Rat)) (fun x => x.ceil.toNat) (fun x => x.floor.toNat) lo hi n

/-! ## finite tables for the two Unicode maps (op `tstring`) -/

/-- NFKD as the one-point table `raw ↦ nf` -/
def tableNfkd {σ : Type} [DecidableEq σ] (raw nf : σ) : σ → σ := fun s => if s = raw then nf else s

/-- lower-casing as the two-point table `raw ↦ low`, `nf ↦ lownf` -/
def tableLower {σ : Type} [DecidableEq σ] (raw nf low lownf : σ) : σ → σ :=
  fun s => if s = raw then low else if s = nf then lownf else s

end LinfaSpec.Vectorizer
