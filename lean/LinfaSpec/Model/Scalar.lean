/-
Scalar abstraction shared by the numeric models (core Lean only).

Model functions are written once, polymorphic in the scalar, using only the
core notation classes (`Add`, `Mul`, `LT` + `DecidableLT`, `OfNat`, `NatCast` …)
plus `Transc` for the three "external call" primitives.  The driver runs them
on `Float` (IEEE binary64, the executable side of the correspondence); the
theorems in `Props/*` instantiate the same definitions over ordered fields /
`ℝ` (Mathlib instances unify with the core classes).
-/
namespace LinfaSpec

class Transc (α : Type) where
  sqrt : α → α
  exp : α → α
  ln : α → α

instance : NatCast Float := ⟨Float.ofNat⟩
instance : IntCast Float := ⟨Float.ofInt⟩
instance : Transc Float := ⟨Float.sqrt, Float.exp, Float.log⟩

/-- `|x|` written with the core classes only -/
def absS {α} [Neg α] [LT α] [DecidableLT α] [OfNat α 0] (x : α) : α := if x < 0 then -x else x

/-- `max`/`min` written with `<` only (the Rust code's `if a < b`) -/
def maxS {α} [LT α] [DecidableLT α] (a b : α) : α := if a < b then b else a
def minS {α} [LT α] [DecidableLT α] (a b : α) : α := if b < a then b else a

/-- left-to-right sum, the order a sequential Rust loop uses -/
def sumS {α} [Add α] [OfNat α 0] (l : List α) : α := l.foldl (· + ·) 0

def dotS {α} [Add α] [Mul α] [OfNat α 0] (a b : List α) : α := sumS (List.zipWith (· * ·) a b)

end LinfaSpec
