/-
Model of `algorithms/linfa-reduction/src/pca.rs` (core Lean only).

`PcaParams::fit`: guards, column mean (`mean_axis(Axis(0))` = sequential row additions then a
division by `n`), centring, the external truncated SVD (LOBPCG in `linfa-linalg`, a *parameter*
here: it receives the centred matrix and `k` and returns `(sigma, v_t)`), the `1e-8` floor on the
singular values, the optional whitening scale `sqrt(n-1)/sigma_i` of row `i`, and the accessors /
`predict` / `inverse_transform` of the fitted `Pca` value.

Written once, polymorphic in the scalar: the driver runs it on `Float`, the theorems of
`Props/C18.lean` are about the same definitions over an ordered field / `ℝ`.
-/
import LinfaSpec.Model.Scalar

namespace LinfaSpec.Pca

/-- `ReductionError` as far as `fit` can return it (`ε` = error of the external SVD) -/
inductive FitErr (ε : Type) where
  | notEnoughSamples
  | embeddingTooSmall (k : Nat)
  | linalg (e : ε)
  deriving Repr, DecidableEq

/-- the two guards at the top of `fit`, in the order of the code -/
def guard (n p k : Nat) : Option (FitErr ε) :=
  if n = 0 then some .notEnoughSamples
  else if p < k ∨ k = 0 then some (.embeddingTooSmall k)
  else none

section
variable {α : Type} [Add α] [Sub α] [Mul α] [Div α] [LT α] [DecidableLT α]
  [OfNat α 0] [OfNat α 1] [NatCast α]

def vadd (a b : List α) : List α := List.zipWith (· + ·) a b
def vsub (a b : List α) : List α := List.zipWith (· - ·) a b

/-- `x.mean_axis(Axis(0))`: `res = zeros(p)`, `res = res + row` for every row, then `/ n` -/
def colMean (p : Nat) (X : List (List α)) : List α :=
  (X.foldl vadd (List.replicate p 0)).map (· / (X.length : α))

/-- the `while xs.len() >= 8` loop of ndarray's `unrolled_fold` with its eight partial sums -/
def unrolled8 : List α → (α × α × α × α × α × α × α × α) →
    (α × α × α × α × α × α × α × α) × List α
  | x0 :: x1 :: x2 :: x3 :: x4 :: x5 :: x6 :: x7 :: rest, (p0, p1, p2, p3, p4, p5, p6, p7) =>
    unrolled8 rest (p0 + x0, p1 + x1, p2 + x2, p3 + x3, p4 + x4, p5 + x5, p6 + x6, p7 + x7)
  | xs, p => (p, xs)

/-- ndarray `ArrayBase::sum` on a contiguous lane (`unrolled_fold(slice, zero, add)`):
`acc = 0; acc += p0+p4; acc += p1+p5; acc += p2+p6; acc += p3+p7;` then the (< 8) remaining
elements one by one -/
def ndSum (xs : List α) : α :=
  match unrolled8 xs (0, 0, 0, 0, 0, 0, 0, 0) with
  | ((p0, p1, p2, p3, p4, p5, p6, p7), rest) =>
    rest.foldl (· + ·) ((((0 + (p0 + p4)) + (p1 + p5)) + (p2 + p6)) + (p3 + p7))

/-- memory layout of the record matrix handed to `fit` (`Fit` is implemented for every
`ArrayBase<D, Ix2>`, owned or view): C order, Fortran order, a C-order view with a column step,
a Fortran-order view with a row step -/
inductive Layout where
  | c | f | cStrided | fStrided
  deriving Repr, DecidableEq

/-- column `j` of a list of rows (missing entries read as 0; rows have width `p` in every use) -/
def column (X : List (List α)) (j : Nat) : List α := X.map (·.getD j 0)

/-- `x.mean_axis(Axis(0))` as ndarray 0.15 computes it (`sum_axis`): when axis 0 is the axis of
smallest stride (a Fortran-order matrix with more than one row) every column lane is summed on its
own — with the unrolled `sum` when the lane is contiguous (`Layout.f`), element by element when it
is not (`Layout.fStrided`, same order of additions as below) —, otherwise the rows are added one
after the other to a zero row (`colMean`). -/
def colMeanL (lay : Layout) (p : Nat) (X : List (List α)) : List α :=
  match lay with
  | .f => if 1 < X.length then (List.range p).map fun j => ndSum (column X j) / (X.length : α)
          else colMean p X
  | _ => colMean p X

/-- `x - &mean` (row broadcast) -/
def center (X : List (List α)) (mean : List α) : List (List α) := X.map (vsub · mean)

/-- `sigma.mapv(|x| x.max(1e-8))` (the floor is a parameter so that the text is scalar-generic) -/
def floorSigma (fl : α) (σ : List α) : List α := σ.map fun x => if x < fl then fl else x

/-- the whitening loop: row `i` of `v_t` is multiplied by `cov_scale / sigma_i`,
`cov_scale = sqrt(n - 1)` -/
def whiten [Transc α] (n : Nat) (V : List (List α)) (σ : List α) : List (List α) :=
  let c : α := Transc.sqrt ((n : α) - 1)
  List.zipWith (fun row s => row.map (· * (c / s))) V σ

/-- the fitted value (`n_samples` is what `explained_variance` divides by, minus one) -/
structure Model (α : Type) where
  embedding : List (List α)
  sigma : List α
  mean : List α
  nSamples : Nat

/-- `pca::leading_svd(x, num)` (the `not(blas)` path): with `dim = min(nrows, ncols)`, problems with
`dim < 5 * num` are solved densely (`dense x dim` stands for
`TruncatedSvd::new_with_rng(x, Largest, SmallRng(42)).maxiter(0).decompose(dim)?.values_vectors()`,
all pairs the solver keeps, largest first) and the leading `min(num, len)` pairs are kept; the others
go to LOBPCG (`iter x num` = the same solver with `.decompose(num)`). -/
def leadingSvd {ε : Type} (dense iter : List (List α) → Nat → Except ε (List α × List (List α)))
    (p : Nat) (x : List (List α)) (num : Nat) : Except ε (List α × List (List α)) :=
  let dim := min x.length p
  if dim < 5 * num then
    match dense x dim with
    | .error e => .error e
    | .ok (σ, vt) => let keep := min num σ.length; .ok (σ.take keep, vt.take keep)
  else iter x num

/-- `PcaParams::fit`; `svd` stands for `leading_svd` (`leadingSvd` above with the two solver calls
as parameters); `lay` is the memory layout of the records (it only decides the order of the
additions in the column mean). Targets and weights of the dataset are not read. -/
def fit [Transc α] {ε : Type} (fl : α) (svd : List (List α) → Nat → Except ε (List α × List (List α)))
    (k : Nat) (whitening : Bool) (lay : Layout) (p : Nat) (X : List (List α)) :
    Except (FitErr ε) (Model α) :=
  match guard (ε := ε) X.length p k with
  | some e => .error e
  | none =>
    let mean := colMeanL lay p X
    let xc := center X mean
    match svd xc k with
    | .error e => .error (.linalg e)
    | .ok (σ0, vt) =>
      let σ := floorSigma fl σ0
      let emb := if whitening then whiten X.length vt σ else vt
      .ok { embedding := emb, sigma := σ, mean := mean, nSamples := X.length }

/-- `Pca::explained_variance`: `sigma_i² / (n_samples - 1)` -/
def explainedVariance (m : Model α) : List α :=
  m.sigma.map fun x => x * x / ((m.nSamples : α) - 1)

/-- `Pca::explained_variance_ratio`: `ex_var / ex_var.sum()` -/
def explainedVarianceRatio (m : Model α) : List α :=
  let ev := explainedVariance m
  let s := sumS ev
  ev.map (· / s)

/-- `predict`: `(records - mean) . embedding^T` -/
def transform (m : Model α) (X : List (List α)) : List (List α) :=
  X.map fun x => let d := vsub x m.mean; m.embedding.map fun v => dotS d v

/-- `z . W` for one row `z`: `Σ_i z_i * W_i` accumulated from a zero row of width `p` -/
def combo (p : Nat) (z : List α) (W : List (List α)) : List α :=
  (List.zipWith (fun zi row => row.map (zi * ·)) z W).foldl vadd (List.replicate p 0)

/-- squared Euclidean norm of a row -/
def sqNorm (v : List α) : α := dotS v v

/-- rows of the embedding divided by their squared norm: the map that undoes `predict` on the
component subspace whether or not the rows were scaled by the whitening step -/
def backRows (W : List (List α)) : List (List α) := W.map fun v => let s := sqNorm v; v.map (· / s)

/-- `Pca::inverse_transform`: `prediction . (embedding rows / |row|²) + mean` -/
def inverseTransform (m : Model α) (Z : List (List α)) : List (List α) :=
  let B := backRows m.embedding
  Z.map fun z => vadd (combo m.mean.length z B) m.mean

/-- what `Transformer::transform` / the `Predict` forms see of a `DatasetBase`: records, targets,
weights (any types for the last two: they are moved, never read) -/
structure Dataset (α τ ω : Type) where
  records : List (List α)
  targets : τ
  weights : ω

/-- `Transformer::transform(DatasetBase)`: the records are replaced by their projection, targets
and weights are moved into the new dataset -/
def transformDataset {τ ω : Type} (m : Model α) (ds : Dataset α τ ω) : Dataset α τ ω :=
  { records := transform m ds.records, targets := ds.targets, weights := ds.weights }

/-- `Predict::predict(DatasetBase)` (linfa's blanket impl over `predict_inplace`): the records stay,
the projection becomes the targets; the blanket impl builds the result with `DatasetBase::new`, so
the weights are dropped (empty) -/
def predictDataset {τ ω : Type} (m : Model α) (ds : Dataset α τ ω) (noWeights : ω) :
    Dataset α (List (List α)) ω :=
  { records := ds.records, targets := transform m ds.records, weights := noWeights }

end

end LinfaSpec.Pca
