/-
Model of `algorithms/linfa-reduction/src/pca.rs` (core Lean only).

`PcaParams::fit`: guards, column mean (`mean_axis(Axis(0))` = sequential row additions then a
division by `n`), centring, the external truncated SVD (LOBPCG in `linfa-linalg`, a *parameter*
here: it receives the centred matrix and `k` and returns `(sigma, v_t)`), the `1e-8` floor on the
singular values, the optional whitening scale `sqrt(n-1)/sigma_i` of row `i`, and the accessors /
`predict` / `inverse_transform` of the fitted `Pca` value.

Written once, polymorphic in the scalar: the driver runs it on `Float`, the theorems of
`Props/C18.lean` are about the same definitions over an ordered field / `ℝ`.
-/
import LinfaSpec.Model.Scalar

namespace LinfaSpec.Pca

/-- `ReductionError` as far as `fit` can return it (`ε` = error of the external SVD) -/
inductive FitErr (ε : Type) where
  | notEnoughSamples
  | embeddingTooSmall (k : Nat)
  | linalg (e : ε)
  deriving Repr, DecidableEq

/-- the two guards at the top of `fit`, in the order of the code -/
def guard (n p k : Nat) : Option (FitErr ε) :=
  if n = 0 then some .notEnoughSamples
  else if p < k ∨ k = 0 then some (.embeddingTooSmall k)
  else none

section
variable {α : Type} [Add α] [Sub α] [Mul α] [Div α] [LT α] [DecidableLT α]
  [OfNat α 0] [OfNat α 1] [NatCast α]

def vadd (a b : List α) : List α := List.zipWith (· + ·) a b
def vsub (a b : List α) : List α := List.zipWith (· - ·) a b

/-- `x.mean_axis(Axis(0))`: `res = zeros(p)`, `res = res + row` for every row, then `/ n` -/
def colMean (p : Nat) (X : List (List α)) : List α :=
  (X.foldl vadd (List.replicate p 0)).map (· / (X.length : α))

/-- `x - &mean` (row broadcast) -/
def center (X : List (List α)) (mean : List α) : List (List α) := X.map (vsub · mean)

/-- `sigma.mapv(|x| x.max(1e-8))` (the floor is a parameter so that the text is scalar-generic) -/
def floorSigma (fl : α) (σ : List α) : List α := σ.map fun x => if x < fl then fl else x

/-- the whitening loop: row `i` of `v_t` is multiplied by `cov_scale / sigma_i`,
`cov_scale = sqrt(n - 1)` -/
def whiten [Transc α] (n : Nat) (V : List (List α)) (σ : List α) : List (List α) :=
  let c : α := Transc.sqrt ((n : α) - 1)
  List.zipWith (fun row s => row.map (· * (c / s))) V σ

/-- the fitted value (`n_samples` is what `explained_variance` divides by, minus one) -/
structure Model (α : Type) where
  embedding : List (List α)
  sigma : List α
  mean : List α
  nSamples : Nat

/-- `PcaParams::fit`; `svd` stands for
`TruncatedSvd::new_with_rng(x, Largest, SmallRng(42)).decompose(k)?.values_vectors()` -/
def fit [Transc α] {ε : Type} (fl : α) (svd : List (List α) → Nat → Except ε (List α × List (List α)))
    (k : Nat) (whitening : Bool) (p : Nat) (X : List (List α)) : Except (FitErr ε) (Model α) :=
  match guard (ε := ε) X.length p k with
  | some e => .error e
  | none =>
    let mean := colMean p X
    let xc := center X mean
    match svd xc k with
    | .error e => .error (.linalg e)
    | .ok (σ0, vt) =>
      let σ := floorSigma fl σ0
      let emb := if whitening then whiten X.length vt σ else vt
      .ok { embedding := emb, sigma := σ, mean := mean, nSamples := X.length }

/-- `Pca::explained_variance`: `sigma_i² / (n_samples - 1)` -/
def explainedVariance (m : Model α) : List α :=
  m.sigma.map fun x => x * x / ((m.nSamples : α) - 1)

/-- `Pca::explained_variance_ratio`: `ex_var / ex_var.sum()` -/
def explainedVarianceRatio (m : Model α) : List α :=
  let ev := explainedVariance m
  let s := sumS ev
  ev.map (· / s)

/-- `predict`: `(records - mean) . embedding^T` -/
def transform (m : Model α) (X : List (List α)) : List (List α) :=
  X.map fun x => let d := vsub x m.mean; m.embedding.map fun v => dotS d v

/-- `z . W` for one row `z`: `Σ_i z_i * W_i` accumulated from a zero row of width `p` -/
def combo (p : Nat) (z : List α) (W : List (List α)) : List α :=
  (List.zipWith (fun zi row => row.map (zi * ·)) z W).foldl vadd (List.replicate p 0)

/-- squared Euclidean norm of a row -/
def sqNorm (v : List α) : α := dotS v v

/-- rows of the embedding divided by their squared norm: the map that undoes `predict` on the
component subspace whether or not the rows were scaled by the whitening step -/
def backRows (W : List (List α)) : List (List α) := W.map fun v => let s := sqNorm v; v.map (· / s)

/-- `Pca::inverse_transform`: `prediction . (embedding rows / |row|²) + mean` -/
def inverseTransform (m : Model α) (Z : List (List α)) : List (List α) :=
  let B := backRows m.embedding
  Z.map fun z => vadd (combo m.mean.length z B) m.mean

end

end LinfaSpec.Pca
