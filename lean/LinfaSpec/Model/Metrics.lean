/-
C05 — model of linfa's evaluation metrics (core Lean only):
`src/metrics_classification.rs` (confusion matrix and derived scores, ROC / AUC, log-loss),
`src/metrics_regression.rs`, `src/metrics_clustering.rs` (silhouette), `src/correlation.rs` (Pearson).

Conventions
* A confusion matrix is `List (List Nat)`; the Rust code counts in `f32` by repeated `+= 1.0`,
  which is exact below 2^24 samples, so the cells are modelled as naturals and cast into the
  scalar where the Rust code starts to divide.
* Every numeric function is written once over a scalar `α` with core classes only; the driver
  instantiates it with `Float32` / `Float`, the theorems with ordered fields / `ℝ`.
* Sequential Rust loops (`+=`, `Iterator::sum`) are `sumS` (left fold from 0).  ndarray's
  `sum`/`mean`/`dot`/`var_axis` (unrolled or Welford reductions) are modelled by the plain
  left-to-right sum / the two-pass variance; they agree bit-for-bit on lattice inputs (all partial
  sums exact) and within the stated tolerance otherwise.
-/
import LinfaSpec.Model.Scalar

namespace LinfaSpec.Metrics
open LinfaSpec

instance : NatCast Float32 := ⟨Float32.ofNat⟩
instance : Transc Float32 := ⟨Float32.sqrt, Float32.exp, Float32.log⟩

/-! ## Confusion matrix -/
section Labels
variable {L : Type} [DecidableEq L] [LT L] [DecidableLT L]

/-- insertion into a strictly sorted list, dropping duplicates -/
def insertUniq (x : L) : List L → List L
  | [] => [x]
  | y :: ys => if x < y then x :: y :: ys else if y < x then y :: insertUniq x ys else y :: ys

/-- `HashSet` of all labels, `collect`, `sort()`: the strictly increasing list of distinct labels -/
def sortUniq (l : List L) : List L := l.foldr insertUniq []

/-- `combined_labels` + `sort` + `reverse` when there are exactly two classes -/
def classes (pred truth : List L) : List L :=
  let s := sortUniq (pred ++ truth)
  if s.length = 2 then s.reverse else s

/-- position of a label in the class list (the `HashMap` built by `map_prediction_to_idx`) -/
def indexOf (x : L) : List L → Option Nat
  | [] => none
  | y :: ys => if x = y then some 0 else (indexOf x ys).map (· + 1)
end Labels

def modifyAt {β} (f : β → β) : Nat → List β → List β
  | _, [] => []
  | 0, x :: xs => f x :: xs
  | i + 1, x :: xs => x :: modifyAt f i xs

/-- `confusion_matrix[(i, j)] += 1.0` -/
def incr (m : List (List Nat)) (i j : Nat) : List (List Nat) :=
  modifyAt (modifyAt (· + 1) j) i m

def zeros (k : Nat) : List (List Nat) := List.replicate k (List.replicate k 0)

def cell (m : List (List Nat)) (i j : Nat) : Nat := (m.getD i []).getD j 0

section Labels
variable {L : Type} [DecidableEq L]

/-- one iteration of the counting loop `for (i1, i2) in indices.into_iter().flatten() { m[(i1,i2)] += 1.0 }`;
pairs with a label outside `cs` are skipped (`flatten` drops the `None`s) -/
def countStep (cs : List L) (m : List (List Nat)) (p : L × L) : List (List Nat) :=
  match indexOf p.1 cs, indexOf p.2 cs with
  | some i, some j => incr m i j
  | _, _ => m

def countLoop (cs : List L) (pairs : List (L × L)) : List (List Nat) :=
  pairs.foldl (countStep cs) (zeros cs.length)

variable [LT L] [DecidableLT L]

/-- `prediction.confusion_matrix(ground_truth)`: `none` = `Err(MismatchedShapes)`;
row index = predicted label, column index = true label -/
def confusion (pred truth : List L) : Option (List L × List (List Nat)) :=
  if pred.length ≠ truth.length then none
  else
    let cs := classes pred truth
    some (cs, countLoop cs (pred.zip truth))

/-- `receiver.confusion_matrix(&truth)` for a receiver whose `Labels::label_set()` is `lp` (an
array recomputes it from its elements, so `lp` has the members of `pred` and this is `confusion`;
`CountedTargets` answers with the counts cached at construction, which `as_targets_mut` does not
refresh): the class list is built from `lp` and the labels of `truth`, and the counting loop skips
every pair with a label outside it (`flatten`) -/
def confusionWith (lp pred truth : List L) : Option (List L × List (List Nat)) :=
  if pred.length ≠ truth.length then none
  else
    let cs := classes lp truth
    some (cs, countLoop cs (pred.zip truth))
end Labels

def rowSum (m : List (List Nat)) (i : Nat) : Nat := (m.getD i []).sum
def colSum (m : List (List Nat)) (j : Nat) : Nat := (m.map fun r => r.getD j 0).sum
def total (m : List (List Nat)) : Nat := (m.map List.sum).sum
def diagSum (m : List (List Nat)) : Nat := ((List.range m.length).map fun i => cell m i i).sum

/-- `split_one_vs_all`: for class `i` the 2×2 matrix `[[tp, fp], [fn, tn]]` -/
def splitOneVsAll (m : List (List Nat)) : List (List (List Nat)) :=
  (List.range m.length).map fun i =>
    let tp := cell m i i
    let fp := rowSum m i - tp
    let fn := colSum m i - tp
    let tn := total m - tp - fp - fn
    [[tp, fp], [fn, tn]]

/-- `split_one_vs_one`: for every pair `i < j` the matrix `[[m_ii, m_ij], [m_ji, m_jj]]`
(the code after the `fix:` commit; before it the inner loop started at `j = i`) -/
def splitOneVsOne (m : List (List Nat)) : List (List (List Nat)) :=
  (List.range m.length).flatMap fun i =>
    ((List.range m.length).filter fun j => i < j).map fun j =>
      [[cell m i i, cell m i j], [cell m j i, cell m j j]]

section Scores
variable {α : Type} [Add α] [Sub α] [Mul α] [Div α] [OfNat α 0] [OfNat α 1] [NatCast α]

def cellS (m : List (List Nat)) (i j : Nat) : α := ((cell m i j : Nat) : α)

/-- binary branch of `precision()`: `m00 / (m00 + m10)` -/
def precisionBin (m : List (List Nat)) : α := cellS m 0 0 / (cellS m 0 0 + cellS m 1 0)
/-- binary branch of `recall()`: `m00 / (m00 + m01)` -/
def recallBin (m : List (List Nat)) : α := cellS m 0 0 / (cellS m 0 0 + cellS m 0 1)

/-- `precision()`: binary formula on a 2×2 matrix, macro average of the one-vs-all splits otherwise -/
def precision (m : List (List Nat)) : α :=
  if m.length = 2 then precisionBin m
  else sumS ((splitOneVsAll m).map (precisionBin (α := α))) / ((m.length : Nat) : α)

def recall (m : List (List Nat)) : α :=
  if m.length = 2 then recallBin m
  else sumS ((splitOneVsAll m).map (recallBin (α := α))) / ((m.length : Nat) : α)

/-- `accuracy()`: `diag().sum() / sum()` -/
def accuracy (m : List (List Nat)) : α := ((diagSum m : Nat) : α) / ((total m : Nat) : α)

/-- `f_score(beta)`: `(1 + b²)·(p·r) / (b²·p + r)` -/
def fScore (beta : α) (m : List (List Nat)) : α :=
  let sb := beta * beta
  let p : α := precision m
  let r : α := recall m
  (1 + sb) * (p * r) / (sb * p + r)

variable [Transc α]

/-- `mcc()`: the triple loop, the two marginal loops, `cov_xy / sqrt(cov_xx) / sqrt(cov_yy)` -/
def mcc (m : List (List Nat)) : α :=
  let k := m.length
  let idx := List.range k
  let covXY : α := idx.foldl (fun acc a => idx.foldl (fun acc l => idx.foldl (fun acc c =>
      (acc + cellS m a a * cellS m l c) - cellS m a l * cellS m c a) acc) acc) 0
  let sum : α := ((total m : Nat) : α)
  let covXX : α := idx.foldl (fun acc a => acc + ((rowSum m a : Nat) : α) * (sum - ((rowSum m a : Nat) : α))) 0
  let covYY : α := idx.foldl (fun acc a => acc + ((colSum m a : Nat) : α) * (sum - ((colSum m a : Nat) : α))) 0
  covXY / Transc.sqrt covXX / Transc.sqrt covYY
end Scores

/-! ## ROC curve, AUC, log-loss -/
section Roc
variable {α : Type} [Add α] [Sub α] [Mul α] [Div α] [Neg α] [LT α] [DecidableLT α]
  [LE α] [DecidableLE α] [OfNat α 0] [OfNat α 1] [OfNat α 2]

/-- stable insertion sort by score (Rust: `sort_unstable_by(partial_cmp)`; the curve does not
depend on the order inside a group of equal scores) -/
def insertByScore (x : α × Bool) : List (α × Bool) → List (α × Bool)
  | [] => [x]
  | y :: ys => if x.1 < y.1 then x :: y :: ys else y :: insertByScore x ys

def sortByScore (l : List (α × Bool)) : List (α × Bool) := l.foldr insertByScore []

structure RocState (α : Type) where
  tp : α
  fp : α
  /-- score that opened the current group; `none` before the first sample -/
  s0 : Option α
  pts : List (α × α)
  thr : List α

/-- `s0.map_or(true, |s0| (s - s0).abs() > 1e-10)`: does score `s` open a new group? -/
def isFresh (eps : α) (s0 : Option α) (s : α) : Bool :=
  match s0 with
  | none => true
  | some s0 => decide (eps < absS (s - s0))

/-- one iteration of `for (s, t) in tuples` -/
def rocStep (eps : α) (st : RocState α) (x : α × Bool) : RocState α :=
  let st := if isFresh eps st.s0 x.1 then
      { st with pts := st.pts ++ [(st.tp, st.fp)], thr := st.thr ++ [x.1], s0 := some x.1 }
    else st
  if x.2 then { st with tp := st.tp + 1 } else { st with fp := st.fp + 1 }

/-- the loop and the closing `push((tp, fp))`, before normalisation -/
def rocRaw (eps : α) (s0 : Option α) (sorted : List (α × Bool)) : RocState α :=
  let st := sorted.foldl (rocStep eps) { tp := 0, fp := 0, s0 := s0, pts := [], thr := [] }
  { st with pts := st.pts ++ [(st.tp, st.fp)] }

/-- `roc`: filter `score ≥ 0`, sort, loop, divide by the totals.
`s0` is the initial value of the group marker: `none` for the repaired code,
`some 0` reproduces the `let mut s0 = 0.0` sentinel of the original. -/
def roc (eps : α) (s0 : Option α) (samples : List (α × Bool)) : List (α × α) × List α :=
  let tuples := sortByScore (samples.filter fun x => decide ((0 : α) ≤ x.1))
  let st := rocRaw eps s0 tuples
  (st.pts.map fun p => (p.1 / st.tp, p.2 / st.fp), st.thr)

/-- `trapezoidal` (the curve is never empty; `[]` would be an index panic) -/
def trapezoid : List (α × α) → α
  | [] => 0
  | p0 :: rest =>
    (rest.foldl (fun (acc : α × α × α) p =>
      (acc.1 + (p.1 - acc.2.1) * (acc.2.2 + p.2) / 2, p.1, p.2)) (0, p0.1, p0.2)).1

def auc (eps : α) (s0 : Option α) (samples : List (α × Bool)) : α :=
  trapezoid (roc eps s0 samples).1

/-- weight of a (negative, positive) pair in the Mann-Whitney statistic -/
def mwWeight (neg pos : α) : α := if neg < pos then 2 else if pos < neg then 0 else 1

/-- twice the Mann-Whitney count: Σ over (positive, negative) pairs of 2·[neg < pos] + [neg = pos] -/
def mwCount2 (l : List (α × Bool)) : α :=
  sumS (l.map fun p => if p.2 then sumS (l.map fun q => if q.2 then 0 else mwWeight q.1 p.1) else 0)

def countPos (l : List (α × Bool)) : α := sumS (l.map fun p => if p.2 then 1 else 0)
def countNeg (l : List (α × Bool)) : α := sumS (l.map fun p => if p.2 then 0 else 1)

/-- the Mann-Whitney rank statistic with ties counted one half -/
def mannWhitney (l : List (α × Bool)) : α := mwCount2 l / (2 * (countPos l * countNeg l))

variable [Transc α] [NatCast α]

def clampS (lo hi x : α) : α := if x < lo then lo else if hi < x then hi else x

/-- `log_loss`: `none` = `Err(NotEnoughSamples)`; `eps` is `f32::EPSILON` -/
def logLoss (eps : α) (pr : List α) (y : List Bool) : Option α :=
  if pr.isEmpty then none
  else
    let terms := (pr.zip y).map fun (v, b) =>
      let a := clampS eps (1 - eps) v
      if b then -(Transc.ln a) else -(Transc.ln (1 - a))
    some (sumS terms / ((pr.length : Nat) : α))
end Roc

/-! ## Regression scores -/
section Reg
variable {α : Type} [Add α] [Sub α] [Mul α] [Div α] [Neg α] [LT α] [DecidableLT α]
  [OfNat α 0] [OfNat α 1] [OfNat α 2] [NatCast α]

def subL (a b : List α) : List α := List.zipWith (· - ·) a b

/-- ndarray `mean()`: `None` on an empty array, else `sum / n` -/
def meanS (l : List α) : Option α := if l.isEmpty then none else some (sumS l / ((l.length : Nat) : α))

/-- `max_error`: `fold(-inf, max)` of the absolute differences; `none` stands for `-inf` (empty input) -/
def maxError (a b : List α) : Option α :=
  match (subL a b).map absS with
  | [] => none
  | x :: xs => some (xs.foldl maxS x)

def meanAbsError (a b : List α) : Option α := meanS ((subL a b).map absS)
def meanSqError (a b : List α) : Option α := meanS ((subL a b).map fun x => x * x)

def insertAsc (x : α) : List α → List α
  | [] => [x]
  | y :: ys => if x < y then x :: y :: ys else y :: insertAsc x ys
def sortAsc (l : List α) : List α := l.foldr insertAsc []

/-- `median_absolute_error`; `none` = panic on the empty input (`abs_error[mid - 1]`) -/
def medianAbsError (a b : List α) : Option α :=
  let s := sortAsc ((subL a b).map absS)
  let mid := s.length / 2
  if s.length % 2 = 0 then
    match s[mid - 1]?, s[mid]? with
    | some x, some y => some ((x + y) / 2)
    | _, _ => none
  else s[mid]?

/-- `mean_absolute_percentage_error`: error relative to the receiver (`self`) -/
def mape (a b : List α) : Option α := meanS ((List.zipWith (· / ·) (subL a b) a).map absS)

def sqDevSum (mean : α) (l : List α) : α := sumS (l.map fun x => (x - mean) * (x - mean))

/-- `r2`: `1 - Σ(a-b)² / (Σ(b - mean b)² + 1e-10)` -/
def r2 (tiny : α) (a b : List α) : Option α :=
  (meanS b).map fun mean =>
    1 - sumS ((subL a b).map fun x => x * x) / (sqDevSum mean b + tiny)

/-- `explained_variance` as coded: `1 - (Σ(a-b)² - mean(a-b)) / (Σ(b - mean b)² + 1e-10)` -/
def explainedVariance (tiny : α) (a b : List α) : Option α :=
  (meanS b).bind fun mean => (meanS (subL a b)).map fun meanErr =>
    1 - (sumS ((subL a b).map fun x => x * x) - meanErr) / (sqDevSum mean b + tiny)

/-- textbook explained variance `1 - Var(a-b)/Var(b)` (the specification the property names) -/
def explainedVarianceSpec (a b : List α) : Option α :=
  (meanS b).bind fun mean => (meanS (subL a b)).map fun meanErr =>
    1 - sqDevSum meanErr (subL a b) / sqDevSum mean b

variable [Transc α]
/-- `mean_squared_log_error`: MSE of `ln(1 + x)` on both sides -/
def meanSqLogError (a b : List α) : Option α :=
  meanSqError (a.map fun x => Transc.ln (1 + x)) (b.map fun x => Transc.ln (1 + x))
end Reg

/-! ## Silhouette -/
section Sil
variable {α : Type} [Add α] [Sub α] [Mul α] [Div α] [LT α] [DecidableLT α] [LE α] [DecidableLE α]
  [OfNat α 0] [OfNat α 1] [NatCast α]

/-- distinct labels in order of first appearance (the key set of `label_count`) -/
def labelSet (labels : List Nat) : List Nat :=
  labels.foldl (fun acc l => if acc.contains l then acc else acc ++ [l]) []

def labelCount (labels : List Nat) (l : Nat) : Nat := (labels.filter (· == l)).length

/-- `total_distance` of sample `i` to cluster `l`: `+=` over all samples of that label in order
(the sample itself included, at distance `d i i`) -/
def totalDist (d : List (List α)) (labels : List Nat) (i l : Nat) : α :=
  sumS (((d.getD i []).zip labels).filterMap fun (x, lj) => if lj == l then some x else none)

/-- silhouette of one sample: `a_x`, `b_x` and `(b-a)/a` if `a ≥ b` else `(b-a)/b` -/
def silSample (d : List (List α)) (labels : List Nat) (i li : Nat) : α :=
  let own := labelCount labels li
  let a : α := if own = 1 then 0 else totalDist d labels i li / ((own - 1 : Nat) : α)
  let others := (labelSet labels).filter (· != li)
  let means : List α := others.map fun l => totalDist d labels i l / ((labelCount labels l : Nat) : α)
  match means with
  | [] => 0
  | m0 :: ms =>
    let b := ms.foldl (fun v m => if m < v then m else v) m0
    if b ≤ a then (b - a) / a else (b - a) / b

/-- `silhouette_score` over a matrix of pairwise distances -/
def silhouette (d : List (List α)) (labels : List Nat) : α :=
  if (labelSet labels).length = 1 then 1
  else
    let idx := List.range labels.length
    sumS ((idx.zip labels).map fun (i, li) => silSample d labels i li) / ((labels.length : Nat) : α)

/-- the per-sample value with the label set `ls` and the cluster sizes `cnt` given from outside
(`silSample` is this with `labelSet labels` / `labelCount labels`, by `rfl`) -/
def silSampleC (ls : List Nat) (cnt : Nat → Nat) (d : List (List α)) (labels : List Nat) (i li : Nat) : α :=
  let own := cnt li
  let a : α := if own = 1 then 0 else totalDist d labels i li / ((own - 1 : Nat) : α)
  let others := ls.filter (· != li)
  let means : List α := others.map fun l => totalDist d labels i l / ((cnt l : Nat) : α)
  match means with
  | [] => 0
  | m0 :: ms =>
    let b := ms.foldl (fun v m => if m < v then m else v) m0
    if b ≤ a then (b - a) / a else (b - a) / b

/-- `label_count()` of targets counted on `cl`: (label, count) in first-appearance order -/
def labelCache (cl : List Nat) : List (Nat × Nat) := (labelSet cl).map fun l => (l, labelCount cl l)

def cacheCount (cache : List (Nat × Nat)) (l : Nat) : Nat := ((cache.find? fun p => p.1 == l).map Prod.snd).getD 0

/-- `silhouette_score` of a dataset whose `label_count()` answers with `cache` (a `CountedTargets`
counted before its targets were overwritten): cached labels and cluster sizes, `none` = the
`labels.get_mut(..).unwrap()` panic on a label of the data that was never counted -/
def silhouetteC (cache : List (Nat × Nat)) (d : List (List α)) (labels : List Nat) : Option α :=
  let ls := cache.map Prod.fst
  if ls.length = 1 then some 1
  else if labels.any (fun l => !ls.contains l) then none
  else
    let idx := List.range labels.length
    some (sumS ((idx.zip labels).map fun (i, li) => silSampleC ls (cacheCount cache) d labels i li) /
      ((labels.length : Nat) : α))

/-- `eval_sample.sub(&other_sample).mapv(|x| x * x).sum()` -/
def sqDist (x y : List α) : α := sumS (List.zipWith (fun a b => (a - b) * (a - b)) x y)

variable [Transc α]

/-- the distances `add_point` accumulates: `sqrt` of the squared Euclidean distance of every pair of records -/
def distMatrix (x : List (List α)) : List (List α) :=
  x.map fun xi => x.map fun xj => Transc.sqrt (sqDist xi xj)

/-- `DatasetBase::silhouette_score` of the records `x` with the labels `labels` -/
def silhouettePts (x : List (List α)) (labels : List Nat) : α := silhouette (distMatrix x) labels
end Sil

/-! ## Pearson -/
section Pearson
variable {α : Type} [Add α] [Sub α] [Mul α] [Div α] [OfNat α 0] [NatCast α] [Transc α]

def column (rows : List (List α)) (j : Nat) : List α := rows.map fun r => r.getD j 0

/-- `pearson_correlation`: column means, centring, covariance `/(n-1)`, standard deviations of the
centred columns (`var_axis(0, 1)`: deviations from the centred column's own mean), upper triangle
in row-major order -/
def pearson (rows : List (List α)) (p : Nat) : List α :=
  let n := rows.length
  let nS : α := ((n : Nat) : α)
  let dofS : α := ((n - 1 : Nat) : α)
  let cols := (List.range p).map fun j =>
    let c := column rows j
    let mean := sumS c / nS
    c.map fun x => x - mean
  let std := cols.map fun c =>
    let m := sumS c / nS
    Transc.sqrt (sumS (c.map fun x => (x - m) * (x - m)) / dofS)
  (List.range (p - 1)).flatMap fun i =>
    ((List.range p).filter fun j => i < j).map fun j =>
      dotS (cols.getD i []) (cols.getD j []) / dofS / std.getD i 0 / std.getD j 0
end Pearson

end LinfaSpec.Metrics
