/-
C19 — wire model: the MessagePack subset that `rmp-serde` emits for linfa's serde types.

`Val` is the decoded form, `encode` the (canonical, shortest-form) encoder that `rmp::encode`
implements (`write_uint` / `write_sint` / `write_str_len` / `write_bin_len` / `write_array_len` /
`write_map_len` pick the shortest header), `decode` a fuelled decoder for the whole format family
(it also accepts non-canonical widths; `ext` types, which serde never emits here, are rejected).

Core Lean only: this file is linked into the native driver, which decodes and re-encodes the bytes
that the real `rmp-serde` produced for fitted linfa values.
-/
namespace LinfaSpec.Wire

abbrev Bytes := List UInt8

/-- decoded MessagePack value.  `uint n` is the non-negative integer `n` (`n < 2^64` on the wire),
`nint n` the negative integer `-(n+1)` (`n < 2^63`), floats are kept as their IEEE bit patterns so
that NaN payloads and signed zeros are preserved exactly. -/
inductive Val where
  | nil
  | bool (b : Bool)
  | uint (n : Nat)
  | nint (n : Nat)
  | f32 (bits : UInt32)
  | f64 (bits : UInt64)
  | str (s : Bytes)
  | bin (s : Bytes)
  | arr (xs : List Val)
  | map (kvs : List (Val × Val))
  deriving Inhabited

/-! ## big-endian integers -/

/-- the `k` low-order base-256 digits of `n`, most significant first -/
def beBytes : Nat → Nat → Bytes
  | 0, _ => []
  | k+1, n => beBytes k (n / 256) ++ [UInt8.ofNat (n % 256)]

def beNat (bs : Bytes) : Nat := bs.foldl (fun a b => a * 256 + b.toNat) 0

/-- read `k` bytes as a big-endian number -/
def readBE (k : Nat) (bs : Bytes) : Option (Nat × Bytes) :=
  if bs.length < k then none else some (beNat (bs.take k), bs.drop k)

/-- read `n` raw bytes -/
def readBytes (n : Nat) (bs : Bytes) : Option (Bytes × Bytes) :=
  if bs.length < n then none else some (bs.take n, bs.drop n)

/-! ## encoder -/

def encUInt (n : Nat) : Bytes :=
  if n < 128 then [UInt8.ofNat n]
  else if n < 256 then 0xcc :: beBytes 1 n
  else if n < 65536 then 0xcd :: beBytes 2 n
  else if n < 4294967296 then 0xce :: beBytes 4 n
  else 0xcf :: beBytes 8 n

/-- `-(n+1)` in two's complement of the shortest width -/
def encNInt (n : Nat) : Bytes :=
  if n < 32 then [UInt8.ofNat (255 - n)]
  else if n < 128 then 0xd0 :: beBytes 1 (255 - n)
  else if n < 32768 then 0xd1 :: beBytes 2 (65535 - n)
  else if n < 2147483648 then 0xd2 :: beBytes 4 (4294967295 - n)
  else 0xd3 :: beBytes 8 (18446744073709551615 - n)

def strHdr (n : Nat) : Bytes :=
  if n < 32 then [UInt8.ofNat (0xa0 + n)]
  else if n < 256 then 0xd9 :: beBytes 1 n
  else if n < 65536 then 0xda :: beBytes 2 n
  else 0xdb :: beBytes 4 n

def binHdr (n : Nat) : Bytes :=
  if n < 256 then 0xc4 :: beBytes 1 n
  else if n < 65536 then 0xc5 :: beBytes 2 n
  else 0xc6 :: beBytes 4 n

def arrHdr (n : Nat) : Bytes :=
  if n < 16 then [UInt8.ofNat (0x90 + n)]
  else if n < 65536 then 0xdc :: beBytes 2 n
  else 0xdd :: beBytes 4 n

def mapHdr (n : Nat) : Bytes :=
  if n < 16 then [UInt8.ofNat (0x80 + n)]
  else if n < 65536 then 0xde :: beBytes 2 n
  else 0xdf :: beBytes 4 n

mutual
def encode : Val → Bytes
  | .nil => [0xc0]
  | .bool false => [0xc2]
  | .bool true => [0xc3]
  | .uint n => encUInt n
  | .nint n => encNInt n
  | .f32 b => 0xca :: beBytes 4 b.toNat
  | .f64 b => 0xcb :: beBytes 8 b.toNat
  | .str s => strHdr s.length ++ s
  | .bin s => binHdr s.length ++ s
  | .arr xs => arrHdr xs.length ++ encodeList xs
  | .map kvs => mapHdr kvs.length ++ encodePairs kvs
def encodeList : List Val → Bytes
  | [] => []
  | x :: xs => encode x ++ encodeList xs
def encodePairs : List (Val × Val) → Bytes
  | [] => []
  | (k, v) :: r => encode k ++ (encode v ++ encodePairs r)
end

/-! ## decoder -/

/-- `n` consecutive items read by `dec` -/
def listOf (dec : Bytes → Option (Val × Bytes)) : Nat → Bytes → Option (List Val × Bytes)
  | 0, bs => some ([], bs)
  | n+1, bs =>
    match dec bs with
    | none => none
    | some (v, r) =>
      match listOf dec n r with
      | none => none
      | some (vs, r') => some (v :: vs, r')

/-- `n` consecutive key/value pairs read by `dec` -/
def pairsOf (dec : Bytes → Option (Val × Bytes)) : Nat → Bytes → Option (List (Val × Val) × Bytes)
  | 0, bs => some ([], bs)
  | n+1, bs =>
    match dec bs with
    | none => none
    | some (k, r) =>
      match dec r with
      | none => none
      | some (v, r') =>
        match pairsOf dec n r' with
        | none => none
        | some (kvs, r'') => some ((k, v) :: kvs, r'')

/-- a signed big-endian field of `k` bytes holding `raw`: non-negative → `uint`, else `nint` -/
def signedVal (k : Nat) (raw : Nat) : Val :=
  if raw < 256 ^ k / 2 then .uint raw else .nint (256 ^ k - 1 - raw)

def withLen (k : Nat) (bs : Bytes) (f : Nat → Bytes → Option (Val × Bytes)) : Option (Val × Bytes) :=
  match readBE k bs with
  | none => none
  | some (n, r) => f n r

def strBody (n : Nat) (bs : Bytes) : Option (Val × Bytes) :=
  match readBytes n bs with
  | none => none
  | some (s, r) => some (.str s, r)

def binBody (n : Nat) (bs : Bytes) : Option (Val × Bytes) :=
  match readBytes n bs with
  | none => none
  | some (s, r) => some (.bin s, r)

def arrBody (dec : Bytes → Option (Val × Bytes)) (n : Nat) (bs : Bytes) : Option (Val × Bytes) :=
  match listOf dec n bs with
  | none => none
  | some (xs, r) => some (.arr xs, r)

def mapBody (dec : Bytes → Option (Val × Bytes)) (n : Nat) (bs : Bytes) : Option (Val × Bytes) :=
  match pairsOf dec n bs with
  | none => none
  | some (kvs, r) => some (.map kvs, r)

/-- one value; `fuel` bounds the nesting depth -/
def decode : Nat → Bytes → Option (Val × Bytes)
  | 0, _ => none
  | _+1, [] => none
  | fuel+1, b :: rest =>
    let t := b.toNat
    if t < 0x80 then some (.uint t, rest)
    else if t < 0x90 then mapBody (decode fuel) (t - 0x80) rest
    else if t < 0xa0 then arrBody (decode fuel) (t - 0x90) rest
    else if t < 0xc0 then strBody (t - 0xa0) rest
    else if t = 0xc0 then some (.nil, rest)
    else if t = 0xc2 then some (.bool false, rest)
    else if t = 0xc3 then some (.bool true, rest)
    else if t = 0xc4 then withLen 1 rest binBody
    else if t = 0xc5 then withLen 2 rest binBody
    else if t = 0xc6 then withLen 4 rest binBody
    else if t = 0xca then withLen 4 rest fun n r => some (.f32 (UInt32.ofNat n), r)
    else if t = 0xcb then withLen 8 rest fun n r => some (.f64 (UInt64.ofNat n), r)
    else if t = 0xcc then withLen 1 rest fun n r => some (.uint n, r)
    else if t = 0xcd then withLen 2 rest fun n r => some (.uint n, r)
    else if t = 0xce then withLen 4 rest fun n r => some (.uint n, r)
    else if t = 0xcf then withLen 8 rest fun n r => some (.uint n, r)
    else if t = 0xd0 then withLen 1 rest fun n r => some (signedVal 1 n, r)
    else if t = 0xd1 then withLen 2 rest fun n r => some (signedVal 2 n, r)
    else if t = 0xd2 then withLen 4 rest fun n r => some (signedVal 4 n, r)
    else if t = 0xd3 then withLen 8 rest fun n r => some (signedVal 8 n, r)
    else if t = 0xd9 then withLen 1 rest strBody
    else if t = 0xda then withLen 2 rest strBody
    else if t = 0xdb then withLen 4 rest strBody
    else if t = 0xdc then withLen 2 rest (arrBody (decode fuel))
    else if t = 0xdd then withLen 4 rest (arrBody (decode fuel))
    else if t = 0xde then withLen 2 rest (mapBody (decode fuel))
    else if t = 0xdf then withLen 4 rest (mapBody (decode fuel))
    else if 0xe0 ≤ t then some (.nint (255 - t), rest)
    else none  -- 0xc1 (never used), ext / fixext families

/-- decode a complete message: exactly one value and no trailing bytes.  The nesting depth of a
value is at most the number of its bytes, so `bs.length` is always enough fuel. -/
def decodeAll (bs : Bytes) : Option Val :=
  match decode bs.length bs with
  | some (v, []) => some v
  | _ => none

/-! ## well-formedness: what the format can carry -/

mutual
def Val.wf : Val → Bool
  | .nil => true
  | .bool _ => true
  | .uint n => decide (n < 18446744073709551616)
  | .nint n => decide (n < 9223372036854775808)
  | .f32 _ => true
  | .f64 _ => true
  | .str s => decide (s.length < 4294967296)
  | .bin s => decide (s.length < 4294967296)
  | .arr xs => decide (xs.length < 4294967296) && wfList xs
  | .map kvs => decide (kvs.length < 4294967296) && wfPairs kvs
def wfList : List Val → Bool
  | [] => true
  | x :: xs => x.wf && wfList xs
def wfPairs : List (Val × Val) → Bool
  | [] => true
  | (k, v) :: r => k.wf && (v.wf && wfPairs r)
end

mutual
/-- nesting depth (fuel needed by `decode`) -/
def Val.depth : Val → Nat
  | .arr xs => depthList xs + 1
  | .map kvs => depthPairs kvs + 1
  | _ => 1
def depthList : List Val → Nat
  | [] => 0
  | x :: xs => max x.depth (depthList xs)
def depthPairs : List (Val × Val) → Nat
  | [] => 0
  | (k, v) :: r => max k.depth (max v.depth (depthPairs r))
end

/-! ## canonical text (shared with the harness) and leaves -/

def hexNib (n : Nat) : Char :=
  if n < 10 then Char.ofNat (48 + n) else Char.ofNat (87 + n)

def hexBytes (bs : Bytes) : String :=
  String.ofList (bs.flatMap fun b => [hexNib (b.toNat / 16), hexNib (b.toNat % 16)])

def hexFixed (w n : Nat) : String := hexBytes (beBytes w n)

mutual
def render : Val → String
  | .nil => "N"
  | .bool true => "T"
  | .bool false => "F"
  | .uint n => "u" ++ toString n
  | .nint n => "i-" ++ toString (n + 1)
  | .f32 b => "f" ++ hexFixed 4 b.toNat
  | .f64 b => "d" ++ hexFixed 8 b.toNat
  | .str s => "s" ++ hexBytes s
  | .bin s => "b" ++ hexBytes s
  | .arr xs => "[" ++ renderList xs ++ "]"
  | .map kvs => "{" ++ renderPairs kvs ++ "}"
def renderList : List Val → String
  | [] => ""
  | [x] => render x
  | x :: y :: r => render x ++ "," ++ renderList (y :: r)
def renderPairs : List (Val × Val) → String
  | [] => ""
  | [(k, v)] => render k ++ ":" ++ render v
  | (k, v) :: p :: r => render k ++ ":" ++ render v ++ "," ++ renderPairs (p :: r)
end

mutual
/-- number of float leaves -/
def floatLeaves : Val → Nat
  | .f32 _ => 1
  | .f64 _ => 1
  | .arr xs => floatLeavesList xs
  | .map kvs => floatLeavesPairs kvs
  | _ => 0
def floatLeavesList : List Val → Nat
  | [] => 0
  | x :: xs => floatLeaves x + floatLeavesList xs
def floatLeavesPairs : List (Val × Val) → Nat
  | [] => 0
  | (k, v) :: r => floatLeaves k + (floatLeaves v + floatLeavesPairs r)
end

/-! ## schema table entries (filled by `tools/serde2lean.py` from the Rust sources) -/

structure FieldInfo where
  name : String
  skip : Bool
  flags : String
  deriving Repr

structure VariantInfo where
  name : String
  kind : String        -- unit | newtype | tuple | struct
  skip : Bool
  fields : List FieldInfo
  deriving Repr

structure TypeInfo where
  id : String          -- crate::Type
  kind : String        -- struct | newtype | tuple | unit | enum
  flags : String
  fields : List FieldInfo
  variants : List VariantInfo
  deriving Repr

def liveFields (fs : List FieldInfo) : List FieldInfo := fs.filter fun f => !f.skip

def strVal (s : String) : Val := .str s.toUTF8.toList

/-- does a decoded struct body (named = map keyed by field names in declaration order,
compact = array of the same length) match the declared, non-skipped fields? -/
def bodyMatches (named : Bool) (fs : List FieldInfo) : Val → Bool
  | .map kvs => named && (kvs.map fun kv => render kv.1) == ((liveFields fs).map fun f => render (strVal f.name))
  | .arr xs => !named && xs.length == (liveFields fs).length
  | _ => false

/-- top-level shape of the wire value of a type of the table, following serde's derive rules as
`rmp-serde` maps them: struct → map/array of the live fields; newtype struct → transparent
(not checkable at this level); tuple struct → array; unit struct → empty array; enum → variant name
string (unit variant) or a one-entry map `{variant: payload}`; a skipped variant never appears. -/
def shapeMatches (named : Bool) (t : TypeInfo) (v : Val) : Bool :=
  match t.kind with
  | "struct" => bodyMatches named t.fields v
  | "newtype" => true
  | "tuple" => match v with
    | .arr xs => xs.length == (liveFields t.fields).length
    | _ => false
  | "unit" => match v with
    | .arr [] => true
    | _ => false
  | "enum" => match v with
    | .str s => t.variants.any fun w => !w.skip && w.kind == "unit" && render (strVal w.name) == render (.str s)
    | .map [(.str s, payload)] =>
      t.variants.any fun w => !w.skip && render (strVal w.name) == render (.str s) &&
        (match w.kind with
         | "newtype" => true
         | "tuple" => (match payload with
            | .arr xs => xs.length == (liveFields w.fields).length
            | _ => false)
         | "struct" => bodyMatches named w.fields payload
         | _ => false)
    | _ => false
  | _ => false

end LinfaSpec.Wire
