/-
Line protocol helpers shared by all driver modules (core Lean only).

A request line is `Cxx op key=value key=value ...`; values never contain blanks.
Lists are comma separated, lists of lists use `;` between the inner lists,
a third level uses `|`.  Floats travel as 16-hex-digit IEEE-754 bit patterns
(`f64`) so nothing is lost in transit.
-/
namespace LinfaSpec.Proto

def hexDigit (c : Char) : Option Nat :=
  if '0' ≤ c ∧ c ≤ '9' then some (c.toNat - '0'.toNat)
  else if 'a' ≤ c ∧ c ≤ 'f' then some (c.toNat - 'a'.toNat + 10)
  else if 'A' ≤ c ∧ c ≤ 'F' then some (c.toNat - 'A'.toNat + 10)
  else none

def parseHex (s : String) : Option Nat :=
  if s.isEmpty then none else
  s.toList.foldl (fun acc c => match acc, hexDigit c with
    | some a, some d => some (a * 16 + d)
    | _, _ => none) (some 0)

def hexChar (n : Nat) : Char :=
  if n < 10 then Char.ofNat ('0'.toNat + n) else Char.ofNat ('a'.toNat + (n - 10))

def toHexFixed (width : Nat) (n : Nat) : String :=
  let rec go : Nat → Nat → List Char → List Char
    | 0, _, acc => acc
    | w+1, m, acc => go w (m / 16) (hexChar (m % 16) :: acc)
  String.ofList (go width n [])

/-- f64 from its 16-hex-digit bit pattern. -/
def parseF64 (s : String) : Option Float :=
  (parseHex s).map fun n => Float.ofBits (UInt64.ofNat n)

def showF64 (x : Float) : String := toHexFixed 16 x.toBits.toNat

/-- canonical NaN so that payload differences never show up in a diff -/
def showF64c (x : Float) : String := if x.isNaN then "nan" else showF64 x

def parseF32 (s : String) : Option Float32 :=
  (parseHex s).map fun n => Float32.ofBits (UInt32.ofNat n)

def showF32 (x : Float32) : String := toHexFixed 8 x.toBits.toNat

def splitOn' (s : String) (sep : String) : List String :=
  if s.isEmpty then [] else s.splitOn sep

def parseList {α} (f : String → Option α) (s : String) : Option (List α) :=
  (splitOn' s ",").mapM f

def parseList2 {α} (f : String → Option α) (s : String) : Option (List (List α)) :=
  (splitOn' s ";").mapM (fun r => parseList f (if r == "-" then "" else r))

def parseList3 {α} (f : String → Option α) (s : String) : Option (List (List (List α))) :=
  (splitOn' s "|").mapM (fun r => parseList2 f (if r == "_" then "" else r))

def parseNat (s : String) : Option Nat := s.toNat?
def parseInt (s : String) : Option Int := s.toInt?

def showList {α} (f : α → String) (xs : List α) : String := ",".intercalate (xs.map f)
/-- empty inner lists are written `-` so that `[[]]` and `[]` stay distinct -/
def showList2 {α} (f : α → String) (xs : List (List α)) : String :=
  ";".intercalate (xs.map fun r => if r.isEmpty then "-" else showList f r)
def showList3 {α} (f : α → String) (xs : List (List (List α))) : String :=
  "|".intercalate (xs.map fun r => if r.isEmpty then "_" else showList2 f r)

/-- `key=value` lookup among the tokens of a request. -/
def arg (toks : List String) (key : String) : Option String :=
  toks.findSome? fun t =>
    if t.startsWith (key ++ "=") then some ((t.drop (key.length + 1)).toString) else none

def argNat (toks : List String) (key : String) : Option Nat := (arg toks key).bind parseNat
def argInt (toks : List String) (key : String) : Option Int := (arg toks key).bind parseInt
def argNats (toks : List String) (key : String) : Option (List Nat) := (arg toks key).bind (parseList parseNat)
def argInts (toks : List String) (key : String) : Option (List Int) := (arg toks key).bind (parseList parseInt)
def argNats2 (toks : List String) (key : String) : Option (List (List Nat)) := (arg toks key).bind (parseList2 parseNat)
def argInts2 (toks : List String) (key : String) : Option (List (List Int)) := (arg toks key).bind (parseList2 parseInt)
def argF64 (toks : List String) (key : String) : Option Float := (arg toks key).bind parseF64
def argF64s (toks : List String) (key : String) : Option (List Float) := (arg toks key).bind (parseList parseF64)
def argF64s2 (toks : List String) (key : String) : Option (List (List Float)) := (arg toks key).bind (parseList2 parseF64)

def hexEncode (s : String) : String :=
  String.join (s.toUTF8.toList.map fun b => toHexFixed 2 b.toNat)

def hexDecode (s : String) : Option String :=
  let cs := s.toList
  let rec go : List Char → List UInt8 → Option (List UInt8)
    | [], acc => some acc.reverse
    | [_], _ => none
    | a :: b :: rest, acc => match hexDigit a, hexDigit b with
      | some x, some y => go rest (UInt8.ofNat (x * 16 + y) :: acc)
      | _, _ => none
  (go cs []).bind fun bytes => String.fromUTF8? (ByteArray.mk bytes.toArray)

end LinfaSpec.Proto
