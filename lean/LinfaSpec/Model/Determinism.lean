/-
C20 — model of the places where linfa's results could depend on something other than
(data, parameters, seed): the parallel loops, the generator held by a parameter set, and the
folds over hash maps.  Core Lean only (linked into the native driver).

Conventions
* a rayon `par_for_each` over zipped rows is a list of tasks executed in an order chosen by the
  pool: the *schedule* `sched : List Nat` (task numbers, any order, repetitions allowed);
* a `HashMap<K,V>` is an association list `List (K × V)`; its iteration order is the list order,
  which the caller does not control: theorems quantify over all permutations of it.
-/
namespace LinfaSpec.Determinism

/-! ## 1. Disjoint-write parallel loops (k-means assignment / distance updates) -/

/-- `Zip::from(observations.rows()).and(out).par_for_each(|row, cell| *cell = f(row))`.
Task `i` reads immutable inputs only and overwrites cell `i` of the output.  Tasks run in the
order the schedule lists them. -/
def parFor {β : Type} (f : Nat → β) (sched : List Nat) (init : List β) : List β :=
  sched.foldl (fun cells i => cells.set i (f i)) init

/-- A finer-grained schedule: a task first *computes* its value into a private slot and later
*writes* it to its cell; the pool may interleave these events of different tasks arbitrarily. -/
inductive Event where
  | compute (i : Nat)
  | write (i : Nat)
deriving Repr, DecidableEq

/-- state of the event machine: private slots of the tasks, output cells -/
structure EvState (β : Type) where
  slots : List (Option β)
  cells : List β

def evStep {β : Type} (f : Nat → β) (s : EvState β) : Event → EvState β
  | .compute i => { s with slots := s.slots.set i (some (f i)) }
  | .write i =>
    match s.slots[i]? with
    | some (some v) => { s with cells := s.cells.set i v }
    | _ => s   -- a write before its compute cannot happen (program order inside a task)

def parForEvents {β : Type} (f : Nat → β) (evs : List Event) (init : List β) : List β :=
  (evs.foldl (evStep f) { slots := List.replicate init.length none, cells := init }).cells

section KMeans
variable {α : Type} [Add α] [Sub α] [Mul α] [LT α] [DecidableLT α] [OfNat α 0]

/-- `L2Dist::rdistance`: squared Euclidean distance, accumulated left to right -/
def sqDist (a b : List α) : α :=
  (List.zipWith (fun x y => (x - y) * (x - y)) a b).foldl (· + ·) 0

/-- absolute difference written with `<` and `-` only (`(a - b).abs()`) -/
def absDiff (x y : α) : α := if x < y then y - x else x - y

/-- `L1Dist::rdistance`: sum of absolute differences, accumulated left to right -/
def l1Dist (a b : List α) : α :=
  (List.zipWith absDiff a b).foldl (· + ·) 0

/-- the loop of `closest_centroid`: start from centroid 0, replace on a strictly smaller distance.
`dist` is `dist_fn.rdistance` (the metric of the parameter set: `sqDist` for `L2Dist`, `l1Dist` for
`L1Dist`). -/
def closestGo (dist : List α → List α → α) (x : List α) : List (List α) → Nat → Nat × α → Nat × α
  | [], _, best => best
  | c :: cs, idx, best =>
    let d := dist c x
    closestGo dist x cs (idx + 1) (if d < best.2 then (idx, d) else best)

/-- `closest_centroid(dist_fn, centroids, observation)`; `none` = the panic of `centroids.row(0)`
on an empty centroid matrix -/
def closestCentroid (dist : List α → List α → α) (cents : List (List α)) (x : List α) : Option (Nat × α) :=
  match cents with
  | [] => none
  | c0 :: _ => some (closestGo dist x cents 0 (0, dist c0 x))

/-- value task `i` computes; the sentinel is never used when `cents ≠ []` and `i < obs.length` -/
def closestOf (dist : List α → List α → α) (cents : List (List α)) (obs : List (List α)) (i : Nat) : Nat × α :=
  match closestCentroid dist cents (obs.getD i []) with
  | some r => r
  | none => (0, 0)

/-- `update_cluster_memberships` under a schedule -/
def updateMemberships (dist : List α → List α → α) (cents obs : List (List α)) (sched : List Nat)
    (init : List Nat) : List Nat :=
  parFor (fun i => (closestOf dist cents obs i).1) sched init

/-- `update_min_dists` under a schedule -/
def updateMinDists (dist : List α → List α → α) (cents obs : List (List α)) (sched : List Nat)
    (init : List α) : List α :=
  parFor (fun i => (closestOf dist cents obs i).2) sched init

/-- `update_memberships_and_dists` under a schedule: two zipped output arrays = cells of pairs -/
def updateBoth (dist : List α → List α → α) (cents obs : List (List α)) (sched : List Nat)
    (init : List (Nat × α)) : List (Nat × α) :=
  parFor (fun i => closestOf dist cents obs i) sched init

/-- the same loop with every task split into its compute / write events (see `parForEvents`) -/
def updateBothEvents (dist : List α → List α → α) (cents obs : List (List α)) (evs : List Event)
    (init : List (Nat × α)) : List (Nat × α) :=
  parForEvents (fun i => closestOf dist cents obs i) evs init

/-- `dists.sum()` after the parallel loop has been joined: a sequential left-to-right reduction -/
def sumAfterJoin (dists : List α) : α := dists.foldl (· + ·) 0

/-- `counts[c] += 1` over the memberships (`compute_centroids_incremental` on a fresh model whose
`cluster_count` is zero): how many rows each of the `k` clusters received -/
def clusterCount (k : Nat) (ms : List Nat) : List Nat :=
  (List.range k).map fun c => (ms.filter (· == c)).length

/-- the part of `KMeansValidParams::fit_with(None, ds)` (precomputed centroids) that passes through
the thread pool: `update_memberships_and_dists` under a schedule, then — after the join —
`model.inertia = dists.sum() / n` (the numerator is returned) and the cluster counts.  The same two
lines end every restart of `fit` (`let inertia = dists.sum()`). -/
def fitWithStep (dist : List α → List α → α) (cents obs : List (List α)) (sched : List Nat)
    (init : List (Nat × α)) : List Nat × α :=
  let r := updateBoth dist cents obs sched init
  (clusterCount cents.length (r.map (·.1)), sumAfterJoin (r.map (·.2)))

end KMeans

/-! ## 2. The generator of a parameter set is cloned per fit -/

/-- `fit(&self, ds)`: `let mut rng = self.rng().clone();` — every draw advances the local copy.
`run g d` is the training procedure started with generator state `g`; it returns the model and
the advanced state.  The parameter set keeps its generator: the second component is the state
the *next* fit will start from. -/
def fitCloned {ρ δ μ : Type} (run : ρ → δ → μ × ρ) (g : ρ) (d : δ) : μ × ρ :=
  ((run g d).1, g)

/-- the alternative the code does *not* use: one generator shared by successive fits -/
def fitShared {ρ δ μ : Type} (run : ρ → δ → μ × ρ) (g : ρ) (d : δ) : μ × ρ :=
  run g d

/-- a session: successive fits with one parameter object -/
def fitSeq {ρ δ μ : Type} (fit : ρ → δ → μ × ρ) : ρ → List δ → List μ
  | _, [] => []
  | g, d :: ds => (fit g d).1 :: fitSeq fit (fit g d).2 ds

/-- a training procedure given by its table: `tbl[g][d]` is the model the procedure returns when
started in generator state `g` on data set `d` (0 when the table has no such entry); every run
advances the generator.  The harness fills the table from real fits with fresh parameter objects. -/
def tableRun (tbl : List (List Nat)) (g : Nat) (d : Nat) : Nat × Nat :=
  ((tbl.getD g []).getD d 0, g + 1)

/-- the session the harness plays with ONE parameter object: data sets `seq` fitted one after
another, every fit starting from a clone of the stored generator (state 0) -/
def fitSession (tbl : List (List Nat)) (seq : List Nat) : List Nat :=
  fitSeq (fitCloned (tableRun tbl)) 0 seq

/-! ## 3. Folds over hash maps -/

section Modal
variable {κ ν : Type} [LT κ] [DecidableLT κ] [LT ν] [DecidableLT ν]

/-- one step of the fold in `find_modal_class` (linfa-trees, after the fix):
keep the accumulator when `best_freq > freq || (best_freq == freq && best_idx < idx)`.
For frequencies that are not NaN, `best_freq == freq` under `¬ best_freq > freq` is `¬ best_freq < freq`. -/
def modalStep (acc : Option (κ × ν)) (e : κ × ν) : Option (κ × ν) :=
  match acc with
  | none => some e
  | some b => if e.2 < b.2 ∨ (¬ b.2 < e.2 ∧ b.1 < e.1) then some b else some e

/-- `find_modal_class(&class_freq)`; `none` = the `unwrap()` panic on an empty map -/
def findModalClass (m : List (κ × ν)) : Option κ :=
  (m.foldl modalStep none).map (·.1)

/-- the fold as it was before the fix (`if best_freq > freq { acc } else { Some((idx, freq)) }`):
the last maximal entry in iteration order wins -/
def modalStepOrig (acc : Option (κ × ν)) (e : κ × ν) : Option (κ × ν) :=
  match acc with
  | none => some e
  | some b => if e.2 < b.2 then some b else some e

def findModalClassOrig (m : List (κ × ν)) : Option κ :=
  (m.foldl modalStepOrig none).map (·.1)

end Modal

section Sorting
variable {κ : Type} [LT κ] [DecidableLT κ]

/-- `sort_unstable()` on labels / `sort_unstable_by(|a,b| a.0.cmp(b.0))` on map entries: the
comparison `a ≤ b` written with `<` only -/
def sortByKey {ν : Type} (m : List (κ × ν)) : List (κ × ν) :=
  m.mergeSort (fun a b => decide (¬ b.1 < a.1))

def sortLabels (l : List κ) : List κ :=
  l.mergeSort (fun a b => decide (¬ b < a))

end Sorting

section Labels
variable {κ : Type} [BEq κ] [LT κ] [DecidableLT κ]

/-- `Labels::labels()`: per target column the key set of the count map, all of them collected
into one `HashSet`, then into a `Vec` in the set's iteration order — modelled by the order of
first occurrence; callers that need an order sort afterwards. -/
def labelsOf (cols : List (List κ)) : List κ :=
  ((cols.map List.eraseDups).flatten).eraseDups

/-- `let mut u = targets.labels(); u.sort_unstable();` (naive Bayes, confusion matrix) -/
def sortedLabels (cols : List (List κ)) : List κ := sortLabels (labelsOf cols)

/-- `combined_labels(other)` followed by the callers' sort -/
def sortedCombinedLabels (a b : List (List κ)) : List κ := sortLabels (labelsOf (a ++ b))

/-- `ToConfusionMatrix::confusion_matrix`: `classes = combined_labels(ground_truth); classes.sort();`
and, for exactly two classes, `classes.reverse()` — the `members` of the matrix -/
def cmMembers (pred truth : List κ) : List κ :=
  let s := sortedCombinedLabels [pred] [truth]
  if s.length = 2 then s.reverse else s

end Labels

section NaiveBayes
variable {κ ν : Type} [LT κ] [DecidableLT κ] [LT ν] [DecidableLT ν] [OfNat ν 0]

/-- `ndarray_stats::argmax` on a lane: index of the first maximum -/
def argmaxGo : List ν → Nat → Nat × ν → Nat
  | [], _, best => best.1
  | x :: xs, idx, best => argmaxGo xs (idx + 1) (if best.2 < x then (idx, x) else best)

def argmaxFirst (xs : List ν) : Option Nat :=
  match xs with
  | [] => none
  | x :: _ => some (argmaxGo xs 0 (0, x))

/-- the arg-max part of `predict_inplace` on the class table in the order `s` -/
def nbPredictIn (s : List (κ × List ν)) (n : Nat) : Option (List κ) :=
  (List.range n).mapM fun i =>
    match argmaxFirst (s.map fun e => e.2.getD i 0) with
    | none => none
    | some c => (s[c]?).map (·.1)

/-- `NaiveBayes::predict_inplace` (after the fix): the entries of the joint-log-likelihood map
are sorted by class, row `c` of the likelihood matrix is class `c`, each sample gets the class
at the arg-max of its column.  `none` = the `unwrap()` panic on an empty class table. -/
def nbPredict (jll : List (κ × List ν)) (n : Nat) : Option (List κ) :=
  nbPredictIn (sortByKey jll) n

end NaiveBayes

section Hierarchical

/-- sort key of a cluster: `ids.iter().min()` as an `Option<usize>` (`None < Some _`) coded in `Nat` -/
def minKey (ids : List Nat) : Nat :=
  match ids.min? with
  | none => 0
  | some m => m + 1

/-- `clusters.remove(&id)` on the association list -/
def removeKey (id : Nat) : List (Nat × List Nat) → Option (List Nat × List (Nat × List Nat))
  | [] => none
  | e :: es =>
    if e.1 = id then some (e.2, es)
    else match removeKey id es with
      | none => none
      | some (v, rest) => some (v, e :: rest)

/-- the stopping criterion of `transform` -/
inductive Stop (α : Type) where
  | numClusters (max : Nat)
  | distance (dis : α)

/-- `should_stop` of one iteration: `clusters.len() <= max_clusters` resp. `step.dissimilarity >= dis` -/
def shouldStop {α : Type} [LE α] [DecidableLE α] (stop : Stop α) (len : Nat) (d : α) : Bool :=
  match stop with
  | .numClusters max => decide (len ≤ max)
  | .distance dis => decide (dis ≤ d)

/-- the merge loop over `res.steps()`; `none` = an `unwrap()` panic (a step naming a dead cluster) -/
def mergeLoop {α : Type} [LE α] [DecidableLE α] (stop : Stop α) :
    List (Nat × Nat × α) → List (Nat × List Nat) → Nat → Option (List (Nat × List Nat))
  | [], clusters, _ => some clusters
  | (c1, c2, d) :: steps, clusters, ct =>
    if shouldStop stop clusters.length d then some clusters
    else match removeKey c1 clusters with
      | none => none
      | some (a, cl1) =>
        match removeKey c2 cl1 with
        | none => none
        | some (b, cl2) => mergeLoop stop steps (cl2 ++ [(ct, a ++ b)]) (ct + 1)

/-- `tmp[id] = i` for every member `id` of the `i`-th cluster of the list -/
def labelsIn (n : Nat) (clusters : List (Nat × List Nat)) : List Nat :=
  (clusters.zipIdx).foldl (fun tmp e => e.1.2.foldl (fun t id => t.set id e.2) tmp) (List.replicate n 0)

/-- `clusters.sort_unstable_by_key(|(_, ids)| ids.iter().min().copied())` -/
def sortClusters (clusters : List (Nat × List Nat)) : List (Nat × List Nat) :=
  clusters.mergeSort (fun a b => decide (minKey a.2 ≤ minKey b.2))

/-- the labelling (after the fix): clusters sorted by smallest member, numbered in that order -/
def hierLabels (n : Nat) (clusters : List (Nat × List Nat)) : List Nat :=
  labelsIn n (sortClusters clusters)

/-- the labelling as it was before the fix: ids follow the map's iteration order -/
def hierLabelsOrig (n : Nat) (clusters : List (Nat × List Nat)) : List Nat :=
  labelsIn n clusters

/-- `transform`: `n` singleton clusters `0..n-1`, merge loop, labelling -/
def hierTransform {α : Type} [LE α] [DecidableLE α] (n : Nat) (stop : Stop α)
    (steps : List (Nat × Nat × α)) : Option (List Nat) :=
  (mergeLoop stop steps ((List.range n).map fun i => (i, [i])) n).map (hierLabels n)

end Hierarchical

/-! ## 4. Text vocabularies: `CountVectorizer::fit` (learned word set under `max_features`) -/

section Vocabulary
variable {κ : Type} [DecidableEq κ] [LT κ] [DecidableLT κ]

/-- `NGramList::ngram_items(index)`: the n-grams of lengths `lo..=hi` that start at `index`
(`max == 1` short-cut included); `none` = the iterator stops (`index + min > len`). A word is its
token list; `"a b"` is `[a, b]`. -/
def ngramItems (toks : List Nat) (lo hi i : Nat) : Option (List (List Nat)) :=
  if hi = 1 then some [(toks.drop i).take 1]
  else if toks.length < i + lo then none
  else some ((List.range (min (i + hi) toks.length - (i + lo) + 1)).map fun t => (toks.drop i).take (lo + t))

/-- `NGramList::new(words, range).into_iter().flatten()`: all n-grams of a document in the order
they are produced; iteration stops at the first start index without a full minimal n-gram -/
def ngramsGo (toks : List Nat) (lo hi : Nat) : Nat → Nat → List (List Nat)
  | 0, _ => []
  | fuel + 1, i =>
    if toks.length ≤ i then [] else
    match ngramItems toks lo hi i with
    | none => []
    | some items => items ++ ngramsGo toks lo hi fuel (i + 1)

def ngrams (toks : List Nat) (lo hi : Nat) : List (List Nat) := ngramsGo toks lo hi toks.length 0

/-- one word of the loop in `read_document_into_vocabulary`: a known word gets its document
frequency bumped, a new one is inserted with index `vocabulary.len()` and frequency 1.
Entries are `(word, (insertion index, document frequency))`. -/
def vocabStep (v : List (κ × Nat × Nat)) (w : κ) : List (κ × Nat × Nat) :=
  if v.any (fun e => e.1 = w) then v.map (fun e => if e.1 = w then (e.1, e.2.1, e.2.2 + 1) else e)
  else v ++ [(w, v.length, 1)]

/-- `read_document_into_vocabulary`: `docSet` is the per-document `HashSet<String>` in the order
its iterator yields it (arbitrary: the theorems quantify over every permutation) -/
def readDocument (v : List (κ × Nat × Nat)) (docSet : List κ) : List (κ × Nat × Nat) :=
  docSet.foldl vocabStep v

/-- the loop over the documents in `fit` -/
def buildVocabulary (docSets : List (List κ)) : List (κ × Nat × Nat) :=
  docSets.foldl readDocument []

/-- first half of `filter_vocabulary`: document-frequency window (absolute bounds) and stop words.
(The code skips the window test when it is `0..=n_documents`; every frequency lies in it then.) -/
def dfFilter (minAbs maxAbs : Nat) (stop : List κ) (v : List (κ × Nat × Nat)) : List (κ × Nat × Nat) :=
  v.filter fun e => decide (minAbs ≤ e.2.2) && decide (e.2.2 ≤ maxAbs) && !(stop.contains e.1)

/-- the order of the tuples `(Reverse(freq), Reverse(word), x)` that `itertools::sorted` sorts:
higher document frequency first, ties by larger word first, then by insertion index -/
def capLe (a b : κ × Nat × Nat) : Bool :=
  decide (b.2.2 < a.2.2) ||
    (decide (a.2.2 = b.2.2) && (decide (b.1 < a.1) || (!decide (a.1 < b.1) && decide (a.2.1 ≤ b.2.1))))

/-- second half of `filter_vocabulary`: `sorted(..).take(max_features)` when a cap is set -/
def capVocabulary (cap : Option Nat) (v : List (κ × Nat × Nat)) : List (κ × Nat × Nat) :=
  match cap with
  | none => v
  | some k => (v.mergeSort capLe).take k

/-- a cap whose tie-break is the insertion index (`(Reverse(freq), x, word)`): NOT what the code
does; kept as the contrast for `cap_by_insertion_index_order_dependent` -/
def capLeByIndex (a b : κ × Nat × Nat) : Bool :=
  decide (b.2.2 < a.2.2) ||
    (decide (a.2.2 = b.2.2) && (decide (a.2.1 < b.2.1) || (decide (a.2.1 = b.2.1) && !decide (b.1 < a.1))))

def capVocabularyByIndex (cap : Option Nat) (v : List (κ × Nat × Nat)) : List (κ × Nat × Nat) :=
  match cap with
  | none => v
  | some k => (v.mergeSort capLeByIndex).take k

/-- what is observable of an entry: the word and its document frequency (the column index is
re-assigned in hash order by `hashmap_to_vocabulary`; vocabularies are compared as maps) -/
def wordDf (e : κ × Nat × Nat) : κ × Nat := (e.1, e.2.2)

/-- `CountVectorizerValidParams::fit`: the learned vocabulary as (word, document frequency) -/
def fitVocabulary (docSets : List (List κ)) (minAbs maxAbs : Nat) (stop : List κ) (cap : Option Nat) :
    List (κ × Nat) :=
  (capVocabulary cap (dfFilter minAbs maxAbs stop (buildVocabulary docSets))).map wordDf

end Vocabulary

end LinfaSpec.Determinism
