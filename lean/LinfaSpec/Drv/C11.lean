import LinfaSpec.Model.Proto
import LinfaSpec.Model.Scalar
import LinfaSpec.Model.LeastSquares

/-!
Driver of C11.  Every handler is written once over a `Codec` (how scalars travel on the line) and
run on `Float` (`ty` absent or `f64`, 16 hex digits) or `Float32` (`ty=f32`, 8 hex digits): the very
same model functions, only the instance differs.

Layout of the record matrix (`lay=`): `c` standard (a column view is contiguous iff `p = 1`),
`f` Fortran order / transposed view (every column is contiguous), `s` a view that skips rows (no
column is contiguous).  Tolerance-compared tokens (`~`) are always written as f64.
-/
namespace LinfaSpec.Drv.C11
open LinfaSpec LinfaSpec.Proto LinfaSpec.LeastSquares

local instance : Transc Float32 := ⟨Float32.sqrt, Float32.exp, Float32.log⟩

structure Codec (α : Type) where
  parse : String → Option α
  /-- exact token; NaN canonical -/
  shw : α → String
  wide : α → Float
  ofNat : Nat → α
  /-- `F::EPSILON`, the default tolerance of `abs_diff_eq!` -/
  eps : α
  /-- `F::cast(1e-4)`, the default tolerance -/
  tol0 : α
  /-- is the multi-task gap value compared?  (not in f32: the gap is a difference of large terms, its
  relative error in single precision is unbounded; `W`, `b`, the sweep count and `predict` are compared) -/
  cmpGap : Bool
  /-- with `l1 = 0`: relative size of `‖XᵀR − l2·W‖` under which a returned point counts as stationary -/
  tieThr : Float

def c64 : Codec Float :=
  { parse := parseF64, shw := showF64c, wide := id, ofNat := Float.ofNat,
    eps := Float.ofBits 0x3CB0000000000000, tol0 := 1e-4, cmpGap := true, tieThr := 1e-9 }

def c32 : Codec Float32 :=
  { parse := parseF32, shw := fun x => if x != x then "nan" else showF32 x, wide := Float32.toFloat,
    ofNat := Float32.ofNat, eps := Float32.ofBits 0x34000000, tol0 := (1e-4 : Float).toFloat32,
    cmpGap := false, tieThr := 1e-4 }

section
variable {α : Type} [Add α] [Sub α] [Mul α] [Div α] [Neg α] [LT α] [DecidableLT α]
  [LE α] [DecidableLE α] [OfNat α 0] [OfNat α 1] [Transc α] [BEq α]

/-- `-0.0` and `+0.0` are written alike (the sign of a zero is not modelled) -/
def sh (cd : Codec α) (x : α) : String := cd.shw (x + 0)
def shT (cd : Codec α) (x : α) : String := "~" ++ showF64c (cd.wide x + 0.0)

def argS (cd : Codec α) (toks : List String) (key : String) : Option α := (arg toks key).bind cd.parse
def argSs (cd : Codec α) (toks : List String) (key : String) : Option (List α) :=
  (arg toks key).bind (parseList cd.parse)
def argSs2 (cd : Codec α) (toks : List String) (key : String) : Option (List (List α)) :=
  (arg toks key).bind (parseList2 cd.parse)

def colsOfRows (p : Nat) (rows : List (List α)) : List (List α) :=
  (List.range p).map fun j => rows.map fun row => row.getD j 0

/-- rows must be rectangular and non-empty, `p ≥ 1`; result `(n, p, columns, contig, rowContig)` -/
def parseX (cd : Codec α) (toks : List String) : Option (Nat × Nat × List (List α) × Bool × Bool) := do
  let rows ← argSs2 cd toks "X"
  let n := rows.length
  let p := (rows.headD []).length
  let lay := (arg toks "lay").getD "c"
  let contig ← match lay with
    | "c" => some (p == 1)
    | "f" => some true
    | "s" => some false
    | _ => none
  if n = 0 ∨ p = 0 ∨ rows.any (fun r => r.length != p) then none
  else some (n, p, colsOfRows p rows, contig, lay == "c")

def handleGap (cd : Codec α) (toks : List String) : Option String := do
  let (n, p, C, contig, _) ← parseX cd toks
  let y ← argSs cd toks "y"; let w ← argSs cd toks "w"; let r ← argSs cd toks "r"
  let l1r ← argS cd toks "l1r"; let pen ← argS cd toks "pen"
  if y.length != n ∨ r.length != n ∨ w.length != p then none else
  some ("ok " ++ sh cd (dualityGap contig C y w r l1r pen (cd.ofNat n)))

def handleCd (cd : Codec α) (toks : List String) : Option String := do
  let (n, _, C, contig, _) ← parseX cd toks
  let y ← argSs cd toks "y"
  let tol ← argS cd toks "tol"; let mx ← argNat toks "max"
  let l1r ← argS cd toks "l1r"; let pen ← argS cd toks "pen"
  if y.length != n then none else
  let (w, g, s) := coordinateDescent contig cd.eps C y (cd.ofNat n) tol mx l1r pen
  some s!"ok w={showList (sh cd) w} gap={sh cd g} steps={s}"

def handleFit (cd : Codec α) (toks : List String) : Option String := do
  let (n, _, C, contig, _) ← parseX cd toks
  let y ← argSs cd toks "y"
  let tol ← argS cd toks "tol"; let mx ← argNat toks "max"
  let l1r ← argS cd toks "l1r"; let pen ← argS cd toks "pen"
  let ic ← argNat toks "icpt"
  if y.length != n ∨ ic > 1 then none else
  let (b, w, g, s) := fitEnet contig cd.eps C y (cd.ofNat n) tol mx l1r pen (ic == 1)
  some s!"ok b={sh cd b} w={showList (sh cd) w} gap={sh cd g} steps={s}"

/-- an optional `key=value`: absent → `dflt`, present but ill-formed → the whole request is bad -/
def optArg {β : Type} (toks : List String) (key : String) (f : String → Option β) (dflt : β) : Option β :=
  match arg toks key with
  | none => some dflt
  | some v => f v

/-- the constructor (`ctor=params|ridge|lasso|default`) followed by the setters that are present in the line -/
def parseParams (cd : Codec α) (toks : List String) : Option (EnetParams α) := do
  let p0 ← match (arg toks "ctor").getD "params" with
    | "params" => some (EnetParams.new cd.tol0)
    | "ridge" => some (EnetParams.ridge cd.tol0)
    | "lasso" => some (EnetParams.lasso cd.tol0)
    | "default" => some (EnetParams.default cd.tol0)
    | _ => none
  let pen ← optArg toks "pen" cd.parse p0.penalty
  let l1r ← optArg toks "l1r" cd.parse p0.l1Ratio
  let tol ← optArg toks "tol" cd.parse p0.tolerance
  let mx ← optArg toks "max" parseNat p0.maxIterations
  let ic ← optArg toks "icpt" (fun s => if s == "1" then some true else if s == "0" then some false else none)
    p0.withIntercept
  some { penalty := pen, l1Ratio := l1r, withIntercept := ic, maxIterations := mx, tolerance := tol }

/-- `fitc`: constructor + optional setters + `fit` (+ `predict` on `P=` when present) -/
def handleFitC (cd : Codec α) (toks : List String) : Option String := do
  let (n, p, C, contig, _) ← parseX cd toks
  let y ← argSs cd toks "y"
  let prm ← parseParams cd toks
  let P ← optArg toks "P" (fun s => (parseList2 cd.parse s).map some) none
  if y.length != n then none else
  match P with
  | some rows => if rows.any (fun r => r.length != p) then none else pure ()
  | none => pure ()
  match fitParams contig cd.eps C y (cd.ofNat n) prm with
  | .error _ => some "err"
  | .ok (b, w, g, s) =>
    let pr := match P with
      | some rows => s!" pred={showList (sh cd) (predict true rows w b)}"
      | none => ""
    some s!"ok b={sh cd b} w={showList (sh cd) w} gap={sh cd g} steps={s}{pr}"

def handleObj (cd : Codec α) (toks : List String) : Option String := do
  let (n, p, C, _, _) ← parseX cd toks
  let y ← argSs cd toks "y"; let w ← argSs cd toks "w"; let b ← argS cd toks "b"
  let l1r ← argS cd toks "l1r"; let pen ← argS cd toks "pen"
  if y.length != n ∨ w.length != p then none else
  some s!"ok obj={sh cd (objective C y w b l1r pen (cd.ofNat n))} sse={sh cd (sse C y w b)}"

def handleBst (cd : Codec α) (toks : List String) : Option String := do
  let x ← argSs cd toks "x"; let thr ← argS cd toks "thr"
  some ("ok " ++ showList (sh cd) (blockSoft x thr))

def rect (rows : List (List α)) (n t : Nat) : Bool :=
  rows.length == n && rows.all (fun r => r.length == t)

def handleGapM (cd : Codec α) (toks : List String) : Option String := do
  let (n, p, C, _, _) ← parseX cd toks
  let t ← argNat toks "t"
  let Y ← argSs2 cd toks "Y"; let W ← argSs2 cd toks "W"; let R ← argSs2 cd toks "R"
  let l1r ← argS cd toks "l1r"; let pen ← argS cd toks "pen"
  if t = 0 ∨ !rect Y n t ∨ !rect R n t ∨ !rect W p t then none else
  some ("ok " ++ shT cd (dualityGapMtl t C Y W R l1r pen (cd.ofNat n)))

def handleBcd (cd : Codec α) (toks : List String) : Option String := do
  let (n, _, C, contig, _) ← parseX cd toks
  let t ← argNat toks "t"
  let Y ← argSs2 cd toks "Y"
  let tol ← argS cd toks "tol"; let mx ← argNat toks "max"
  let l1r ← argS cd toks "l1r"; let pen ← argS cd toks "pen"
  if t = 0 ∨ !rect Y n t then none else
  let (w, g, s) := blockCoordinateDescent contig t cd.eps C Y (cd.ofNat n) tol mx l1r pen
  -- l1 = 0: the gap is a float tie after a tolerance-compared descent (see harness), not printed
  let gs := if l1r * pen == 0 then "-" else shT cd g
  some s!"ok w={showList2 (shT cd) w} gap={gs} steps={s}"

/-! ### the sweep count of a tolerance-compared descent hangs on float comparisons

`bcdSafe` replays the model's `bcdLoop` (same sweep, same tests) and says whether every test that
decides the control flow — `w_max ≈ 0`, `d_w_max / w_max < tol`, `gap < tol·‖Y‖²` — was taken with a
relative margin of at least `1e-6`.  (With `l1 = 0` the gap itself jumps at `XᵀR − l2·W = 0` exactly; a
converged ridge fit sits at rounding distance from that point, so no margin can be asked there: those
lines rely on gemm producing the same bits on lattice-sized problems, as the exact ops do for `dot`.)
Only then are `steps` and the values compared (`margin=~1`); otherwise the line says `margin=~0` and
the comparison skips it (counted as `tie_skipped`). -/

def relDist (a b : Float) : Float := Float.abs (a - b) / (Float.abs a + Float.abs b + 1e-300)

def bcdSafe (cd : Codec α) (contig : Bool) (t : Nat) (thr denAdd : α) (C : List (List α)) (norms : List α)
    (Y : List (List α)) (n tol tolS l1r pen : α) (maxSteps : Nat) :
    Nat → Nat → List (List α) → List (List α) → Bool
  | 0, _, _, _ => true
  | fuel + 1, steps, w, r =>
    let st := bcdSweepGo contig t thr denAdd 0 C norms { w := w, r := r, wMax := 0, dwMax := 0 }
    let steps' := steps + 1
    let forced := steps' == maxSteps - 1
    let a := decide (absS st.wMax ≤ cd.eps)
    let b := decide (st.dwMax / st.wMax < tol)
    let safeA := relDist (cd.wide (absS st.wMax)) (cd.wide cd.eps) > 1e-6
    let safeB := a || relDist (cd.wide (st.dwMax / st.wMax)) (cd.wide tol) > 1e-6
    let safeAB := forced || (safeA && safeB)
    if forced || a || b then
      let g := dualityGapMtl t C Y st.w st.r l1r pen n
      let safeC := relDist (cd.wide g) (cd.wide tolS) > 1e-6
      if g < tolS then safeAB && safeC
      else safeAB && safeC &&
        bcdSafe cd contig t thr denAdd C norms Y n tol tolS l1r pen maxSteps fuel steps' st.w st.r
    else safeAB && bcdSafe cd contig t thr denAdd C norms Y n tol tolS l1r pen maxSteps fuel steps' st.w st.r

def bcdSafeTop (cd : Codec α) (contig : Bool) (t : Nat) (C : List (List α)) (Y : List (List α))
    (n tol : α) (maxSteps : Nat) (l1r pen : α) : Bool :=
  let norms := C.map fun c => dotC contig c c
  bcdSafe cd contig t (n * l1r * pen) (n * (1 - l1r) * pen) C norms Y n tol
    (tol * sumS (Y.flatten.map fun x => x * x)) l1r pen maxSteps maxSteps 0
    (List.replicate C.length (List.replicate t 0)) Y

/-- With `l1 = 0` the gap formula jumps at `XᵀR − l2·W = 0` exactly (scaling constant 1 instead of 0): a
ridge / unpenalised descent that has converged sits at rounding distance from that point, and whether it
hits it exactly (and then breaks) hangs on the last bits of gemm.  `tieLevel` is `‖XᵀR − l2·W‖ / (‖Y‖·max‖x_j‖)` (`Y` the centred target)
recomputed at the returned point; at or under `tieThr` (harness: same criterion from first principles) the
gap and the sweep count are not compared (`-`), `W`, `b`, `predict` still are; within a factor 100 of
the threshold the line is skipped. -/
def tieLevel (cd : Codec α) (t : Nat) (C Yc W : List (List α)) (l1r pen n : α) : Float :=
  let l2 := (1 - l1r) * pen * n
  let Rc := List.zipWith (fun yk wk => residual C yk wk 0) (colsOf t Yc) (colsOf t W)
  let R := colsOf Yc.length Rc
  let dn := cd.wide (dualNormMtl t C W R l2)
  let yn := cd.wide (sumS (Yc.flatten.map fun x => x * x))
  let xn := cd.wide (normMax (C.map fun c => dotS c c))
  dn / (Float.sqrt yn * Float.sqrt xn + 1e-300)

/-- `(gap token, steps token, safe)` -/
def gapSteps (cd : Codec α) (t : Nat) (C Yc W : List (List α)) (l1r pen n g : α) (s : Nat) (safe : Bool) :
    String × String × Bool :=
  if l1r * pen * n == 0 then
    let lv := tieLevel cd t C Yc W l1r pen n
    if lv ≤ cd.tieThr / 100 then ("-", "-", true)
    else if lv < cd.tieThr * 100 then ("-", "-", false)
    else (if cd.cmpGap then shT cd g else "-", toString s, safe)
  else (if cd.cmpGap then shT cd g else "-", toString s, safe)

def marginTok (safe : Bool) : String := if safe then "margin=~3ff0000000000000" else "margin=~0000000000000000"

/-- `bcdt`: `block_coordinate_descent` with its real stopping rule -/
def handleBcdT (cd : Codec α) (toks : List String) : Option String := do
  let (n, _, C, contig, _) ← parseX cd toks
  let t ← argNat toks "t"
  let Y ← argSs2 cd toks "Y"
  let tol ← argS cd toks "tol"; let mx ← argNat toks "max"
  let l1r ← argS cd toks "l1r"; let pen ← argS cd toks "pen"
  if t = 0 ∨ !rect Y n t then none else
  let (w, g, s) := blockCoordinateDescent contig t cd.eps C Y (cd.ofNat n) tol mx l1r pen
  let safe := bcdSafeTop cd contig t C Y (cd.ofNat n) tol mx l1r pen
  let (gs, ss, safe) := gapSteps cd t C Y w l1r pen (cd.ofNat n) g s safe
  some s!"ok w={showList2 (shT cd) w} gap={gs} steps={ss} {marginTok safe}"

/-- `fitm`: `MultiTaskElasticNet::{params,ridge,lasso}()` + optional setters + `fit` (+ `predict`) -/
def handleFitM (cd : Codec α) (toks : List String) : Option String := do
  let (n, p, C, contig, _) ← parseX cd toks
  let t ← argNat toks "t"
  let Y ← argSs2 cd toks "Y"
  let prm ← parseParams cd toks
  let P ← optArg toks "P" (fun s => (parseList2 cd.parse s).map some) none
  if t = 0 ∨ !rect Y n t then none else
  match P with
  | some rows => if rows.any (fun r => r.length != p) then none else pure ()
  | none => pure ()
  match fitParamsMtl contig t cd.eps C Y (cd.ofNat n) prm with
  | .error _ => some "err"
  | .ok (b, w, g, s) =>
    let Yc := (computeInterceptMtl prm.withIntercept t Y (cd.ofNat n)).2
    let safe := bcdSafeTop cd contig t C Yc (cd.ofNat n) prm.tolerance prm.maxIterations prm.l1Ratio prm.penalty
    let pr := match P with
      | some rows => s!" pred={showList2 (shT cd) (predictMtl t rows w b)}"
      | none => ""
    let (gs, ss, safe) := gapSteps cd t C Yc w prm.l1Ratio prm.penalty (cd.ofNat n) g s safe
    some s!"ok b={showList (sh cd) b} w={showList2 (shT cd) w} gap={gs} steps={ss}{pr} {marginTok safe}"

/-- `objm`: the documented multi-task objective (times `n`) -/
def handleObjM (cd : Codec α) (toks : List String) : Option String := do
  let (n, p, C, _, _) ← parseX cd toks
  let t ← argNat toks "t"
  let Y ← argSs2 cd toks "Y"; let W ← argSs2 cd toks "W"; let b ← argSs cd toks "b"
  let l1r ← argS cd toks "l1r"; let pen ← argS cd toks "pen"
  if t = 0 ∨ !rect Y n t ∨ !rect W p t ∨ b.length != t then none else
  some ("ok " ++ shT cd (objectiveMtl C (colsOf t Y) (colsOf t W) W b l1r pen (cd.ofNat n)))

def dispatch (cd : Codec α) (toks : List String) : Option String :=
  match toks with
  | "gap" :: rest => handleGap cd rest
  | "cd" :: rest => handleCd cd rest
  | "fit" :: rest => handleFit cd rest
  | "fitc" :: rest => handleFitC cd rest
  | "obj" :: rest => handleObj cd rest
  | "bst" :: rest => handleBst cd rest
  | "gapm" :: rest => handleGapM cd rest
  | "bcd" :: rest => handleBcd cd rest
  | "bcdt" :: rest => handleBcdT cd rest
  | "fitm" :: rest => handleFitM cd rest
  | "objm" :: rest => handleObjM cd rest
  -- the f32 forms of the tolerance-compared ops have their own comparison rule, hence their own name
  | "gapm32" :: rest => handleGapM cd rest
  | "bcdt32" :: rest => handleBcdT cd rest
  | "fitm32" :: rest => handleFitM cd rest
  | _ => none

end

def handle (toks : List String) : String :=
  let r := match (arg toks "ty").getD "f64" with
    | "f64" => dispatch c64 toks
    | "f32" => dispatch c32 toks
    | _ => none
  r.getD "bad-op"

end LinfaSpec.Drv.C11
