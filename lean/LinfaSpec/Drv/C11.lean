import LinfaSpec.Model.Proto

namespace LinfaSpec.Drv.C11
open LinfaSpec.Proto

/-- stub: replaced when the property's model lands -/
def handle (_toks : List String) : String := "bad-op"

end LinfaSpec.Drv.C11
