import LinfaSpec.Model.Proto
import LinfaSpec.Model.Scalar
import LinfaSpec.Model.LeastSquares

namespace LinfaSpec.Drv.C11
open LinfaSpec.Proto LinfaSpec.LeastSquares

/-- `f64::EPSILON`, the default tolerance of `abs_diff_eq!` -/
def eps64 : Float := Float.ofBits 0x3CB0000000000000

/-- `-0.0` and `+0.0` are written alike (the sign of a zero is not modelled) -/
def canon (x : Float) : Float := x + 0.0
def sh (x : Float) : String := showF64c (canon x)
def shT (x : Float) : String := "~" ++ showF64c (canon x)

def colsOfRows (p : Nat) (rows : List (List Float)) : List (List Float) :=
  (List.range p).map fun j => rows.map fun row => row.getD j 0

/-- rows must be rectangular and non-empty, `p ≥ 1` -/
def parseX (toks : List String) : Option (Nat × Nat × List (List Float)) := do
  let rows ← argF64s2 toks "X"
  let n := rows.length
  let p := (rows.headD []).length
  if n = 0 ∨ p = 0 ∨ rows.any (fun r => r.length != p) then none
  else some (n, p, colsOfRows p rows)

def handleGap (toks : List String) : Option String := do
  let (n, p, C) ← parseX toks
  let y ← argF64s toks "y"; let w ← argF64s toks "w"; let r ← argF64s toks "r"
  let l1r ← argF64 toks "l1r"; let pen ← argF64 toks "pen"
  if y.length != n ∨ r.length != n ∨ w.length != p then none else
  some ("ok " ++ sh (dualityGap (p == 1) C y w r l1r pen (Float.ofNat n)))

def handleCd (toks : List String) : Option String := do
  let (n, p, C) ← parseX toks
  let y ← argF64s toks "y"
  let tol ← argF64 toks "tol"; let mx ← argNat toks "max"
  let l1r ← argF64 toks "l1r"; let pen ← argF64 toks "pen"
  if y.length != n then none else
  let (w, g, s) := coordinateDescent (p == 1) eps64 C y (Float.ofNat n) tol mx l1r pen
  some s!"ok w={showList sh w} gap={sh g} steps={s}"

def handleFit (toks : List String) : Option String := do
  let (n, p, C) ← parseX toks
  let y ← argF64s toks "y"
  let tol ← argF64 toks "tol"; let mx ← argNat toks "max"
  let l1r ← argF64 toks "l1r"; let pen ← argF64 toks "pen"
  let ic ← argNat toks "icpt"
  if y.length != n ∨ ic > 1 then none else
  let (b, w, g, s) := fitEnet (p == 1) eps64 C y (Float.ofNat n) tol mx l1r pen (ic == 1)
  some s!"ok b={sh b} w={showList sh w} gap={sh g} steps={s}"

def handleObj (toks : List String) : Option String := do
  let (n, p, C) ← parseX toks
  let y ← argF64s toks "y"; let w ← argF64s toks "w"; let b ← argF64 toks "b"
  let l1r ← argF64 toks "l1r"; let pen ← argF64 toks "pen"
  if y.length != n ∨ w.length != p then none else
  some s!"ok obj={sh (objective C y w b l1r pen (Float.ofNat n))} sse={sh (sse C y w b)}"

def handleBst (toks : List String) : Option String := do
  let x ← argF64s toks "x"; let thr ← argF64 toks "thr"
  some ("ok " ++ showList sh (blockSoft x thr))

def rect (rows : List (List Float)) (n t : Nat) : Bool :=
  rows.length == n && rows.all (fun r => r.length == t)

def handleGapM (toks : List String) : Option String := do
  let (n, p, C) ← parseX toks
  let t ← argNat toks "t"
  let Y ← argF64s2 toks "Y"; let W ← argF64s2 toks "W"; let R ← argF64s2 toks "R"
  let l1r ← argF64 toks "l1r"; let pen ← argF64 toks "pen"
  if t = 0 ∨ !rect Y n t ∨ !rect R n t ∨ !rect W p t then none else
  some ("ok " ++ shT (dualityGapMtl t C Y W R l1r pen (Float.ofNat n)))

def handleBcd (toks : List String) : Option String := do
  let (n, p, C) ← parseX toks
  let t ← argNat toks "t"
  let Y ← argF64s2 toks "Y"
  let tol ← argF64 toks "tol"; let mx ← argNat toks "max"
  let l1r ← argF64 toks "l1r"; let pen ← argF64 toks "pen"
  if t = 0 ∨ !rect Y n t then none else
  let (w, g, s) := blockCoordinateDescent (p == 1) t eps64 C Y (Float.ofNat n) tol mx l1r pen
  -- l1 = 0: the gap is a float tie after a tolerance-compared descent (see harness), not printed
  let gs := if l1r * pen == 0.0 then "-" else shT g
  some s!"ok w={showList2 shT w} gap={gs} steps={s}"

def handle (toks : List String) : String :=
  let r := match toks with
    | "gap" :: rest => handleGap rest
    | "cd" :: rest => handleCd rest
    | "fit" :: rest => handleFit rest
    | "obj" :: rest => handleObj rest
    | "bst" :: rest => handleBst rest
    | "gapm" :: rest => handleGapM rest
    | "bcd" :: rest => handleBcd rest
    | _ => none
  r.getD "bad-op"

end LinfaSpec.Drv.C11
