import LinfaSpec.Drv.C01
import LinfaSpec.Drv.C02
import LinfaSpec.Drv.C03
import LinfaSpec.Drv.C05
import LinfaSpec.Drv.C06
import LinfaSpec.Drv.C07
import LinfaSpec.Drv.C08
import LinfaSpec.Drv.C09
import LinfaSpec.Drv.C10
import LinfaSpec.Drv.C11
import LinfaSpec.Drv.C12
import LinfaSpec.Drv.C13
import LinfaSpec.Drv.C14
import LinfaSpec.Drv.C15
import LinfaSpec.Drv.C16
import LinfaSpec.Drv.C17
import LinfaSpec.Drv.C18
import LinfaSpec.Drv.C20

namespace LinfaSpec.Drv

/-- first token selects the property's handler; every line is self-contained -/
def dispatch : List String → String
  | "C01" :: rest => C01.handle rest
  | "C02" :: rest => C02.handle rest
  | "C03" :: rest => C03.handle rest
  | "C05" :: rest => C05.handle rest
  | "C06" :: rest => C06.handle rest
  | "C07" :: rest => C07.handle rest
  | "C08" :: rest => C08.handle rest
  | "C09" :: rest => C09.handle rest
  | "C10" :: rest => C10.handle rest
  | "C11" :: rest => C11.handle rest
  | "C12" :: rest => C12.handle rest
  | "C13" :: rest => C13.handle rest
  | "C14" :: rest => C14.handle rest
  | "C15" :: rest => C15.handle rest
  | "C16" :: rest => C16.handle rest
  | "C17" :: rest => C17.handle rest
  | "C18" :: rest => C18.handle rest
  | "C20" :: rest => C20.handle rest
  | _ => "bad-op"

end LinfaSpec.Drv
