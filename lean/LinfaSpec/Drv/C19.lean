import LinfaSpec.Model.Proto
import LinfaSpec.Model.Wire
import LinfaSpec.Model.Serde
import LinfaSpec.Gen.C19Types

/-!
Driver for C19.

`wire type=<crate::Type | -> named=<0|1> bytes=<hex>`: the bytes are what the real `rmp-serde`
wrote for a linfa value.  The model decodes them (`Wire.decodeAll`), re-encodes the decoded value
(`Wire.encode`, must reproduce the bytes: `reenc=1`), checks the top-level shape against the type
table generated from the Rust sources (`shape=1`), and prints the value in canonical text, which
the harness produces independently from the value's `Serialize` implementation.

`schema type=<crate::Type>`: the generated table entry (live and skipped members).

`varidx type=<crate::Enum> variant=<hex name>`: the variant index an index-based format (bincode)
carries for that variant (`Serde.serIndex`: declaration index, skipped variants included) and the
variant that index selects when read back (`Serde.deVariant`: consecutive numbering of the non-skipped
variants), both computed from the generated table; the harness reports the index `bincode` really
wrote and the variant it really restored (a skipped variant: `ser=-`, it cannot be written).

`destruct …`: see `handleDestruct`.
-/
namespace LinfaSpec.Drv.C19
open LinfaSpec.Proto LinfaSpec.Wire

def parseBytes (s : String) : Option Bytes :=
  let rec go : List Char → List UInt8 → Option (List UInt8)
    | [], acc => some acc.reverse
    | [_], _ => none
    | a :: b :: rest, acc => match hexDigit a, hexDigit b with
      | some x, some y => go rest (UInt8.ofNat (x * 16 + y) :: acc)
      | _, _ => none
  if s == "-" then some [] else go s.toList []

def findType (id : String) : Option TypeInfo :=
  LinfaSpec.Gen.C19Types.types.find? fun t => t.id == id

def handleWire (toks : List String) : Option String := do
  let ty ← arg toks "type"
  let named ← argNat toks "named"
  let bs ← (arg toks "bytes").bind parseBytes
  match decodeAll bs with
  | none => some "undecodable"
  | some v =>
    let reenc := if encode v == bs then 1 else 0
    let shape ← if ty == "-" then some "1" else
      match findType ty with
      | none => some "unknown-type"
      | some t => some (if shapeMatches (named == 1) t v then "1" else "0")
    some s!"ok reenc={reenc} wf={if v.wf then 1 else 0} shape={shape} nf={floatLeaves v} val={render v}"

def showFields (fs : List FieldInfo) : String :=
  let s := showList (fun (f : FieldInfo) => f.name ++ (if f.skip then "!" else "")) fs
  if s.isEmpty then "-" else s

def handleSchema (toks : List String) : Option String := do
  let ty ← arg toks "type"
  match findType ty with
  | none => some "unknown-type"
  | some t =>
    let vs := showList (fun (w : VariantInfo) => w.name ++ "/" ++ w.kind ++ (if w.skip then "!" else "")) t.variants
    some s!"ok kind={t.kind} fields={showFields t.fields} variants={if vs.isEmpty then "-" else vs}"

def handleVarIdx (toks : List String) : Option String := do
  let ty ← arg toks "type"
  let name ← (arg toks "variant").bind hexDecode
  match findType ty with
  | none => some "unknown-type"
  | some t =>
    if t.kind != "enum" then some "not-an-enum" else
    match LinfaSpec.Serde.serIndex name t.variants with
    | none => some "ok ser=- back=-"
    | some k =>
      let back := match LinfaSpec.Serde.deVariant t.variants k with
        | some n => hexEncode n
        | none => "-"
      some s!"ok ser={k} back={back}"

/-- marker standing for the default of a skipped field (its value is not on the wire) -/
def skipMark : Val := .str [0x21]

def showFieldVals : List FieldInfo → List Val → List String
  | f :: fs, v :: vs => (f.name ++ "=" ++ (if f.skip then "!" else render v)) :: showFieldVals fs vs
  | _, _ => []

/-- `destruct type=<crate::Struct> named=<0|1> bytes=<hex>`: the bytes (written by the real `rmp-serde`, possibly
with entries reordered / duplicated / added / dropped by the harness) are decoded and handed to the glue model's
`Serde.deStruct` on the generated table entry — the function `struct_compact_roundtrip`, `struct_named_roundtrip`,
`named_layout_order_irrelevant`, `unknown_key_ignored`, `duplicate_key_rejected`, `missing_required_field_fails`
are about.  The answer lists the field values it yields (the harness lists what the real derive(Deserialize)
yielded), and whether `Serde.structVal` on those values encodes to the very bytes received (`back=1`). -/
def handleDestruct (toks : List String) : Option String := do
  let ty ← arg toks "type"
  let named ← argNat toks "named"
  let bs ← (arg toks "bytes").bind parseBytes
  match findType ty with
  | none => some "unknown-type"
  | some t =>
    if t.kind != "struct" then some "not-a-struct" else
    match (decodeAll bs).bind (LinfaSpec.Serde.deStruct (fun _ => skipMark) t.fields) with
    | none => some "err"
    | some vs =>
      let back := if encode (LinfaSpec.Serde.structVal (named == 1) t.fields vs) == bs then 1 else 0
      let fields := String.intercalate ";" (showFieldVals t.fields vs)
      some s!"ok back={back} fields={if fields.isEmpty then "-" else fields}"

def handle (toks : List String) : String :=
  let r := match toks with
    | "wire" :: rest => handleWire rest
    | "schema" :: rest => handleSchema rest
    | "varidx" :: rest => handleVarIdx rest
    | "destruct" :: rest => handleDestruct rest
    | _ => none
  r.getD "bad-op"

end LinfaSpec.Drv.C19
