import LinfaSpec.Model.Proto
import LinfaSpec.Model.Scalar
import LinfaSpec.Model.Metrics

namespace LinfaSpec.Drv.C05
open LinfaSpec.Proto LinfaSpec.Metrics LinfaSpec

def sh32 (x : Float32) : String := if x.isNaN then "nan" else showF32 x
def sh64 (x : Float) : String := if x.isNaN then "nan" else showF64 x
/-- tolerant token: the value widened to f64, marked `~` -/
def tl32 (x : Float32) : String := "~" ++ sh64 x.toFloat
def tl64 (x : Float) : String := "~" ++ sh64 x

def showCells (m : List (List Nat)) : String := showList2 toString m

/-- everything the harness reads off a `ConfusionMatrix` -/
def cmLine {L} (showL : L → String) (beta : Float32) (r : Option (List L × List (List Nat))) : String :=
  match r with
  | none => "err MismatchedShapes"
  | some (cs, m) =>
    let ova := splitOneVsAll m
    let ovo := splitOneVsOne m
    let half : Float32 := 0.5
    let two : Float32 := 2
    s!"ok members={showList showL cs} cells={showCells m} acc={sh32 (accuracy m)} " ++
    s!"prec={sh32 (precision m)} rec={sh32 (recall m)} f1={sh32 (fScore 1 m)} fh={sh32 (fScore half m)} f2={sh32 (fScore two m)} " ++
    s!"mcc={sh32 (mcc m)} ova={showList3 toString ova} ovo={showList3 toString ovo} " ++
    s!"ovap={showList (fun s => sh32 (precision s)) ova} ovar={showList (fun s => sh32 (recall s)) ova} " ++
    s!"ovaf={showList (fun s => sh32 (fScore 1 s)) ova} fb={sh32 (fScore beta m)} " ++
    s!"ovop={showList (fun s => sh32 (precision s)) ovo} ovor={showList (fun s => sh32 (recall s)) ovo}"

def handleCm (toks : List String) : Option String := do
  let ty ← arg toks "ty"
  let beta ← (arg toks "beta").bind parseF32
  if ty == "n" then
    let p ← argNats toks "p"; let t ← argNats toks "t"
    some (cmLine toString beta (confusion p t))
  else if ty == "s" then
    let p ← (arg toks "p").bind (parseList hexDecode)
    let t ← (arg toks "t").bind (parseList hexDecode)
    some (cmLine hexEncode beta (confusion p t))
  else none

/-- `CountedTargets` receiver (bare or inside a dataset, `form=k`) whose cached label set is `lp` -/
def handleCmStale (toks : List String) : Option String := do
  let _ ← argNat toks "form"
  let lp ← argNats toks "lp"; let p ← argNats toks "p"; let t ← argNats toks "t"
  some (cmLine toString 1 (confusionWith lp p t))

/-- the group test of the repaired `roc` is `*s != s0`: `isFresh 0` (theorem
`roc_group_test_is_inequality`; on finite floats `0 < |s - s0|` iff `s != s0`, subtraction of distinct
floats never rounds to zero) -/
def eps32 : Float32 := 0
def f32Epsilon : Float32 := Float32.ofBits 0x34000000

def parseBools (toks : List String) (key : String) : Option (List Bool) := do
  let ns ← argNats toks key
  ns.mapM fun n => if n = 0 then some false else if n = 1 then some true else none

/-- `strict`: the op `roc` is only issued with equally long vectors; the calling-form op `rocf` also
sends unequal lengths, on which the code's `zip` silently truncates (as `List.zip` does) -/
def handleRoc (strict : Bool) (toks : List String) : Option String := do
  let s ← (arg toks "s").bind (parseList parseF32)
  let y ← parseBools toks "y"
  if strict && s.length ≠ y.length then none
  let samples := s.zip y
  let (curve, thr) := roc eps32 none samples
  some s!"ok curve={showList2 sh32 (curve.map fun p => [p.1, p.2])} thr={showList sh32 thr} auc={sh32 (trapezoid curve)}"

/-- unequal lengths: `assert_eq!(self.len(), y.len())` panics, before the emptiness test -/
def handleLogLoss (toks : List String) : Option String := do
  let s ← (arg toks "s").bind (parseList parseF32)
  let y ← parseBools toks "y"
  if s.length ≠ y.length then some "panic" else
  match logLoss f32Epsilon s y with
  | none => some "err NotEnoughSamples"
  | some v => some s!"ok {tl32 v}"

section Reg
variable {α : Type} [Add α] [Sub α] [Mul α] [Div α] [Neg α] [LT α] [DecidableLT α]
  [OfNat α 0] [OfNat α 1] [OfNat α 2] [NatCast α] [Transc α]

/-- the eight regression scores of one column, in a fixed order -/
def regScores (tiny : α) (a b : List α) : List (String × Option α) :=
  [("max", maxError a b), ("mae", meanAbsError a b), ("mse", meanSqError a b),
   ("med", medianAbsError a b), ("mape", mape a b), ("r2", r2 tiny a b),
   ("ev", explainedVariance tiny a b), ("msle", meanSqLogError a b)]
end Reg

def showOpt {α} (f : α → String) : Option α → String
  | none => "none"
  | some x => f x

/-- `exact`: plain bit patterns, except `mape` and `msle` (inexact terms — quotients, libm `ln` —
summed by ndarray's unrolled `sum`) as `~` tokens; otherwise all `~` tokens -/
def regLine {α} (exact : Bool) (ex tl : α → String) (cols : List (List (String × Option α))) : String :=
  let names := ["max", "mae", "mse", "med", "mape", "r2", "ev", "msle"]
  "ok " ++ " ".intercalate (names.map fun nm =>
    nm ++ "=" ++ showList (fun c => showOpt (if exact && nm != "mape" && nm != "msle" then ex else tl) ((c.lookup nm).getD none)) cols)

def transpose {β} (rows : List (List β)) (p : Nat) : List (List β) :=
  (List.range p).map fun j => rows.filterMap fun r => r[j]?

def handleReg (exact : Bool) (toks : List String) : Option String := do
  let w ← argNat toks "w"
  let p ← argNat toks "p"
  let a ← argF64s2 toks "a"; let b ← argF64s2 toks "b"
  -- rows × p matrices; p = 1 is the single-target call
  let ca := transpose a p; let cb := transpose b p
  if w = 64 then
    some (regLine exact sh64 tl64 ((ca.zip cb).map fun (x, y) => regScores (1e-10 : Float) x y))
  else if w = 32 then
    let f := fun (l : List Float) => l.map Float.toFloat32
    some (regLine exact sh32 tl32 ((ca.zip cb).map fun (x, y) => regScores (1e-10 : Float32) (f x) (f y)))
  else none

/-- `w = 32`: the records are `f32` (the request carries values that are exact in f32) -/
def handleSil (w : Nat) (toks : List String) : Option String := do
  let x ← argF64s2 toks "x"; let l ← argNats toks "l"
  if x.length ≠ l.length then none
  if w = 32 then
    let x := x.map fun r => r.map Float.toFloat32
    some s!"ok {tl32 (silhouettePts x l)}"
  else
    some s!"ok {tl64 (silhouettePts x l)}"

/-- stale label counts: the `CountedTargets` were counted on `cl`, the targets are `l` -/
def handleSilStale (toks : List String) : Option String := do
  let x ← argF64s2 toks "x"; let l ← argNats toks "l"; let cl ← argNats toks "cl"
  if x.length ≠ l.length then none
  match silhouetteC (labelCache cl) (distMatrix x) l with
  | none => some "panic"
  | some v => some s!"ok {tl64 v}"

def handlePearson (w : Nat) (toks : List String) : Option String := do
  let x ← argF64s2 toks "x"; let p ← argNat toks "p"
  if w = 32 then
    some s!"ok {showList tl32 (pearson (x.map fun r => r.map Float.toFloat32) p)}"
  else
    some s!"ok {showList tl64 (pearson x p)}"

/-- calling-form ops carry `form=k`; every form has the model of the plain op -/
def withForm (rest : List String) (f : List String → Option String) : Option String :=
  (argNat rest "form").bind fun _ => f rest

def handle (toks : List String) : String :=
  let r := match toks with
    | "cm" :: rest => handleCm rest
    | "cmf" :: rest => withForm rest handleCm
    | "cms" :: rest => handleCmStale rest
    | "roc" :: rest => handleRoc true rest
    | "rocf" :: rest => withForm rest (handleRoc false)
    | "logloss" :: rest => handleLogLoss rest
    | "loglossf" :: rest => withForm rest handleLogLoss
    | "reg" :: rest => handleReg true rest
    | "regt" :: rest => handleReg false rest
    | "regf" :: rest => withForm rest (handleReg true)
    | "regtf" :: rest => withForm rest (handleReg false)
    | "sil" :: rest => handleSil 64 rest
    | "sil32" :: rest => handleSil 32 rest
    | "silf" :: rest => withForm rest (handleSil 64)
    | "sils" :: rest => handleSilStale rest
    | "pearson" :: rest => handlePearson 64 rest
    | "pearson32" :: rest => handlePearson 32 rest
    | "pearsonf" :: rest => withForm rest (handlePearson 64)
    | _ => none
  r.getD "bad-op"

end LinfaSpec.Drv.C05
