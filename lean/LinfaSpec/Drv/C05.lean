import LinfaSpec.Model.Proto
import LinfaSpec.Model.Scalar
import LinfaSpec.Model.Metrics

namespace LinfaSpec.Drv.C05
open LinfaSpec.Proto LinfaSpec.Metrics LinfaSpec

def sh32 (x : Float32) : String := if x.isNaN then "nan" else showF32 x
def sh64 (x : Float) : String := if x.isNaN then "nan" else showF64 x
/-- tolerant token: the value widened to f64, marked `~` -/
def tl32 (x : Float32) : String := "~" ++ sh64 x.toFloat
def tl64 (x : Float) : String := "~" ++ sh64 x

def showCells (m : List (List Nat)) : String := showList2 toString m

/-- everything the harness reads off a `ConfusionMatrix` -/
def cmLine {L} (showL : L → String) (r : Option (List L × List (List Nat))) : String :=
  match r with
  | none => "err MismatchedShapes"
  | some (cs, m) =>
    let ova := splitOneVsAll m
    let ovo := splitOneVsOne m
    let half : Float32 := 0.5
    let two : Float32 := 2
    s!"ok members={showList showL cs} cells={showCells m} acc={sh32 (accuracy m)} " ++
    s!"prec={sh32 (precision m)} rec={sh32 (recall m)} f1={sh32 (fScore 1 m)} fh={sh32 (fScore half m)} f2={sh32 (fScore two m)} " ++
    s!"mcc={sh32 (mcc m)} ova={showList3 toString ova} ovo={showList3 toString ovo} " ++
    s!"ovap={showList (fun s => sh32 (precision s)) ova} ovar={showList (fun s => sh32 (recall s)) ova} " ++
    s!"ovaf={showList (fun s => sh32 (fScore 1 s)) ova}"

def handleCm (toks : List String) : Option String := do
  let ty ← arg toks "ty"
  if ty == "n" then
    let p ← argNats toks "p"; let t ← argNats toks "t"
    some (cmLine toString (confusion p t))
  else if ty == "s" then
    let p ← (arg toks "p").bind (parseList hexDecode)
    let t ← (arg toks "t").bind (parseList hexDecode)
    some (cmLine hexEncode (confusion p t))
  else none

def eps32 : Float32 := 1e-10
def f32Epsilon : Float32 := Float32.ofBits 0x34000000

def parseBools (toks : List String) (key : String) : Option (List Bool) := do
  let ns ← argNats toks key
  ns.mapM fun n => if n = 0 then some false else if n = 1 then some true else none

def handleRoc (toks : List String) : Option String := do
  let s ← (arg toks "s").bind (parseList parseF32)
  let y ← parseBools toks "y"
  if s.length ≠ y.length then none
  let samples := s.zip y
  let (curve, thr) := roc eps32 none samples
  some s!"ok curve={showList2 sh32 (curve.map fun p => [p.1, p.2])} thr={showList sh32 thr} auc={sh32 (trapezoid curve)}"

def handleLogLoss (toks : List String) : Option String := do
  let s ← (arg toks "s").bind (parseList parseF32)
  let y ← parseBools toks "y"
  if s.length ≠ y.length then none
  match logLoss f32Epsilon s y with
  | none => some "err NotEnoughSamples"
  | some v => some s!"ok {tl32 v}"

section Reg
variable {α : Type} [Add α] [Sub α] [Mul α] [Div α] [Neg α] [LT α] [DecidableLT α]
  [OfNat α 0] [OfNat α 1] [OfNat α 2] [NatCast α] [Transc α]

/-- the eight regression scores of one column, in a fixed order -/
def regScores (tiny : α) (a b : List α) : List (String × Option α) :=
  [("max", maxError a b), ("mae", meanAbsError a b), ("mse", meanSqError a b),
   ("med", medianAbsError a b), ("mape", mape a b), ("r2", r2 tiny a b),
   ("ev", explainedVariance tiny a b), ("msle", meanSqLogError a b)]
end Reg

def showOpt {α} (f : α → String) : Option α → String
  | none => "none"
  | some x => f x

/-- `exact`: plain bit patterns, `msle` (libm) left out, `mape` (inexact terms summed by ndarray's
unrolled `sum`) as a `~` token; otherwise all `~` tokens -/
def regLine {α} (exact : Bool) (ex tl : α → String) (cols : List (List (String × Option α))) : String :=
  let names := ["max", "mae", "mse", "med", "mape", "r2", "ev", "msle"]
  let names := if exact then names.filter (· != "msle") else names
  "ok " ++ " ".intercalate (names.map fun nm =>
    nm ++ "=" ++ showList (fun c => showOpt (if exact && nm != "mape" then ex else tl) ((c.lookup nm).getD none)) cols)

def transpose {β} (rows : List (List β)) (p : Nat) : List (List β) :=
  (List.range p).map fun j => rows.filterMap fun r => r[j]?

def handleReg (exact : Bool) (toks : List String) : Option String := do
  let w ← argNat toks "w"
  let p ← argNat toks "p"
  let a ← argF64s2 toks "a"; let b ← argF64s2 toks "b"
  -- rows × p matrices; p = 1 is the single-target call
  let ca := transpose a p; let cb := transpose b p
  if w = 64 then
    some (regLine exact sh64 tl64 ((ca.zip cb).map fun (x, y) => regScores (1e-10 : Float) x y))
  else if w = 32 then
    let f := fun (l : List Float) => l.map Float.toFloat32
    some (regLine exact sh32 tl32 ((ca.zip cb).map fun (x, y) => regScores (1e-10 : Float32) (f x) (f y)))
  else none

def sqDist (x y : List Float) : Float := sumS (List.zipWith (fun a b => (a - b) * (a - b)) x y)

def handleSil (toks : List String) : Option String := do
  let x ← argF64s2 toks "x"; let l ← argNats toks "l"
  if x.length ≠ l.length then none
  let d := x.map fun xi => x.map fun xj => Float.sqrt (sqDist xi xj)
  some s!"ok {tl64 (silhouette d l)}"

def handlePearson (toks : List String) : Option String := do
  let x ← argF64s2 toks "x"; let p ← argNat toks "p"
  some s!"ok {showList tl64 (pearson x p)}"

def handle (toks : List String) : String :=
  let r := match toks with
    | "cm" :: rest => handleCm rest
    | "cmf" :: rest => (argNat rest "form").bind fun _ => handleCm rest
    | "roc" :: rest => handleRoc rest
    | "logloss" :: rest => handleLogLoss rest
    | "reg" :: rest => handleReg true rest
    | "regt" :: rest => handleReg false rest
    | "sil" :: rest => handleSil rest
    | "pearson" :: rest => handlePearson rest
    | _ => none
  r.getD "bad-op"

end LinfaSpec.Drv.C05
