import LinfaSpec.Model.Proto
import LinfaSpec.Model.Scalar
import LinfaSpec.Model.Kernel
import LinfaSpec.Model.Hier

namespace LinfaSpec.Drv.C06
open LinfaSpec.Proto LinfaSpec.Kernel LinfaSpec.Hier

/-- `m=l` | `m=g:<eps>` | `m=p:<c>:<d>` (floats as hex bits) -/
def parseMethod (s : String) : Option (Method Float) :=
  match s.splitOn ":" with
  | ["l"] => some .linear
  | ["g", e] => (parseF64 e).map .gaussian
  | ["p", c, d] => match parseF64 c, parseF64 d with
    | some c, some d => some (.poly c d)
    | _, _ => none
  | _ => none

def isLinear : Method Float → Bool
  | .linear => true
  | _ => false

/-- values that went through libm are written `~…` (compared in ulps), the others exactly -/
def fl (exact : Bool) (x : Float) : String := (if exact then "" else "~") ++ showF64c x

def showCols (ex : Bool) (cols : List (Option (List Float))) : String :=
  ";".intercalate (cols.map fun c => match c with
    | some c => if c.isEmpty then "-" else showList (fl ex) c
    | none => "panic")

def handleDense (toks : List String) : Option String := do
  let m ← (arg toks "m").bind parseMethod
  let X ← argF64s2 toks "X"
  let ci ← argNats toks "ci"
  let ex := isLinear m
  let K := dense m X
  some (s!"ok size={dSize K} K={showList2 (fl ex) K} sum={showList (fl ex) (dSum K)} " ++
    s!"diag={showList (fl ex) (dDiag K)} ut={showList (fl ex) (dUpper K)} " ++
    s!"col={showCols ex (ci.map (dColumn K))}")

def handleDDot (toks : List String) : Option String := do
  let m ← (arg toks "m").bind parseMethod
  let X ← argF64s2 toks "X"
  let q ← argNat toks "q"
  let R ← argF64s2 toks "R"
  if R.length ≠ X.length ∨ R.any (·.length ≠ q) then none
  else some ("ok " ++ showList2 (fl false) (dDot (dense m X) q R))

def indptrOf (S : Csr Float) : List Nat :=
  (S.foldl (fun (acc : List Nat × Nat) row => (acc.1 ++ [acc.2 + row.length], acc.2 + row.length)) ([0], 0)).1

def handleSparse (toks : List String) : Option String := do
  let m ← (arg toks "m").bind parseMethod
  let X ← argF64s2 toks "X"
  let k ← argNat toks "k"
  let nb ← argNats2 toks "nb"
  let ci ← argNats toks "ci"
  let ex := isLinear m
  match sparseFromFn m X k nb with
  | none => some "panic"
  | some S =>
    let n := X.length
    some (s!"ok size={n} indptr={showList toString (indptrOf S)} " ++
      s!"indices={showList toString (S.flatten.map (·.1))} data={showList (fl ex) (S.flatten.map (·.2))} " ++
      s!"sum={showList (fl ex) (sSum n S)} diag={showList (fl ex) (sDiag n S)} ut={showList (fl ex) (sUpper n S)} " ++
      s!"col={showCols ex (ci.map fun i => some (sColumn n S i))}")

def handleSDot (toks : List String) : Option String := do
  let m ← (arg toks "m").bind parseMethod
  let X ← argF64s2 toks "X"
  let k ← argNat toks "k"
  let nb ← argNats2 toks "nb"
  let q ← argNat toks "q"
  let R ← argF64s2 toks "R"
  if R.length ≠ X.length ∨ R.any (·.length ≠ q) then none
  else match sparseFromFn m X k nb with
    | none => some "panic"
    | some S => some ("ok " ++ showList2 (fl false) (sDot S q R))

/-- `F::cast(1e-6)` for `f64` -/
def thr : Float := Float.ofBits 0x3eb0c6f7a0b5ed8d

def parseCrit (s : String) : Option (Crit Float) :=
  match s.splitOn ":" with
  | ["n", c] => c.toNat?.map .num
  | ["d", d] => (parseF64 d).map .dist
  | _ => none

def mkSteps : List (List Nat) → List Float → Option (List (Step Float))
  | [], [] => some []
  | [a, b, sz] :: r, d :: ds => (mkSteps r ds).map fun t => { c1 := a, c2 := b, dis := d, size := sz } :: t
  | _, _ => none

/-- `hier n= steps=c1,c2,size;… dis=<hex,…> crit=n:<c>|d:<hex> ut=<upper triangle of the kernel>` -/
def handleHier (toks : List String) : Option String := do
  let n ← argNat toks "n"
  let st ← argNats2 toks "steps"
  let dis ← argF64s toks "dis"
  let crit ← (arg toks "crit").bind parseCrit
  let ut ← argF64s toks "ut"
  let steps ← mkSteps st dis
  match replay crit n steps with
  | none => some "panic"
  | some cl =>
    some (s!"ok nc={cl.length} part={showList toString (canon (assign n cl))} " ++
      s!"dist={showList (fl false) (ut.map (toDist thr))}")

def handle (toks : List String) : String :=
  let r := match toks with
    | "dense" :: rest => handleDense rest
    | "ddot" :: rest => handleDDot rest
    | "sparse" :: rest => handleSparse rest
    | "sdot" :: rest => handleSDot rest
    | "hier" :: rest => handleHier rest
    | _ => none
  r.getD "bad-op"

end LinfaSpec.Drv.C06
