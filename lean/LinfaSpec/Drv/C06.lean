import LinfaSpec.Model.Proto
import LinfaSpec.Model.Scalar
import LinfaSpec.Model.Kernel
import LinfaSpec.Model.Hier

namespace LinfaSpec.Drv.C06
open LinfaSpec.Proto LinfaSpec.Kernel LinfaSpec.Hier

instance : LinfaSpec.Transc Float32 := ⟨Float32.sqrt, Float32.exp, Float32.log⟩
instance : KPow Float32 := ⟨Float32.pow⟩

/-- how the scalars of one float type travel through the line protocol, and the constants of the code that
depend on the type (`F::cast(1e-6)`, the predicates of the parameter guard) -/
structure Codec (α : Type) where
  parse : String → Option α
  /-- bit pattern (canonical `nan`) -/
  showEx : α → String
  toF64 : α → Float
  isZero : α → Bool
  /-- `F::cast(1e-6)` -/
  thr : α
  fp : FloatPreds α
  /-- two dissimilarities that differ at most by the last places of libm's `ln` -/
  close : α → α → Bool

def c64 : Codec Float where
  parse := parseF64
  showEx := showF64c
  toF64 := id
  isZero := fun x => x == 0
  thr := Float.ofBits 0x3eb0c6f7a0b5ed8d
  fp := ⟨fun x => x.toBits >>> 63 == 1, Float.isNaN, Float.isInf⟩
  close := fun a b => a == b || Float.abs (a - b) ≤ 1e-12 * (Float.abs a + Float.abs b)

def c32 : Codec Float32 where
  parse := parseF32
  showEx := fun x => if x.isNaN then "nan" else showF32 x
  toF64 := Float32.toFloat
  isZero := fun x => x == 0
  thr := (Float.ofBits 0x3eb0c6f7a0b5ed8d).toFloat32
  fp := ⟨fun x => x.toBits >>> 31 == 1, Float32.isNaN, Float32.isInf⟩
  close := fun a b => a == b || Float32.abs (a - b) ≤ 1e-5 * (Float32.abs a + Float32.abs b)

section
variable {α : Type} [Add α] [Sub α] [Mul α] [Div α] [Neg α] [OfNat α 0] [LT α] [DecidableLT α]
  [LE α] [DecidableLE α] [LinfaSpec.Transc α] [KPow α]

/-- `m=l` | `m=g:<eps>` | `m=p:<c>:<d>` (floats as hex bits) -/
def parseMethod (c : Codec α) (s : String) : Option (Method α) :=
  match s.splitOn ":" with
  | ["l"] => some .linear
  | ["g", e] => (c.parse e).map .gaussian
  | ["p", a, d] => match c.parse a, c.parse d with
    | some a, some d => some (.poly a d)
    | _, _ => none
  | _ => none

/-- values that went through libm are written `~…` (widened to f64, compared with tolerance), the others exactly -/
def fl (c : Codec α) (exact : Bool) (x : α) : String :=
  if exact then c.showEx x else "~" ++ showF64c (c.toF64 x)

/-- a column entry: the two zeros are the same number -/
def flz (c : Codec α) (exact : Bool) (x : α) : String := fl c exact (if c.isZero x then 0 else x)

/-- `oobFree`: a column request beyond the matrix on a sparse kernel is not compared -/
def showCols (c : Codec α) (ex : Bool) (n : Nat) (oobFree : Bool) (ci : List Nat) (cols : List (Option (List α))) : String :=
  ";".intercalate ((ci.zip cols).map fun (i, col) =>
    if oobFree && decide (n ≤ i) then "oob" else
    match col with
    | some col => if col.isEmpty then "-" else showList (flz c ex) col
    | none => "panic")

def forms : List String := ["view", "ref_array", "ref_view", "new", "dataset", "ref_dataset", "ref_dataset_view"]
def lays : List String := ["c", "f", "strided", "reversed", "rowrev", "colrev", "inverted"]

/-- the calling form and the memory layout do not enter `Kernel::new` (see `Model/Kernel.lean`); an unknown
name is an ill-formed request -/
def callOk (toks : List String) : Option Unit := do
  let f ← arg toks "form"
  let l ← arg toks "lay"
  if forms.contains f && lays.contains l then some () else none

def argS (c : Codec α) (toks : List String) (key : String) : Option (List α) := (arg toks key).bind (parseList c.parse)
def argS2 (c : Codec α) (toks : List String) (key : String) : Option (List (List α)) :=
  (arg toks key).bind (parseList2 c.parse)

def indptrOf (S : Csr α) : List Nat :=
  (S.foldl (fun (acc : List Nat × Nat) row => (acc.1 ++ [acc.2 + row.length], acc.2 + row.length)) ([0], 0)).1

/-- the `method` field of the kernel, parameters as bit patterns -/
def showMethod (c : Codec α) : Method α → String
  | .linear => "l"
  | .gaussian e => s!"g:{c.showEx e}"
  | .poly a d => s!"p:{c.showEx a}:{c.showEx d}"

/-- the accessor part of a response, common to dense and sparse kernels -/
def showViews (c : Codec α) (ex : Bool) (K : Built α) (mid : String) (ci : List Nat) (oobFree : Bool) : String :=
  let I := K.inner
  let n := kSize I
  s!"ok size={n} ns={n} nf={n} lin={K.isLinear} meth={showMethod c K.method} {mid}sum={showList (fl c ex) (kSum I)} " ++
  s!"diag={showList (fl c ex) (kDiag I)} ut={showList (fl c ex) (kUpper I)} " ++
  s!"col={showCols c ex n oobFree ci (ci.map (kColumn I))}"

def handleDense (c : Codec α) (toks : List String) : Option String := do
  let m ← (arg toks "m").bind (parseMethod c)
  let X ← argS2 c toks "X"
  let ci ← argNats toks "ci"
  callOk toks
  let ex := m.isLinear
  match kernelBuild .dense m X [] with
  | some ⟨.dense K, mm⟩ => some (showViews c ex ⟨.dense K, mm⟩ s!"K={showList2 (fl c ex) K} " ci false)
  | _ => none

def rhsOk (toks : List String) (n q : Nat) (R : List (List α)) : Option Unit := do
  let l ← arg toks "rlay"
  if lays.contains l && R.length == n && R.all (·.length == q) then some () else none

def handleDDot (c : Codec α) (toks : List String) : Option String := do
  let m ← (arg toks "m").bind (parseMethod c)
  let X ← argS2 c toks "X"
  let q ← argNat toks "q"
  let R ← argS2 c toks "R"
  callOk toks
  rhsOk toks X.length q R
  let K ← kernelBuild .dense m X []
  some ("ok " ++ showList2 (fl c false) (kDot K.inner q R))

def idxNames : List String := ["linear", "kdtree", "balltree", "default", "KdTree", "BallTree", "LinearSearch"]

/-- the neighbour index enters only through the lists it returned (`nb`) -/
def idxOk (toks : List String) : Option Unit := do
  let i ← arg toks "idx"
  if idxNames.contains i then some () else none

def handleSparse (c : Codec α) (toks : List String) : Option String := do
  let m ← (arg toks "m").bind (parseMethod c)
  let X ← argS2 c toks "X"
  let k ← argNat toks "k"
  let nb ← argNats2 toks "nb"
  let ci ← argNats toks "ci"
  callOk toks
  idxOk toks
  let ex := m.isLinear
  match kernelBuild (.sparse k) m X nb with
  | none => some "panic"
  | some ⟨.sparse n S, mm⟩ =>
    some (showViews c ex ⟨.sparse n S, mm⟩
      (s!"indptr={showList toString (indptrOf S)} indices={showList toString (S.flatten.map (·.1))} " ++
       s!"data={showList (fl c ex) (S.flatten.map (·.2))} ") ci true)
  | some ⟨.dense _, _⟩ => none

def handleSDot (c : Codec α) (toks : List String) : Option String := do
  let m ← (arg toks "m").bind (parseMethod c)
  let X ← argS2 c toks "X"
  let k ← argNat toks "k"
  let nb ← argNats2 toks "nb"
  let q ← argNat toks "q"
  let R ← argS2 c toks "R"
  callOk toks
  idxOk toks
  rhsOk toks X.length q R
  match kernelBuild (.sparse k) m X nb with
  | none => some "panic"
  | some K => some ("ok " ++ showList2 (fl c false) (kDot K.inner q R))

def parseCrit (c : Codec α) (s : String) : Option (Crit α) :=
  match s.splitOn ":" with
  | ["n", n] => n.toNat?.map .num
  | ["d", d] => (c.parse d).map .dist
  | _ => none

def mkSteps : List (List Nat) → List α → Option (List (Step α))
  | [], [] => some []
  | [a, b, sz] :: r, d :: ds => (mkSteps r ds).map fun t => { c1 := a, c2 := b, dis := d, size := sz } :: t
  | _, _ => none

def hforms : List String := ["kernel", "dataset", "checked", "checked_ref_dataset"]

/-- thresholds the guard of the code rejects although they are numbers the statement's quantifier covers
(`-0.0` is the threshold 0, `+∞` merges everything): the property permits both the rejection and the
clustering, so the response is the same word on both sides — but only if the model of the guard rejects them -/
def lenientCrit (c : Codec α) : Crit α → Bool
  | .dist d => (c.isZero d && c.fp.isNeg d) || (c.fp.isInf d && !c.fp.isNeg d)
  | .num _ => false

/-- `hier n= steps=c1,c2,size;… dis=<hex,…> crit=n:<c>|d:<hex> ut=<upper triangle of the kernel>
dist=<the vector `kodama::linkage` was asked about> form=`: answered through `transformKernel` with the
recorded linkage -/
def handleHier (c : Codec α) (toks : List String) : Option String := do
  let n ← argNat toks "n"
  let st ← argNats2 toks "steps"
  let dis ← argS c toks "dis"
  let crit ← (arg toks "crit").bind (parseCrit c)
  let ut ← argS c toks "ut"
  let q ← argS c toks "dist"
  let steps ← mkSteps st dis
  let f ← arg toks "form"
  if !hforms.contains f then none
  else match transformKernel c.fp c.thr (recorded c.close q steps) crit n ut with
  | .invalid => some (if lenientCrit c crit then "lenient" else "err InvalidStoppingCondition")
  | .panic => some "panic"
  | .ok cl =>
    some (s!"ok nc={cl.length} part={showList toString (canon (assign n cl))} " ++
      s!"dist={showList (fl c false) (distances c.thr ut)}")

end

def handle (toks : List String) : String :=
  let r := match toks with
    | "dense" :: rest => handleDense c64 rest
    | "ddot" :: rest => handleDDot c64 rest
    | "sparse" :: rest => handleSparse c64 rest
    | "sdot" :: rest => handleSDot c64 rest
    | "hier" :: rest => handleHier c64 rest
    | "dense32" :: rest => handleDense c32 rest
    | "ddot32" :: rest => handleDDot c32 rest
    | "sparse32" :: rest => handleSparse c32 rest
    | "sdot32" :: rest => handleSDot c32 rest
    | "hier32" :: rest => handleHier c32 rest
    | _ => none
  r.getD "bad-op"

end LinfaSpec.Drv.C06
