import LinfaSpec.Model.Proto
import LinfaSpec.Model.Scalar
import LinfaSpec.Model.Pca

namespace LinfaSpec.Drv.C18
open LinfaSpec.Proto LinfaSpec.Pca

/-- the statement promises *an error* for an empty dataset / an embedding size outside `1..p`, not
which one: both guard errors are written `err Guard` (on both sides) -/
def showErr : FitErr String → String
  | .notEnoughSamples => "err Guard"
  | .embeddingTooSmall _ => "err Guard"
  | .linalg _ => "err Linalg"

def showApprox (xs : List (List Float)) : String := showList2 (fun x => "~" ++ showF64c x) xs

/-- order-sensitive 64-bit checksum of the bits of a matrix, row by row (the harness computes the same
over the array it hands to the solver hook) -/
def checksum (xs : List (List Float)) : UInt64 :=
  xs.foldl (fun h r => r.foldl (fun h x => (h ^^^ x.toBits) * 0x100000001b3) (h * 31 + 7))
    0xcbf29ce484222325

def parseLayout : String → Option Layout
  | "C" => some .c | "F" => some .f | "Cs" => some .cStrided | "Fs" => some .fStrided | _ => none

/-- `fit n= p= k= w= lay= form= x= svd=ok|err|panic|none raw=dense|iter num= xch= sv= vt= q= t= wt=`:
the record matrix `x` (n rows of width p; `x=` empty for n = 0) in memory layout `lay`, wrapped in a
dataset in calling form `form` (plain / with targets / with targets and weights / view — the model
of `fit` reads none of that), the embedding size, the whitening flag, what the external solver call
`raw` (dense full block on `min(n,p)` pairs, or LOBPCG on `k`) returned on the centred matrix
(`sv`, `vt`, asked for `num` pairs on the matrix with checksum `xch`; `svd=none` when the guards
reject before it is called) — the model's `leadingSvd`
decides which of the two calls it needs and fails (`bad-op`) when the request carries the other
one —, query rows `q` for `predict` / `inverse_transform`, and integer targets `t` / weights `wt` of
a dataset over the query rows for `Transformer::transform` / `Predict::predict(DatasetBase)`. -/
def handleFit (toks : List String) : Option String := do
  let n ← argNat toks "n"; let p ← argNat toks "p"; let k ← argNat toks "k"
  let w ← argNat toks "w"
  let lay ← (arg toks "lay").bind parseLayout
  let form ← arg toks "form"
  if !(["plain", "targets", "weights", "view"].contains form) then none
  let x ← argF64s2 toks "x"
  let q ← argF64s2 toks "q"
  let t ← argInts toks "t"
  let wt ← argInts toks "wt"
  let svdTag ← arg toks "svd"
  -- the external solver panicked on the centred matrix (after both guards passed): so does `fit`
  if svdTag == "panic" ∧ (guard (ε := String) n p k).isNone then return "panic"
  if x.length ≠ n then none
  if x.any (·.length ≠ p) ∨ q.any (·.length ≠ p) then none
  if t.length ≠ q.length ∨ wt.length ≠ q.length then none
  let missing : List (List Float) → Nat → Except String (List Float × List (List Float)) :=
    fun _ _ => Except.error "missing-solver-output"
  let svd : List (List Float) → Nat → Except String (List Float × List (List Float)) ←
    (match svdTag with
     | "ok" => do
        let raw ← arg toks "raw"
        let num ← argNat toks "num"
        let xch ← (arg toks "xch").bind parseHex
        let sv ← argF64s toks "sv"; let vt ← argF64s2 toks "vt"
        if vt.length ≠ sv.length ∨ vt.any (·.length ≠ p) then none
        -- the solver is known at ONE point: the matrix with checksum `xch` (what the harness handed
        -- to the hook) and the pair count `num`.  The model's `fit` must call it exactly there —
        -- with its own `center x (colMeanL lay p x)` and the count `leadingSvd` chooses —,
        -- anywhere else the request does not determine the answer
        let given : List (List Float) → Nat → Except String (List Float × List (List Float)) :=
          fun xc m =>
            if m = num ∧ (checksum xc).toNat = xch then Except.ok (sv, vt)
            else Except.error "missing-solver-output"
        match raw with
        | "dense" => some (leadingSvd given missing p)
        | "iter" => some (leadingSvd missing given p)
        | _ => none
     | "err" => some (fun _ _ => Except.error "linalg")
     | "none" => some (fun _ _ => Except.error "svd-not-expected")
     | _ => none)
  match fit (α := Float) 1e-8 svd k (w != 0) lay p x with
  | .error e =>
    -- the harness sends svd=none exactly when the implementation rejected before the SVD;
    -- a solver output of the branch the model does not take is a malformed request
    match e, svdTag with
    | .linalg _, "none" => none
    | .linalg "missing-solver-output", _ => none
    | e, _ => some (showErr e)
  | .ok m =>
    let z := transform m q
    let inv := inverseTransform m z
    let ds : Dataset Float (List Int) (List Int) := { records := q, targets := t, weights := wt }
    let td := transformDataset m ds
    let pd := predictDataset m ds []
    some (s!"ok mean={showList showF64c m.mean} sigma={showList showF64c m.sigma} " ++
      s!"comp={showList2 showF64c m.embedding} ev={showList showF64c (explainedVariance m)} " ++
      s!"evr={showList (fun x => "~" ++ showF64c x) (explainedVarianceRatio m)} " ++
      s!"z={showApprox z} inv={showApprox inv} " ++
      s!"td={showApprox td.records}/{showList toString td.targets}/{showList toString td.weights} " ++
      s!"pd={showList2 showF64c pd.records}/{showApprox pd.targets}/{showList toString pd.weights}")

def handle (toks : List String) : String :=
  let r := match toks with
    | "fit" :: rest => handleFit rest
    -- same request; the harness uses these names for un-whitened tiny-scale data / huge-scale data so
    -- that the float tokens are compared with a smaller / larger absolute tolerance (conf
    -- `compare.fitt`, `compare.fith`)
    | "fitt" :: rest => handleFit rest
    | "fith" :: rest => handleFit rest
    | _ => none
  r.getD "bad-op"

end LinfaSpec.Drv.C18
