import LinfaSpec.Model.Proto
import LinfaSpec.Model.Scalar
import LinfaSpec.Model.Pca

namespace LinfaSpec.Drv.C18
open LinfaSpec.Proto LinfaSpec.Pca

def showErr : FitErr String → String
  | .notEnoughSamples => "err NotEnoughSamples"
  | .embeddingTooSmall k => s!"err EmbeddingTooSmall({k})"
  | .linalg _ => "err Linalg"

def showApprox (xs : List (List Float)) : String := showList2 (fun x => "~" ++ showF64c x) xs

/-- `fit n= p= k= w= x= svd=ok|err sv= vt= q=`:
the record matrix `x` (n rows of width p; `x=` empty for n = 0), the embedding size, the
whitening flag, what the external truncated SVD returned on the centred matrix (`sv`, `vt`;
`svd=none` when the guards reject before it is called), and query rows `q` for
`predict` / `inverse_transform`. -/
def handleFit (toks : List String) : Option String := do
  let n ← argNat toks "n"; let p ← argNat toks "p"; let k ← argNat toks "k"
  let w ← argNat toks "w"
  let x ← argF64s2 toks "x"
  let q ← argF64s2 toks "q"
  let svdTag ← arg toks "svd"
  -- the external solver panicked on the centred matrix (after both guards passed): so does `fit`
  if svdTag == "panic" ∧ (guard (ε := String) n p k).isNone then return "panic"
  if x.length ≠ n then none
  if x.any (·.length ≠ p) ∨ q.any (·.length ≠ p) then none
  let svd : List (List Float) → Nat → Except String (List Float × List (List Float)) ←
    (match svdTag with
     | "ok" => do
        let sv ← argF64s toks "sv"; let vt ← argF64s2 toks "vt"
        if vt.length ≠ sv.length ∨ vt.any (·.length ≠ p) then none
        some (fun _ _ => Except.ok (sv, vt))
     | "err" => some (fun _ _ => Except.error "linalg")
     | "none" => some (fun _ _ => Except.error "svd-not-expected")
     | _ => none)
  match fit (α := Float) 1e-8 svd k (w != 0) p x with
  | .error e =>
    -- the harness sends svd=none exactly when the implementation rejected before the SVD
    match e, svdTag with
    | .linalg _, "none" => none
    | e, _ => some (showErr e)
  | .ok m =>
    let z := transform m q
    let inv := inverseTransform m z
    some (s!"ok mean={showList showF64c m.mean} sigma={showList showF64c m.sigma} " ++
      s!"comp={showList2 showF64c m.embedding} ev={showList showF64c (explainedVariance m)} " ++
      s!"evr={showList (fun x => "~" ++ showF64c x) (explainedVarianceRatio m)} " ++
      s!"z={showApprox z} inv={showApprox inv}")

def handle (toks : List String) : String :=
  let r := match toks with
    | "fit" :: rest => handleFit rest
    | _ => none
  r.getD "bad-op"

end LinfaSpec.Drv.C18
