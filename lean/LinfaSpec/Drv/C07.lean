import LinfaSpec.Model.Proto
import LinfaSpec.Model.Scalar
import LinfaSpec.Model.NN

/-!
C07 driver.  Requests (all self-contained):

`knn   ty= kind= metric= p= ncols= leaf= [lay= form=] pts= [qlay=] q= k= [script=]`
`range ty= kind= metric= p= ncols= leaf= [lay= form=] pts= [qlay=] q= r= [script=]`
`tree  ty= metric= p= ncols= leaf= [lay= form=] pts= script=`
`default`   the leaf size `NearestNeighbour::from_batch` passes on (`defaultLeaf`)

`lay` also `rev` (negative strides), `qlay` also `rev`; `pre=<j>`: the compared query is the (j+1)-th on
one index (the model is stateless: no input of the answer).

`lay` c|f|strided|t and `qlay` c|strided name the memory layout of batch and query on the Rust side
(validated, otherwise no input of the model); `form` leaf|default selects `from_batch_with_leaf_size`
or `from_batch` (leaf size `2^4`, the `leaf=` token is then not used).  Every query request goes
through the model of the whole call (`knnRequest` / `rangeRequest`: build guards, dispatch on the
kind, query guard, search).

`ty` f64|f32 (floats travel as 16 resp. 8 hex digits), `kind` linear|kd|ball, `metric` l1|l2|linf|lp
(`p` = exponent of lp), `pts` list2, `q` list, `script` = the splits the real ball tree took, one
entry per branch `centerpos;left positions;right positions` joined by `|` (the model's `split`
parameter; `tree` checks every entry against the specification of `partition`).

Responses: `err <Kind>` | `ok n=<count> d=<rdist of the returned points in order> strict=<sorted
positions strictly nearer than the last returned>` | `ok pos=<sorted positions>` | tree dump.
Ties may be broken arbitrarily by the property, so of a k-nearest answer only the distance
sequence and the positions below the k-th distance are canonical.
-/
namespace LinfaSpec.Drv.C07
open LinfaSpec.Proto LinfaSpec.NN LinfaSpec

structure Sc (α : Type) where
  parse : String → Option α
  shw : α → String
  wide : α → Float

def scF64 : Sc Float := ⟨parseF64, showF64, id⟩
def scF32 : Sc Float32 := ⟨parseF32, showF32, Float32.toFloat⟩

section
variable {α : Type} [Add α] [Sub α] [Mul α] [Div α] [Neg α] [LT α] [DecidableLT α] [LE α]
  [DecidableLE α] [OfNat α 0] [OfNat α 1] [NatCast α] [Transc α] [PowF α]

def metricOf (name : String) (p : α) : Option (Metric (List α) α) :=
  match name with
  | "l1" => some mL1
  | "l2" => some mL2
  | "linf" => some mLinf
  | "lp" => some (mLp p)
  | _ => none

def sortNat (l : List Nat) : List Nat := l.mergeSort (fun a b => decide (a ≤ b))

abbrev Script := List (Nat × List Nat × List Nat)

def parseScript (s : String) : Option Script := do
  let l3 ← parseList3 parseNat s
  l3.mapM fun e => match e with
    | [[c], l, r] => some (c, l, r)
    | _ => none

/-- the stored points at the given row positions, in that order (`none` if one is absent) -/
def lookAll {P : Type} (pts : List (Pt P)) : List Nat → Option (List (Pt P))
  | [] => some []
  | i :: is =>
    match pts.find? (fun p => p.2 == i), lookAll pts is with
    | some p, some ps => some (p :: ps)
    | _, _ => none

/-- the `split` parameter of `build`, read off the real tree: looked up by member set.  A script
entry is used only if its two halves together are exactly the row positions of `pts`, both halves
are non-empty (`debug_assert!(!aps.is_empty() && !bps.is_empty())`) and its centre is one of the
points; otherwise the split is refused (`none`, the model then builds a leaf and the dump differs).
Generic in the point type: `Props/C07.scriptSplit_splitPerm` proves the contract `SplitPerm` for
EVERY script, so the search theorems apply to whatever the driver runs. -/
def scriptSplit {P : Type} (script : Script) (pts : List (Pt P)) :
    Option (List (Pt P) × P × List (Pt P)) :=
  let key := sortNat (pts.map (·.2))
  match script.find? (fun e => e.2.1.length + e.2.2.length == pts.length &&
      sortNat (e.2.1 ++ e.2.2) == key) with
  | none => none
  | some (c, l, r) =>
    match lookAll pts l, lookAll pts r, pts.find? (fun p => p.2 == c) with
    | some a, some b, some cp => if a.isEmpty || b.isEmpty then none else some (a, cp.1, b)
    | _, _, _ => none

def eqS (a b : α) : Bool := !decide (a < b) && !decide (b < a)

/-- specification of `partition` (balltree.rs): dimension of maximal range (`max_by_key` keeps the
last maximum), median = element `len/2` of the sorted coordinates, left = points strictly below
the median, or one arbitrary point if there is none. -/
def splitOk (pts a : List (Pt (List α))) (c : List α) (b : List (Pt (List α))) : Bool :=
  match pts with
  | [] => false
  | p0 :: _ =>
    let dims := List.range p0.1.length
    let col : Nat → List α := fun (j : Nat) => pts.map fun p => p.1.getD j 0
    let range : Nat → α := fun (j : Nat) =>
      let (mx, mn) := (col j).foldl (fun (acc : α × α) x =>
        ((if acc.1 < x then x else acc.1), (if x < acc.2 then x else acc.2))) ((col j).headD 0, (col j).headD 0)
      mx - mn
    match dims with
    | [] => false
    | d0 :: ds =>
      let dim := ds.foldl (fun best j => if range j < range best then best else j) d0
      let sorted := ((col dim).map fun x => (x, ())).foldl (fun acc x => insertAsc x acc) []
      let med := (sorted.getD (pts.length / 2) (0, ())).1
      let below := (pts.filter fun p => decide (p.1.getD dim 0 < med)).map (·.2)
      let memb := sortNat (pts.map (·.2))
      eqS (c.getD dim 0) med && pts.any (fun p => p.1.length == c.length &&
          (List.zipWith eqS p.1 c).all id) &&
        sortNat ((a ++ b).map (·.2)) == memb && !a.isEmpty && !b.isEmpty &&
        (if below.isEmpty then a.length == 1 else sortNat (a.map (·.2)) == sortNat below)

def allSplitsOk (split : List (Pt (List α)) → Option (List (Pt (List α)) × List α × List (Pt (List α))))
    (leaf : Nat) : Nat → List (Pt (List α)) → Bool
  | 0, _ => true
  | fuel + 1, pts =>
    if pts.length ≤ leaf then true else
    match split pts with
    | none => false
    | some (a, c, b) => splitOk pts a c b && allSplitsOk split leaf fuel a && allSplitsOk split leaf fuel b

def showTree (sc : Sc α) (approx : Bool) : Ball (List α) α → List String
  | .leaf c r pts =>
    let f := fun x => if approx then "~" ++ showF64 (sc.wide x) else sc.shw x
    [s!"L/{showList f c}/{f r}/{showList toString (pts.map (·.2))}"]
  | .branch c r l rr =>
    let f := fun x => if approx then "~" ++ showF64 (sc.wide x) else sc.shw x
    s!"B/{showList f c}/{f r}/-" :: (showTree sc approx l ++ showTree sc approx rr)

/-- smallest relative gap between two different values among the reduced distances (and the
radius): decisions of an lp query hang on libm `pow`, a gap below the tolerance is not compared -/
def marginOf (sc : Sc α) (vals : List α) : Float :=
  let s := (vals.map fun x => (sc.wide x, ())).foldl (fun acc x => insertAsc x acc) []
  let v := s.map (·.1)
  (v.zip (v.drop 1)).foldl (fun m (a, b) =>
    if a < b then
      let g := (b - a) / (if b.abs < 1e-300 then 1e-300 else b.abs)
      if g < m then g else m
    else m) 1.0

def run (sc : Sc α) (op : String) (toks : List String) : Option String := do
  let metric ← arg toks "metric"
  let p ← (arg toks "p").bind sc.parse
  let m ← metricOf metric p
  let approx := metric == "lp"
  let ncols ← argNat toks "ncols"
  let leaf ← argNat toks "leaf"
  let pts ← (arg toks "pts").bind (parseList2 sc.parse)
  let fD := fun (x : α) => if approx then "~" ++ showF64 (sc.wide x) else sc.shw x
  let script ← (match arg toks "script" with | none => some [] | some s => parseScript s)
  let split := scriptSplit (P := List α) script
  -- calling forms: the memory layout of batch / query is not an input of the model (it sees the
  -- logical values), but an unknown form is an ill-formed request
  let lay := (arg toks "lay").getD "c"
  let qlay := (arg toks "qlay").getD "c"
  if !(["c", "f", "strided", "t", "rev"].contains lay) || !(["c", "strided", "rev"].contains qlay) then none else
  -- `pre` = number of warm-up queries on the same index before the compared one: the model is
  -- stateless (an index is a value), so the answer does not depend on it
  let _pre ← (match arg toks "pre" with | none => some 0 | some s => parseNat s)
  let form ← (match (arg toks "form").getD "leaf" with
    | "leaf" => some (Form.leaf leaf)
    | "default" => some Form.default
    | _ => none)
  let effLeaf := form.leafSize
  if op == "tree" then
    match buildCheck ncols effLeaf with
    | .error .emptyLeaf => some "err EmptyLeaf"
    | .error .zeroDimension => some "err ZeroDimension"
    | .ok () =>
      let stored := enumerate pts
      let ix := ballIndex m vecMean split effLeaf ncols pts
      let ok := allSplitsOk split effLeaf pts.length stored
      some s!"ok split={if ok then "ok" else "bad"} {"|".intercalate (showTree sc approx ix.tree)}"
  else do
    let stored := enumerate pts
    let kind ← (match arg toks "kind" with
      | some "linear" => some Kind.linear
      | some "kd" => some Kind.kd
      | some "ball" => some Kind.ball
      | _ => none)
    let q ← (arg toks "q").bind (parseList sc.parse)
    let qdim := q.length
    let margin := fun (extra : List α) =>
      if approx then s!" margin=~{showF64 (marginOf sc (extra ++ stored.map fun x => m.rdist q x.1))}" else ""
    -- several defects at once (zero leaf size, zero columns, wrong query dimension): the statement
    -- promises an error, not which defect it names; the kind is compared for a single defect only
    let defects := (if effLeaf = 0 then 1 else 0) + (if ncols = 0 then 1 else 0) + (if ncols ≠ qdim then 1 else 0)
    let showErr := fun (r : Reply (List α)) (okf : List (Pt (List α)) → String) => match r with
      | .ok out => okf out
      | _ => if defects > 1 then "err multiple" else match r with
      | .buildErr .emptyLeaf => "err EmptyLeaf"
      | .buildErr .zeroDimension => "err ZeroDimension"
      | .nnErr .wrongDimension => "err WrongDimension"
      | .ok out => okf out
    if op == "knn" then
      let k ← argNat toks "k"
      some (showErr (knnRequest m vecMean split kind form ncols pts qdim q k) fun out =>
        let ds := out.map fun x => m.rdist q x.1
        let strict := match ds.getLast? with
          | none => []
          | some last => sortNat ((stored.filter fun x => decide (m.rdist q x.1 < last)).map (·.2))
        s!"ok n={out.length} d={showList fD ds} strict={showList toString strict}{margin []}")
    else if op == "range" then
      let r ← (arg toks "r").bind sc.parse
      some (showErr (rangeRequest m vecMean split kind form ncols pts qdim q r) fun out =>
        s!"ok pos={showList toString (sortNat (out.map (·.2)))}{margin [m.toR r]}")
    else none
end

def handle (toks : List String) : String :=
  let r := match toks with
    | ["default"] => some s!"ok leaf={defaultLeaf}"
    | op :: rest =>
      if op == "knn" || op == "range" || op == "tree" then
        match arg rest "ty" with
        | some "f64" => run scF64 op rest
        | some "f32" => run scF32 op rest
        | _ => none
      else none
    | _ => none
  r.getD "bad-op"

end LinfaSpec.Drv.C07
