import LinfaSpec.Model.Proto
import LinfaSpec.Model.Scalar
import LinfaSpec.Model.Gmm

namespace LinfaSpec.Drv.C10
open LinfaSpec LinfaSpec.Proto LinfaSpec.Gmm

instance : NatCast Float32 := ⟨Float32.ofNat⟩
instance : Transc Float32 := ⟨Float32.sqrt, Float32.exp, Float32.log⟩

/-- tolerant float token -/
def sh (x : Float) : String := "~" ++ showF64c x

def argF64s3 (toks : List String) (key : String) : Option (List (List (List Float))) :=
  (arg toks key).bind (parseList3 parseF64)

/-! ### The handlers, written once for both scalar instantiations of the Rust code

`α` is `Float` (ops without suffix) or `Float32` (ops with the suffix `32`).  Every value crosses the
protocol as the f64 it widens to (`ofF` / `toF` are exact on those values).

Presentation and conditioning (driver only, not part of the model): covariances / precisions are
printed scale-free: diagonals (M-step: divided by the square of the data scale `max |x_ij|`, means
divided by that scale), and off-diagonal entries divided by `sqrt(m_aa m_bb)` — the rounding error of an
inner product is bounded relative to that product of norms (Cauchy–Schwarz), not relative to the entry,
which may cancel to ~0.

A probability row is compared only when it is well conditioned: with `δ` a bound on the
difference of the two sides' weighted log probabilities (`8(d+2)·ε·A`, `A` the magnitude of
the terms summed), every non-top probability moves by at most `p_j(e^{2δ}−1)`; the row is
well conditioned when these bounds add up to ≤ `ptol` (1e-9 / 1e-4).  Ill-conditioned lines carry
`margin=0` and are skipped (counted) by the comparison. -/
section generic
variable {α : Type} [Add α] [Sub α] [Mul α] [Div α] [Neg α] [LT α] [DecidableLT α]
  [LE α] [DecidableLE α] [OfNat α 0] [OfNat α 1] [NatCast α] [Transc α]

/-- the scalar-specific constants: conversions, machine epsilon, conditioning threshold, upper end of the
EmptyCluster grey zone -/
structure Sc (α : Type) where
  ofF : Float → α
  toF : α → Float
  eps : α
  ptol : α
  greyHi : α
  /-- presentation: the scale of a mean is at least `max|x| / rr` (see `scaleOf`) -/
  rr : α
  /-- `fitfull`: a float decision closer than `noiseK · ε · max(1, |lb|)` to its threshold is a tie -/
  noiseK : α
  /-- `emfull` / `fitfull`: a Cholesky pivot below this fraction of its diagonal entry makes the acceptance of
  the factorisation (computed from covariances that differ by rounding) too close to call -/
  pivTol : α

variable (sc : Sc α)

def shA (x : α) : String := sh (sc.toF x)

/-- `ln(2π)` as the Rust code computes it: `f64::ln(2. * std::f64::consts::PI)`, then cast -/
def ln2pi : α := sc.ofF (Float.log (2.0 * 3.141592653589793))

/-- `10 · F::epsilon()`, the EmptyCluster guard -/
def thr : α := sc.ofF 10.0 * sc.eps

def gt (a b : α) : Bool := decide (b < a)

def diagOf (d : Nat) (s2 : α) (m : List (List α)) : List α := (List.range d).map fun a => at2 m a a / s2
def corrOf (d : Nat) (m : List (List α)) : List (List α) :=
  (List.range d).map fun a => (List.range d).map fun b =>
    if a = b then 1 else at2 m a b / Transc.sqrt (at2 m a a * at2 m b b)

def mahaAbs (d : Nat) (x mu : List α) (pc : List (List α)) : α :=
  sumRange d fun b =>
    let y := sumRange d fun a => absS ((x.getD a 0 - mu.getD a 0) * at2 pc a b)
    y * y

def maxF (l : List α) : α := l.foldl (fun m g => if m < g then g else m) 0

/-- presentation scales of an M-step (driver only): `lo` the column minima, `range` the largest column
range, `mx = max |x_ij|`.  Means are printed as `(μ − lo) / s1`, covariance diagonals as `Σ_aa / s2`, with
`s1 = max(range, mx / rr)`, `s2 = max(range², mx · range / rr)`: the rounding error of the two-pass
formulas is `~ n ε mx` for a mean and `~ ε mx range` for a covariance entry, so data far from the origin
(`mx ≫ range`) is compared as tightly as its conditioning allows and no tighter. -/
structure Scale (α : Type) where
  lo : List α
  s1 : α
  s2 : α

def scaleOf (d : Nat) (x : List (List α)) : Scale α :=
  let cols := (List.range d).map fun c => x.map fun r => r.getD c 0
  let lo := cols.map fun col => match col with
    | [] => (0 : α)
    | a :: t => t.foldl (fun m v => if v < m then v else m) a
  let hi := cols.map fun col => match col with
    | [] => (0 : α)
    | a :: t => t.foldl (fun m v => if m < v then v else m) a
  let range := maxF (List.zipWith (· - ·) hi lo)
  let mx := maxF (x.flatten.map absS)
  let a := mx / sc.rr
  let s1 := if range < a then a else range
  let b := mx * range / sc.rr
  let r2 := range * range
  let s2 := if r2 < b then b else r2
  ⟨lo, if (0 : α) < s1 then s1 else 1, if (0 : α) < s2 then s2 else 1⟩

/-- weights, means, covariances in the scale-free presentation -/
def showParams (d : Nat) (x : List (List α)) (w : List α) (mu : List (List α)) (covs : List (List (List α))) : String :=
  let scl := scaleOf sc d x
  let mus := mu.map fun row => (List.range d).map fun c => (row.getD c 0 - scl.lo.getD c 0) / scl.s1
  s!"w={showList (shA sc) w} mu={showList2 (shA sc) mus} covdiag={showList2 (shA sc) (covs.map (diagOf d scl.s2))} covcorr={showList3 (shA sc) (covs.map (corrOf d))}"

/-- bound on the difference between two floating-point evaluations of `weightedLogProb` -/
def deltaOf (d : Nat) (w : List α) (mu : List (List α)) (pcs : List (List (List α)))
    (x : List α) : α :=
  let half := sc.ofF 0.5
  let mags := (List.range w.length).map fun j =>
    half * mahaAbs d x (mu.getD j []) (pcs.getD j []) + half * ((d : α) * ln2pi sc)
      + (sumRange d fun a => absS (Transc.ln (at2 (pcs.getD j []) a a))) + absS (Transc.ln (w.getD j 0))
  sc.ofF 8.0 * ((d : α) + sc.ofF 2.0) * sc.eps * maxF mags

/-- total bound on the movement of the probabilities of a row -/
def errEst (delta : α) (lr : List α) : α :=
  let top := argmaxFirst lr
  sumS (((List.range lr.length).filter (· ≠ top)).map fun j =>
    let v := lr.getD j 0
    Transc.exp (v + sc.ofF 2.0 * delta) - Transc.exp v)

/-- `false` only when the estimate is a number above the tolerance (NaN compares) -/
def wellP (delta : α) (lr : List α) : Bool := !(gt (errEst sc delta lr) sc.ptol)

def wellLr (delta : α) (lpn : α) (lr : List α) : Bool :=
  let top := argmaxFirst lr
  let big (a : α) : α := if gt (absS a) 1 then absS a else 1
  wellP sc delta lr && !(gt (sc.ofF 2.0 * delta) (sc.ptol * big lpn)) &&
  ((List.range lr.length).filter (· ≠ top)).all fun j =>
    !(gt (sc.ofF 2.0 * delta) (sc.ptol * big (lr.getD j 0)))

def flag (b : Bool) : Float := if b then 2e-12 else 0.0

structure Mix (α : Type) where
  w : List α
  mu : List (List α)
  pc : List (List (List α))
  d : Nat

def parseMix (toks : List String) : Option (Mix α) := do
  let w ← argF64s toks "w"
  let mu ← argF64s2 toks "mu"
  let pc ← argF64s3 toks "pc"
  let d := (mu.headD []).length
  if w.length = 0 ∨ mu.length ≠ w.length ∨ pc.length ≠ w.length then none
  else if mu.any (fun r => r.length ≠ d) ∨ pc.any (fun m => m.length ≠ d ∨ m.any (fun r => r.length ≠ d)) then none
  else some ⟨w.map sc.ofF, mu.map (·.map sc.ofF), pc.map (·.map (·.map sc.ofF)), d⟩

def parseObs (toks : List String) (d : Nat) : Option (List (List α)) := do
  let x ← argF64s2 toks "x"
  if x.any (fun r => r.length ≠ d) then none else some (x.map (·.map sc.ofF))

def handleEstep (toks : List String) : Option String := do
  let m ← parseMix sc toks
  let x ← parseObs sc toks m.d
  let rows := x.map fun xi => logRespStable (weightedLogProb (ln2pi sc) m.d m.w m.mu m.pc xi)
  let well := (x.zip rows).all fun (xi, r) => wellLr sc (deltaOf sc m.d m.w m.mu m.pc xi) r.1 r.2
  some s!"ok lpn={showList (shA sc) (rows.map (·.1))} lr={showList2 (shA sc) (rows.map (·.2))} margin={sh (flag well)}"

/-- shared by `mstep` (hook `estimate_gaussian_parameters`) and `mstepfit` (the parameters `fit` returned
against the M-step of the accepted step's responsibilities); `withNk` prints `nk` and the grey-zone margin -/
def handleMstep (withNk : Bool) (toks : List String) : Option String := do
  let reg ← argF64 toks "reg"
  let x ← argF64s2 toks "x"
  let r ← argF64s2 toks "r"
  let n := x.length
  let d := (x.headD []).length
  let k := (r.headD []).length
  if n = 0 ∨ r.length ≠ n ∨ x.any (fun q => q.length ≠ d) ∨ r.any (fun q => q.length ≠ k) then none else
  let x := x.map (·.map sc.ofF)
  let r := r.map (·.map sc.ofF)
  -- a column mass in (0, greyHi): the statement does not say whether that component is "emptied"
  let grey := (nkOf n k r).any fun v => decide ((0 : α) < v) && decide (v < sc.greyHi)
  let mg := if withNk then s!" margin={sh (if grey then 0.0 else 1.0)}" else ""
  match estimateParams (thr sc) (sc.ofF reg) n d k x r with
  | .error e => some ("err " ++ e ++ mg)
  | .ok p =>
    let nk := if withNk then s!"nk={showList (shA sc) p.nk} " else ""
    some s!"ok {nk}{showParams sc d x p.weights p.means p.covs}{mg}"

/-- one whole EM iteration (`emStep`): from the parameters of the state before the accepted step and the
records to the parameters `fit` returned; compared when every E-step row is well conditioned -/
def handleEmstep (toks : List String) : Option String := do
  let reg ← argF64 toks "reg"
  let m ← parseMix sc toks
  let x ← parseObs sc toks m.d
  if x.length = 0 then none else
  let well := x.all fun xi =>
    wellP sc (deltaOf sc m.d m.w m.mu m.pc xi) (logRespStable (weightedLogProb (ln2pi sc) m.d m.w m.mu m.pc xi)).2
  let d := m.d
  -- the lower bound `e_step` reports for the state before: `log_prob_norm.mean()`
  let lb := (eStepFull (ln2pi sc) d ⟨m.w, m.mu, [], m.pc⟩ x).1
  match emStep (thr sc) (sc.ofF reg) (ln2pi sc) d m.w m.mu m.pc x with
  | .error e => some s!"err {e} margin={sh (flag well)}"
  | .ok p =>
    some s!"ok lb={shA sc lb} {showParams sc d x p.weights p.means p.covs} margin={sh (flag well)}"

def handlePrec (toks : List String) : Option String := do
  let pc ← argF64s3 toks "pc"
  let d := (pc.headD []).length
  if pc.any (fun m => m.length ≠ d ∨ m.any (fun r => r.length ≠ d)) then none else
  let ps := (pc.map (·.map (·.map sc.ofF))).map (precisionsFull d)
  some s!"ok pdiag={showList2 (shA sc) (ps.map (diagOf d 1))} pcorr={showList3 (shA sc) (ps.map (corrOf d))}"

def handleProba (toks : List String) : Option String := do
  let m ← parseMix sc toks
  let x ← parseObs sc toks m.d
  let well := x.all fun xi =>
    wellP sc (deltaOf sc m.d m.w m.mu m.pc xi) (logRespStable (weightedLogProb (ln2pi sc) m.d m.w m.mu m.pc xi)).2
  some s!"ok p={showList2 (shA sc) (x.map (predictProba (ln2pi sc) m.d m.w m.mu m.pc))} margin={sh (flag well)}"

def minF (l : List Float) : Float :=
  l.foldl (fun m g => if g >= m then m else g) (1.0 / 0.0)

def handlePredict (toks : List String) : Option String := do
  let m ← parseMix sc toks
  let x ← parseObs sc toks m.d
  let ps := x.map (predictProba (ln2pi sc) m.d m.w m.mu m.pc)
  -- the labels through the model function the theorem `predict_is_argmax` is about
  let labs := x.map (predict (ln2pi sc) m.d m.w m.mu m.pc)
  let well := x.all fun xi =>
    wellP sc (deltaOf sc m.d m.w m.mu m.pc xi) (logRespStable (weightedLogProb (ln2pi sc) m.d m.w m.mu m.pc xi)).2
  some s!"ok lab={showList toString labs} margin={sh (if well then minF (ps.map fun p => sc.toF (margin p)) else 0.0)}"

/-- every Cholesky pivot of every covariance is at least `pivTol` of its diagonal entry -/
def pivotsOk (d : Nat) (covs : List (List (List α))) : Bool :=
  covs.all fun A => (List.range d).all fun j =>
    match cholesky j A with
    | .ok L => !(gt sc.pivTol ((cholRowD A L j).2 / at2 A j j))
    | .error _ => false

/-- `compute_precisions_cholesky_full` through the model of the two `linfa-linalg` routines; the line is compared when
every pivot is at least `ptol` (1e-9 / 1e-4) of its diagonal entry (a pivot within rounding of zero is too close to call) -/
def handlePchol (toks : List String) : Option String := do
  let cov ← argF64s3 toks "cov"
  let d := (cov.headD []).length
  if cov.any (fun m => m.length ≠ d ∨ m.any (fun r => r.length ≠ d)) then none else
  let covs := cov.map (·.map (·.map sc.ofF))
  let piv := covs.map fun A => (List.range d).map fun j =>
    match cholesky j A with
    | .ok L => sc.toF (absS ((cholRowD A L j).2 / at2 A j j))
    | .error _ => (1.0 : Float)
  let mg := flag (minF piv.flatten >= sc.toF sc.ptol)
  match precCholAll d covs with
  | .error e => some s!"err {e} margin={sh mg}"
  | .ok pcs => some s!"ok pc={showList3 (shA sc) pcs} margin={sh mg}"

/-- the methods `e_step` then `m_step` on a whole state (`emStepFull`): lower bound, new parameters, or the
error (`precisions_chol` itself is compared by `pchol`; here its failure decides `LinalgError`, compared when
no pivot is too close to zero) -/
def handleEmfull (toks : List String) : Option String := do
  let reg ← argF64 toks "reg"
  let m ← parseMix sc toks
  let x ← parseObs sc toks m.d
  if x.length = 0 then none else
  let d := m.d
  let well := x.all fun xi =>
    wellP sc (deltaOf sc d m.w m.mu m.pc xi) (logRespStable (weightedLogProb (ln2pi sc) d m.w m.mu m.pc xi)).2
  match emStepFull (thr sc) (sc.ofF reg) (ln2pi sc) d x ⟨m.w, m.mu, [], m.pc⟩ with
  | .error e => some s!"err {e} margin={sh (flag (well && e != "LinalgError"))}"
  | .ok (lb, s') =>
    some s!"ok lb={shA sc lb} {showParams sc d x s'.weights s'.means s'.covs} margin={sh (flag (well && pivotsOk sc d s'.covs))}"

/-- smallest fuel (4, 8, 16, … up to the budget `n_runs · max_n_iterations`) for which `f` does not answer
`trace-exhausted` -/
def searchFuel {β : Type} (f : Nat → Except String β) (budget : Nat) : Nat → Nat → Nat × Except String β
  | 0, fuel => (fuel, f fuel)
  | n + 1, fuel =>
    if budget ≤ fuel then (budget, f budget) else
    match f fuel with
    | .error e => if e == "trace-exhausted" then searchFuel f budget n (2 * fuel) else (fuel, .error e)
    | r => (fuel, r)

/-- the whole of `fit` after `new` (`fitFull` on `emStepFull`): from the initial state and the records to
the state `fit` returns.  The line is compared when no float decision of the run is too close to call:
every convergence test `| |Δlb| − tol |` and (with several runs) every pair of lower bounds is further
apart than `noiseK · ε · max(1, |lb|)`, and every E-step row of the chain is well conditioned. -/
def handleFitfull (toks : List String) : Option String := do
  let tol ← argF64 toks "tol"
  let iters ← argNat toks "iters"
  let runs ← argNat toks "runs"
  let reg ← argF64 toks "reg"
  let m ← parseMix sc toks
  let x ← parseObs sc toks m.d
  if x.length = 0 then none else
  let d := m.d
  let s0 : State α := ⟨m.w, m.mu, [], m.pc⟩
  let step := emStepFull (thr sc) (sc.ofF reg) (ln2pi sc) d x
  let tolA := sc.ofF tol
  let (fuel, res) := searchFuel (fun fuel => fitFull step tolA iters runs fuel s0) (runs * iters) 64 4
  -- conditioning of the run (driver only)
  let ch := chainFrom step fuel s0
  let lbs : List α := ch.1.filterMap fun o => match o with | .ok v => some v | .error _ => none
  let sts := ch.2.take lbs.length
  -- per state: the largest rounding bound of a row's weighted log probabilities (so of its `log_prob_norm`)
  let dl : List α := sts.map fun s => maxF (x.map fun xi => deltaOf sc d s.weights s.means s.pcs xi)
  let noise (i : Nat) : α :=
    let v := lbs.getD i 0
    sc.noiseK * sc.eps * (if gt (absS v) 1 then absS v else 1) + sc.ofF 2.0 * dl.getD i 0
  let idx := List.range lbs.length
  let convOk := idx.all fun i => i + 1 ≥ lbs.length ||
    gt (absS (absS (lbs.getD (i + 1) 0 - lbs.getD i 0) - tolA)) (noise i + noise (i + 1))
  let pairsOk := runs ≤ 1 || idx.all fun i => idx.all fun j =>
    decide (j ≤ i) || gt (absS (lbs.getD i 0 - lbs.getD j 0)) (noise i + noise j)
  let rowsOk := sts.all fun s => x.all fun xi =>
    wellP sc (deltaOf sc d s.weights s.means s.pcs xi) (logRespStable (weightedLogProb (ln2pi sc) d s.weights s.means s.pcs xi)).2
  let pivOk := (ch.2.drop 1).all fun s => pivotsOk sc d s.covs
  let errOk := match res with | .error e => e != "LinalgError" | .ok _ => true
  let mg := sh (flag (convOk && pairsOk && rowsOk && pivOk && errOk))
  match res with
  | .error e => some s!"err {e} margin={mg}"
  | .ok (i, s) => some s!"ok idx={i} {showParams sc d x s.weights s.means s.covs} margin={mg}"

/-- the loop of `fit` on the recorded chain: `lb` the lower bounds of the successful steps, `err` the
error of the step after them (`-` = none) -/
def handleFitwalk (toks : List String) : Option String := do
  let tol ← argF64 toks "tol"
  let iters ← argNat toks "iters"
  let runs ← argNat toks "runs"
  let lbs ← argF64s toks "lb"
  let err ← arg toks "err"
  let tr : List (Except String α) := lbs.map (fun v => .ok (sc.ofF v)) ++ (if err == "-" then [] else [.error err])
  match fitOutcome (sc.ofF tol) iters runs tr with
  | .ok i => some s!"ok idx={i}"
  | .error e => some ("err " ++ e)

end generic

def sc64 : Sc Float := ⟨id, id, Float.ofBits 0x3CB0000000000000, 1e-9, 1e-10, 64.0, 65536.0, 1e-6⟩
def sc32 : Sc Float32 :=
  ⟨Float.toFloat32, Float32.toFloat, Float32.ofBits 0x34000000, (1e-4 : Float).toFloat32, (1e-4 : Float).toFloat32,
   (1.0 : Float).toFloat32, (256.0 : Float).toFloat32, (1e-3 : Float).toFloat32⟩

def handle (toks : List String) : String :=
  let r := match toks with
    | "estep" :: rest => handleEstep sc64 rest
    | "mstep" :: rest => handleMstep sc64 true rest
    | "mstepfit" :: rest => handleMstep sc64 false rest
    | "prec" :: rest => handlePrec sc64 rest
    | "proba" :: rest => handleProba sc64 rest
    | "predict" :: rest => handlePredict sc64 rest
    | "fitwalk" :: rest => handleFitwalk sc64 rest
    | "emstep" :: rest => handleEmstep sc64 rest
    | "emstep32" :: rest => handleEmstep sc32 rest
    | "estep32" :: rest => handleEstep sc32 rest
    | "mstep32" :: rest => handleMstep sc32 true rest
    | "mstepfit32" :: rest => handleMstep sc32 false rest
    | "proba32" :: rest => handleProba sc32 rest
    | "predict32" :: rest => handlePredict sc32 rest
    | "fitwalk32" :: rest => handleFitwalk sc32 rest
    | "pchol" :: rest => handlePchol sc64 rest
    | "pchol32" :: rest => handlePchol sc32 rest
    | "emfull" :: rest => handleEmfull sc64 rest
    | "emfull32" :: rest => handleEmfull sc32 rest
    | "fitfull" :: rest => handleFitfull sc64 rest
    | "fitfull32" :: rest => handleFitfull sc32 rest
    | _ => none
  r.getD "bad-op"

end LinfaSpec.Drv.C10
