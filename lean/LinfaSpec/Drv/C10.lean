import LinfaSpec.Model.Proto
import LinfaSpec.Model.Scalar
import LinfaSpec.Model.Gmm

namespace LinfaSpec.Drv.C10
open LinfaSpec LinfaSpec.Proto LinfaSpec.Gmm

instance : NatCast Float32 := ⟨Float32.ofNat⟩
instance : Transc Float32 := ⟨Float32.sqrt, Float32.exp, Float32.log⟩

/-- tolerant float token -/
def sh (x : Float) : String := "~" ++ showF64c x

def argF64s3 (toks : List String) (key : String) : Option (List (List (List Float))) :=
  (arg toks key).bind (parseList3 parseF64)

/-! ### The handlers, written once for both scalar instantiations of the Rust code

`α` is `Float` (ops without suffix) or `Float32` (ops with the suffix `32`).  Every value crosses the
protocol as the f64 it widens to (`ofF` / `toF` are exact on those values).

Presentation and conditioning (driver only, not part of the model): covariances / precisions are
printed scale-free: diagonals (M-step: divided by the square of the data scale `max |x_ij|`, means
divided by that scale), and off-diagonal entries divided by `sqrt(m_aa m_bb)` — the rounding error of an
inner product is bounded relative to that product of norms (Cauchy–Schwarz), not relative to the entry,
which may cancel to ~0.

A probability row is compared only when it is well conditioned: with `δ` a bound on the
difference of the two sides' weighted log probabilities (`8(d+2)·ε·A`, `A` the magnitude of
the terms summed), every non-top probability moves by at most `p_j(e^{2δ}−1)`; the row is
well conditioned when these bounds add up to ≤ `ptol` (1e-9 / 1e-4).  Ill-conditioned lines carry
`margin=0` and are skipped (counted) by the comparison. -/
section generic
variable {α : Type} [Add α] [Sub α] [Mul α] [Div α] [Neg α] [LT α] [DecidableLT α]
  [OfNat α 0] [OfNat α 1] [NatCast α] [Transc α]

/-- the scalar-specific constants: conversions, machine epsilon, conditioning threshold, upper end of the
EmptyCluster grey zone -/
structure Sc (α : Type) where
  ofF : Float → α
  toF : α → Float
  eps : α
  ptol : α
  greyHi : α

variable (sc : Sc α)

def shA (x : α) : String := sh (sc.toF x)

/-- `ln(2π)` as the Rust code computes it: `f64::ln(2. * std::f64::consts::PI)`, then cast -/
def ln2pi : α := sc.ofF (Float.log (2.0 * 3.141592653589793))

/-- `10 · F::epsilon()`, the EmptyCluster guard -/
def thr : α := sc.ofF 10.0 * sc.eps

def gt (a b : α) : Bool := decide (b < a)

def diagOf (d : Nat) (s2 : α) (m : List (List α)) : List α := (List.range d).map fun a => at2 m a a / s2
def corrOf (d : Nat) (m : List (List α)) : List (List α) :=
  (List.range d).map fun a => (List.range d).map fun b =>
    if a = b then 1 else at2 m a b / Transc.sqrt (at2 m a a * at2 m b b)

def mahaAbs (d : Nat) (x mu : List α) (pc : List (List α)) : α :=
  sumRange d fun b =>
    let y := sumRange d fun a => absS ((x.getD a 0 - mu.getD a 0) * at2 pc a b)
    y * y

def maxF (l : List α) : α := l.foldl (fun m g => if m < g then g else m) 0

/-- bound on the difference between two floating-point evaluations of `weightedLogProb` -/
def deltaOf (d : Nat) (w : List α) (mu : List (List α)) (pcs : List (List (List α)))
    (x : List α) : α :=
  let half := sc.ofF 0.5
  let mags := (List.range w.length).map fun j =>
    half * mahaAbs d x (mu.getD j []) (pcs.getD j []) + half * ((d : α) * ln2pi sc)
      + (sumRange d fun a => absS (Transc.ln (at2 (pcs.getD j []) a a))) + absS (Transc.ln (w.getD j 0))
  sc.ofF 8.0 * ((d : α) + sc.ofF 2.0) * sc.eps * maxF mags

/-- total bound on the movement of the probabilities of a row -/
def errEst (delta : α) (lr : List α) : α :=
  let top := argmaxFirst lr
  sumS (((List.range lr.length).filter (· ≠ top)).map fun j =>
    let v := lr.getD j 0
    Transc.exp (v + sc.ofF 2.0 * delta) - Transc.exp v)

/-- `false` only when the estimate is a number above the tolerance (NaN compares) -/
def wellP (delta : α) (lr : List α) : Bool := !(gt (errEst sc delta lr) sc.ptol)

def wellLr (delta : α) (lpn : α) (lr : List α) : Bool :=
  let top := argmaxFirst lr
  let big (a : α) : α := if gt (absS a) 1 then absS a else 1
  wellP sc delta lr && !(gt (sc.ofF 2.0 * delta) (sc.ptol * big lpn)) &&
  ((List.range lr.length).filter (· ≠ top)).all fun j =>
    !(gt (sc.ofF 2.0 * delta) (sc.ptol * big (lr.getD j 0)))

def flag (b : Bool) : Float := if b then 2e-12 else 0.0

structure Mix (α : Type) where
  w : List α
  mu : List (List α)
  pc : List (List (List α))
  d : Nat

def parseMix (toks : List String) : Option (Mix α) := do
  let w ← argF64s toks "w"
  let mu ← argF64s2 toks "mu"
  let pc ← argF64s3 toks "pc"
  let d := (mu.headD []).length
  if w.length = 0 ∨ mu.length ≠ w.length ∨ pc.length ≠ w.length then none
  else if mu.any (fun r => r.length ≠ d) ∨ pc.any (fun m => m.length ≠ d ∨ m.any (fun r => r.length ≠ d)) then none
  else some ⟨w.map sc.ofF, mu.map (·.map sc.ofF), pc.map (·.map (·.map sc.ofF)), d⟩

def parseObs (toks : List String) (d : Nat) : Option (List (List α)) := do
  let x ← argF64s2 toks "x"
  if x.any (fun r => r.length ≠ d) then none else some (x.map (·.map sc.ofF))

def handleEstep (toks : List String) : Option String := do
  let m ← parseMix sc toks
  let x ← parseObs sc toks m.d
  let rows := x.map fun xi => logRespStable (weightedLogProb (ln2pi sc) m.d m.w m.mu m.pc xi)
  let well := (x.zip rows).all fun (xi, r) => wellLr sc (deltaOf sc m.d m.w m.mu m.pc xi) r.1 r.2
  some s!"ok lpn={showList (shA sc) (rows.map (·.1))} lr={showList2 (shA sc) (rows.map (·.2))} margin={sh (flag well)}"

/-- shared by `mstep` (hook `estimate_gaussian_parameters`) and `mstepfit` (the parameters `fit` returned
against the M-step of the accepted step's responsibilities); `withNk` prints `nk` and the grey-zone margin -/
def handleMstep (withNk : Bool) (toks : List String) : Option String := do
  let reg ← argF64 toks "reg"
  let x ← argF64s2 toks "x"
  let r ← argF64s2 toks "r"
  let n := x.length
  let d := (x.headD []).length
  let k := (r.headD []).length
  if n = 0 ∨ r.length ≠ n ∨ x.any (fun q => q.length ≠ d) ∨ r.any (fun q => q.length ≠ k) then none else
  let x := x.map (·.map sc.ofF)
  let r := r.map (·.map sc.ofF)
  let s0 := maxF (x.flatten.map absS)
  let s : α := if (0 : α) < s0 then s0 else 1
  -- a column mass in [eps, greyHi): the statement does not say whether that component is "emptied"
  let grey := (nkOf n k r).any fun v => !(decide (v < sc.eps)) && decide (v < sc.greyHi)
  let mg := if withNk then s!" margin={sh (if grey then 0.0 else 1.0)}" else ""
  match estimateParams (thr sc) (sc.ofF reg) n d k x r with
  | .error e => some ("err " ++ e ++ mg)
  | .ok p =>
    let nk := if withNk then s!"nk={showList (shA sc) p.nk} " else ""
    some s!"ok {nk}w={showList (shA sc) p.weights} mu={showList2 (shA sc) (p.means.map (·.map (· / s)))} covdiag={showList2 (shA sc) (p.covs.map (diagOf d (s * s)))} covcorr={showList3 (shA sc) (p.covs.map (corrOf d))}{mg}"

/-- one whole EM iteration (`emStep`): from the parameters of the state before the accepted step and the
records to the parameters `fit` returned; compared when every E-step row is well conditioned -/
def handleEmstep (toks : List String) : Option String := do
  let reg ← argF64 toks "reg"
  let m ← parseMix sc toks
  let x ← parseObs sc toks m.d
  if x.length = 0 then none else
  let well := x.all fun xi =>
    wellP sc (deltaOf sc m.d m.w m.mu m.pc xi) (logRespStable (weightedLogProb (ln2pi sc) m.d m.w m.mu m.pc xi)).2
  let s0 := maxF (x.flatten.map absS)
  let s : α := if (0 : α) < s0 then s0 else 1
  let d := m.d
  match emStep (thr sc) (sc.ofF reg) (ln2pi sc) d m.w m.mu m.pc x with
  | .error e => some s!"err {e} margin={sh (flag well)}"
  | .ok p =>
    some s!"ok w={showList (shA sc) p.weights} mu={showList2 (shA sc) (p.means.map (·.map (· / s)))} covdiag={showList2 (shA sc) (p.covs.map (diagOf d (s * s)))} covcorr={showList3 (shA sc) (p.covs.map (corrOf d))} margin={sh (flag well)}"

def handlePrec (toks : List String) : Option String := do
  let pc ← argF64s3 toks "pc"
  let d := (pc.headD []).length
  if pc.any (fun m => m.length ≠ d ∨ m.any (fun r => r.length ≠ d)) then none else
  let ps := (pc.map (·.map (·.map sc.ofF))).map (precisionsFull d)
  some s!"ok pdiag={showList2 (shA sc) (ps.map (diagOf d 1))} pcorr={showList3 (shA sc) (ps.map (corrOf d))}"

def handleProba (toks : List String) : Option String := do
  let m ← parseMix sc toks
  let x ← parseObs sc toks m.d
  let well := x.all fun xi =>
    wellP sc (deltaOf sc m.d m.w m.mu m.pc xi) (logRespStable (weightedLogProb (ln2pi sc) m.d m.w m.mu m.pc xi)).2
  some s!"ok p={showList2 (shA sc) (x.map (predictProba (ln2pi sc) m.d m.w m.mu m.pc))} margin={sh (flag well)}"

def minF (l : List Float) : Float :=
  l.foldl (fun m g => if g >= m then m else g) (1.0 / 0.0)

def handlePredict (toks : List String) : Option String := do
  let m ← parseMix sc toks
  let x ← parseObs sc toks m.d
  let ps := x.map (predictProba (ln2pi sc) m.d m.w m.mu m.pc)
  let labs := ps.map argmaxFirst
  let well := x.all fun xi =>
    wellP sc (deltaOf sc m.d m.w m.mu m.pc xi) (logRespStable (weightedLogProb (ln2pi sc) m.d m.w m.mu m.pc xi)).2
  some s!"ok lab={showList toString labs} margin={sh (if well then minF (ps.map fun p => sc.toF (margin p)) else 0.0)}"

/-- the loop of `fit` on the recorded chain: `lb` the lower bounds of the successful steps, `err` the
error of the step after them (`-` = none) -/
def handleFitwalk (toks : List String) : Option String := do
  let tol ← argF64 toks "tol"
  let iters ← argNat toks "iters"
  let runs ← argNat toks "runs"
  let lbs ← argF64s toks "lb"
  let err ← arg toks "err"
  let tr : List (Except String α) := lbs.map (fun v => .ok (sc.ofF v)) ++ (if err == "-" then [] else [.error err])
  match fitOutcome (sc.ofF tol) iters runs tr with
  | .ok i => some s!"ok idx={i}"
  | .error e => some ("err " ++ e)

end generic

def sc64 : Sc Float := ⟨id, id, Float.ofBits 0x3CB0000000000000, 1e-9, 1e-10⟩
def sc32 : Sc Float32 :=
  ⟨Float.toFloat32, Float32.toFloat, Float32.ofBits 0x34000000, (1e-4 : Float).toFloat32, (1e-4 : Float).toFloat32⟩

def handle (toks : List String) : String :=
  let r := match toks with
    | "estep" :: rest => handleEstep sc64 rest
    | "mstep" :: rest => handleMstep sc64 true rest
    | "mstepfit" :: rest => handleMstep sc64 false rest
    | "prec" :: rest => handlePrec sc64 rest
    | "proba" :: rest => handleProba sc64 rest
    | "predict" :: rest => handlePredict sc64 rest
    | "fitwalk" :: rest => handleFitwalk sc64 rest
    | "emstep" :: rest => handleEmstep sc64 rest
    | "emstep32" :: rest => handleEmstep sc32 rest
    | "estep32" :: rest => handleEstep sc32 rest
    | "mstep32" :: rest => handleMstep sc32 true rest
    | "mstepfit32" :: rest => handleMstep sc32 false rest
    | "proba32" :: rest => handleProba sc32 rest
    | "predict32" :: rest => handlePredict sc32 rest
    | "fitwalk32" :: rest => handleFitwalk sc32 rest
    | _ => none
  r.getD "bad-op"

end LinfaSpec.Drv.C10
