import LinfaSpec.Model.Proto
import LinfaSpec.Model.Scalar
import LinfaSpec.Model.Gmm

namespace LinfaSpec.Drv.C10
open LinfaSpec.Proto LinfaSpec.Gmm

/-- tolerant float token -/
def sh (x : Float) : String := "~" ++ showF64c x

/-- `ln(2π)` as the Rust code computes it: `f64::ln(2. * std::f64::consts::PI)` -/
def ln2pi : Float := Float.log (2.0 * 3.141592653589793)

/-- `10 · f64::EPSILON`, the EmptyCluster guard -/
def thr : Float := 10.0 * Float.ofBits 0x3CB0000000000000

def argF64s3 (toks : List String) (key : String) : Option (List (List (List Float))) :=
  (arg toks key).bind (parseList3 parseF64)

/-! ### presentation and conditioning (driver only, not part of the model)

Covariances / precisions are printed scale-free: diagonals, and off-diagonal entries divided by
`sqrt(m_aa m_bb)` — the rounding error of an inner product is bounded relative to that product
of norms (Cauchy–Schwarz), not relative to the entry, which may cancel to ~0.

A probability row is compared only when it is well conditioned: with `δ` a bound on the
difference of the two sides' weighted log probabilities (`8(d+2)·ε·A`, `A` the magnitude of
the terms summed), every non-top probability moves by at most `p_j(e^{2δ}−1)`; the row is
well conditioned when these bounds add up to ≤ 1e-9.  Ill-conditioned lines carry
`margin=0` and are skipped (counted) by the comparison. -/

def diagOf (d : Nat) (m : List (List Float)) : List Float := (List.range d).map fun a => at2 m a a
def corrOf (d : Nat) (m : List (List Float)) : List (List Float) :=
  (List.range d).map fun a => (List.range d).map fun b =>
    if a = b then 1.0 else at2 m a b / Float.sqrt (at2 m a a * at2 m b b)

def eps : Float := Float.ofBits 0x3CB0000000000000

def mahaAbs (d : Nat) (x mu : List Float) (pc : List (List Float)) : Float :=
  sumRange d fun b =>
    let y := sumRange d fun a => Float.abs ((x.getD a 0 - mu.getD a 0) * at2 pc a b)
    y * y

def maxF (l : List Float) : Float := l.foldl (fun m g => if g > m then g else m) 0.0

/-- bound on the difference between two floating-point evaluations of `weightedLogProb` -/
def deltaOf (d : Nat) (w : List Float) (mu : List (List Float)) (pcs : List (List (List Float)))
    (x : List Float) : Float :=
  let mags := (List.range w.length).map fun j =>
    0.5 * mahaAbs d x (mu.getD j []) (pcs.getD j []) + 0.5 * (d.toFloat * ln2pi)
      + (sumRange d fun a => Float.abs (Float.log (at2 (pcs.getD j []) a a))) + Float.abs (Float.log (w.getD j 0))
  8.0 * (d.toFloat + 2.0) * eps * maxF mags

/-- total bound on the movement of the probabilities of a row -/
def errEst (delta : Float) (lr : List Float) : Float :=
  let top := argmaxFirst lr
  sumS (((List.range lr.length).filter (· ≠ top)).map fun j =>
    let v := lr.getD j 0
    Float.exp (v + 2.0 * delta) - Float.exp v)

/-- `false` only when the estimate is a number above the tolerance (NaN compares) -/
def wellP (delta : Float) (lr : List Float) : Bool := !(errEst delta lr > 1e-9)

def wellLr (delta : Float) (lpn : Float) (lr : List Float) : Bool :=
  let top := argmaxFirst lr
  wellP delta lr && !(2.0 * delta > 1e-9 * (if Float.abs lpn > 1.0 then Float.abs lpn else 1.0)) &&
  ((List.range lr.length).filter (· ≠ top)).all fun j =>
    let a := Float.abs (lr.getD j 0)
    !(2.0 * delta > 1e-9 * (if a > 1.0 then a else 1.0))

def flag (b : Bool) : Float := if b then 2e-12 else 0.0

structure Mix where
  w : List Float
  mu : List (List Float)
  pc : List (List (List Float))
  d : Nat

def parseMix (toks : List String) : Option Mix := do
  let w ← argF64s toks "w"
  let mu ← argF64s2 toks "mu"
  let pc ← argF64s3 toks "pc"
  let d := (mu.headD []).length
  if w.length = 0 ∨ mu.length ≠ w.length ∨ pc.length ≠ w.length then none
  else if mu.any (fun r => r.length ≠ d) ∨ pc.any (fun m => m.length ≠ d ∨ m.any (fun r => r.length ≠ d)) then none
  else some ⟨w, mu, pc, d⟩

def parseObs (toks : List String) (d : Nat) : Option (List (List Float)) := do
  let x ← argF64s2 toks "x"
  if x.any (fun r => r.length ≠ d) then none else some x

def handleEstep (toks : List String) : Option String := do
  let m ← parseMix toks
  let x ← parseObs toks m.d
  let rows := x.map fun xi => logRespStable (weightedLogProb ln2pi m.d m.w m.mu m.pc xi)
  let well := (x.zip rows).all fun (xi, r) => wellLr (deltaOf m.d m.w m.mu m.pc xi) r.1 r.2
  some s!"ok lpn={showList sh (rows.map (·.1))} lr={showList2 sh (rows.map (·.2))} margin={sh (flag well)}"

def handleMstep (toks : List String) : Option String := do
  let reg ← argF64 toks "reg"
  let x ← argF64s2 toks "x"
  let r ← argF64s2 toks "r"
  let n := x.length
  let d := (x.headD []).length
  let k := (r.headD []).length
  if n = 0 ∨ r.length ≠ n ∨ x.any (fun q => q.length ≠ d) ∨ r.any (fun q => q.length ≠ k) then none else
  match estimateParams thr reg n d k x r with
  | .error e => some ("err " ++ e)
  | .ok p =>
    some s!"ok nk={showList showF64 p.nk} w={showList showF64 p.weights} mu={showList2 sh p.means} covdiag={showList2 sh (p.covs.map (diagOf d))} covcorr={showList3 sh (p.covs.map (corrOf d))}"

def handlePrec (toks : List String) : Option String := do
  let pc ← argF64s3 toks "pc"
  let d := (pc.headD []).length
  if pc.any (fun m => m.length ≠ d ∨ m.any (fun r => r.length ≠ d)) then none else
  let ps := pc.map (precisionsFull d)
  some s!"ok pdiag={showList2 sh (ps.map (diagOf d))} pcorr={showList3 sh (ps.map (corrOf d))}"

def handleProba (toks : List String) : Option String := do
  let m ← parseMix toks
  let x ← parseObs toks m.d
  let well := x.all fun xi =>
    wellP (deltaOf m.d m.w m.mu m.pc xi) (logRespStable (weightedLogProb ln2pi m.d m.w m.mu m.pc xi)).2
  some s!"ok p={showList2 sh (x.map (predictProba ln2pi m.d m.w m.mu m.pc))} margin={sh (flag well)}"

def minF (l : List Float) : Float :=
  l.foldl (fun m g => if g >= m then m else g) (1.0 / 0.0)

def handlePredict (toks : List String) : Option String := do
  let m ← parseMix toks
  let x ← parseObs toks m.d
  let ps := x.map (predictProba ln2pi m.d m.w m.mu m.pc)
  let labs := ps.map argmaxFirst
  let well := x.all fun xi =>
    wellP (deltaOf m.d m.w m.mu m.pc xi) (logRespStable (weightedLogProb ln2pi m.d m.w m.mu m.pc xi)).2
  some s!"ok lab={showList toString labs} margin={sh (if well then minF (ps.map margin) else 0.0)}"

def handle (toks : List String) : String :=
  let r := match toks with
    | "estep" :: rest => handleEstep rest
    | "mstep" :: rest => handleMstep rest
    | "prec" :: rest => handlePrec rest
    | "proba" :: rest => handleProba rest
    | "predict" :: rest => handlePredict rest
    | _ => none
  r.getD "bad-op"

end LinfaSpec.Drv.C10
