import LinfaSpec.Model.Proto
import LinfaSpec.Model.Scalar
import LinfaSpec.Model.Vectorizer

namespace LinfaSpec.Drv.C17
open LinfaSpec.Proto LinfaSpec.Vectorizer

/-- a word travels as `x` + hex of its UTF-8 bytes (so the empty word is `x`) -/
def parseWord (s : String) : Option String :=
  if s.startsWith "x" then
    let h := (s.drop 1).toString
    if h.isEmpty then some "" else hexDecode h
  else none

def showWord (w : String) : String := "x" ++ hexEncode w

def argDocs (toks : List String) (key : String) : Option (List (List String)) :=
  (arg toks key).bind (parseList2 parseWord)

def argWords (toks : List String) (key : String) : Option (List String) :=
  (arg toks key).bind (parseList parseWord)

/-- `stop=none` or `stop=S:<words>` -/
def argStop (toks : List String) : Option (Option (List String)) := do
  let s ← arg toks "stop"
  if s == "none" then some none
  else if s.startsWith "S:" then (parseList parseWord (s.drop 2).toString).map some
  else none

def argCap (toks : List String) : Option (Option Nat) := do
  let s ← arg toks "cap"
  if s == "none" then some none else (parseNat s).map some

def argMethod (toks : List String) : Option Method := do
  let s ← arg toks "method"
  if s == "smooth" then some .smooth
  else if s == "nonsmooth" then some .nonSmooth
  else if s == "textbook" then some .textbook
  else none

def argF32 (toks : List String) (key : String) : Option Float32 :=
  (arg toks key).bind fun s => if s.length = 8 then parseF32 s else none

/-- canonical enumeration of the hash map: by word (the harness sorts the
implementation's vocabulary the same way and permutes the columns accordingly) -/
def byWord (l : List (Entry String)) : List (Entry String) :=
  l.mergeSort fun a b => !(decide (b.1 < a.1))

def showVocab (v : List String) : String := if v.isEmpty then "-" else showList showWord v

/-- the calling forms of `fit` the harness drives; every one of them reaches the same Rust function
body, so the model is the same — an unknown form is an ill-formed request -/
def fitForms : List String :=
  ["owned", "view", "strided", "reversed", "strref", "display", "checked", "files"]
/-- the calling forms of `transform` -/
def trForms : List String :=
  ["owned", "view", "strided", "reversed", "strref", "display", "serde", "files"]

def argForm (toks : List String) (key : String) (known : List String) : Option Unit := do
  let s ← arg toks key
  if known.contains s then some () else none

structure Req where
  nmin : Nat
  nmax : Nat
  fitted : Fitted String
  /-- `false`: the outcome hangs on a decision the statement leaves open (a relative bound within
  f32 noise of a document frequency, or a feature cap cutting through entries of equal
  document frequency) -/
  decided : Bool

def hexOne : String := "3ff0000000000000"
def hexZero : String := "0000000000000000"
def showMargin (decided : Bool) : String := "margin=~" ++ (if decided then hexOne else hexZero)

/-- `bound * n` against a document frequency in exact (f64) arithmetic: equal, or apart by more
than f32 resolution — otherwise a float tie -/
def floatTie (bound : Float32) (n df : Nat) : Bool :=
  let p := bound.toFloat * n.toFloat
  let d := df.toFloat
  p != d && (p - d).abs <= 4e-6 * (if d < 1.0 then 1.0 else d)

/-- settings + training corpus → fitted vectoriser, or the error kind -/
def doFit (toks : List String) : Option (Except String Req) := do
  let nmin ← argNat toks "nmin"; let nmax ← argNat toks "nmax"
  let lo ← argF32 toks "lo"; let hi ← argF32 toks "hi"
  let stop ← argStop toks; let cap ← argCap toks
  let docs ← argDocs toks "fit"
  argForm toks "ffit" fitForms
  match checkParams nmin nmax lo hi with
  | some e => some (.error e)
  | none =>
    let grams := docs.map (docGrams strJoiner nmin nmax)
    let (a, b) := absBounds lo hi docs.length
    let F := fit byWord grams a b stop cap
    let corpus := readCorpus grams
    let ftie := corpus.any fun e => floatTie lo docs.length e.2.2 || floatTie hi docs.length e.2.2
    let ctie := match cap with
      | none => false
      | some _ =>
        let A := (fit byWord grams a b stop none).vec
        let dfw := fun (w : String) => ((corpus.find? fun e => e.1 == w).map (·.2.2)).getD 0
        A.any fun bw => !F.vec.contains bw && F.vec.any fun aw => dfw aw == dfw bw
    some (.ok ⟨nmin, nmax, F, !(ftie || ctie)⟩)

def doFixed (toks : List String) : Option (Except String Req) := do
  let nmin ← argNat toks "nmin"; let nmax ← argNat toks "nmax"
  let lo ← argF32 toks "lo"; let hi ← argF32 toks "hi"
  let words ← argWords toks "vocab"
  match checkParams nmin nmax lo hi with
  | some e => some (.error e)
  | none => some (.ok ⟨nmin, nmax, fitVocabulary byWord words, true⟩)

/-- invalid settings are outside the property: only "the fit is refused" is compared, not the kind -/
def respCount (toks : List String) (r : Except String Req) : Option String := do
  let tr ← argDocs toks "tr"
  argForm toks "ftr" trForms
  match r with
  | .error _ => some "err"
  | .ok q =>
    let m := transform q.fitted (tr.map (docGrams strJoiner q.nmin q.nmax))
    some s!"ok n={q.fitted.vocabulary.length} vocab={showVocab q.fitted.vec} counts={showList2 toString m} nnz={nnz m} {showMargin q.decided}"

def respTfIdf (toks : List String) (r : Except String Req) : Option String := do
  let tr ← argDocs toks "tr"
  let meth ← argMethod toks
  argForm toks "ftr" trForms
  match r with
  | .error _ => some "err"
  | .ok q =>
    let grams := tr.map (docGrams strJoiner q.nmin q.nmax)
    let m : List (List Float) := transformTfIdf meth q.fitted grams
    some s!"ok n={q.fitted.vocabulary.length} vocab={showVocab q.fitted.vec} tfidf={showList2 (fun x => "~" ++ showF64c x) m} {showMargin q.decided}"

def handleNgrams (toks : List String) : Option String := do
  let nmin ← argNat toks "nmin"; let nmax ← argNat toks "nmax"
  let ws ← argWords toks "words"
  some ("ok " ++ showList2 showWord (ngramList strJoiner ws nmin nmax))

def argBool (toks : List String) (key : String) : Option Bool := do
  let s ← arg toks key
  if s == "1" then some true else if s == "0" then some false else none

/-- `transform_string` on one document: the two Unicode maps arrive as the finite tables the
harness computed from first principles (`raw ↦ nfkd`, `raw ↦ low`, `nfkd ↦ lownfkd`) -/
def handleTString (toks : List String) : Option String := do
  let lower ← argBool toks "lower"; let norm ← argBool toks "norm"
  let raw ← (arg toks "raw").bind parseWord
  let nf ← (arg toks "nfkd").bind parseWord
  let low ← (arg toks "low").bind parseWord
  let lownf ← (arg toks "lownfkd").bind parseWord
  let nfkdF := fun (s : String) => if s == raw then nf else s
  let lowerF := fun (s : String) => if s == raw then low else if s == nf then lownf else s
  some ("ok " ++ showWord (transformString nfkdF lowerF norm lower raw))

def handle (toks : List String) : String :=
  let r := match toks with
    | "count" :: rest => (doFit rest).bind (respCount rest)
    | "tfidf" :: rest => (doFit rest).bind (respTfIdf rest)
    | "fixed" :: rest => (doFixed rest).bind (respCount rest)
    | "fixed_tfidf" :: rest => (doFixed rest).bind (respTfIdf rest)
    | "ngrams" :: rest => handleNgrams rest
    | "tstring" :: rest => handleTString rest
    | _ => none
  r.getD "bad-op"

end LinfaSpec.Drv.C17
