import LinfaSpec.Model.Proto
import LinfaSpec.Model.Scalar
import LinfaSpec.Model.Vectorizer
import Std.Data.HashMap

namespace LinfaSpec.Drv.C17
open LinfaSpec.Proto LinfaSpec.Vectorizer

/-- a word travels as `x` + hex of its UTF-8 bytes (so the empty word is `x`) -/
def parseWord (s : String) : Option String :=
  if s.startsWith "x" then
    let h := (s.drop 1).toString
    if h.isEmpty then some "" else hexDecode h
  else none

def showWord (w : String) : String := "x" ++ hexEncode w

def argDocs (toks : List String) (key : String) : Option (List (List String)) :=
  (arg toks key).bind (parseList2 parseWord)

def argWords (toks : List String) (key : String) : Option (List String) :=
  (arg toks key).bind (parseList parseWord)

/-- `stop=none` or `stop=S:<words>` (same for `stopn`) -/
def argStop (toks : List String) (key : String := "stop") : Option (Option (List String)) := do
  let s ← arg toks key
  if s == "none" then some none
  else if s.startsWith "S:" then (parseList parseWord (s.drop 2).toString).map some
  else none

def argCap (toks : List String) : Option (Option Nat) := do
  let s ← arg toks "cap"
  if s == "none" then some none else (parseNat s).map some

def argMethod (toks : List String) : Option Method := do
  let s ← arg toks "method"
  if s == "smooth" then some .smooth
  else if s == "nonsmooth" then some .nonSmooth
  else if s == "textbook" then some .textbook
  else none

def argF32 (toks : List String) (key : String) : Option Float32 :=
  (arg toks key).bind fun s => if s.length = 8 then parseF32 s else none

def argBool (toks : List String) (key : String) : Option Bool := do
  let s ← arg toks key
  if s == "1" then some true else if s == "0" then some false else none

/-- canonical enumeration of the hash map: by word (the harness sorts the
implementation's vocabulary the same way and permutes the columns accordingly) -/
def byWord (l : List (Entry String)) : List (Entry String) :=
  l.mergeSort fun a b => !(decide (b.1 < a.1))

def showVocab (v : List String) : String := if v.isEmpty then "-" else showList showWord v

/-- how a request's calling form of `fit` is answered -/
inductive FitRoute | direct | files | reuse

/-- the calling forms of `fit` the harness drives.  Array layouts / element types / checked parameters
reach the body of `fit` (`fitDocs`); the `files…` forms reach the separate loop of `fit_files`
(`fitFiles`, every file decodable); `reuse` is a parameter object with a history (`TokParams`). -/
def fitRoute (s : String) : Option FitRoute :=
  if ["owned", "view", "strided", "reversed", "revstrided", "strref", "display", "checked"].contains s then some .direct
  else if ["files", "files16", "fileslatin1", "filesrep", "filesign"].contains s then some .files
  else if s == "reuse" then some .reuse
  else none

/-- the calling forms of `transform`: `true` = the separate loop of `transform_files` -/
def trRoute (s : String) : Option Bool :=
  if ["owned", "view", "strided", "reversed", "revstrided", "strref", "display", "serde", "twice"].contains s then some false
  else if ["files", "files16", "fileslatin1", "filesrep", "filesign"].contains s then some true
  else none

def vocForms : List String := ["owned", "strref", "display", "checked"]

structure Req where
  nmin : Nat
  nmax : Nat
  fitted : Fitted String
  /-- the entries the statement promises nothing about (left out of the response); `none`: the whole
  vocabulary is open (a feature cap together with such an entry) -/
  mask : Option (List String)
  capped : Bool
  /-- the fitted object tokenises with the parameter object's FIRST tokeniser (never, unless the
  model of `check_ref` kept a stale cache) -/
  alt : Bool

def hexOne : String := "3ff0000000000000"
def hexZero : String := "0000000000000000"
def showMargin (decided : Bool) : String := "margin=~" ++ (if decided then hexOne else hexZero)

/-- `bound * n` against a document frequency in exact (f64) arithmetic: equal, or apart by more
than f32 resolution — otherwise a float tie -/
def floatTie (bound : Float32) (n df : Nat) : Bool :=
  let p := bound.toFloat * n.toFloat
  let d := df.toFloat
  p != d && (p - d).abs <= 4e-6 * (if d < 1.0 then 1.0 else d)

/-- per distinct value `v` of `vals`: how many are `≥ v`, how many `> v` -/
def rankTable (vals : List Nat) : List (Nat × Nat × Nat) :=
  vals.eraseDups.map fun v => (v, vals.countP (fun x => decide (x ≥ v)), vals.countP (fun x => decide (x > v)))

def rankOf (t : List (Nat × Nat × Nat)) (v : Nat) : Nat × Nat :=
  ((t.find? fun r => r.1 == v).map (·.2)).getD (0, 0)

/-- The entries of the training corpus the statement promises nothing about (same computation as the
harness's `unpromised`): float ties of a relative bound, entries equal to a *normalised* stop word,
and under a feature cap the admitted entries that are neither surely kept nor surely dropped under
both readings of "most frequent" (document frequency, term frequency). -/
def unpromised (lo hi : Float32) (n : Nat) (stop stopn : List String) (cap : Option Nat)
    (corpus : List (Entry String)) (tfOf : String → Nat) (a b : Nat) : Option (List String) :=
  let u0 := (corpus.filter fun e =>
    floatTie lo n e.2.2 || floatTie hi n e.2.2 || (!stop.contains e.1 && stopn.contains e.1)).map (·.1)
  match cap with
  | none => some u0
  | some m =>
    if !u0.isEmpty then none
    else
      let adm := corpus.filter fun e => !stop.contains e.1 && decide (a ≤ e.2.2) && decide (e.2.2 ≤ b)
      let tdf := rankTable (adm.map (·.2.2))
      let ttf := rankTable (adm.map fun e => tfOf e.1)
      some ((adm.filter fun e =>
        let r1 := rankOf tdf e.2.2
        let r2 := rankOf ttf (tfOf e.1)
        let kept := decide (r1.1 - 1 < m) && decide (r2.1 - 1 < m)
        let dropped := decide (r1.2 ≥ m) && decide (r2.2 ≥ m)
        !kept && !dropped).map (·.1))

def tfTable (grams : List (List String)) : Std.HashMap String Nat :=
  grams.foldl (fun m d => d.foldl (fun m g => m.insert g (m.getD g 0 + 1)) m) {}

/-- settings + training corpus → fitted vectoriser, or the error kind -/
def doFit (toks : List String) : Option (Except String Req) := do
  let nmin ← argNat toks "nmin"; let nmax ← argNat toks "nmax"
  let lo ← argF32 toks "lo"; let hi ← argF32 toks "hi"
  let stop ← argStop toks; let stopn ← argStop toks "stopn"; let cap ← argCap toks
  let docs0 ← argDocs toks "fit"
  let route ← (arg toks "ffit").bind fitRoute
  match checkParams nmin nmax lo hi with
  | some e => some (.error e)
  | none =>
    -- which token table the fit reads: decided by the model of the parameter object
    let (docs, alt) ← match route with
      | .reuse => do
        let tokfn ← argBool toks "tokfn"
        let alt ← argDocs toks "fitalt"
        let real : TokSetting Nat Nat := if tokfn then .function 0 else .regex 2
        -- params().tokenizer(Regex(DECOY)) … fit (check_ref) … clone … tokenizer(real) … fit (check_ref)
        let p0 := ((⟨0, none, none⟩ : TokParams Nat Nat).tokenizer (.regex 1)).checkRef
        let p := ((p0.tokenizer real).checkRef).checkRef
        match p.used with
        | some s => if s == real then some (docs0, false) else if s == .regex 1 then some (alt, true) else none
        | none => none
      | _ => some (docs0, false)
    let n := docs.length
    let bounds := fun k => absBoundsExact (f32ToRat lo) (f32ToRat hi) k
    let F? : Option (Fitted String) := match route with
      | .files => fitFiles strJoiner byWord nmin nmax bounds stop cap (docs.map some)
      | _ => some (fitDocs strJoiner byWord nmin nmax bounds stop cap docs)
    match F? with
    | none => some (.error "EncodingError")
    | some F =>
      let grams := docs.map (docGrams strJoiner nmin nmax)
      let corpus := readCorpus grams
      let (a, b) := bounds n
      -- executed assumption: outside the float-tie band the `f32` formula of the code
      -- (`absBounds`) and the exact window decide every corpus entry alike
      let (a32, b32) := absBounds lo hi n
      let same := corpus.all fun e =>
        floatTie lo n e.2.2 || floatTie hi n e.2.2 ||
          ((decide (a ≤ e.2.2) && decide (e.2.2 ≤ b)) == (decide (a32 ≤ e.2.2) && decide (e.2.2 ≤ b32)))
      if !same then none
      else
        let tf := tfTable grams
        let mask := unpromised lo hi n (stop.getD []) (stopn.getD []) cap corpus (fun w => tf.getD w 0) a b
        some (.ok ⟨nmin, nmax, F, mask, cap.isSome, alt⟩)

def doFixed (toks : List String) : Option (Except String Req) := do
  let nmin ← argNat toks "nmin"; let nmax ← argNat toks "nmax"
  let lo ← argF32 toks "lo"; let hi ← argF32 toks "hi"
  let words ← argWords toks "vocab"
  let fv ← arg toks "fvoc"
  if !vocForms.contains fv then none
  else match checkParams nmin nmax lo hi with
  | some e => some (.error e)
  | none => some (.ok ⟨nmin, nmax, fitVocabulary byWord words, some [], false, false⟩)

/-- positions (in `vocabulary()`, which the model lists by word) of the compared columns -/
def shownIdx (q : Req) : List Nat :=
  match q.mask with
  | none => List.range q.fitted.vec.length
  | some m => (q.fitted.vec.zipIdx.filter fun p => !m.contains p.1).map (·.2)

def pick {α} (d : α) (idx : List Nat) (row : List α) : List α := idx.map fun k => row.getD k d

def showSize (q : Req) : String :=
  if q.capped || q.mask == some [] then toString q.fitted.vocabulary.length else "-"

def trDocs (toks : List String) (q : Req) : Option (List (List String)) :=
  if q.alt then argDocs toks "tralt" else argDocs toks "tr"

/-- the count matrix and the document frequencies through the body the calling form reaches -/
def runTransform (toks : List String) (q : Req) : Option (List (List Nat) × List Nat) := do
  let tr ← trDocs toks q
  let files ← (arg toks "ftr").bind trRoute
  if files then transformFiles strJoiner q.nmin q.nmax q.fitted (tr.map some)
  else some (termAndDocFreqs q.fitted (tr.map (docGrams strJoiner q.nmin q.nmax)))

/-- invalid settings are outside the property: only "the fit is refused" is compared, not the kind -/
def respCount (toks : List String) (r : Except String Req) : Option String := do
  match r with
  | .error _ =>
    let _ ← argDocs toks "tr"; let _ ← (arg toks "ftr").bind trRoute
    some "err"
  | .ok q =>
    let td ← runTransform toks q
    let idx := shownIdx q
    let rows := td.1.map (pick 0 idx)
    let vocab := pick "" idx q.fitted.vec
    let sp := rows.map sparseRow
    let gets := sp.map fun s => (List.range idx.length).map fun k =>
      match sparseGet s k with
      | some c => toString c
      | none => "N"
    some s!"ok n={idx.length} size={showSize q} vocab={showVocab vocab} counts={showList2 toString rows} sp={showList2 (fun (p : Nat × Nat) => s!"{p.1}/{p.2}") sp} get={showList2 id gets} {showMargin q.mask.isSome}"

def respTfIdf (toks : List String) (r : Except String Req) : Option String := do
  let meth ← argMethod toks
  match r with
  | .error _ =>
    let _ ← argDocs toks "tr"; let _ ← (arg toks "ftr").bind trRoute
    some "err"
  | .ok q =>
    let td ← runTransform toks q
    let m : List (List Float) := applyTfIdf meth td.1 td.2
    let idx := shownIdx q
    let rows := m.map (pick 0.0 idx)
    let vocab := pick "" idx q.fitted.vec
    let sp := (td.1.map (pick 0 idx)).zip rows |>.map fun (cr, fr) =>
      (sparseRow cr).map fun p => (p.1, fr.getD p.1 0.0)
    some s!"ok n={idx.length} size={showSize q} vocab={showVocab vocab} tfidf={showList2 (fun x => "~" ++ showF64c x) rows} sp={showList2 (fun (p : Nat × Float) => s!"{p.1}/~{showF64c p.2}") sp} {showMargin q.mask.isSome}"

def handleNgrams (toks : List String) : Option String := do
  let nmin ← argNat toks "nmin"; let nmax ← argNat toks "nmax"
  let ws ← argWords toks "words"
  some ("ok " ++ showList2 showWord (ngramList strJoiner ws nmin nmax))

/-- `transform_string` on one document: the two Unicode maps arrive as the finite tables the
harness computed from first principles (`raw ↦ nfkd`, `raw ↦ low`, `nfkd ↦ lownfkd`) -/
def handleTString (toks : List String) : Option String := do
  let lower ← argBool toks "lower"; let norm ← argBool toks "norm"
  let raw ← (arg toks "raw").bind parseWord
  let nf ← (arg toks "nfkd").bind parseWord
  let low ← (arg toks "low").bind parseWord
  let lownf ← (arg toks "lownfkd").bind parseWord
  some ("ok " ++ showWord (transformString (tableNfkd raw nf) (tableLower raw nf low lownf) norm lower raw))

def handle (toks : List String) : String :=
  let r := match toks with
    | "count" :: rest => (doFit rest).bind (respCount rest)
    | "tfidf" :: rest => (doFit rest).bind (respTfIdf rest)
    | "fixed" :: rest => (doFixed rest).bind (respCount rest)
    | "fixed_tfidf" :: rest => (doFixed rest).bind (respTfIdf rest)
    | "ngrams" :: rest => handleNgrams rest
    | "tstring" :: rest => handleTString rest
    | _ => none
  r.getD "bad-op"

end LinfaSpec.Drv.C17
