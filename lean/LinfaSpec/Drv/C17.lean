import LinfaSpec.Model.Proto
import LinfaSpec.Model.Scalar
import LinfaSpec.Model.Vectorizer

namespace LinfaSpec.Drv.C17
open LinfaSpec.Proto LinfaSpec.Vectorizer

/-- a word travels as `x` + hex of its UTF-8 bytes (so the empty word is `x`) -/
def parseWord (s : String) : Option String :=
  if s.startsWith "x" then
    let h := (s.drop 1).toString
    if h.isEmpty then some "" else hexDecode h
  else none

def showWord (w : String) : String := "x" ++ hexEncode w

def argDocs (toks : List String) (key : String) : Option (List (List String)) :=
  (arg toks key).bind (parseList2 parseWord)

def argWords (toks : List String) (key : String) : Option (List String) :=
  (arg toks key).bind (parseList parseWord)

/-- `stop=none` or `stop=S:<words>` -/
def argStop (toks : List String) : Option (Option (List String)) := do
  let s ← arg toks "stop"
  if s == "none" then some none
  else if s.startsWith "S:" then (parseList parseWord (s.drop 2).toString).map some
  else none

def argCap (toks : List String) : Option (Option Nat) := do
  let s ← arg toks "cap"
  if s == "none" then some none else (parseNat s).map some

def argMethod (toks : List String) : Option Method := do
  let s ← arg toks "method"
  if s == "smooth" then some .smooth
  else if s == "nonsmooth" then some .nonSmooth
  else if s == "textbook" then some .textbook
  else none

def argF32 (toks : List String) (key : String) : Option Float32 :=
  (arg toks key).bind fun s => if s.length = 8 then parseF32 s else none

/-- canonical enumeration of the hash map: by word (the harness sorts the
implementation's vocabulary the same way and permutes the columns accordingly) -/
def byWord (l : List (Entry String)) : List (Entry String) :=
  l.mergeSort fun a b => !(decide (b.1 < a.1))

def showVocab (v : List String) : String := if v.isEmpty then "-" else showList showWord v

structure Req where
  nmin : Nat
  nmax : Nat
  fitted : Fitted String

/-- settings + training corpus → fitted vectoriser, or the error kind -/
def doFit (toks : List String) : Option (Except String Req) := do
  let nmin ← argNat toks "nmin"; let nmax ← argNat toks "nmax"
  let lo ← argF32 toks "lo"; let hi ← argF32 toks "hi"
  let stop ← argStop toks; let cap ← argCap toks
  let docs ← argDocs toks "fit"
  match checkParams nmin nmax lo hi with
  | some e => some (.error e)
  | none =>
    let grams := docs.map (docGrams strJoiner nmin nmax)
    let (a, b) := absBounds lo hi docs.length
    some (.ok ⟨nmin, nmax, fit byWord grams a b stop cap⟩)

def doFixed (toks : List String) : Option (Except String Req) := do
  let nmin ← argNat toks "nmin"; let nmax ← argNat toks "nmax"
  let lo ← argF32 toks "lo"; let hi ← argF32 toks "hi"
  let words ← argWords toks "vocab"
  match checkParams nmin nmax lo hi with
  | some e => some (.error e)
  | none => some (.ok ⟨nmin, nmax, fitVocabulary byWord words⟩)

def respCount (toks : List String) (r : Except String Req) : Option String := do
  let tr ← argDocs toks "tr"
  match r with
  | .error e => some ("err " ++ e)
  | .ok q =>
    let m := transform q.fitted (tr.map (docGrams strJoiner q.nmin q.nmax))
    some s!"ok n={q.fitted.vocabulary.length} vocab={showVocab q.fitted.vec} counts={showList2 toString m}"

def respTfIdf (toks : List String) (r : Except String Req) : Option String := do
  let tr ← argDocs toks "tr"
  let meth ← argMethod toks
  match r with
  | .error e => some ("err " ++ e)
  | .ok q =>
    let m : List (List Float) := transformTfIdf meth q.fitted (tr.map (docGrams strJoiner q.nmin q.nmax))
    some s!"ok n={q.fitted.vocabulary.length} vocab={showVocab q.fitted.vec} tfidf={showList2 (fun x => "~" ++ showF64c x) m}"

def handleNgrams (toks : List String) : Option String := do
  let nmin ← argNat toks "nmin"; let nmax ← argNat toks "nmax"
  let ws ← argWords toks "words"
  some ("ok " ++ showList2 showWord (ngramList strJoiner ws nmin nmax))

def handle (toks : List String) : String :=
  let r := match toks with
    | "count" :: rest => (doFit rest).bind (respCount rest)
    | "tfidf" :: rest => (doFit rest).bind (respTfIdf rest)
    | "fixed" :: rest => (doFixed rest).bind (respCount rest)
    | "fixed_tfidf" :: rest => (doFixed rest).bind (respTfIdf rest)
    | "ngrams" :: rest => handleNgrams rest
    | _ => none
  r.getD "bad-op"

end LinfaSpec.Drv.C17
