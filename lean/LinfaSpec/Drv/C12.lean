import LinfaSpec.Model.Proto
import LinfaSpec.Model.Scalar
import LinfaSpec.Model.Logistic
import LinfaSpec.Model.Glm

namespace LinfaSpec.Drv.C12
open LinfaSpec.Proto LinfaSpec.Logistic

def tf (x : Float) : String := "~" ++ showF64c x
def tfs (xs : List Float) : String := showList tf xs
def tfs2 (xs : List (List Float)) : String := showList2 tf xs

/-- the literal `1e-15` of `log_sum_exp`, the literal `1e-6` of the power dispatch -/
def eps15 : Float := 1e-15
def tol6 : Float := 1e-6

def showInt (x : Float) : String := toString x.toInt64

def handleLabel2 (toks : List String) : Option String := do
  let y ← argNats toks "y"
  match labelClasses (α := Float) y with
  | .error .tooMany => some "err TooManyClasses"
  | .error .tooFew => some "err TooFewClasses"
  | .ok r =>
    let cp := (y.filter (· == r.pos)).length
    let cn := (y.filter (· == r.neg)).length
    if cp == cn then
      -- equally frequent classes: compared up to the swap of positive/negative (targets start with +1)
      let t := match r.target with
        | a :: _ => if a < 0 then r.target.map (fun v => -v) else r.target
        | [] => r.target
      some s!"ok tie classes={min r.pos r.neg},{max r.pos r.neg} t={showList showInt t}"
    else some s!"ok pos={r.pos} neg={r.neg} t={showList showInt r.target}"

def handleLabelM (toks : List String) : Option String := do
  let y ← argNats toks "y"
  let (cl, oh) := labelClassesMulti (α := Float) y
  some s!"ok classes={showList toString cl} onehot={showList2 showInt oh}"

def handleSfn (toks : List String) : Option String := do
  let f ← arg toks "f"; let v ← argF64s toks "v"
  match f with
  | "logistic" => some ("ok " ++ tfs (v.map logistic))
  | "loglogistic" => some ("ok " ++ tfs (v.map logLogistic))
  | _ => none

def handleSoftmax (toks : List String) : Option String := do
  let v ← argF64s toks "v"
  some ("ok " ++ tfs (softmax v))

def handleLse (toks : List String) : Option String := do
  let m ← argF64s2 toks "m"
  some ("ok " ++ tfs (logSumExpRows eps15 m))

def handleLoss (toks : List String) : Option String := do
  let nf ← argNat toks "nf"; let x ← argF64s2 toks "x"; let y ← argF64s toks "y"
  let alpha ← argF64 toks "alpha"; let w ← argF64s toks "w"
  match logisticLoss nf x y alpha w with
  | none => some "panic"
  | some l => some ("ok " ++ tf l)

def handleGrad (toks : List String) : Option String := do
  let nf ← argNat toks "nf"; let x ← argF64s2 toks "x"; let y ← argF64s toks "y"
  let alpha ← argF64 toks "alpha"; let w ← argF64s toks "w"
  match logisticGrad nf x y alpha w with
  | none => some "panic"
  | some g => some ("ok " ++ tfs g)

def handleMLoss (toks : List String) : Option String := do
  let nf ← argNat toks "nf"; let k ← argNat toks "k"
  let x ← argF64s2 toks "x"; let y ← argF64s2 toks "y"
  let alpha ← argF64 toks "alpha"; let w ← argF64s2 toks "w"
  match multiLogisticLoss eps15 nf k x y alpha w with
  | none => some "panic"
  | some l => some ("ok " ++ tf l)

def handleMGrad (toks : List String) : Option String := do
  let nf ← argNat toks "nf"; let k ← argNat toks "k"
  let x ← argF64s2 toks "x"; let y ← argF64s2 toks "y"
  let alpha ← argF64 toks "alpha"; let w ← argF64s2 toks "w"
  match multiLogisticGrad eps15 nf k x y alpha w with
  | none => some "panic"
  | some g => some ("ok " ++ tfs2 g)

def minList (l : List Float) : Float := l.foldl (fun a b => if b < a then b else a) (1.0 / 0.0)

def handlePredict2 (toks : List String) : Option String := do
  let x ← argF64s2 toks "x"; let w ← argF64s toks "w"
  let b ← argF64 toks "b"; let thr ← argF64 toks "thr"
  let p := predictProba x w b
  let cls := predictBinary x w b thr (1 : Nat) 0
  let margin := minList (p.map fun q => (q - thr).abs)
  some s!"ok p={tfs p} cls={showList toString cls} margin={tf margin}"

/-- gap between the largest and the second largest entry (first maximum removed) -/
def topGap (row : List Float) : Float :=
  let i := argmax row
  let m := row.getD i 0
  let rest := (row.take i) ++ (row.drop (i + 1))
  minList (rest.map fun v => m - v)

def handlePredictM (toks : List String) : Option String := do
  let k ← argNat toks "k"
  let x ← argF64s2 toks "x"; let w ← argF64s2 toks "w"; let b ← argF64s toks "b"
  let p := predictProbaMulti k x w b
  let cls := predictMulti k x w b (List.range k)
  let margin := minList ((scores k x w b).map topGap)
  some s!"ok p={tfs2 p} cls={showList toString cls} margin={tf margin}"

/-! GLM -/
open LinfaSpec.Glm in
def parseLink (toks : List String) : Option Glm.Link := do
  let l ← argNat toks "l"
  match l with
  | 0 => some .identity
  | 1 => some .log
  | 2 => some .logit
  | _ => none

def handleInRange (toks : List String) : Option String := do
  let power ← argF64 toks "power"; let y ← argF64s toks "y"
  match Glm.inRange power y with
  | none => some "err InvalidTweediePower"
  | some b => some s!"ok {b}"

def handleDev (toks : List String) : Option String := do
  let power ← argF64 toks "power"; let y ← argF64s toks "y"; let yp ← argF64s toks "yp"
  match Glm.deviance Float.pow tol6 power y yp with
  | none => some "err InvalidTweediePower"
  | some d => some ("ok " ++ tf d)

def handleDDev (toks : List String) : Option String := do
  let power ← argF64 toks "power"; let y ← argF64s toks "y"; let yp ← argF64s toks "yp"
  some ("ok " ++ tfs (List.zipWith (Glm.unitDevianceDeriv Float.pow power) y yp))

def handleLink (toks : List String) : Option String := do
  let l ← parseLink toks; let v ← argF64s toks "v"
  some s!"ok inv={tfs (v.map (Glm.linkInverse l))} der={tfs (v.map (Glm.linkInverseDeriv l))}"

def lb7 : Float := 1e-7

def handleLinkF (toks : List String) : Option String := do
  let l ← parseLink toks; let v ← argF64s toks "v"
  some s!"ok link={tfs (v.map (Glm.linkFn l))} der={tfs (v.map (Glm.linkFnDeriv lb7 l))}"

/-- `deflink power=.. chosen=none|0|1|2`: index of the link `TweedieRegressorValidParams::link()` returns after
`check()`, answered THROUGH `Glm.checkedLink` (= the power test of `check` + `Glm.selectLink`) -/
def handleDefLink (toks : List String) : Option String := do
  let power ← argF64 toks "power"
  let c ← arg toks "chosen"
  let chosen : Option Glm.Link ← match c with
    | "none" => some none
    | "0" => some (some .identity)
    | "1" => some (some .log)
    | "2" => some (some .logit)
    | _ => none
  match Glm.checkedLink chosen power with
  | none => some "err InvalidTweediePower"
  | some .identity => some "ok 0"
  | some .log => some "ok 1"
  | some .logit => some "ok 2"

def handleGCost (toks : List String) : Option String := do
  let l ← parseLink toks
  let power ← argF64 toks "power"; let alpha ← argF64 toks "alpha"
  let icpt ← argNat toks "icpt"
  let x ← argF64s2 toks "x"; let y ← argF64s toks "y"; let p ← argF64s toks "p"
  match Glm.cost Float.pow tol6 power alpha l (icpt == 1) x y p with
  | none => some "err InvalidTweediePower"
  | some c => some ("ok " ++ tf c)

def handleGGrad (toks : List String) : Option String := do
  let l ← parseLink toks
  let power ← argF64 toks "power"; let alpha ← argF64 toks "alpha"
  let icpt ← argNat toks "icpt"; let nf ← argNat toks "nf"
  let x ← argF64s2 toks "x"; let y ← argF64s toks "y"; let p ← argF64s toks "p"
  some ("ok " ++ tfs (Glm.gradient Float.pow power alpha l (icpt == 1) nf x y p))

def handleGPredict (toks : List String) : Option String := do
  let l ← parseLink toks
  let x ← argF64s2 toks "x"; let c ← argF64s toks "coef"; let b ← argF64 toks "b"
  some ("ok " ++ tfs (Glm.predict l x c b))

def handle (toks : List String) : String :=
  let r := match toks with
    | "label2" :: rest => handleLabel2 rest
    | "labelm" :: rest => handleLabelM rest
    | "sfn" :: rest => handleSfn rest
    | "softmax" :: rest => handleSoftmax rest
    | "lse" :: rest => handleLse rest
    | "loss" :: rest => handleLoss rest
    | "grad" :: rest => handleGrad rest
    | "mloss" :: rest => handleMLoss rest
    | "mgrad" :: rest => handleMGrad rest
    | "predict2" :: rest => handlePredict2 rest
    | "predictm" :: rest => handlePredictM rest
    | "inrange" :: rest => handleInRange rest
    | "dev" :: rest => handleDev rest
    | "ddev" :: rest => handleDDev rest
    | "link" :: rest => handleLink rest
    | "linkf" :: rest => handleLinkF rest
    | "deflink" :: rest => handleDefLink rest
    | "gcost" :: rest => handleGCost rest
    | "ggrad" :: rest => handleGGrad rest
    | "gpredict" :: rest => handleGPredict rest
    | _ => none
  r.getD "bad-op"

end LinfaSpec.Drv.C12
