import LinfaSpec.Model.Proto
import LinfaSpec.Model.Scalar
import LinfaSpec.Model.Dbscan
import LinfaSpec.Model.Optics

namespace LinfaSpec.Drv.C08
open LinfaSpec.Proto

/-- neighbour function from the recorded `within_range` results (`nb=`, one inner list per point) -/
def nbrsOf (nb : Array (List Nat)) (i : Nat) : List Nat := nb[i]?.getD []

/-- the part of a DBSCAN labelling the statement fixes (same function as `canon_labels` in
harness/src/c08.rs): noise `-`; core samples by cluster, clusters renumbered by their first core
sample; a border sample by the cluster of the core samples in its query result, `b` if those carry two
different labels, `?<raw>` if its label is not among them. -/
def canonLabels (nb : Array (List Nat)) (mp : Nat) (labels : List (Option Nat)) : String :=
  let n := labels.length
  let lab := labels.toArray
  let core (i : Nat) : Bool := match nb[i]? with
    | some l => decide (mp ≤ l.length)
    | none => false
  let ren : List Nat := (List.range n).foldl (fun acc i =>
    match core i, (lab[i]?.getD none) with
    | true, some c => if acc.contains c then acc else acc ++ [c]
    | _, _ => acc) []
  let new (c : Nat) : String := match ren.idxOf? c with
    | some k => toString k
    | none => "?" ++ toString c
  let tok (i : Nat) : String :=
    match lab[i]?.getD none with
    | none => "-"
    | some c =>
      if core i then new c
      else
        let ls : List Nat := ((nb[i]?.getD []).filter fun j => decide (j < n) && core j).filterMap
          fun j => lab[j]?.getD none
        let ds := ls.eraseDups
        if !ds.contains c then "?" ++ toString c
        else if ds.length ≥ 2 then "b"
        else new c
  ",".intercalate ((List.range n).map tok)

/-- `dbscan n= mp= zd= nb= form=`: canonical labels, the number of clusters `c` (the model's final
`current_cluster_id`, the `c` of `dbscan_ids_contiguous`) and, for `form=dataset`, whether the records came
back: that form is answered THROUGH `Dbscan.transformDataset` (records = the row count `n`, old targets 7). -/
def handleDbscan (toks : List String) : Option String := do
  let n ← argNat toks "n"; let mp ← argNat toks "mp"; let zd ← argNat toks "zd"
  let nb ← argNats2 toks "nb"
  let form ← arg toks "form"
  if zd = 0 ∧ nb.length ≠ n then none
  let f : Option (Nat → List Nat) := if zd = 1 then none else some (nbrsOf nb.toArray)
  let c : Nat := match f with
    | none => 0
    | some g => (Dbscan.run g mp n).2
  let nba := if zd = 1 then #[] else nb.toArray
  match form with
  | "array" => some ("ok " ++ canonLabels nba mp (Dbscan.dbscan f mp n) ++ s!" c={c}")
  | "dataset" =>
    let r := Dbscan.transformDataset (R := Nat) (T := Nat) (fun _ => f) id mp (n, 7)
    some ("ok " ++ canonLabels nba mp r.2 ++ s!" c={c}" ++ (if r.1 == n then " rec=1" else " rec=0"))
  | _ => none

/-- distance function from a full matrix (`dm=`, one row per sample); an entry outside the matrix is NaN,
which is in range of nothing -/
def distOf (dm : Array (Array Float)) (i j : Nat) : Float :=
  match dm[i]? with
  | some r => r[j]?.getD (0.0 / 0.0)
  | none => 0.0 / 0.0

/-- `dbscanrq n= mp= tol= dm=`: DBSCAN in the terms of the definition — the neighbourhood is
`Dbscan.rangeQuery dist tol n` (the function `dbscan_labelled_iff_metric` / `dbscan_clauses_metric` are
about), `dist` the full matrix of distances the real `dist_fn` computed.  Prints the neighbourhoods too:
they are what the linear scan returns, in its order. -/
def handleDbscanRq (toks : List String) : Option String := do
  let n ← argNat toks "n"; let mp ← argNat toks "mp"
  let tol ← argF64 toks "tol"; let dm ← argF64s2 toks "dm"
  if dm.length ≠ n ∨ dm.any (fun r => r.length != n) then none
  let dist := distOf (dm.map List.toArray).toArray
  let rq := Dbscan.rangeQuery dist tol n
  let nb := (List.range n).map rq
  some ("ok nb=" ++ showList2 toString nb ++ " " ++ canonLabels nb.toArray mp (Dbscan.dbscan (some rq) mp n)
    ++ s!" c={(Dbscan.run rq mp n).2}")

def showOpt : Option Float → String
  | none => "-"
  | some x => showF64 x

/-- replay of the model's own ordering with the model's own `getSeeds`: was there, at the moment a
sample was taken from the seed list, another seed with the same reachability?  Then the order is
decided by a tie-break the statement does not fix. -/
def hasTie (nbrs : Nat → List Nat) (dist : Nat → Nat → Float) (n : Nat) (out : List (Optics.Entry Float)) : Bool :=
  let st := out.foldl (fun (st : List (Optics.Pt Float) × List Bool × Bool) e =>
    let (pts, processed, tie) := st
    let mine := Optics.getReach pts e.index
    let tieNow := match mine with
      | none => false
      | some r => (List.range n).any fun j =>
          j != e.index && !Optics.isProcessed processed j &&
            (match Optics.getReach pts j with
             | some s => s == r
             | none => false)
    let processed := processed.set e.index true
    let pts := match e.core with
      | some cd => (Optics.getSeeds dist e.index cd (Optics.findNeighbors nbrs dist e.index) processed pts []).1
      | none => pts
    (pts, processed, tie || tieNow))
    ((Optics.init (D := Float) n).pts, (Optics.init (D := Float) n).processed, false)
  st.2.2

/-- `optics n= mp= zd= nb= nd=`: `nd` is aligned with `nb` (`nd[i][k]` = distance between
point `i` and point `nb[i][k]`, as computed by the real `dist_fn`; the metrics are bitwise
symmetric, so the pair is looked up in either row). -/
def handleOptics (toks : List String) : Option String := do
  let n ← argNat toks "n"; let mp ← argNat toks "mp"; let zd ← argNat toks "zd"
  let nb ← argNats2 toks "nb"; let nd ← argF64s2 toks "nd"
  if zd = 0 ∧ (nb.length ≠ n ∨ nd.length ≠ n) then none
  if (nb.zip nd).any (fun (a, b) => a.length != b.length) then none
  let nba := nb.toArray
  let tab : Array (List (Nat × Float)) := ((nb.zip nd).map fun (a, b) => a.zip b).toArray
  let look (i j : Nat) : Option Float := ((tab[i]?.getD []).find? fun p => p.1 == j).map (·.2)
  let nan : Float := 0.0 / 0.0
  let dist (i j : Nat) : Float := ((look i j).orElse fun _ => look j i).getD nan
  let f : Option (Nat → List Nat) := if zd = 1 then none else some (nbrsOf nba)
  let out := Optics.optics f dist mp n
  -- a pair the model asked for was not recorded (or a recorded distance is NaN): never default silently
  if out.any (fun e => e.core.any Float.isNaN || e.reach.any Float.isNaN) then none
  let tie := if zd = 1 then false else hasTie (nbrsOf nba) dist n out
  let margin : Float := if tie then 0.0 else 1.0
  some ("ok " ++ ";".intercalate (out.map fun e => s!"{e.index}:{showOpt e.core}:{showOpt e.reach}")
    ++ " margin=~" ++ showF64 margin)

/-- `opticsrq n= mp= tol= dm=`: OPTICS in the terms of the definition, through `Dbscan.rangeQuery` (the
function `optics_*_metric` are about) -/
def handleOpticsRq (toks : List String) : Option String := do
  let n ← argNat toks "n"; let mp ← argNat toks "mp"
  let tol ← argF64 toks "tol"; let dm ← argF64s2 toks "dm"
  if dm.length ≠ n ∨ dm.any (fun r => r.length != n) then none
  let dist := distOf (dm.map List.toArray).toArray
  let rq := Dbscan.rangeQuery dist tol n
  let out := Optics.optics (some rq) dist mp n
  let margin : Float := if hasTie rq dist n out then 0.0 else 1.0
  some ("ok " ++ ";".intercalate (out.map fun e => s!"{e.index}:{showOpt e.core}:{showOpt e.reach}")
    ++ " margin=~" ++ showF64 margin)

/-- what the `params` response shows of a tolerance: `unbounded` from the largest finite value of the scalar
type on (`F::infinity()` in the code, `f64::MAX` in the doc comment of `Optics::params` — the same
neighbourhoods on finite records) -/
def showTolP (maxFinite : Float) (x : Float) : String :=
  if x.isNaN then "nan" else if x ≥ maxFinite then "unbounded" else showF64 x

/-- `params algo= ty= mp= tol= notol=`: constructor default, `.tolerance`, then `Params.check` of the model
(the function `*_params_check_generic/_iff/_error` are about).  Which of the two errors is reported when
BOTH parameters are invalid is not part of any promise: written `err invalid`.  OPTICS reports one error
kind (`InvalidValue`) for either. -/
def handleParams (toks : List String) : Option String := do
  let algo ← arg toks "algo"; let ty ← arg toks "ty"
  let mp ← argNat toks "mp"; let notol ← argNat toks "notol"
  let tolS ← arg toks "tol"
  let nan : Float := 0.0 / 0.0
  let tol ← if tolS == "nan" then some nan else parseF64 tolS
  -- `F::cast(1e-4)` / `F::infinity()`
  let small : Float ← match ty with
    | "f64" => some (1e-4 : Float)
    | "f32" => some ((1e-4 : Float).toFloat32.toFloat)
    | _ => none
  let maxFinite : Float := if ty == "f32" then 3.4028234663852886e38 else 1.7976931348623157e308
  let inf : Float := 1.0 / 0.0
  match algo with
  | "dbscan" =>
    let p0 := Dbscan.Params.new small mp
    let p := if notol = 1 then p0 else p0.withTolerance tol
    let both := decide (p.minPoints ≤ 1) && decide (p.tolerance ≤ 0)
    match p.check with
    | .ok v => some s!"ok mp={v.minPoints} tol={showTolP maxFinite v.tolerance}"
    | .error e => if both then some "err invalid" else
        match e with
        | .minPoints => some "err MinPoints"
        | .tolerance => some "err Tolerance"
  | "optics" =>
    let p0 := Optics.Params.new inf mp
    let p := if notol = 1 then p0 else p0.withTolerance tol
    match p.check with
    | .ok v => some s!"ok mp={v.minPoints} tol={showTolP maxFinite v.tolerance}"
    | .error _ => some "err InvalidValue"
  | _ => none

def handle (toks : List String) : String :=
  let r := match toks with
    | "dbscan" :: rest => handleDbscan rest
    | "optics" :: rest => handleOptics rest
    | "dbscanrq" :: rest => handleDbscanRq rest
    | "opticsrq" :: rest => handleOpticsRq rest
    | "params" :: rest => handleParams rest
    | _ => none
  r.getD "bad-op"

end LinfaSpec.Drv.C08
