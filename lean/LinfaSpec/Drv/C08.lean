import LinfaSpec.Model.Proto
import LinfaSpec.Model.Scalar
import LinfaSpec.Model.Dbscan
import LinfaSpec.Model.Optics

namespace LinfaSpec.Drv.C08
open LinfaSpec.Proto

/-- neighbour function from the recorded `within_range` results (`nb=`, one inner list per point) -/
def nbrsOf (nb : Array (List Nat)) (i : Nat) : List Nat := nb[i]?.getD []

/-- the part of a DBSCAN labelling the statement fixes (same function as `canon_labels` in
harness/src/c08.rs): noise `-`; core samples by cluster, clusters renumbered by their first core
sample; a border sample by the cluster of the core samples in its query result, `b` if those carry two
different labels, `?<raw>` if its label is not among them. -/
def canonLabels (nb : Array (List Nat)) (mp : Nat) (labels : List (Option Nat)) : String :=
  let n := labels.length
  let lab := labels.toArray
  let core (i : Nat) : Bool := match nb[i]? with
    | some l => decide (mp ≤ l.length)
    | none => false
  let ren : List Nat := (List.range n).foldl (fun acc i =>
    match core i, (lab[i]?.getD none) with
    | true, some c => if acc.contains c then acc else acc ++ [c]
    | _, _ => acc) []
  let new (c : Nat) : String := match ren.idxOf? c with
    | some k => toString k
    | none => "?" ++ toString c
  let tok (i : Nat) : String :=
    match lab[i]?.getD none with
    | none => "-"
    | some c =>
      if core i then new c
      else
        let ls : List Nat := ((nb[i]?.getD []).filter fun j => decide (j < n) && core j).filterMap
          fun j => lab[j]?.getD none
        let ds := ls.eraseDups
        if !ds.contains c then "?" ++ toString c
        else if ds.length ≥ 2 then "b"
        else new c
  ",".intercalate ((List.range n).map tok)

/-- `dbscan n= mp= zd= nb=`: canonical labels -/
def handleDbscan (toks : List String) : Option String := do
  let n ← argNat toks "n"; let mp ← argNat toks "mp"; let zd ← argNat toks "zd"
  let nb ← argNats2 toks "nb"
  if zd = 0 ∧ nb.length ≠ n then none
  let f : Option (Nat → List Nat) := if zd = 1 then none else some (nbrsOf nb.toArray)
  some ("ok " ++ canonLabels (if zd = 1 then #[] else nb.toArray) mp (Dbscan.dbscan f mp n))

def showOpt : Option Float → String
  | none => "-"
  | some x => showF64 x

/-- replay of the model's own ordering with the model's own `getSeeds`: was there, at the moment a
sample was taken from the seed list, another seed with the same reachability?  Then the order is
decided by a tie-break the statement does not fix. -/
def hasTie (nbrs : Nat → List Nat) (dist : Nat → Nat → Float) (n : Nat) (out : List (Optics.Entry Float)) : Bool :=
  let st := out.foldl (fun (st : List (Optics.Pt Float) × List Bool × Bool) e =>
    let (pts, processed, tie) := st
    let mine := Optics.getReach pts e.index
    let tieNow := match mine with
      | none => false
      | some r => (List.range n).any fun j =>
          j != e.index && !Optics.isProcessed processed j &&
            (match Optics.getReach pts j with
             | some s => s == r
             | none => false)
    let processed := processed.set e.index true
    let pts := match e.core with
      | some cd => (Optics.getSeeds dist e.index cd (Optics.findNeighbors nbrs dist e.index) processed pts []).1
      | none => pts
    (pts, processed, tie || tieNow))
    ((Optics.init (D := Float) n).pts, (Optics.init (D := Float) n).processed, false)
  st.2.2

/-- `optics n= mp= zd= nb= nd=`: `nd` is aligned with `nb` (`nd[i][k]` = distance between
point `i` and point `nb[i][k]`, as computed by the real `dist_fn`; the metrics are bitwise
symmetric, so the pair is looked up in either row). -/
def handleOptics (toks : List String) : Option String := do
  let n ← argNat toks "n"; let mp ← argNat toks "mp"; let zd ← argNat toks "zd"
  let nb ← argNats2 toks "nb"; let nd ← argF64s2 toks "nd"
  if zd = 0 ∧ (nb.length ≠ n ∨ nd.length ≠ n) then none
  if (nb.zip nd).any (fun (a, b) => a.length != b.length) then none
  let nba := nb.toArray
  let tab : Array (List (Nat × Float)) := ((nb.zip nd).map fun (a, b) => a.zip b).toArray
  let look (i j : Nat) : Option Float := ((tab[i]?.getD []).find? fun p => p.1 == j).map (·.2)
  let nan : Float := 0.0 / 0.0
  let dist (i j : Nat) : Float := ((look i j).orElse fun _ => look j i).getD nan
  let f : Option (Nat → List Nat) := if zd = 1 then none else some (nbrsOf nba)
  let out := Optics.optics f dist mp n
  let tie := if zd = 1 then false else hasTie (nbrsOf nba) dist n out
  let margin : Float := if tie then 0.0 else 1.0
  some ("ok " ++ ";".intercalate (out.map fun e => s!"{e.index}:{showOpt e.core}:{showOpt e.reach}")
    ++ " margin=~" ++ showF64 margin)

def showTol (x : Float) : String := if x.isNaN then "nan" else showF64 x

/-- `params algo= ty= mp= tol= notol=`: constructor default, `.tolerance`, `check` -/
def handleParams (toks : List String) : Option String := do
  let algo ← arg toks "algo"; let ty ← arg toks "ty"
  let mp ← argNat toks "mp"; let notol ← argNat toks "notol"
  let tolS ← arg toks "tol"
  let nan : Float := 0.0 / 0.0
  let tol ← if tolS == "nan" then some nan else parseF64 tolS
  -- `F::cast(1e-4)` / `F::infinity()`
  let small : Float ← match ty with
    | "f64" => some (1e-4 : Float)
    | "f32" => some ((1e-4 : Float).toFloat32.toFloat)
    | _ => none
  let inf : Float := 1.0 / 0.0
  match algo with
  | "dbscan" =>
    let p0 := Dbscan.Params.new small mp
    let p := if notol = 1 then p0 else p0.withTolerance tol
    match p.check with
    | .ok v => some s!"ok mp={v.minPoints} tol={showTol v.tolerance}"
    | .error .minPoints => some "err MinPoints"
    | .error .tolerance => some "err Tolerance"
  | "optics" =>
    let p0 := Optics.Params.new inf mp
    let p := if notol = 1 then p0 else p0.withTolerance tol
    match p.check with
    | .ok v => some s!"ok mp={v.minPoints} tol={showTol v.tolerance}"
    | .error .minPoints => some "err MinPoints"
    | .error .tolerance => some "err Tolerance"
  | _ => none

def handle (toks : List String) : String :=
  let r := match toks with
    | "dbscan" :: rest => handleDbscan rest
    | "optics" :: rest => handleOptics rest
    | "params" :: rest => handleParams rest
    | _ => none
  r.getD "bad-op"

end LinfaSpec.Drv.C08
