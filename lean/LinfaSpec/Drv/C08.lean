import LinfaSpec.Model.Proto
import LinfaSpec.Model.Scalar
import LinfaSpec.Model.Dbscan
import LinfaSpec.Model.Optics

namespace LinfaSpec.Drv.C08
open LinfaSpec.Proto

/-- neighbour function from the recorded `within_range` results (`nb=`, one inner list per point) -/
def nbrsOf (nb : Array (List Nat)) (i : Nat) : List Nat := nb[i]?.getD []

def showLabel : Option Nat → String
  | none => "-"
  | some c => toString c

/-- `dbscan n= mp= zd= nb=`: labels, `-` for noise -/
def handleDbscan (toks : List String) : Option String := do
  let n ← argNat toks "n"; let mp ← argNat toks "mp"; let zd ← argNat toks "zd"
  let nb ← argNats2 toks "nb"
  if zd = 0 ∧ nb.length ≠ n then none
  let f : Option (Nat → List Nat) := if zd = 1 then none else some (nbrsOf nb.toArray)
  some ("ok " ++ showList showLabel (Dbscan.dbscan f mp n))

def showOpt : Option Float → String
  | none => "-"
  | some x => showF64 x

/-- `optics n= mp= zd= nb= nd=`: `nd` is aligned with `nb` (`nd[i][k]` = distance between
point `i` and point `nb[i][k]`, as computed by the real `dist_fn`; the metrics are bitwise
symmetric, so the pair is looked up in either row). -/
def handleOptics (toks : List String) : Option String := do
  let n ← argNat toks "n"; let mp ← argNat toks "mp"; let zd ← argNat toks "zd"
  let nb ← argNats2 toks "nb"; let nd ← argF64s2 toks "nd"
  if zd = 0 ∧ (nb.length ≠ n ∨ nd.length ≠ n) then none
  if (nb.zip nd).any (fun (a, b) => a.length != b.length) then none
  let nba := nb.toArray
  let tab : Array (List (Nat × Float)) := ((nb.zip nd).map fun (a, b) => a.zip b).toArray
  let look (i j : Nat) : Option Float := ((tab[i]?.getD []).find? fun p => p.1 == j).map (·.2)
  let nan : Float := 0.0 / 0.0
  let dist (i j : Nat) : Float := ((look i j).orElse fun _ => look j i).getD nan
  let f : Option (Nat → List Nat) := if zd = 1 then none else some (nbrsOf nba)
  let out := Optics.optics f dist mp n
  some ("ok " ++ ";".intercalate (out.map fun e => s!"{e.index}:{showOpt e.core}:{showOpt e.reach}"))

def handle (toks : List String) : String :=
  let r := match toks with
    | "dbscan" :: rest => handleDbscan rest
    | "optics" :: rest => handleOptics rest
    | _ => none
  r.getD "bad-op"

end LinfaSpec.Drv.C08
