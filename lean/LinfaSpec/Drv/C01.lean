import LinfaSpec.Model.Proto
import LinfaSpec.Model.Fold
import LinfaSpec.Model.Scalar

namespace LinfaSpec.Drv.C01
open LinfaSpec.Proto LinfaSpec.Fold

/-- tagged dataset shared with the harness: record cell `(id, j)` is `id*p+j`,
target cell `(id, c)` is `100000 + id*t + c`. -/
def recRows (n p : Nat) : List (List Nat) :=
  (List.range n).map fun id => (List.range p).map fun j => id * p + j
def tgtRows (n t : Nat) : List (List Nat) :=
  (List.range n).map fun id => (List.range t).map fun c => 100000 + id * t + c

def showRows (r : List (List Nat)) : String := showList2 toString r

def handleFold (toks : List String) : Option String := do
  let n ← argNat toks "n"; let k ← argNat toks "k"
  let p ← argNat toks "p"; let t ← argNat toks "t"
  match foldPairs k (recRows n p), foldPairs k (tgtRows n t) with
  | some fr, some ft =>
    let parts := (fr.zip ft).map fun ((trR, vaR), (trT, vaT)) =>
      s!"TR:{showRows trR}/TT:{showRows trT}/VR:{showRows vaR}/VT:{showRows vaT}"
    some ("ok " ++ " ".intercalate parts)
  | _, _ => some "panic"

def handleIterFold (toks : List String) : Option String := do
  let n ← argNat toks "n"; let k ← argNat toks "k"
  let p ← argNat toks "p"; let t ← argNat toks "t"
  match iterFold n k p t (recRows n p).flatten (tgtRows n t).flatten with
  | none => some "panic"
  | some o =>
    let sh := fun (x : List Nat × List Nat) => s!"{showList toString x.1}/{showList toString x.2}"
    some (s!"ok trains={" ".intercalate (o.trains.map sh)} valids={" ".intercalate (o.valids.map sh)} " ++
      s!"final={showList toString o.finalR}/{showList toString o.finalT}")

/-- scripted outcome tables: `fit=` list2 `[fold][model]` of codes (0 = ok),
`ev=` list2 `[fold][model]` of codes (0 = ok), `vals=` list3
`[fold][model][target]` of integers `q` standing for `q/4`. -/
def handleCv (toks : List String) : Option String := do
  let k ← argNat toks "k"; let m ← argNat toks "m"; let t ← argNat toks "t"
  let fit ← argNats2 toks "fit"; let ev ← argNats2 toks "ev"
  let vals ← (arg toks "vals").bind (parseList3 parseInt)
  let folds := (fit.zip (ev.zip vals)).map fun (fr, er, vr) =>
    (fr.map (fun c => if c = 0 then Except.ok () else Except.error s!"fit:{c}"),
     (er.zip vr).map (fun (c, v) =>
        if c = 0 then Except.ok (v.map fun q => Float.ofInt q / 4) else Except.error s!"eval:{c}"))
  match crossValidate (σ := Float) k m t folds with
  | .error e => some ("err " ++ e)
  | .ok res => some ("ok " ++ showList2 showF64 res)

def handle (toks : List String) : String :=
  let r := match toks with
    | "fold" :: rest => handleFold rest
    | "iter_fold" :: rest => handleIterFold rest
    | "cv" :: rest => handleCv rest
    | _ => none
  r.getD "bad-op"

end LinfaSpec.Drv.C01
