import LinfaSpec.Model.Proto
import LinfaSpec.Model.Fold
import LinfaSpec.Model.Scalar

namespace LinfaSpec.Drv.C01
open LinfaSpec.Proto LinfaSpec.Fold

/-- tagged dataset shared with the harness: record cell `(id, j)` is `id*p+j`,
target cell `(id, c)` is `100000 + id*t + c`.  The model works on the LOGICAL rows: the
request's memory layout (`lr=`/`lt=`), element type (`er=`/`et=`) and storage kind (`own=`)
do not enter `fold` at all, and enter `iter_fold` only through the two flags `sr=` / `st=`
("`as_slice_mut()` is `Some`") that the harness probes on a twin array and sends along. -/
def recRows (n p : Nat) : List (List Nat) :=
  (List.range n).map fun id => (List.range p).map fun j => id * p + j
def tgtRows (n t : Nat) : List (List Nat) :=
  (List.range n).map fun id => (List.range t).map fun c => 100000 + id * t + c
/-- labels of the `fold_counted` requests: `(id² + 3c + id/3) mod 4` -/
def labRows (n t : Nat) : List (List Nat) :=
  (List.range n).map fun id => (List.range t).map fun c => (id * id + 3 * c + id / 3) % 4

def showRows (r : List (List Nat)) : String := showList2 toString r

/-- the statement promises the training part as a multiset of (record, target) rows: both sides
print it in the canonical order (record ids are distinct, so the first cell of the row pair —
the first record cell, or the first target cell when the records have no columns — is a key) -/
def sortPaired (r t : List (List Nat)) : List (List Nat) × List (List Nat) :=
  if r.length ≠ t.length then (r, t) else
  ((r.zip t).mergeSort (fun a b => (a.1 ++ a.2).headD 0 ≤ (b.1 ++ b.2).headD 0)).unzip

/-- linear-time split of a flat row-major buffer into rows of `p` cells -/
def rowsOf (p : Nat) (l : List Nat) : List (List Nat) :=
  let rec go : Nat → List Nat → Array (List Nat) → List (List Nat)
    | 0, _, acc => acc.toList
    | f + 1, l, acc => if l.isEmpty then acc.toList else go f (l.drop p) (acc.push (l.take p))
  go l.length l #[]

def guardOk (n k : Nat) : Bool := 2 ≤ k && k ≤ n

/-- `n` rows of width `p` out of a flat buffer (`p = 0`: `n` empty rows) -/
def rowsN (n p : Nat) (l : List Nat) : List (List Nat) :=
  if p = 0 then List.replicate n [] else rowsOf p l

def handleFold (toks : List String) : Option String := do
  let n ← argNat toks "n"; let k ← argNat toks "k"
  let p ← argNat toks "p"; let t ← argNat toks "t"
  -- outside the property's guard nothing is promised: exercised by the harness, not compared
  if !guardOk n k then some "unguarded" else
  -- `DatasetBase::fold` as the code runs it: one fold size (from the targets) for both containers
  match foldDataset k (recRows n p) (tgtRows n t) with
  | some ps =>
    let parts := ps.map fun ((trR, trT), (vaR, vaT)) =>
      let (a, b) := sortPaired trR trT
      s!"TR:{showRows a}/TT:{showRows b}/VR:{showRows vaR}/VT:{showRows vaT}"
    some ("ok " ++ " ".intercalate parts)
  | none => some "panic"

def column (rows : List (List Nat)) (c : Nat) : List Nat := rows.map fun r => r.getD c 0

def handleFoldCounted (toks : List String) : Option String := do
  let n ← argNat toks "n"; let k ← argNat toks "k"
  let p ← argNat toks "p"; let t ← argNat toks "t"
  if !guardOk n k then some "unguarded" else
  let labs := labRows n t
  -- `CountedTargets::new_targets`: one recounted map per target column, per part
  let cols ← (List.range t).mapM fun c => foldCounted k (column labs c)
  match foldDataset k (recRows n p) labs with
  | some ps =>
    let parts := (List.range k).map fun i =>
      let ((trR, trT), (vaR, vaT)) := ps.getD i (([], []), ([], []))
      let cnt := fun (pick : (List Nat × (Nat → Nat)) × (List Nat × (Nat → Nat)) → (Nat → Nat)) =>
        cols.map fun col => match col[i]? with
          | some pr => (List.range 4).map (pick pr)
          | none => []
      let (a, b) := sortPaired trR trT
      s!"TR:{showRows a}/TT:{showRows b}/CT:{showRows (cnt (·.1.2))}/VR:{showRows vaR}/VT:{showRows vaT}/CV:{showRows (cnt (·.2.2))}"
    some ("ok " ++ " ".intercalate parts)
  | none => some "panic"

/-- `sr=` / `st=`: does `as_slice_mut()` answer `Some` for the records / targets array the harness
built (probed on a twin array through ndarray, not through linfa) -/
def argFlag (toks : List String) (key : String) : Option Bool := do
  let v ← argNat toks key
  if v = 0 then some false else if v = 1 then some true else none

/-- every `iter_fold` request goes through `iterFoldLayout`: the three documented panics
(`k = 0`, `k > n`, not contiguous in standard order) are answered `panic` by the model too -/
def handleIterFold (toks : List String) : Option String := do
  let n ← argNat toks "n"; let k ← argNat toks "k"
  let p ← argNat toks "p"; let t ← argNat toks "t"
  let sr ← argFlag toks "sr"; let st ← argFlag toks "st"
  match iterFoldLayout sr st n k p t (recRows n p).flatten (tgtRows n t).flatten with
  | none => some "panic"
  | some o =>
    let fs := n / k
    let sh := fun (x : List Nat × List Nat) => s!"{showList toString x.1}/{showList toString x.2}"
    let shSorted := fun (x : List Nat × List Nat) =>
      let (a, b) := sortPaired (rowsN (n - fs) p x.1) (rowsN (n - fs) t x.2)
      sh (a.flatten, b.flatten)
    some (s!"ok trains={" ".intercalate (o.trains.map shSorted)} valids={" ".intercalate (o.valids.map sh)} " ++
      s!"final={showList toString o.finalR}/{showList toString o.finalT}")

local instance : NatCast Float32 := ⟨Float32.ofNat⟩

/-- fold index a mock reads off the training view it is handed (as the harness' mock does):
smallest record id that is missing, divided by the fold size -/
def foldOfTrain (n k p : Nat) (trR : List Nat) : Nat :=
  let present := (rowsOf p trR).foldl (fun (a : Array Bool) r => a.set! (r.headD 0 / p) true)
    (Array.replicate n false)
  let missing := (List.range n).find? (fun i => !(present.getD i true)) |>.getD 0
  min (missing / (n / k)) (k - 1)

/-- scripted cross-validation THROUGH the model's `iter_fold`: the mock parameter sets and the
mock evaluation look up their scripted outcome by the fold they recognise in the training /
validation view the model hands them.  `fit=` list2 `[fold][model]` of codes (0 = ok), `ev=`
likewise, `vals=` list3 `[fold][model][target]` of integers `q` standing for `q/den` (`den=4`:
exact quarter units; `den=10`: scores that are not representable, so every addition rounds). -/
def runCv {σ} [Add σ] [Div σ] [OfNat σ 0] [NatCast σ] (ofQuarter : Int → σ) (shw : σ → String)
    (sr st : Bool) (n k p t m : Nat) (single : Bool)
    (fit ev : List (List Nat)) (vals : List (List (List Int))) : String :=
  let params : List (List Nat × List Nat → Except String (Nat × Nat)) :=
    (List.range m).map fun mi => fun tr =>
      let f := foldOfTrain n k p tr.1
      let c := (fit.getD f []).getD mi 0
      if c = 0 then .ok (f, mi) else .error s!"fit:{c}"
  let cell : Nat × Nat → List Nat × List Nat → Except String (List σ) := fun md va =>
    -- the fold the validation targets belong to must be the fold the model was fitted on
    let f := min (((va.2.headD 100000 - 100000) / t) / (n / k)) (k - 1)
    if f ≠ md.1 then .error "model-glue-mismatch" else
    let c := (ev.getD f []).getD md.2 0
    if c = 0 then .ok (((vals.getD f []).getD md.2 []).map ofQuarter) else .error s!"eval:{c}"
  let failing := (fit.flatten.filter (· ≠ 0)).length + (ev.flatten.filter (· ≠ 0)).length
  let recs := (recRows n p).flatten
  let tgts := (tgtRows n t).flatten
  let out : Option (Except String (List (List σ)) × List Nat × List Nat) :=
    if single then
      (crossValidateSingleOn sr st n k p recs tgts params
        (fun md va => match cell md va with | .ok v => .ok (v.headD 0) | .error e => .error e)).map
        fun (r, a, b) => (match r with | .ok v => .ok (v.map ([·])) | .error e => .error e, a, b)
    else
      (crossValidateOn sr st n k p t recs tgts params cell t).map fun o => (o.result, o.finalR, o.finalT)
  match out with
  | none => "panic"
  | some (res, fr, ft) =>
    if fr ≠ recs ∨ ft ≠ tgts then "model-not-restored" else
    match res with
    | .error e => if failing > 1 then "err one-of-scripted" else "err " ++ e
    | .ok rows => "ok " ++ showList2 shw rows

/-- `cv` (f64 accumulator) and `cv32` (f32 accumulator) requests: all `k` are compared (the
documented panics of `iter_fold` included); scores are printed as `~`-tokens (f32 widened) -/
def handleCv (want32 : Bool) (toks : List String) : Option String := do
  let n ← argNat toks "n"; let k ← argNat toks "k"; let p ← argNat toks "p"
  let m ← argNat toks "m"; let t ← argNat toks "t"
  let single ← argNat toks "single"; let acc ← argNat toks "acc"
  let sr ← argFlag toks "sr"; let st ← argFlag toks "st"
  let den ← argNat toks "den"
  let fit ← argNats2 toks "fit"; let ev ← argNats2 toks "ev"
  let vals ← (arg toks "vals").bind (parseList3 parseInt)
  if den = 0 then none else
  if fit.length ≠ k ∨ ev.length ≠ k ∨ vals.length ≠ k then none else
  if acc = 64 ∧ !want32 then
    some (runCv (σ := Float) (fun q => Float.ofInt q / Float.ofNat den) (fun x => "~" ++ showF64 x)
      sr st n k p t m (single = 1) fit ev vals)
  else if acc = 32 ∧ want32 then
    some (runCv (σ := Float32) (fun q => Float32.ofInt q / Float32.ofNat den)
      (fun x => "~" ++ showF64 x.toFloat) sr st n k p t m (single = 1) fit ev vals)
  else none

def handle (toks : List String) : String :=
  let r := match toks with
    | "fold" :: rest => handleFold rest
    | "fold_counted" :: rest => handleFoldCounted rest
    | "iter_fold" :: rest => handleIterFold rest
    | "cv" :: rest => handleCv false rest
    | "cv32" :: rest => handleCv true rest
    | _ => none
  r.getD "bad-op"

end LinfaSpec.Drv.C01
