import LinfaSpec.Model.Proto
import LinfaSpec.Model.Scalar
import LinfaSpec.Model.Smo

namespace LinfaSpec.Drv.C13
open LinfaSpec.Proto LinfaSpec.Smo

/-- `F::cast(1e-10)` for `f64` -/
def tiny64 : Float := Float.ofBits 0x3ddb7cdfd9d7bdbb
/-- `f64::INFINITY` -/
def inf64 : Float := Float.ofBits 0x7ff0000000000000
/-- `F::cast(100.) * F::epsilon()` -/
def thr64 : Float := 100.0 * Float.ofBits 0x3cb0000000000000

local instance : NatCast Float32 := ⟨Float32.ofNat⟩

/-- the carrier the request asks for (`f=64` / `f=32`): conversions from/to the `f64` bit patterns
of the protocol (every value of a `f=32` request is representable in `f32`, so both are exact)
and the three float constants of the Rust code in that type -/
structure Num (α : Type) where
  ofF : Float → α
  toF : α → Float
  /-- `F::cast(1e-10)` -/
  tiny : α
  /-- `F::infinity()` -/
  inf : α
  /-- `F::cast(100.) * F::epsilon()` -/
  thr : α

def num64 : Num Float := ⟨id, id, tiny64, inf64, thr64⟩
def num32 : Num Float32 :=
  ⟨Float.toFloat32, Float32.toFloat, tiny64.toFloat32, Float32.ofBits 0x7f800000,
   (100.0 : Float32) * Float32.ofBits 0x34000000⟩

def parseBools (s : String) : Option (List Bool) :=
  (parseList parseNat s).map fun l => l.map (· != 0)

def showBools (l : List Bool) : String := showList (fun b => if b then "1" else "0") l

section
variable {α : Type} [Add α] [Sub α] [Mul α] [Div α] [Neg α] [LT α] [DecidableLT α]
  [LE α] [DecidableLE α] [OfNat α 0] [OfNat α 1] [NatCast α]

structure Problem (α : Type) where
  n : Nat
  lin : Bool
  /-- kernel tag evaluated by `weighted_sum`: 0 linear, 1 a tag the matrix does not come from
  (no decision values asked), 2 `Polynomial(1, 2)`, 3 `Polynomial(1, 1)` -/
  meth : Nat
  X : List (List α)
  /-- query points for `weighted_sum` -/
  Q : List (List α)
  env : Env α
  st : St α

def parseProblem (N : Num α) (toks : List String) : Option (Problem α) := do
  let n ← argNat toks "n"
  let lin ← argNat toks "lin"
  let X ← argF64s2 toks "X"
  let K ← argF64s2 toks "K"
  let y ← (arg toks "y").bind parseBools
  let p ← argF64s toks "p"
  let b ← argF64s toks "b"
  let a0 ← argF64s toks "a0"
  let eps ← argF64 toks "eps"
  let km := (argNat toks "km").getD 0
  let nu := (argNat toks "nu").getD 0
  let meth := (argNat toks "meth").getD (if lin != 0 then 0 else 1)
  let Q := match arg toks "q" with
    | some "none" => some []
    | some s => parseList2 parseF64 s
    | none => some []
  let Q ← Q
  if km > 2 || nu > 1 || meth > 3 then none else
  let m := if km == 2 then n / 2 else n
  if km == 2 && n % 2 != 0 then none else
  if K.length != m || X.length != m || y.length != n || p.length != n || b.length != n || a0.length != n then none else
  if K.any (·.length != m) then none else
  let c := fun (l : List Float) => l.map N.ofF
  let env : Env α := { K := K.map c, y0 := y, eps := N.ofF eps, tiny := N.tiny, inf := N.inf,
                       nu := nu != 0, kmode := km }
  some { n := n, lin := lin != 0, meth := meth, X := X.map c, Q := Q.map c, env := env,
         st := init env (c a0) (c p) (c b) y }

def showC (N : Num α) (x : α) : String := showF64c (N.toF x)

def dumpStr (N : Num α) (s : St α) : String :=
  s!"A={showList (showC N) s.alpha}/U={showList (showC N) s.ub}/G={showList (showC N) s.grad}/H={showList (showC N) s.gbar}" ++
  s!"/S={showList toString s.active}/N={s.nactive}/X={if s.unshrink then 1 else 0}/P={showList (showC N) s.p}" ++
  s!"/Y={showBools s.y}/B={showList (showC N) s.bounds}"

/-- one scripted step; `none` on an ill-formed token -/
def stepOne (N : Num α) (e : Env α) (s : St α) (tok : String) : Option (St α × String) :=
  match tok.splitOn "." with
  | ["u", a, b] => do
    let a ← a.toNat?; let b ← b.toNat?
    let na := s.nactive
    if na ≥ 2 then
      let i := a % na
      let j := b % na
      let j := if i == j then (i + 1) % na else j
      some (update e s i j, "")
    else some (s, "")
  | ["s", a, b] => do
    let a ← a.toNat?; let b ← b.toNat?
    let na := s.nactive
    if na ≥ 1 then some (swap s (a % na) (b % na), "") else some (s, "")
  | ["r"] => some (reconstructGradient e s, "")
  | ["d"] => some (doShrinking e s, "")
  | ["w"] =>
    let (i, j, opt) := selectWorkingSet e s
    let s' := if opt then s else update e s i j
    some (s', s!"/W={i}.{j}.{if opt then 1 else 0}")
  | ["h"] =>
    let r := if e.nu then s!"/r={showC N (calculateR e s)}" else ""
    some (s, s!"/R={showC N (calculateRho e s)}{r}")
  | _ => none

def handleStep (N : Num α) (toks : List String) : Option String := do
  let pr ← parseProblem N toks
  let script ← arg toks "script"
  let steps := splitOn' script ","
  let rec go (s : St α) (acc : List String) : List String → Option (List String)
    | [] => some acc.reverse
    | t :: rest => do
      let (s', extra) ← stepOne N pr.env s t
      go s' ((dumpStr N s' ++ extra) :: acc) rest
  let outs ← go pr.st [dumpStr N pr.st] steps
  some ("ok " ++ " ".intercalate outs)

/-- `KernelMethod::distance` for the tags the harness uses with exactly representable data:
`Linear` is the dot product, `Polynomial(1, 2)` is `(x·q + 1)^2`, `Polynomial(1, 1)` is `x·q + 1`
(a degree-1 polynomial with a constant is **not** `is_linear`: `solve` stores rows, `weighted_sum`
evaluates the kernel) -/
def kval (meth : Nat) (x q : List α) : α :=
  let d := dotS x q
  if meth == 2 then (d + 1) * (d + 1) else if meth == 3 then d + 1 else d

/-- `Svm::weighted_sum(q)` on the published model (`+ 0` canonicalises the sign of an empty sum) -/
def weightedSumAt (N : Num α) (pr : Problem α) (r : Solved α) (q : List α) : α :=
  (if pr.lin then dotS r.linear q
   else weightedSum N.thr r.alpha (r.support.map fun i => kval pr.meth (pr.X.getD i []) q)) + 0

def handleSolve (N : Num α) (toks : List String) : Option String := do
  let pr ← parseProblem N toks
  let shrink ← argNat toks "shrink"
  let fuel ← argNat toks "fuel"
  let d := (pr.X.headD []).length
  let r := solve pr.env N.thr (shrink != 0) fuel pr.X d pr.st
  if !r.finished || r.iterations ≥ fuel then some "ok longrun" else
  let w :=
    if pr.lin then s!"L:{showList (showC N) r.linear}"
    else
      let rows := r.support.map fun i => pr.X.getD i []
      "V:" ++ (if rows.isEmpty then "none" else showList2 (showC N) rows)
  let rr := if pr.env.nu then showC N r.r else "-"
  let ws := if pr.Q.isEmpty then "-" else showList (showC N) (pr.Q.map (weightedSumAt N pr r))
  some s!"ok it={r.iterations} thr=1 A={showList (showC N) r.alpha} rho={showC N r.rho} obj={showC N r.obj} {w} r={rr} ns={nsupport N.thr r.alpha} ws={ws}"

end

def handle (toks : List String) : String :=
  let f := (argNat toks "f").getD 64
  let r := match toks with
    | "step" :: rest => if f == 32 then handleStep num32 rest else if f == 64 then handleStep num64 rest else none
    | "solve" :: rest => if f == 32 then handleSolve num32 rest else if f == 64 then handleSolve num64 rest else none
    | _ => none
  r.getD "bad-op"

end LinfaSpec.Drv.C13
