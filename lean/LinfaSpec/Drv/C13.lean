import LinfaSpec.Model.Proto
import LinfaSpec.Model.Scalar
import LinfaSpec.Model.Smo

namespace LinfaSpec.Drv.C13
open LinfaSpec.Proto LinfaSpec.Smo

/-- `F::cast(1e-10)` for `f64` -/
def tiny64 : Float := Float.ofBits 0x3ddb7cdfd9d7bdbb
/-- `f64::INFINITY` -/
def inf64 : Float := Float.ofBits 0x7ff0000000000000
/-- `F::cast(100.) * F::epsilon()` -/
def thr64 : Float := 100.0 * Float.ofBits 0x3cb0000000000000

structure Problem where
  n : Nat
  lin : Bool
  X : List (List Float)
  env : Env Float
  st : St Float

def parseBools (s : String) : Option (List Bool) :=
  (parseList parseNat s).map fun l => l.map (· != 0)

def parseProblem (toks : List String) : Option Problem := do
  let n ← argNat toks "n"
  let lin ← argNat toks "lin"
  let X ← argF64s2 toks "X"
  let K ← argF64s2 toks "K"
  let y ← (arg toks "y").bind parseBools
  let p ← argF64s toks "p"
  let b ← argF64s toks "b"
  let a0 ← argF64s toks "a0"
  let eps ← argF64 toks "eps"
  if K.length != n || y.length != n || p.length != n || b.length != n || a0.length != n then none else
  if K.any (·.length != n) then none else
  let env : Env Float := { K := K, y0 := y, eps := eps, tiny := tiny64, inf := inf64 }
  some { n := n, lin := lin != 0, X := X, env := env, st := init env a0 p b y }

def showBools (l : List Bool) : String := showList (fun b => if b then "1" else "0") l

def dumpStr (s : St Float) : String :=
  s!"A={showList showF64c s.alpha}/U={showList showF64c s.ub}/G={showList showF64c s.grad}/H={showList showF64c s.gbar}" ++
  s!"/S={showList toString s.active}/N={s.nactive}/X={if s.unshrink then 1 else 0}/P={showList showF64c s.p}" ++
  s!"/Y={showBools s.y}/B={showList showF64c s.bounds}"

/-- one scripted step; `none` on an ill-formed token -/
def stepOne (e : Env Float) (s : St Float) (tok : String) : Option (St Float × String) :=
  match tok.splitOn "." with
  | ["u", a, b] => do
    let a ← a.toNat?; let b ← b.toNat?
    let na := s.nactive
    if na ≥ 2 then
      let i := a % na
      let j := b % na
      let j := if i == j then (i + 1) % na else j
      some (update e s i j, "")
    else some (s, "")
  | ["s", a, b] => do
    let a ← a.toNat?; let b ← b.toNat?
    let na := s.nactive
    if na ≥ 1 then some (swap s (a % na) (b % na), "") else some (s, "")
  | ["r"] => some (reconstructGradient e s, "")
  | ["d"] => some (doShrinking e s, "")
  | ["w"] =>
    let (i, j, opt) := selectWorkingSet e s
    let s' := if opt then s else update e s i j
    some (s', s!"/W={i}.{j}.{if opt then 1 else 0}")
  | ["h"] => some (s, s!"/R={showF64c (calculateRho e s)}")
  | _ => none

def handleStep (toks : List String) : Option String := do
  let pr ← parseProblem toks
  let script ← arg toks "script"
  let steps := splitOn' script ","
  let rec go (s : St Float) (acc : List String) : List String → Option (List String)
    | [] => some acc.reverse
    | t :: rest => do
      let (s', extra) ← stepOne pr.env s t
      go s' ((dumpStr s' ++ extra) :: acc) rest
  let outs ← go pr.st [dumpStr pr.st] steps
  some ("ok " ++ " ".intercalate outs)

def handleSolve (toks : List String) : Option String := do
  let pr ← parseProblem toks
  let shrink ← argNat toks "shrink"
  let fuel ← argNat toks "fuel"
  let d := (pr.X.headD []).length
  let r := solve pr.env thr64 (shrink != 0) fuel pr.X d pr.st
  if !r.finished || r.iterations ≥ fuel then some "ok longrun" else
  let w :=
    if pr.lin then s!"L:{showList showF64c r.linear}"
    else
      let rows := r.support.map fun i => pr.X.getD i []
      "V:" ++ (if rows.isEmpty then "none" else showList2 showF64c rows)
  some s!"ok it={r.iterations} thr=1 A={showList showF64c r.alpha} rho={showF64c r.rho} obj={showF64c r.obj} {w}"

def handle (toks : List String) : String :=
  let r := match toks with
    | "step" :: rest => handleStep rest
    | "solve" :: rest => handleSolve rest
    | _ => none
  r.getD "bad-op"

end LinfaSpec.Drv.C13
