import LinfaSpec.Model.Proto
import LinfaSpec.Model.Dataset

namespace LinfaSpec.Drv.C02
open LinfaSpec.Proto LinfaSpec.Dataset

/-- datasets of the correspondence: record cells and weights are identity tags
(`Nat`), labels travel as their codes (`Nat`) -/
abbrev D := DS Nat Nat Nat

def sortCounts (m : List (Nat × Nat)) : List (Nat × Nat) :=
  (m.toArray.qsort (fun a b => a.1 < b.1)).toList

def showNames (l : List String) : String := if l.isEmpty then "-" else ",".intercalate l
def showRows (r : List (List Nat)) : String := if r.isEmpty then "-" else showList2 toString r

def showCounts : Option (List (List (Nat × Nat))) → String
  | none => "x"
  | some cs => if cs.isEmpty then "-" else
    ";".intercalate (cs.map fun m => if m.isEmpty then "-" else
      ",".intercalate ((sortCounts m).map fun (l, c) => s!"{l}*{c}"))

def showDS (d : D) : String :=
  s!"{d.recs.length}x{d.p}x{d.t}x{if d.ix1 then 1 else 0}[R:{showRows d.recs}][T:{showRows d.tgts}]" ++
  s!"[W:{if d.weights.isEmpty then "-" else showList toString d.weights}][F:{showNames d.fnames}]" ++
  s!"[N:{showNames d.tnames}][C:{showCounts d.counts}]"

def ofBool (b : Bool) : Nat := if b then 1 else 0

/-- initial tagged dataset: record cell `(id, j)` = `id*8 + j`, weight of `id` = `1000 + id`,
feature names `f<j>`, target names `t<c>` -/
def initDS (n p t : Nat) (ix1 w fn tn cnt : Bool) (y : List (List Nat)) : D :=
  { p := p, t := t, ix1 := ix1,
    recs := (List.range n).map fun id => (List.range p).map fun j => id * 8 + j,
    tgts := y,
    weights := if w then (List.range n).map (1000 + ·) else [],
    fnames := if fn then (List.range p).map (s!"f{·}") else [],
    tnames := if tn then (List.range t).map (s!"t{·}") else [],
    counts := if cnt then some (labelCount t y) else none }

/-- one-vs-all output with its boolean labels written as codes 0/1 -/
def boolDS (d : DS Nat Bool Nat) : D :=
  { mapTargets ofBool d with
    counts := d.counts.map fun (cs : List (List (Bool × Nat))) =>
      cs.map fun m => m.map fun (bc : Bool × Nat) => (ofBool bc.1, bc.2) }

def argBool (f : List String) (k : String) : Option Bool :=
  match argNat f k with
  | some 0 => some false
  | some 1 => some true
  | _ => none

/-- what a step of a history answers -/
inductive StepRes where
  | bad
  | panic
  /-- the request lies outside what the property promises (ratio outside [0,1], bootstrap from
  nothing, documented panics): not compared, the history ends -/
  | unpromised
  | ok (txt : String) (outs : List D)

def inUnit (r : Float32) : Bool := decide ((0 : Float32) ≤ r) && decide (r ≤ (1 : Float32))

def dump (outs : List D) : String := "+".intercalate (outs.map showDS)

def wrap : Option (List D) → StepRes
  | none => .panic
  | some outs => .ok (dump outs) outs

def showFreqs (m : List (Nat × Nat)) : String :=
  if m.isEmpty then "-" else ",".intercalate ((sortCounts m).map fun (l, c) => s!"{l}*{c}")

/-- one step: the response text of the step and the datasets it returned -/
def step (name : String) (f : List String) (ds : D) : StepRes :=
  let r : Option StepRes := do
    match name with
    | "splitV" =>
      let r ← (arg f "r").bind parseF32
      if !inUnit r then pure .unpromised
      else pure (wrap ((splitView (ceilRatio ds.n r) ds).map fun (a, b) => [a, b]))
    | "splitO" =>
      let r ← (arg f "r").bind parseF32
      let std ← argBool f "std"
      if ds.counted then none
      else if !inUnit r || !std then pure .unpromised
      else pure (wrap ((splitOwned std (ceilRatio ds.n r) ds).map fun (a, b) => [a, b]))
    | "shuffle" =>
      let idx ← argNats f "idx"
      pure (wrap ((shuffle idx ds).map ([·])))
    | "boot" =>
      let ns ← argNat f "ns"; let nf ← argNat f "nf"
      let idx ← argNats f "idx"; let fidx ← argNats f "fidx"
      if (0 < ns ∧ ds.n = 0) ∨ (0 < nf ∧ ds.p = 0) then pure .unpromised
      else match bootstrap ns nf idx fidx ds with
        | none => pure .panic
        | some d => if idx.length = ns ∧ fidx.length = nf then pure (wrap (some [d])) else none
    | "bootS" =>
      let ns ← argNat f "ns"; let idx ← argNats f "idx"
      if 0 < ns ∧ ds.n = 0 then pure .unpromised
      else match bootstrapSamples ns idx ds with
        | none => pure .panic
        | some d => if idx.length = ns then pure (wrap (some [d])) else none
    | "bootF" =>
      let nf ← argNat f "nf"; let fidx ← argNats f "fidx"
      if 0 < nf ∧ ds.p = 0 then pure .unpromised
      else match bootstrapFeatures nf fidx ds with
        | none => pure .panic
        | some d => if fidx.length = nf then pure (wrap (some [d])) else none
    | "withLabels" =>
      let labs ← argNats f "labs"
      pure (wrap ((withLabels labs ds).map ([·])))
    | "oneVsAll" =>
      if !ds.ix1 then none
      else
        let outs := (oneVsAll ds).map fun (l, d) =>
          (l, boolDS d)
        let sorted := (outs.toArray.qsort (fun a b => a.1 < b.1)).toList
        pure (.ok ("+".intercalate (sorted.map fun (l, d) => s!"{l}>{showDS d}")) (sorted.map (·.2)))
    | "map" =>
      let tab ← argNats f "tab"
      pure (wrap (some [mapTargets (fun c => tab.getD c c) ds]))
    | "view" => pure (wrap (some [view ds]))
    | "toOwned" => pure (wrap (some [toOwned ds]))
    | "intoSingle" =>
      if ds.ix1 ∨ ds.counted then none
      else if ds.t ≠ 1 then pure .unpromised
      else pure (wrap ((intoSingleTarget ds).map ([·])))
    | "sampleIter" =>
      match sampleIter ds with
      | none => pure .panic
      | some prs =>
        let s := if prs.isEmpty then "-" else
          ";".intercalate (prs.map fun (r, g) => s!"{showList toString r}>{showList toString g}")
        pure (.ok s [ds])
    | "featureIter" => pure (wrap (featureIter ds))
    | "targetIter" => pure (wrap (targetIter ds))
    | "chunks" =>
      let size ← argNat f "size"
      if size = 0 then pure .unpromised else pure (wrap (sampleChunks size ds))
    | "weightFor" =>
      -- `weight_for(i)` for `i = 0 .. n+1` (two positions past the end)
      pure (.ok (showList toString ((List.range (ds.n + 2)).map (weightFor 1 ds))) [ds])
    | "labelFreq" =>
      let mask ← argNats f "mask"
      pure (.ok (showFreqs (labelFreqsWithMask 0 1 (mask.map (· != 0)) ds)) [ds])
    | _ => none
  r.getD .bad

/-- runs the steps; the response lists every step's outputs; a panic ends the history -/
def runSteps : List String → D → List String → Option (List String)
  | [], _, acc => some acc.reverse
  | tok :: rest, ds, acc =>
    match tok.splitOn ":" with
    | [] => none
    | name :: f =>
      match step name f ds with
      | .bad => none
      | .panic => some ((s!"{name}:panic") :: acc).reverse
      | .unpromised => some ((s!"{name}:unpromised") :: acc).reverse
      | .ok txt outs =>
        match argNat f "pick" with
        | none => none
        | some k =>
          let acc := s!"{name}:{txt}" :: acc
          match outs[k]? with
          | none => if rest.isEmpty ∧ outs.isEmpty then some acc.reverse else none
          | some d => runSteps rest d acc

def handleSeq (toks : List String) : Option String := do
  let n ← argNat toks "n"; let p ← argNat toks "p"; let t ← argNat toks "t"
  let ix1 ← argBool toks "ix1"; let w ← argBool toks "w"; let fn ← argBool toks "fn"
  let tn ← argBool toks "tn"; let cnt ← argBool toks "cnt"
  let y ← argNats2 toks "y"
  let ops ← arg toks "ops"
  if y.length ≠ n ∨ y.any (·.length ≠ t) ∨ (ix1 ∧ t ≠ 1) then none
  else
    let ds := initDS n p t ix1 w fn tn cnt y
    let outs ← runSteps (splitOn' ops "/") ds []
    pure ("ok init:" ++ showDS ds ++ (if outs.isEmpty then "" else " " ++ " ".intercalate outs))

/-- `ceil n=<n> r=<f32 bits>`: the split point -/
def handleCeil (toks : List String) : Option String := do
  let n ← argNat toks "n"
  let r ← (arg toks "r").bind parseF32
  -- `split_at` panics when the split point lies beyond the last sample
  pure (if ceilRatio n r ≤ n then s!"ok {ceilRatio n r}" else "panic")

def handle (toks : List String) : String :=
  let r := match toks with
    | "seq" :: rest => handleSeq rest
    | "ceil" :: rest => handleCeil rest
    -- the owned split computes the same expression (and panics beyond the last sample)
    | "ceilo" :: rest => handleCeil rest
    | _ => none
  r.getD "bad-op"

end LinfaSpec.Drv.C02
